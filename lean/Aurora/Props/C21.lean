import Aurora.Lemmas.PSlice
import Aurora.Lemmas.PSliceLocks
import Aurora.Lemmas.PSliceMem
/-!
# C21 — Proximity-indexed peer sets behave as sets

Property theorems only (helper lemmas: `Aurora/Lemmas/PSlice.lean`, `LockSet.lean`,
`PSliceLocks.lean`).  The model is `Aurora/Model/PSlice.lean`, a transcription of
`/repo/pkg/topology/pslice/pslice.go` after the `fix:` commit (batch `Add` re-checks the bin
before each append).  Vocabulary: `Mem s x` = "`x` is stored in some bin"; `Inv s` = the
representation invariant (one bin per index, `1 ≤ maxBins ≤ 256`, no bin holds an address twice,
every address sits in bin `po s x`); `run s ops` = the slice after a history of `Add`/`Remove`
calls; `specRun S ops` = the set `added \ removed` (sets are predicates `Addr → Prop`);
`allPeers s` = concatenation of the bins; `entries s is` = the `(bin, address)` pairs in the order
of the bin indices `is`; `specIter` = the specification of iteration with stop / next / error on
that flat list.  Histories, addresses (any length, also different from the base's), batch
contents and callbacks are arbitrary — no bound.
-/
namespace Aurora.PSlice
open Aurora.Proximity

/-- Clause "after any sequence of single and batched additions and removals the set contains
    exactly the added and not removed addresses": refinement of the slice to the set
    `added \ removed`, together with the representation invariant, for every history. -/
theorem C21_refines_set (m : Nat) (base : Addr) (h1 : 1 ≤ m) (h2 : m ≤ 256) (ops : List Op) :
    Inv (run (new m base) ops) ∧
    ∀ x, Mem (run (new m base) ops) x ↔ specRun (fun _ => False) ops x :=
  run_refines ops (new m base) (inv_new m base h1 h2) (fun _ => False)
    (fun x => ⟨fun h => not_mem_new m base x h, fun h => h.elim⟩)

/-- One step of the refinement, spelled out: what `Add` (single or batch, with repeated and
    already-present addresses) and `Remove` do to the set. -/
theorem C21_add_remove_spec (s : PS) (h : Inv s) (addrs : List Addr) (a x : Addr) :
    (Mem (add s addrs) x ↔ Mem s x ∨ x ∈ addrs) ∧ (Mem (remove s a) x ↔ Mem s x ∧ x ≠ a) ∧
    Inv (add s addrs) ∧ Inv (remove s a) :=
  ⟨mem_add s h addrs x, mem_remove s h a x, inv_add s h addrs, inv_remove s h a⟩

/-- Clause "each once": in every reachable state the concatenation of all bins has no duplicates
    and lists exactly the members. -/
theorem C21_nodup (m : Nat) (base : Addr) (h1 : 1 ≤ m) (h2 : m ≤ 256) (ops : List Op) :
    (allPeers (run (new m base) ops)).Nodup ∧
    ∀ x, x ∈ allPeers (run (new m base) ops) ↔ Mem (run (new m base) ops) x :=
  ⟨nodup_allPeers _ (C21_refines_set m base h1 h2 ops).1, mem_allPeers _⟩

/-- Clause "in the bin given by its proximity to the base (capped at the last bin)". -/
theorem C21_bin_correct (s : PS) (h : Inv s) (i : Nat) (x : Addr) (hx : x ∈ bin s i) :
    i = min (proximity s.base x) (s.maxBins - 1) ∧ i < s.maxBins := by
  have := h.inbin i x hx
  rw [po_eq_min s h.pos h.le] at this
  have hp := h.pos
  exact ⟨this.symm, by omega⟩

/-- `Length()` is the cardinality of the set (length of a duplicate-free listing of the members). -/
theorem C21_length_spec (s : PS) (h : Inv s) :
    length s = (allPeers s).length ∧ (allPeers s).Nodup ∧ ∀ x, x ∈ allPeers s ↔ Mem s x :=
  ⟨length_eq s, nodup_allPeers s h, mem_allPeers s⟩

/-- `BinSize(i)` is the number of members whose bin is `i` (`bin s i` is a duplicate-free listing
    of exactly these), and `0` past the last bin; `BinPeers(i)` is that listing. -/
theorem C21_binSize_spec (s : PS) (h : Inv s) (i : Nat) :
    (s.maxBins ≤ i → binSize s i = 0 ∧ binPeers s i = []) ∧
    (i < s.maxBins → binSize s i = (bin s i).length ∧ binPeers s i = bin s i) ∧
    (bin s i).Nodup ∧ ∀ x, x ∈ bin s i ↔ Mem s x ∧ po s x = i := by
  refine ⟨?_, ?_, h.nodup i, mem_bin_iff s h i⟩
  · intro hi; simp [binSize, binPeers, hi]
  · intro hi
    have : ¬ (i ≥ s.maxBins) := by omega
    simp [binSize, binPeers, this]

/-- `ShallowestEmpty()`: answers bin `r` iff bin `r` is empty and every shallower bin is not;
    answers "none" iff no bin is empty. -/
theorem C21_shallowestEmpty_spec (s : PS) (h : Inv s) :
    (∀ r, shallowestEmpty s = some r →
        r < s.maxBins ∧ bin s r = [] ∧ ∀ j, j < r → bin s j ≠ []) ∧
    (shallowestEmpty s = none → ∀ j, j < s.maxBins → bin s j ≠ []) := by
  constructor
  · intro r hr
    obtain ⟨_, h2, h3, h4⟩ := shallowestEmptyFrom_some s.bins 0 r (by have := h.len; have := h.le; omega) hr
    simp only [Nat.sub_zero] at h2 h3 h4
    refine ⟨by rw [← h.len]; exact h2, ?_, ?_⟩
    · rw [bins_get_eq s r h2] at h3; simpa using h3
    · intro j hj hb
      apply h4 j hj
      rw [bins_get_eq s j (by omega), hb]
  · intro hn j hj hb
    apply shallowestEmptyFrom_none s.bins 0 hn j (by rw [h.len]; exact hj)
    rw [bins_get_eq s j (by rw [h.len]; exact hj), hb]

/-- `Exists(a)` is membership. -/
theorem C21_exists_spec (s : PS) (h : Inv s) (a : Addr) : «exists» s a = true ↔ Mem s a := by
  unfold «exists»
  rw [index_isSome, mem_iff s h]

/-- Clause "deepest-first iteration, including early stop and skip-to-next-bin": `EachBin` with any
    callback (that does not itself change the slice) is the flat specification `specIter` run on
    the `(bin, address)` pairs listed from bin `maxBins-1` down to bin `0`. -/
theorem C21_eachBin_order {σ : Type} (s : PS) (pf : σ → Addr → Nat → σ × Ctl) (st : σ) :
    eachBin (fun _ => s) pf st = specIter pf (entries s (List.range s.maxBins).reverse) none st :=
  eachBins_spec s pf _ st (List.nodup_reverse.2 List.nodup_range)

/-- Clause "shallowest-first iteration": same for `EachBinRev`, bins `0 … maxBins-1`. -/
theorem C21_eachBinRev_order {σ : Type} (s : PS) (pf : σ → Addr → Nat → σ × Ctl) (st : σ) :
    eachBinRev (fun _ => s) pf st = specIter pf (entries s (List.range s.maxBins)) none st :=
  eachBins_spec s pf _ st List.nodup_range

/-- the listing that iteration walks agrees with the set: a pair `(i, x)` is listed iff `x` is a
    member whose bin is `i` (for a bin index in range). -/
theorem C21_entries_spec (s : PS) (h : Inv s) (is : List Nat) (i : Nat) (x : Addr) :
    (i, x) ∈ entries s is ↔ i ∈ is ∧ Mem s x ∧ po s x = i := by
  unfold entries
  rw [List.mem_flatMap]
  constructor
  · intro ⟨j, hj, hm⟩
    obtain ⟨p, hp, he⟩ := List.mem_map.1 hm
    have e1 : j = i := by have := congrArg Prod.fst he; simpa using this
    have e2 : p = x := by have := congrArg Prod.snd he; simpa using this
    subst e1; subst e2
    exact ⟨hj, (mem_bin_iff s h j p).1 hp⟩
  · intro ⟨hi, hm⟩
    exact ⟨i, hi, List.mem_map.2 ⟨x, (mem_bin_iff s h i x).2 hm, rfl⟩⟩

/-- What the repair of the batch path changed: before it, `Add(a, a)` on an empty slice stored `a`
    twice (`Length() = 2`), so "each once" failed. -/
theorem C21_addOld_counterexample :
    ¬ (allPeers (addOld (new 2 [0#8]) [[0x80#8], [0x80#8]])).Nodup ∧
    length (addOld (new 2 [0#8]) [[0x80#8], [0x80#8]]) = 2 ∧
    length (add (new 2 [0#8]) [[0x80#8], [0x80#8]]) = 1 := by
  decide

/-! ### Race freedom (lock-set argument over generated facts)

`Aurora.Generated.PSliceLocks.accesses` is regenerated from `pslice.go` on every run: one row per
syntactic access to `s.peers` / `s.baseBytes` in a method of `*PSlice` (helpers `po`/`index`
inlined at their call sites), with the state of `s.mu` at that point. -/

open Aurora.Generated.PSliceLocks Aurora.LockSet Aurora.PSliceLocks in
/-- every access to the guarded fields happens with `mu` held — writes under `Lock`, reads under
    `Lock` or `RLock`; the table is not empty, covers every method of the file, and no method
    writes any other field. -/
theorem C21_lockset_table :
    accesses.all disciplined = true ∧ accesses ≠ [] ∧
    methods.all (fun m => accesses.any (fun a => a.method == m || a.via == m)) = true ∧
    structFields = ["peers", "baseBytes", "mu", "maxBins"] ∧ otherFieldWrites = [] :=
  ⟨table_disciplined, table_nonempty, methods_have_rows, struct_fields, no_other_writes⟩

open Aurora.Generated.PSliceLocks Aurora.LockSet Aurora.PSliceLocks in
/-- Clause "iteration concurrent with updates is free of data races", for the slice-header array
    `s.peers` and `s.baseBytes`: in every reachable state of the RWMutex, two table rows executed at
    the same moment by different goroutines, each holding the mutex the way its row says, are both
    reads. -/
theorem C21_no_race (s : St) (hs : Reachable s) (a1 a2 : Access)
    (h1 : a1 ∈ accesses) (h2 : a2 ∈ accesses) (t1 t2 : Tid) (hne : t1 ≠ t2)
    (held1 : heldAs a1 s t1) (held2 : heldAs a2 s t2) :
    a1.write = false ∧ a2.write = false :=
  pslice_no_race s hs a1 a2 h1 h2 t1 t2 hne held1 held2

/-! ### Snapshot isolation (backing-array model `Aurora/Model/PSliceMem.lean`) -/

open Aurora.PSliceMem in
/-- Clause "iteration concurrent with updates", for the *elements* that `EachBin/EachBinRev` read
    after releasing the lock: start from `New`, let any sequence `before` of memory writes happen,
    take the slice header of any bin `i` (the snapshot `peers := s.peers[i]`), then let any
    further sequence `after` of writes by `Add`/`Remove` happen (in-place append at index `len`,
    or allocation of a fresh array): the snapshot still reads exactly the same elements — no
    location the reader looks at is ever written again. -/
theorem C21_snapshot_isolated (maxBins : Nat) (before after : List Prim) (i : Nat) (hi : i < maxBins) :
    let m := Aurora.PSliceMem.run (init maxBins) before
    read (Aurora.PSliceMem.run m after) (hdr m i) = read m (hdr m i) := by
  intro m
  have hw : WF m := wf_run before _ (wf_init maxBins)
  have hl : m.bins.length = maxBins := by
    show (Aurora.PSliceMem.run (init maxBins) before).bins.length = maxBins
    rw [bins_length_run]; simp [init]
  exact run_isolated after m (hdr m i) (stable_of_wf m hw i (by omega))

open Aurora.PSliceMem in
/-- the same for one write, as an invariant: any stable snapshot (in particular any header read
    from a well-formed memory) is unaffected by a write and remains stable; well-formedness is
    preserved. -/
theorem C21_write_preserves_snapshots (m : Aurora.PSliceMem.Mem) (hw : WF m) (h : Hdr) (hs : Stable m h) (p : Prim) :
    read (step m p) h = read m h ∧ Stable (step m p) h ∧ WF (step m p) :=
  ⟨(step_isolated m h hs p).1, (step_isolated m h hs p).2, wf_step m hw p⟩

/-! Non-vacuity. -/
open Aurora.PSliceMem in
example : read (Aurora.PSliceMem.run (init 2) [.realloc 0 [[1#8], []] 1 2, .write 0 [2#8]]) ⟨1, 1, 2⟩ = [[1#8]] := by
  decide
open Aurora.PSliceMem in
example : read (Aurora.PSliceMem.run (init 2) [.realloc 0 [[1#8], []] 1 2, .write 0 [2#8]])
    (hdr (Aurora.PSliceMem.run (init 2) [.realloc 0 [[1#8], []] 1 2, .write 0 [2#8]]) 0) = [[1#8], [2#8]] := by
  decide
example : Inv (new 32 [1#8, 2#8]) := inv_new _ _ (by decide) (by decide)
example : Mem (run (new 2 [0#8]) [.add [[0x80#8], [0x01#8]], .remove [0x80#8]]) [0x01#8] :=
  ⟨1, by decide⟩
example : ¬ Mem (run (new 2 [0#8]) [.add [[0x80#8], [0x01#8]], .remove [0x80#8]]) [0x80#8] := by
  rw [(C21_refines_set 2 [0#8] (by decide) (by decide) _).2]
  simp [specRun, specStep]
example : shallowestEmpty (add (new 2 [0#8]) [[0x01#8]]) = some 0 := by decide
open Aurora.LockSet in
example : Reachable ⟨[(1, .r), (2, .r)]⟩ :=
  .step (.step .init (.acqR _ 2 (by simp))) (.acqR _ 1 (by simp))

end Aurora.PSlice
