package c28

// Network-level simulation: N real Services, a deterministic scheduler, invariants after every step.

import (
	"context"
	"fmt"
	"strconv"
	"strings"
	"time"

	"github.com/ethereum/go-ethereum/common"
	"github.com/gauss-project/aurorafs/pkg/p2p/protobuf"
	"github.com/gauss-project/aurorafs/pkg/routetab"
	"github.com/gauss-project/aurorafs/pkg/routetab/pb"

	"verifharness/core"
)

type simNet struct {
	n      int
	nodes  []*simNode
	adj    [][]bool
	alpha  int
	ttl    int
	flight []packet
	steps  int
}

func (s *simNet) close() {
	for _, n := range s.nodes {
		n.close()
	}
}

func (s *simNet) collect(from int) {
	for _, p := range decode(from, s.nodes[from].str.take()) {
		if p.kind == "Q" || p.kind == "R" {
			s.flight = append(s.flight, p)
		}
	}
}

// checkPath: C28's path predicate, evaluated directly on a path of node indices.
func (s *simNet) checkPath(ctx *core.Ctx, where string, p []int) {
	if hasDup(p) {
		ctx.Fail(where+"-path-duplicate", "%s path %v repeats a node", where, p)
	}
	for i := 0; i+1 < len(p); i++ {
		if p[i] >= s.n || p[i+1] >= s.n || !s.adj[p[i]][p[i+1]] {
			ctx.Fail(where+"-path-not-walk", "%s path %v: %d-%d is not a neighbour link", where, p, p[i], p[i+1])
			break
		}
	}
}

func (s *simNet) invariants(ctx *core.Ctx) {
	for i, n := range s.nodes {
		n.svc.VerifTable().VerifEachPath(func(_ common.Hash, p *routetab.Path) {
			ip := make([]int, len(p.Items))
			for k, a := range p.Items {
				ip[k] = idx(a)
			}
			s.checkPath(ctx, "stored", ip)
			if contains(ip, i) {
				ctx.Fail("stored-path-contains-self", "node %d stores %v", i, ip)
			}
			if len(ip) > s.ttl {
				ctx.Fail("stored-path-too-long", "node %d stores %v, ttl %d", i, ip, s.ttl)
			}
			if len(ip) > 0 && !s.adj[i][ip[len(ip)-1]%universe] {
				ctx.Fail("stored-path-last-not-neighbor", "node %d stores %v whose last hop is not its neighbour", i, ip)
			}
		})
		// what the node returns
		for t := 0; t < s.n; t++ {
			ps, err := n.svc.GetRoute(context.Background(), ids[t].overlay)
			if err != nil {
				continue
			}
			for _, p := range ps {
				ip := make([]int, len(p.Items))
				for k, a := range p.Items {
					ip[k] = idx(a)
				}
				if len(ip) == 0 || !contains(ip[:len(ip)-1], t) {
					ctx.Fail("returned-path-without-target", "node %d returns %v for target %d", i, ip, t)
				}
			}
		}
	}
	for _, p := range s.flight {
		var ps [][]int
		if p.kind == "Q" {
			ps = idxPaths(p.req.Paths)
		} else {
			ps = idxPaths(p.resp.Paths)
		}
		if !s.adj[p.from][p.to%universe] {
			ctx.Fail("message-to-non-neighbor", "%s sent from %d to %d", p.kind, p.from, p.to)
		}
		for _, q := range ps {
			s.checkPath(ctx, "flight", q)
			if len(q) == 0 || q[len(q)-1] != p.from {
				ctx.Fail("flight-path-not-ending-in-sender", "path %v sent by %d", q, p.from)
			}
		}
	}
}

func (s *simNet) deliverAt(ctx *core.Ctx, k int, drop bool, r *core.Rand) {
	p := s.flight[k]
	s.flight = append(append([]packet(nil), s.flight[:k]...), s.flight[k+1:]...)
	s.steps++
	if drop || p.to >= s.n {
		return
	}
	var msg protobuf.Message
	name := "onRouteReq"
	if p.kind == "Q" {
		msg = p.req
	} else {
		msg, name = p.resp, "onRouteResp"
	}
	withRand(r.Bytes(6), func() { _ = s.nodes[p.to].deliver(name, p.from, msg) })
	s.collect(p.to)
	s.invariants(ctx)
}

// bound on the number of scheduler steps a finite batch of in-flight messages can cause: every
// delivery replaces a message by at most n messages of strictly smaller rank; ranks < 2*ttl+4.
func (s *simNet) stepBound() int {
	b := len(s.flight) + 1
	for i := 0; i < 2*s.ttl+4 && b < 2_000_000; i++ {
		b *= s.n + 1
	}
	if b > 200_000 {
		b = 200_000
	}
	return b
}

func (rn *runner) netStep(ctx *core.Ctx, op []string) string {
	if op[0] == "net" {
		if len(op) != 6 {
			return "bad-op"
		}
		n, e1 := strconv.Atoi(op[1])
		a, e2 := strconv.Atoi(op[3])
		l, e3 := strconv.Atoi(op[4])
		pub, ok := parseList(op[5], ",")
		if e1 != nil || e2 != nil || e3 != nil || !ok || n < 1 || n > universe || a < 1 || l < 0 {
			return "bad-op"
		}
		adj := make([][]bool, universe)
		for i := range adj {
			adj[i] = make([]bool, universe)
		}
		order := make([][]int, n)
		if op[2] != "-" {
			for _, e := range strings.Split(op[2], ",") {
				xy := strings.Split(e, "-")
				if len(xy) != 2 {
					return "bad-op"
				}
				x, e1 := strconv.Atoi(xy[0])
				y, e2 := strconv.Atoi(xy[1])
				if e1 != nil || e2 != nil || x < 0 || y < 0 || x >= n || y >= n || x == y {
					return "bad-op"
				}
				if !adj[x][y] {
					adj[x][y], adj[y][x] = true, true
					order[x] = append(order[x], y)
					order[y] = append(order[y], x)
				}
			}
		}
		if rn.net != nil {
			rn.net.close()
		}
		setGlobals(a, l)
		s := &simNet{n: n, adj: adj, alpha: a, ttl: l}
		for i := 0; i < n; i++ {
			class := make([]int, len(order[i]))
			for k, nb := range order[i] {
				class[k] = 1
				if contains(pub, nb) {
					class[k] = 0
				}
			}
			// every node knows the underlay of its neighbours (as after a libp2p handshake)
			s.nodes = append(s.nodes, newSimNode(i, order[i], class, order[i]))
		}
		rn.net = s
		return "ok"
	}
	if rn.net == nil {
		return "nonet"
	}
	s := rn.net
	setGlobals(s.alpha, s.ttl)
	switch {
	case op[0] == "nfind" && len(op) == 4:
		i, e1 := strconv.Atoi(op[1])
		t, e2 := strconv.Atoi(op[2])
		rnd, e3 := core.UnHex(op[3])
		if e1 != nil || e2 != nil || e3 != nil || i < 0 || t < 0 {
			return "bad-op"
		}
		if i >= s.n || t >= s.n {
			return "ok"
		}
		withRand(rnd, func() { _, _ = s.nodes[i].svc.FindRoute(context.Background(), ids[t].overlay, time.Millisecond) })
		s.collect(i)
		s.invariants(ctx)
		return "ok"
	case op[0] == "nrun" && len(op) == 4:
		k, e1 := strconv.Atoi(op[1])
		seed, e2 := strconv.Atoi(op[2])
		dp, e3 := strconv.Atoi(op[3])
		if e1 != nil || e2 != nil || e3 != nil || k < 0 || seed < 0 || dp < 0 {
			return "bad-op"
		}
		r := core.NewRand(uint64(seed))
		for ; k > 0 && len(s.flight) > 0; k-- {
			s.deliverAt(ctx, r.Intn(len(s.flight)), r.Chance(dp), r)
		}
		return "ok"
	case op[0] == "nquiesce" && len(op) == 2:
		seed, e1 := strconv.Atoi(op[1])
		if e1 != nil || seed < 0 {
			return "bad-op"
		}
		r := core.NewRand(uint64(seed))
		bound := s.stepBound()
		for k := 0; len(s.flight) > 0; k++ {
			if k >= bound {
				ctx.Fail("discovery-does-not-terminate", "%d messages still in flight after %d deliveries (n=%d ttl=%d)", len(s.flight), k, s.n, s.ttl)
				s.flight = nil
				break
			}
			s.deliverAt(ctx, r.Intn(len(s.flight)), r.Chance(5), r)
		}
		return "ok"
	case op[0] == "nrelay" && len(op) == 4:
		i, e1 := strconv.Atoi(op[1])
		t, e2 := strconv.Atoi(op[2])
		seed, e3 := strconv.Atoi(op[3])
		if e1 != nil || e2 != nil || e3 != nil || i < 0 || t < 0 || seed < 0 {
			return "bad-op"
		}
		if i >= s.n || t >= s.n || i == t {
			return "ok"
		}
		r := core.NewRand(uint64(seed))
		// follow a conn-chain relay hop by hop through the real handlers
		cur, from := i, i
		path := []int{}
		for hop := 0; hop < 4*universe; hop++ {
			if cur == t {
				break
			}
			msg := &pb.RouteRelayReq{Src: ids[i].overlay.Bytes(), SrcMode: full.Bv.Bytes(), Dest: ids[t].overlay.Bytes(),
				ProtocolName: []byte("x"), ProtocolVersion: []byte("1"), StreamName: []byte("y"), Paths: itemsOf(path)}
			name := routetab.StreamOnRelayConnChain
			if r.Bool() {
				name = routetab.StreamOnRelay
			}
			n := s.nodes[cur]
			n.str.take()
			withRand(r.Bytes(6), func() { _ = n.deliver(name, from, msg) })
			out := decode(cur, n.str.take())
			next := -1
			for _, p := range out {
				switch p.kind {
				case "C", "P":
					next = p.to
					path = idxPath(p.relay.Paths)
				case "Q", "R": // a route discovery started by the relay
					s.flight = append(s.flight, p)
				}
			}
			s.invariants(ctx)
			if next < 0 {
				break
			}
			if next != t && contains(path, next) {
				ctx.Fail("relay-revisit", "relay %d->%d: node %d forwards to %d which is on the path %v", i, t, cur, next, path)
				break
			}
			if next >= s.n || !s.adj[cur][next] {
				ctx.Fail("relay-to-non-neighbor", fmt.Sprintf("relay %d->%d: node %d forwards to %d", i, t, cur, next))
				break
			}
			from, cur = cur, next
			if hop == 4*universe-1 {
				ctx.Fail("relay-does-not-terminate", "relay %d->%d still travelling after %d hops: %v", i, t, hop+1, path)
			}
		}
		return "ok"
	}
	return "bad-op"
}
