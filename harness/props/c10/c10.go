// Package c10: correspondence + oracle for directory manifests (property C10):
// manifest.NewDefaultManifest / NewDefaultManifestReference (pkg/manifest/mantaray.go over the
// dependency gauss-project/manifest/mantaray) persisted through pkg/file/loadsave into a real
// in-memory chunk store.  The oracle is a plain Go map.
package c10

import (
	"bytes"
	"context"
	"encoding/binary"
	"errors"
	"fmt"
	"os"
	"sort"
	"strconv"
	"strings"

	"github.com/gauss-project/aurorafs/pkg/boson"
	"github.com/gauss-project/aurorafs/pkg/file"
	"github.com/gauss-project/aurorafs/pkg/file/loadsave"
	"github.com/gauss-project/aurorafs/pkg/file/pipeline"
	"github.com/gauss-project/aurorafs/pkg/file/pipeline/builder"
	"github.com/gauss-project/aurorafs/pkg/manifest"
	"github.com/gauss-project/aurorafs/pkg/storage"
	smock "github.com/gauss-project/aurorafs/pkg/storage/mock"

	"verifharness/core"
)

type prop struct{}

func init() { core.Register(prop{}) }

func (prop) ID() string { return "C10" }
func (prop) Rule() string {
	return "cases: 6-40 ops on one manifest (`new 0|1` optionally restarts it plain/encrypted): add <path> <ref> <meta> / remove <path> / store / reload / lookup <path> / hasprefix <prefix>. " +
		"Paths over {a,b,/,.} of length 1-40 (some 31-70 bytes for the 30-byte fork-prefix split), drawn so that shared prefixes, nesting, overwrites and path/extension pairs are frequent; " +
		"three streams: clean (adds with metadata, removes only of keys without extensions and only before the first store — the guard of the partial theorem), mixed (anything), and directed histories for every recorded finding. " +
		"Big-node cases: fixed `fix-bignode-*` histories (six siblings with 43-56 KB of metadata each, written as the run-length value `c~n`, so that exactly the root node / exactly one inner node / an encrypted inner node is a blob larger than one 256 KiB chunk, and blobs of exactly C and C+32 bytes) with store, reload and lookup/hasprefix of every path, and ~5% of the generated histories start with 4-7 such siblings (38-59 KB each); " +
		"`lsroundtrip <size> <seed>` (Load(Save(x)) = x on the manifest's own load-saver) at 0,1,31,32,4096,C-1,C,C+1,2C+5 plain and encrypted in `fix-lsroundtrip` and in ~6% of the generated histories. " +
		"Every case ends by observing all keys ever used plus prefixes. Non-trivial: >=3 adds, >=1 store+reload and >=3 observations; distinct by op-list hash."
}

type val struct {
	ref  byte
	meta string
}

type runner struct {
	ctx  context.Context
	st   storage.Storer
	ls   file.LoadSaver
	enc  bool
	m    manifest.Interface
	last *boson.Address
	dead bool

	// ---- oracle (model-free): the mapping, and which paths a recorded finding may affect
	mp        map[string]val
	snap      map[string]val // the mapping as of the last successful Store (what a reload must show)
	refsEver  map[string]map[byte]bool
	metasEver map[string]map[string]bool
	dropped   map[string]bool // keys that extended a removed path
	removeNP  map[string]bool // removed after a store/reload of this history
	addNP     map[string]bool // added after (store|reload ; read) on the same object
	metaKeep  map[string]bool // overwritten with empty metadata after having had metadata
	removed   []string        // paths whose removal answered ok
	persisted bool            // a store or reload happened in this history
	stuck     bool            // persisted object has been read since (its nodes keep their ref)
	overwrote bool            // since the last reload an add ended at an existing node (store may fail)
	orphaned  map[string]bool // keys below a node that an add overwrote while it was not loaded
	orphanTop map[string]bool // the paths of those adds
	emptyAdd  bool
}

func (prop) New() core.Runner {
	rn := &runner{ctx: context.Background()}
	rn.reset(false)
	return rn
}
func (*runner) Close() {}

// spanStore remembers the spans of the intermediate root chunks put since the last reset (plain manifests
// only: an encrypted span is not readable here).  Development aid (VERIF_C10_DEBUG=1 prints the blob
// sizes a Store wrote, to check which node of a big-node case crosses one chunk).
type spanStore struct {
	storage.Storer
	big []uint64
}

func (s *spanStore) Put(ctx context.Context, mode storage.ModePut, chs ...boson.Chunk) ([]bool, error) {
	for _, c := range chs {
		if d := c.Data(); len(d) >= 8 {
			if sp := binary.LittleEndian.Uint64(d[:8]); sp >= boson.ChunkSize-4096 && sp < 1<<40 {
				s.big = append(s.big, sp)
			}
		}
	}
	return s.Storer.Put(ctx, mode, chs...)
}

func (rn *runner) reset(enc bool) {
	rn.st = &spanStore{Storer: smock.NewStorer()}
	rn.enc = enc
	ls := loadsave.New(rn.st, func() pipeline.Interface {
		return builder.NewPipelineBuilder(rn.ctx, rn.st, storage.ModePutUpload, enc)
	})
	rn.ls = ls
	rn.m, _ = manifest.NewDefaultManifest(ls, enc)
	rn.last, rn.dead = nil, false
	rn.mp, rn.snap = map[string]val{}, nil
	rn.refsEver, rn.metasEver = map[string]map[byte]bool{}, map[string]map[string]bool{}
	rn.dropped, rn.removeNP, rn.addNP, rn.metaKeep = map[string]bool{}, map[string]bool{}, map[string]bool{}, map[string]bool{}
	rn.removed = nil
	rn.orphaned, rn.orphanTop = map[string]bool{}, map[string]bool{}
	rn.persisted, rn.stuck, rn.overwrote, rn.emptyAdd = false, false, false, false
}

func (rn *runner) entry(b byte) boson.Address {
	n := 32
	if rn.enc {
		n = 64
	}
	return boson.NewAddress(bytes.Repeat([]byte{b}, n))
}

// Metadata token: `k=v;k=v` (keys ascending, [a-z0-9]) or `-`.  A value is a literal of at most maxLit
// characters or — for the big-node cases — ONE run-length value `<c>~<n>` (character c repeated n times,
// maxLit < n <= maxRun, no leading zero).  The form is canonical: a long value can only be written as a
// run, a short one only as a literal, so the token itself is the canonical output on both sides.
const (
	maxLit = 64
	maxRun = 60000 // (the format limits the JSON of one entry's metadata to 65535 bytes: ErrMetadataTooLarge)
)

func alnum(s string) bool {
	for _, c := range s {
		if !(c >= 'a' && c <= 'z' || c >= '0' && c <= '9') {
			return false
		}
	}
	return true
}

func parseMeta(s string) (map[string]string, bool) {
	if s == "-" {
		return nil, true
	}
	m := map[string]string{}
	prev := ""
	runs := 0
	for _, kv := range strings.Split(s, ";") {
		f := strings.SplitN(kv, "=", 2)
		if len(f) != 2 || f[0] == "" || f[0] <= prev || !alnum(f[0]) || len(f[0]) > maxLit {
			return nil, false
		}
		v := f[1]
		if i := strings.IndexByte(v, '~'); i >= 0 {
			n, err := strconv.Atoi(v[i+1:])
			if i != 1 || !alnum(v[:1]) || err != nil || v[i+1:] != strconv.Itoa(n) || n <= maxLit || n > maxRun || runs > 0 {
				return nil, false
			}
			runs++
			v = strings.Repeat(v[:1], n)
		} else if !alnum(v) || len(v) > maxLit {
			return nil, false
		}
		prev = f[0]
		m[f[0]] = v
	}
	return m, true
}

func fmtVal(v string) string {
	if len(v) <= maxLit {
		return v
	}
	if strings.Count(v, v[:1]) == len(v) {
		return fmt.Sprintf("%s~%d", v[:1], len(v))
	}
	return fmt.Sprintf("?%d", len(v)) // cannot have been written by an op: reported as lookup-invented
}

func fmtMeta(m map[string]string) string {
	if len(m) == 0 {
		return "-"
	}
	var ks []string
	for k := range m {
		ks = append(ks, k)
	}
	sort.Strings(ks)
	var out []string
	for _, k := range ks {
		out = append(out, k+"="+fmtVal(m[k]))
	}
	return strings.Join(out, ";")
}

func (rn *runner) staleOK(p string, ref byte, meta string) bool {
	return rn.refsEver[p][ref] && (meta == "-" || rn.metasEver[p][meta])
}

func (rn *runner) anyWithPrefix(set map[string]bool, q string) bool {
	for k := range set {
		if strings.HasPrefix(k, q) {
			return true
		}
	}
	return false
}

func (rn *runner) Step(ctx *core.Ctx, op []string) string {
	if len(op) == 2 && op[0] == "new" {
		if op[1] != "0" && op[1] != "1" {
			return "bad-op"
		}
		rn.reset(op[1] == "1")
		return "ok"
	}
	if len(op) == 3 && op[0] == "lsroundtrip" {
		return rn.lsRoundTrip(ctx, op)
	}
	var path string
	switch {
	case len(op) == 1 && (op[0] == "store" || op[0] == "reload"):
	case len(op) == 2 && (op[0] == "remove" || op[0] == "lookup" || op[0] == "hasprefix"),
		len(op) == 4 && op[0] == "add":
		b, err := core.UnHex(op[1])
		if err != nil {
			return "bad-op"
		}
		path = string(b)
	default:
		return "bad-op"
	}
	var ref byte
	var metaS string
	var meta map[string]string
	if op[0] == "add" {
		k, err := strconv.Atoi(op[2])
		m, ok := parseMeta(op[3])
		if err != nil || k < 1 || k > 255 || !ok {
			return "bad-op"
		}
		ref, meta, metaS = byte(k), m, op[3]
	}
	if rn.dead && op[0] != "reload" {
		return "broken"
	}
	switch op[0] {
	case "add":
		var err error
		panicked := false
		func() {
			defer func() {
				if e := recover(); e != nil {
					panicked = true
				}
			}()
			err = rn.m.Add(rn.ctx, path, manifest.NewEntry(rn.entry(ref), meta))
		}()
		// oracle bookkeeping
		if path == "" {
			rn.emptyAdd = true
		}
		below := false
		for t := range rn.orphanTop {
			below = below || (t != path && strings.HasPrefix(path, t))
		}
		if rn.persisted {
			ends := func(k string) {
				if strings.HasPrefix(k, path) { // the path ends at an existing node (a key or a branching point)
					rn.overwrote = true
					rn.orphanTop[path] = true
					if k != path {
						rn.orphaned[k] = true
					}
				}
			}
			for k := range rn.mp {
				ends(k)
			}
			for k := range rn.removeNP { // a removal that was not persisted: the node is back after a reload
				ends(k)
			}
			for _, k := range rn.removed { // a removal leaves the emptied nodes above the key behind (remove-leaves-prefix):
				ends(k) // branching points and 30-byte split nodes of a removed path are still existing nodes
			}
		}
		if old, ok := rn.mp[path]; ok {
			if metaS == "-" && (old.meta != "-" || rn.metaKeep[path]) {
				rn.metaKeep[path] = true
			}
		}
		if rn.stuck {
			rn.addNP[path] = true
		}
		rn.mp[path] = val{ref, metaS}
		if rn.refsEver[path] == nil {
			rn.refsEver[path], rn.metasEver[path] = map[byte]bool{}, map[string]bool{}
		}
		rn.refsEver[path][ref] = true
		rn.metasEver[path][metaS] = true
		if panicked {
			clause := "add-panic"
			if below {
				clause = "overwrite-unloaded-node"
			}
			ctx.Fail(clause, "Add(%q) panicked", path)
			rn.dead, rn.m = true, nil
			return "panic"
		}
		if err != nil {
			ctx.Fail("add-error", "Add(%q) failed: %v", path, err)
			return "err"
		}
		return "ok"
	case "remove":
		err := rn.m.Remove(rn.ctx, path)
		if rn.persisted {
			rn.stuck = true
		}
		_, had := rn.mp[path]
		got := "ok"
		switch {
		case errors.Is(err, manifest.ErrNotFound):
			got = "notfound"
		case err != nil:
			got = "err"
		}
		if path == "" {
			if got != "err" {
				ctx.Fail("remove-empty-path", "Remove(\"\") answered %s", got)
			}
			return got
		}
		exts := false
		for k := range rn.mp {
			if k != path && strings.HasPrefix(k, path) {
				exts = true
				if got == "ok" {
					rn.dropped[k] = true
				}
				if rn.persisted {
					rn.removeNP[k] = true
				}
			}
		}
		if rn.persisted {
			rn.removeNP[path] = true
		}
		delete(rn.mp, path)
		want := "notfound"
		if had {
			want = "ok"
		}
		if got != want {
			clause := "remove-result"
			switch {
			case got == "err":
				clause = "remove-error"
			case want == "notfound" && exts:
				clause = "remove-drops-extensions" // removing a non-key prefix deletes the keys below it
			case want == "notfound" && rn.anyWithPrefixStrict(path):
				clause = "remove-leaves-prefix"
			case want == "notfound" && rn.removeNP[path]:
				clause = "remove-not-persisted"
			case want == "ok" && rn.orphaned[path]:
				clause = "overwrite-unloaded-node"
			case want == "ok" && rn.dropped[path]:
				clause = "remove-drops-extensions"
			case want == "ok" && rn.addNP[path]:
				clause = "add-not-persisted-after-read"
			}
			ctx.Fail(clause, "Remove(%q) answered %s, the mapping says %s", path, got, want)
		}
		if got == "ok" {
			rn.removed = append(rn.removed, path)
		}
		return got
	case "store":
		a, err := rn.m.Store(rn.ctx)
		if err != nil {
			clause := "store-error"
			if rn.overwrote && rn.persisted {
				clause = "overwrite-unloaded-node"
			}
			ctx.Fail(clause, "Store failed: %v", err)
			rn.dead = true
			rn.m = nil
			return "err"
		}
		if ss, ok := rn.st.(*spanStore); ok && os.Getenv("VERIF_C10_DEBUG") == "1" {
			fmt.Fprintf(os.Stderr, "c10: store wrote blobs / chunks with spans near or above one chunk: %v\n", ss.big)
			ss.big = nil
		}
		rn.last = &a
		rn.persisted = true
		rn.snap = map[string]val{}
		for k, v := range rn.mp {
			rn.snap[k] = v
		}
		return "ok"
	case "reload":
		if rn.last == nil {
			return "nostore"
		}
		m, err := manifest.NewDefaultManifestReference(*rn.last, rn.ls)
		if err != nil {
			ctx.Fail("reload-error", "NewDefaultManifestReference failed: %v", err)
			return "err"
		}
		rn.m, rn.dead = m, false
		rn.persisted, rn.stuck, rn.overwrote = true, false, false
		rn.mp = map[string]val{} // unsaved changes are discarded: back to the stored mapping
		for k, v := range rn.snap {
			rn.mp[k] = v
		}
		return "ok"
	case "lookup":
		e, err := rn.m.Lookup(rn.ctx, path)
		if rn.persisted {
			rn.stuck = true
		}
		want, has := rn.mp[path]
		switch {
		case errors.Is(err, manifest.ErrNotFound):
			if has {
				clause := "lookup-lost"
				switch {
				case rn.orphaned[path]:
					clause = "overwrite-unloaded-node"
				case rn.dropped[path]:
					clause = "remove-drops-extensions"
				case rn.addNP[path]:
					clause = "add-not-persisted-after-read"
				case path == "":
					clause = "empty-path-lost-on-reload"
				}
				ctx.Fail(clause, "Lookup(%q) = not found, the mapping has ref %d meta %s", path, want.ref, want.meta)
			}
			return "notfound"
		case err != nil:
			ctx.Fail("lookup-error", "Lookup(%q) failed: %v", path, err)
			return "err"
		}
		rb := e.Reference().Bytes()
		gm := fmtMeta(e.Metadata())
		uniform := len(rb) > 0
		for _, x := range rb {
			uniform = uniform && x == rb[0]
		}
		if !uniform || !rn.staleOK(path, rb[0], gm) {
			ctx.Fail("lookup-invented", "Lookup(%q) = %x %s: never written at this path", path, rb, gm)
		} else if !has {
			clause := "lookup-resurrected"
			if rn.removeNP[path] {
				clause = "remove-not-persisted"
			}
			ctx.Fail(clause, "Lookup(%q) = ref %d meta %s, the mapping has no such path", path, rb[0], gm)
		} else if want.ref != rb[0] || want.meta != gm {
			clause := "lookup-wrong-value"
			switch {
			case want.ref == rb[0] && want.meta == "-" && rn.metaKeep[path]:
				clause = "overwrite-keeps-metadata"
			case rn.addNP[path]:
				clause = "add-not-persisted-after-read"
			case rn.metaKeep[path]:
				clause = "overwrite-keeps-metadata"
			}
			ctx.Fail(clause, "Lookup(%q) = ref %d meta %s, the mapping says ref %d meta %s", path, rb[0], gm, want.ref, want.meta)
		}
		return fmt.Sprintf("found %s %s", core.Hex(rb), gm)
	default: // hasprefix
		got, err := rn.m.HasPrefix(rn.ctx, path)
		if rn.persisted {
			rn.stuck = true
		}
		if err != nil {
			ctx.Fail("hasprefix-error", "HasPrefix(%q) failed: %v", path, err)
			return "err"
		}
		want := path == ""
		for k := range rn.mp {
			want = want || strings.HasPrefix(k, path)
		}
		if got != want {
			clause := "hasprefix-mismatch"
			if want { // every key below the prefix is gone
				switch {
				case rn.anyWithPrefix(rn.orphaned, path):
					clause = "overwrite-unloaded-node"
				case rn.anyWithPrefix(rn.dropped, path):
					clause = "remove-drops-extensions"
				case rn.anyWithPrefix(rn.addNP, path):
					clause = "add-not-persisted-after-read"
				}
			} else {
				np := rn.anyWithPrefix(rn.removeNP, path)
				dang := false
				for _, r := range rn.removed {
					dang = dang || strings.HasPrefix(r, path)
				}
				switch {
				case dang && !np:
					clause = "remove-leaves-prefix"
				case np:
					clause = "remove-not-persisted"
				}
			}
			ctx.Fail(clause, "HasPrefix(%q) = %v, the mapping says %v", path, got, want)
		}
		return core.B(got)
	}
}

// lsroundtrip <size> <seed>: the narrowest tie to loadsave.go — what Load hands back for the reference
// Save returned must be the bytes that were saved, whatever their length (the manifest model has no
// heap: it assumes exactly this of the load-saver for node blobs of every size).  Uses the manifest's own
// load-saver (plain / encrypted as chosen by `new`); independent of the manifest state.
func (rn *runner) lsRoundTrip(ctx *core.Ctx, op []string) string {
	n, e1 := strconv.Atoi(op[1])
	seed, e2 := strconv.ParseUint(op[2], 10, 32)
	if e1 != nil || e2 != nil || op[1] != strconv.Itoa(n) || op[2] != strconv.FormatUint(seed, 10) || n < 0 || n > maxBlob {
		return "bad-op"
	}
	data := core.GenBytes(seed, n, 0)
	ref, err := rn.ls.Save(rn.ctx, data)
	if err != nil {
		ctx.Fail("lsroundtrip-save-error", "Save of %d bytes failed: %v", n, err)
		return "err"
	}
	got, err := rn.ls.Load(rn.ctx, ref)
	if err != nil {
		ctx.Fail("lsroundtrip-load-error", "Load of the reference Save returned for %d bytes failed: %v", n, err)
		return "err"
	}
	if !bytes.Equal(got, data) {
		ctx.Fail("lsroundtrip-mismatch", "Load(Save(x)) != x: saved %d bytes, loaded %d bytes (equal prefix: %d bytes)", n, len(got), commonPrefix(got, data))
		return fmt.Sprintf("differs %d", len(got))
	}
	return fmt.Sprintf("same %d", len(got))
}

const maxBlob = 4 * boson.ChunkSize

func commonPrefix(a, b []byte) int {
	i := 0
	for i < len(a) && i < len(b) && a[i] == b[i] {
		i++
	}
	return i
}

// anyWithPrefixStrict: some removed path strictly extends q (an emptied intermediate node may remain)
func (rn *runner) anyWithPrefixStrict(q string) bool {
	for _, r := range rn.removed {
		if r != q && strings.HasPrefix(r, q) {
			return true
		}
	}
	return false
}

// ---------------------------------------------------------------- generator

func hexs(s string) string { return core.Hex([]byte(s)) }

func genPath(r *core.Rand, pool []string) string {
	al := "ab/."
	mk := func(n int) string {
		b := make([]byte, n)
		for i := range b {
			b[i] = al[r.Intn(len(al))]
		}
		return string(b)
	}
	switch {
	case len(pool) > 0 && r.Chance(30): // an existing path (overwrite / exact observation)
		return pool[r.Intn(len(pool))]
	case len(pool) > 0 && r.Chance(45): // prefix of / extension of an existing path
		q := pool[r.Intn(len(pool))]
		if r.Bool() && len(q) > 1 {
			return q[:r.Range(1, len(q)-1)]
		}
		return q + mk(r.Range(1, 5))
	case r.Chance(12):
		return mk(r.Range(31, 70))
	case r.Chance(30):
		return mk(r.Range(1, 3))
	default:
		return mk(r.Range(1, 40))
	}
}

func genMeta(r *core.Rand, allowEmpty bool) string {
	if allowEmpty && r.Chance(35) {
		return "-"
	}
	ms := []string{"k=v", "ct=text;fn=a", "fn=b", "ct=png;fn=img;x=1", "z=9"}
	return ms[r.Intn(len(ms))]
}

// bigSiblings: adds of len(sizes) sibling paths <prefix>0<suffix>, <prefix>1<suffix>, … whose metadata carries a
// run of sizes[i] characters.  The metadata of an entry is serialised into the fork record of its PARENT
// node, so it is the blob of the node at <prefix> that grows: plain manifests 128 + Σ(64 + M_i) bytes,
// encrypted 160 + Σ(96 + M_i), M_i = 2 + len(JSON) padded up to the next multiple of 32 (a full extra 32
// when already aligned), JSON = {"ct":"bin","x":"<run>"} = run + 19 bytes.
func bigSiblings(prefix, suffix string, sizes []int, ref0 int) (ops []string, paths []string) {
	for i, n := range sizes {
		p := fmt.Sprintf("%s%d%s", prefix, i, suffix)
		ops = append(ops, fmt.Sprintf("add %s %d ct=bin;x=%c~%d", hexs(p), ref0+i, 'a'+byte(i%26), n))
		paths = append(paths, p)
	}
	return
}

func observeAll(paths []string, prefixes []string) (ops []string) {
	for _, p := range paths {
		ops = append(ops, "lookup "+hexs(p))
	}
	for _, p := range prefixes {
		ops = append(ops, "hasprefix "+hexs(p))
	}
	return
}

// bigNodeFixed: manifests with one node blob larger than (or exactly as large as) one chunk:
// store -> reload -> lookup / hasprefix of every path.
func bigNodeFixed() []core.Case {
	const C = boson.ChunkSize
	cat := func(l ...[]string) (o []string) {
		for _, x := range l {
			o = append(o, x...)
		}
		return
	}
	six := []int{50000, 50000, 50000, 50000, 50000, 50000}
	// the root node crosses one chunk (300896 bytes): six siblings directly below the root
	a1, p1 := bigSiblings("", ".bin", six, 10)
	p1 = append(p1, "index.html")
	rootBig := cat(a1, []string{"add " + hexs("index.html") + " 1 ct=html", "store", "reload"}, observeAll(p1, []string{"3.", "9", "ind", ""}), []string{"lookup " + hexs("6.bin"), "lookup " + hexs("3.")})
	// only the inner node "big/" crosses (root: 3 small forks); one big entry is overwritten before the store
	a2, p2 := bigSiblings("big/", ".bin", six, 16)
	p2 = append(p2, "index.html", "small/a.txt", "small/b.txt", "big/note.txt")
	innerBig := cat([]string{"add " + hexs("index.html") + " 1 ct=html", "add " + hexs("small/a.txt") + " 2 ct=text", "add " + hexs("small/b.txt") + " 3 ct=text"}, a2,
		[]string{"add " + hexs("big/note.txt") + " 4 ct=text", "add " + hexs("big/3.bin") + " 51 ct=bin;x=z~50001"}, observeAll(p2, []string{"big/", "big/3", "small/", "big/9"}),
		[]string{"store", "reload"}, observeAll(p2, []string{"big/", "big/3", "small/", "ind", "big/9"}), []string{"lookup " + hexs("big/6.bin"), "lookup " + hexs("big/"), "lookup " + hexs("small/c.txt")},
		// a second round trip of the reopened manifest (reads only since the reload)
		[]string{"reload"}, observeAll(p2[:3], nil))
	// blob sizes around the boundary: 128 + 6*64 + ΣM = C exactly (one full data chunk, no intermediate
	// chunk), and C+32 (the smallest blob with an intermediate root chunk)
	exact := []int{43594, 43594, 43594, 43594, 43594, 43530}
	a3, p3 := bigSiblings("", "", exact, 30)
	plus := []int{43594, 43594, 43594, 43594, 43594, 43562}
	a4, p4 := bigSiblings("", "", plus, 40)
	boundary := cat(a3, []string{"store", "reload"}, observeAll(p3, []string{"", "5"}), []string{"new 0"}, a4, []string{"store", "reload"}, observeAll(p4, []string{"", "5"}))
	// encrypted manifest (64-byte references; every chunk padded and encrypted), inner node big
	a5, p5 := bigSiblings("d/", "", []int{56000, 56000, 56000, 56000, 56000}, 60)
	p5 = append(p5, "e")
	encBig := cat([]string{"new 1", "add " + hexs("e") + " 9 k=v"}, a5, []string{"store", "reload"}, observeAll(p5, []string{"d/", "d/4", "d/5"}))
	// the load-saver alone, around every chunk boundary, plain and encrypted
	ls := []string{}
	for _, e := range []string{"new 0", "new 1"} {
		ls = append(ls, e)
		for i, n := range []int{0, 1, 31, 32, 4096, C - 1, C, C + 1, 2*C + 5} {
			ls = append(ls, fmt.Sprintf("lsroundtrip %d %d", n, i+1))
		}
	}
	ls = append(ls, "lsroundtrip 01 1", "lsroundtrip 1 01", "lsroundtrip -1 1", fmt.Sprintf("lsroundtrip %d 1", 4*C+1), "lsroundtrip 1 4294967296", "lsroundtrip 1",
		"add "+hexs("a")+" 1 x=a~64", "add "+hexs("a")+" 1 x=a~65;y=b~66", "add "+hexs("a")+" 1 x=aa~65", "add "+hexs("a")+" 1 x=a~065", "add "+hexs("a")+" 1 x=a~60001",
		"add "+hexs("a")+" 1 x="+strings.Repeat("a", 65), "add "+hexs("a")+" 2 x="+strings.Repeat("a", 64), "add "+hexs("b")+" 3 x=a~65", "lookup "+hexs("a"), "lookup "+hexs("b"))
	return []core.Case{
		{ID: "fix-bignode-root", NT: true, Ops: rootBig},
		{ID: "fix-bignode-inner", NT: true, Ops: innerBig},
		{ID: "fix-bignode-boundary", NT: true, Ops: boundary},
		{ID: "fix-bignode-enc", NT: true, Ops: encBig},
		{ID: "fix-lsroundtrip", NT: false, Ops: ls},
	}
}

func (prop) Gen(r *core.Rand, tier string) []core.Case {
	n := 250
	if tier == "thorough" {
		n = 2000
	}
	a, ab, x, y, abc, ac := hexs("a"), hexs("ab"), hexs("x"), hexs("y"), hexs("abc"), hexs("ac")
	cs := []core.Case{
		{ID: "fix-remove-drops-extensions", NT: false, Ops: []string{"add " + a + " 1 k=v", "add " + ab + " 2 k=v", "remove " + a, "lookup " + a, "lookup " + ab}},
		{ID: "fix-remove-nonkey-prefix", NT: false, Ops: []string{"add " + ab + " 1 k=v", "add " + ac + " 2 k=v", "remove " + a, "lookup " + ab, "lookup " + ac, "hasprefix " + a}},
		{ID: "fix-remove-not-persisted", NT: false, Ops: []string{"add " + x + " 1 k=v", "add " + y + " 2 k=v", "store", "remove " + x, "lookup " + x, "store", "reload", "lookup " + x, "lookup " + y}},
		{ID: "fix-add-not-persisted-after-read", NT: false, Ops: []string{"add " + x + " 1 k=v", "store", "lookup " + x, "add " + y + " 2 k=v", "lookup " + y, "store", "reload", "lookup " + x, "lookup " + y}},
		{ID: "fix-overwrite-keeps-metadata", NT: false, Ops: []string{"add " + a + " 1 k=v", "add " + a + " 2 -", "lookup " + a}},
		{ID: "fix-remove-leaves-prefix", NT: false, Ops: []string{"add " + ab + " 1 k=v", "add " + ac + " 2 k=v", "remove " + ab, "remove " + ac, "hasprefix " + a, "lookup " + ab}},
		{ID: "fix-overwrite-unloaded-node", NT: false, Ops: []string{"add " + a + " 1 k=v", "add " + x + " 2 k=v", "store", "reload", "add " + a + " 3 k=v", "store", "lookup " + a, "reload", "lookup " + a}},
		{ID: "fix-overwrite-unloaded-node-2", NT: false, Ops: []string{"add " + a + " 1 k=v", "add " + ab + " 2 k=v", "store", "reload", "add " + a + " 3 k=v", "lookup " + ab, "hasprefix " + ab, "add " + abc + " 4 k=v", "lookup " + a, "reload", "lookup " + ab}},
		{ID: "fix-overwrite-remnant-node", NT: false, Ops: []string{"add " + hexs("./abba/.a/a.a.aa//.a./aaa.a.baa") + " 5 k=v", "remove " + hexs("./abba/.a/a.a.aa//.a./aaa.a.baa"), "store", "add " + hexs("./abba/.a/a.a.aa//.a./aaa.a.ba") + " 3 k=v", "store"}},
		{ID: "fix-resurrected-then-overwritten", NT: false, Ops: []string{"add " + x + " 3 -", "store", "remove " + x, "store", "reload", "add " + x + " 3 k=v", "store"}},
		{ID: "fix-clean-roundtrip", NT: true, Ops: []string{"add " + a + " 1 k=v", "add " + abc + " 2 fn=b", "add " + ab + " 3 z=9", "add " + a + " 4 fn=b", "hasprefix " + ab, "store", "reload",
			"lookup " + a, "lookup " + ab, "lookup " + abc, "lookup " + ac, "hasprefix " + ac, "hasprefix -", "add " + ac + " 5 k=v", "store", "reload", "lookup " + ac, "lookup " + a}},
		{ID: "fix-errors", NT: false, Ops: []string{"reload", "remove -", "lookup -", "hasprefix -", "remove " + a, "add zz 1 -", "add " + a + " 0 -", "add " + a + " 1 K=v", "frob", "new 2", "new 1", "add " + a + " 7 k=v", "store", "reload", "lookup " + a}},
	}
	cs = append(cs, bigNodeFixed()...)
	for i := 0; i < n; i++ {
		c := core.Case{ID: fmt.Sprintf("g%d", i)}
		stream := r.Intn(10) // 0-5 clean, 6-9 mixed
		clean := stream < 6
		if r.Chance(15) {
			c.Ops = append(c.Ops, fmt.Sprintf("new %d", r.Intn(2)))
		}
		var pool []string
		keys := map[string]bool{}
		bigAdds := 0
		if r.Chance(5) {
			// a small share of histories starts with 4-7 siblings carrying 38-59 KB of metadata each: the blob of
			// their parent node lands around / above one chunk (256 KiB), so the later store / reload / lookups
			// go through a multi-chunk node blob
			k := r.Range(4, 7)
			sizes := make([]int, k)
			for j := range sizes {
				sizes[j] = r.Range(38000, 59000)
			}
			prefix := ""
			if r.Bool() {
				prefix = genPath(r, nil)
				if len(prefix) > 20 {
					prefix = prefix[:20]
				}
			}
			ops, paths := bigSiblings(prefix, []string{"", ".b", "/a"}[r.Intn(3)], sizes, r.Range(1, 200))
			c.Ops = append(c.Ops, ops...)
			for _, p := range paths {
				pool = append(pool, p)
				keys[p] = true
			}
			bigAdds = k
		}
		if r.Chance(6) {
			c.Ops = append(c.Ops, fmt.Sprintf("lsroundtrip %d %d", r.Pick([]int{0, 1, boson.ChunkSize - 1, boson.ChunkSize, boson.ChunkSize + 1, 2*boson.ChunkSize + 5, r.Range(0, 3*boson.ChunkSize)}), r.Intn(1000)))
		}
		snapKeys := map[string]bool{}
		cp := func(m map[string]bool) map[string]bool {
			o := map[string]bool{}
			for k := range m {
				o[k] = true
			}
			return o
		}
		stored := false
		readSince := false
		var removedKeys []string
		adds, obs, rt := bigAdds, 0, 0
		nops := r.Range(6, 40)
		for k := 0; k < nops; k++ {
			switch x := r.Intn(20); {
			case x < 9:
				p := genPath(r, pool)
				if clean && stored && readSince {
					// the guard: no add on a persisted object that has been read — reload first
					c.Ops = append(c.Ops, "store", "reload")
					snapKeys = cp(keys)
					readSince = false
					rt++
				}
				if clean && stored {
					ends := false
					for q := range keys {
						ends = ends || strings.HasPrefix(q, p)
					}
					for _, q := range removedKeys { // (the emptied nodes of a removed path are still there)
						ends = ends || strings.HasPrefix(q, p)
					}
					if ends {
						continue // (a path ending at an existing node of a reloaded manifest can make Store fail)
					}
				}
				c.Ops = append(c.Ops, fmt.Sprintf("add %s %d %s", hexs(p), r.Range(1, 9), genMeta(r, !clean)))
				pool = append(pool, p)
				keys[p] = true
				adds++
			case x < 11:
				p := genPath(r, pool)
				if clean {
					ext := false
					for q := range keys {
						ext = ext || (q != p && strings.HasPrefix(q, p))
					}
					if stored || ext || !keys[p] {
						// guard of the partial theorem: only keys without extensions, never after a store
						c.Ops = append(c.Ops, "lookup "+hexs(p))
						obs++
						readSince = readSince || stored
						continue
					}
				}
				c.Ops = append(c.Ops, "remove "+hexs(p))
				removedKeys = append(removedKeys, p)
				delete(keys, p)
				readSince = readSince || stored
			case x < 13:
				if clean && stored && readSince {
					continue // (a store on a read object may silently persist nothing)
				}
				c.Ops = append(c.Ops, "store")
				stored = true
				snapKeys = cp(keys)
				readSince = false
				if r.Chance(70) {
					c.Ops = append(c.Ops, "reload")
					rt++
				}
			case x < 14:
				c.Ops = append(c.Ops, "reload")
				if stored {
					readSince = false
					keys = cp(snapKeys)
				}
			case x < 18:
				c.Ops = append(c.Ops, "lookup "+hexs(genPath(r, pool)))
				obs++
				readSince = readSince || stored
			default:
				p := genPath(r, pool)
				c.Ops = append(c.Ops, "hasprefix "+hexs(p[:r.Range(0, len(p))]))
				obs++
				readSince = readSince || stored
			}
		}
		// epilogue: persist once more (half of the cases) and observe everything
		if r.Bool() {
			if !(clean && stored && readSince) {
				c.Ops = append(c.Ops, "store")
				stored = true
				snapKeys = cp(keys)
			}
			c.Ops = append(c.Ops, "reload")
			if stored {
				keys = cp(snapKeys)
			}
			rt++
		}
		seen := map[string]bool{}
		for _, p := range pool {
			if !seen[p] {
				seen[p] = true
				c.Ops = append(c.Ops, "lookup "+hexs(p))
				obs++
				if r.Chance(30) {
					c.Ops = append(c.Ops, "hasprefix "+hexs(p[:r.Range(0, len(p))]))
				}
			}
		}
		c.NT = adds >= 3 && rt >= 1 && obs >= 3
		cs = append(cs, c)
	}
	return cs
}
