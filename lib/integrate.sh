#!/bin/bash
# lib/integrate.sh <branch> [Cxx ...] — merge a builder's branches into /verif and /repo, rebuild, run its checks.
set -u
# /repo is shared by integration (cherry-picks) and seeded runs (apply/undo): serialise them
exec 9>/tmp/repo.lock; flock 9
B=$1; shift
cd /verif
echo "== repo commits on $B"
git -C /repo log --reverse --format='%h %s' main..$B
for c in $(git -C /repo log --reverse --format=%H main..$B); do
  if ! git -C /repo cherry-pick -x $c >/dev/null 2>&1; then
    if git -C /repo diff --cached --quiet && git -C /repo diff --quiet; then git -C /repo cherry-pick --skip; echo "skipped empty $c"; else
    echo "CHERRY-PICK CONFLICT at $c"; git -C /repo status --short | head; exit 1; fi
  fi
done
echo "== merging verif branch $B"
git merge --no-edit $B 2>&1 | tail -3 || { echo MERGE CONFLICT; exit 1; }
python3 lib/genreg.py
python3 lib/fixhashes.py
# hook commits recorded in MANIFEST.hooks
python3 - <<'PY'
import json, subprocess
h = json.load(open('/verif/checks/_hooks.json'))
out = subprocess.run(['git','-C','/repo','log','--format=%h %s','main'],capture_output=True,text=True).stdout.splitlines()
h['source_commits'] = [l.split()[0] for l in reversed(out) if ' verif hook' in l.lower() or l.split(' ',1)[1].lower().startswith('verif hook')]
json.dump(h, open('/verif/checks/_hooks.json','w'), indent=1)
PY
python3-vt lib/mkmanifest.py
./setup 2>&1 | tail -3
for p in "$@"; do ./check $p | tail -4; done
