import Driver.Util
import Aurora.Model.PSlice
import Aurora.Model.PSliceMemOps
/-! Driver for C21: runs the PSlice model on the op lines of the harness. -/
namespace Driver.C21
open Aurora.PSlice Aurora.Proximity

def toAddr (l : List UInt8) : Addr := l.map (fun b => BitVec.ofNat 8 b.toNat)
def ofAddr (l : Addr) : List UInt8 := l.map (fun b => UInt8.ofNat b.toNat)
def hex (a : Addr) : String := Driver.bytesToHex (ofAddr a)

def parseAddrs : List String → Option (List Addr)
  | [] => some []
  | h :: t =>
    match Driver.hexToBytes h, parseAddrs t with
    | some b, some r => some (toAddr b :: r)
    | _, _ => none

def joinOr (l : List String) : String := if l.isEmpty then "-" else ",".intercalate l

/-! ### memory-level model run next to the list model

`add`, `each … add …` and `stress` lines arrive as `<op> | tok…`: the capacities of all bins observed
on the real slice right after the `Add` (the oracle for Go's `append` growth), for `stress` the six
fresh addresses and the capacity observed after each round's single `Add`.  After every mutating op
the driver prints `mem=len/cap[!],…` for the memory-level state (`!` = the bin's backing array
changed during the op; nil, zero-size and real arrays are three different identities, as in Go where
`make([]T, 0)` is the runtime's `zerobase`), which the harness compares with the real slice; and it
prints `MEM-LIST-MISMATCH` if the abstraction of the memory-level state is not the list-level state
(`C21_mem_refines_list` says this never happens), `ORACLE-INADMISSIBLE` if an observed capacity is
smaller than the length of its bin. -/
open Aurora.PSliceMem (MS MOp newM applyMOp runOps abs hdr Hdr eachBinM eachBinRevM)

structure DS where
  ps : PS
  ms : MS

def splitAnnot (op : List String) : List String × List String :=
  match op.span (· ≠ "|") with
  | (a, []) => (a, [])
  | (a, _ :: b) => (a, b)

def orcOf (an : List String) : Nat → Nat :=
  let caps := an.filterMap Driver.parseNat
  fun i => caps[i]?.getD 0

def arrKey (h : Hdr) : Nat := if h.cap = 0 then (if h.arr = 0 then 0 else 1) else h.arr + 2

def memLine (before after : MS) : String :=
  "mem=" ++ ",".intercalate ((List.range after.maxBins).map (fun i =>
    let h := hdr after.mem i
    s!"{h.len}/{h.cap}" ++ (if arrKey (hdr before.mem i) ≠ arrKey h then "!" else "")))

def verdict (ms : MS) (ps : PS) : String := if abs ms = ps then "" else " MEM-LIST-MISMATCH"

def admissible (an : List String) (ms : MS) : String :=
  if an.isEmpty || (List.range ms.maxBins).all (fun i => orcOf an i ≥ (hdr ms.mem i).len) then ""
  else " ORACLE-INADMISSIBLE"

structure It where
  n : Nat
  visited : List String
  ps : PS
  ms : MS

def mutate (kind : String) (addrs : List Addr) (s : PS) : PS :=
  if kind = "add" then add s addrs
  else if kind = "remove" then addrs.foldl remove s
  else s

def mutateM (kind : String) (orc : Nat → Nat) (addrs : List Addr) (s : MS) : MS :=
  if kind = "add" then applyMOp s (.add orc addrs)
  else if kind = "remove" then runOps s (addrs.map MOp.remove)
  else s

/-- the callback of the harness; `onMem = false`: it updates the list-level slice (`It.ps`),
    `onMem = true`: the memory-level one (`It.ms`) -/
def callback (onMem : Bool) (orc : Nat → Nat) (stopAt nextMod errAt mutAt : Nat) (kind : String) (addrs : List Addr)
    (st : It) (p : Addr) (po : Nat) : It × Ctl :=
  let n := st.n + 1
  let ps := if n = mutAt && !onMem then mutate kind addrs st.ps else st.ps
  let ms := if n = mutAt && onMem then mutateM kind orc addrs st.ms else st.ms
  ({ n := n, visited := s!"{po}:{hex p}" :: st.visited, ps := ps, ms := ms },
   ctlOf (n = stopAt) (nextMod > 0 && n % nextMod = 0) (n = errAt))

/-- what the writer of the `stress` op does (harness/props/c21: `stress`), as memory-level ops -/
def stressOps (fr : List Addr) (caps : List Nat) : List MOp :=
  match fr with
  | [f0, f1, f2, f3, f4, f5] =>
    caps.flatMap (fun c =>
      [.add (fun _ => 0) [f0, f1, f2], .add (fun _ => c) [f3], .remove f1, .add (fun _ => 0) [f4, f5, f4],
       .remove f0, .remove f5, .remove f3, .remove f2, .remove f4])
  | _ => []

def step (st : Option DS) (opan : List String) : Option DS × String :=
  let (op, an) := splitAnnot opan
  match op, st with
  | ["new", m, b], _ =>
    match Driver.parseNat m, Driver.hexToBytes b with
    | some m, some b =>
      if m < 1 ∨ m > 64 then (st, "bad-op")
      else (some { ps := new m (toAddr b), ms := newM m (toAddr b) }, "ok")
    | _, _ => (st, "bad-op")
  | _, none => (none, "noslice")
  | "add" :: hs, some d =>
    match parseAddrs hs with
    | some as =>
      let ps := add d.ps as
      let ms := applyMOp d.ms (.add (orcOf an) as)
      (some { ps := ps, ms := ms }, s!"ok {memLine d.ms ms}{admissible an ms}{verdict ms ps}")
    | none => (st, "bad-op")
  | ["remove", h], some d =>
    match Driver.hexToBytes h with
    | some a =>
      let ps := remove d.ps (toAddr a)
      let ms := applyMOp d.ms (.remove (toAddr a))
      (some { ps := ps, ms := ms }, s!"ok {memLine d.ms ms}{verdict ms ps}")
    | none => (st, "bad-op")
  | ["exists", h], some d =>
    match Driver.hexToBytes h with
    | some a => (st, Driver.boolStr («exists» d.ps (toAddr a)))
    | none => (st, "bad-op")
  | ["sizes"], some d =>
    let s := d.ps
    let bs := (List.range s.maxBins).map (fun i => toString (binSize s i))
    let se := match shallowestEmpty s with | some i => toString i | none => "none"
    (st, s!"len={length s} bins={joinOr bs} over={binSize s s.maxBins} se={se}")
  | ["binpeers", b], some d =>
    match Driver.parseNat b with
    | some b => if b > 255 then (st, "bad-op") else (st, joinOr ((binPeers d.ps b).map hex))
    | none => (st, "bad-op")
  | "each" :: dir :: stopAt :: nextMod :: errAt :: mutAt :: kind :: hs, some d =>
    match Driver.parseNat stopAt, Driver.parseNat nextMod, Driver.parseNat errAt, Driver.parseNat mutAt, parseAddrs hs with
    | some stopAt, some nextMod, some errAt, some mutAt, some as =>
      if (dir ≠ "fwd" ∧ dir ≠ "rev") ∨ (kind ≠ "add" ∧ kind ≠ "remove" ∧ kind ≠ "-") then (st, "bad-op") else
      let init : It := { n := 0, visited := [], ps := d.ps, ms := d.ms }
      -- list level: the bin is a list value taken when the bin is reached
      let cb := callback false (orcOf an) stopAt nextMod errAt mutAt kind as
      let (r, ok) := if dir = "fwd" then eachBin (·.ps) cb init else eachBinRev (·.ps) cb init
      -- memory level: header copied when the bin is reached, elements loaded one by one
      let cbM := callback true (orcOf an) stopAt nextMod errAt mutAt kind as
      let (rm, okm) := if dir = "fwd" then eachBinM (·.ms) cbM init else eachBinRevM (·.ms) cbM init
      let same := decide (r.visited = rm.visited) && (ok == okm)
      let adm := if kind = "add" && r.n ≥ mutAt && mutAt > 0 then admissible an rm.ms else ""
      (some { ps := r.ps, ms := rm.ms },
       s!"{if ok then "ok" else "err"} {joinOr r.visited.reverse} {memLine d.ms rm.ms}{adm}{verdict rm.ms r.ps}{if same then "" else " MEM-LIST-MISMATCH(iteration)"}")
    | _, _, _, _, _ => (st, "bad-op")
  | ["stress", n], some d =>
    -- concurrent writer of fresh addresses that restores the slice: the list-level state is
    -- unchanged; the memory-level model runs the writer's operations
    match Driver.parseNat n with
    | some _ =>
      let fr := (an.take 6).filterMap (fun h => (Driver.hexToBytes h).map toAddr)
      let caps := (an.drop 6).filterMap Driver.parseNat
      let ms := runOps d.ms (stressOps fr caps)
      (some { ps := d.ps, ms := ms }, s!"ok {memLine d.ms ms}{verdict ms d.ps}")
    | none => (st, "bad-op")
  | _, _ => (st, "bad-op")

def handler : Driver.Handler := { σ := Option DS, init := none, step := step }

end Driver.C21
