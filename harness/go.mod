module verifharness

go 1.17

require (
	github.com/btcsuite/btcd v0.22.0-beta
	github.com/gauss-project/aurorafs v0.0.0
	golang.org/x/crypto v0.0.0-20220411220226-7b82a4e95df4
)

replace github.com/gauss-project/aurorafs => /repo
