// Package refimpl holds small reference implementations written from the property statements
// (not from the repository code) that several property oracles share: Keccak-256 BMT reference,
// content-addressed validity, SOC owner recovery and validity.
package refimpl

import (
	"bytes"
	"crypto/elliptic"
	"fmt"

	"github.com/btcsuite/btcd/btcec"
	"golang.org/x/crypto/sha3"
)

const C = 262144

func Keccak(b ...[]byte) []byte {
	h := sha3.NewLegacyKeccak256()
	for _, x := range b {
		h.Write(x)
	}
	return h.Sum(nil)
}

var zeroRoots = map[int][]byte{}

func root(b []byte) []byte {
	if len(b) == 64 {
		return Keccak(b)
	}
	return Keccak(root(b[:len(b)/2]), root(b[len(b)/2:]))
}

// Bmt is H(span || root(zero-padded payload[8:])); data beyond C bytes is ignored (what a
// capacity-bounded hasher sees), callers that care check the length themselves.
func Bmt(p []byte) []byte {
	buf := make([]byte, C)
	copy(buf, p[8:])
	return Keccak(p[:8], root(buf))
}

// CacValid is the statement of C04: 8 <= |p| <= C+8 and addr = BMT(p).
func CacValid(addr, p []byte) bool {
	if len(p) < 8 || len(p) > C+8 {
		return false
	}
	return bytes.Equal(Bmt(p), addr)
}

// Recover: EIP-191 prefix + btcec.RecoverCompact + keccak(pub)[12:], independent of pkg/soc and pkg/crypto.
func Recover(sig, digest []byte) []byte {
	if len(sig) != 65 {
		return nil
	}
	// Ethereum signatures carry the recovery id as 27+recid; btcec's 31..34 ("compressed key" flag)
	// are alternative encodings of the same signature and are not signatures of the owner's format.
	if sig[64] > 30 {
		return nil
	}
	bs := make([]byte, 65)
	bs[0] = sig[64]
	copy(bs[1:], sig[:64])
	h := Keccak([]byte(fmt.Sprintf("\x19Ethereum Signed Message:\n%d", len(digest))), digest)
	p, _, err := btcec.RecoverCompact(btcec.S256(), bs, h)
	if err != nil || p == nil || p.X == nil {
		return nil
	}
	pb := elliptic.Marshal(btcec.S256(), p.X, p.Y)
	return Keccak(pb[1:])[12:]
}

// SocParse returns the digest keccak(id || wrapped address) and the owner recovered from the
// signature for a serialised single-owner chunk id(32)|sig(65)|span(8)|payload; nil digest when
// the chunk is shorter than 105 bytes or wraps more than C+8 bytes; nil owner when recovery fails.
func SocParse(data []byte) (digest, owner []byte) {
	if len(data) < 105 {
		return nil, nil
	}
	w := data[97:]
	if len(w) > C+8 {
		return nil, nil
	}
	digest = Keccak(data[:32], Bmt(w))
	return digest, Recover(data[32:97], digest)
}

// SocValid is the statement of C05.
func SocValid(addr, data []byte) bool {
	dg, owner := SocParse(data)
	return dg != nil && owner != nil && bytes.Equal(addr, Keccak(data[:32], owner))
}
