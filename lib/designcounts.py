#!/usr/bin/env python3
"""lib/designcounts.py — rewrite the obligation count at the start of column 3 of the per-property table in
DESIGN.md §10.2 from evidence/Cxx.json (coverage.obligations), so the table cannot drift from what the checks discharge."""
import json, re, os
V = os.path.dirname(os.path.dirname(os.path.abspath(__file__)))
p = os.path.join(V, "DESIGN.md"); s = open(p).read()
a = s.index("### 10.2"); b = s.index("### 10.3")
sec = s[a:b]
def repl(m):
    pid = m.group(1)
    try:
        cov = json.load(open(os.path.join(V, "evidence", pid + ".json")))["coverage"]
        n = cov.get("obligations")
        n = len(n) if isinstance(n, list) else n
    except Exception:
        return m.group(0)
    if not n:
        return m.group(0)
    return f"| {pid} | check registered | {n}{m.group(3)}"
sec2 = re.sub(r"\| (C\d\d) \| check registered \| (\d+)(:?[^|]*)", repl, sec)
open(p, "w").write(s[:a] + sec2 + s[b:])
print("rows updated:", sum(1 for x, y in zip(sec.splitlines(), sec2.splitlines()) if x != y))
