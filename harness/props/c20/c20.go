// Package c20: correspondence + oracle for boson.Proximity / ExtendedProximity / Distance /
// DistanceCmp / Address.Closer (property C20).
package c20

import (
	"bytes"
	"fmt"
	"math/big"
	"math/bits"
	"strconv"

	"github.com/gauss-project/aurorafs/pkg/boson"

	"verifharness/core"
)

type prop struct{}

func init() { core.Register(prop{}) }

func (prop) ID() string { return "C20" }
func (prop) Rule() string {
	return "stateless ops prox/eprox a b, dist x y, cmp a x y, closer a x y. Streams: (1) regression cases first (first difference at bits 35..40 for the " +
		"extended cap; lengths 255/256/257/260/512 for the former uint8 length truncation); (2) exhaustive 2^16 XOR patterns of inspected byte pairs " +
		"(0,1) and (3,4) [thorough: also (1,2),(2,3),(4,5)] over a random base and random tail, equal prefix before the pair; (3) every first-differing " +
		"bit 0..47 (and 'equal') for lengths {1,4,5,20,32,64,255,256,257}; (4) random triples for cmp/closer/dist with shared prefixes of random bit length, " +
		"x==y and x==a cases; (5) ~8% malformed: different lengths, empty slices. Non-trivial: the case contains at least one op on non-empty equal-length inputs; distinct by op-list hash."
}

var lengths = []int{1, 4, 5, 20, 32, 64, 255, 256, 257}

func flipFrom(r *core.Rand, x []byte, k int) []byte {
	// y agrees with x on bits < k, differs at bit k, random afterwards
	y := append([]byte(nil), x...)
	if k/8 >= len(y) {
		return y
	}
	for i := k/8 + 1; i < len(y); i++ {
		y[i] = byte(r.U64())
	}
	low := byte(0xff) >> uint(k%8+1) // bits after k inside the byte
	y[k/8] = (x[k/8] &^ low) | (byte(r.U64()) & low)
	y[k/8] ^= 0x80 >> uint(k%8)
	return y
}

func pairOps(a, b []byte) []string {
	return []string{"prox " + core.Hex(a) + " " + core.Hex(b), "eprox " + core.Hex(a) + " " + core.Hex(b)}
}

func (prop) Gen(r *core.Rand, tier string) []core.Case {
	var cs []core.Case
	// ---- regression cases
	{
		c := core.Case{ID: "fix-extprox-cap", NT: true}
		x := make([]byte, 32)
		for k := 34; k <= 41; k++ {
			y := append([]byte(nil), x...)
			y[k/8] ^= 0x80 >> uint(k%8)
			c.Ops = append(c.Ops, pairOps(x, y)...)
			c.Ops = append(c.Ops, pairOps(y, x)...)
		}
		cs = append(cs, c)
		c = core.Case{ID: "fix-len-uint8", NT: true}
		for _, l := range []int{255, 256, 257, 258, 259, 260, 512, 513} {
			x := make([]byte, l)
			y := make([]byte, l)
			y[0] = 0x10
			c.Ops = append(c.Ops, pairOps(x, y)...)
			z := make([]byte, l)
			z[2] = 0x01
			c.Ops = append(c.Ops, pairOps(x, z)...)
		}
		cs = append(cs, c)
		cs = append(cs, core.Case{ID: "fix-cmp-basic", NT: true, Ops: []string{
			"cmp 00 01 02", "cmp 00 02 01", "cmp 00 01 01", "cmp ff00 ff01 0000", "closer 00 01 02", "closer 00 02 01", "closer 00 01 01",
			"dist ff00 00ff", "dist - -", "cmp - - -", "cmp 00 0000 00", "dist 00 0000", "closer 00 00 0000"}})
	}
	// ---- exhaustive XOR patterns of byte pairs
	pairs := [][2]int{{0, 1}, {3, 4}}
	if tier == "thorough" {
		pairs = append(pairs, [2]int{1, 2}, [2]int{2, 3}, [2]int{4, 5})
	}
	for _, p := range pairs {
		for hi := 0; hi < 256; hi++ {
			c := core.Case{ID: fmt.Sprintf("xor-%d-%d-%02x", p[0], p[1], hi), NT: true}
			l := r.Pick([]int{6, 8, 20, 32})
			x := r.Bytes(l)
			for lo := 0; lo < 256; lo++ {
				y := append([]byte(nil), x...)
				for i := p[1] + 1; i < l; i++ {
					y[i] = byte(r.U64())
				}
				y[p[0]] ^= byte(hi)
				y[p[1]] ^= byte(lo)
				c.Ops = append(c.Ops, pairOps(x, y)...)
			}
			cs = append(cs, c)
		}
	}
	// ---- every first-differing bit for each length
	reps := 2
	if tier == "thorough" {
		reps = 40
	}
	for rep := 0; rep < reps; rep++ {
		for _, l := range lengths {
			c := core.Case{ID: fmt.Sprintf("bit-l%d-%d", l, rep), NT: true}
			x := r.Bytes(l)
			for k := 0; k < 48 && k < 8*l; k++ {
				y := flipFrom(r, x, k)
				c.Ops = append(c.Ops, pairOps(x, y)...)
				if r.Chance(30) {
					c.Ops = append(c.Ops, pairOps(y, x)...)
				}
			}
			c.Ops = append(c.Ops, pairOps(x, x)...)
			if 8*l > 48 { // difference only beyond every inspected byte
				y := append([]byte(nil), x...)
				y[l-1] ^= 1
				c.Ops = append(c.Ops, pairOps(x, y)...)
			}
			cs = append(cs, c)
		}
	}
	// ---- random triples
	n := 300
	if tier == "thorough" {
		n = 30000
	}
	for i := 0; i < n; i++ {
		c := core.Case{ID: fmt.Sprintf("t%d", i)}
		nops := r.Range(4, 30)
		for k := 0; k < nops; k++ {
			l := r.Pick([]int{1, 2, 4, 5, 20, 32, 32, 32, 64})
			a := r.Bytes(l)
			mk := func() []byte {
				switch r.Intn(8) {
				case 0:
					return append([]byte(nil), a...)
				case 1:
					return r.Bytes(l)
				default:
					return flipFrom(r, a, r.Intn(8*l))
				}
			}
			x, y := mk(), mk()
			switch r.Intn(10) {
			case 0:
				y = append([]byte(nil), x...)
			case 1: // x, y agree with each other longer than with a
				y = flipFrom(r, x, r.Intn(8*l))
			}
			if r.Chance(8) { // malformed
				c.NT = c.NT || false
				switch r.Intn(4) {
				case 0:
					x = x[:len(x)-1]
				case 1:
					y = append(y, 0)
				case 2:
					a = nil
				default:
					a, x, y = nil, nil, nil
				}
			} else {
				c.NT = true
			}
			switch r.Intn(6) {
			case 0:
				c.Ops = append(c.Ops, "dist "+core.Hex(x)+" "+core.Hex(y))
			case 1:
				c.Ops = append(c.Ops, "closer "+core.Hex(a)+" "+core.Hex(x)+" "+core.Hex(y))
			case 2:
				c.Ops = append(c.Ops, pairOps(x, y)...)
			default:
				c.Ops = append(c.Ops, "cmp "+core.Hex(a)+" "+core.Hex(x)+" "+core.Hex(y))
			}
		}
		cs = append(cs, c)
	}
	return cs
}

type runner struct{}

func (prop) New() core.Runner { return runner{} }
func (runner) Close()         {}

// leadingEqualBits is the model-free reference: number of leading equal bits of two
// equal-length byte strings (8*len when equal).
func leadingEqualBits(x, y []byte) int {
	for i := range x {
		if d := x[i] ^ y[i]; d != 0 {
			return 8*i + bits.LeadingZeros8(d)
		}
	}
	return 8 * len(x)
}

func (runner) Step(ctx *core.Ctx, op []string) string {
	arg := func(i int) ([]byte, bool) {
		b, err := core.UnHex(op[i])
		return b, err == nil
	}
	switch {
	case len(op) == 3 && (op[0] == "prox" || op[0] == "eprox"):
		a, ok1 := arg(1)
		b, ok2 := arg(2)
		if !ok1 || !ok2 {
			return "bad-op"
		}
		var got, rev uint8
		capv := boson.MaxPO
		if op[0] == "prox" {
			got, rev = boson.Proximity(a, b), boson.Proximity(b, a)
		} else {
			capv = boson.ExtendedPO
			got, rev = boson.ExtendedProximity(a, b), boson.ExtendedProximity(b, a)
		}
		if got != rev {
			ctx.Fail(op[0]+"-symm", "%s(a,b)=%d but %s(b,a)=%d", op[0], got, op[0], rev)
		}
		if len(a) == len(b) {
			want := int(capv)
			if !bytes.Equal(a, b) {
				if l := leadingEqualBits(a, b); l < want {
					want = l
				}
			}
			if int(got) != want {
				clause := op[0] + "-value"
				switch {
				case got > capv:
					clause = op[0] + "-above-cap"
				case len(a) >= 256:
					clause = op[0] + "-len-ge-256"
				}
				ctx.Fail(clause, "%s on %d-byte inputs = %d, leading equal bits capped at %d = %d", op[0], len(a), got, capv, want)
			}
		}
		return strconv.Itoa(int(got))
	case len(op) == 3 && op[0] == "dist":
		x, ok1 := arg(1)
		y, ok2 := arg(2)
		if !ok1 || !ok2 {
			return "bad-op"
		}
		d, err := boson.Distance(x, y)
		if err != nil {
			if len(x) == len(y) {
				ctx.Fail("dist-rejects-equal-length", "Distance failed on equal lengths %d", len(x))
			}
			return "err"
		}
		if len(x) != len(y) {
			ctx.Fail("dist-accepts-unequal-length", "Distance accepted lengths %d, %d", len(x), len(y))
		} else {
			want := new(big.Int).Xor(new(big.Int).SetBytes(x), new(big.Int).SetBytes(y))
			if want.Cmp(d) != 0 {
				ctx.Fail("dist-value", "Distance = %s, big-endian XOR = %s", d, want)
			}
		}
		return d.String()
	case len(op) == 4 && (op[0] == "cmp" || op[0] == "closer"):
		a, ok1 := arg(1)
		x, ok2 := arg(2)
		y, ok3 := arg(3)
		if !ok1 || !ok2 || !ok3 {
			return "bad-op"
		}
		same := len(a) == len(x) && len(a) == len(y)
		// reference: compare the XOR distances to a as big integers
		ref := 0
		if same {
			dx := new(big.Int).Xor(new(big.Int).SetBytes(a), new(big.Int).SetBytes(x))
			dy := new(big.Int).Xor(new(big.Int).SetBytes(a), new(big.Int).SetBytes(y))
			ref = dy.Cmp(dx) // 1 iff x is closer to a
		}
		if op[0] == "cmp" {
			got, err := boson.DistanceCmp(a, x, y)
			if err != nil {
				if same {
					ctx.Fail("cmp-rejects-equal-length", "DistanceCmp failed on equal lengths")
				}
				return "err"
			}
			if !same {
				ctx.Fail("cmp-accepts-unequal-length", "DistanceCmp accepted lengths %d,%d,%d", len(a), len(x), len(y))
			} else if got != ref {
				ctx.Fail("cmp-order", "DistanceCmp=%d, big-int comparison of XOR distances=%d", got, ref)
			}
			return strconv.Itoa(got)
		}
		// a.Closer(x, y): is a closer to x than y is  ==  DistanceCmp(x, a, y) == 1
		got, err := boson.NewAddress(a).Closer(boson.NewAddress(x), boson.NewAddress(y))
		if err != nil {
			if same {
				ctx.Fail("closer-rejects-equal-length", "Closer failed on equal lengths")
			}
			return "err"
		}
		if same {
			da := new(big.Int).Xor(new(big.Int).SetBytes(x), new(big.Int).SetBytes(a))
			dy := new(big.Int).Xor(new(big.Int).SetBytes(x), new(big.Int).SetBytes(y))
			if got != (da.Cmp(dy) < 0) {
				ctx.Fail("closer-order", "Closer=%v, big-int says %v", got, da.Cmp(dy) < 0)
			}
		} else {
			ctx.Fail("closer-accepts-unequal-length", "Closer accepted lengths %d,%d,%d", len(a), len(x), len(y))
		}
		return core.B(got)
	}
	return "bad-op"
}
