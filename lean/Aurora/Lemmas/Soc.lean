import Aurora.Model.Soc
import Aurora.Lemmas.Cac
/-! Helper lemmas for Props/C05: the parse of a serialised SOC in terms of the BMT specification. -/
namespace Aurora.Soc
open Aurora.Bmt Aurora.Cac

variable (S : SigScheme) (H : Bytes → Bytes)

/-- the three fields of `id(32) ‖ sig(65) ‖ span(8) ‖ payload` -/
def idOf (data : Bytes) : Bytes := data.take 32
def sigOf (data : Bytes) : Bytes := (data.drop 32).take 65
def wrapOf (data : Bytes) : Bytes := data.drop 97

/-- address of the wrapped content-addressed chunk -/
def wrappedAddr (seg d : Nat) (data : Bytes) : Bytes :=
  bmtHash H seg d ((wrapOf data).take 8) ((wrapOf data).drop 8)

/-- the recovery byte (last signature byte) is one of the canonical 27..30 (at most 30) -/
def recIdOk (data : Bytes) : Prop := ((sigOf data).getD 64 0).toNat ≤ 30

/-- what is signed: `keccak(id ‖ wrapped address)` -/
def digestOf (seg d : Nat) (data : Bytes) : Bytes := H (idOf data ++ wrappedAddr H seg d data)

theorem fromChunk_some_iff (seg d : Nat) (hs : 0 < seg) (stale : Bytes) (hb : stale.length = maxSize seg d)
    (data : Bytes) (s : Soc) :
    fromChunk S H seg d stale data = some s ↔
      105 ≤ data.length ∧ data.length ≤ 97 + (maxSize seg d + 8) ∧ recIdOk data ∧
      ∃ pk, S.recover (sigOf data) (digestOf H seg d data) = some pk ∧ (S.ethAddr pk).length = 20 ∧
        s = { id := idOf data, owner := S.ethAddr pk, sig := sigOf data,
              chunk := { addr := wrappedAddr H seg d data, data := wrapOf data } } := by
  unfold fromChunk
  simp only [minChunkSize, idSize, sigSize, addressSize, Nat.reduceAdd]
  by_cases h1 : data.length < 105
  · simp [h1]; omega
  · simp only [h1, if_false]
    unfold newWithDataSpan
    have hl : (data.drop 97).length = data.length - 97 := List.length_drop
    by_cases h2 : (data.drop 97).length > maxSize seg d + 8
    · simp only [h2, if_true]
      simp only [reduceCtorEq, false_iff, not_and]
      intro _ h; omega
    · have h3 : ¬ (data.drop 97).length < 8 := by omega
      simp only [h2, h3, if_false]
      rw [hashWith_eq H seg d hs stale hb _ _ (by rw [List.length_take]; omega)
        (by rw [List.length_drop]; omega)]
      rw [List.take_append_drop]
      have hsl : (sigOf data).length = 65 := by
        unfold sigOf; rw [List.length_take, List.length_drop]; omega
      show (match recoverAddress S (sigOf data) (digestOf H seg d data) with
        | none => none
        | some owner => if owner.length ≠ 20 then none else
            some { id := idOf data, owner := owner, sig := sigOf data,
                   chunk := { addr := wrappedAddr H seg d data, data := wrapOf data } }) = some s ↔ _
      unfold recoverAddress recIdOk
      simp only [sigSize, hsl, true_and, Nat.add_one_sub_one]
      by_cases hv : ((sigOf data).getD 64 0).toNat > 30
      · simp only [hv, if_true]
        constructor
        · intro h; cases h
        · rintro ⟨_, _, hle, _⟩; omega
      · simp only [hv, if_false]
        cases hr : S.recover (sigOf data) (digestOf H seg d data) with
        | none => simp
        | some pk =>
          by_cases h4 : (S.ethAddr pk).length = 20
          · simp only [h4, ne_eq, not_true_eq_false, if_false, Option.some.injEq]
            constructor
            · intro h; exact ⟨by omega, by omega, by omega, pk, rfl, h4, h.symm⟩
            · rintro ⟨_, _, _, pk', hpk, _, rfl⟩
              cases hpk; rfl
          · simp only [ne_eq, h4, not_false_eq_true, if_true]
            constructor
            · intro h; cases h
            · rintro ⟨_, _, _, pk', hpk, h4', _⟩
              cases hpk; exact absurd h4' h4

/-- `soc.Valid` in terms of the specification -/
theorem valid_iff (seg d : Nat) (hs : 0 < seg) (stale : Bytes) (hb : stale.length = maxSize seg d) (c : Chunk) :
    valid S H seg d stale c = true ↔
      105 ≤ c.data.length ∧ c.data.length ≤ 97 + (maxSize seg d + 8) ∧ recIdOk c.data ∧
      ∃ pk, S.recover (sigOf c.data) (digestOf H seg d c.data) = some pk ∧ (S.ethAddr pk).length = 20 ∧
        c.addr = H (idOf c.data ++ S.ethAddr pk) := by
  unfold valid
  cases hf : fromChunk S H seg d stale c.data with
  | none =>
    simp only [Bool.false_eq_true, false_iff]
    rintro ⟨h1, h2, h3, pk, hpk, h4, _⟩
    have := (fromChunk_some_iff S H seg d hs stale hb c.data _).mpr ⟨h1, h2, h3, pk, hpk, h4, rfl⟩
    rw [hf] at this; cases this
  | some s =>
    obtain ⟨h1, h2, h3, pk, hpk, h4, rfl⟩ := (fromChunk_some_iff S H seg d hs stale hb c.data s).mp hf
    simp only [Soc.address, addressSize, h4, ne_eq, not_true_eq_false, if_false, createAddress]
    constructor
    · intro h; exact ⟨h1, h2, h3, pk, hpk, h4, by simpa using h⟩
    · rintro ⟨_, _, _, pk', hpk', _, ha⟩
      rw [hpk] at hpk'; cases hpk'
      simp [ha]

/-- field extraction from `id ++ sig ++ w` -/
theorem fields_of_append (id sig w : Bytes) (hid : id.length = 32) (hsig : sig.length = 65) :
    idOf (id ++ sig ++ w) = id ∧ sigOf (id ++ sig ++ w) = sig ∧ wrapOf (id ++ sig ++ w) = w := by
  refine ⟨?_, ?_, ?_⟩
  · unfold idOf; rw [List.append_assoc]; exact List.take_left' hid
  · unfold sigOf; rw [List.append_assoc, List.drop_left' hid]; exact List.take_left' hsig
  · unfold wrapOf; exact List.drop_left' (by rw [List.length_append]; omega)

/-- any byte string of at least 97 bytes is `id ++ sig ++ wrapped` -/
theorem split_fields (data : Bytes) (h : 97 ≤ data.length) :
    data = idOf data ++ sigOf data ++ wrapOf data ∧ (idOf data).length = 32 ∧ (sigOf data).length = 65 := by
  unfold idOf sigOf wrapOf
  refine ⟨?_, by rw [List.length_take]; omega, by rw [List.length_take, List.length_drop]; omega⟩
  have : data.drop 97 = (data.drop 32).drop 65 := by rw [List.drop_drop]
  rw [this, List.append_assoc, List.take_append_drop, List.take_append_drop]

end Aurora.Soc
