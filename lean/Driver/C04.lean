import Driver.Util
import Driver.C03
import Aurora.Model.Cac
/-! Driver for C04: `cac.New / NewWithDataSpan / Valid` model with real Keccak-256 (seg 32, d 12). -/
namespace Driver.C04
open Aurora.Bmt Aurora.Cac

def seg : Nat := 32
def d : Nat := 12
def keccak := Driver.C03.keccak

structure St where
  stale : Bytes := zeros (maxSize seg d)
  cur : Option Chunk := none

def xorAt (l : Bytes) (pos : Nat) (x : UInt8) : Option Bytes :=
  if pos < l.length then some (l.set pos (l[pos]! ^^^ x)) else none

/-- The tree buffer a `Valid` call leaves behind (the pool reuses it dirty).  Only `valid` ops
    thread it through — `C04_valid_iff` shows the verdict does not depend on it, and C03's driver
    exercises dirty reuse at every tree size. -/
def validBuf (st : St) (c : Chunk) : Bool × Bytes :=
  if c.data.length < 8 then (false, st.stale)
  else if c.data.length > maxSize seg d + 8 then (false, st.stale)
  else
    let r := hashWithBuf keccak seg d st.stale (c.data.take 8) (c.data.drop 8)
    (r.1 == c.addr, r.2)

def step (st : St) (op : List String) : St × String :=
  match op with
  | ["new", src] =>
    match Driver.parseSrc src with
    | none => (st, "bad-op")
    | some data =>
      match new keccak seg d st.stale data with
      | .error .tooLarge => ({ st with cur := none }, "err-large")
      | .error .tooShort => ({ st with cur := none }, "err-short")
      | .ok c => ({ st with cur := some c }, s!"ok {Driver.bytesToHex c.addr} {c.data.length}")
  | ["newspan", src] =>
    match Driver.parseSrc src with
    | none => (st, "bad-op")
    | some p =>
      match newWithDataSpan keccak seg d st.stale p with
      | .error .tooLarge => ({ st with cur := none }, "err-large")
      | .error .tooShort => ({ st with cur := none }, "err-short")
      | .ok c => ({ st with cur := some c }, s!"ok {Driver.bytesToHex c.addr} {c.data.length}")
  | ["par", k, seed, n] =>
    -- k concurrent New/Valid rounds on the Go side; any schedule must give these addresses (first 8 bytes)
    match k.toNat?, seed.toNat?, n.toNat? with
    | some k, some seed, some n =>
      let outs := (List.range k).map fun i =>
        let data := Driver.genBytes (seed + i) (1 + (n + 37 * i) % 4096)
        match new keccak seg d st.stale data with
        | .ok c => Driver.bytesToHex (c.addr.take 8)
        | .error _ => "err"
      (st, String.intercalate "," outs)
    | _, _, _ => (st, "bad-op")
  | ["set", addr, src] =>
    match Driver.hexToBytes addr, Driver.parseSrc src with
    | some a, some p => ({ st with cur := some { addr := a, data := p } }, "ok")
    | _, _ => (st, "bad-op")
  | _ =>
  match st.cur with
  | none => (st, "nochunk")
  | some c =>
    match op with
    | ["valid"] =>
      let (v, buf) := validBuf st c
      ({ st with stale := buf }, Driver.boolStr v)
    | ["mutp", pos, x] =>
      match pos.toNat?, x.toNat? with
      | some pos, some x => match xorAt c.data pos (UInt8.ofNat x) with
        | some p => ({ st with cur := some { c with data := p } }, "ok")
        | none => (st, "range")
      | _, _ => (st, "bad-op")
    | ["muta", pos, x] =>
      match pos.toNat?, x.toNat? with
      | some pos, some x => match xorAt c.addr pos (UInt8.ofNat x) with
        | some a => ({ st with cur := some { c with addr := a } }, "ok")
        | none => (st, "range")
      | _, _ => (st, "bad-op")
    | ["trunc", n] =>
      match n.toNat? with
      | some n => ({ st with cur := some { c with data := c.data.take n } }, "ok")
      | none => (st, "bad-op")
    | ["extend", src] =>
      match Driver.parseSrc src with
      | some b => ({ st with cur := some { c with data := c.data ++ b } }, "ok")
      | none => (st, "bad-op")
    | ["info"] => (st, s!"{Driver.bytesToHex c.addr} {c.data.length}")
    | _ => (st, "bad-op")

def handler : Driver.Handler := { σ := St, init := {}, step := step }

end Driver.C04
