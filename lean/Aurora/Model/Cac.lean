import Aurora.Model.Bmt
/-!
Model of `/repo/pkg/cac/cac.go` over the BMT hasher model (`Aurora.Bmt.Hasher`).

`hasher(data)(span)` = `bmtpool.Get(); SetHeader(span); Write(data); Hash(nil); Put` — executed on a
pooled tree whose buffer holds arbitrary stale bytes (`stale`).  Note that `Write` *truncates*
data beyond the capacity; the explicit length checks in `New`/`NewWithDataSpan`/`Valid` are what
make the validity predicate exact.
-/
namespace Aurora.Cac
open Aurora.Bmt

structure Chunk where
  addr : Bytes
  data : Bytes      -- span (8 bytes) ++ payload
deriving Repr, DecidableEq

/-- little-endian 8-byte encoding (`binary.LittleEndian.PutUint64`) -/
def le64 (n : Nat) : Bytes := (List.range 8).map (fun i => UInt8.ofNat (n / 256 ^ i % 256))

/-- `hasher(data)(span)` on a pooled tree with stale buffer content; also returns the tree
    buffer as it goes back to the pool -/
def hashWithBuf (H : Bytes → Bytes) (seg d : Nat) (stale : Bytes) (span data : Bytes) : Bytes × Bytes :=
  let h := (Hasher.get stale).setHeader span
  let h := (h.write H seg data).1
  let r := h.hash H seg d
  (r.1, r.2.buffer)

/-- `hasher(data)(span)` on a pooled tree with stale buffer content -/
def hashWith (H : Bytes → Bytes) (seg d : Nat) (stale : Bytes) (span data : Bytes) : Bytes :=
  (hashWithBuf H seg d stale span data).1

inductive Err | tooLarge | tooShort
deriving Repr, DecidableEq

/-- `cac.New(data)` -/
def new (H : Bytes → Bytes) (seg d : Nat) (stale : Bytes) (data : Bytes) : Except Err Chunk :=
  if data.length > maxSize seg d then .error .tooLarge
  else if data.length = 0 then .error .tooShort
  else
    let span := le64 data.length
    .ok { addr := hashWith H seg d stale span data, data := span ++ data }

/-- `cac.NewWithDataSpan(data)` -/
def newWithDataSpan (H : Bytes → Bytes) (seg d : Nat) (stale : Bytes) (p : Bytes) : Except Err Chunk :=
  if p.length > maxSize seg d + 8 then .error .tooLarge
  else if p.length < 8 then .error .tooShort
  else .ok { addr := hashWith H seg d stale (p.take 8) (p.drop 8), data := p.take 8 ++ p.drop 8 }

/-- `cac.Valid(chunk)` -/
def valid (H : Bytes → Bytes) (seg d : Nat) (stale : Bytes) (c : Chunk) : Bool :=
  if c.data.length < 8 then false
  else if c.data.length > maxSize seg d + 8 then false
  else hashWith H seg d stale (c.data.take 8) (c.data.drop 8) == c.addr

end Aurora.Cac
