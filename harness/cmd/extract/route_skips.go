package main

// Skip-list facts for the relay next-hop lookup of pkg/routetab (property C28): the model's
// `relayOrFind` uses the relayed stream's path (self appended) as the skip list of BOTH next-hop
// lookups of `GetNextHopRandomOrFind` — the one before and the one after `FindRoute` — and of every
// function below it.  This pass lists, for pkg/routetab/*.go, every call of
//
//	GetNextHopRandomOrFind, getNextHopRandom, getNextHopEffective, <x>.GetNextHop
//
// with the function it occurs in (function literals belong to their function) and how the variadic
// `skips` argument is supplied:
//
//	param      `f(…, v...)` where v is the variadic parameter of the calling function
//	pathItems  `f(…, v...)` where v has exactly one definition in the function, `_, v := generatePathItems(req.Paths)`,
//	           and `req.Paths = append(req.Paths, <x>.self.Bytes())` occurs before it (self is on the skip list)
//	other      `f(…, v...)` with any other v, or explicit trailing arguments
//	missing    no variadic argument at all
//
// Emitted as Aurora/Generated/RouteSkips.lean; Props/C28.lean proves `C28_relay_skips_passed` by
// `decide`: GetNextHopRandomOrFind calls getNextHopRandom at least twice and always with its own
// `skips...`; the chain below passes `skips...` on; both relay handlers pass the path items.  Dropping
// `skips...` from the second getNextHopRandom call (seeded change C28-1) gives a `missing` row.

import (
	"bytes"
	"fmt"
	"go/ast"
	"go/parser"
	"go/token"
	"os"
	"path/filepath"
	"sort"
	"strings"
)

func init() {
	extraGenerators["RouteSkips.lean"] = genRouteSkips
}

type skipCall struct {
	caller, callee, how string
	line                int
}

var skipCallees = map[string]bool{"GetNextHopRandomOrFind": true, "getNextHopRandom": true, "getNextHopEffective": true, "GetNextHop": true}

func genRouteSkips(repo string) (string, error) {
	dir := filepath.Join(repo, "pkg/routetab")
	ents, err := os.ReadDir(dir)
	if err != nil {
		return "", err
	}
	fset := token.NewFileSet()
	var rows []skipCall
	for _, e := range ents {
		name := e.Name()
		if !strings.HasSuffix(name, ".go") || strings.HasSuffix(name, "_test.go") {
			continue
		}
		src, err := os.ReadFile(filepath.Join(dir, name))
		if err != nil {
			return "", err
		}
		if bytes.Contains(src, []byte("//go:build verif")) {
			continue // hook files are not part of the shipped program
		}
		f, err := parser.ParseFile(fset, name, src, 0)
		if err != nil {
			return "", err
		}
		for _, d := range f.Decls {
			fd, ok := d.(*ast.FuncDecl)
			if !ok || fd.Body == nil {
				continue
			}
			fn := fd.Name.Name
			if fd.Recv != nil && len(fd.Recv.List) == 1 {
				t := fd.Recv.List[0].Type
				if st, ok := t.(*ast.StarExpr); ok {
					t = st.X
				}
				if id, ok := t.(*ast.Ident); ok {
					fn = id.Name + "." + fn
				}
			}
			variadic := ""
			if ps := fd.Type.Params; ps != nil && len(ps.List) > 0 {
				last := ps.List[len(ps.List)-1]
				if _, ok := last.Type.(*ast.Ellipsis); ok && len(last.Names) == 1 {
					variadic = last.Names[0].Name
				}
			}
			defs := map[string][]string{} // variable -> kinds of its definitions ("pathItems" / "other")
			selfAppended := 0             // line of `req.Paths = append(req.Paths, <x>.self.Bytes())`
			line := func(n ast.Node) int { return fset.Position(n.Pos()).Line }
			isReqPaths := func(e ast.Expr) bool {
				se, ok := e.(*ast.SelectorExpr)
				if !ok || se.Sel.Name != "Paths" {
					return false
				}
				id, ok := se.X.(*ast.Ident)
				return ok && id.Name == "req"
			}
			ast.Inspect(fd.Body, func(x ast.Node) bool {
				switch s := x.(type) {
				case *ast.AssignStmt:
					// req.Paths = append(req.Paths, <x>.self.Bytes())
					if len(s.Lhs) == 1 && len(s.Rhs) == 1 && isReqPaths(s.Lhs[0]) {
						if c, ok := s.Rhs[0].(*ast.CallExpr); ok && len(c.Args) == 2 && isReqPaths(c.Args[0]) {
							if id, ok := c.Fun.(*ast.Ident); ok && id.Name == "append" {
								if bc, ok := c.Args[1].(*ast.CallExpr); ok && len(bc.Args) == 0 {
									if bs, ok := bc.Fun.(*ast.SelectorExpr); ok && bs.Sel.Name == "Bytes" {
										if ss, ok := bs.X.(*ast.SelectorExpr); ok && ss.Sel.Name == "self" && selfAppended == 0 {
											selfAppended = line(s)
										}
									}
								}
							}
						}
					}
					kind := "other"
					if len(s.Rhs) == 1 && len(s.Lhs) == 2 {
						if c, ok := s.Rhs[0].(*ast.CallExpr); ok && len(c.Args) == 1 && isReqPaths(c.Args[0]) {
							if id, ok := c.Fun.(*ast.Ident); ok && id.Name == "generatePathItems" && selfAppended != 0 && selfAppended < line(s) {
								kind = "pathItems"
							}
						}
					}
					for i, l := range s.Lhs {
						if id, ok := l.(*ast.Ident); ok && id.Name != "_" {
							k := "other"
							if kind == "pathItems" && i == 1 {
								k = kind
							}
							defs[id.Name] = append(defs[id.Name], k)
						}
					}
				case *ast.CallExpr:
					callee := ""
					switch fx := s.Fun.(type) {
					case *ast.SelectorExpr:
						callee = fx.Sel.Name
					case *ast.Ident:
						callee = fx.Name
					}
					if !skipCallees[callee] {
						return true
					}
					how := "missing"
					if s.Ellipsis != token.NoPos && len(s.Args) > 0 {
						how = "other"
						if id, ok := s.Args[len(s.Args)-1].(*ast.Ident); ok {
							switch {
							case id.Name == variadic && len(defs[id.Name]) == 0:
								how = "param"
							case len(defs[id.Name]) == 1 && defs[id.Name][0] == "pathItems":
								how = "pathItems"
							}
						}
					} else if (callee == "GetNextHop" && len(s.Args) > 1) || (callee == "GetNextHopRandomOrFind" && len(s.Args) > 2) ||
						((callee == "getNextHopRandom" || callee == "getNextHopEffective") && len(s.Args) > 1) {
						how = "other"
					}
					rows = append(rows, skipCall{fn, callee, how, line(s)})
				}
				return true
			})
		}
	}
	sort.SliceStable(rows, func(i, j int) bool { return rows[i].line < rows[j].line })
	var sb strings.Builder
	sb.WriteString("-- GENERATED by harness/cmd/extract (route_skips.go) from /repo/pkg/routetab on every check run — do not edit\n")
	sb.WriteString("namespace Aurora.Generated.RouteSkips\n\n")
	sb.WriteString("/-- how a call supplies the variadic `skips` argument: the caller's own variadic parameter spread, the items of\n    `req.Paths` (after self was appended) spread, something else, or nothing -/\n")
	sb.WriteString("inductive How where\n  | param | pathItems | other | missing\nderiving DecidableEq, Repr\n\n")
	sb.WriteString("structure Call where\n  caller : String\n  line : Nat\n  callee : String\n  how : How\nderiving Repr\n\n")
	sb.WriteString("def calls : List Call := [\n")
	for i, r := range rows {
		c := ","
		if i == len(rows)-1 {
			c = ""
		}
		fmt.Fprintf(&sb, "  ⟨%q, %d, %q, .%s⟩%s\n", r.caller, r.line, r.callee, r.how, c)
	}
	sb.WriteString("]\n\nend Aurora.Generated.RouteSkips\n")
	return sb.String(), nil
}
