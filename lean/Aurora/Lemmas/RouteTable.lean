import Aurora.Model.RouteTable
/-! Helper lemmas for the route-table model (C27, reused by C28). -/
namespace Aurora.RouteTable

/-! ### association lists -/
section AList
variable {α β : Type} [DecidableEq α]

theorem aget_adel_self (m : List (α × β)) (x : α) : aget (adel m x) x = none := by
  induction m with
  | nil => rfl
  | cons kv m ih =>
    obtain ⟨k, v⟩ := kv
    by_cases hk : k = x <;> simp [adel, aget, hk, ih]

theorem aget_adel_ne (m : List (α × β)) (x y : α) (h : ¬ x = y) : aget (adel m x) y = aget m y := by
  induction m with
  | nil => rfl
  | cons kv m ih =>
    obtain ⟨k, v⟩ := kv
    by_cases hk : k = x
    · have : ¬ k = y := by rw [hk]; exact h
      simp [adel, aget, hk, ih, h]
    · simp [adel, aget, hk, ih]

theorem aget_adel (m : List (α × β)) (x y : α) :
    aget (adel m x) y = if x = y then none else aget m y := by
  by_cases hxy : x = y
  · subst hxy; simp [aget_adel_self]
  · simp [hxy, aget_adel_ne]

theorem aget_aput (m : List (α × β)) (x y : α) (v : β) :
    aget (aput m x v) y = if x = y then some v else aget m y := by
  unfold aput
  by_cases hxy : x = y
  · simp [aget, hxy]
  · simp [aget, hxy, aget_adel]

theorem aget_filter_none (m : List (α × β)) (p : α × β → Bool) (k : α)
    (h : aget m k = none) : aget (m.filter p) k = none := by
  induction m with
  | nil => simp [aget]
  | cons kv m ih =>
    obtain ⟨k', v⟩ := kv
    by_cases hk : k' = k
    · simp [aget, hk] at h
    · simp only [aget, hk, if_false] at h
      simp only [List.filter]
      split
      · simp [aget, hk, ih h]
      · exact ih h

theorem mem_of_aget (m : List (α × β)) (k : α) (v : β) (h : aget m k = some v) : (k, v) ∈ m := by
  induction m with
  | nil => simp [aget] at h
  | cons kv m ih =>
    obtain ⟨k', v'⟩ := kv
    by_cases hk : k' = k
    · simp only [aget, hk, if_true, Option.some.injEq] at h
      simp [hk, h]
    · simp only [aget, hk, if_false] at h
      exact List.mem_cons_of_mem _ (ih h)

end AList

/-! ### dedup -/

theorem mem_dedup (l : List Node) (x : Node) : x ∈ dedup l ↔ x ∈ l := by
  induction l with
  | nil => simp [dedup]
  | cons y ys ih =>
    simp only [dedup]
    split
    · rename_i h
      have hy : y ∈ dedup ys := by simpa using h
      constructor
      · intro hx; exact List.mem_cons_of_mem _ (ih.1 hx)
      · intro hx
        rcases List.mem_cons.1 hx with rfl | hx
        · exact hy
        · exact ih.2 hx
    · simp [ih]

theorem nodup_dedup (l : List Node) : (dedup l).Nodup := by
  induction l with
  | nil => simp [dedup]
  | cons y ys ih =>
    simp only [dedup]
    split
    · exact ih
    · rename_i h
      have hy : y ∉ dedup ys := by simpa using h
      exact List.nodup_cons.2 ⟨hy, ih⟩

/-! ### the route invariant -/

/-- a route filed under `tg` is the last hop of its own path, and `tg` is one of that path's
    targets (= occurs before the last hop) -/
def RouteOK (tg : Node) (r : Route) : Prop := r.nbr = lastHop r.key ∧ tg ∈ targets r.key

def RoutesInv (alpha : Nat) (m : List (Node × List Route)) : Prop :=
  ∀ tg rs, aget m tg = some rs → rs.length ≤ alpha ∧ ∀ r ∈ rs, RouteOK tg r

def Inv (alpha : Nat) (t : Table) : Prop := RoutesInv alpha t.routes ∧ RoutesInv alpha t.sroutes

theorem routesInv_nil (alpha : Nat) : RoutesInv alpha [] := by
  intro tg rs h; simp [aget] at h

theorem routesInv_aput {alpha : Nat} {m : List (Node × List Route)} (hm : RoutesInv alpha m)
    (tg : Node) (new : List Route) (hlen : new.length ≤ alpha) (hok : ∀ r ∈ new, RouteOK tg r) :
    RoutesInv alpha (aput m tg new) := by
  intro tg' rs h
  rw [aget_aput] at h
  by_cases e : tg = tg'
  · simp only [e, if_true, Option.some.injEq] at h
    subst h; subst e; exact ⟨hlen, hok⟩
  · simp only [e, if_false] at h
    exact hm tg' rs h

theorem truncOld_len {alpha : Nat} (ha : 1 ≤ alpha) (old : List Route) (h : old.length ≤ alpha) :
    (truncOld alpha old).length + 1 ≤ alpha := by
  unfold truncOld
  split
  · omega
  · split
    · simp only [List.length_take]; omega
    · omega

theorem truncOld_sub (alpha : Nat) (old : List Route) : ∀ r ∈ truncOld alpha old, r ∈ old := by
  intro r hr
  unfold truncOld at hr
  split at hr
  · exact List.mem_of_mem_take hr
  · split at hr
    · exact List.mem_of_mem_take hr
    · exact hr

theorem addRoute_paths (alpha : Nat) (t : Table) (tg : Node) (r : Route) :
    (addRoute alpha t tg r).paths = t.paths ∧ (addRoute alpha t tg r).spaths = t.spaths := by
  unfold addRoute
  split
  · split <;> simp
  · simp

theorem addRoute_inv {alpha : Nat} (ha : 1 ≤ alpha) {t : Table} (hi : Inv alpha t) (tg : Node)
    (r : Route) (hr : RouteOK tg r) : Inv alpha (addRoute alpha t tg r) := by
  unfold addRoute
  split
  · rename_i o os hget
    split
    · exact hi
    · have hold := hi.1 tg (o :: os) hget
      have hlen : (r :: truncOld alpha (o :: os)).length ≤ alpha := by
        have := truncOld_len ha (o :: os) hold.1
        simpa using this
      have hok : ∀ x ∈ r :: truncOld alpha (o :: os), RouteOK tg x := by
        intro x hx
        rcases List.mem_cons.1 hx with rfl | hx
        · exact hr
        · exact hold.2 x (truncOld_sub _ _ x hx)
      exact ⟨routesInv_aput hi.1 tg _ hlen hok, routesInv_aput hi.2 tg _ hlen hok⟩
  · have hlen : [r].length ≤ alpha := by simpa using ha
    have hok : ∀ x ∈ [r], RouteOK tg x := by
      intro x hx; simp at hx; subst hx; exact hr
    exact ⟨routesInv_aput hi.1 tg _ hlen hok, routesInv_aput hi.2 tg _ hlen hok⟩

theorem foldl_addRoute_inv {alpha : Nat} (ha : 1 ≤ alpha) (r : Route) (l : List Node) :
    ∀ t : Table, Inv alpha t → (∀ tg ∈ l, RouteOK tg r) →
      Inv alpha (l.foldl (fun acc tg => addRoute alpha acc tg r) t) := by
  induction l with
  | nil => intro t hi _; exact hi
  | cons x xs ih =>
    intro t hi hok
    simp only [List.foldl_cons]
    apply ih
    · exact addRoute_inv ha hi x r (hok x (List.mem_cons_self ..))
    · intro tg htg; exact hok tg (List.mem_cons_of_mem _ htg)

theorem foldl_addRoute_paths (alpha : Nat) (r : Route) (l : List Node) :
    ∀ t : Table, (l.foldl (fun acc tg => addRoute alpha acc tg r) t).paths = t.paths ∧
      (l.foldl (fun acc tg => addRoute alpha acc tg r) t).spaths = t.spaths := by
  induction l with
  | nil => intro t; exact ⟨rfl, rfl⟩
  | cons x xs ih =>
    intro t
    simp only [List.foldl_cons]
    have h1 := ih (addRoute alpha t x r)
    have h2 := addRoute_paths alpha t x r
    exact ⟨h1.1.trans h2.1, h1.2.trans h2.2⟩

theorem save_inv {alpha : Nat} (ha : 1 ≤ alpha) {t : Table} (hi : Inv alpha t) (items : List Node)
    (now : Nat) : Inv alpha (save alpha t items now) := by
  unfold save
  split
  · exact hi
  · apply foldl_addRoute_inv ha
    · exact hi
    · intro tg htg; exact ⟨rfl, htg⟩

theorem save_paths (alpha : Nat) (t : Table) (items : List Node) (now : Nat) (h : 2 ≤ items.length) :
    (save alpha t items now).paths = aput t.paths items now ∧
    (save alpha t items now).spaths = aput t.spaths items now := by
  unfold save
  have : ¬ items.length < 2 := by omega
  simp only [this, if_false]
  exact foldl_addRoute_paths alpha _ _ _

theorem delRoute_paths (t : Table) (key : Key) (tg : Node) :
    (delRoute t key tg).paths = t.paths ∧ (delRoute t key tg).spaths = t.spaths := by
  unfold delRoute
  split
  · dsimp only
    split <;> simp
  · simp

theorem delRoute_inv {alpha : Nat} {t : Table} (hi : Inv alpha t) (key : Key) (tg : Node) :
    Inv alpha (delRoute t key tg) := by
  unfold delRoute
  split
  · rename_i rs hget
    dsimp only
    split
    · have hold := hi.1 tg rs hget
      refine ⟨routesInv_aput hi.1 tg _ ?_ ?_, hi.2⟩
      · exact Nat.le_trans (List.length_filter_le _ _) hold.1
      · intro r hr; exact hold.2 r (List.mem_filter.1 hr).1
    · exact hi
  · exact hi

theorem foldl_delRoute (key : Key) (l : List Node) {alpha : Nat} :
    ∀ t : Table, (Inv alpha t → Inv alpha (l.foldl (fun acc tg => delRoute acc key tg) t)) ∧
      (l.foldl (fun acc tg => delRoute acc key tg) t).paths = t.paths ∧
      (l.foldl (fun acc tg => delRoute acc key tg) t).spaths = t.spaths := by
  induction l with
  | nil => intro t; exact ⟨id, rfl, rfl⟩
  | cons x xs ih =>
    intro t
    simp only [List.foldl_cons]
    have h1 := ih (delRoute t key x)
    have h2 := delRoute_paths t key x
    exact ⟨fun hi => h1.1 (delRoute_inv hi key x), h1.2.1.trans h2.1, h1.2.2.trans h2.2⟩

theorem delete_inv {alpha : Nat} {t : Table} (hi : Inv alpha t) (items : List Node) :
    Inv alpha (delete t items) := by
  unfold delete
  exact (foldl_delRoute items (targets items) _).1 hi

theorem delete_paths (t : Table) (items : List Node) :
    (delete t items).paths = adel t.paths items ∧ (delete t items).spaths = adel t.spaths items := by
  unfold delete
  have := foldl_delRoute (alpha := 0) items (targets items)
    { t with paths := adel t.paths items, spaths := adel t.spaths items }
  exact ⟨this.2.1, this.2.2⟩

theorem foldl_delete_inv {alpha : Nat} (ks : List Key) :
    ∀ t : Table, Inv alpha t → Inv alpha (ks.foldl delete t) := by
  induction ks with
  | nil => intro t hi; exact hi
  | cons k ks ih => intro t hi; exact ih _ (delete_inv hi k)

theorem gc_inv {alpha : Nat} {t : Table} (hi : Inv alpha t) (e now : Nat) : Inv alpha (gc t e now) :=
  foldl_delete_inv _ t hi

theorem reload_inv {alpha : Nat} {t : Table} (hi : Inv alpha t) (ttl : Nat) :
    Inv alpha (reload ttl t) := ⟨hi.2, hi.2⟩

theorem step_inv {alpha : Nat} (ha : 1 ≤ alpha) (ttl : Nat) {t : Table} (hi : Inv alpha t) (op : Op) :
    Inv alpha (step alpha ttl t op) := by
  cases op with
  | save items now => exact save_inv ha hi items now
  | delete items => exact delete_inv hi items
  | gc e n => exact gc_inv hi e n
  | reload => exact reload_inv hi ttl

theorem foldl_step_inv {alpha : Nat} (ha : 1 ≤ alpha) (ttl : Nat) (ops : List Op) :
    ∀ t : Table, Inv alpha t → Inv alpha (ops.foldl (step alpha ttl) t) := by
  induction ops with
  | nil => intro t hi; exact hi
  | cons op ops ih => intro t hi; exact ih _ (step_inv ha ttl hi op)

theorem run_inv {alpha : Nat} (ha : 1 ≤ alpha) (ttl : Nat) (ops : List Op) : Inv alpha (run alpha ttl ops) :=
  foldl_step_inv ha ttl ops empty ⟨routesInv_nil _, routesInv_nil _⟩

/-! ### absence of a path (deleted / expired) -/

/-- the path is neither loaded nor persisted -/
def Absent (t : Table) (k : Key) : Prop := aget t.paths k = none ∧ aget t.spaths k = none

theorem delete_absent (t : Table) (k : Key) : Absent (delete t k) k := by
  have h := delete_paths t k
  unfold Absent
  rw [h.1, h.2, aget_adel, aget_adel]
  simp

theorem delete_absent_pres {t : Table} {k : Key} (h : Absent t k) (items : List Node) :
    Absent (delete t items) k := by
  have hp := delete_paths t items
  unfold Absent
  rw [hp.1, hp.2, aget_adel, aget_adel]
  by_cases e : items = k
  · simp [e]
  · simp [e, h.1, h.2]

theorem foldl_delete_absent_pres (ks : List Key) (k : Key) :
    ∀ t : Table, Absent t k → Absent (ks.foldl delete t) k := by
  induction ks with
  | nil => intro t h; exact h
  | cons x xs ih => intro t h; exact ih _ (delete_absent_pres h x)

theorem foldl_delete_absent (ks : List Key) (k : Key) (hk : k ∈ ks) :
    ∀ t : Table, Absent (ks.foldl delete t) k := by
  induction ks with
  | nil => simp at hk
  | cons x xs ih =>
    intro t
    simp only [List.foldl_cons]
    by_cases e : x = k
    · subst e; exact foldl_delete_absent_pres xs x _ (delete_absent t x)
    · rcases List.mem_cons.1 hk with h | h
      · exact absurd h.symm e
      · exact ih h _

theorem gc_absent (t : Table) (e now u : Nat) (k : Key) (hk : aget t.paths k = some u)
    (hexp : now - u > e) : Absent (gc t e now) k := by
  unfold gc
  apply foldl_delete_absent
  have hm := mem_of_aget _ _ _ hk
  apply List.mem_map.2
  refine ⟨(k, u), List.mem_filter.2 ⟨hm, ?_⟩, rfl⟩
  simp [expired, hexp]

theorem step_absent_pres (alpha ttl : Nat) {t : Table} {k : Key} (h : Absent t k) (op : Op)
    (hop : ∀ now, op ≠ Op.save k now) : Absent (step alpha ttl t op) k := by
  cases op with
  | save items now =>
    simp only [step]
    by_cases hl : 2 ≤ items.length
    · have hp := save_paths alpha t items now hl
      have hne : ¬ items = k := fun e => hop now (by rw [e])
      unfold Absent
      rw [hp.1, hp.2, aget_aput, aget_aput]
      simp [hne, h.1, h.2]
    · have : items.length < 2 := by omega
      simp only [save, this, if_true]; exact h
  | delete items => exact delete_absent_pres h items
  | gc e n => exact foldl_delete_absent_pres _ k t h
  | reload =>
    simp only [step, reload, Absent]
    exact ⟨aget_filter_none _ _ _ h.2, aget_filter_none _ _ _ h.2⟩

theorem foldl_step_absent_pres (alpha ttl : Nat) (k : Key) (ops : List Op)
    (hops : ∀ now, Op.save k now ∉ ops) :
    ∀ t : Table, Absent t k → Absent (ops.foldl (step alpha ttl) t) k := by
  induction ops with
  | nil => intro t h; exact h
  | cons op ops ih =>
    intro t h
    simp only [List.foldl_cons]
    apply ih
    · intro now hm; exact hops now (List.mem_cons_of_mem _ hm)
    · apply step_absent_pres alpha ttl h
      intro now e; exact hops now (by rw [e]; exact List.mem_cons_self ..)

/-! ### what `get` / `nextHop` return -/

theorem get_spec {alpha : Nat} {t : Table} (hi : Inv alpha t) (tg : Node) (ps : List Key)
    (h : get t tg = some ps) :
    ps.length ≤ alpha ∧ ∀ p ∈ ps, (aget t.paths p).isSome ∧ tg ∈ targets p := by
  unfold get at h
  split at h
  · simp at h
  · rename_i rs hget
    have hold := hi.1 tg rs hget
    simp only at h
    split at h
    · simp at h
    · simp only [Option.some.injEq] at h
      subst h
      constructor
      · exact Nat.le_trans (List.length_filterMap_le _ _) hold.1
      · intro p hp
        obtain ⟨r, hr, hrp⟩ := List.mem_filterMap.1 hp
        cases hq : aget t.paths r.key with
        | none => simp [hq] at hrp
        | some u =>
          simp only [hq, Option.map_some, Option.some.injEq] at hrp
          subst hrp
          exact ⟨by simp [hq], (hold.2 r hr).2⟩

theorem nextHop_spec {alpha : Nat} {t : Table} (hi : Inv alpha t) (tg : Node) (skips : List Node) :
    (nextHop t tg skips).Nodup ∧ ∀ h ∈ nextHop t tg skips,
      h ∉ skips ∧ ∃ p, (aget t.paths p).isSome ∧ lastHop p = h ∧ tg ∈ targets p := by
  unfold nextHop
  split
  · simp
  · rename_i rs hget
    have hold := hi.1 tg rs hget
    refine ⟨nodup_dedup _, ?_⟩
    intro h hh
    rw [mem_dedup] at hh
    obtain ⟨r, hr, hrn⟩ := List.mem_map.1 hh
    obtain ⟨hrs, hcond⟩ := List.mem_filter.1 hr
    simp only [Bool.and_eq_true, Bool.not_eq_true', List.contains_eq_mem, decide_eq_false_iff_not] at hcond
    subst hrn
    exact ⟨hcond.2, r.key, hcond.1, (hold.2 r hrs).1.symm, (hold.2 r hrs).2⟩

theorem getLast?_of_mem_targets (p : List Node) (tg : Node) (h : tg ∈ targets p) :
    p.getLast? = some (lastHop p) := by
  cases p with
  | nil => simp [targets] at h
  | cons x xs => simp [lastHop, List.getLast?_eq_some_getLast, List.getLastD]

end Aurora.RouteTable
