import Aurora.Lemmas.Localstore
import Aurora.Lemmas.LocalstoreCS
import Aurora.Lemmas.LocalstoreBatch
/-!
C11 — Local store returns exactly what was stored (garbage collection out of reach: no `gcSelect`/
`gcEvict` in the histories considered; the capacity premise of DESIGN §6 is therefore not needed by
the statements below — none of the operations treated here consults the capacity except for the
trigger flag).
-/
namespace Aurora.Localstore

/-- the abstract chunk set: address ↦ (bytes, pin count) -/
def absCS (db : Db) (a : Addr) : Option (Bytes × Nat) :=
  (SMap.get a db.data).map (fun d => (d.data, (SMap.get a db.pin).getD 0))

/-! ## lookups read exactly the data index -/

/-- `Has(ModeHasChunk)` ⇔ the address is in the abstract chunk set -/
theorem C11_has_iff_present (s : State) (a : Addr) :
    has s .chunk a = .bool (absCS s.db a).isSome := by
  simp [has, absCS, SMap.has]

/-- `Get` in the non-pin modes returns exactly the stored bytes, and fails iff the chunk is absent -/
theorem C11_get_exact (s : State) (r : Option Addr) (a : Addr) (m : GetMode) (hm : m = .sync ∨ m = .lookup) :
    (get s m r a).out = match absCS s.db a with
      | some (d, _) => .chunk d
      | none => .err .notFound := by
  unfold get absCS
  cases h : SMap.get a s.db.data with
  | none => simp
  | some d => rcases hm with hm | hm <;> subst hm <;> simp

/-- `Get(ModeGetRequest)` returns the stored bytes as well (and only re-keys gc bookkeeping) -/
theorem C11_get_request_exact (s : State) (r : Option Addr) (a : Addr) :
    (get s .request r a).out = match absCS s.db a with
      | some (d, _) => .chunk d
      | none => .err .notFound := by
  unfold get absCS
  cases h : SMap.get a s.db.data with
  | none => simp
  | some d => cases r <;> simp

/-! ## exist flags -/

/-- `exist_flag_exact`, for every mode, every state, single and batched calls, with or without root
context: whenever `Put` succeeds, `exist[i]` ⇔ chunk i was present before the call or is duplicated
earlier in the same call. -/
theorem C11_exist_flag_exact (po : Addr → Nat) (s : State) (mode : PutMode) (root : Option Addr)
    (chs : List (Addr × Bytes)) (l : List Bool) (h : (put po s mode root chs).out = .exist l) :
    l = existSpec s.db.data [] chs := by
  unfold put at h
  by_cases hf : putFast s mode chs = true
  · simp only [hf, if_true] at h
    unfold putFast at hf
    split at hf
    · rename_i a d
      simp only [Bool.and_eq_true] at hf
      injection h with h
      simp [existSpec, hf.2, ← h]
    · simp at hf
  · simp only [hf, Bool.false_eq_true, if_false, finish, putBody] at h
    split at h
    · simp at h
    · have hs := (putLoop_spec po mode root chs (Tx.start s) [] []).2
      cases hl : putLoop po mode root (Tx.start s) [] chs [] with
      | error e => obtain ⟨e1, t⟩ := e; rw [hl] at h; simp at h
      | ok p =>
        obtain ⟨t, ex⟩ := p
        rw [hl] at h
        simp only [Out.exist.injEq] at h
        have := hs t ex hl
        simp only [List.reverse_nil, List.nil_append, Tx.start] at this
        rw [← h, this]

example : existSpec [] [] [(1, []), (2, []), (1, [])] = [false, false, true] := by decide

/-! ## batched = one at a time -/

def po0c : Addr → Nat := fun _ => 0
def runOpsC (s : State) (ops : List Op) : State := ops.foldl (step po0c) s
def c0 : State := init 1000000

/-- states equal on the abstract chunk set (over the addresses 1…8 used by the witnesses) -/
def absEq (s t : State) : Bool := (List.range 9).all (fun a => absCS s.db a == absCS t.db a)

/-- gc bookkeeping with timestamps abstracted to their order: (root, GCounter) in index order + gcSize -/
def bookkeeping (s : State) : List (Addr × Nat) × Nat := (s.db.gc.map (fun e => (e.1.addr, e.2)), s.db.gcSize)

/-- full statement: a batched `Put` reaches the same abstract chunk set as the same chunks one at a time -/
def C11_batch_eq_sequential_abstract_full : Prop :=
  ∀ (s : State) (m : PutMode) (r : Option Addr) (chs : List (Addr × Bytes)),
    absEq (step po0c s (.put m r chs)) (chs.foldl (fun t c => step po0c t (.put m r [c])) s) = true

/-- full statement for the gc bookkeeping -/
def C11_batch_eq_sequential_bookkeeping_full : Prop :=
  ∀ (s : State) (m : PutMode) (r : Option Addr) (chs : List (Addr × Bytes)),
    bookkeeping (step po0c s (.put m r chs)) = bookkeeping (chs.foldl (fun t c => step po0c t (.put m r [c])) s)

/-- trigger `batch-aborts-where-sequential-stores`: root chunk new in the same call — the whole batch
fails (the root's bin id is looked up in the database, not in the batch) while one at a time both
chunks are stored. -/
theorem C11_batch_eq_sequential_abstract_counterexample : ¬ C11_batch_eq_sequential_abstract_full := by
  intro h
  have := h c0 .request (some 1) [(1, []), (2, [])]
  revert this
  decide

/-- trigger `batch-dup-pins-once`: a duplicated chunk in a pinning batch is pinned once; one at a time
`ModePutUploadPin` pins it per call. -/
theorem C11_batch_dup_pin_counterexample :
    absEq (step po0c c0 (.put .uploadPin none [(1, []), (1, [])]))
          (runOpsC c0 [.put .uploadPin none [(1, [])], .put .uploadPin none [(1, [])]]) = false := by decide

/-- the non-pinning modes without root context, and distinct new chunks, do agree (non-vacuity witness) -/
example : absEq (step po0c c0 (.put .upload none [(1, [1]), (2, [2])]))
          (runOpsC c0 [.put .upload none [(1, [1])], .put .upload none [(2, [2])]]) = true := by decide

/-- trigger `batch-req-root-gcounter`: `batch_eq_sequential_bookkeeping` is false — two new chunks in one
`ModePutRequest` call under a root context leave `GCounter = 2, gcSize = 3`; one at a time `3, 3`. -/
theorem C11_batch_eq_sequential_bookkeeping_counterexample : ¬ C11_batch_eq_sequential_bookkeeping_full := by
  intro h
  have := h (step po0c c0 (.put .request (some 1) [(1, [])])) .request (some 1) [(2, []), (3, [])]
  revert this
  decide

/-- trigger `batch-reqpin-root-gcsize`: two `ModePutRequestPin` chunks in one call under a cached root —
the sum of the decrements exceeds gcSize and is skipped. -/
theorem C11_batch_reqpin_bookkeeping_counterexample :
    bookkeeping (step po0c (step po0c c0 (.put .request (some 1) [(1, [])])) (.put .requestPin (some 1) [(2, []), (3, [])]))
    ≠ bookkeeping (runOpsC (step po0c c0 (.put .request (some 1) [(1, [])]))
        [.put .requestPin (some 1) [(2, [])], .put .requestPin (some 1) [(3, [])]]) := by decide

/-! ## `present_iff` over histories

The reference chunk set (`ChunkSet := Addr → Option (Bytes × Nat)`, `Lemmas/LocalstoreCS.lean`) is a fold
over the *observed* history — every operation together with whether it reported success:
`specFrom ∅ (traceH po s₀ ops)`, with `specStep` = `specPut` (an absent address of the call is stored with
the bytes of its first occurrence in the call, pin count 1 in the pinning modes; a present chunk keeps its
bytes — the first put wins — and `ModePutUploadPin` pins it again), `specSet` (remove deletes a chunk with
pin count ≤ 1 and otherwise only lowers the pin count; pin/unpin raise/lower it; sync nothing), identity for
every lookup, clock/capacity change and reopen, and identity for any operation that reported an error.
"Garbage collection out of reach" is the explicit premise `gcQuietH`: a collection run is only ever
started in a state whose cached-chunk counter is within the target (then it ends at once). -/

theorem C11_absCS_eq_csOf (db : Db) : absCS db = csOf db := by
  funext a
  simp [absCS, csOf, bget, pget, Option.map_map, Function.comp_def]

/-- `present_iff`: for every operation list (all put modes single or batched, with/without root
context, gets, has, all set modes incl. pin/unpin/remove, reopen, clock and capacity changes) from the
empty store, with garbage collection out of reach, the store's chunk set equals the reference chunk set
of the observed history.  Hence `Has` answers exactly "put and not removed since" (removal of a pinned
chunk only decrements its pin counter), `Has(pin)` exactly "pin count > 0", and `Get` (sync, lookup,
request; any root context) returns the bytes of the put that stored the chunk, or not-found. -/
theorem C11_present_iff (po : Addr → Nat) (cap : Nat) (ops : List Op)
    (hq : gcQuietH po (init cap) ops = true) :
    (∀ a, absCS (runH po (init cap) ops).db a = specFrom (fun _ => none) (traceH po (init cap) ops) a) ∧
    (∀ a, has (runH po (init cap) ops) .chunk a =
        .bool (specFrom (fun _ => none) (traceH po (init cap) ops) a).isSome) ∧
    (∀ a, has (runH po (init cap) ops) .pin a =
        .bool (match specFrom (fun _ => none) (traceH po (init cap) ops) a with
               | some (_, p) => decide (p > 0)
               | none => false)) ∧
    (∀ a r m, m = .sync ∨ m = .lookup ∨ m = .request →
        (get (runH po (init cap) ops) m r a).out =
          match specFrom (fun _ => none) (traceH po (init cap) ops) a with
          | some (d, _) => .chunk d
          | none => .err .notFound) := by
  obtain ⟨hI, _, hcs⟩ := hist_refines po ops (init cap) rfl (pinInv_init cap) hq
  rw [csOf_init] at hcs
  have habs : ∀ a, absCS (runH po (init cap) ops).db a =
      specFrom (fun _ => none) (traceH po (init cap) ops) a := by
    intro a; rw [C11_absCS_eq_csOf, hcs]
  refine ⟨habs, ?_, ?_, ?_⟩
  · intro a
    rw [C11_has_iff_present, habs]
  · intro a
    rw [← habs, C11_absCS_eq_csOf]
    simp only [has, csOf]
    cases hp : pget a (runH po (init cap) ops).db with
    | none =>
      have : SMap.has a (runH po (init cap) ops).db.pin = false := by
        simp [SMap.has, show SMap.get a (runH po (init cap) ops).db.pin = none from hp]
      rw [this]
      cases bget a (runH po (init cap) ops).db <;> simp
    | some c =>
      obtain ⟨hc, hb⟩ := hI a c hp
      have : SMap.has a (runH po (init cap) ops).db.pin = true := by
        simp [SMap.has, show SMap.get a (runH po (init cap) ops).db.pin = some c from hp]
      rw [this]
      cases hbb : bget a (runH po (init cap) ops).db with
      | none => simp [hbb] at hb
      | some d => simp; omega
  · intro a r m hm
    rw [← habs]
    rcases hm with hm | hm | hm
    · exact C11_get_exact _ r a m (Or.inl hm)
    · exact C11_get_exact _ r a m (Or.inr hm)
    · subst hm; exact C11_get_request_exact _ r a

/-- non-vacuity of the premise, on a history with batched and pinning puts, a removal of a pinned chunk
and an idle collection attempt; the reference says: chunk 1 is still stored (pin count 1 after one
removal), chunk 2 is gone, chunk 3 holds the bytes of its first put -/
example :
    let ops : List Op := [.put .uploadPin none [(1, [7]), (2, [8])], .set .pin none [1], .put .request (some 3) [(3, [9])],
      .put .upload none [(3, [10])], .set .remove none [1, 2], .gcSelect, .get .request none 3]
    gcQuietH po0c c0 ops = true ∧
    specFrom (fun _ => none) (traceH po0c c0 ops) 1 = some ([7], 1) ∧
    specFrom (fun _ => none) (traceH po0c c0 ops) 2 = none ∧
    specFrom (fun _ => none) (traceH po0c c0 ops) 3 = some ([9], 0) := by decide

/-! ## batched = one at a time, on the chunk-set abstraction, outside the known-finding shapes -/

/-- the guard of `C11_batch_eq_sequential_abstract_partial`: the batched call succeeds (excludes
`batch-aborts-where-sequential-stores`), and a `ModePutUploadPin` batch lists every address once (excludes
`batch-dup-pins-once`; a duplicate in a `ModePutRequestPin` batch is harmless — the second single call finds
the chunk present and does not pin it again). -/
def C11_batchGuard (po : Addr → Nat) (s : State) (m : PutMode) (r : Option Addr) (chs : List (Addr × Bytes)) : Bool :=
  batchGuard po s m r chs

/-- `batch_eq_sequential_abstract` (partial — guard `C11_batchGuard`): in every state whose pin entries are
positive and belong to stored chunks (`PinInv`; every state reachable with garbage collection out of reach,
`C11_pinInv_histories`), for every mode, root context and chunk list (duplicates included), the batched `Put`
and the same chunks put one call at a time reach states equal on `Addr ↦ (bytes, pin count)`.
Missing for the full clause: the two excluded shapes, refuted by
`C11_batch_eq_sequential_abstract_counterexample` and `C11_batch_dup_pin_counterexample`. -/
theorem C11_batch_eq_sequential_abstract_partial (po : Addr → Nat) (s : State) (m : PutMode) (r : Option Addr)
    (chs : List (Addr × Bytes)) (hI : PinInv s.db) (hg : C11_batchGuard po s m r chs = true) :
    ∀ a, absCS (step po s (.put m r chs)).db a =
         absCS (chs.foldl (fun t c => step po t (.put m r [c])) s).db a := by
  intro a
  have := batch_eq_seq po s m r chs hI hg
  rw [C11_absCS_eq_csOf, C11_absCS_eq_csOf, this]
  rfl

/-- the state premise of the previous theorem holds after every history with garbage collection out of reach -/
theorem C11_pinInv_histories (po : Addr → Nat) (cap : Nat) (ops : List Op)
    (hq : gcQuietH po (init cap) ops = true) : PinInv (runH po (init cap) ops).db :=
  (hist_refines po ops (init cap) rfl (pinInv_init cap) hq).1

/-- the same in the form of `C11_batch_eq_sequential_abstract_full` (`absEq` over the witness universe) -/
theorem C11_batch_eq_sequential_absEq_partial (s : State) (m : PutMode) (r : Option Addr)
    (chs : List (Addr × Bytes)) (hI : PinInv s.db) (hg : C11_batchGuard po0c s m r chs = true) :
    absEq (step po0c s (.put m r chs)) (chs.foldl (fun t c => step po0c t (.put m r [c])) s) = true := by
  simp only [absEq, List.all_eq_true, beq_iff_eq]
  intro a _
  exact C11_batch_eq_sequential_abstract_partial po0c s m r chs hI hg a

/-- the guard is false on both counterexample shapes … -/
example : C11_batchGuard po0c c0 .request (some 1) [(1, []), (2, [])] = false ∧
    C11_batchGuard po0c c0 .uploadPin none [(1, []), (1, [])] = false := by decide
/-- … and true on batches with a root context, with duplicates, and in the pinning modes (non-vacuity) -/
example : C11_batchGuard po0c (step po0c c0 (.put .request (some 1) [(1, [])])) .request (some 1) [(2, []), (3, []), (2, [5])] = true ∧
    C11_batchGuard po0c c0 .requestPin none [(1, []), (1, [])] = true ∧
    C11_batchGuard po0c c0 .uploadPin (some 4) [(1, []), (2, [])] = true ∧
    PinInv c0.db := ⟨by decide, by decide, by decide, pinInv_init _⟩

end Aurora.Localstore
