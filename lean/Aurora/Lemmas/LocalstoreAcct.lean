import Aurora.Lemmas.Localstore
import Aurora.Lemmas.LocalstoreGc
import Aurora.Lemmas.LocalstoreCS
/-!
Accounting lemmas for C13: how every per-address step of `put`/`set`, the commit, `updateGC` and the
collection run move `gcSize` and Σ GCounter.
-/
namespace Aurora.Localstore

set_option linter.unusedSectionVars false
set_option linter.unusedSimpArgs false
set_option linter.unusedVariables false

/-- the database the transaction would commit (before the `gcSize` write) -/
def Tx.final (tx : Tx) : Db := applyBatch tx.db tx.batch

/-- the pending batch does not touch the gc index nor gcSize -/
def Clean (tx : Tx) : Prop :=
  ∀ D : Db, (applyBatch D tx.batch).gc = D.gc ∧ (applyBatch D tx.batch).gcSize = D.gcSize

/-- a step that is invisible to the accounting -/
def Neutral (tx tx' : Tx) : Prop :=
  tx'.db = tx.db ∧ tx'.log = tx.log ∧ tx'.change = tx.change ∧
  ∀ D : Db, (applyBatch D tx'.batch).gc = (applyBatch D tx.batch).gc ∧
            (applyBatch D tx'.batch).gcSize = (applyBatch D tx.batch).gcSize

theorem Neutral.refl (tx : Tx) : Neutral tx tx := ⟨rfl, rfl, rfl, fun _ => ⟨rfl, rfl⟩⟩

theorem Neutral.trans {a b c : Tx} (h1 : Neutral a b) (h2 : Neutral b c) : Neutral a c :=
  ⟨h2.1.trans h1.1, h2.2.1.trans h1.2.1, h2.2.2.1.trans h1.2.2.1,
   fun D => ⟨(h2.2.2.2 D).1.trans (h1.2.2.2 D).1, (h2.2.2.2 D).2.trans (h1.2.2.2 D).2⟩⟩

theorem Neutral.clean {tx tx' : Tx} (h : Neutral tx tx') (hc : Clean tx) : Clean tx' :=
  fun D => ⟨(h.2.2.2 D).1.trans (hc D).1, (h.2.2.2 D).2.trans (hc D).2⟩

/-- accounting invariant of a transaction started on `d0` -/
structure Acc (d0 : Db) (tx : Tx) : Prop where
  db_eq : tx.db = applyLog d0 tx.log
  dsize : tx.db.gcSize = d0.gcSize
  fsize : tx.final.gcSize = d0.gcSize
  sum : (gcSum tx.final.gc : Int) = (gcSum d0.gc : Int) + tx.change

theorem Neutral.acc {d0 : Db} {tx tx' : Tx} (h : Neutral tx tx') (ha : Acc d0 tx) : Acc d0 tx' := by
  obtain ⟨h1, h2, h3, h4⟩ := h
  refine ⟨by rw [h1, h2]; exact ha.db_eq, by rw [h1]; exact ha.dsize, ?_, ?_⟩
  · simp only [Tx.final, h1]; rw [(h4 tx.db).2]; exact ha.fsize
  · simp only [Tx.final, h1, h3]; rw [(h4 tx.db).1]; exact ha.sum

theorem Acc.start (s : State) : Acc s.db (Tx.start s) :=
  ⟨rfl, rfl, rfl, by simp [Tx.final, Tx.start]⟩

theorem Clean.start (s : State) : Clean (Tx.start s) := fun _ => ⟨rfl, rfl⟩

theorem Acc.gcWF {d0 : Db} {tx : Tx} (ha : Acc d0 tx) (hw : GcWF d0) : GcWF tx.db := by
  rw [ha.db_eq]; exact gcWF_applyLog _ _ hw

/-- with a clean batch the would-be committed gc index is the one reads see -/
theorem Acc.sum_db {d0 : Db} {tx : Tx} (ha : Acc d0 tx) (hc : Clean tx) :
    (gcSum tx.db.gc : Int) = (gcSum d0.gc : Int) + tx.change := by
  have := ha.sum
  simp only [Tx.final] at this
  rw [(hc tx.db).1] at this
  exact this

/-- result of a step: a property of the new transaction, or an error that performed no direct write -/
def StepR (tx : Tx) (r : Except (Err × Tx) Tx) (P : Tx → Prop) : Prop :=
  match r with
  | .ok t => P t
  | .error (_, t) => t.log = tx.log

@[simp] theorem StepR_ok (tx t : Tx) (P : Tx → Prop) : StepR tx (.ok t) P = P t := rfl
@[simp] theorem StepR_error (tx t : Tx) (e : Err) (P : Tx → Prop) : StepR tx (.error (e, t)) P = (t.log = tx.log) := rfl

theorem StepR.mono {tx : Tx} {r : Except (Err × Tx) Tx} {P Q : Tx → Prop} (h : StepR tx r P) (hpq : ∀ t, P t → Q t) :
    StepR tx r Q := by
  cases r with
  | ok t => exact hpq t h
  | error e => exact h

theorem get_le_gcSum (k : GcKey) (gc : List (GcKey × Nat)) (c : Nat) (hw : (SMap.keys gc).Nodup)
    (h : SMap.get k gc = some c) : c ≤ gcSum gc := by
  have := gcSum_erase k gc hw
  rw [h] at this
  simp at this
  omega

/-- no `GCounter++` on this database wraps: every gc entry is below `2^64 − 1` (the Go counter is a uint64;
`setGC` / `setUnpin` write `(c + 1) % 2^64`) -/
def NoWrap (db : Db) : Prop := ∀ (k : GcKey) (c : Nat), SMap.get k db.gc = some c → c + 1 < two64

/-- under the accounting invariant a wrapping increment is impossible as long as `gcSize + 1` fits a uint64
(the clause the guards of the single-address calls carry anyway): every counter is at most Σ = gcSize -/
theorem noWrap_of_inv (db : Db) (hw : (SMap.keys db.gc).Nodup) (hinv : db.gcSize = gcSum db.gc)
    (hfit : db.gcSize + 1 < two64) : NoWrap db := by
  intro k c h
  have := get_le_gcSum k db.gc c hw h
  omega

/-! ## the root part of the per-address steps, by cases of what the database holds for the root -/

/-- how `setPinRoot` / the root part of `setRemove` will act -/
inductive RootCase
  | idle      -- no root context, or the root has no access entry
  | err       -- access entry but the root chunk is not stored
  | noEntry   -- no gc entry under the root's key
  | del       -- GCounter = 1
  | dec (c : Nat)  -- any other GCounter
deriving DecidableEq, Repr

def rootCase (db : Db) (root : Option Addr) : RootCase :=
  match root with
  | none => .idle
  | some r =>
    match SMap.get r db.access with
    | none => .idle
    | some t =>
      match SMap.get r db.data with
      | none => .err
      | some rd =>
        match SMap.get (⟨t, rd.binID, r⟩ : GcKey) db.gc with
        | none => .noEntry
        | some c => if c = 1 then .del else .dec c

/-- `setGC` under a root context on a clean batch: Σ and the pending change both grow by one — provided the
uint64 increment of the root's counter does not wrap (`NoWrap`; false otherwise, see
`C13_inv_step_wrap_counterexample`) -/
theorem setGC_acc (d0 : Db) (tx : Tx) (root : Option Addr) (b : Nat) (hw : GcWF d0) (ha : Acc d0 tx) (hc : Clean tx)
    (hnw : NoWrap tx.db) :
    StepR tx (setGC tx root b) (fun t => Acc d0 t ∧ t.change ≤ tx.change + 1) := by
  have hwf := ha.gcWF hw
  have hs := ha.sum_db hc
  have hcl := hc tx.db
  simp only [setGC, Tx.now, Tx.inBatch, Tx.addChange]
  cases root with
  | none => simp only [StepR_ok]; exact ⟨ha, by omega⟩
  | some r =>
    simp only []
    cases hacc : SMap.get r tx.db.access with
    | some t =>
      simp only []
      cases hbin : (if b = 0 then Option.map (fun x => x.binID) (SMap.get r tx.db.data) else some b) with
      | none => simp only [StepR_error]
      | some bin =>
        simp only [StepR_ok]
        refine ⟨⟨ha.db_eq, ha.dsize, ?_, ?_⟩, by simp⟩
        · simp only [Tx.final, applyBatch_append, applyBatch_cons, applyBatch_nil, applyW]
          exact ha.fsize
        · simp only [Tx.final, applyBatch_append, applyBatch_cons, applyBatch_nil, applyW, hcl.1]
          have := gcSum_put ⟨t, bin, r⟩
            (match SMap.get (⟨t, bin, r⟩ : GcKey) tx.db.gc with | none => 1 | some c => (c + 1) % two64) tx.db.gc hwf
          cases hg : SMap.get (⟨t, bin, r⟩ : GcKey) tx.db.gc with
          | none => simp only [hg] at this ⊢; simp at this; omega
          | some c =>
            have hm := Nat.mod_eq_of_lt (hnw _ _ hg)
            simp only [hg, hm] at this ⊢; simp at this; omega
    | none =>
      simp only []
      cases hbin : (if b = 0 then Option.map (fun x => x.binID) (SMap.get r tx.db.data) else some b) with
      | none => simp only [StepR_error]
      | some bin =>
        simp only [StepR_ok]
        refine ⟨⟨ha.db_eq, ha.dsize, ?_, ?_⟩, by simp⟩
        · simp only [Tx.final, applyBatch_append, applyBatch_cons, applyBatch_nil, applyW]
          exact ha.fsize
        · simp only [Tx.final, applyBatch_append, applyBatch_cons, applyBatch_nil, applyW, hcl.1]
          have := gcSum_put ⟨tx.clock, bin, r⟩
            (match SMap.get (⟨tx.clock, bin, r⟩ : GcKey) tx.db.gc with | none => 1 | some c => (c + 1) % two64) tx.db.gc hwf
          cases hg : SMap.get (⟨tx.clock, bin, r⟩ : GcKey) tx.db.gc with
          | none => simp only [hg] at this ⊢; simp at this; omega
          | some c =>
            have hm := Nat.mod_eq_of_lt (hnw _ _ hg)
            simp only [hg, hm] at this ⊢; simp at this; omega

theorem dec64_of_pos (c : Nat) (h : c ≥ 1) : dec64 c = c - 1 := by
  simp [dec64]; omega

/-- the shapes of the root's bookkeeping under which one `setPinRoot` keeps the accounting exact -/
def rootOne (db : Db) (root : Option Addr) : Bool :=
  match rootCase db root with
  | .del => true
  | .dec c => decide (c ≥ 2)
  | _ => false

/-- the shapes under which `setPinRoot` neither writes nor changes the pending change (or fails) -/
def rootQuiet (db : Db) (root : Option Addr) : Bool :=
  match rootCase db root with
  | .idle => true
  | .err => true
  | _ => false

theorem setPinRoot_quiet (tx : Tx) (root : Option Addr) (h : rootQuiet tx.db root = true) :
    StepR tx (setPinRoot tx root) (fun t => t = tx) := by
  simp only [rootQuiet, rootCase] at h
  simp only [setPinRoot]
  cases root with
  | none => simp
  | some r =>
    simp only [] at h ⊢
    cases hacc : SMap.get r tx.db.access with
    | none => simp
    | some t =>
      simp only [hacc] at h ⊢
      cases hd : SMap.get r tx.db.data with
      | none => simp
      | some rd =>
        simp only [hd] at h ⊢
        cases hg : SMap.get (⟨t, rd.binID, r⟩ : GcKey) tx.db.gc with
        | none => simp [hg] at h
        | some c =>
          simp only [hg] at h
          by_cases hc : c = 1 <;> simp [hc] at h

/-- no gc entry: only the pending change moves -/
theorem setPinRoot_noEntry (tx : Tx) (root : Option Addr) (h : rootCase tx.db root = .noEntry) :
    setPinRoot tx root = .ok (tx.addChange (-1)) := by
  simp only [rootCase] at h
  simp only [setPinRoot]
  cases root with
  | none => simp at h
  | some r =>
    simp only [] at h ⊢
    cases hacc : SMap.get r tx.db.access with
    | none => simp [hacc] at h
    | some t =>
      simp only [hacc] at h ⊢
      cases hd : SMap.get r tx.db.data with
      | none => simp [hd] at h
      | some rd =>
        simp only [hd] at h ⊢
        cases hg : SMap.get (⟨t, rd.binID, r⟩ : GcKey) tx.db.gc with
        | none => rfl
        | some c =>
          simp only [hg] at h
          by_cases hc : c = 1 <;> simp [hc] at h

theorem setPinRoot_one (d0 : Db) (tx : Tx) (root : Option Addr) (hw : GcWF d0) (ha : Acc d0 tx) (hc : Clean tx)
    (h : rootOne tx.db root = true) :
    StepR tx (setPinRoot tx root) (fun t => Acc d0 t ∧ t.change ≤ tx.change + 1) := by
  have hwf := ha.gcWF hw
  have hs := ha.sum_db hc
  simp only [rootOne, rootCase] at h
  simp only [setPinRoot]
  cases root with
  | none => simp at h
  | some r =>
    simp only [] at h ⊢
    cases hacc : SMap.get r tx.db.access with
    | none => simp [hacc] at h
    | some t =>
      simp only [hacc] at h ⊢
      cases hd : SMap.get r tx.db.data with
      | none => simp [hd] at h
      | some rd =>
        simp only [hd] at h ⊢
        cases hg : SMap.get (⟨t, rd.binID, r⟩ : GcKey) tx.db.gc with
        | none => simp [hg] at h
        | some c =>
          simp only [hg] at h ⊢
          by_cases hc1 : c = 1
          · subst hc1
            simp only [if_true, StepR_ok, Tx.inBatch, Tx.addChange]
            refine ⟨⟨ha.db_eq, ha.dsize, ?_, ?_⟩, by simp⟩
            · simp only [Tx.final, applyBatch_append, applyBatch_cons, applyBatch_nil, applyW]
              exact ha.fsize
            · simp only [Tx.final, applyBatch_append, applyBatch_cons, applyBatch_nil, applyW, (hc tx.db).1]
              have := gcSum_erase ⟨t, rd.binID, r⟩ tx.db.gc hwf
              rw [hg] at this
              simp at this
              omega
          · simp only [hc1, if_false] at h ⊢
            have hc2 : c ≥ 2 := by simpa using h
            simp only [StepR_ok, Tx.direct, Tx.addChange]
            have hdec := dec64_of_pos c (by omega)
            refine ⟨⟨?_, ?_, ?_, ?_⟩, by simp⟩
            · simp only [applyLog_append, applyLog_cons, applyLog_nil, applyDW, ← ha.db_eq]
            · simp only [applyW]; exact ha.dsize
            · simp only [Tx.final]
              rw [(hc _).2]
              simp only [applyW]; exact ha.dsize
            · simp only [Tx.final]
              rw [(hc _).1]
              simp only [applyW, hdec]
              have := gcSum_put ⟨t, rd.binID, r⟩ (c - 1) tx.db.gc hwf
              rw [hg] at this
              simp at this
              omega

theorem Neutral.inBatch_pinPut (tx : Tx) (a c : Nat) : Neutral tx (tx.inBatch (.pinPut a c)) :=
  ⟨rfl, rfl, rfl, fun D => by simp [Tx.inBatch, applyBatch_append, applyW]⟩

/-- `setPin` under the exact shapes -/
theorem setPin_one (d0 : Db) (tx : Tx) (a : Addr) (root : Option Addr) (hw : GcWF d0) (ha : Acc d0 tx) (hc : Clean tx)
    (h : rootOne tx.db root = true) :
    StepR tx (setPin tx a root) (fun t => Acc d0 t ∧ t.change ≤ tx.change + 1) := by
  have h1 := setPinRoot_one d0 tx root hw ha hc h
  simp only [setPin]
  cases hr : setPinRoot tx root with
  | error e => obtain ⟨e1, t⟩ := e; rw [hr] at h1; exact h1
  | ok t =>
    rw [hr] at h1
    simp only [StepR_ok] at h1 ⊢
    exact ⟨(Neutral.inBatch_pinPut t a _).acc h1.1, h1.2⟩

/-- `setPin` under the quiet shapes: only the pin entry is written -/
theorem setPin_quiet (tx : Tx) (a : Addr) (root : Option Addr) (h : rootQuiet tx.db root = true) :
    StepR tx (setPin tx a root) (fun t => Neutral tx t) := by
  have h1 := setPinRoot_quiet tx root h
  simp only [setPin]
  cases hr : setPinRoot tx root with
  | error e => obtain ⟨e1, t⟩ := e; rw [hr] at h1; exact h1
  | ok t =>
    rw [hr] at h1
    simp only [StepR_ok] at h1 ⊢
    subst h1
    exact Neutral.inBatch_pinPut t a _

macro "neutral_tac" : tactic =>
  `(tactic| exact ⟨rfl, rfl, rfl, fun D => by simp [applyBatch_append, applyW]⟩)

/-- `setUnpin`: Σ and the pending change grow together (by one when the chunk's last pin goes under a root
context), provided the root's counter does not wrap (`NoWrap`) -/
theorem setUnpin_acc (d0 : Db) (tx : Tx) (a : Addr) (root : Option Addr) (hw : GcWF d0) (ha : Acc d0 tx) (hc : Clean tx)
    (hnw : NoWrap tx.db) :
    StepR tx (setUnpin tx a root) (fun t => Acc d0 t ∧ t.change ≤ tx.change + 1) := by
  have hwf := ha.gcWF hw
  have hs := ha.sum_db hc
  have hcl := hc tx.db
  simp only [setUnpin, Tx.now, Tx.inBatch, Tx.addChange]
  cases hp : SMap.get a tx.db.pin with
  | none => simp
  | some pc =>
    simp only []
    by_cases hpc : pc > 1
    · simp only [hpc, if_true, StepR_ok]
      refine ⟨Neutral.acc (tx := tx) ?_ ha, by omega⟩
      neutral_tac
    · simp only [hpc, if_false]
      cases root with
      | none =>
        simp only [StepR_ok]
        refine ⟨Neutral.acc (tx := tx) ?_ ha, by omega⟩
        neutral_tac
      | some r =>
        simp only []
        cases hacc : SMap.get r tx.db.access with
        | some t =>
          simp only []
          cases hd : SMap.get r tx.db.data with
          | none => simp
          | some rd =>
            simp only [StepR_ok]
            refine ⟨⟨ha.db_eq, ha.dsize, ?_, ?_⟩, by simp⟩
            · simp only [Tx.final, applyBatch_append, applyBatch_cons, applyBatch_nil, applyW]
              exact ha.fsize
            · simp only [Tx.final, applyBatch_append, applyBatch_cons, applyBatch_nil, applyW, hcl.1]
              have := gcSum_put ⟨t, rd.binID, r⟩
                (match SMap.get (⟨t, rd.binID, r⟩ : GcKey) tx.db.gc with | none => 1 | some c => (c + 1) % two64) tx.db.gc hwf
              cases hg : SMap.get (⟨t, rd.binID, r⟩ : GcKey) tx.db.gc with
              | none => simp only [hg] at this ⊢; simp at this; omega
              | some c =>
                have hm := Nat.mod_eq_of_lt (hnw _ _ hg)
                simp only [hg, hm] at this ⊢; simp at this; omega
        | none =>
          simp only []
          cases hd : SMap.get r tx.db.data with
          | none => simp
          | some rd =>
            simp only [StepR_ok]
            refine ⟨⟨ha.db_eq, ha.dsize, ?_, ?_⟩, by simp⟩
            · simp only [Tx.final, applyBatch_append, applyBatch_cons, applyBatch_nil, applyW]
              exact ha.fsize
            · simp only [Tx.final, applyBatch_append, applyBatch_cons, applyBatch_nil, applyW, hcl.1]
              have := gcSum_put ⟨tx.clock, rd.binID, r⟩
                (match SMap.get (⟨tx.clock, rd.binID, r⟩ : GcKey) tx.db.gc with | none => 1 | some c => (c + 1) % two64) tx.db.gc hwf
              cases hg : SMap.get (⟨tx.clock, rd.binID, r⟩ : GcKey) tx.db.gc with
              | none => simp only [hg] at this ⊢; simp at this; omega
              | some c =>
                have hm := Nat.mod_eq_of_lt (hnw _ _ hg)
                simp only [hg, hm] at this ⊢; simp at this; omega

/-- `setUnpin` without root context never touches the accounting -/
theorem setUnpin_quiet (tx : Tx) (a : Addr) : StepR tx (setUnpin tx a none) (fun t => Neutral tx t) := by
  simp only [setUnpin, Tx.now, Tx.inBatch, Tx.addChange]
  cases hp : SMap.get a tx.db.pin with
  | none => simp
  | some pc =>
    simp only []
    by_cases hpc : pc > 1
    · simp only [hpc, if_true, StepR_ok]; neutral_tac
    · simp only [hpc, if_false, StepR_ok]; neutral_tac

/-- the shapes under which the root part of `setRemove` neither writes gc bookkeeping nor changes the
pending change (or fails before any write) -/
def removeQuiet (db : Db) (root : Option Addr) : Bool :=
  match rootCase db root with
  | .idle => true
  | .err => true
  | .noEntry => true
  | _ => false

theorem setRemove_quiet (tx : Tx) (a : Addr) (root : Option Addr) (h : removeQuiet tx.db root = true) :
    StepR tx (setRemove tx a root) (fun t => Neutral tx t) := by
  simp only [removeQuiet, rootCase] at h
  simp only [setRemove, Tx.inBatch, Tx.addChange]
  cases hda : SMap.get a tx.db.data with
  | none => simp
  | some da =>
    simp only []
    cases hp : SMap.get a tx.db.pin with
    | some c =>
      simp only []
      by_cases hc : dec64 c > 0
      · simp only [hc, if_true, StepR_ok]; neutral_tac
      · simp only [hc, if_false, Bool.false_eq_true]
        cases root with
        | none => simp only [StepR_ok]; neutral_tac
        | some r =>
          simp only [] at h ⊢
          cases hacc : SMap.get r tx.db.access with
          | none => simp only [StepR_ok]; neutral_tac
          | some t =>
            simp only [hacc] at h ⊢
            cases hd : SMap.get r tx.db.data with
            | none => simp
            | some rd =>
              simp only [hd] at h ⊢
              cases hg : SMap.get (⟨t, rd.binID, r⟩ : GcKey) tx.db.gc with
              | none => simp only [StepR_ok]; neutral_tac
              | some c0 =>
                simp only [hg] at h
                by_cases hc1 : c0 = 1 <;> simp [hc1] at h
    | none =>
      simp only [Bool.false_eq_true, if_false]
      cases root with
      | none => simp only [StepR_ok]; neutral_tac
      | some r =>
        simp only [] at h ⊢
        cases hacc : SMap.get r tx.db.access with
        | none => simp only [StepR_ok]; neutral_tac
        | some t =>
          simp only [hacc] at h ⊢
          cases hd : SMap.get r tx.db.data with
          | none => simp
          | some rd =>
            simp only [hd] at h ⊢
            cases hg : SMap.get (⟨t, rd.binID, r⟩ : GcKey) tx.db.gc with
            | none => simp only [StepR_ok]; neutral_tac
            | some c0 =>
              simp only [hg] at h
              by_cases hc1 : c0 = 1 <;> simp [hc1] at h

/-- the root part of `setRemove` when the root's gc entry counts at least one chunk: Σ and the pending
change drop by one together -/
theorem setRemove_rootPart (d0 : Db) (tx tx1 : Tx) (r : Addr) (hw : GcWF d0) (ha : Acc d0 tx1) (hc : Clean tx1)
    (hdb : tx1.db = tx.db) (h : rootOne tx.db (some r) = true) :
    StepR tx1
      (match SMap.get r tx1.db.access with
        | none => Except.ok tx1
        | some t =>
          match SMap.get r tx1.db.data with
          | none => Except.error (Err.notFound, tx1)
          | some rd =>
            match SMap.get (⟨t, rd.binID, r⟩ : GcKey) tx1.db.gc with
            | none => Except.ok tx1
            | some c =>
              Except.ok
                (Tx.addChange
                  (if c > 1 then tx1.inBatch (.gcPut ⟨t, rd.binID, r⟩ (c - 1))
                   else (tx1.inBatch (.accDel r)).inBatch (.gcDel ⟨t, rd.binID, r⟩)) (-1)))
      (fun t => Acc d0 t ∧ t.change ≤ tx1.change + 1) := by
  have hwf := ha.gcWF hw
  have hs := ha.sum_db hc
  have hcl := hc tx1.db
  simp only [rootOne, rootCase] at h
  rw [hdb]
  rw [hdb] at hwf hs hcl
  cases hacc : SMap.get r tx.db.access with
  | none => simp [hacc] at h
  | some t =>
    simp only [hacc] at h ⊢
    cases hd : SMap.get r tx.db.data with
    | none => simp [hd] at h
    | some rd =>
      simp only [hd] at h ⊢
      cases hg : SMap.get (⟨t, rd.binID, r⟩ : GcKey) tx.db.gc with
      | none => simp [hg] at h
      | some c =>
        simp only [hg] at h ⊢
        simp only [StepR_ok]
        by_cases hc1 : c = 1
        · subst hc1
          simp only [Nat.lt_irrefl, gt_iff_lt, if_false, Tx.inBatch, Tx.addChange]
          refine ⟨⟨ha.db_eq, ha.dsize, ?_, ?_⟩, by simp⟩
          · simp only [Tx.final, applyBatch_append, applyBatch_cons, applyBatch_nil, applyW]
            exact ha.fsize
          · simp only [Tx.final, applyBatch_append, applyBatch_cons, applyBatch_nil, applyW, hdb, hcl.1]
            have := gcSum_erase ⟨t, rd.binID, r⟩ tx.db.gc hwf
            rw [hg] at this
            simp at this
            omega
        · simp only [hc1, if_false] at h
          have hc2 : c ≥ 2 := by simpa using h
          have hc3 : c > 1 := by omega
          simp only [hc3, if_true, Tx.inBatch, Tx.addChange]
          refine ⟨⟨ha.db_eq, ha.dsize, ?_, ?_⟩, by simp⟩
          · simp only [Tx.final, applyBatch_append, applyBatch_cons, applyBatch_nil, applyW]
            exact ha.fsize
          · simp only [Tx.final, applyBatch_append, applyBatch_cons, applyBatch_nil, applyW, hdb, hcl.1]
            have := gcSum_put ⟨t, rd.binID, r⟩ (c - 1) tx.db.gc hwf
            rw [hg] at this
            simp at this
            omega

theorem StepR.rebase {tx tx1 : Tx} {r : Except (Err × Tx) Tx} {P Q : Tx → Prop} (h : StepR tx1 r P)
    (hl : tx1.log = tx.log) (hpq : ∀ t, P t → Q t) : StepR tx r Q := by
  cases r with
  | ok t => exact hpq t h
  | error e => obtain ⟨e1, t⟩ := e; exact (show t.log = tx1.log from h).trans hl

theorem setRemove_one (d0 : Db) (tx : Tx) (a r : Addr) (hw : GcWF d0) (ha : Acc d0 tx) (hc : Clean tx)
    (h : rootOne tx.db (some r) = true) :
    StepR tx (setRemove tx a (some r)) (fun t => Acc d0 t ∧ t.change ≤ tx.change + 1) := by
  simp only [setRemove]
  cases hda : SMap.get a tx.db.data with
  | none => simp
  | some da =>
    simp only []
    cases hp : SMap.get a tx.db.pin with
    | some c =>
      simp only []
      by_cases hcc : dec64 c > 0
      · simp only [hcc, if_true, StepR_ok]
        refine ⟨Neutral.acc (tx := tx) ?_ ha, by simp only [Tx.inBatch]; omega⟩
        exact ⟨rfl, rfl, rfl, fun D => by simp [Tx.inBatch, applyBatch_append, applyW]⟩
      · simp only [hcc, if_false, Bool.false_eq_true]
        have hn : Neutral tx (((tx.inBatch (.pinDel a)).inBatch (.dataDel a)).inBatch (.accDel a)) :=
          ⟨rfl, rfl, rfl, fun D => by simp [Tx.inBatch, applyBatch_append, applyW]⟩
        exact (setRemove_rootPart d0 tx _ r hw (hn.acc ha) (hn.clean hc) rfl h).rebase rfl (fun t ht => ht)
    | none =>
      simp only [Bool.false_eq_true, if_false]
      have hn : Neutral tx ((tx.inBatch (.dataDel a)).inBatch (.accDel a)) :=
        ⟨rfl, rfl, rfl, fun D => by simp [Tx.inBatch, applyBatch_append, applyW]⟩
      exact (setRemove_rootPart d0 tx _ r hw (hn.acc ha) (hn.clean hc) rfl h).rebase rfl (fun t ht => ht)

/-- `setSync` on an address that is not stored does nothing -/
theorem setSync_absent (tx : Tx) (a : Addr) (h : SMap.has a tx.db.data = false) : setSync tx a = .ok tx := by
  have : SMap.get a tx.db.data = none := by
    simpa [SMap.has] using h
  simp [setSync, this]

/-! ## chunk steps of `put` -/

theorem storeNew_neutral (po : Addr → Nat) (tx : Tx) (a : Addr) (d : Bytes) : Neutral tx (storeNew po tx a d).2 :=
  ⟨rfl, rfl, rfl, fun D => by simp [storeNew, incBinID, Tx.now, Tx.inBatch, applyBatch_append, applyW]⟩

theorem putUpload_neutral (po : Addr → Nat) (tx : Tx) (a : Addr) (d : Bytes) : Neutral tx (putUpload po tx a d).2 := by
  simp only [putUpload]
  split
  · exact Neutral.refl tx
  · exact storeNew_neutral po tx a d

/-- result of a chunk step of `put` -/
def StepR2 (tx : Tx) (r : Except (Err × Tx) (Bool × Tx)) (P : Tx → Prop) : Prop :=
  match r with
  | .ok (_, t) => P t
  | .error (_, t) => t.log = tx.log

@[simp] theorem StepR2_ok (tx t : Tx) (b : Bool) (P : Tx → Prop) : StepR2 tx (.ok (b, t)) P = P t := rfl
@[simp] theorem StepR2_error (tx t : Tx) (e : Err) (P : Tx → Prop) :
    StepR2 tx (.error (e, t)) P = (t.log = tx.log) := rfl

/-! ## commit and abort -/

/-- the accounting invariant on a database -/
def InvDb (db : Db) : Prop := db.gcSize = gcSum db.gc

theorem addBins_neutral (tx : Tx) : Neutral tx (addBins tx) := by
  unfold addBins
  generalize tx.bins = bins
  induction bins generalizing tx with
  | nil => exact Neutral.refl tx
  | cons b bs ih =>
    simp only [List.foldl_cons]
    have h1 : Neutral tx (tx.inBatch (.binPut b.1 b.2)) :=
      ⟨rfl, rfl, rfl, fun D => by simp [Tx.inBatch, applyBatch_append, applyW]⟩
    exact h1.trans (ih _)

theorem commit_inv (cap : Nat) (d0 : Db) (tx : Tx) (ha : Acc d0 tx) (hinv : InvDb d0)
    (hfit : tx.change > 0 → d0.gcSize + tx.change.toNat < two64) :
    InvDb (applyLog d0 (commit cap tx).writes) := by
  have hfin : ∀ X, applyLog d0 (tx.log ++ [DW.batch (tx.batch ++ X)]) = applyBatch tx.final X := by
    intro X
    rw [applyLog_append]
    simp only [applyLog_cons, applyLog_nil, applyDW, applyBatch_append, Tx.final, ha.db_eq]
  have hsum := ha.sum
  have hsz := ha.fsize
  unfold InvDb at hinv ⊢
  simp only [commit]
  by_cases h0 : tx.change = 0
  · simp only [h0, if_true]
    have := hfin []
    simp only [List.append_nil, applyBatch_nil] at this
    rw [this, hsz]
    rw [h0] at hsum
    omega
  · by_cases h1 : tx.change > 0
    · simp only [h0, h1, if_false, if_true]
      rw [hfin]
      simp only [applyBatch_cons, applyBatch_nil, applyW, ha.dsize]
      have := hfit h1
      rw [Nat.mod_eq_of_lt this]
      omega
    · simp only [h0, h1, if_false]
      have hle : (-tx.change).toNat ≤ d0.gcSize := by omega
      have hnot : ¬ (-tx.change).toNat > tx.db.gcSize := by rw [ha.dsize]; omega
      simp only [hnot, if_false]
      rw [hfin]
      simp only [applyBatch_cons, applyBatch_nil, applyW, ha.dsize]
      omega

theorem abort_inv (d0 : Db) (tx : Tx) (hl : tx.log = []) (hinv : InvDb d0) :
    InvDb (applyLog d0 (abort tx).writes) := by
  simp only [abort, hl, applyLog_nil]; exact hinv

/-! ## loops -/

/-- a `put` loop all of whose chunk steps are neutral (or fail before writing directly) -/
theorem putLoop_neutral (po : Addr → Nat) (mode : PutMode) (root : Option Addr) (db0 : Db)
    (hstep : ∀ (tx : Tx) (a : Addr) (d : Bytes), tx.db = db0 →
      StepR2 tx (putStep po mode root tx a d) (fun t => Neutral tx t))
    (chs : List (Addr × Bytes)) : ∀ (tx : Tx) (seen : List Addr) (acc : List Bool), tx.db = db0 →
      match putLoop po mode root tx seen chs acc with
      | .ok (t, _) => Neutral tx t
      | .error (_, t) => t.log = tx.log := by
  induction chs with
  | nil => intro tx seen acc _; simp only [putLoop]; exact Neutral.refl tx
  | cons c rest ih =>
    intro tx seen acc hdb
    obtain ⟨a, d⟩ := c
    by_cases hs : seen.contains a = true
    · rw [putLoop_cons_seen _ _ _ _ _ _ _ _ _ hs]
      exact ih tx _ _ hdb
    · have hs' : seen.contains a = false := by simpa using hs
      rw [putLoop_cons_new _ _ _ _ _ _ _ _ _ hs']
      have h1 := hstep tx a d hdb
      cases hr : putStep po mode root tx a d with
      | error e => obtain ⟨e1, t⟩ := e; rw [hr] at h1; exact h1
      | ok r =>
        obtain ⟨ex, t⟩ := r
        rw [hr] at h1
        simp only [StepR2_ok] at h1 ⊢
        have h2 := ih t (seen ++ [a]) (ex :: acc) (h1.1.trans hdb)
        cases hl : putLoop po mode root t (seen ++ [a]) rest (ex :: acc) with
        | error e => obtain ⟨e1, t2⟩ := e; rw [hl] at h2; exact h2.trans h1.2.1
        | ok r2 => obtain ⟨t2, fl⟩ := r2; rw [hl] at h2; exact h1.trans h2

/-- a `set` loop all of whose steps are neutral (or fail before writing directly) -/
theorem setLoop_neutral (mode : SetMode) (root : Option Addr) (db0 : Db)
    (hstep : ∀ (tx : Tx) (a : Addr), tx.db = db0 → StepR tx (setStep mode root tx a) (fun t => Neutral tx t))
    (addrs : List Addr) : ∀ (tx : Tx), tx.db = db0 →
      StepR tx (setLoop mode root tx addrs) (fun t => Neutral tx t) := by
  induction addrs with
  | nil => intro tx _; simp only [setLoop, StepR_ok]; exact Neutral.refl tx
  | cons a rest ih =>
    intro tx hdb
    rw [setLoop_cons]
    have h1 := hstep tx a hdb
    cases hr : setStep mode root tx a with
    | error e => obtain ⟨e1, t⟩ := e; rw [hr] at h1; exact h1
    | ok t =>
      rw [hr] at h1
      simp only [StepR_ok] at h1 ⊢
      have h2 := ih t (h1.1.trans hdb)
      cases hl : setLoop mode root t rest with
      | error e => obtain ⟨e1, t2⟩ := e; rw [hl] at h2; exact (show t2.log = t.log from h2).trans h1.2.1
      | ok t2 => rw [hl] at h2; exact h1.trans h2

/-! ## completed `set` -/

/-- `Set` keeps the invariant whenever its loop keeps the accounting relation -/
theorem set_inv_of_loop (s : State) (mode : SetMode) (root : Option Addr) (addrs : List Addr) (hinv : InvDb s.db)
    (hloop : StepR (Tx.start s) (setLoop mode root (Tx.start s) addrs)
      (fun t => Acc s.db t ∧ (t.change > 0 → s.db.gcSize + t.change.toNat < two64))) :
    InvDb (set s mode root addrs).st.db := by
  simp only [set, finish, setBody]
  split
  · exact abort_inv s.db _ rfl hinv
  · cases hl : setLoop mode root (Tx.start s) addrs with
    | error e =>
      obtain ⟨e1, t⟩ := e
      rw [hl] at hloop
      exact abort_inv s.db t hloop hinv
    | ok t =>
      rw [hl] at hloop
      exact commit_inv s.capacity s.db t hloop.1 hinv hloop.2

/-- `Put` keeps the invariant whenever its loop keeps the accounting relation -/
theorem put_inv_of_loop (po : Addr → Nat) (s : State) (mode : PutMode) (root : Option Addr)
    (chs : List (Addr × Bytes)) (hinv : InvDb s.db)
    (hloop : match putLoop po mode root (Tx.start s) [] chs [] with
      | .ok (t, _) => Acc s.db t ∧ (t.change > 0 → s.db.gcSize + t.change.toNat < two64)
      | .error (_, t) => t.log = []) :
    InvDb (put po s mode root chs).st.db := by
  unfold put
  split
  · exact hinv
  · simp only [finish, putBody]
    split
    · exact abort_inv s.db _ rfl hinv
    · cases hl : putLoop po mode root (Tx.start s) [] chs [] with
      | error e =>
        obtain ⟨e1, t⟩ := e
        rw [hl] at hloop
        exact abort_inv s.db t hloop hinv
      | ok r =>
        obtain ⟨t, fl⟩ := r
        rw [hl] at hloop
        have hn := addBins_neutral t
        refine commit_inv s.capacity s.db (addBins t) (hn.acc hloop.1) hinv ?_
        rw [hn.2.2.1]; exact hloop.2

/-! ## guards and the guarded calls -/

/-- every chunk step of the call is invisible to the accounting (or the call fails before any direct write) -/
def putQuiet (db : Db) (mode : PutMode) (root : Option Addr) : Bool :=
  match mode with
  | .upload => true
  | .invalid => true
  | .request => root.isNone
  | .requestPin => rootQuiet db root
  | .uploadPin => rootQuiet db root || decide (rootCase db root = .noEntry)

/-- one chunk step of the call keeps the accounting exact -/
def putOne (db : Db) (mode : PutMode) (root : Option Addr) : Bool :=
  match mode with
  | .request => true
  | .requestPin => rootOne db root
  | _ => false

theorem putStep_quiet (po : Addr → Nat) (mode : PutMode) (root : Option Addr) (tx : Tx) (a : Addr) (d : Bytes)
    (h : putQuiet tx.db mode root = true) :
    StepR2 tx (putStep po mode root tx a d) (fun t => Neutral tx t) := by
  cases mode
  · -- request, no root context
    have hr : root = none := by simpa [putQuiet] using h
    subst hr
    simp only [putStep, putRequest]
    split
    · simp only [StepR2_ok]; exact Neutral.refl tx
    · have : setGC (storeNew po tx a d).2 none (if none = some a then (storeNew po tx a d).1 else 0)
          = .ok (storeNew po tx a d).2 := rfl
      have hm : (PutMode.request == PutMode.requestPin) = false := by decide
      simp only [hm, Bool.false_eq_true, if_false]
      rw [this]
      exact storeNew_neutral po tx a d
  · simp only [putStep, StepR2]
    exact putUpload_neutral po tx a d
  · -- uploadPin
    simp only [putStep]
    have hn := putUpload_neutral po tx a d
    have hq : rootQuiet tx.db root = true ∨ rootCase tx.db root = .noEntry := by
      simpa [putQuiet] using h
    rcases hq with hq | hq
    · have h1 := setPin_quiet (putUpload po tx a d).2 a root (by rw [hn.1]; exact hq)
      cases hr : setPin (putUpload po tx a d).2 a root with
      | error e =>
        obtain ⟨e1, t⟩ := e
        rw [hr] at h1
        exact (show t.log = _ from h1).trans hn.2.1
      | ok t =>
        rw [hr] at h1
        simp only [StepR_ok] at h1
        simp only [StepR2_ok]
        have h2 : Neutral t { t with change := (putUpload po tx a d).2.change } :=
          ⟨rfl, rfl, h1.2.2.1.symm, fun _ => ⟨rfl, rfl⟩⟩
        exact hn.trans (h1.trans h2)
    · have h1 := setPinRoot_noEntry (putUpload po tx a d).2 root (by rw [hn.1]; exact hq)
      simp only [setPin, h1, StepR2_ok]
      refine hn.trans ?_
      exact ⟨rfl, rfl, rfl, fun D => by simp [Tx.inBatch, Tx.addChange, applyBatch_append, applyW]⟩
  · -- requestPin
    have hq : rootQuiet tx.db root = true := by simpa [putQuiet] using h
    simp only [putStep, putRequest]
    split
    · simp only [StepR2_ok]; exact Neutral.refl tx
    · have hn := storeNew_neutral po tx a d
      have h1 := setPin_quiet (storeNew po tx a d).2 a root hq
      have : (PutMode.requestPin == PutMode.requestPin) = true := by decide
      simp only [this, if_true]
      cases hr : setPin (storeNew po tx a d).2 a root with
      | error e => obtain ⟨e1, t⟩ := e; rw [hr] at h1; exact h1
      | ok t =>
        rw [hr] at h1
        simp only [StepR_ok] at h1
        simp only [StepR2_ok]
        exact hn.trans h1
  · simp only [putStep, StepR2]

theorem putStep_one (po : Addr → Nat) (mode : PutMode) (root : Option Addr) (d0 : Db) (tx : Tx) (a : Addr) (d : Bytes)
    (hw : GcWF d0) (ha : Acc d0 tx) (hc : Clean tx) (hnw : NoWrap tx.db) (h : putOne tx.db mode root = true) :
    StepR2 tx (putStep po mode root tx a d) (fun t => Acc d0 t ∧ t.change ≤ tx.change + 1) := by
  cases mode
  · -- request
    simp only [putStep, putRequest]
    split
    · simp only [StepR2_ok]; exact ⟨ha, by omega⟩
    · have hn := storeNew_neutral po tx a d
      have h1 := setGC_acc d0 (storeNew po tx a d).2 root (if root = some a then (storeNew po tx a d).1 else 0)
        hw (hn.acc ha) (hn.clean hc) (by rw [hn.1]; exact hnw)
      have : (PutMode.request == PutMode.requestPin) = false := by decide
      simp only [this, Bool.false_eq_true, if_false]
      cases hr : setGC (storeNew po tx a d).2 root (if root = some a then (storeNew po tx a d).1 else 0) with
      | error e => obtain ⟨e1, t⟩ := e; rw [hr] at h1; exact h1
      | ok t =>
        rw [hr] at h1
        simp only [StepR_ok] at h1
        simp only [StepR2_ok]
        exact ⟨h1.1, by have := hn.2.2.1; omega⟩
  · simp [putOne] at h
  · simp [putOne] at h
  · -- requestPin
    have hq : rootOne tx.db root = true := by simpa [putOne] using h
    simp only [putStep, putRequest]
    split
    · simp only [StepR2_ok]; exact ⟨ha, by omega⟩
    · have hn := storeNew_neutral po tx a d
      have h1 := setPin_one d0 (storeNew po tx a d).2 a root hw (hn.acc ha) (hn.clean hc) hq
      have : (PutMode.requestPin == PutMode.requestPin) = true := by decide
      simp only [this, if_true]
      cases hr : setPin (storeNew po tx a d).2 a root with
      | error e => obtain ⟨e1, t⟩ := e; rw [hr] at h1; exact h1
      | ok t =>
        rw [hr] at h1
        simp only [StepR_ok] at h1
        simp only [StepR2_ok]
        exact ⟨h1.1, by have := hn.2.2.1; omega⟩
  · simp [putOne] at h

/-- the guard of `Put` -/
def guardPut (s : State) (mode : PutMode) (root : Option Addr) (chs : List (Addr × Bytes)) : Bool :=
  putQuiet s.db mode root || (decide (chs.length ≤ 1) && putOne s.db mode root && decide (s.db.gcSize + 1 < two64))

theorem put_inv (po : Addr → Nat) (s : State) (mode : PutMode) (root : Option Addr) (chs : List (Addr × Bytes))
    (hw : GcWF s.db) (hinv : InvDb s.db) (hg : guardPut s mode root chs = true) :
    InvDb (put po s mode root chs).st.db := by
  apply put_inv_of_loop po s mode root chs hinv
  simp only [guardPut, Bool.or_eq_true, Bool.and_eq_true, decide_eq_true_eq] at hg
  rcases hg with hq | ⟨⟨hlen, hone⟩, hfit⟩
  · have := putLoop_neutral po mode root s.db
      (fun tx a d hdb => putStep_quiet po mode root tx a d (by rw [hdb]; exact hq)) chs (Tx.start s) [] [] rfl
    cases hl : putLoop po mode root (Tx.start s) [] chs [] with
    | error e => obtain ⟨e1, t⟩ := e; rw [hl] at this; exact this
    | ok r =>
      obtain ⟨t, fl⟩ := r
      rw [hl] at this
      simp only []
      refine ⟨this.acc (Acc.start s), ?_⟩
      rw [this.2.2.1]; intro h; simp [Tx.start] at h
  · match chs, hlen with
    | [], _ =>
      simp only [putLoop]
      exact ⟨Acc.start s, by intro h; simp [Tx.start] at h⟩
    | [(a, d)], _ =>
      rw [putLoop_cons_new _ _ _ _ _ _ _ _ _ (by simp)]
      have h1 := putStep_one po mode root s.db (Tx.start s) a d hw (Acc.start s) (Clean.start s)
        (noWrap_of_inv s.db hw hinv hfit) hone
      cases hr : putStep po mode root (Tx.start s) a d with
      | error e => obtain ⟨e1, t⟩ := e; rw [hr] at h1; exact h1
      | ok r =>
        obtain ⟨ex, t⟩ := r
        rw [hr] at h1
        simp only [StepR2_ok] at h1
        simp only [putLoop]
        refine ⟨h1.1, fun hpos => ?_⟩
        have : t.change ≤ 1 := by have := h1.2; simp [Tx.start] at this; omega
        have : t.change.toNat ≤ 1 := by omega
        omega

/-- every step of the call is invisible to the accounting (or the call fails before any direct write) -/
def setQuiet (db : Db) (mode : SetMode) (root : Option Addr) (addrs : List Addr) : Bool :=
  match mode with
  | .invalid => true
  | .sync => addrs.all (fun a => !SMap.has a db.data)
  | .remove => removeQuiet db root
  | .pin => rootQuiet db root
  | .unpin => root.isNone

/-- one step of the call keeps the accounting exact -/
def setOne (db : Db) (mode : SetMode) (root : Option Addr) : Bool :=
  match mode with
  | .remove => rootOne db root
  | .pin => rootOne db root
  | .unpin => true
  | _ => false

theorem setLoop_sync_absent (root : Option Addr) (addrs : List Addr) : ∀ (tx : Tx),
    (addrs.all (fun a => !SMap.has a tx.db.data)) = true → setLoop .sync root tx addrs = .ok tx := by
  induction addrs with
  | nil => intro tx _; rfl
  | cons a rest ih =>
    intro tx h
    simp only [List.all_cons, Bool.and_eq_true, Bool.not_eq_true'] at h
    rw [setLoop_cons]
    simp only [setStep, setSync_absent tx a h.1]
    exact ih tx h.2

theorem setStep_quiet (mode : SetMode) (root : Option Addr) (tx : Tx) (a : Addr) (hm : mode ≠ .sync)
    (h : setQuiet tx.db mode root [] = true) :
    StepR tx (setStep mode root tx a) (fun t => Neutral tx t) := by
  cases mode
  · exact absurd rfl hm
  · exact setRemove_quiet tx a root (by simpa [setQuiet] using h)
  · simp only [setStep]
    split
    · exact setPin_quiet tx a root (by simpa [setQuiet] using h)
    · simp
  · have hr : root = none := by simpa [setQuiet] using h
    subst hr
    exact setUnpin_quiet tx a
  · simp [setStep]

theorem setStep_one (mode : SetMode) (root : Option Addr) (d0 : Db) (tx : Tx) (a : Addr)
    (hw : GcWF d0) (ha : Acc d0 tx) (hc : Clean tx) (hnw : NoWrap tx.db) (h : setOne tx.db mode root = true) :
    StepR tx (setStep mode root tx a) (fun t => Acc d0 t ∧ t.change ≤ tx.change + 1) := by
  cases mode
  · simp [setOne] at h
  · have hq : rootOne tx.db root = true := by simpa [setOne] using h
    cases root with
    | none => simp [rootOne, rootCase] at hq
    | some r => exact setRemove_one d0 tx a r hw ha hc hq
  · simp only [setStep]
    split
    · exact setPin_one d0 tx a root hw ha hc (by simpa [setOne] using h)
    · simp
  · exact setUnpin_acc d0 tx a root hw ha hc hnw
  · simp [setOne] at h

/-- the guard of `Set` -/
def guardSet (s : State) (mode : SetMode) (root : Option Addr) (addrs : List Addr) : Bool :=
  setQuiet s.db mode root addrs ||
    (decide (addrs.length ≤ 1) && setOne s.db mode root && decide (s.db.gcSize + 1 < two64))

theorem setQuiet_nil (db : Db) (mode : SetMode) (root : Option Addr) (addrs : List Addr) (hm : mode ≠ .sync) :
    setQuiet db mode root addrs = setQuiet db mode root [] := by
  cases mode <;> first | rfl | exact absurd rfl hm

theorem set_inv (s : State) (mode : SetMode) (root : Option Addr) (addrs : List Addr)
    (hw : GcWF s.db) (hinv : InvDb s.db) (hg : guardSet s mode root addrs = true) :
    InvDb (set s mode root addrs).st.db := by
  apply set_inv_of_loop s mode root addrs hinv
  simp only [guardSet, Bool.or_eq_true, Bool.and_eq_true, decide_eq_true_eq] at hg
  rcases hg with hq | ⟨⟨hlen, hone⟩, hfit⟩
  · by_cases hm : mode = .sync
    · subst hm
      rw [setLoop_sync_absent root addrs (Tx.start s) (by simpa [setQuiet, Tx.start] using hq)]
      simp only [StepR_ok]
      exact ⟨Acc.start s, by intro h; simp [Tx.start] at h⟩
    · rw [setQuiet_nil _ _ _ _ hm] at hq
      have := setLoop_neutral mode root s.db
        (fun tx a hdb => setStep_quiet mode root tx a hm (by rw [hdb]; exact hq)) addrs (Tx.start s) rfl
      refine this.mono (fun t ht => ⟨ht.acc (Acc.start s), ?_⟩)
      rw [ht.2.2.1]; intro h; simp [Tx.start] at h
  · match addrs, hlen with
    | [], _ =>
      simp only [setLoop, StepR_ok]
      exact ⟨Acc.start s, by intro h; simp [Tx.start] at h⟩
    | [a], _ =>
      rw [setLoop_cons]
      have h1 := setStep_one mode root s.db (Tx.start s) a hw (Acc.start s) (Clean.start s)
        (noWrap_of_inv s.db hw hinv hfit) hone
      cases hr : setStep mode root (Tx.start s) a with
      | error e => obtain ⟨e1, t⟩ := e; rw [hr] at h1; exact h1
      | ok t =>
        rw [hr] at h1
        simp only [StepR_ok] at h1
        simp only [setLoop, StepR_ok]
        refine ⟨h1.1, fun hpos => ?_⟩
        have hle : t.change ≤ 1 := by have := h1.2; simp [Tx.start] at this; omega
        have h2 : t.change.toNat ≤ 1 := by omega
        omega

/-! ## `updateGC` (Get / GetMulti in request mode) -/

/-- re-keying the entry to `(now, bin, addr)` does not land on another existing entry -/
def rekeyOk (s : State) (a : Addr) (bin : Nat) : Bool :=
  if (SMap.get a s.db.access).getD 0 = 0 then true
  else
    match (if bin = 0 then (SMap.get a s.db.data).map (·.binID) else some bin) with
    | none => true
    | some b =>
      match SMap.get (⟨(SMap.get a s.db.access).getD 0, b, a⟩ : GcKey) s.db.gc with
      | none => true
      | some _ =>
        decide (s.clock = (SMap.get a s.db.access).getD 0) || (SMap.get (⟨s.clock, b, a⟩ : GcKey) s.db.gc).isNone

theorem updateGC_gcWF (s : State) (a : Addr) (bin : Nat) (hw : GcWF s.db) : GcWF (updateGC s a bin).1.db := by
  simp only [updateGC]
  repeat' split
  all_goals first
    | exact hw
    | exact gcWF_applyLog _ _ hw

theorem updateGC_inv (s : State) (a : Addr) (bin : Nat) (hw : GcWF s.db) (hinv : InvDb s.db)
    (hg : rekeyOk s a bin = true) : InvDb (updateGC s a bin).1.db := by
  unfold InvDb at hinv ⊢
  unfold GcWF at hw
  simp only [rekeyOk] at hg
  simp only [updateGC]
  have hd : ∀ (s' : State), s'.db = s.db → s'.db.gcSize = gcSum s'.db.gc := fun s' h => by rw [h]; exact hinv
  by_cases hts : (SMap.get a s.db.access).getD 0 = 0
  · split <;> simp only [hts, if_true] <;> exact hinv
  · simp only [hts, if_false] at hg
    cases hb : (if bin = 0 then Option.map (fun x => x.binID) (SMap.get a s.db.data) else some bin) with
    | none => split <;> simp only [hts, if_false, hb] <;> exact hinv
    | some b =>
      simp only [hb] at hg
      cases hgc : SMap.get (⟨(SMap.get a s.db.access).getD 0, b, a⟩ : GcKey) s.db.gc with
      | none => split <;> simp only [hts, if_false, hb, hgc] <;> exact hinv
      | some c =>
        simp only [hgc, Bool.or_eq_true, decide_eq_true_eq, Option.isNone_iff_eq_none] at hg
        have key : gcSum (SMap.put GcKey.lt ⟨s.clock, b, a⟩ c
            (SMap.erase ⟨(SMap.get a s.db.access).getD 0, b, a⟩ s.db.gc)) = gcSum s.db.gc := by
          have h1 := gcSum_erase ⟨(SMap.get a s.db.access).getD 0, b, a⟩ s.db.gc hw
          have h2 := gcSum_put ⟨s.clock, b, a⟩ c _ (SMap.nodup_keys_erase ⟨(SMap.get a s.db.access).getD 0, b, a⟩ _ hw)
          rw [hgc] at h1
          have h3 : SMap.get (⟨s.clock, b, a⟩ : GcKey)
              (SMap.erase ⟨(SMap.get a s.db.access).getD 0, b, a⟩ s.db.gc) = none := by
            rw [SMap.get_erase]
            rcases hg with hg | hg
            · simp [hg]
            · simp [hg]
          rw [h3] at h2
          simp at h1 h2
          omega
        split <;> simp only [hts, if_false, hb, hgc, applyLog, List.foldl, applyDW, applyBatch, applyW] <;>
          rw [key] <;> exact hinv

/-- the guard of a `GetMulti(request)`: every re-keying in turn -/
def rekeyOkList : State → List (Addr × Nat) → Bool
  | _, [] => true
  | s, (a, b) :: rest => rekeyOk s a b && rekeyOkList (updateGC s a b).1 rest

theorem getMulti_fold_inv (items : List (Addr × DataVal)) : ∀ (acc : State × List DW),
    GcWF acc.1.db → InvDb acc.1.db → rekeyOkList acc.1 (items.map (fun it => (it.1, it.2.binID))) = true →
    InvDb (items.foldl (fun (acc : State × List DW) it =>
        ((updateGC acc.1 it.1 it.2.binID).1, acc.2 ++ (updateGC acc.1 it.1 it.2.binID).2)) acc).1.db := by
  induction items with
  | nil => intro acc _ hi _; exact hi
  | cons it rest ih =>
    intro acc hw hi hg
    simp only [List.map_cons, rekeyOkList, Bool.and_eq_true] at hg
    simp only [List.foldl_cons]
    exact ih _ (updateGC_gcWF acc.1 it.1 it.2.binID hw) (updateGC_inv acc.1 it.1 it.2.binID hw hi hg.1) hg.2

/-! ## the collection run -/

/-- Σ GCounter of the entries removed when the keys are erased one after the other -/
def erasedSum : List (GcKey × Nat) → List GcKey → Nat
  | _, [] => 0
  | gc, k :: ks => (SMap.get k gc).getD 0 + erasedSum (SMap.erase k gc) ks

def eraseKeys : List (GcKey × Nat) → List GcKey → List (GcKey × Nat)
  | gc, [] => gc
  | gc, k :: ks => eraseKeys (SMap.erase k gc) ks

theorem eraseKeys_sum (ks : List GcKey) : ∀ (gc : List (GcKey × Nat)), (SMap.keys gc).Nodup →
    gcSum (eraseKeys gc ks) + erasedSum gc ks = gcSum gc := by
  induction ks with
  | nil => intro gc _; simp [eraseKeys, erasedSum]
  | cons k ks ih =>
    intro gc hn
    simp only [eraseKeys, erasedSum]
    have h1 := ih (SMap.erase k gc) (SMap.nodup_keys_erase k gc hn)
    have h2 := gcSum_erase k gc hn
    omega

theorem recycleWrites_gc (recycled : List (GcKey × Nat)) : ∀ (D : Db),
    (applyBatch D (recycleWrites recycled)).gc = eraseKeys D.gc (recycled.map (·.1)) ∧
    (applyBatch D (recycleWrites recycled)).gcSize = D.gcSize := by
  induction recycled with
  | nil => intro D; simp [recycleWrites, eraseKeys]
  | cons e rest ih =>
    intro D
    have : recycleWrites (e :: rest) = [Write.dataDel e.1.addr, .accDel e.1.addr, .gcDel e.1] ++ recycleWrites rest := by
      simp [recycleWrites]
    rw [this, applyBatch_append]
    obtain ⟨h1, h2⟩ := ih (applyBatch D [Write.dataDel e.1.addr, .accDel e.1.addr, .gcDel e.1])
    rw [h1, h2]
    simp [applyBatch, applyW, eraseKeys]

theorem evictBatch_gcFree (B : List Write) (cids : List Addr)
    (h : ∀ w ∈ B, (∃ x, x ∈ cids ∧ w = .pinDel x) ∨ (∃ x, w = .dataDel x)) : ∀ (D : Db),
    (applyBatch D B).gc = D.gc ∧ (applyBatch D B).gcSize = D.gcSize := by
  induction B with
  | nil => intro D; simp
  | cons w B ih =>
    intro D
    obtain ⟨h1, h2⟩ := ih (fun x hx => h x (by simp [hx])) (applyW D w)
    rw [applyBatch_cons, h1, h2]
    rcases h w (by simp) with ⟨x, _, e⟩ | ⟨x, e⟩ <;> subst e <;> simp [applyW]

/-- the run's recount matches the bookkeeping: something was recycled and the number of chunks the run
deleted (pyramid chunks + one per recycled root) equals Σ GCounter of the recycled gc entries — or the
store is not inside a run.  (Nothing recycled forces `gcSize := 0`, which is exact only on an empty count.) -/
def evictFaithful (s : State) (pyr : Addr → Option (List (Addr × Nat))) : Bool :=
  !s.gcRunning ||
    (if (evictRun s pyr).2.2.1.isEmpty then decide (s.db.gcSize = 0)
     else decide ((evictRun s pyr).2.1 + (evictRun s pyr).2.2.1.length =
            erasedSum s.db.gc ((evictRun s pyr).2.2.1.map (·.1))))

theorem gcEvict_inv (s : State) (pyr : Addr → Option (List (Addr × Nat))) (hw : GcWF s.db) (hinv : InvDb s.db)
    (hg : evictFaithful s pyr = true) : InvDb (gcEvict s pyr).st.db := by
  cases hr : s.gcRunning with
  | false => rw [(gcEvict_idle s pyr hr).2]; exact hinv
  | true =>
    unfold InvDb at hinv ⊢
    unfold GcWF at hw
    rw [gcEvict_db, gcEvict_writes s pyr hr]
    obtain ⟨P, B, hl, hb, hdb, _, hwB, _⟩ := evictLoop_rel pyr s.dirty s.cands (Tx.start s) 0 [] []
    have hlog : (evictRun s pyr).1.log = P.map mkPin := by simpa [evictRun, Tx.start] using hl
    have hbat : (evictRun s pyr).1.batch = B := by simpa [evictRun, Tx.start] using hb
    have hdb' : (evictRun s pyr).1.db = applyLog s.db (P.map mkPin) := by simpa [evictRun, Tx.start] using hdb
    obtain ⟨_, _, fgc, _, fsz, _⟩ := applyLog_mkPin_fields P s.db
    have hsz : (evictRun s pyr).1.db.gcSize = s.db.gcSize := by rw [hdb', fsz]
    rw [hlog, applyLog_append]
    simp only [applyLog_cons, applyLog_nil, applyDW, evictBatch, hbat, applyBatch_append, applyBatch_cons,
      applyBatch_nil, applyW]
    obtain ⟨r1, r2⟩ := recycleWrites_gc (evictRun s pyr).2.2.1 (applyBatch (applyLog s.db (P.map mkPin)) B)
    obtain ⟨b1, b2⟩ := evictBatch_gcFree B _ hwB (applyLog s.db (P.map mkPin))
    rw [r1, b1, fgc]
    have hes := eraseKeys_sum ((evictRun s pyr).2.2.1.map (·.1)) s.db.gc hw
    simp only [evictFaithful, hr, Bool.not_true, Bool.false_or] at hg
    simp only [evictCur, evictCount, hsz]
    by_cases hem : (evictRun s pyr).2.2.1.isEmpty = true
    · simp only [hem, if_true, decide_eq_true_eq] at hg ⊢
      have : (evictRun s pyr).2.2.1 = [] := by simpa using hem
      rw [this] at hes ⊢
      simp [eraseKeys, erasedSum] at hes ⊢
      omega
    · simp only [hem, Bool.false_eq_true, if_false, decide_eq_true_eq] at hg ⊢
      rw [hg]
      split <;> omega

/-! ## startup -/

theorem openDb_inv (db : Db) (cap c st : Nat) (hinv : InvDb db) : InvDb (openDb db cap c st).db := by
  unfold InvDb at hinv ⊢
  unfold openDb openWrites
  have : ¬ db.gcSize < gcSum db.gc % two64 := by
    rw [hinv]
    have := Nat.mod_le (gcSum db.gc) two64
    omega
  by_cases h1 : db.schema <;> simp [h1, this, applyLog, applyDW, applyW] <;> exact hinv

/-! ## one step, any operation -/

/-- the items `GetMulti` re-keys, with their bin ids -/
def multiItems (s : State) (addrs : List Addr) : Option (List (Addr × Nat)) :=
  (addrs.mapM (fun a => (SMap.get a s.db.data).map (fun d => (a, d)))).map
    (fun items => items.map (fun it => (it.1, it.2.binID)))

/-- the guard of `C13_inv_step_partial` (see the property file for the reading of every clause) -/
def guardOp (s : State) : Op → Bool
  | .put m r chs => guardPut s m r chs
  | .set m r as => guardSet s m r as
  | .get m r a =>
    match m, SMap.get a s.db.data with
    | .request, some d =>
      (match r with
       | some r => rekeyOk s r 0
       | none => rekeyOk s a d.binID)
    | _, _ => true
  | .getMulti m as =>
    match m, multiItems s as with
    | .request, some items => rekeyOkList s items
    | _, _ => true
  | .gcEvict p => evictFaithful s (pyrFun p)
  | _ => true

theorem getMulti_fold_gcWF (items : List (Addr × DataVal)) : ∀ (acc : State × List DW), GcWF acc.1.db →
    GcWF (items.foldl (fun (acc : State × List DW) it =>
        ((updateGC acc.1 it.1 it.2.binID).1, acc.2 ++ (updateGC acc.1 it.1 it.2.binID).2)) acc).1.db := by
  induction items with
  | nil => intro acc hw; exact hw
  | cons it rest ih =>
    intro acc hw
    simp only [List.foldl_cons]
    exact ih _ (updateGC_gcWF acc.1 it.1 it.2.binID hw)

theorem step_gcWF (po : Addr → Nat) (s : State) (op : Op) (hw : GcWF s.db) : GcWF (step po s op).db := by
  cases op with
  | put m r chs =>
    simp only [step, run, put]
    split
    · exact hw
    · exact gcWF_applyLog _ _ hw
  | set m r as => exact gcWF_applyLog _ _ hw
  | get m r a =>
    simp only [step, run, get]
    split
    · exact hw
    · rename_i d _
      cases m <;> simp only []
      · cases r with
        | none => exact updateGC_gcWF s a d.binID hw
        | some r => exact updateGC_gcWF s r 0 hw
      · exact hw
      · exact hw
      · split <;> exact hw
      · exact hw
  | getMulti m as =>
    simp only [step, run, getMulti]
    split
    · exact hw
    · rename_i items _
      cases m <;> simp only []
      · exact getMulti_fold_gcWF items (s, []) hw
      · exact hw
      · exact hw
      · split <;> exact hw
      · exact hw
  | has m a => exact hw
  | hasMulti m as => exact hw
  | gcSelect =>
    simp only [step, run, gcSelect]
    split
    · exact hw
    · split <;> exact hw
  | gcEvict p =>
    simp only [step, run]
    rw [gcEvict_db]
    exact gcWF_applyLog _ _ hw
  | reopen =>
    simp only [step, run, reopen]
    split
    · exact hw
    · exact gcWF_applyLog _ _ hw
  | setCapacity n => exact hw
  | setClock t st => exact hw

theorem step_inv (po : Addr → Nat) (s : State) (op : Op) (hw : GcWF s.db) (hinv : InvDb s.db)
    (hg : guardOp s op = true) : InvDb (step po s op).db := by
  cases op with
  | put m r chs => exact put_inv po s m r chs hw hinv hg
  | set m r as => exact set_inv s m r as hw hinv hg
  | get m r a =>
    simp only [guardOp] at hg
    simp only [step, run, get]
    cases hd : SMap.get a s.db.data with
    | none => exact hinv
    | some d =>
      simp only []
      cases m <;> simp only [hd] at hg ⊢
      · cases r with
        | none => exact updateGC_inv s a d.binID hw hinv hg
        | some r => exact updateGC_inv s r 0 hw hinv hg
      · exact hinv
      · exact hinv
      · split <;> exact hinv
      · exact hinv
  | getMulti m as =>
    simp only [guardOp, multiItems] at hg
    simp only [step, run, getMulti]
    cases hm : as.mapM (fun a => (SMap.get a s.db.data).map (fun d => (a, d))) with
    | none => exact hinv
    | some items =>
      simp only []
      cases m <;> simp only [hm, Option.map_some] at hg ⊢
      · exact getMulti_fold_inv items (s, []) hw hinv hg
      · exact hinv
      · exact hinv
      · split <;> exact hinv
      · exact hinv
  | has m a => exact hinv
  | hasMulti m as => exact hinv
  | gcSelect =>
    simp only [step, run, gcSelect]
    split
    · exact hinv
    · split <;> exact hinv
  | gcEvict p => exact gcEvict_inv s (pyrFun p) hw hinv hg
  | reopen =>
    simp only [step, run, reopen]
    split
    · exact hinv
    · exact openDb_inv s.db s.capacity s.clock s.clockStep hinv
  | setCapacity n => exact hinv
  | setClock t st => exact hinv

/-- the guard along a whole history -/
def guardH (po : Addr → Nat) : State → List Op → Bool
  | _, [] => true
  | s, op :: ops => guardOp s op && guardH po (step po s op) ops

theorem hist_inv (po : Addr → Nat) (ops : List Op) : ∀ (s : State), GcWF s.db → InvDb s.db →
    guardH po s ops = true → InvDb (runH po s ops).db := by
  induction ops with
  | nil => intro s _ hi _; exact hi
  | cons op ops ih =>
    intro s hw hi hg
    simp only [guardH, Bool.and_eq_true] at hg
    exact ih (step po s op) (step_gcWF po s op hw) (step_inv po s op hw hi hg.1) hg.2

theorem runH_gcWF (po : Addr → Nat) (ops : List Op) : ∀ (s : State), GcWF s.db → GcWF (runH po s ops).db := by
  induction ops with
  | nil => intro s hw; exact hw
  | cons op ops ih => intro s hw; exact ih (step po s op) (step_gcWF po s op hw)

theorem gcWF_init (cap : Nat) : GcWF (init cap).db := by
  have : GcWF ({} : Db) := by simp [GcWF, SMap.keys]
  exact gcWF_applyLog _ _ this

end Aurora.Localstore
