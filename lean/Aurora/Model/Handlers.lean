/-!
# Model of the protocol stream handlers and client reads (property C37)

For every handler / client read of handshake, hive2, retrieval, chunkinfo, routetab, pingpong,
trafficprotocol and multicast: the *decoded* message type (optional sub-messages as `Option`,
repeated fields as `List`, byte strings of any length) and the body of the handler in
`Except Panic`, where every partial Go operation (nil dereference, index, `MustParse…`) is a
checked operation that throws exactly where Go would panic.  A frame that the length-delimited
reader / protobuf decoder rejects is `none` (the decoders themselves are trusted, DESIGN §8).
Results of trusted library calls on message fields (multiaddr parsing, signature recovery, store
lookups, "is this address mine") are oracle arguments: the theorems quantify over all of them.

The code modelled is the code after the `fix:` commits listed in notes/C37.md; the functions
whose name ends in `Old` are the bodies before the repair (used for counterexample theorems).
Core Lean only.
-/
namespace Aurora.Handlers

abbrev Bytes := List UInt8

inductive Panic where
  | nilDeref | outOfRange | mustParse
  deriving Repr, DecidableEq

/-- what the handler returned to the p2p layer: `nil` or an error (the stream is reset) -/
inductive Out where
  | ok | err
  deriving Repr, DecidableEq

abbrev M := Except Panic

/-- `*p` / `p.f` on a Go pointer -/
def deref {α : Type} : Option α → M α
  | some a => pure a
  | none => throw .nilDeref

/-- `l[i]` on a Go slice -/
def idx {α : Type} (l : List α) (i : Nat) : M α :=
  match l[i]? with
  | some a => pure a
  | none => throw .outOfRange

theorem idx_ok {α : Type} (l : List α) (i : Nat) (h : i < l.length) : idx l i = .ok l[i] := by
  simp [idx, List.getElem?_eq_getElem h, pure, Except.pure]

/-- `for _, a := range l { f(a) }` -/
def each {α : Type} (l : List α) (f : α → M Unit) : M Unit :=
  match l with
  | [] => pure ()
  | a :: r => do f a; each r f

/-! ## bit vectors (pkg/bitvector, as far as the handlers use it) -/

structure BV where
  len : Nat
  b : Bytes
  deriving Repr, DecidableEq

/-- `bitvector.NewFromBytes(b, l)`: error for `l ≤ 0` or too few bytes -/
def bvFromBytes (b : Bytes) (l : Nat) : Option BV :=
  if l = 0 ∨ b.length * 8 < l then none else some ⟨l, b⟩

/-- `bv.Get(i)`: indexes byte `i/8` -/
def bvGet (v : BV) (i : Nat) : M Bool := do
  let x ← idx v.b (i / 8)
  pure (x.toNat / 2 ^ (i % 8) % 2 == 1)

/-- bit `i % 8` of a byte (`x & (1 << uint(i%8)) != 0`) -/
def bitOf (x : UInt8) (i : Nat) : Bool := x.toNat / 2 ^ (i % 8) % 2 == 1

/-- `bv.set(i, true)`: `bv.Get(i)` reads `bv.b[i/8]`; when the bit is not yet set it is flipped
    (`bv.b[i/8] ^= 1 << (i%8)`, which for an unset bit adds `2^(i%8)`) -/
def bvSetBit (v : BV) (i : Nat) : M BV := do
  let x ← idx v.b (i / 8)
  pure (if bitOf x i then v else { v with b := v.b.set (i / 8) (UInt8.ofNat (x.toNat + 2 ^ (i % 8))) })

/-- the loop of `SetBytes`, bit by bit as the code runs it:
    `for i := 0; i < len(bv.b)*8; i++ { if bs[i/8]&(1<<uint(i%8)) > 0 { bv.set(i, true) } }`
    (`n` iterations left, loop variable `i`): it indexes BOTH `bs` and `bv.b` at `i/8` -/
def bvSetLoop (bs : Bytes) : Nat → Nat → BV → M BV
  | 0, _, v => pure v
  | n + 1, i, v => do
    let y ← idx bs (i / 8)
    let v ← if bitOf y i then bvSetBit v i else pure v
    bvSetLoop bs n (i + 1) v

/-- `bv.SetBytes(bs)`: `none` = the "invalid length" error (`len(bs) != len(bv.b)`: shorter, longer and
    empty arguments alike), else the bit loop over the stored bytes -/
def bvSetBytes (v : BV) (bs : Bytes) : M (Option BV) :=
  if bs.length ≠ v.b.length then pure none else do
    let r ← bvSetLoop bs (v.b.length * 8) 0 v
    pure (some r)

/-- `aurora.NewModelFromBytes(m)` = `NewFromBytes(m, 1)` -/
def modeFromBytes (m : Bytes) : Option BV := bvFromBytes m 1

/-! ## handshake -/

structure Syn where
  observedUnderlay : Bytes
  deriving Repr

structure BzzAddress where
  underlay : Bytes
  overlay : Bytes
  signature : Bytes
  deriving Repr

structure Ack where
  address : Option BzzAddress
  networkID : Nat
  nodeMode : Bytes
  welcomeLen : Nat
  deriving Repr

structure SynAck where
  syn : Option Syn
  ack : Option Ack
  deriving Repr

/-- node configuration and the oracles of the trusted calls -/
structure HsEnv where
  networkID : Nat
  maOk : Bytes → Bool          -- ma.NewMultiaddrBytes succeeds
  p2pOk : Bytes → Bool         -- libp2ppeer.AddrInfoFromP2pAddr succeeds
  parseOk : BzzAddress → Bool  -- aurora.ParseAddress succeeds (signature recovers the overlay)
  hasPicker : Bool
  pick : Bytes → Bool          -- picker.Pick
  lightFull : Bool             -- lightNodes.Count() >= limit

/-- what a successful handshake returns (`*aurora.AddressInfo`) -/
structure AddressInfo where
  overlay : Bytes
  mode : BV
  deriving Repr

/-- `Service.Handle` (listener): reads Syn, writes SynAck, reads Ack -/
def hsHandle (e : HsEnv) (syn : Option Syn) (ack : Option Ack) : M (Out × Option AddressInfo) := do
  match syn with
  | none => pure (.err, none)
  | some syn =>
  if !e.maOk syn.observedUnderlay then pure (.err, none) else
  -- Resolve, NewAddress, MarshalBinary, write SynAck: succeed on the fake stream
  match ack with
  | none => pure (.err, none)
  | some ack =>
  if ack.address.isNone then pure (.err, none) else      -- fix d9382ea
  if ack.networkID ≠ e.networkID then pure (.err, none) else
  match modeFromBytes ack.nodeMode with
  | none => pure (.err, none)
  | some mode =>
  let a ← deref ack.address                              -- ack.Address.Overlay
  let full ← bvGet mode 0                                -- mode.IsFull()
  if e.hasPicker && full && !e.pick a.overlay then pure (.err, none) else
  if e.hasPicker && !full && e.lightFull then pure (.err, none) else
  let a' ← deref ack.address                             -- parseCheckAck: ack.Address.Underlay …
  if !e.parseOk a' then pure (.err, none) else
  pure (.ok, some ⟨a'.overlay, mode⟩)

/-- the listener before the repair -/
def hsHandleOld (e : HsEnv) (syn : Option Syn) (ack : Option Ack) : M (Out × Option AddressInfo) := do
  match syn with
  | none => pure (.err, none)
  | some syn =>
  if !e.maOk syn.observedUnderlay then pure (.err, none) else
  match ack with
  | none => pure (.err, none)
  | some ack =>
  if ack.networkID ≠ e.networkID then pure (.err, none) else
  match modeFromBytes ack.nodeMode with
  | none => pure (.err, none)
  | some mode =>
  let a ← deref ack.address
  let full ← bvGet mode 0
  if e.hasPicker && full && !e.pick a.overlay then pure (.err, none) else
  if e.hasPicker && !full && e.lightFull then pure (.err, none) else
  if !e.parseOk a then pure (.err, none) else
  pure (.ok, some ⟨a.overlay, mode⟩)

/-- `Service.Handshake` (dialer): writes Syn, reads SynAck, writes Ack -/
def hsDial (e : HsEnv) (resp : Option SynAck) : M (Out × Option AddressInfo) := do
  match resp with
  | none => pure (.err, none)
  | some resp =>
  if resp.syn.isNone then pure (.err, none) else         -- fix e8611f0
  if resp.ack.isNone || (resp.ack.bind (·.address)).isNone then pure (.err, none) else
  let syn ← deref resp.syn                               -- resp.Syn.ObservedUnderlay
  if !e.maOk syn.observedUnderlay then pure (.err, none) else
  if !e.p2pOk syn.observedUnderlay then pure (.err, none) else
  let ack ← deref resp.ack                               -- resp.Ack.NetworkID
  if ack.networkID ≠ e.networkID then pure (.err, none) else
  let a ← deref ack.address                              -- parseCheckAck(resp.Ack)
  if !e.parseOk a then pure (.err, none) else
  -- write Ack
  match modeFromBytes ack.nodeMode with
  | none => pure (.err, none)
  | some mode => pure (.ok, some ⟨a.overlay, mode⟩)

/-- the dialer before the repair -/
def hsDialOld (e : HsEnv) (resp : Option SynAck) : M (Out × Option AddressInfo) := do
  match resp with
  | none => pure (.err, none)
  | some resp =>
  let syn ← deref resp.syn
  if !e.maOk syn.observedUnderlay then pure (.err, none) else
  if !e.p2pOk syn.observedUnderlay then pure (.err, none) else
  let ack ← deref resp.ack
  if ack.networkID ≠ e.networkID then pure (.err, none) else
  let a ← deref ack.address
  if !e.parseOk a then pure (.err, none) else
  match modeFromBytes ack.nodeMode with
  | none => pure (.err, none)
  | some mode => pure (.ok, some ⟨a.overlay, mode⟩)

/-- later local use of the returned info (libp2p connect path): `IsFull`, `IsBootNode`, `Bv.Bytes()` -/
def hsLater (i : Option AddressInfo) : M Unit := do
  let i ← deref i
  let _ ← bvGet i.mode 0
  let _ ← bvGet i.mode 1
  pure ()

/-! ## hive2 -/

structure FindNodeReq where
  target : Bytes
  pos : List Int
  limit : Int
  deriving Repr

structure AuroraAddress where
  underlay : Bytes
  signature : Bytes
  overlay : Bytes
  deriving Repr

/-- `boson.Proximity(one, other)`: scans `min (MaxPO/8+1) (len one) (len other)` bytes -/
def proximity (one other : Bytes) : M Nat := do
  let b := min 4 (min one.length other.length)
  let rec go (i : Nat) (fuel : Nat) : M Nat :=
    match fuel with
    | 0 => pure 31
    | fuel + 1 =>
      if i < b then do
        let x ← idx one i
        let y ← idx other i
        if x ^^^ y ≠ 0 then pure (i * 8) else go (i + 1) fuel
      else pure 31
  go 0 b

/-- `onFindNode`: every connected / known peer is compared with the target; the limits are clamped -/
def hiveFindNode (peers : List Bytes) (req : Option FindNodeReq) : M Out := do
  match req with
  | none => pure .err
  | some req =>
    let limit := if req.limit > 30 then 30 else req.limit
    let limitKnown := if limit > 2 then limit / 2 else 1
    let _limitConn := if limit > 2 then limit - limitKnown else 1
    each peers (fun p => do let _ ← proximity req.target p; pure ())
    pure .ok   -- randPeersLimit: `peers[:limit]` only when total > limit ≥ 1; reply written

/-- `DoFindNode` + `checkAndAddPeers`: each reply peer is validated on its own; nothing is indexed -/
def hiveDoFind (maOk : Bytes → Bool) (reply : Option (List AuroraAddress)) : M (Out × List AuroraAddress) := do
  match reply with
  | none => pure (.err, [])
  | some ps => pure (.ok, ps.filter (fun p => maOk p.underlay))

/-! ## retrieval -/

structure RequestChunk where
  target : Bytes
  root : Bytes
  chunk : Bytes
  deriving Repr

/-- `handler`: `inStore` = the chunk is in the local store, `targetSelf` = the request names this node;
    a miss for another target is forwarded (`RetrieveChunkFromNode`), which fails on the fake network -/
def retHandler (req : Option RequestChunk) (inStore targetSelf : Bool) : M Out := do
  match req with
  | none => pure .err
  | some _ =>
    if inStore then pure .ok
    else if targetSelf then pure .err
    else pure .err

/-- `retrieveChunk`: the delivered data is validated (`cac.Valid` / `soc.Valid`, oracle `valid`),
    stored, and `exists[0]` of the one-chunk put is read -/
def retRetrieve (delivery : Option Bytes) (valid : Bool) : M Out := do
  match delivery with
  | none => pure .err
  | some _ =>
    if !valid then pure .err else
    let ex : List Bool := [false]        -- storer.Put(ctx, mode, chunk) returns one flag per chunk
    let _ ← idx ex 0
    pure .ok

/-! ## pingpong -/

/-- `handler`: `n` good Ping frames, then either a clean end of stream or a bad frame -/
def pingHandler (_n : Nat) (cleanEOF : Bool) : M Out := pure (if cleanEOF then .ok else .err)

/-- `Ping(msgs…)`: one Pong per message; a clean EOF ends the loop without error -/
def pingClient (bad : Bool) : M Out := pure (if bad then .err else .ok)

/-! ## trafficprotocol over the traffic service -/

structure Cheque where
  recipient : Bytes
  beneficiary : Bytes
  payout : Option Int        -- *big.Int
  signature : Option Bytes   -- nil slice vs present
  deriving Repr

/-- what `encoding/json` makes of `EmitCheque.SignedCheque` -/
inductive ChequeJson where
  | bad                      -- syntax / type error
  | null                     -- the literal `null` (only into the pointer of `handler`)
  | val (c : Cheque)
  deriving Repr

structure EmitCheque where
  address : Bytes
  cheque : ChequeJson
  deriving Repr

/-- per chain address: the pointer `transferChequeTraffic` and the stored last received cheque -/
structure PeerTraffic where
  chain : Bytes
  transferCheque : Option Int
  lastReceived : Option Cheque
  deriving Repr

structure TrState where
  self : Bytes                            -- the node's chain address
  book : List (Bytes × Bytes)             -- peer overlay ↦ chain address
  peers : List PeerTraffic
  deriving Repr

/-- oracles of signature recovery: `recoverOk c` (a key is recovered), `issuer c` its address.
    `eip712DataForCheque` renders a nil payout as "<nil>", which the typed-data encoder rejects, so
    recovery fails for a cheque without payout. -/
structure TrEnv where
  recoverOk : Cheque → Bool
  issuer : Cheque → Bytes

def TrEnv.recover (e : TrEnv) (c : Cheque) : Option Bytes :=
  match c.payout with
  | none => none
  | some _ => if e.recoverOk c then some (e.issuer c) else none

def trLookup (st : TrState) (chain : Bytes) : Option PeerTraffic := st.peers.find? (·.chain == chain)

def trStore (st : TrState) (p : PeerTraffic) : TrState :=
  { st with peers := p :: st.peers.filter (·.chain != p.chain) }

/-- `getTraffic(chain).transferChequeTraffic`: an existing counter, or the zero of `newTraffic()` -/
def counterOf (st : TrState) (chain : Bytes) : Option Int :=
  match trLookup st chain with
  | some p => p.transferCheque
  | none => some 0

/-- `traffic.Service.ReceiveCheque` + `chequeStore.ReceiveCheque` on a cheque pointer -/
def receiveCheque (e : TrEnv) (st : TrState) (peer : Bytes) (c : Option Cheque) : M (Out × TrState) := do
  match st.book.lookup peer with
  | none => pure (.err, st)
  | some chain =>
    let ch ← deref c                                    -- cheque.Beneficiary
    if ch.beneficiary ≠ chain || ch.recipient ≠ st.self then pure (.err, st) else
    if ch.recipient ≠ st.self then pure (.err, st) else
    match e.recover ch with
    | none => pure (.err, st)
    | some issuer =>
      if issuer ≠ ch.beneficiary then pure (.err, st) else
      let last : Int := match (trLookup st ch.beneficiary).bind (·.lastReceived) with
        | some l => l.payout.getD 0
        | none => 0
      let pay ← deref ch.payout                         -- big.NewInt(0).Sub(cheque.CumulativePayout, last)
      if pay - last ≤ 0 then pure (.err, st) else
      -- the cheque store files the cheque under its beneficiary; `getTraffic` creates counters of zero
      let st := trStore st { chain := ch.beneficiary, transferCheque := counterOf st ch.beneficiary, lastReceived := some ch }
      let st := trStore st { chain := chain, transferCheque := ch.payout, lastReceived := (trLookup st chain).bind (·.lastReceived) }
      pure (.ok, st)

/-- `trafficprotocol.handler` -/
def trHandler (e : TrEnv) (st : TrState) (peer : Bytes) (m : Option EmitCheque) : M (Out × TrState) := do
  match m with
  | none => pure (.err, st)
  | some m =>
    match m.cheque with
    | .bad => pure (.err, st)
    | .null => pure (.err, st)                          -- fix 31e7181
    | .val c => receiveCheque e st peer (some c)

/-- the handler before the repair: `null` leaves the pointer nil -/
def trHandlerOld (e : TrEnv) (st : TrState) (peer : Bytes) (m : Option EmitCheque) : M (Out × TrState) := do
  match m with
  | none => pure (.err, st)
  | some m =>
    match m.cheque with
    | .bad => pure (.err, st)
    | .null => receiveCheque e st peer none
    | .val c => receiveCheque e st peer (some c)

/-- `common.BytesToAddress`: the last 20 bytes, left-padded with zeros -/
def toAddr20 (b : Bytes) : Bytes :=
  if b.length ≥ 20 then b.drop (b.length - 20) else List.replicate (20 - b.length) 0 ++ b

/-- second half of `traffic.Service.Handshake`: balance update, then the cheque (if signed) must be
    one this node issued -/
def trHandshake2 (e : TrEnv) (st : TrState) (c : Cheque) : M (Out × TrState) := do
  if c.signature.isNone then pure (.ok, st) else
  match e.recover c with
  | none => pure (.err, st)
  | some user =>
    if user ≠ st.self then pure (.err, st) else
    let _pay ← deref c.payout                           -- signedCheque.CumulativePayout.Cmp(…)
    pure (.ok, st)

/-- `traffic.Service.Handshake(peer, recipient, cheque)` (value, not pointer) as called by
    `initHandler` and `init` -/
def trHandshake (e : TrEnv) (st : TrState) (peer recipient : Bytes) (c : Cheque) : M (Out × TrState) := do
  match st.book.lookup peer with
  | none =>
    if (st.book.find? (·.2 == recipient)).isSome then pure (.err, st) else
    trHandshake2 e { st with book := (peer, recipient) :: st.book } c
  | some known =>
    if c.signature.isSome && c.recipient ≠ known then pure (.err, st) else
    trHandshake2 e st c

def zeroCheque : Cheque := { recipient := List.replicate 20 0, beneficiary := List.replicate 20 0, payout := none, signature := none }

/-- `initHandler` / `init`: unmarshal into a value (`null` leaves the zero value), then `Handshake`;
    `initHandler` only logs the error of `Handshake` (`logErr = true`) and goes on to reply -/
def trInit (e : TrEnv) (st : TrState) (peer : Bytes) (m : Option EmitCheque) (logErr : Bool) : M (Out × TrState) := do
  match m with
  | none => pure (.err, st)
  | some m =>
    let c : Option Cheque := match m.cheque with
      | .bad => none
      | .null => some zeroCheque
      | .val c => some c
    match c with
    | none => pure (.err, st)
    | some c =>
      let (o, st') ← trHandshake e st peer (toAddr20 m.address) c
      if logErr then pure (.ok, st') else pure (o, st')

/-- later local use: `TrafficCheques` / `TrafficInfo` subtract the stored `*big.Int`s -/
def trLater (st : TrState) : M Unit :=
  each st.peers (fun p => do
    let _ ← deref p.transferCheque
    match p.lastReceived with
    | some c => do let _ ← deref c.payout; pure ()
    | none => pure ())

/-! ## chunkinfo -/

/-- ASCII hex decoding = `boson.ParseHexAddress` / `hex.DecodeString` -/
def hexVal (c : UInt8) : Option Nat :=
  if 48 ≤ c.toNat ∧ c.toNat ≤ 57 then some (c.toNat - 48)
  else if 97 ≤ c.toNat ∧ c.toNat ≤ 102 then some (c.toNat - 87)
  else if 65 ≤ c.toNat ∧ c.toNat ≤ 70 then some (c.toNat - 55)
  else none

def parseHex : Bytes → Option Bytes
  | [] => some []
  | [_] => none
  | a :: b :: rest =>
    match hexVal a, hexVal b, parseHex rest with
    | some x, some y, some r => some (UInt8.ofNat (x * 16 + y) :: r)
    | _, _, _ => none

/-- `boson.MustParseHexAddress` -/
def mustParseHex (s : Bytes) : M Bytes :=
  match parseHex s with
  | some b => pure b
  | none => throw .mustParse

structure Queue where
  unPull : List Bytes
  pulling : List Bytes
  pulled : List Bytes
  deriving Repr

structure CiState where
  files : List (Bytes × Nat)                 -- root ↦ number of data chunks (pyramid known / loadable)
  disc : List ((Bytes × Bytes) × Option BV)  -- cd.presence[root][overlay].bit  (a Go pointer)
  queues : List (Bytes × Queue)              -- running discoveries
  pending : List Bytes
  deriving Repr

def CiState.init : CiState := { files := [], disc := [], queues := [], pending := [] }

structure ChunkInfoResp where
  root : Bytes
  target : Bytes
  req : Bytes
  presence : List (Bytes × Bytes)   -- map key (the bytes of the string) ↦ value; keys unique
  deriving Repr

def chunkSize (st : CiState) (root : Bytes) : Nat := (st.files.lookup root).getD 0

def discSet (st : CiState) (k : Bytes × Bytes) (v : Option BV) : CiState :=
  { st with disc := (k, v) :: st.disc.filter (·.1 != k) }

/-- `updateChunkInfo(rootCid, overlay, bv)` (runs in the discover worker goroutine) -/
def updateChunkInfo (st : CiState) (root overlay bv : Bytes) : M CiState := do
  match st.disc.lookup (root, overlay) with
  | none =>
    let v := chunkSize st root
    if v = 0 then pure st else
    match bvFromBytes bv v with
    | none => pure st                                   -- fix 89b64e8
    | some bit =>
      let st := discSet st (root, overlay) (some bit)
      let vb ← deref (some bit)                         -- stateStorer.Put(…, vb.bit.Bytes(), vb.bit.Len())
      let _ := vb
      pure st
  | some ptr =>
    -- a vector is already stored for (root, overlay): `vb.bit.SetBytes(bv)` merges bit by bit and
    -- rejects `len(bv) != len(vb.bit.b)` (shorter, longer, empty); the error is only logged and the
    -- stored vector stays as it was; then `stateStorer.Put(…, vb.bit.Bytes(), vb.bit.Len())`
    let cur ← deref ptr
    match ← bvSetBytes cur bv with
    | some n => pure (discSet st (root, overlay) (some n))
    | none => pure st

/-- before the repair: the error of `NewFromBytes` is dropped and the nil vector is stored and used -/
def updateChunkInfoOld (st : CiState) (root overlay bv : Bytes) : M CiState := do
  match st.disc.lookup (root, overlay) with
  | none =>
    let v := chunkSize st root
    if v = 0 then pure st else
    let bit := bvFromBytes bv v
    let st := discSet st (root, overlay) bit
    let vb ← deref bit
    let _ := vb
    pure st
  | some ptr =>
    let cur ← deref ptr
    match ← bvSetBytes cur bv with
    | some n => pure (discSet st (root, overlay) (some n))
    | none => pure st

def pullMax : Nat := 200
def pullingMax : Nat := 10
def pullerMax : Nat := 1000

/-- `n` times: `unNode := q.pop(UnPull)` (reads `qu[0]`), `q.push(Pulling, *unNode)` -/
def popN : Nat → Queue → M Queue
  | 0, q => pure q
  | n + 1, q => do
    let v ← idx q.unPull 0
    popN n { q with unPull := q.unPull.drop 1, pulling := q.pulling ++ [v] }

/-- `queueProcess`: moves up to `PullingMax - len(Pulling)` nodes from UnPull to Pulling (`q.pop` reads `qu[0]`) -/
def queueProcess (q : Queue) (pendingFinder : Bool) : M Queue := do
  if q.pulled.length + q.pulling.length ≥ pullMax then pure q else
  if !pendingFinder then pure q else
  if q.pulling.length ≥ pullingMax then pure q else
  popN (min (pullingMax - q.pulling.length) q.unPull.length) q

def inQueue (q : Queue) (n : Bytes) : Bool := q.pulled.contains n || q.pulling.contains n || q.unPull.contains n

/-- the loop of `updateQueue` over the peer-supplied presence keys; `isSelf k` = the key is this node -/
def pushKeys (strict : Bool) (isSelf : Bytes → Bool) : List (Bytes × Bytes) → Queue → M Queue
  | [], q => pure q
  | (k, _) :: rest, q => do
    match parseHex k with
    | none =>
      if strict then throw .mustParse                   -- boson.MustParseHexAddress (before the repair)
      else pushKeys strict isSelf rest q                -- fix 7d81ec0: continue
    | some o =>
      if isSelf k then pushKeys strict isSelf rest q else
      if q.unPull.length ≥ pullerMax then pure q else
      if inQueue q o then pushKeys strict isSelf rest q else
      pushKeys strict isSelf rest { q with unPull := q.unPull ++ [o] }

def queueSet (st : CiState) (root : Bytes) (q : Queue) : CiState :=
  { st with queues := (root, q) :: st.queues.filter (·.1 != root) }

/-- second half of `updateQueue`: the peer-supplied keys are queued, the answering node moves to
    Pulled, and `doFindChunkInfo` → `queueProcess` pulls the next nodes -/
def updateQueueTail (strict : Bool) (isSelf : Bytes → Bool) (st : CiState) (r : ChunkInfoResp) : M (Out × CiState) := do
  match st.queues.lookup r.root with
  | none => pure (.ok, st)
  | some q =>
    let q ← pushKeys strict isSelf r.presence q
    let q := { q with pulling := q.pulling.filter (· != r.target), pulled := q.pulled ++ [r.target] }
    let q ← queueProcess q (st.pending.contains r.root)
    pure (.ok, queueSet st r.root q)

/-- `handlerChunkInfoResp` → `onChunkInfoResp` → `onFindChunkInfo` → `updateQueue`;
    `targetKey` is `overlay.String()` as bytes -/
def ciResp (strict : Bool) (upd : CiState → Bytes → Bytes → Bytes → M CiState)
    (st : CiState) (resp : Option ChunkInfoResp) (reqIsSelf : Bool) (targetKey : Bytes)
    (isSelf : Bytes → Bool) : M (Out × CiState) := do
  match resp with
  | none => pure (.err, st)
  | some r =>
    if !reqIsSelf then pure (.ok, st) else              -- forwarded with sendData
    match r.presence.lookup targetKey with
    | some v => do                                      -- entries of a decoded map are never nil
      let st ← upd st r.root r.target v
      updateQueueTail strict isSelf st r
    | none => updateQueueTail strict isSelf st r

def ciRespNew := ciResp false updateChunkInfo
def ciRespOld := ciResp true updateChunkInfoOld

/-- later local use: `GetChunkInfo(root, cid)` reads bit `s` (the chunk's index, `< n`, or 0 for an
    unknown cid) of every stored vector of the root; `GetChunkInfoDiscoverOverlays` reads `Len`/`Bytes`;
    a restart reloads each persisted vector with `NewFromBytes` and dereferences the result -/
def ciLater (st : CiState) (root : Bytes) (s : Nat) : M Unit :=
  let n := chunkSize st root
  let s := if s < n then s else 0
  each st.disc (fun e =>
    if e.1.1 == root then do
      let bv ← deref e.2                                -- bv.bit.Get(s) / bv.bit.Len()
      let _ ← bvGet bv s
      let _ ← deref (bvFromBytes bv.b bv.len)           -- initChunkInfoDiscover: *bit
      pure ()
    else pure ())

/-- set-up: the node holds file `root` with `n` data chunks -/
def ciFile (st : CiState) (root : Bytes) (n : Nat) : CiState :=
  if n = 0 ∨ (st.files.lookup root).isSome then st else { st with files := (root, n) :: st.files }

/-- set-up: `FindChunkInfo(root, overlays)` when the root's pyramid is known -/
def ciFind (st : CiState) (root : Bytes) (overlays : List Bytes) : M CiState := do
  if (st.files.lookup root).isNone then pure st else
  let q0 : Queue := (st.queues.lookup root).getD ⟨[], [], []⟩
  let q := overlays.foldl (fun q o => if inQueue q o then q else { q with unPull := q.unPull ++ [o] }) q0
  let st := { st with pending := if st.pending.contains root then st.pending else root :: st.pending }
  let q ← queueProcess q true
  pure (queueSet st root q)

/-- `handlerChunkInfoReq`: answered from the neighbour table or forwarded — both only send -/
def ciReq (req : Option (Bytes × Bytes × Bytes)) : M Out := pure (if req.isSome then .ok else .err)

/-- `handlerPyramid`: served locally (`local_`: target is this node or the root is known; `have_`: the
    traversal finds the pyramid) or forwarded with `sendPyramid`, whose reply is `frames` well-formed
    frames ended by an Ok frame (`terminated`) and accepted by the traversal (`accepted n`) -/
def ciPyramid (st : CiState) (req : Option (Bytes × Bytes)) (local_ have_ terminated : Bool)
    (accepted : Option Nat) : M (Out × CiState) := do
  match req with
  | none => pure (.err, st)
  | some (root, _) =>
    if local_ then pure (if have_ then .ok else .err, st) else
    if !terminated then pure (.err, st) else
    if (st.files.lookup root).isSome then pure (.ok, st) else
    match accepted with
    | none => pure (.err, st)
    | some n => pure (.ok, ciFile st root n)

/-! ## routetab -/

structure Path where
  sign : Bytes
  bodys : List Bytes
  items : List Bytes
  deriving Repr

structure UnderlayResp where
  dest : Bytes
  underlay : Bytes
  signature : Bytes
  deriving Repr

structure RouteReq where
  dest : Bytes
  alpha : Int
  paths : List Path
  uType : Int
  uList : List UnderlayResp
  deriving Repr

structure RouteResp where
  dest : Bytes
  paths : List Path
  uType : Int
  uList : List UnderlayResp
  deriving Repr

/-- the route table: stored paths (items) and, per target, the next hops -/
structure RtState where
  paths : List (List Bytes)
  routes : List (Bytes × List Bytes)   -- target ↦ neighbours (next hops)
  deriving Repr

def RtState.init : RtState := ⟨[], []⟩

def maxTTL : Nat := 10

/-- `Table.SavePath`: paths shorter than 2 are ignored; the neighbour is `items[len-1]`; every
    item but the last becomes a target -/
def savePath (st : RtState) (p : Path) : M RtState := do
  if p.items.length < 2 then pure st else
  let nb ← idx p.items (p.items.length - 1)             -- items[len(items)-1]
  let targets := p.items.take (p.items.length - 1)
  let routes := targets.foldl (fun rs t =>
    match rs.lookup t with
    | some old => if old.contains nb then rs else (t, nb :: old.take 2) :: rs.filter (·.1 != t)
    | none => (t, [nb]) :: rs) st.routes
  pure { paths := p.items :: st.paths.filter (· != p.items), routes := routes }

def savePaths (st : RtState) : List Path → M RtState
  | [] => pure st
  | p :: ps => do let st ← savePath st p; savePaths st ps

/-- `onRouteReq`: every branch ends in `return nil` once the frame is decoded -/
def rtReq (st : RtState) (self : Bytes) (req : Option RouteReq) : M (Out × RtState) := do
  match req with
  | none => pure (.err, st)
  | some r =>
    -- discard rules (only the last path is kept as reqPath, every path is checked)
    if r.paths.any (fun p => p.items.length > maxTTL || p.items.contains self) then pure (.ok, st) else
    let st ← savePaths st r.paths
    -- saveUnderlay, then reply / forward: only sends
    pure (.ok, st)

/-- `onRouteResp` -/
def rtResp (st : RtState) (self : Bytes) (resp : Option RouteResp) : M (Out × RtState) := do
  match resp with
  | none => pure (.err, st)
  | some r =>
    let now := r.paths.filter (fun p => p.items.length ≤ maxTTL)
    if now.isEmpty then pure (.ok, st) else
    if now.any (fun p => p.items.contains self) then pure (.ok, st) else
    let st ← savePaths st now
    pure (.ok, st)

/-- later local use: `GetRoute`, `getClosestNeighborLimit` (`path.Items[length-1]`), `GetNextHop`, restart -/
def rtLater (st : RtState) : M Unit :=
  each st.paths (fun items => do let _ ← idx items (items.length - 1); pure ())

/-- `onFindUnderlay`: address book hit → reply, miss → error -/
def rtFindUnderlay (req : Option Bytes) (inBook : Bool) : M Out :=
  pure (match req with | none => .err | some _ => if inBook then .ok else .err)

/-- `FindUnderlay` (client): `ParseAddress` of the reply, then the address book -/
def rtDoFindUnderlay (resp : Option UnderlayResp) (parseOk : Bool) : M Out :=
  pure (match resp with | none => .err | some _ => if parseOk then .ok else .err)

structure RelayReq where
  src : Bytes
  srcMode : Bytes
  dest : Bytes
  midCall : Bool
  paths : List Bytes
  deriving Repr

/-- `onRelay` behind the (faked) `CallHandler`: a request for another node is forwarded to a
    neighbour or along a known next hop; a request for this node is dispatched locally -/
def rtRelay (req : Option RelayReq) (destSelf isNeighbor modeOk hasNextHop : Bool) : M Out := do
  match req with
  | none => pure .ok                                    -- CallHandler: relayData == nil → return err (nil)
  | some r =>
    if !r.midCall && !destSelf then
      pure (if isNeighbor || hasNextHop then .ok else .err)
    else if !modeOk then
      if destSelf then pure .err else pure (if isNeighbor || hasNextHop then .ok else .err)
    else pure .ok

/-- `onRelayConnChain` -/
def rtConnChain (req : Option RelayReq) (destSelf isNeighbor modeOk hasNextHop : Bool) : M Out := do
  match req with
  | none => pure .err
  | some _ =>
    if destSelf then pure (if modeOk then .ok else .err)
    else pure (if isNeighbor || hasNextHop then .ok else .err)

/-! ## multicast -/

/-- `HandshakeIncoming` / `Handshake`: the GID list only feeds the group tables -/
def mcHandshake (gids : Option (List Bytes)) : M Out := pure (if gids.isSome then .ok else .err)

/-- `onNotify` -/
def mcNotify (m : Option (Int × List Bytes)) : M Out :=
  pure (match m with | none => .err | some (s, _) => if s = 1 ∨ s = 2 then .ok else .err)

/-- `onMulticast` -/
def mcMulticast (decoded : Bool) : M Out := pure (if decoded then .ok else .err)

def mcMaxTTL : Int := 10

/-- `Ttl++` on an int32 -/
def incr32 (t : Int) : Int := if t = 2147483647 then -2147483648 else t + 1

/-- `onFindGroup`: answered from the node's own lists (`answerable`), else forwarded unless the TTL is used up -/
def mcFindGroup (req : Option (Bytes × Int × Int)) (answerable : Bool) : M Out :=
  pure (match req with
    | none => .err
    | some (_, _, ttl) => if answerable then .ok else if incr32 ttl ≥ mcMaxTTL then .err else .ok)

/-- `onMessage`: always returns nil once the first frame is decoded; a send-receive session then waits
    for the sender to close, decoding whatever else arrives into a `GroupMsg` (fix 59b36d3; before,
    the target was a nil message and `proto.Unmarshal` dereferenced it) -/
def mcMessage (decoded : Bool) (sessionTarget : Option Unit) (extraFrame : Bool) : M Out := do
  if !decoded then pure .err else
  if extraFrame then
    let _ ← deref sessionTarget                         -- proto.Unmarshal(buf, msg): msg.Reset()
    pure .ok
  else pure .ok

/-- `Send` / `SendReceive` (client): a reply with a non-empty `Err` is an error -/
def mcSend (reply : Option Nat) : M Out :=
  pure (match reply with | none => .err | some errLen => if errLen = 0 then .ok else .err)

end Aurora.Handlers
