// Package c32: correspondence + oracle for pkg/accounting (per-peer unpaid traffic) with a
// scripted settlement.Interface.
package c32

import (
	"context"
	"errors"
	"fmt"
	"io"
	"math/big"
	"strconv"
	"sync"
	"time"

	"github.com/gauss-project/aurorafs/pkg/accounting"
	"github.com/gauss-project/aurorafs/pkg/boson"
	"github.com/gauss-project/aurorafs/pkg/logging"
	"github.com/gauss-project/aurorafs/pkg/p2p"

	"verifharness/core"
	"verifharness/settle"
)

type prop struct{}

func init() { core.Register(prop{}) }

const (
	tolerance = 1000
	threshold = 100
	nPeers    = 8
	sentinel  = 200
)

func (prop) ID() string { return "C32" }
func (prop) Rule() string {
	return "cases: Accounting(tolerance 1000, threshold 100) over a scripted settlement layer; 8-50 ops for 3 peers: credit (amounts dense around the " +
		"threshold, settlement put ok/failing), notify (amounts below / equal / above the outstanding balance, zero), reserve (available balance around " +
		"unpaid+amount, or failing), debit (unsettled served traffic around the tolerance 999/1000/1001, put ok/failing), unpaid (exact read-back by " +
		"bisection through Reserve), stress (k concurrent Credit+Reserve goroutines); first contact of a peer takes its opening balance from the scripted " +
		"RetrieveTraffic (or fails). Non-trivial: >=1 credit reaching the threshold, >=1 truncating or exact payment, >=1 debit at the tolerance boundary."
}

func (prop) Gen(r *core.Rand, tier string) []core.Case {
	n := 300
	if tier == "thorough" {
		n = 5000
	}
	cs := []core.Case{
		{ID: "fix-threshold-boundary", NT: true, Ops: []string{"credit 0 99 0 0", "credit 0 1 0 0", "unpaid 0 0", "notify 0 100 0", "unpaid 0 0", "credit 0 100 0 0"}},
		{ID: "fix-overpay-truncates", NT: true, Ops: []string{"credit 0 40 5 0", "notify 0 50 0", "unpaid 0 0", "notify 0 1 0", "credit 0 7 0 0", "unpaid 0 0"}},
		{ID: "fix-debit-tolerance", NT: true, Ops: []string{"debit 0 10 0 999 0", "debit 0 10 0 1000 0", "debit 0 10 0 1001 0", "debit 0 10 0 e 0", "debit 1 10 e 5 0"}},
		{ID: "fix-concurrent-reserve-credit", NT: true, Ops: []string{"credit 0 10 0 0", "stress 0 16 9 0", "unpaid 0 0", "reserve 0 5 0 159", "reserve 0 5 0 158"}},
	}
	for i := 0; i < n; i++ {
		c := core.Case{ID: fmt.Sprintf("g%d", i)}
		est := map[int]int{} // generator's estimate of unpaid, to aim at boundaries
		thr, trunc, tol := 0, 0, 0
		nops := r.Range(8, 50)
		for k := 0; k < nops; k++ {
			p := r.Intn(3)
			rt := strconv.Itoa(r.Pick([]int{0, 0, 0, 5, 60, 99, 100, 250}))
			if r.Chance(6) {
				rt = "e"
			}
			_, known := est[p]
			if !known && rt != "e" {
				v, _ := strconv.Atoi(rt)
				est[p] = v
			}
			_, known = est[p]
			switch r.Intn(16) {
			case 0, 1, 2, 3, 4:
				amt := r.Pick([]int{1, 7, 30, 99, 100, 101, threshold - est[p], threshold - est[p] - 1, r.Range(0, 150)})
				if amt < 0 {
					amt = 0
				}
				pe := 0
				if r.Chance(8) {
					pe = 1
				}
				c.Ops = append(c.Ops, fmt.Sprintf("credit %d %d %s %d", p, amt, rt, pe))
				if known {
					est[p] += amt
					if est[p] >= threshold && pe == 0 {
						thr++
					}
				}
			case 5, 6, 7:
				amt := r.Pick([]int{0, 1, est[p] - 1, est[p], est[p] + 1, est[p] / 2, r.Range(0, 300)})
				if amt < 0 {
					amt = 0
				}
				c.Ops = append(c.Ops, fmt.Sprintf("notify %d %d %s", p, amt, rt))
				if known {
					if amt >= est[p] {
						trunc++
						est[p] = 0
					} else {
						est[p] -= amt
					}
				}
			case 8, 9:
				amt := r.Range(0, 40)
				av := strconv.Itoa(est[p] + amt + r.Range(-1, 1))
				if r.Chance(8) {
					av = "e"
				}
				c.Ops = append(c.Ops, fmt.Sprintf("reserve %d %d %s %s", p, amt, rt, av))
			case 10, 11, 12:
				tt := strconv.Itoa(r.Pick([]int{0, 500, 999, 1000, 1001, 5000}))
				if r.Chance(6) {
					tt = "e"
				}
				pe := 0
				if r.Chance(8) {
					pe = 1
				}
				c.Ops = append(c.Ops, fmt.Sprintf("debit %d %d %s %s %d", p, r.Range(0, 500), rt, tt, pe))
				if tt == "999" || tt == "1000" {
					tol++
				}
			case 13:
				if r.Chance(40) {
					c.Ops = append(c.Ops, fmt.Sprintf("stress %d %d %d %s", p, r.Range(2, 12), r.Range(1, 40), rt))
					est[p] += 0 // estimate no longer exact; fine
				} else {
					c.Ops = append(c.Ops, fmt.Sprintf("unpaid %d %s", p, rt))
				}
			default:
				c.Ops = append(c.Ops, fmt.Sprintf("unpaid %d %s", p, rt))
			}
		}
		c.Ops = append(c.Ops, "unpaid 0 0", "unpaid 1 0", "unpaid 2 0")
		c.NT = thr > 0 && trunc > 0 && tol > 0
		cs = append(cs, c)
	}
	return cs
}

type runner struct {
	acc    *accounting.Accounting
	sc     *settle.Script
	shadow map[int]*big.Int // model-free spec: credits minus payments (truncated), nil = no record yet
}

func (prop) New() core.Runner {
	sc := settle.NewScript()
	acc := accounting.NewAccounting(big.NewInt(tolerance), big.NewInt(threshold), logging.New(io.Discard, 0), nil, sc)
	return &runner{acc: acc, sc: sc, shadow: map[int]*big.Int{}}
}
func (rn *runner) Close() {}

func parseOI(s string) (*big.Int, bool) { // "e" -> nil
	if s == "e" {
		return nil, true
	}
	v, ok := new(big.Int).SetString(s, 10)
	return v, ok
}

var huge = new(big.Int).Lsh(big.NewInt(1), 66)

// measure reads unPaidTraffic exactly through the public API: Reserve(peer, 0) succeeds iff
// unpaid <= AvailableBalance, so bisect on the scripted available balance.
func (rn *runner) measure(peer boson.Address) (*big.Int, bool) {
	ok := func(k *big.Int) (bool, bool) {
		rn.sc.Set(func(s *settle.Script) { s.Available = k })
		err := rn.acc.Reserve(peer, 0)
		if err == nil {
			return true, true
		}
		if errors.Is(err, accounting.ErrLowAvailableExceeded) {
			return false, true
		}
		return false, false
	}
	lo, hi := new(big.Int).Neg(huge), new(big.Int).Set(huge) // invariant: !ok(lo), ok(hi)
	if a, v := ok(hi); !v || !a {
		return nil, false
	}
	if a, v := ok(lo); !v || a {
		return nil, false
	}
	for new(big.Int).Sub(hi, lo).Cmp(big.NewInt(1)) > 0 {
		mid := new(big.Int).Add(lo, hi)
		mid.Rsh(mid, 1)
		a, v := ok(mid)
		if !v {
			return nil, false
		}
		if a {
			hi = mid
		} else {
			lo = mid
		}
	}
	return hi, true
}

// drainPays makes the settle goroutine's queue observable: enqueue a payment request for a
// sentinel peer and count what arrives before it.
func (rn *runner) drainPays(peer boson.Address) (int, bool) {
	rn.sc.Set(func(s *settle.Script) { s.Retrieve = new(big.Int).Lsh(big.NewInt(1), 62); s.PutRetErr = false })
	if err := rn.acc.Credit(context.Background(), settle.Peer(sentinel), 0); err != nil {
		return 0, false
	}
	n := 0
	for {
		select {
		case p := <-rn.sc.PayCh():
			if p.Equal(settle.Peer(sentinel)) {
				return n, true
			}
			if p.Equal(peer) {
				n++
			} else {
				n += 1000 // a payment request for somebody else
			}
		case <-time.After(10 * time.Second):
			return n, false
		}
	}
}

func (rn *runner) contact(p int, rt *big.Int) bool {
	if _, ok := rn.shadow[p]; ok {
		return true
	}
	if rt == nil {
		return false
	}
	rn.shadow[p] = new(big.Int).Set(rt)
	return true
}

func (rn *runner) checkUnpaid(ctx *core.Ctx, p int, what string) {
	want, ok := rn.shadow[p]
	if !ok {
		return
	}
	got, ok := rn.measure(settle.Peer(p))
	if !ok {
		ctx.Fail("unpaid-unreadable", "could not read the unpaid balance of peer %d after %s", p, what)
		return
	}
	if got.Sign() < 0 && want.Sign() >= 0 {
		ctx.Fail("unpaid-negative", "unpaid balance of peer %d is %s after %s", p, got, what)
	}
	if got.Cmp(want) != 0 {
		ctx.Fail("unpaid-mismatch-"+what, "peer %d: unpaid balance %s, credits minus payments = %s", p, got, want)
		rn.shadow[p] = got
	}
}

func (rn *runner) Step(ctx *core.Ctx, op []string) string {
	atoi := func(s string) (uint64, bool) {
		v, err := strconv.ParseUint(s, 10, 64)
		return v, err == nil
	}
	if len(op) < 3 {
		return "bad-op"
	}
	p64, okp := atoi(op[1])
	if !okp || p64 >= nPeers {
		return "bad-op"
	}
	p := int(p64)
	peer := settle.Peer(p)
	switch {
	case len(op) == 5 && op[0] == "reserve":
		amt, ok1 := atoi(op[2])
		rt, ok2 := parseOI(op[3])
		av, ok3 := parseOI(op[4])
		if !ok1 || !ok2 || !ok3 {
			return "bad-op"
		}
		rn.sc.Set(func(s *settle.Script) { s.Retrieve, s.Available = rt, av })
		err := rn.acc.Reserve(peer, amt)
		created := rn.contact(p, rt)
		out := "ok"
		if errors.Is(err, accounting.ErrLowAvailableExceeded) {
			out = "low"
		} else if err != nil {
			out = "err"
		}
		if created && av != nil {
			low := av.Cmp(new(big.Int).Add(rn.shadow[p], new(big.Int).SetUint64(amt))) < 0
			if low != (out == "low") {
				ctx.Fail("reserve-decision", "Reserve(%d) with available %s and unpaid %s answered %s", amt, av, rn.shadow[p], out)
			}
		}
		rn.checkUnpaid(ctx, p, "reserve")
		return out
	case len(op) == 5 && op[0] == "credit":
		amt, ok1 := atoi(op[2])
		rt, ok2 := parseOI(op[3])
		pe, ok3 := atoi(op[4])
		if !ok1 || !ok2 || !ok3 || pe > 1 {
			return "bad-op"
		}
		rn.sc.Set(func(s *settle.Script) { s.Retrieve, s.PutRetErr = rt, pe == 1 })
		rn.sc.TakeCalls()
		err := rn.acc.Credit(context.Background(), peer, amt)
		calls := rn.sc.TakeCalls()
		pays, okd := rn.drainPays(peer)
		if !okd {
			return "timeout"
		}
		if rn.contact(p, rt) {
			rn.shadow[p] = new(big.Int).Add(rn.shadow[p], new(big.Int).SetUint64(amt))
			recorded := false
			for _, c := range calls {
				if c.Name == "PutRetrieveTraffic" && c.Amount.Cmp(new(big.Int).SetUint64(amt)) == 0 && c.Peer.Equal(peer) {
					recorded = true
				}
			}
			if !recorded {
				ctx.Fail("credit-not-recorded", "Credit(%d) did not hand the amount to the settlement layer", amt)
			}
			if err == nil {
				want := 0
				if rn.shadow[p].Cmp(big.NewInt(threshold)) >= 0 {
					want = 1
				}
				switch {
				case pays < want:
					ctx.Fail("pay-missing", "credit left unpaid=%s >= threshold %d but no payment was requested", rn.shadow[p], threshold)
				case pays > want && want == 0:
					ctx.Fail("pay-spurious", "credit left unpaid=%s < threshold %d but %d payment(s) requested", rn.shadow[p], threshold, pays)
				case pays > want:
					ctx.Fail("pay-duplicate", "%d payment requests for one credit", pays)
				}
			}
		}
		rn.checkUnpaid(ctx, p, "credit")
		if err != nil {
			return fmt.Sprintf("err pay=%d", pays)
		}
		return fmt.Sprintf("ok pay=%d", pays)
	case len(op) == 6 && op[0] == "debit":
		amt, ok1 := atoi(op[2])
		rt, ok2 := parseOI(op[3])
		tt, ok3 := parseOI(op[4])
		pe, ok4 := atoi(op[5])
		if !ok1 || !ok2 || !ok3 || !ok4 || pe > 1 {
			return "bad-op"
		}
		rn.sc.Set(func(s *settle.Script) { s.Retrieve, s.Transfer, s.PutTraErr = rt, tt, pe == 1 })
		rn.sc.TakeCalls()
		err := rn.acc.Debit(peer, amt)
		calls := rn.sc.TakeCalls()
		put := "-"
		for _, c := range calls {
			if c.Name == "PutTransferTraffic" {
				put = c.Amount.String()
			}
		}
		res := "ok"
		var bpe *p2p.BlockPeerError
		if errors.As(err, &bpe) {
			res = "blocked"
		} else if err != nil {
			res = "err"
		}
		if rn.contact(p, rt) && tt != nil {
			if tt.Cmp(big.NewInt(tolerance)) >= 0 {
				if put != "-" {
					ctx.Fail("debit-refused-recorded", "unsettled served traffic %s >= tolerance %d but %s was recorded", tt, tolerance, put)
				}
				if res != "blocked" {
					ctx.Fail("debit-not-refused", "unsettled served traffic %s >= tolerance %d but Debit answered %s", tt, tolerance, res)
				}
			} else {
				if put != strconv.FormatUint(amt, 10) {
					ctx.Fail("debit-not-recorded", "served traffic %d below tolerance was not handed to the settlement layer (put=%s)", amt, put)
				}
				if res == "blocked" {
					ctx.Fail("debit-refused-below-tolerance", "unsettled served traffic %s < tolerance %d but the peer was blocked", tt, tolerance)
				}
			}
		}
		rn.checkUnpaid(ctx, p, "debit")
		return fmt.Sprintf("%s put=%s", res, put)
	case len(op) == 4 && op[0] == "notify":
		amt, ok1 := new(big.Int).SetString(op[2], 10)
		rt, ok2 := parseOI(op[3])
		if !ok1 || !ok2 {
			return "bad-op"
		}
		rn.sc.Set(func(s *settle.Script) { s.Retrieve = rt })
		err := rn.acc.NotifyPayment(peer, amt)
		if rn.contact(p, rt) && amt.Sign() >= 0 {
			u := new(big.Int).Sub(rn.shadow[p], amt)
			if u.Sign() < 0 && rn.shadow[p].Sign() >= 0 {
				u = big.NewInt(0)
			}
			rn.shadow[p] = u
		} else if _, ok := rn.shadow[p]; ok {
			delete(rn.shadow, p) // negative payment: outside the property; resynchronise
			if v, ok := rn.measure(peer); ok {
				rn.shadow[p] = v
			}
		}
		rn.checkUnpaid(ctx, p, "notify")
		if err != nil {
			return "err"
		}
		return "ok"
	case len(op) == 3 && op[0] == "unpaid":
		rt, ok := parseOI(op[2])
		if !ok {
			return "bad-op"
		}
		rn.sc.Set(func(s *settle.Script) { s.Retrieve = rt })
		v, okm := rn.measure(peer)
		rn.contact(p, rt)
		if !okm {
			return "err"
		}
		rn.checkUnpaid(ctx, p, "unpaid")
		return v.String()
	case len(op) == 5 && op[0] == "stress":
		k, ok1 := atoi(op[2])
		amt, ok2 := atoi(op[3])
		rt, ok3 := parseOI(op[4])
		if !ok1 || !ok2 || !ok3 || k > 64 {
			return "bad-op"
		}
		rn.sc.Set(func(s *settle.Script) { s.Retrieve, s.PutRetErr, s.Available = rt, false, huge })
		// first contact sequentially (creation consumes rt), then k goroutines each Credit + Reserve
		if err := rn.acc.Reserve(peer, 0); err != nil {
			return "err"
		}
		rn.contact(p, rt)
		var wg sync.WaitGroup
		for g := uint64(0); g < k; g++ {
			wg.Add(2)
			go func() { defer wg.Done(); _ = rn.acc.Credit(context.Background(), peer, amt) }()
			go func() { defer wg.Done(); _ = rn.acc.Reserve(peer, amt) }()
		}
		wg.Wait()
		pays, okd := rn.drainPays(peer)
		if !okd {
			return "timeout"
		}
		before := new(big.Int).Set(rn.shadow[p])
		rn.shadow[p] = new(big.Int).Add(before, new(big.Int).Mul(new(big.Int).SetUint64(k), new(big.Int).SetUint64(amt)))
		rn.checkUnpaid(ctx, p, "stress")
		return fmt.Sprintf("ok pay=%d", pays)
	}
	return "bad-op"
}
