import Driver.Util
import Aurora.Model.Auth
/-! Driver for C35: runs the Auth model on the op lines of the harness.

Annotations (after `|`, `key=value`): `t0`,`t1` wall clock (ns) before/after the real call;
`ct` the base64-decoded token as Go saw it (`bad` = decode error) — cross-checked against the
Lean decoder; `open` the AES-GCM result under the node key (`fail` or hex plaintext, `-` empty;
`na` when there was nothing to open); `rec` the `json.Unmarshal` result (`bad` or
`<rolehex>:<expiry ns>`); the same with prefix `n` for the token a `gen`/`refresh` produced
(`ntok` = the new token string). -/
namespace Driver.C35
open Aurora.Auth

abbrev Slots := List (Nat × Bytes)

def getSlot (s : Slots) (i : Nat) : Option Bytes := s.lookup i
def setSlot (s : Slots) (i : Nat) (b : Bytes) : Slots := (i, b) :: s.filter (fun p => p.1 != i)

def splitAnnot (op : List String) : List String × List String :=
  match op.span (· ≠ "|") with
  | (a, []) => (a, [])
  | (a, _ :: b) => (a, b)

def annot (an : List String) (key : String) : Option String :=
  (an.find? (fun t => t.startsWith (key ++ "="))).map (fun t => (t.drop (key.length + 1)).toString)

def parseRec (s : String) : Option (Option Rec) :=
  if s = "bad" then some none else
  match s.splitOn ":" with
  | [r, e] =>
    match Driver.hexToBytes r, Driver.parseInt e with
    | some r, some e => some (some { role := r, expiry := e })
    | _, _ => none
  | _ => none

/-- the observed oracle for one token: (decoded bytes as Go saw them, open result, parse result) -/
structure Oracle where
  ct : Option Bytes
  opened : Option Bytes
  rc : Option Rec

def readOracle (an : List String) (pfx : String) : Option Oracle := do
  let ct ← annot an (pfx ++ "ct")
  let op ← annot an (pfx ++ "open")
  let rc ← annot an (pfx ++ "rec")
  let ct ← if ct = "bad" then some none else (Driver.hexToBytes ct).map some
  let op ← if op = "fail" ∨ op = "na" then some none else (Driver.hexToBytes op).map some
  let rc ← parseRec rc
  some { ct := ct, opened := op, rc := rc }

/-- the environment of one op: Lean base64 decoder, observed AEAD/JSON results -/
def envOf (o : Oracle) : Env :=
  { enc := id, dec := b64decode, aseal := fun _ _ => [], marshal := fun _ => [],
    aopen := fun _ _ => o.opened, parse := fun _ => o.rc }

def errStr : Err → String
  | .b64 => "err:b64" | .short => "err:short" | .open_ => "err:open"
  | .json => "err:json" | .expired => "err:expired" | .dur => "err:dur"

/-- the observed oracle must be about the bytes the model decodes -/
def oracleOk (tok : Bytes) (o : Oracle) : Bool := b64decode tok == o.ct

def flipBit (b : Bytes) (i : Nat) : Bytes :=
  if b.isEmpty then b else
  let i := i % (b.length * 8)
  b.set (i / 8) ((b.getD (i / 8) 0) ^^^ (UInt8.ofNat (1 <<< (i % 8))))

def step (st : Slots) (op : List String) : Slots × String :=
  let (args, an) := splitAnnot op
  match args with
  | ["sleep", ms] => match Driver.parseNat ms with
    | some _ => (st, "ok")
    | none => (st, "bad-op")
  | ["raw", s, h] =>
    match Driver.parseNat s, Driver.hexToBytes h with
    | some s, some b => (setSlot st s b, "ok")
    | _, _ => (st, "bad-op")
  | ["mint", s, _, p, n] =>
    match Driver.parseNat s, Driver.hexToBytes p, Driver.hexToBytes n with
    | some s, some _, some n =>
      if n.length ≠ 12 then (st, "bad-op") else
      match (annot an "tok").bind Driver.hexToBytes with
      | some t => (setSlot st s t, "ok")
      | none => (st, "bad-op")
    | _, _, _ => (st, "bad-op")
  | ["mintrel", s, _, r, off, n] =>
    match Driver.parseNat s, Driver.hexToBytes r, Driver.parseInt off, Driver.hexToBytes n with
    | some s, some _, some _, some n =>
      if n.length ≠ 12 then (st, "bad-op") else
      match (annot an "tok").bind Driver.hexToBytes with
      | some t => (setSlot st s t, "ok")
      | none => (st, "bad-op")
    | _, _, _, _ => (st, "bad-op")
  | ["trunc", s, d, n] =>
    match Driver.parseNat s, Driver.parseNat d, Driver.parseNat n with
    | some s, some d, some n => match getSlot st s with
      | none => (st, "noslot")
      | some b => let r := b.take n; (setSlot st d r, s!"ok {r.length}")
    | _, _, _ => (st, "bad-op")
  | ["flip", s, d, n] =>
    match Driver.parseNat s, Driver.parseNat d, Driver.parseNat n with
    | some s, some d, some n => match getSlot st s with
      | none => (st, "noslot")
      | some b => let r := flipBit b n; (setSlot st d r, s!"ok {r.length}")
    | _, _, _ => (st, "bad-op")
  | ["app", s, d, h] =>
    match Driver.parseNat s, Driver.parseNat d, Driver.hexToBytes h with
    | some s, some d, some x => match getSlot st s with
      | none => (st, "noslot")
      | some b => let r := b ++ x; (setSlot st d r, s!"ok {r.length}")
    | _, _, _ => (st, "bad-op")
  | ["gen", s, r, dur] =>
    match Driver.parseNat s, Driver.hexToBytes r, Driver.parseInt dur with
    | some s, some role, some dur =>
      if dur = 0 then (st, "err:dur") else
      match (annot an "ntok").bind Driver.hexToBytes, readOracle an "n",
            (annot an "t0").bind Driver.parseInt, (annot an "t1").bind Driver.parseInt with
      | some t, some o, some t0, some t1 =>
        -- admissibility of what the code produced: it reads back (under the node key) as the
        -- requested role with an expiry of now + dur for a clock read inside the call
        if !oracleOk t o then (st, "oracle-mismatch") else
        match readToken (envOf o) t with
        | .ok rc =>
          if rc.role = role ∧ t0 + dur * second ≤ rc.expiry ∧ rc.expiry ≤ t1 + dur * second
          then (setSlot st s t, "ok") else (st, "inadmissible")
        | _ => (st, "inadmissible")
      | _, _, _, _ => (st, "bad-op")
    | _, _, _ => (st, "bad-op")
  | ["enforce", s, o, a] | ["http", s, o, a] =>
    match Driver.parseNat s, Driver.hexToBytes o, Driver.hexToBytes a with
    | some s, some obj, some act => match getSlot st s with
      | none => (st, "noslot")
      | some tok =>
        match readOracle an "", (annot an "t0").bind Driver.parseInt with
        | some orc, some t0 =>
          if !oracleOk tok orc then (st, "oracle-mismatch") else
          if args.head? = some "http" then
            match handlerStatus (envOf orc) policy t0 tok obj act with
            | 0 => (st, "panic")
            | n => (st, s!"{n}")
          else
          match enforce (envOf orc) policy t0 tok obj act with
          | .ok true => (st, "allow")
          | .ok false => (st, "deny")
          | .err e => (st, errStr e)
          | .panic => (st, "panic")
        | _, _ => (st, "bad-op")
    | _, _, _ => (st, "bad-op")
  | ["refresh", s, d, dur] =>
    match Driver.parseNat s, Driver.parseNat d, Driver.parseInt dur with
    | some s, some d, some dur => match getSlot st s with
      | none => (st, "noslot")
      | some tok =>
        if dur = 0 then (st, "err:dur") else
        match readOracle an "", (annot an "t0").bind Driver.parseInt with
        | some orc, some t0 =>
          if !oracleOk tok orc then (st, "oracle-mismatch") else
          -- outcome class from the model (nonce and new clock read are the code's choice)
          match refresh (envOf orc) t0 t0 tok dur [] with
          | .err e => (st, errStr e)
          | .panic => (st, "panic")
          | .ok _ =>
            match readToken (envOf orc) tok, (annot an "ntok").bind Driver.hexToBytes, readOracle an "n",
                  (annot an "t1").bind Driver.parseInt with
            | .ok old, some nt, some no, some t1 =>
              if !oracleOk nt no then (st, "oracle-mismatch") else
              match readToken (envOf no) nt with
              | .ok rc =>
                if rc.role = old.role ∧ t0 + dur * second ≤ rc.expiry ∧ rc.expiry ≤ t1 + dur * second
                then (setSlot st d nt, "ok") else (st, "inadmissible")
              | _ => (st, "inadmissible")
            | _, _, _, _ => (st, "inadmissible")
        | _, _ => (st, "bad-op")
    | _, _, _ => (st, "bad-op")
  | _ => (st, "bad-op")

def handler : Driver.Handler := { σ := Slots, init := [], step := step }

end Driver.C35
