import Aurora.Model.Handlers
/-! Helper lemmas for the C37 theorems (core Lean only). -/
namespace Aurora.Handlers

/-- "did not panic" -/
def NoPanic {α : Type} (x : M α) : Prop := ∃ a, x = .ok a

theorem noPanic_isOk {α : Type} {x : M α} (h : NoPanic x) : x.isOk = true := by
  rcases h with ⟨a, rfl⟩; rfl

theorem each_ok {α : Type} (l : List α) (f : α → M Unit) (h : ∀ a ∈ l, f a = .ok ()) :
    each l f = .ok () := by
  induction l with
  | nil => rfl
  | cons a r ih =>
    have ha : f a = .ok () := h a (by simp)
    have hr : each r f = .ok () := ih (fun b hb => h b (by simp [hb]))
    simp only [each, ha, hr, bind, Except.bind]

theorem idx_zero_ok {α : Type} (l : List α) (h : 0 < l.length) : ∃ a, idx l 0 = .ok a := ⟨_, idx_ok l 0 h⟩

theorem bvGet_ok (v : BV) (i : Nat) (h : i / 8 < v.b.length) : ∃ r, bvGet v i = .ok r := by
  unfold bvGet
  rw [idx_ok v.b (i / 8) h]
  exact ⟨_, rfl⟩

theorem bvFromBytes_some {b : Bytes} {l : Nat} {v : BV} (h : bvFromBytes b l = some v) :
    v.len = l ∧ v.b = b ∧ 1 ≤ l ∧ l ≤ b.length * 8 := by
  unfold bvFromBytes at h
  split at h
  · cases h
  · rename_i hc
    cases h
    refine ⟨rfl, rfl, ?_, ?_⟩ <;> omega

theorem bvFromBytes_ok {b : Bytes} {l : Nat} (h1 : 1 ≤ l) (h2 : l ≤ b.length * 8) :
    bvFromBytes b l = some ⟨l, b⟩ := by
  unfold bvFromBytes
  have : ¬ (l = 0 ∨ b.length * 8 < l) := by omega
  simp [this]

theorem bvSetBytes_some {v n : BV} {m : Bytes} (h : bvSetBytes v m = some n) :
    n.len = v.len ∧ n.b.length = v.b.length := by
  unfold bvSetBytes at h
  split at h
  · cases h
  · rename_i hc
    cases h
    simp only [List.length_zipWith, true_and]
    omega

theorem proximity_go_ok (one other : Bytes) (b : Nat) (hb1 : b ≤ one.length) (hb2 : b ≤ other.length) :
    ∀ fuel i, ∃ r, proximity.go one other b i fuel = .ok r := by
  intro fuel
  induction fuel with
  | zero => intro i; exact ⟨_, rfl⟩
  | succ n ih =>
    intro i
    unfold proximity.go
    by_cases hi : i < b
    · simp only [hi, if_true]
      rw [idx_ok one i (by omega), idx_ok other i (by omega)]
      simp only [bind, Except.bind]
      split
      · exact ⟨_, rfl⟩
      · exact ih (i + 1)
    · simp only [hi, if_false]; exact ⟨_, rfl⟩

theorem proximity_ok (one other : Bytes) : ∃ r, proximity one other = .ok r := by
  unfold proximity
  apply proximity_go_ok <;> omega

end Aurora.Handlers
