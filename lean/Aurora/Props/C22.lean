import Aurora.Lemmas.Depth
import Aurora.Model.Kad
/-!
# C22 — Neighbourhood depth is consistent with the peer set

Theorems about `Aurora.Topo.recalcDepth` (Model/Depth.lean), the transcription of
`kademlia.recalcDepth` after the two `fix:` commits.  `bins : List (List Bool)` is the connected
`PSlice` (bin by bin, slice order) with one reachability flag per peer; all statements hold for
every bin list (any number of bins, any sizes), every radius and every threshold record `p`.
-/
namespace Aurora.Props.C22
open Aurora.Topo

/-- clause "never exceeds the radius" -/
theorem C22_depth_le_radius (p : Params) (bins : Bins) (radius : Nat) :
    recalcDepth p bins radius ≤ radius :=
  recalcDepth_le_radius p bins radius

/-- clause "is zero when at most three (`nnLowWatermark`) peers are connected" -/
theorem C22_depth_zero_small (p : Params) (bins : Bins) (radius : Nat)
    (h : binsLength bins ≤ p.nnLow) : recalcDepth p bins radius = 0 := by
  unfold recalcDepth; simp [h]

/-- clause "when positive leaves at least three reachable peers at or beyond it":
`reachFrom bins d` counts the reachable peers in bins `≥ d`. -/
theorem C22_depth_leaves_nn (p : Params) (bins : Bins) (radius : Nat)
    (h : 0 < recalcDepth p bins radius) :
    p.nnLow ≤ reachFrom bins (recalcDepth p bins radius) := by
  have hc := recalcDepth_le_cand p bins radius
  have := candOf_spec p.nnLow bins (by omega)
  exact Nat.le_trans this (reachFrom_anti bins hc)

/-- clause "never exceeds the shallowest empty bin" (stated for every empty bin `e`) -/
theorem C22_depth_le_empty_bin (p : Params) (bins : Bins) (radius : Nat) (e : Nat)
    (he : e < bins.length) (hb : bins.getD e [] = []) : recalcDepth p bins radius ≤ e :=
  Nat.le_trans (recalcDepth_le_su p bins radius) (suOf_le_empty p.quick bins e he hb)

/-- clause "every shallower bin holds at least the quick-saturation number of reachable peers"
(this is the clause the unchanged code violated; `reachIn bins b` = reachable peers of bin `b`) -/
theorem C22_shallower_bins_saturated (p : Params) (bins : Bins) (radius : Nat) (b : Nat)
    (hb : b < recalcDepth p bins radius) : p.quick ≤ reachIn bins b :=
  suOf_saturated p.quick bins b (Nat.lt_of_lt_of_le hb (recalcDepth_le_su p bins radius))

/-- clause "depends only on the current set": the depth is a function of the per-bin
(reachable, total) counts -/
theorem C22_depth_depends_on_counts (p : Params) (bins bins' : Bins) (radius : Nat)
    (h : bins.map binSummary = bins'.map binSummary) :
    recalcDepth p bins radius = recalcDepth p bins' radius :=
  recalcDepth_congr p bins bins' radius h

/-- clause "not on the order of connections": connection / disconnection order only decides the
slice order inside each bin; any bin-wise permutation gives the same depth -/
theorem C22_depth_order_independent (p : Params) (bins bins' : Bins) (radius : Nat)
    (h : BinsPerm bins bins') : recalcDepth p bins radius = recalcDepth p bins' radius :=
  recalcDepth_congr p bins bins' radius (summary_of_perm bins bins' h)

/-- the thresholds the node really runs with (source initialisers regenerated from /repo, then
`kademlia.New`'s derivation from `Options.BinMaxPeers`): the watermark is the "three" of the
statement and the quick-saturation number is positive, so the saturation clause says something. -/
theorem C22_thresholds (binMax : Nat) :
    (Params.default.withBinMax binMax).nnLow = 3 ∧ 0 < (Params.default.withBinMax binMax).quick := by
  have hn : Params.default.nnLow = 3 := by decide
  have hq : 0 < Params.default.quick := by decide
  unfold Params.withBinMax
  split
  · refine ⟨hn, ?_⟩
    show 0 < _ / 5
    split <;> split <;> omega
  · exact ⟨hn, hq⟩

/-! ### histories: the stored depth is always the depth of the current set -/

/-- the stored depth is `recalcDepth` of the current connected set, reachability and radius -/
def DepthCurrent (k : Kad) : Prop := k.depth = recalcDepth k.params (k.flags k.connected) k.radius

/-- every event handler of the Kad model (Model/Kad.lean: `AddPeers`, `Connected` in all its
branches, `Outbound`, `Disconnected`, `DisconnectForce`, `RefreshProtectPeer`, `Reachable` — for
every status, this is the second `fix:` commit —, `UpdateReachability`, `SetRadius`) leaves the
stored depth equal to `recalcDepth` of the *current* peer set, reachability and radius -/
theorem C22_depth_current_step (k : Kad) (ev : Ev) (h : DepthCurrent k) : DepthCurrent (k.apply ev).1 := by
  have hr : ∀ k' : Kad, DepthCurrent k'.recalc := fun _ => rfl
  cases ev with
  | add as => exact h
  | conn a f kick =>
    simp only [Kad.apply]
    unfold Kad.connectedEv
    simp only []
    split
    · split
      · split
        · exact h
        · split
          · split
            · exact hr _
            · exact h
          · exact h
      · split
        · exact h
        · exact hr _
    · exact hr _
  | out a b =>
    cases b with
    | true => exact h
    | false => exact hr _
  | disc a => exact hr _
  | force a => exact hr _
  | protect as => exact h
  | reach a s => exact hr _
  | self s =>
    simp only [Kad.apply]; unfold Kad.updateReachability; split
    · exact h
    · exact h
  | radius r =>
    simp only [Kad.apply]; unfold Kad.setRadius; split
    · exact h
    · exact hr _

/-- a fresh Kad has depth 0 = `recalcDepth` of the empty set -/
theorem C22_depth_current_new (base : Addr) (binMax : Nat) (boot : Bool) (static : List Addr) :
    DepthCurrent (Kad.new base binMax boot static) := by
  have hz : ∀ k : Kad, binsLength (k.flags PSlice.new) = 0 := by
    intro k; simp [Kad.flags, PSlice.new, binsLength]
  unfold DepthCurrent
  show 0 = recalcDepth _ (Kad.flags _ PSlice.new) _
  unfold recalcDepth
  rw [hz]; simp

/-- clause "… not on the order of connections", history form: after *any* event history from a
fresh Kad, `NeighborhoodDepth()` is `recalcDepth` of the current connected set, reachability and
radius — so all clauses above hold for it, and two histories that end in the same set (whatever
the order) end with the same depth. -/
theorem C22_depth_current (base : Addr) (binMax : Nat) (boot : Bool) (static : List Addr) (evs : List Ev) :
    DepthCurrent (evs.foldl (fun k ev => (k.apply ev).1) (Kad.new base binMax boot static)) := by
  have gen : ∀ (evs : List Ev) (k : Kad), DepthCurrent k →
      DepthCurrent (evs.foldl (fun k ev => (k.apply ev).1) k) := by
    intro evs
    induction evs with
    | nil => intro k h; exact h
    | cons ev evs ih => intro k h; exact ih _ (C22_depth_current_step k ev h)
  exact gen evs _ (C22_depth_current_new base binMax boot static)

/-! ### non-vacuity / regression examples (thresholds 3 / 4) -/

private def r (n : Nat) : List Bool := List.replicate n true
private def u (n : Nat) : List Bool := List.replicate n false

/-- DESIGN §7: bins 0:4 reachable, 1:1 unreachable, 2:4 reachable, 3:3 reachable.  The unchanged
code answered 3; bin 1 holds no reachable peer, so the depth is 1. -/
example : recalcDepth Params.default [r 4, u 1, r 4, r 3] 31 = 1 := by decide
example : recalcDepth Params.default [r 4, r 4, r 4, r 3] 31 = 3 := by decide
example : recalcDepth Params.default [r 4, r 4, r 4, r 3] 2 = 2 := by decide
example : recalcDepth Params.default [r 4, r 4, [], r 3] 31 = 2 := by decide
example : recalcDepth Params.default [r 1, r 1, r 1] 31 = 0 := by decide
/-- hypotheses of `C22_depth_leaves_nn` / `C22_shallower_bins_saturated` are satisfiable -/
example : 0 < recalcDepth Params.default [r 4, r 4 ++ u 2, r 2 ++ u 1 ++ r 1] 31 := by decide
/-- hypothesis of `C22_depth_le_empty_bin` -/
example : (2 : Nat) < [r 4, r 4, [], r 3].length ∧ [r 4, r 4, [], r 3].getD 2 [] = [] := by decide
/-- hypothesis of `C22_depth_order_independent` -/
example : BinsPerm [[true, false], [false, true, true]] [[false, true], [true, true, false]] :=
  .cons (List.Perm.swap _ _ _) (.cons (by decide) .nil)

end Aurora.Props.C22
