import Aurora.Model.DecryptStore
/-! Helper lemmas for Props/C08: the segment-wise XOR as one XOR with a keystream, involution,
    and the length loop of the decrypting store in `Nat` and `UInt64`. -/
namespace Aurora.Encryption
open Aurora.Bmt

variable (H : Bytes → Bytes)

/-! ## zipWith facts -/

theorem zipWith_take_right {α β γ : Type} (f : α → β → γ) :
    ∀ (a : List α) (b : List β) (n : Nat), a.length ≤ n → List.zipWith f a b = List.zipWith f a (b.take n)
  | [], _, _, _ => by simp
  | _ :: _, [], _, _ => by simp
  | x :: a, y :: b, n, h => by
    cases n with
    | zero => simp at h
    | succ n =>
      simp only [List.zipWith_cons_cons, List.take_succ_cons]
      rw [zipWith_take_right f a b n (by simpa using h)]

theorem zipWith_append_right_short {α β γ : Type} (f : α → β → γ) (a : List α) (b1 b2 : List β)
    (h : a.length ≤ b1.length) : List.zipWith f a (b1 ++ b2) = List.zipWith f a b1 := by
  rw [zipWith_take_right f a (b1 ++ b2) b1.length h, List.take_left' rfl]

theorem xor_xor_cancel (a b : UInt8) : (a ^^^ b) ^^^ b = a := by
  rw [UInt8.xor_assoc, UInt8.xor_self, UInt8.xor_zero]

/-- XOR with the same key stream twice is the identity (key at least as long as the data) -/
theorem xorBytes_involutive : ∀ (x k : Bytes), x.length ≤ k.length → xorBytes (xorBytes x k) k = x
  | [], _, _ => by simp [xorBytes]
  | _ :: _, [], h => by simp at h
  | a :: x, b :: k, h => by
    simp only [xorBytes, List.zipWith_cons_cons, xor_xor_cancel]
    congr 1
    exact xorBytes_involutive x k (by simpa using h)

theorem xorBytes_length (x k : Bytes) (h : x.length ≤ k.length) : (xorBytes x k).length = x.length := by
  simp [xorBytes, List.length_zipWith]; omega

/-! ## the keystream -/

/-- `n` segments of `w` keystream bytes starting at segment index `idx` -/
def ks (key : Bytes) (initCtr w : Nat) : Nat → Nat → Bytes
  | 0, _ => []
  | n + 1, idx => (segmentKey H key initCtr idx).take w ++ ks key initCtr w n (idx + 1)

theorem ks_length (key : Bytes) (initCtr w : Nat) (hk : ∀ i, w ≤ (segmentKey H key initCtr i).length) :
    ∀ n idx, (ks H key initCtr w n idx).length = n * w
  | 0, _ => by simp [ks]
  | n + 1, idx => by
    simp only [ks, List.length_append, List.length_take, ks_length key initCtr w hk n (idx + 1)]
    have := hk idx
    rw [Nat.succ_mul]; omega

theorem ks_add (key : Bytes) (initCtr w : Nat) : ∀ n m idx,
    ks H key initCtr w (n + m) idx = ks H key initCtr w n idx ++ ks H key initCtr w m (idx + n)
  | 0, m, idx => by simp [ks]
  | n + 1, m, idx => by
    rw [show n + 1 + m = (n + m) + 1 by omega]
    simp only [ks, ks_add key initCtr w n m (idx + 1), List.append_assoc]
    rw [show idx + 1 + n = idx + (n + 1) by omega]

/-- segment-wise transformation = one XOR with the keystream -/
theorem xorSegs_eq (key : Bytes) (initCtr w : Nat) (hk : ∀ i, w ≤ (segmentKey H key initCtr i).length) :
    ∀ n idx (l : Bytes), xorSegs H key initCtr w n idx l = xorBytes l (ks H key initCtr w n idx)
  | 0, _, l => by simp [xorSegs, ks, xorBytes]
  | n + 1, idx, l => by
    simp only [xorSegs, ks]
    rw [xorSegs_eq key initCtr w hk n (idx + 1)]
    have hkl : ((segmentKey H key initCtr idx).take w).length = w := by
      rw [List.length_take]; have := hk idx; omega
    by_cases hl : w ≤ l.length
    · conv => rhs; rw [← List.take_append_drop w l]
      unfold xorBytes
      rw [List.zipWith_append (by rw [List.length_take, hkl]; omega)]
      congr 1
      exact zipWith_take_right _ _ _ w (by rw [List.length_take]; omega)
    · have hd : l.drop w = [] := List.drop_eq_nil_of_le (by omega)
      have ht : l.take w = l := List.take_of_length_le (by omega)
      rw [hd, ht]
      unfold xorBytes
      rw [zipWith_append_right_short _ _ _ _ (by rw [hkl]; omega)]
      simp only [List.zipWith_nil_left, List.append_nil]
      exact zipWith_take_right _ _ _ w (by omega)

theorem nsegs_mul_ge (w n : Nat) (hw : 0 < w) : n ≤ nsegs w n * w := by
  unfold nsegs
  have := Nat.lt_mul_div_succ (n + w - 1) hw
  rw [Nat.mul_succ, Nat.mul_comm] at this
  omega

theorem nsegs_mono (w a b : Nat) (h : a ≤ b) : nsegs w a ≤ nsegs w b := by
  unfold nsegs
  exact Nat.div_le_div_right (by omega)

end Aurora.Encryption

namespace Aurora.DecryptStore

/-! ## the length loop -/

/-- one iteration of the loop with the repository's constants -/
def step (l : UInt64) : UInt64 := (l + 262143) / 262144 * 64

theorem step_toNat_le (l : UInt64) : (step l).toNat ≤ l.toNat / 4096 + 64 := by
  unfold step
  rw [UInt64.toNat_mul, UInt64.toNat_div, UInt64.toNat_add]
  have := l.toNat_lt
  simp
  omega

theorem step_toNat_of_lt (l : UInt64) (h : l.toNat < 2 ^ 64 - 262144) :
    (step l).toNat = (l.toNat + 262143) / 262144 * 64 := by
  unfold step
  rw [UInt64.toNat_mul, UInt64.toNat_div, UInt64.toNat_add]
  simp
  omega

theorem loop_succ (f : Nat) (l : UInt64) :
    lengthLoopFuel 262144 64 (f + 1) l = if l > 262144 then lengthLoopFuel 262144 64 f (step l) else l := rfl

theorem loop_done (f : Nat) (l : UInt64) (h : ¬ l > 262144) : lengthLoopFuel 262144 64 f l = l := by
  cases f with
  | zero => rfl
  | succ f => rw [loop_succ]; simp [h]

/-- values for which `f` iterations certainly suffice -/
def bnd : Nat → Nat
  | 0 => 262144
  | f + 1 => 4096 * (bnd f - 64)

theorem bnd_ge : ∀ f, 262144 ≤ bnd f
  | 0 => by simp [bnd]
  | f + 1 => by have := bnd_ge f; simp only [bnd]; omega

theorem loop_fuel_stable : ∀ (f g : Nat) (l : UInt64), l.toNat ≤ bnd f →
    lengthLoopFuel 262144 64 (f + g) l = lengthLoopFuel 262144 64 f l
  | 0, g, l, h => by
    have : ¬ l > 262144 := by
      rw [gt_iff_lt, UInt64.lt_iff_toNat_lt]; simp [bnd] at h ⊢; omega
    rw [loop_done _ _ this, loop_done _ _ this]
  | f + 1, g, l, h => by
    rw [show f + 1 + g = (f + g) + 1 by omega, loop_succ, loop_succ]
    by_cases hl : l > 262144
    · simp only [hl, if_true]
      apply loop_fuel_stable f g
      have := step_toNat_le l
      have := bnd_ge f
      simp only [bnd] at h
      omega
    · simp [hl]

/-- if one more unit of fuel does not change the result, the loop's exit test holds for it -/
theorem loop_exit : ∀ (f : Nat) (l : UInt64),
    lengthLoopFuel 262144 64 (f + 1) l = lengthLoopFuel 262144 64 f l →
    ¬ (lengthLoopFuel 262144 64 f l > 262144)
  | 0, l, h => by
    rw [loop_succ] at h
    show ¬ l > 262144
    intro hl
    simp only [hl, if_true] at h
    have h1 : (step l).toNat = l.toNat := by
      have : lengthLoopFuel 262144 64 0 (step l) = step l := rfl
      rw [this] at h
      have : lengthLoopFuel 262144 64 0 l = l := rfl
      rw [this] at h
      rw [h]
    have h2 := step_toNat_le l
    have h3 : l.toNat > 262144 := by
      have := (UInt64.lt_iff_toNat_lt (a := 262144) (b := l)).mp hl
      simpa using this
    omega
  | f + 1, l, h => by
    have e1 : lengthLoopFuel 262144 64 (f + 1 + 1) l =
        if l > 262144 then lengthLoopFuel 262144 64 (f + 1) (step l) else l := loop_succ (f + 1) l
    have e2 : lengthLoopFuel 262144 64 (f + 1) l =
        if l > 262144 then lengthLoopFuel 262144 64 f (step l) else l := loop_succ f l
    rw [e1, e2] at h
    rw [e2]
    by_cases hl : l > 262144
    · simp only [hl, if_true] at h ⊢
      exact loop_exit f (step l) h
    · simp [hl]

/-- the `Nat` version of the loop -/
def natLoop : Nat → Nat → Nat
  | 0, s => s
  | f + 1, s => if s > 262144 then natLoop f ((s + 262143) / 262144 * 64) else s

theorem natLoop_done (f s : Nat) (h : s ≤ 262144) : natLoop f s = s := by
  cases f with
  | zero => rfl
  | succ f => simp [natLoop]; omega

theorem loop_eq_natLoop : ∀ (f : Nat) (l : UInt64), l.toNat < 2 ^ 63 →
    (lengthLoopFuel 262144 64 f l).toNat = natLoop f l.toNat
  | 0, _, _ => rfl
  | f + 1, l, h => by
    rw [loop_succ]
    simp only [natLoop]
    have hc : (l > 262144) ↔ l.toNat > 262144 := by
      rw [gt_iff_lt, UInt64.lt_iff_toNat_lt]; simp
    by_cases hl : l > 262144
    · have hl' := hc.mp hl
      simp only [hl, hl', if_true]
      have hs := step_toNat_of_lt l (by omega)
      rw [loop_eq_natLoop f (step l) (by rw [hs]; omega), hs]
    · have hl' : ¬ l.toNat > 262144 := fun h' => hl (hc.mpr h')
      simp [hl, hl']

/-- `full 262144 4096 h = 64 * 4096^(h+1)` -/
theorem full_eq (h : Nat) : full 262144 4096 h = 64 * 4096 ^ (h + 1) := by
  unfold full
  rw [Nat.pow_succ]
  generalize 4096 ^ h = X
  omega

/-- the loop on the span of a well-formed intermediate chunk (stated with `G = 4096^(h+1)`) -/
theorem natLoop_node : ∀ (h f k s : Nat), 2 ≤ k → k ≤ 4096 →
    (k - 1) * (64 * 4096 ^ (h + 1)) < s → s ≤ k * (64 * 4096 ^ (h + 1)) → h + 2 ≤ f →
    natLoop f s = 64 * k
  | 0, f, k, s, h2, hB, hlo, hhi, hf => by
    obtain ⟨f', rfl⟩ : ∃ f', f = f' + 1 := ⟨f - 1, by omega⟩
    simp only [Nat.zero_add, Nat.pow_one] at hlo hhi
    have hs : s > 262144 := by omega
    simp only [natLoop, hs, if_true]
    have : (s + 262143) / 262144 * 64 = 64 * k := by omega
    rw [this]
    exact natLoop_done _ _ (by omega)
  | h + 1, f, k, s, h2, hB, hlo, hhi, hf => by
    obtain ⟨f', rfl⟩ : ∃ f', f = f' + 1 := ⟨f - 1, by omega⟩
    have hp : (4096 : Nat) ^ (h + 1 + 1) = 4096 ^ (h + 1) * 4096 := by rw [Nat.pow_succ]
    have hG : 0 < 4096 ^ (h + 1) := Nat.pow_pos (by omega)
    rw [hp] at hlo hhi
    generalize hGd : 4096 ^ (h + 1) = G at hlo hhi hG ⊢
    have e1 : (k - 1) * (64 * (G * 4096)) = 262144 * ((k - 1) * G) := by
      rw [show 64 * (G * 4096) = 262144 * G by omega, Nat.mul_left_comm]
    have e2 : k * (64 * (G * 4096)) = 262144 * (k * G) := by
      rw [show 64 * (G * 4096) = 262144 * G by omega, Nat.mul_left_comm]
    have e3 : (k - 1) * (64 * G) = 64 * ((k - 1) * G) := Nat.mul_left_comm _ _ _
    have e4 : k * (64 * G) = 64 * (k * G) := Nat.mul_left_comm _ _ _
    rw [e1] at hlo; rw [e2] at hhi
    have ha : 1 ≤ (k - 1) * G := Nat.mul_pos (by omega) hG
    generalize (k - 1) * G = a at *
    generalize k * G = b at *
    have hs : s > 262144 := by omega
    simp only [natLoop, hs, if_true]
    apply natLoop_node h f' k _ h2 hB
    · rw [hGd, e3]; omega
    · rw [hGd, e4]; omega
    · omega

end Aurora.DecryptStore
