import Driver.Util
import Aurora.Model.Traffic
/-! Driver for C31: runs the paying-side traffic model on the op lines of the harness. -/
namespace Driver.C31
open Aurora.Traffic

/-- number of chain-address ids the harness uses -/
def nAddr : Nat := 8
def nPeer : Nat := 6

def statusStr : PayStatus → String
  | .unknown => "unknown"
  | .below => "below"
  | .insufficient => "insufficient"
  | .deliverFail => "deliver-fail"
  | .ok => "ok"

def optStr : Option Int → String
  | none => "-"
  | some v => toString v

def step (st : St) (op : List String) : St × String :=
  match op with
  | ["reg", p, a] =>
    match Driver.parseNat p, Driver.parseNat a with
    | some p, some a => if p < nPeer ∧ a < nAddr then (register st p a, "ok") else (st, "bad-op")
    | _, _ => (st, "bad-op")
  | ["credit", p, amt] =>
    match Driver.parseNat p, Driver.parseNat amt with
    | some p, some amt =>
      if p < nPeer then
        match credit st p amt with
        | some st' => (st', "ok")
        | none => (st, "nocheque")
      else (st, "bad-op")
    | _, _ => (st, "bad-op")
  | ["pay", p, thr, fail] =>
    match Driver.parseNat p, Driver.parseInt thr, Driver.parseNat fail with
    | some p, some thr, some f =>
      if p < nPeer ∧ f ≤ 1 then
        let (st', o) := pay nAddr st p thr (f == 1)
        (st', s!"{statusStr o.status} emit={optStr o.emit} notify={optStr o.notify}")
      else (st, "bad-op")
    | _, _, _ => (st, "bad-op")
  | ["chain", "bal", v] =>
    match Driver.parseNat v with
    | some v => ({ st with cBal := v }, "ok")
    | none => (st, "bad-op")
  | ["chain", "cashed", a, v] =>
    match Driver.parseNat a, Driver.parseNat v with
    | some a, some v => if a < nAddr then (Aurora.Traffic.step nAddr st (.chainCashed a v), "ok") else (st, "bad-op")
    | _, _ => (st, "bad-op")
  | ["chain", "fail", b] =>
    match Driver.parseNat b with
    | some b => if b ≤ 1 then ({ st with cFail := b == 1 }, "ok") else (st, "bad-op")
    | none => (st, "bad-op")
  | ["init"] => (refresh st, "ok")
  | ["restart"] => (restart st, "ok")
  | ["cashout", p, s] =>
    match Driver.parseNat p with
    | some p =>
      let status : Option (Option Nat) := if s = "e" then some none else (Driver.parseNat s).map some
      match status with
      | some status =>
        if p < nPeer then
          match cashout st p status with
          | some st' => (st', "ok")
          | none => (st, "nocheque")
        else (st, "bad-op")
      | none => (st, "bad-op")
    | none => (st, "bad-op")
  | ["avail"] => (st, toString (avail nAddr st))
  | ["info"] => (st, s!"{st.bal} {infoAvail nAddr st} {infoSent nAddr st}")
  | ["lastsent", p] =>
    match Driver.parseNat p with
    | some p =>
      if p < nPeer then
        match st.fwd p with
        | none => (st, "nocheque")
        | some a => match st.sLast a with
          | none => (st, "nocheque")
          | some c => (st, toString c)
      else (st, "bad-op")
    | none => (st, "bad-op")
  | ["owed", p] =>
    match Driver.parseNat p with
    | some p =>
      if p < nPeer then
        match st.fwd p with
        | none => (st, "nocheque")
        | some a => (st, s!"{st.tot a} {st.tot a - st.chq a}")
      else (st, "bad-op")
    | none => (st, "bad-op")
  | _ => (st, "bad-op")

def handler : Driver.Handler := { σ := St, init := init, step := step }

end Driver.C31
