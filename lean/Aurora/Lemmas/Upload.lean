import Aurora.Lemmas.Feeder
import Aurora.Lemmas.HashTrie
/-!
The plain upload pipeline (`HashTrie.upload`): for every segmentation it feeds exactly the data
chunks of the concatenated bytes to the hash-trie writer, whose `Sum` is the bottom-up root.
-/
namespace Aurora.HashTrie
open Aurora.Bmt (Bytes)
open Aurora.Tree

section
variable (cref : Bytes → Bytes → Bytes) (C B : Nat)

/-- chunks flushed by the `Write`s of `segs` starting from feeder state `f` -/
def chunksOf (f : Aurora.Feeder.State) : List Bytes → List Bytes
  | [] => []
  | b :: t => (Aurora.Feeder.write C f b).2.1 ++ chunksOf (Aurora.Feeder.write C f b).1 t

def finalF (f : Aurora.Feeder.State) : List Bytes → Aurora.Feeder.State
  | [] => f
  | b :: t => finalF (Aurora.Feeder.write C f b).1 t

theorem runWrites_eq (segs : List Bytes) : ∀ (f : Aurora.Feeder.State) (out : List Bytes),
    Aurora.Feeder.runWrites C segs f out = (finalF C f segs, out ++ chunksOf C f segs) := by
  induction segs with
  | nil => intro f out; simp [Aurora.Feeder.runWrites, finalF, chunksOf]
  | cons b t ih =>
    intro f out
    have := ih (Aurora.Feeder.write C f b).1 (out ++ (Aurora.Feeder.write C f b).2.1)
    simp only [Aurora.Feeder.runWrites, List.foldl_cons] at this ⊢
    rw [this]; simp [finalF, chunksOf]

def feedAll (u : Upload) (ps : List Bytes) : Upload := ps.foldl (feedChunk cref B) u

theorem feedChunk_feeder (u : Upload) (f : Aurora.Feeder.State) (p : Bytes) :
    feedChunk cref B { u with feeder := f } p = { feedChunk cref B u p with feeder := f } := by
  unfold feedChunk
  by_cases hf : u.failed
  · simp [hf]
  · simp only [hf, Bool.false_eq_true, ↓reduceIte]
    split <;> rfl

theorem feedAll_feeder (ps : List Bytes) : ∀ (u : Upload) (f : Aurora.Feeder.State),
    feedAll cref B { u with feeder := f } ps = { feedAll cref B u ps with feeder := f } := by
  induction ps with
  | nil => intro u f; rfl
  | cons p t ih =>
    intro u f
    simp only [feedAll, List.foldl_cons] at ih ⊢
    rw [feedChunk_feeder, ih]

theorem feedAll_append (u : Upload) (a b : List Bytes) :
    feedAll cref B u (a ++ b) = feedAll cref B (feedAll cref B u a) b := by
  simp [feedAll, List.foldl_append]

theorem writes_eq (segs : List Bytes) : ∀ (u : Upload),
    segs.foldl (fun (u : Upload) b => (u.write cref C B b).1) u =
      { feedAll cref B u (chunksOf C u.feeder segs) with feeder := finalF C u.feeder segs } := by
  induction segs with
  | nil => intro u; rfl
  | cons b t ih =>
    intro u
    simp only [List.foldl_cons]
    rw [ih]
    simp only [Upload.write, chunksOf, finalF]
    have h := feedAll_feeder cref B (Aurora.Feeder.write C u.feeder b).2.1 u (Aurora.Feeder.write C u.feeder b).1
    simp only [feedAll] at h
    simp only [h, feedAll_append]
    have h2 := feedAll_feeder cref B (chunksOf C (Aurora.Feeder.write C u.feeder b).1 t)
      (List.foldl (feedChunk cref B) u (Aurora.Feeder.write C u.feeder b).2.1) (Aurora.Feeder.write C u.feeder b).1
    rw [h2]
    rfl

/-- the trie after feeding data chunks, below the level limit -/
theorem feedAll_state (hB : 0 < B) (ps : List Bytes) : ∀ (u : Upload) (done : List Entry),
    u.failed = false → u.trie.full = false →
    u.trie.levels = state (wrapE cref) B 8 done → done.length + ps.length < B ^ 7 →
    (feedAll cref B u ps).failed = false ∧ (feedAll cref B u ps).trie.full = false ∧
    (feedAll cref B u ps).trie.levels = state (wrapE cref) B 8 (done ++ ps.map (leafEntry cref)) := by
  induction ps with
  | nil => intro u done h1 h2 h3 _; simp [feedAll, h1, h2, h3]
  | cons p t ih =>
    intro u done h1 h2 h3 hlen
    simp only [feedAll, List.foldl_cons]
    have hstep : (feedChunk cref B u p).failed = false ∧ (feedChunk cref B u p).trie.full = false ∧
        (feedChunk cref B u p).trie.levels = state (wrapE cref) B 8 (done ++ [leafEntry cref p]) := by
      unfold feedChunk chainWrite
      simp only [h1, Bool.false_eq_true, ↓reduceIte, h2, Bool.false_or]
      rw [h3, push_state (wrapE cref) B hB 8, push_flag (wrapE cref) B hB 7 done _ (by simp at hlen; omega)]
      refine ⟨?_, ?_, ?_⟩ <;> first | rfl | trivial
    have := ih (feedChunk cref B u p) (done ++ [leafEntry cref p]) hstep.1 hstep.2.1 hstep.2.2
      (by simp at hlen ⊢; omega)
    simpa [feedAll, List.append_assoc] using this

theorem state_nil (hB : 0 < B) {α : Type} (wrap : List α → α) (L : Nat) :
    state wrap B L [] = List.replicate L [] := by
  induction L with
  | zero => rfl
  | succ L ih =>
    rw [state, rem_short B [] (by simpa using hB), fullWraps_short wrap B [] (by simpa using hB), ih]
    rfl

theorem pieces_length_le (hC : 0 < C) (data : Bytes) : (pieces C data).length ≤ data.length / C + 1 := by
  generalize hn : data.length = n
  induction n using Nat.strongRecOn generalizing data with
  | _ n ih =>
    subst hn
    rw [pieces]
    by_cases h : data.length ≤ C
    · simp only [h, or_true, ↓reduceIte]
      split <;> simp
    · have hC0 : ¬ C = 0 := by omega
      simp only [hC0, h, or_self, ↓reduceIte, List.length_cons]
      have := ih (data.drop C).length (by rw [List.length_drop]; omega) (data.drop C) rfl
      rw [List.length_drop] at this
      have hd : data.length / C = (data.length - C) / C + 1 := by
        rw [Nat.div_eq data.length C]; simp [hC]; omega
      omega

theorem leafData_length_le (hC : 0 < C) (data : Bytes) : (leafData C data).length ≤ data.length / C + 1 := by
  unfold leafData
  split
  · simp
  · exact pieces_length_le C hC data

theorem leafData_ne_nil (data : Bytes) : leafData C data ≠ [] := by
  unfold leafData
  by_cases h : data = []
  · simp [h]
  · simp only [h, ↓reduceIte]
    rw [pieces]
    split
    · simp [h]
    · simp

/-- the result of `Sum()` only depends on what the trie holds after the flush -/
def sumOf (u : Upload) : Option Bytes :=
  if u.failed then none else
  match trieSum (wrapE cref) B u.trie with
  | .error _ => none
  | .ok (e, _) => some e.ref

theorem sumOf_feeder (u : Upload) (f : Aurora.Feeder.State) :
    sumOf cref B { u with feeder := f } = sumOf cref B u := rfl

theorem sum_snd (u : Upload) :
    (u.sum cref B).2 = sumOf cref B (feedAll cref B u (Aurora.Feeder.sum u.feeder).2) := by
  unfold Upload.sum sumOf
  have h := feedAll_feeder cref B (Aurora.Feeder.sum u.feeder).2 u (Aurora.Feeder.sum u.feeder).1
  simp only [feedAll] at h ⊢
  rw [h]
  simp only []
  by_cases hf : (List.foldl (feedChunk cref B) u (Aurora.Feeder.sum u.feeder).2).failed
  · simp [hf]
  · simp only [hf, Bool.false_eq_true, ↓reduceIte]
    split <;> simp_all

/-- **The streaming pipeline computes the bottom-up specification**, for every segmentation. -/
theorem upload_eq_spec (hC : 0 < C) (hB : 2 ≤ B) (segs : List Bytes)
    (hlim : (leafData C segs.flatten).length < B ^ 7) :
    (upload cref C B segs).2 = Spec.root cref C B segs.flatten := by
  have hB0 : 0 < B := by omega
  unfold upload
  rw [writes_eq, sum_snd]
  -- all chunks fed = the data chunks of the bytes
  have hfeed := Aurora.Feeder.feeder_chunks C hC segs
  rw [runWrites_eq] at hfeed
  simp only [List.nil_append] at hfeed
  rw [feedAll_feeder, sumOf_feeder, ← feedAll_append, hfeed]
  -- the trie state
  have hst := feedAll_state cref B hB0 (leafData C segs.flatten) {} [] rfl rfl
    (by simp [State.new, maxLevel, state_nil B hB0]) (by simpa using hlim)
  simp only [List.nil_append] at hst
  obtain ⟨hf, _, hlv⟩ := hst
  unfold sumOf
  simp only [hf, Bool.false_eq_true, ↓reduceIte]
  -- Sum
  have hne : (leafData C segs.flatten).map (leafEntry cref) ≠ [] := by
    simpa using leafData_ne_nil C segs.flatten
  generalize hes : (leafData C segs.flatten).map (leafEntry cref) = es at *
  have hlen : es.length < B ^ 7 := by rw [← hes]; simpa using hlim
  obtain ⟨r, hr⟩ := rootG_enough (wrapE cref) B hB es.length es (Nat.le_refl _) hne
  have hr' := rootG_stable (wrapE cref) B _ _ _ hr (max 7 es.length) (by omega)
  have hsum := sumUp_root (wrapE cref) B hB 7 es [] (max 7 es.length) (by simp) (by simpa using hne)
    (by simp; omega) (by omega)
  simp only [List.append_nil] at hsum
  have hstate : state (wrapE cref) B 8 es = rem B es :: state (wrapE cref) B 7 (fullWraps (wrapE cref) B es) := rfl
  rw [← hstate, hr'] at hsum
  unfold trieSum
  rw [hlv]
  unfold Spec.root
  simp only [hes, hr, Option.map_some]
  generalize hsu : sumUp (wrapE cref) B (state (wrapE cref) B 8 es) = su at hsum
  obtain ⟨o, gs⟩ := su
  simp only at hsum
  subst hsum
  rfl

end

end Aurora.HashTrie
