import Aurora.Generated.AuthPolicy
/-!
Model of /repo/pkg/auth/auth.go (`GenerateKey`, `RefreshKey`, `Enforce`, `encrypter.decrypt`
after the `fix:` length check) and of the token handling in `handler.go`
(`PermissionCheckHandler`).  Hand translation, tied by the C35 correspondence run.

* Go strings are byte strings: everything is `List UInt8`.
* The primitives are parameters (`Env`): base64 `StdEncoding` (`enc`/`dec`), AES-GCM
  (`aseal`/`aopen`), `json.Marshal`/`Unmarshal` of `authRecord` (`marshal`/`parse`).  Their laws
  are hypotheses of the theorems in `Props/C35.lean`.  The driver instantiates `dec` with the
  executable `b64decode` below and `aopen`/`parse` with what the harness observed from the real
  libraries (annotation of the op line).
* Slicing is checked: `splitChecked` answers `none` where Go's `data[:n]`, `data[n:]` would panic,
  and the model then answers `Res.panic`.
* casbin: the matcher `(r.sub == p.sub || r.sub == "master") && (keyMatch(r.obj, p.obj) ||
  keyMatch(r.obj, '/v1'+p.obj)) && regexMatch(r.act, p.act)` over the *generated* policy table;
  `keyMatch` / `regexMatch` are transcriptions of casbin v2 `util.KeyMatch` / `util.RegexMatch`
  (the latter restricted to the pattern shape the extractor enforces: an alternation of literals,
  unanchored).
-/
namespace Aurora.Auth

abbrev Bytes := List UInt8

def str (s : String) : Bytes := s.toUTF8.toList

/-! ### casbin functions -/

/-- `strings.Index(s, "*")` -/
def indexOfByte (c : UInt8) : Bytes → Option Nat
  | [] => none
  | x :: xs => if x = c then some 0 else (indexOfByte c xs).map (· + 1)

/-- casbin `util.KeyMatch(key1, key2)` -/
def keyMatch (key1 key2 : Bytes) : Bool :=
  match indexOfByte 42 key2 with
  | none => key1 == key2
  | some i =>
    if key1.length > i then key1.take i == key2.take i
    else key1 == key2.take i

/-- `lit` occurs in `s` as a contiguous substring -/
def isInfix (lit : Bytes) : Bytes → Bool
  | [] => lit.isEmpty
  | x :: xs => lit.isPrefixOf (x :: xs) || isInfix lit xs

/-- casbin `util.RegexMatch(act, pattern)` for `pattern = (L1)|(L2)|…` or `L1`: Go's
    `regexp.MatchString` is unanchored, so it holds iff one literal is a substring of `act`. -/
def regexMatch (act : Bytes) (alts : List Bytes) : Bool := alts.any (fun l => isInfix l act)

structure Row where
  sub : Bytes
  obj : Bytes
  acts : List Bytes

/-- the generated table of `applyPolicies` -/
def policy : List Row :=
  Aurora.Generated.AuthPolicy.policy.map (fun (s, o, a) => { sub := str s, obj := str o, acts := a.map str })

def master : Bytes := str "master"
def v1 : Bytes := str "/v1"

/-- the casbin matcher for one policy row -/
def rowMatches (role obj act : Bytes) (p : Row) : Bool :=
  (role == p.sub || role == master) &&
  (keyMatch obj p.obj || keyMatch obj (v1 ++ p.obj)) &&
  regexMatch act p.acts

/-- `enforcer.Enforce(role, obj, act)` with effect `some(where (p.eft == allow))` -/
def allows (pol : List Row) (role obj act : Bytes) : Bool := pol.any (rowMatches role obj act)

/-! ### tokens -/

structure Rec where
  role : Bytes
  /-- expiry, nanoseconds since the Unix epoch -/
  expiry : Int
deriving DecidableEq, Repr

inductive Err | b64 | short | open_ | json | expired | dur
deriving DecidableEq, Repr

inductive Res (α : Type) where
  | ok (a : α)
  | err (e : Err)
  | panic
deriving Repr, DecidableEq

def Res.isErr {α} : Res α → Bool
  | .err _ => true
  | _ => false

structure Env where
  -- `base64.StdEncoding.EncodeToString` / `DecodeString`
  enc : Bytes → Bytes
  dec : Bytes → Option Bytes
  -- `gcm.Seal(nil, nonce, data, nil)` / `gcm.Open(nil, nonce, ct, nil)`
  aseal : Bytes → Bytes → Bytes
  aopen : Bytes → Bytes → Option Bytes
  -- `json.Marshal(authRecord)` / `json.Unmarshal`
  marshal : Rec → Bytes
  parse : Bytes → Option Rec

/-- `gcm.NonceSize()` (standard GCM) -/
def nonceSize : Nat := 12

/-- Go `data[:n], data[n:]` — `none` where Go panics (slice bounds out of range) -/
def splitChecked (data : Bytes) (n : Nat) : Option (Bytes × Bytes) :=
  if n ≤ data.length then some (data.take n, data.drop n) else none

/-- `encrypter.decrypt` (with the repaired length check) -/
def decrypt (E : Env) (data : Bytes) : Res Bytes :=
  if data.length < nonceSize then .err .short
  else match splitChecked data nonceSize with
    | none => .panic
    | some (nonce, ct) =>
      match E.aopen nonce ct with
      | none => .err .open_
      | some pt => .ok pt

/-- the pre-repair `decrypt` (no length check); kept to state what the repair changed -/
def decryptOld (E : Env) (data : Bytes) : Res Bytes :=
  match splitChecked data nonceSize with
  | none => .panic
  | some (nonce, ct) =>
    match E.aopen nonce ct with
    | none => .err .open_
    | some pt => .ok pt

/-- the common prefix of `Enforce` and `RefreshKey`: decode, decrypt, unmarshal -/
def readToken (E : Env) (tok : Bytes) : Res Rec :=
  match E.dec tok with
  | none => .err .b64
  | some data =>
    match decrypt E data with
    | .err e => .err e
    | .panic => .panic
    | .ok pt =>
      match E.parse pt with
      | none => .err .json
      | some r => .ok r

/-- `Authenticator.Enforce(apiKey, obj, act)` at time `now` -/
def enforce (E : Env) (pol : List Row) (now : Int) (tok obj act : Bytes) : Res Bool :=
  match readToken E tok with
  | .err e => .err e
  | .panic => .panic
  | .ok r => if now > r.expiry then .err .expired else .ok (allows pol r.role obj act)

def second : Int := 1000000000

/-- `encrypt` + base64 -/
def mkToken (E : Env) (nonce : Bytes) (r : Rec) : Bytes := E.enc (nonce ++ E.aseal nonce (E.marshal r))

/-- `Authenticator.GenerateKey(role, dur)` at time `now` with the random `nonce` -/
def generate (E : Env) (now : Int) (role : Bytes) (dur : Int) (nonce : Bytes) : Res Bytes :=
  if dur = 0 then .err .dur
  else .ok (mkToken E nonce { role := role, expiry := now + dur * second })

/-- `Authenticator.RefreshKey(apiKey, dur)`; `now1` is the clock read of the expiry test,
    `now2 ≥ now1` the one used for the new expiry -/
def refresh (E : Env) (now1 now2 : Int) (tok : Bytes) (dur : Int) (nonce : Bytes) : Res Bytes :=
  if dur = 0 then .err .dur
  else match readToken E tok with
    | .err e => .err e
    | .panic => .panic
    | .ok r =>
      if now1 > r.expiry then .err .expired
      else .ok (mkToken E nonce { role := r.role, expiry := now2 + dur * second })

/-! ### `PermissionCheckHandler` (handler.go): status for the header `"Bearer " ++ tok` -/

def bearer : Bytes := str "Bearer "

def allSpaces (b : Bytes) : Bool := b.all (· == 32)

/-- HTTP status of the permission check for `Authorization: Bearer <tok>`; 0 stands for a panic.
    `strings.Split(h, "Bearer ")` has exactly two parts iff `tok` does not contain `"Bearer "`. -/
def handlerStatus (E : Env) (pol : List Row) (now : Int) (tok obj act : Bytes) : Nat :=
  if isInfix bearer tok then 401
  else if allSpaces tok then 401
  else match enforce E pol now tok obj act with
    | .err .expired => 401
    | .err _ => 500
    | .panic => 0
    | .ok true => 200
    | .ok false => 403

/-! ### executable base64 `StdEncoding.DecodeString` (driver instance of `Env.dec`) -/

def b64val (c : UInt8) : Option Nat :=
  if 65 ≤ c ∧ c ≤ 90 then some (c.toNat - 65)
  else if 97 ≤ c ∧ c ≤ 122 then some (c.toNat - 97 + 26)
  else if 48 ≤ c ∧ c ≤ 57 then some (c.toNat - 48 + 52)
  else if c = 43 then some 62
  else if c = 47 then some 63
  else none

def byteOf (n : Nat) : UInt8 := UInt8.ofNat (n % 256)

/-- quanta of four characters; padding only in the last one; non-strict trailing bits -/
def b64go : Nat → Bytes → Bytes → Option Bytes
  | _, [], acc => some acc.reverse
  | 0, _, _ => none
  | fuel + 1, a :: b :: c :: d :: rest, acc =>
    match b64val a, b64val b with
    | some x, some y =>
      if c = 61 then
        if d = 61 ∧ rest = [] then some (byteOf (x * 4 + y / 16) :: acc).reverse else none
      else match b64val c with
        | none => none
        | some z =>
          if d = 61 then
            if rest = [] then some (byteOf (y * 16 + z / 4) :: byteOf (x * 4 + y / 16) :: acc).reverse
            else none
          else match b64val d with
            | none => none
            | some w =>
              b64go fuel rest (byteOf (z * 64 + w) :: byteOf (y * 16 + z / 4) :: byteOf (x * 4 + y / 16) :: acc)
    | _, _ => none
  | _, _, _ => none

/-- Go's decoder skips `\r` and `\n` anywhere -/
def b64decode (s : Bytes) : Option Bytes :=
  let t := s.filter (fun c => c != 10 && c != 13)
  b64go (t.length + 1) t []

end Aurora.Auth
