import Driver.Util
import Aurora.Model.Subscribe
/-! Driver for C40: runs the subscribe model on the op lines of the harness.  Every op line is a
macro step: the action, then `settle` (wake + process until quiescent) under the schedule bits of
the line (the Go side cannot choose the schedule; agreement for all bit strings is part of what the
correspondence checks). -/
namespace Driver.C40
open Aurora.Subscribe

def validName (a : String) : Bool :=
  a.length > 0 && a.toList.all (fun c => ('0' ≤ c && c ≤ '9') || ('a' ≤ c && c ≤ 'z') || c == '_')

def parseParam (a : String) : Option String :=
  if a = "-" then some "" else if validName a then some a else none

def parseSched (a : String) : Option (List Bool) :=
  if a.toList.all (fun c => c == '0' || c == '1') then some (a.toList.map (· == '1')) else none

def sortStr (l : List String) : List String := l.mergeSort (fun x y => decide (x ≤ y))
def joinOr (sep : String) (l : List String) : String := if l.isEmpty then "-" else sep.intercalate l

def doSub (s : State) (n ns kind param sched : String) : State × String :=
  match parseParam param, parseSched sched with
  | some p, some sc =>
    if validName n && validName ns && validName kind then
      (settle (Aurora.Subscribe.step s (.subscribe n (subKey ns kind p))) sc, "ok")
    else (s, "bad-op")
  | _, _ => (s, "bad-op")

def doErr (s : State) (n sched : String) : State × String :=
  match parseSched sched with
  | some sc =>
    if validName n then
      -- closing an already closed channel is skipped by the harness: idempotent
      let s' := if n ∈ s.dead then s else Aurora.Subscribe.step s (.errFires n)
      (settle s' sc, "ok")
    else (s, "bad-op")
  | none => (s, "bad-op")

def doErrOne (s : State) (n sched : String) : State × String :=
  match parseSched sched with
  | some sc =>
    if validName n then
      if s.waiting.any (fun e => e.n = n) then
        (settle (Aurora.Subscribe.step s (.errOne n)) sc, "ok")
      else (s, "nowait")
    else (s, "bad-op")
  | none => (s, "bad-op")

/-- one event of a `pubduring` line: `e.<n>` | `o.<n>` | `s.<n>.<ns>.<kind>.<param>` -/
inductive Event where
  | err (n : String)
  | errOne (n : String)
  | sub (n ns kind param : String)

def parseEvent (f : String) : Option Event :=
  match f.splitOn "." with
  | ["e", n] => if validName n then some (.err n) else none
  | ["o", n] => if validName n then some (.errOne n) else none
  | ["s", n, ns, kind, pa] =>
    match parseParam pa with
    | some p => if validName n && validName ns && validName kind then some (.sub n ns kind p) else none
    | none => none
  | _ => none

def parseEvents (a : String) : Option (List Event) :=
  if a = "-" then some [] else (a.splitOn ",").mapM parseEvent

def applyEvent (sc : String) (s : State) : Event → State
  | .err n => (doErr s n sc).1
  | .errOne n => (doErrOne s n sc).1
  | .sub n ns kind p => (doSub s n ns kind (if p = "" then "-" else p) sc).1

def showDeliveries (d : List Delivery) : String :=
  joinOr "," (d.map (fun x => s!"{x.n}:{x.key}:{x.msg}"))

/-- `pubduring`: the publish runs until it blocks in the first `Notify` to `slow`
    (`pubUntilParked`); the events are applied (each to quiescence); the released publish goes on
    over the snapshot it loaded and reads the remaining keys from the table as it is then
    (`pubResume`).  A publish that never reaches `slow` completes before the events. -/
def doPubDuring (s : State) (slow ns kind param m evs sched : String) : State × String :=
  match parseParam param, parseEvents evs, parseSched sched with
  | some p, some evs, some _ =>
    if validName slow && validName ns && validName kind && validName m then
      let (pre, parked) := pubUntilParked s.table m slow (pubKeys ns kind p)
      let s' := evs.foldl (applyEvent sched) s
      match parked with
      | none => ({ s' with log := s'.log ++ pre }, "p=0 " ++ showDeliveries pre)
      | some pk =>
        let d := pre ++ pubResume s'.table m pk
        ({ s' with log := s'.log ++ d }, "p=1 " ++ showDeliveries d)
    else (s, "bad-op")
  | _, _, _ => (s, "bad-op")

def step (s : State) (op : List String) : State × String :=
  match op with
  | ["pubduring", slow, ns, kind, param, m, evs] => doPubDuring s slow ns kind param m evs ""
  | ["pubduring", slow, ns, kind, param, m, evs, sched] => doPubDuring s slow ns kind param m evs sched
  | ["errone", n] => doErrOne s n ""
  | ["errone", n, sched] => doErrOne s n sched
  | ["sub", n, ns, kind, param] => doSub s n ns kind param ""
  | ["sub", n, ns, kind, param, sched] => doSub s n ns kind param sched
  | ["err", n] => doErr s n ""
  | ["err", n, sched] => doErr s n sched
  | ["pub", ns, kind, param, m] =>
    match parseParam param with
    | some p =>
      if validName ns && validName kind && validName m then
        let d := deliveries s.table (pubKeys ns kind p) m
        ({ s with log := s.log ++ d }, joinOr "," (d.map (fun x => s!"{x.n}:{x.key}:{x.msg}")))
      else (s, "bad-op")
    | none => (s, "bad-op")
  | ["dump"] =>
    (s, joinOr ";" (sortStr (s.table.map (fun p => s!"{p.1}={"+".intercalate p.2}"))))
  | _ => (s, "bad-op")

def handler : Driver.Handler := { σ := State, init := init, step := step }

end Driver.C40
