package main

// Facts about the DELETE handler (property C16): Model/NodeLite.lean's `apiDelete` computes the list of
// chunks used only by the file (`getUnRepeatChunk`) and removes them in ONE step, and `apiDeleteHeld`
// composes an overlapping operation sequentially BEFORE that step.  That is the real system only if the
// list is computed inside the critical section of ChunkInfo.DelFile (chunkinfo's syncLk, which also
// serialises registration of files).  Emitted as Generated/DeleteFacts.lean:
//
//   - pkg/api/dirs.go, auroraDeleteHandler: the calls of <x>.DelFile (line, whether the callback argument is a
//     function literal of the handler — directly or through a local bound exactly once to a literal);
//     every call of <x>.GetChunkPyramid in the handler (line, inside that literal?); every
//     <x>.Set(…, storage.ModeSetRemove, …) call (line, inside that literal?).
//   - pkg/chunkinfo/chunkinfo.go, (*ChunkInfo).DelFile: the first two statements are <recv>.<mu>.Lock() and
//     defer <recv>.<mu>.Unlock() on the same mutex field, and the callback parameter is called in the body.
//
// Props/C16.lean decides `C16_delete_list_computed_under_lock`.  The seeded change C16-3 (list computed
// before DelFile) gives a GetChunkPyramid row with inside = false.

import (
	"fmt"
	"go/ast"
	"go/parser"
	"go/token"
	"path/filepath"
	"strings"
)

func init() { extraGenerators["DeleteFacts.lean"] = genDeleteFacts }

func genDeleteFacts(repo string) (string, error) {
	fset := token.NewFileSet()
	f, err := parser.ParseFile(fset, filepath.Join(repo, "pkg/api/dirs.go"), nil, 0)
	if err != nil {
		return "", err
	}
	line := func(n ast.Node) int { return fset.Position(n.Pos()).Line }
	var handler *ast.FuncDecl
	for _, d := range f.Decls {
		if fd, ok := d.(*ast.FuncDecl); ok && fd.Name.Name == "auroraDeleteHandler" && fd.Body != nil {
			handler = fd
		}
	}
	type row struct {
		line   int
		inside bool
	}
	var delFile, pyr, removes []row
	if handler != nil {
		// locals bound to function literals (and how often they are assigned)
		lits := map[string]*ast.FuncLit{}
		binds := map[string]int{}
		ast.Inspect(handler.Body, func(n ast.Node) bool {
			if as, ok := n.(*ast.AssignStmt); ok {
				for i, l := range as.Lhs {
					if id, ok := l.(*ast.Ident); ok {
						binds[id.Name]++
						if len(as.Lhs) == len(as.Rhs) {
							if fl, ok := as.Rhs[i].(*ast.FuncLit); ok {
								lits[id.Name] = fl
							}
						}
					}
				}
			}
			return true
		})
		var callback *ast.FuncLit
		ast.Inspect(handler.Body, func(n ast.Node) bool {
			c, ok := n.(*ast.CallExpr)
			if !ok {
				return true
			}
			if sel, ok := c.Fun.(*ast.SelectorExpr); ok && sel.Sel.Name == "DelFile" && len(c.Args) == 2 {
				var fl *ast.FuncLit
				switch a := c.Args[1].(type) {
				case *ast.FuncLit:
					fl = a
				case *ast.Ident:
					if binds[a.Name] == 1 {
						fl = lits[a.Name]
					}
				}
				delFile = append(delFile, row{line(c), fl != nil})
				if callback == nil {
					callback = fl
				}
			}
			return true
		})
		inside := func(n ast.Node) bool {
			return callback != nil && n.Pos() >= callback.Body.Pos() && n.End() <= callback.Body.End()
		}
		ast.Inspect(handler.Body, func(n ast.Node) bool {
			c, ok := n.(*ast.CallExpr)
			if !ok {
				return true
			}
			sel, ok := c.Fun.(*ast.SelectorExpr)
			if !ok {
				return true
			}
			switch sel.Sel.Name {
			case "GetChunkPyramid":
				pyr = append(pyr, row{line(c), inside(c)})
			case "Set":
				for _, a := range c.Args {
					if s, ok := a.(*ast.SelectorExpr); ok && s.Sel.Name == "ModeSetRemove" {
						removes = append(removes, row{line(c), inside(c)})
					}
				}
			}
			return true
		})
	}

	// ChunkInfo.DelFile
	g, err := parser.ParseFile(fset, filepath.Join(repo, "pkg/chunkinfo/chunkinfo.go"), nil, 0)
	if err != nil {
		return "", err
	}
	locked, callsDel, mutex := false, false, ""
	for _, d := range g.Decls {
		fd, ok := d.(*ast.FuncDecl)
		if !ok || fd.Name.Name != "DelFile" || fd.Recv == nil || fd.Body == nil || len(fd.Type.Params.List) != 2 {
			continue
		}
		recv := ""
		if len(fd.Recv.List) == 1 && len(fd.Recv.List[0].Names) == 1 {
			recv = fd.Recv.List[0].Names[0].Name
		}
		cb := ""
		if p := fd.Type.Params.List[1]; len(p.Names) == 1 {
			cb = p.Names[0].Name
		}
		muOf := func(e ast.Expr, method string) string {
			c, ok := e.(*ast.CallExpr)
			if !ok || len(c.Args) != 0 {
				return ""
			}
			sel, ok := c.Fun.(*ast.SelectorExpr)
			if !ok || sel.Sel.Name != method {
				return ""
			}
			in, ok := sel.X.(*ast.SelectorExpr)
			if !ok {
				return ""
			}
			if id, ok := in.X.(*ast.Ident); !ok || id.Name != recv || recv == "" {
				return ""
			}
			return in.Sel.Name
		}
		if len(fd.Body.List) >= 2 {
			if es, ok := fd.Body.List[0].(*ast.ExprStmt); ok {
				if ds, ok := fd.Body.List[1].(*ast.DeferStmt); ok {
					m1, m2 := muOf(es.X, "Lock"), muOf(ds.Call, "Unlock")
					if m1 != "" && m1 == m2 {
						locked, mutex = true, m1
					}
				}
			}
		}
		ast.Inspect(fd.Body, func(n ast.Node) bool {
			switch x := n.(type) {
			case *ast.FuncLit, *ast.GoStmt:
				return false // not descended: a call from a literal / goroutine is not "under the lock"
			case *ast.CallExpr:
				if id, ok := x.Fun.(*ast.Ident); ok && id.Name == cb && cb != "" {
					callsDel = true
				}
			}
			return true
		})
	}

	rows := func(rs []row) string {
		var p []string
		for _, r := range rs {
			p = append(p, fmt.Sprintf("(%d, %t)", r.line, r.inside))
		}
		return "[" + strings.Join(p, ", ") + "]"
	}
	var sb strings.Builder
	sb.WriteString("-- GENERATED by harness/cmd/extract (delete_facts.go) from pkg/api/dirs.go and pkg/chunkinfo/chunkinfo.go on every check run — do not edit\n")
	sb.WriteString("namespace Aurora.Generated.DeleteFacts\n\n")
	fmt.Fprintf(&sb, "/-- auroraDeleteHandler exists in pkg/api/dirs.go -/\ndef handlerFound : Bool := %t\n\n", handler != nil)
	fmt.Fprintf(&sb, "/-- calls of <x>.DelFile in the handler: (line, the callback argument is a function literal of the handler) -/\ndef delFileCalls : List (Nat × Bool) := %s\n\n", rows(delFile))
	fmt.Fprintf(&sb, "/-- calls of <x>.GetChunkPyramid in the handler: (line, inside the DelFile callback literal) -/\ndef getChunkPyramidCalls : List (Nat × Bool) := %s\n\n", rows(pyr))
	fmt.Fprintf(&sb, "/-- <x>.Set(…, storage.ModeSetRemove, …) calls in the handler: (line, inside the DelFile callback literal) -/\ndef removeCalls : List (Nat × Bool) := %s\n\n", rows(removes))
	fmt.Fprintf(&sb, "/-- (*ChunkInfo).DelFile starts with <recv>.<mutex>.Lock(); defer <recv>.<mutex>.Unlock() -/\ndef delFileLocks : Bool := %t\ndef delFileMutex : String := %q\n\n", locked, mutex)
	fmt.Fprintf(&sb, "/-- (*ChunkInfo).DelFile calls its callback parameter in its own body (not from a literal / goroutine) -/\ndef delFileCallsCallback : Bool := %t\n", callsDel)
	sb.WriteString("\nend Aurora.Generated.DeleteFacts\n")
	return sb.String(), nil
}
