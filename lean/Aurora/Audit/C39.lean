import Aurora.Props.C39
#print axioms Aurora.BitVector.C39_newFromBytes_spec
#print axioms Aurora.BitVector.C39_new_spec
#print axioms Aurora.BitVector.C39_new_error
#print axioms Aurora.BitVector.C39_get_set
#print axioms Aurora.BitVector.C39_abs_set
#print axioms Aurora.BitVector.C39_setBytes_spec
#print axioms Aurora.BitVector.C39_unsetBytes_spec
#print axioms Aurora.BitVector.C39_equals_iff
#print axioms Aurora.BitVector.C39_bytes_roundtrip
#print axioms Aurora.BitVector.C39_wf_preserved
#print axioms Aurora.BitVector.C39_equalsOld_counterexample
