/-!
# Model of root pinning (`pkg/api/pin.go` guard + `pkg/pinning` + the pin index; property C15)

State: the set of root pin keys of the state store and the pin index `addr ↦ counter`
(entries exist only for positive counters, as `setUnpin` deletes an entry that reaches 0).

`apiPin` / `apiUnpin` are the HTTP handlers: `HasPin` guard, then `CreatePin` / `DeletePin`,
which apply `ModeSetPin` / `ModeSetUnpin` once per address *reported by the traversal*, i.e. once
per element of the reference's address multiset `ms r` (a chunk repeated inside a file, or shared
by two entries of a directory, is reported — and counted — several times; two references sharing
a chunk both count it).  `CreatePin` ignores `ErrNotFound` of a chunk that is not stored;
`DeletePin` fails (and keeps the root key) when a counter is missing.  Core Lean only.
-/
namespace Aurora.Pinning

abbrev Addr := Nat

structure State where
  roots : List Addr := []
  pin : List (Addr × Nat) := []
deriving DecidableEq, Repr

def cnt (m : List (Addr × Nat)) (a : Addr) : Nat := (m.lookup a).getD 0

/-- `setPin`: counter + 1 -/
def inc (m : List (Addr × Nat)) (a : Addr) : List (Addr × Nat) :=
  match m.lookup a with
  | some v => m.map (fun e => if e.1 = a then (a, v + 1) else e)
  | none => m ++ [(a, 1)]

/-- `setUnpin`: counter − 1, entry deleted at 0; `none` = the entry does not exist (error) -/
def dec (m : List (Addr × Nat)) (a : Addr) : Option (List (Addr × Nat)) :=
  match m.lookup a with
  | some v => if v > 1 then some (m.map (fun e => if e.1 = a then (a, v - 1) else e))
              else some (m.filter (fun e => e.1 != a))
  | none => none

/-- `CreatePin`'s iteration: chunks that are not stored are skipped (`ErrNotFound` ignored) -/
def pinAll (stored : Addr → Bool) (m : List (Addr × Nat)) (ms : List Addr) : List (Addr × Nat) :=
  ms.foldl (fun m a => if stored a then inc m a else m) m

/-- `DeletePin`'s iteration: continues after an error, remembers it -/
def unpinAll (m : List (Addr × Nat)) (ms : List Addr) : List (Addr × Nat) × Bool :=
  ms.foldl (fun (p : List (Addr × Nat) × Bool) a =>
    match dec p.1 a with
    | some m' => (m', p.2)
    | none => (p.1, false)) (m, true)

inductive Code | created | ok | notFound | failed
deriving DecidableEq, Repr

/-- `POST /pins/{ref}` -/
def apiPin (stored : Addr → Bool) (ms : Addr → List Addr) (s : State) (r : Addr) : State × Code :=
  if s.roots.contains r then (s, .ok)
  else ({ roots := s.roots ++ [r], pin := pinAll stored s.pin (ms r) }, .created)

/-- `DELETE /pins/{ref}` -/
def apiUnpin (ms : Addr → List Addr) (s : State) (r : Addr) : State × Code :=
  if !s.roots.contains r then (s, .notFound)
  else
    let (m, ok) := unpinAll s.pin (ms r)
    if ok then ({ roots := s.roots.filter (· != r), pin := m }, .ok)
    else ({ s with pin := m }, .failed)

/-- `GET /pins/{ref}` / membership in `GET /pins` -/
def listed (s : State) (r : Addr) : Bool := s.roots.contains r

inductive Op
  | pin (r : Addr)
  | unpin (r : Addr)
deriving DecidableEq, Repr

def step (stored : Addr → Bool) (ms : Addr → List Addr) (s : State) : Op → State
  | .pin r => (apiPin stored ms s r).1
  | .unpin r => (apiUnpin ms s r).1

def run (stored : Addr → Bool) (ms : Addr → List Addr) (s : State) (h : List Op) : State :=
  h.foldl (step stored ms) s

end Aurora.Pinning
