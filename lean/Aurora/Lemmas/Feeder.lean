import Aurora.Model.Feeder
import Aurora.Model.Tree
/-!
Feeder: the chunks handed to the next writer by any sequence of `Write`s followed by `Sum` are the
`C`-byte pieces of the concatenated input (one empty chunk for the empty file) — invariant
"emitted chunks ++ buffer = input so far, every emitted chunk has `C` bytes, buffer < `C`".
-/
namespace Aurora.Feeder
open Aurora.Bmt (Bytes)
open Aurora.Tree (pieces leafData)

theorem pieces_of_chunks (C : Nat) (hC : 0 < C) (out : List Bytes) (tail : Bytes)
    (hout : ∀ c ∈ out, c.length = C) (ht : tail.length < C) :
    pieces C (out.flatten ++ tail) = out ++ (if tail = [] then [] else [tail]) := by
  induction out with
  | nil =>
    rw [pieces]
    have : ¬ C = 0 := by omega
    simp only [List.flatten_nil, List.nil_append, this, false_or]
    have : tail.length ≤ C := by omega
    simp [this]
  | cons c out ih =>
    have hc : c.length = C := hout c (by simp)
    have hout' : ∀ c ∈ out, c.length = C := fun x hx => hout x (by simp [hx])
    have ih := ih hout'
    rw [pieces]
    have hC0 : ¬ C = 0 := by omega
    by_cases hrest : out.flatten ++ tail = []
    · have h1 : out.flatten = [] := (List.append_eq_nil_iff.mp hrest).1
      have h2 : tail = [] := (List.append_eq_nil_iff.mp hrest).2
      have hout0 : out = [] := by
        cases out with
        | nil => rfl
        | cons d ds =>
          have hd : d.length = C := hout' d (by simp)
          have h3 := congrArg List.length h1
          simp only [List.flatten_cons, List.length_append, List.length_nil] at h3
          omega
      subst hout0; subst h2
      have hcne : c ≠ [] := by intro h; simp [h] at hc; omega
      simp [hC0, hc, hcne]
    · have hlen : ¬ ((c :: out).flatten ++ tail).length ≤ C := by
        have : 0 < (out.flatten ++ tail).length := List.length_pos_iff.mpr hrest
        simp only [List.flatten_cons, List.append_assoc, List.length_append] at this ⊢
        omega
      simp only [hC0, hlen, or_self, ↓reduceIte]
      have htake : ((c :: out).flatten ++ tail).take C = c := by
        simp only [List.flatten_cons, List.append_assoc]
        rw [List.take_append_of_le_length (by omega)]
        exact List.take_of_length_le (by omega)
      have hdrop : ((c :: out).flatten ++ tail).drop C = out.flatten ++ tail := by
        simp only [List.flatten_cons, List.append_assoc]
        rw [List.drop_append_of_le_length (by omega)]
        rw [List.drop_of_length_le (by omega)]
        simp
      rw [htake, hdrop, ih]
      simp

/-- specification of the loop of `Write` -/
theorem writeLoop_spec (size : Nat) (hs : 0 < size) :
    ∀ (fuel : Nat) (rest pre : Bytes) (w : Int) (out : List Bytes),
      rest.length < fuel → pre.length < size → (pre = [] ∨ size ≤ pre.length + rest.length) →
      (∀ c ∈ out, c.length = size) →
      let r := writeLoop size fuel rest pre w out
      r.2.2.2.flatten ++ r.1 = out.flatten ++ pre ++ rest ∧
      (∀ c ∈ r.2.2.2, c.length = size) ∧ r.1.length < size ∧
      (r.2.1 = true → r.1 ≠ []) ∧
      r.2.2.1 = w + pre.length + rest.length ∧
      (r.2.1 = false → r.1 = [] ∧ (rest ≠ [] → r.2.2.2 ≠ [])) ∧
      (∃ more, r.2.2.2 = out ++ more) := by
  intro fuel
  induction fuel with
  | zero => intro rest pre w out h; omega
  | succ fuel ih =>
    intro rest pre w out hf hp hd hout
    simp only [writeLoop]
    by_cases hr : rest = []
    · subst hr
      have hpre : pre = [] := by
        rcases hd with h | h
        · exact h
        · simp at h; omega
      subst hpre
      refine ⟨by simp, hout, by simpa using hs, by simp, by simp, by simp, ⟨[], by simp⟩⟩
    · simp only [hr, ↓reduceIte]
      by_cases he : pre.length + rest.length < size
      · have hpre : pre = [] := by
          rcases hd with h | h
          · exact h
          · omega
        subst hpre
        simp only [List.length_nil, Nat.zero_add] at he
        have hmin : min size rest.length = rest.length := by omega
        simp only [List.length_nil, Nat.zero_add, he, ↓reduceIte, hmin, List.take_length]
        refine ⟨by simp, hout, trivial, fun _ => hr, by simp, by simp, ⟨[], by simp⟩⟩
      · simp only [he, ↓reduceIte]
        have hn : min (size - pre.length) rest.length = size - pre.length := by omega
        rw [hn]
        have hclen : (pre ++ rest.take (size - pre.length)).length = size := by
          simp only [List.length_append, List.length_take]; omega
        have hout' : ∀ c ∈ out ++ [pre ++ rest.take (size - pre.length)], c.length = size := by
          intro c hc
          rcases List.mem_append.mp hc with h | h
          · exact hout c h
          · simp at h; subst h; exact hclen
        have hfuel : (rest.drop (size - pre.length)).length < fuel := by
          simp only [List.length_drop]; omega
        have := ih (rest.drop (size - pre.length)) [] (w + ↑(pre ++ rest.take (size - pre.length)).length)
          (out ++ [pre ++ rest.take (size - pre.length)]) hfuel (by simpa using hs) (Or.inl rfl) hout'
        obtain ⟨h1, h2, h3, h4, hw, h5, h6⟩ := this
        refine ⟨?_, h2, h3, h4, ?_, ?_, ?_⟩
        · rw [h1]
          simp only [List.flatten_append, List.flatten_cons, List.flatten_nil, List.append_nil, List.append_assoc]
          congr 1; congr 1
          exact List.take_append_drop _ _
        · rw [hw, hclen]
          simp only [List.length_nil, List.length_drop]
          have : size - pre.length ≤ rest.length := by omega
          omega
        · intro hE
          obtain ⟨a, c⟩ := h5 hE
          refine ⟨a, ?_⟩
          intro _
          obtain ⟨more, hm⟩ := h6
          rw [hm]; simp
        · obtain ⟨more, hm⟩ := h6
          exact ⟨[pre ++ rest.take (size - pre.length)] ++ more, by rw [hm]; simp⟩

/-- the invariant of the feeder between calls -/
structure Inv (C : Nat) (f : State) (out : List Bytes) (data : Bytes) : Prop where
  cover : out.flatten ++ f.buf = data
  full : ∀ c ∈ out, c.length = C
  small : f.buf.length < C
  nonneg : 0 ≤ f.wrote
  wrote : f.buf = [] → (0 < f.wrote ↔ data ≠ [])

theorem inv_init (C : Nat) (hC : 0 < C) : Inv C {} [] [] :=
  ⟨rfl, by simp, hC, by simp, by simp⟩

theorem write_inv (C : Nat) (hC : 0 < C) (f : State) (out : List Bytes) (data b : Bytes)
    (h : Inv C f out data) :
    Inv C (write C f b).1 (out ++ (write C f b).2.1) (data ++ b) ∧ (write C f b).2.2 = b.length := by
  unfold write
  by_cases h1 : b.length + f.buf.length < C
  · simp only [h1, ↓reduceIte]
    have hmin : min (C - f.buf.length) b.length = b.length := by omega
    simp only [hmin, List.take_length, List.append_nil]
    refine ⟨⟨?_, h.full, ?_, h.nonneg, ?_⟩, trivial⟩
    · rw [← h.cover]; simp
    · simp; omega
    · intro hb
      have hb1 : f.buf = [] := (List.append_eq_nil_iff.mp hb).1
      have hb2 : b = [] := (List.append_eq_nil_iff.mp hb).2
      subst hb2
      simpa using h.wrote hb1
  · simp only [h1, ↓reduceIte]
    have hpre : f.buf.take C = f.buf := List.take_of_length_le (by have := h.small; omega)
    rw [hpre]
    have spec := writeLoop_spec C hC (b.length + 1) b f.buf (-(f.buf.length : Int)) [] (by omega) h.small
      (Or.inr (by omega)) (by simp)
    generalize writeLoop C (b.length + 1) b f.buf (-(f.buf.length : Int)) [] = r at spec
    obtain ⟨buf', early, w, cs⟩ := r
    simp only [List.flatten_nil, List.nil_append] at spec
    obtain ⟨s1, s2, s3, s4, sw, s5, _⟩ := spec
    have hbne : b ≠ [] := by
      intro hb; subst hb; simp at h1; have := h.small; omega
    have hw : w = b.length := by rw [sw]; omega
    cases early with
    | true =>
      simp only [↓reduceIte]
      refine ⟨⟨?_, ?_, s3, h.nonneg, ?_⟩, hw⟩
      · simp only [List.flatten_append, List.append_assoc]; rw [s1, ← h.cover]; simp
      · intro c hc
        rcases List.mem_append.mp hc with hc | hc
        · exact h.full c hc
        · exact s2 c hc
      · intro hb; exact absurd hb (s4 rfl)
    | false =>
      obtain ⟨e1, e3⟩ := s5 rfl
      have hcs : cs ≠ [] := e3 hbne
      simp only [Bool.false_eq_true, ↓reduceIte, hcs]
      subst e1
      have hl : 0 < b.length := List.length_pos_iff.mpr hbne
      refine ⟨⟨?_, ?_, by simpa using hC, ?_, ?_⟩, hw⟩
      · simp only [List.flatten_append, List.append_nil] at s1 ⊢
        rw [s1, ← h.cover]; simp
      · intro c hc
        rcases List.mem_append.mp hc with hc | hc
        · exact h.full c hc
        · exact s2 c hc
      · have := h.nonneg; simp only [hw]; omega
      · intro _
        have := h.nonneg
        constructor
        · intro _ hd
          exact hbne (List.append_eq_nil_iff.mp hd).2
        · intro _; simp only [hw]; omega

/-- all `Write`s of a list of segments: final feeder state and the chunks flushed, in order -/
def runWrites (C : Nat) (segs : List Bytes) (f : State) (out : List Bytes) : State × List Bytes :=
  segs.foldl (fun acc b => ((write C acc.1 b).1, acc.2 ++ (write C acc.1 b).2.1)) (f, out)

theorem runWrites_inv (C : Nat) (hC : 0 < C) (segs : List Bytes) :
    ∀ (f : State) (out : List Bytes) (data : Bytes), Inv C f out data →
      Inv C (runWrites C segs f out).1 (runWrites C segs f out).2 (data ++ segs.flatten) := by
  induction segs with
  | nil => intro f out data h; simpa [runWrites] using h
  | cons b segs ih =>
    intro f out data h
    have h1 := (write_inv C hC f out data b h).1
    have := ih _ _ _ h1
    simpa [runWrites, List.append_assoc] using this

theorem sum_chunks (C : Nat) (hC : 0 < C) (f : State) (out : List Bytes) (data : Bytes)
    (h : Inv C f out data) : out ++ (sum f).2 = leafData C data := by
  unfold sum leafData
  by_cases hb : f.buf = []
  · have hl : ¬ f.buf.length > 0 := by simp [hb]
    simp only [hl, ↓reduceIte]
    have hw := h.wrote hb
    have hcover : out.flatten = data := by have := h.cover; simpa [hb] using this
    by_cases hz : f.wrote = 0
    · have hd : data = [] := by
        by_cases hne : data = []
        · exact hne
        · have := hw.mpr hne
          omega
      have hout : out = [] := by
        cases out with
        | nil => rfl
        | cons d ds =>
          have hdl : d.length = C := h.full d (by simp)
          have h3 := congrArg List.length hcover
          simp only [List.flatten_cons, List.length_append, hd, List.length_nil] at h3
          omega
      simp [hz, hd, hout]
    · have hd : data ≠ [] := hw.mp (by have := h.nonneg; omega)
      simp only [hz, ↓reduceIte, hd, List.append_nil]
      have := pieces_of_chunks C hC out [] h.full (by simpa using hC)
      simp only [List.append_nil, ↓reduceIte] at this
      rw [← hcover, this]
  · have hl : f.buf.length > 0 := List.length_pos_iff.mpr hb
    simp only [hl, ↓reduceIte]
    have hd : data ≠ [] := by
      intro hd
      have := h.cover
      rw [hd] at this
      exact hb (List.append_eq_nil_iff.mp this).2
    have hwz : ¬ (f.wrote + ((f.buf.length + 8 : Nat) : Int) = 0) := by have := h.nonneg; omega
    simp only [hwz, ↓reduceIte, hd]
    have := pieces_of_chunks C hC out f.buf h.full h.small
    simp only [hb, ↓reduceIte] at this
    rw [← h.cover, this]

/-- **Segmentation independence of the feeder**: whatever the split of the input into `Write`
    calls, the chunks handed down by the writes and the final `Sum` are the `C`-byte pieces of the
    concatenated bytes (one empty chunk for the empty file). -/
theorem feeder_chunks (C : Nat) (hC : 0 < C) (segs : List Bytes) :
    (runWrites C segs {} []).2 ++ (sum (runWrites C segs {} []).1).2 = leafData C segs.flatten := by
  have h := runWrites_inv C hC segs {} [] [] (inv_init C hC)
  simpa using sum_chunks C hC _ _ _ h

end Aurora.Feeder
