import Aurora.Lemmas.BmtConcCases
/-! Preservation of `Inv`: the toggle steps. -/
namespace Aurora.BmtConc
open Aurora.Bmt

theorem b_of_parity {b : Bool} {n : Nat} (h : n % 2 = (0 + b.toNat) % 2) :
    (n % 2 = 0 → b = false) ∧ (n % 2 = 1 → b = true) := by
  cases b <;> simp at h ⊢ <;> omega

theorem b_of_parity' {b : Bool} {n : Nat} (h : n % 2 = (b.toNat + 0) % 2) :
    (n % 2 = 0 → b = false) ∧ (n % 2 = 1 → b = true) := by
  cases b <;> simp at h ⊢ <;> omega

theorem inv_tog {cfg : Cfg} {s : St} {ph : Nat → Nat → Ph} {t c k : Nat}
    (inv : Inv cfg s ph) (ht : t ≤ cfg.pos) (hpc : s.pc t = .wrote c k) :
    ∃ ph', Inv cfg (toggleStep cfg s t c k) ph' ∧ Mono ph ph' := by
  have hT := inv.thr t ht
  rw [hpc] at hT
  obtain ⟨hc, h2, hheld, hslot, h5⟩ := hT
  have hp : path cfg.pos (c + 1) = path cfg.pos c / 2 := rfl
  have hj : k / 2 ≤ path cfg.pos (c + 1) := by omega
  have hN := inv.node c (k / 2) hc hj
  unfold NodeAt NodeOK at hN
  have aMe0 : arr cfg s ph c k = false := arr_held h2 hheld
  -- frame facts shared by both outcomes
  have hfl2 : ∀ (p' : PC), (t = cfg.pos → fl cfg p' = c + 1) →
      ∀ c' k', ¬(c' = c ∧ k' = k) → k' / 2 ≤ path cfg.pos (c' + 1) → path cfg.pos c' < k' →
      (c' < fl cfg (upd s.pc t p' cfg.pos) ↔ c' < fl cfg (s.pc cfg.pos)) := by
    intro p' hp' c' k' hne hk' hlt
    by_cases e : cfg.pos = t
    · subst e
      rw [upd_same, hpc, hp' rfl]
      simp only [fl]
      have hp'' : path cfg.pos (c' + 1) = path cfg.pos c' / 2 := rfl
      obtain ⟨q1, q2⟩ := h5 rfl
      by_cases e' : c' = c
      · subst e'; exfalso; omega
      · constructor <;> intro <;> omega
    · rw [upd_ne _ _ _ _ e]
  by_cases hfirst : (s.state (c + 1) (k / 2) + 1) % 2 = 1
  · -- first arrival
    refine ⟨upd2 ph c k .arrived, ?_, mono_arrive ph c k⟩
    unfold toggleStep
    simp only [hfirst, if_true]
    have hflp : t = cfg.pos → fl cfg (if t < cfg.pos then PC.done else PC.top (c + 1) (k / 2) none) = c + 1 := by
      intro e; rw [if_neg (by omega)]; rfl
    have harrO : ∀ x, x / 2 = k / 2 → x ≠ k →
        arr cfg (setPc { s with state := upd2 s.state (c + 1) (k / 2) (s.state (c + 1) (k / 2) + 1) } t
          (if t < cfg.pos then PC.done else PC.top (c + 1) (k / 2) none)) (upd2 ph c k .arrived) c x = arr cfg s ph c x := by
      intro x hx hxk
      apply arr_frame
      · intro _; rw [upd2_ne _ _ _ _ _ _ (by omega)]
      · intro hlt; exact hfl2 _ hflp c x (by omega) (by omega) hlt
    have harrM : arr cfg (setPc { s with state := upd2 s.state (c + 1) (k / 2) (s.state (c + 1) (k / 2) + 1) } t
          (if t < cfg.pos then PC.done else PC.top (c + 1) (k / 2) none)) (upd2 ph c k .arrived) c k = true := by
      unfold arr; rw [if_pos h2, upd2_same]; simp
    apply inv_build inv t _ c (k / 2) rfl
    · intro c' j' h; exact upd2_ne _ _ _ _ _ _ h
    · intros; rfl
    · intros; rfl
    · intro c' k' hc' hne hk'
      apply arr_frame
      · intro _; rw [upd2_ne _ _ _ _ _ _ (by omega)]
      · intro hlt; exact hfl2 _ hflp c' k' (by omega) hk' hlt
    · intro c' j' hne
      by_cases e : c' = c ∧ j' = k
      · obtain ⟨rfl, rfl⟩ := e; rw [upd2_same, hheld]; simp
      · rw [upd2_ne _ _ _ _ _ _ e]
    · intro _ _
      unfold NodeAt NodeOK
      rw [upd2_ne _ _ _ _ _ _ (by omega)]
      show _ ∧ _ ∧ _ ∧ _
      by_cases hk : k % 2 = 0
      · have e1 : 2 * (k / 2) = k := by omega
        have e2 : 2 * (k / 2) + 1 = k + 1 := by omega
        rw [e1, aMe0] at hN
        rw [e1, harrM, harrO (k + 1) (by omega) (by omega)]
        obtain ⟨n1, n2, n3, n4⟩ := hN
        have hb := (b_of_parity n1).1 (by omega)
        rw [hb] at n4 ⊢
        rw [if_pos hk] at hslot
        refine ⟨?_, fun _ => hslot, (fun h => by cases h), ?_⟩
        · show upd2 s.state (c + 1) (k / 2) _ (c + 1) (k / 2) % 2 = _
          rw [upd2_same, hfirst]; rfl
        · simp only [n4]; simp
      · have e1 : 2 * (k / 2) = k - 1 := by omega
        have e2 : 2 * (k / 2) + 1 = k := by omega
        rw [e2, e1, aMe0] at hN
        rw [e2, e1, harrM, harrO (k - 1) (by omega) (by omega)]
        obtain ⟨n1, n2, n3, n4⟩ := hN
        have hb := (b_of_parity' n1).1 (by omega)
        rw [hb] at n4 ⊢
        rw [if_neg hk] at hslot
        refine ⟨?_, (fun h => by cases h), fun _ => hslot, ?_⟩
        · show upd2 s.state (c + 1) (k / 2) _ (c + 1) (k / 2) % 2 = _
          rw [upd2_same, hfirst]; rfl
        · simp only [n4]; simp
    · left; exact ⟨hc, hj⟩
    · intro _
      by_cases e : t < cfg.pos
      · rw [if_pos e]; trivial
      · rw [if_neg e]
        have : t = cfg.pos := by omega
        obtain ⟨q1, q2⟩ := h5 this
        exact ⟨this, by omega, by omega⟩
    · intro t' e c' k' h
      have : ¬(c' = c ∧ k' = k) := by
        rintro ⟨rfl, rfl⟩; rw [hheld] at h; cases h; exact e rfl
      rw [upd2_ne _ _ _ _ _ _ this]; exact h
    · intros; rfl
    · intros; rfl
    · intro c' k' t' h
      by_cases e2 : c' = c ∧ k' = k
      · obtain ⟨rfl, rfl⟩ := e2; rw [upd2_same] at h; cases h
      · rw [upd2_ne _ _ _ _ _ _ e2] at h
        by_cases e : t' = t
        · exfalso; subst e
          have := (inv.own c' k' _ h).2
          rw [hpc] at this
          exact e2 this
        · left; exact ⟨e, h⟩
    · intro i hi
      by_cases e : 0 = c ∧ i = k
      · obtain ⟨rfl, rfl⟩ := e; rw [upd2_same]; simp
      · rw [upd2_ne _ _ _ _ _ _ e]; exact inv.leaf i hi
    · show s.result = _
      rw [inv.res, upd2_ne _ _ _ _ _ _ (by omega)]
  · -- second arrival
    refine ⟨upd2 (upd2 ph c k .arrived) (c + 1) (k / 2) (.held t), ?_, ?hm⟩
    case hm =>
      refine mono_trans (mono_arrive ph c k) (mono_hold _ _ _ _ ?_)
      rw [upd2_ne _ _ _ _ _ _ (by omega)]
      apply hN.2.2.2.mpr
      rintro ⟨q1, q2⟩
      by_cases hk : k % 2 = 0
      · rw [show 2 * (k / 2) = k by omega, aMe0] at q1; cases q1
      · rw [show 2 * (k / 2) + 1 = k by omega, aMe0] at q2; cases q2
    unfold toggleStep
    simp only [hfirst, if_false]
    have hflp : t = cfg.pos → fl cfg (PC.hash (c + 1) (k / 2)) = c + 1 := fun _ => rfl
    have hother : ∀ x, x / 2 = k / 2 → x ≠ k → arr cfg s ph c x = true := by
      intro x hx hxk
      by_cases hk : k % 2 = 0
      · have e1 : 2 * (k / 2) = k := by omega
        have e2 : 2 * (k / 2) + 1 = k + 1 := by omega
        rw [e1, aMe0] at hN
        have : x = k + 1 := by omega
        subst this
        exact (b_of_parity hN.1).2 (by omega)
      · have e1 : 2 * (k / 2) = k - 1 := by omega
        have e2 : 2 * (k / 2) + 1 = k := by omega
        rw [e2, e1, aMe0] at hN
        have : x = k - 1 := by omega
        subst this
        exact (b_of_parity' hN.1).2 (by omega)
    have hpend : ph (c + 1) (k / 2) = .pending := by
      apply hN.2.2.2.mpr
      rintro ⟨q1, q2⟩
      by_cases hk : k % 2 = 0
      · rw [show 2 * (k / 2) = k by omega, aMe0] at q1; cases q1
      · rw [show 2 * (k / 2) + 1 = k by omega, aMe0] at q2; cases q2
    have harrO : ∀ x, x / 2 = k / 2 → x ≠ k →
        arr cfg (setPc { s with state := upd2 s.state (c + 1) (k / 2) (s.state (c + 1) (k / 2) + 1) } t
          (PC.hash (c + 1) (k / 2))) (upd2 (upd2 ph c k .arrived) (c + 1) (k / 2) (.held t)) c x = true := by
      intro x hx hxk
      rw [← hother x hx hxk]
      apply arr_frame
      · intro _; rw [upd2_ne _ _ _ _ _ _ (by omega), upd2_ne _ _ _ _ _ _ (by omega)]
      · intro hlt; exact hfl2 _ hflp c x (by omega) (by omega) hlt
    have harrM : arr cfg (setPc { s with state := upd2 s.state (c + 1) (k / 2) (s.state (c + 1) (k / 2) + 1) } t
          (PC.hash (c + 1) (k / 2))) (upd2 (upd2 ph c k .arrived) (c + 1) (k / 2) (.held t)) c k = true := by
      unfold arr; rw [if_pos h2, upd2_ne _ _ _ _ _ _ (by omega), upd2_same]; simp
    apply inv_build inv t _ c (k / 2) rfl
    · intro c' j' h; exact upd2_ne _ _ _ _ _ _ h
    · intros; rfl
    · intros; rfl
    · intro c' k' hc' hne hk'
      apply arr_frame
      · intro _
        by_cases e : c' = c + 1 ∧ k' = k / 2
        · obtain ⟨rfl, rfl⟩ := e; rw [upd2_same, hpend]; simp
        · rw [upd2_ne _ _ _ _ _ _ e, upd2_ne _ _ _ _ _ _ (by omega)]
      · intro hlt; exact hfl2 _ hflp c' k' (by omega) hk' hlt
    · intro c' j' hne
      rw [upd2_ne _ _ _ _ _ _ hne]
      by_cases e : c' = c ∧ j' = k
      · obtain ⟨rfl, rfl⟩ := e; rw [upd2_same, hheld]; simp
      · rw [upd2_ne _ _ _ _ _ _ e]
    · intro _ _
      unfold NodeAt NodeOK
      rw [upd2_same]
      show _ ∧ _ ∧ _ ∧ _
      have hst' : (upd2 s.state (c + 1) (k / 2) (s.state (c + 1) (k / 2) + 1) (c + 1) (k / 2)) % 2 = 0 := by
        rw [upd2_same]; omega
      by_cases hk : k % 2 = 0
      · have e1 : 2 * (k / 2) = k := by omega
        have e2 : 2 * (k / 2) + 1 = k + 1 := by omega
        have hb := hother (k + 1) (by omega) (by omega)
        rw [e1, aMe0, hb] at hN
        rw [e1, harrM, harrO (k + 1) (by omega) (by omega)]
        obtain ⟨n1, n2, n3, n4⟩ := hN
        rw [if_pos hk] at hslot
        refine ⟨?_, fun _ => hslot, fun _ => n3 rfl, by simp⟩
        show upd2 s.state (c + 1) (k / 2) _ (c + 1) (k / 2) % 2 = _
        rw [hst']; rfl
      · have e1 : 2 * (k / 2) = k - 1 := by omega
        have e2 : 2 * (k / 2) + 1 = k := by omega
        have hb := hother (k - 1) (by omega) (by omega)
        rw [e2, e1, aMe0, hb] at hN
        rw [e2, e1, harrM, harrO (k - 1) (by omega) (by omega)]
        obtain ⟨n1, n2, n3, n4⟩ := hN
        rw [if_neg hk] at hslot
        refine ⟨?_, fun _ => n2 rfl, fun _ => hslot, by simp⟩
        show upd2 s.state (c + 1) (k / 2) _ (c + 1) (k / 2) % 2 = _
        rw [hst']; rfl
    · left; exact ⟨hc, hj⟩
    · intro _
      refine ⟨by omega, by omega, hj, ?_, fun e => by have := h5 e; omega⟩
      rw [upd2_same]
    · intro t' e c' k' h
      have n1 : ¬(c' = c + 1 ∧ k' = k / 2) := by
        rintro ⟨rfl, rfl⟩; rw [hpend] at h; cases h
      have n2 : ¬(c' = c ∧ k' = k) := by
        rintro ⟨rfl, rfl⟩; rw [hheld] at h; cases h; exact e rfl
      rw [upd2_ne _ _ _ _ _ _ n1, upd2_ne _ _ _ _ _ _ n2]; exact h
    · intros; rfl
    · intros; rfl
    · intro c' k' t' h
      by_cases e1 : c' = c + 1 ∧ k' = k / 2
      · obtain ⟨rfl, rfl⟩ := e1
        rw [upd2_same] at h
        cases h
        right; exact ⟨rfl, ht, rfl, rfl⟩
      · rw [upd2_ne _ _ _ _ _ _ e1] at h
        by_cases e2 : c' = c ∧ k' = k
        · obtain ⟨rfl, rfl⟩ := e2; rw [upd2_same] at h; cases h
        · rw [upd2_ne _ _ _ _ _ _ e2] at h
          by_cases e : t' = t
          · exfalso; subst e
            have := (inv.own c' k' _ h).2
            rw [hpc] at this
            exact e2 this
          · left; exact ⟨e, h⟩
    · intro i hi
      rw [upd2_ne _ _ _ _ _ _ (by omega)]
      by_cases e : 0 = c ∧ i = k
      · obtain ⟨rfl, rfl⟩ := e; rw [upd2_same]; simp
      · rw [upd2_ne _ _ _ _ _ _ e]; exact inv.leaf i hi
    · show s.result = _
      rw [inv.res]
      by_cases e : cfg.d = c + 1 ∧ 0 = k / 2
      · obtain ⟨e1, e2⟩ := e
        rw [e2, e1, upd2_same, hpend]; simp
      · rw [upd2_ne _ _ _ _ _ _ e, upd2_ne _ _ _ _ _ _ (by omega)]

theorem inv_zrNone {cfg : Cfg} {s : St} {ph : Nat → Nat → Ph} {t c k : Nat} (hv : cfg.vals ≠ [])
    (inv : Inv cfg s ph) (ht : t ≤ cfg.pos) (hpc : s.pc t = .zr c k none) :
    ∃ ph', Inv cfg (toggleStep cfg s t c k) ph' ∧ Mono ph ph' := by
  have hT := inv.thr t ht
  rw [hpc] at hT
  obtain ⟨h1, hc, hkp, hk, hzr, _⟩ := hT
  subst h1
  have hp : path cfg.pos (c + 1) = path cfg.pos c / 2 := rfl
  have hj : k / 2 ≤ path cfg.pos (c + 1) := by omega
  have hN := inv.node c (k / 2) hc hj
  unfold NodeAt NodeOK at hN
  have e1 : 2 * (k / 2) = k := by omega
  have aR0 : arr cfg s ph c (k + 1) = false := by
    unfold arr; rw [if_neg (by omega), hpc]; simp [fl]
  rw [e1, aR0] at hN
  obtain ⟨n1, n2, n3, n4⟩ := hN
  have hpend : ph (c + 1) (k / 2) = .pending := n4.mpr (by simp)
  have hvalR : s.right (c + 1) (k / 2) = some (val cfg c (k + 1)) := by
    rw [hzr, val_out cfg hv c (k + 1) (by omega)]
  have hfl2 : ∀ (p' : PC), fl cfg p' = c + 1 →
      ∀ c' k', c' < cfg.d → ¬(c' = c ∧ k' / 2 = k / 2) → k' / 2 ≤ path cfg.pos (c' + 1) → path cfg.pos c' < k' →
      (c' < fl cfg (upd s.pc cfg.pos p' cfg.pos) ↔ c' < fl cfg (s.pc cfg.pos)) := by
    intro p' hp' c' k' _ hne hk' hlt
    rw [upd_same, hpc, hp']
    simp only [fl]
    have hp'' : path cfg.pos (c' + 1) = path cfg.pos c' / 2 := rfl
    by_cases e' : c' = c
    · subst e'; exfalso; omega
    · constructor <;> intro <;> omega
  by_cases hfirst : (s.state (c + 1) (k / 2) + 1) % 2 = 1
  · refine ⟨ph, ?_, mono_refl ph⟩
    unfold toggleStep
    simp only [hfirst, if_true, Nat.lt_irrefl, if_false]
    have hb := (b_of_parity' n1).1 (by omega)
    have aL1 : arr cfg (setPc { s with state := upd2 s.state (c + 1) (k / 2) (s.state (c + 1) (k / 2) + 1) } cfg.pos
        (PC.top (c + 1) (k / 2) none)) ph c k = false := by
      rw [← hb]; apply arr_frame
      · intro _; exact Iff.rfl
      · intro hlt; omega
    have aR1 : arr cfg (setPc { s with state := upd2 s.state (c + 1) (k / 2) (s.state (c + 1) (k / 2) + 1) } cfg.pos
        (PC.top (c + 1) (k / 2) none)) ph c (k + 1) = true := by
      unfold arr; rw [if_neg (by omega)]; simp [setPc, fl]
    apply inv_build inv cfg.pos _ c (k / 2) rfl
    · intro c' j' h; exact upd2_ne _ _ _ _ _ _ h
    · intros; rfl
    · intros; rfl
    · intro c' k' hc' hne hk'
      apply arr_frame
      · intro _; exact Iff.rfl
      · intro hlt; exact hfl2 _ rfl c' k' hc' hne hk' hlt
    · intros; exact Iff.rfl
    · intro _ _
      unfold NodeAt NodeOK
      rw [e1, aL1, aR1]
      refine ⟨?_, (fun h => by cases h), fun _ => hvalR, ?_⟩
      · show upd2 s.state (c + 1) (k / 2) _ (c + 1) (k / 2) % 2 = _
        rw [upd2_same, hfirst]; rfl
      · rw [hpend]; simp
    · left; exact ⟨hc, hj⟩
    · intro _; exact ⟨rfl, by omega, by omega⟩
    · intro t' e c' k' h; exact h
    · intros; rfl
    · intros; rfl
    · intro c' k' t' h
      by_cases e : t' = cfg.pos
      · exfalso; subst e
        have := (inv.own c' k' _ h).2
        rw [hpc] at this
        exact this
      · left; exact ⟨e, h⟩
    · exact inv.leaf
    · exact inv.res
  · refine ⟨upd2 ph (c + 1) (k / 2) (.held cfg.pos), ?_, mono_hold _ _ _ _ hpend⟩
    unfold toggleStep
    simp only [hfirst, if_false]
    have hb := (b_of_parity' n1).2 (by omega)
    have aL1 : arr cfg (setPc { s with state := upd2 s.state (c + 1) (k / 2) (s.state (c + 1) (k / 2) + 1) } cfg.pos
        (PC.hash (c + 1) (k / 2))) (upd2 ph (c + 1) (k / 2) (.held cfg.pos)) c k = true := by
      rw [← hb]; apply arr_frame
      · intro _; rw [upd2_ne _ _ _ _ _ _ (by omega)]
      · intro hlt; omega
    have aR1 : arr cfg (setPc { s with state := upd2 s.state (c + 1) (k / 2) (s.state (c + 1) (k / 2) + 1) } cfg.pos
        (PC.hash (c + 1) (k / 2))) (upd2 ph (c + 1) (k / 2) (.held cfg.pos)) c (k + 1) = true := by
      unfold arr; rw [if_neg (by omega)]; simp [setPc, fl]
    apply inv_build inv cfg.pos _ c (k / 2) rfl
    · intro c' j' h; exact upd2_ne _ _ _ _ _ _ h
    · intros; rfl
    · intros; rfl
    · intro c' k' hc' hne hk'
      apply arr_frame
      · intro _
        by_cases e : c' = c + 1 ∧ k' = k / 2
        · obtain ⟨rfl, rfl⟩ := e; rw [upd2_same, hpend]; simp
        · rw [upd2_ne _ _ _ _ _ _ e]
      · intro hlt; exact hfl2 _ rfl c' k' hc' hne hk' hlt
    · intro c' j' hne; rw [upd2_ne _ _ _ _ _ _ hne]
    · intro _ _
      unfold NodeAt NodeOK
      rw [e1, aL1, aR1, upd2_same]
      refine ⟨?_, fun _ => n2 hb, fun _ => hvalR, by simp⟩
      show upd2 s.state (c + 1) (k / 2) _ (c + 1) (k / 2) % 2 = _
      rw [upd2_same]
      show _ = 0
      omega
    · left; exact ⟨hc, hj⟩
    · intro _
      refine ⟨by omega, by omega, hj, ?_, fun _ => by omega⟩
      rw [upd2_same]
    · intro t' e c' k' h
      have n1 : ¬(c' = c + 1 ∧ k' = k / 2) := by
        rintro ⟨rfl, rfl⟩; rw [hpend] at h; cases h
      rw [upd2_ne _ _ _ _ _ _ n1]; exact h
    · intros; rfl
    · intros; rfl
    · intro c' k' t' h
      by_cases e1 : c' = c + 1 ∧ k' = k / 2
      · obtain ⟨rfl, rfl⟩ := e1
        rw [upd2_same] at h
        cases h
        right; exact ⟨rfl, ht, rfl, rfl⟩
      · rw [upd2_ne _ _ _ _ _ _ e1] at h
        by_cases e : t' = cfg.pos
        · exfalso; subst e
          have := (inv.own c' k' _ h).2
          rw [hpc] at this
          exact this
        · left; exact ⟨e, h⟩
    · intro i hi
      rw [upd2_ne _ _ _ _ _ _ (by omega)]; exact inv.leaf i hi
    · show s.result = _
      rw [inv.res]
      by_cases e : cfg.d = c + 1 ∧ 0 = k / 2
      · obtain ⟨e1, e2⟩ := e
        rw [e1, e2, upd2_same, hpend]; simp
      · rw [upd2_ne _ _ _ _ _ _ e]

end Aurora.BmtConc
