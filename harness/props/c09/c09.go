// Package c09: correspondence + oracle for chunk traversal (property C09):
// pkg/traversal (Traverse / GetPyramid / GetChunkHashes), joiner.IterateChunkAddresses,
// manifest.IterateAddresses and pinning.CreatePin over the REAL upload pipeline / manifest / loadsave.
package c09

import (
	"bytes"
	"context"
	"encoding/binary"
	"encoding/hex"
	"fmt"
	"io"
	"os"
	"sort"
	"strconv"
	"strings"
	"sync"

	"github.com/gauss-project/aurorafs/pkg/boson"
	"github.com/gauss-project/aurorafs/pkg/encryption"
	encstore "github.com/gauss-project/aurorafs/pkg/encryption/store"
	"github.com/gauss-project/aurorafs/pkg/file/loadsave"
	"github.com/gauss-project/aurorafs/pkg/file/pipeline"
	"github.com/gauss-project/aurorafs/pkg/file/pipeline/bmt"
	"github.com/gauss-project/aurorafs/pkg/file/pipeline/builder"
	encpipe "github.com/gauss-project/aurorafs/pkg/file/pipeline/encryption"
	"github.com/gauss-project/aurorafs/pkg/file/pipeline/hashtrie"
	pstore "github.com/gauss-project/aurorafs/pkg/file/pipeline/store"
	"github.com/gauss-project/aurorafs/pkg/manifest"
	"github.com/gauss-project/aurorafs/pkg/pinning"
	statemock "github.com/gauss-project/aurorafs/pkg/statestore/mock"
	"github.com/gauss-project/aurorafs/pkg/storage"
	"github.com/gauss-project/aurorafs/pkg/traversal"

	"verifharness/core"
)

type prop struct{}

func init() { core.Register(prop{}) }

const C = boson.ChunkSize

func (prop) ID() string { return "C09" }
func (prop) Rule() string {
	return "cases: 1-3 objects, each followed by traverse / pyramid / hashes / pin ops. Objects: `file` (plain or encrypted upload through builder.NewPipelineBuilder; sizes 0,1,31..33,4095..4097,C-1,C,C+1,2C-1..2C+1,3C+5, random up to 40 chunks; " +
		"thorough adds one encrypted 4097-chunk file (three levels, periodic content; plus a plain 8193-chunk one when VERIF_C09_GIANT=1)) and `dir` (manifest.NewDefaultManifest over loadsave: 1-40 files, paths over {a,b,c,/,.} with shared prefixes, nesting and some >30-byte paths, " +
		"file sizes mostly <2 KiB plus a few around C and 2C, optional '/' root entry with zero address, plain or encrypted). A smaller malformed stream traverses unknown / odd-length references and unknown ids. " +
		"Non-trivial: some object has more than one chunk written and at least one traversal op ran on it; distinct by op-list hash."
}

// ---------------------------------------------------------------- store

type memStore struct {
	mu   sync.Mutex
	m    map[string][]byte
	log  []string // addresses put since the last resetLog (in order, with repeats)
	pins map[string]bool
	miss int
}

func newStore() *memStore { return &memStore{m: map[string][]byte{}, pins: map[string]bool{}} }

func (s *memStore) Put(_ context.Context, _ storage.ModePut, chs ...boson.Chunk) ([]bool, error) {
	s.mu.Lock()
	defer s.mu.Unlock()
	ex := make([]bool, len(chs))
	for i, c := range chs {
		k := string(c.Address().Bytes())
		if _, ok := s.m[k]; ok {
			ex[i] = true
		} else {
			s.m[k] = append([]byte(nil), c.Data()...)
		}
		s.log = append(s.log, k)
	}
	return ex, nil
}
func (s *memStore) Get(_ context.Context, _ storage.ModeGet, a boson.Address) (boson.Chunk, error) {
	s.mu.Lock()
	defer s.mu.Unlock()
	d, ok := s.m[string(a.Bytes())]
	if !ok {
		return nil, storage.ErrNotFound
	}
	return boson.NewChunk(boson.NewAddress(append([]byte(nil), a.Bytes()...)), d), nil // stored copy is never mutated by readers
}
func (s *memStore) GetMulti(ctx context.Context, m storage.ModeGet, as ...boson.Address) ([]boson.Chunk, error) {
	var out []boson.Chunk
	for _, a := range as {
		c, err := s.Get(ctx, m, a)
		if err != nil {
			return nil, err
		}
		out = append(out, c)
	}
	return out, nil
}
func (s *memStore) Has(_ context.Context, _ storage.ModeHas, a boson.Address) (bool, error) {
	s.mu.Lock()
	defer s.mu.Unlock()
	_, ok := s.m[string(a.Bytes())]
	return ok, nil
}
func (s *memStore) HasMulti(ctx context.Context, m storage.ModeHas, as ...boson.Address) ([]bool, error) {
	out := make([]bool, len(as))
	for i, a := range as {
		out[i], _ = s.Has(ctx, m, a)
	}
	return out, nil
}

// Set behaves like localstore for pinning: a chunk that is not stored cannot be pinned.
func (s *memStore) Set(_ context.Context, mode storage.ModeSet, as ...boson.Address) error {
	s.mu.Lock()
	defer s.mu.Unlock()
	for _, a := range as {
		k := string(a.Bytes())
		if _, ok := s.m[k]; !ok {
			s.miss++
			return storage.ErrNotFound
		}
		if mode == storage.ModeSetPin {
			s.pins[k] = true
		}
	}
	return nil
}
func (s *memStore) Close() error { return nil }

// ---------------------------------------------------------------- helpers

type periodicReader struct {
	base []byte
	n    int64
	off  int64
}

func (p *periodicReader) Read(b []byte) (int, error) {
	if p.off >= p.n {
		return 0, io.EOF
	}
	k := 0
	for k < len(b) && p.off < p.n {
		i := int(p.off % int64(len(p.base)))
		c := copy(b[k:], p.base[i:])
		if int64(c) > p.n-p.off {
			c = int(p.n - p.off)
		}
		k += c
		p.off += int64(c)
	}
	return k, nil
}

// srcReader: g:<seed>:<n> or p:<seed>:<n>:<period> or h:<hex>, streamed (no n-byte buffer for periodic content).
func srcReader(s string) (io.Reader, int64, bool) {
	f := strings.Split(s, ":")
	if len(f) == 4 && f[0] == "p" {
		seed, e1 := strconv.ParseUint(f[1], 10, 64)
		n, e2 := strconv.ParseInt(f[2], 10, 64)
		per, e3 := strconv.Atoi(f[3])
		if e1 != nil || e2 != nil || e3 != nil || n < 0 || per <= 0 || per > 1<<26 {
			return nil, 0, false
		}
		return &periodicReader{base: core.GenBytes(seed, per, 0), n: n}, n, true
	}
	b, ok := core.ParseSrc(s)
	if !ok {
		return nil, 0, false
	}
	return bytes.NewReader(b), int64(len(b)), true
}

type fnv struct{ h uint64 }

func newFnv() *fnv { return &fnv{14695981039346656037} }
func (f *fnv) add(b []byte) {
	for _, x := range b {
		f.h ^= uint64(x)
		f.h *= 1099511628211
	}
}
func (f *fnv) addItem(b []byte) { f.add([]byte{byte(len(b))}); f.add(b) }
func (f *fnv) String() string   { return fmt.Sprintf("%016x", f.h) }

func digestSorted(items [][]byte) string {
	cp := append([][]byte(nil), items...)
	sort.Slice(cp, func(i, j int) bool { return bytes.Compare(cp[i], cp[j]) < 0 })
	f := newFnv()
	for _, x := range cp {
		f.addItem(x)
	}
	return f.String()
}
func digestSeq(items [][]byte) string {
	f := newFnv()
	for _, x := range items {
		f.addItem(x)
	}
	return f.String()
}

// ---------------------------------------------------------------- ground truth (model-free): follow references

// gnode: what the ground-truth walk saw behind one reference (kept so that leafList need not fetch and
// decrypt the chunk again)
type gnode struct {
	leaf bool
	kids []byte // payload of an intermediate chunk (decrypted)
}

type gchunk struct {
	addr    []byte
	span    uint64
	payload []byte // decrypted, padding stripped
}

// walkTree follows the references below ref (a chunk is intermediate iff its span exceeds its payload length).
// It returns the visited chunks (each address once) and, when collect is set, the joined content.
func (rn *runner) walkTree(ref []byte, seen map[string]bool, out *[]gchunk, collect bool, content *[]byte) error {
	if !collect && len(ref) >= 32 && seen[string(ref[:32])] {
		return nil // already visited (periodic content / repeated leaf references): nothing new below it
	}
	g := encstore.New(rn.s)
	ch, err := g.Get(rn.ctx, storage.ModeGetLookup, boson.NewAddress(ref))
	if err != nil {
		return err
	}
	d := ch.Data()
	if len(d) < 8 {
		return fmt.Errorf("short chunk")
	}
	span := binary.LittleEndian.Uint64(d[:8])
	payload := d[8:]
	k := string(ch.Address().Bytes())
	if span <= uint64(len(payload)) {
		rn.gt[string(ref)] = gnode{leaf: true}
	} else {
		rn.gt[string(ref)] = gnode{kids: payload}
	}
	first := !seen[k]
	if first {
		seen[k] = true
		*out = append(*out, gchunk{addr: ch.Address().Bytes(), span: span, payload: payload})
	}
	if span <= uint64(len(payload)) {
		if collect {
			*content = append(*content, payload...)
		}
		return nil
	}
	if !first && !collect {
		return nil // same subtree already visited (periodic content)
	}
	rl := len(ref)
	for c := 0; c+rl <= len(payload); c += rl {
		if err := rn.walkTree(payload[c:c+rl], seen, out, collect, content); err != nil {
			return err
		}
	}
	return nil
}

// leafList: addresses of the data chunks below ref, left to right, with repeats (ground truth for the
// data-chunk list; a chunk is a data chunk iff its span does not exceed its payload length — no span
// arithmetic).  memo is keyed by reference, so repeated subtrees cost one visit.
func (rn *runner) leafList(ref []byte, memo map[string][][]byte) ([][]byte, error) {
	if l, ok := memo[string(ref)]; ok {
		return l, nil
	}
	g, ok := rn.gt[string(ref)]
	if !ok {
		ch, err := encstore.New(rn.s).Get(rn.ctx, storage.ModeGetLookup, boson.NewAddress(ref))
		if err != nil {
			return nil, err
		}
		d := ch.Data()
		if len(d) < 8 {
			return nil, fmt.Errorf("short chunk")
		}
		if binary.LittleEndian.Uint64(d[:8]) <= uint64(len(d)-8) {
			g = gnode{leaf: true}
		} else {
			g = gnode{kids: d[8:]}
		}
		rn.gt[string(ref)] = g
	}
	if len(ref) < 32 {
		return nil, fmt.Errorf("short reference")
	}
	var l [][]byte
	if g.leaf {
		l = [][]byte{append([]byte(nil), ref[:32]...)}
	} else {
		payload := g.kids
		rl := len(ref)
		for c := 0; c+rl <= len(payload); c += rl {
			sub, err := rn.leafList(payload[c:c+rl], memo)
			if err != nil {
				return nil, err
			}
			l = append(l, sub...)
		}
	}
	memo[string(ref)] = l
	return l, nil
}

// expectFile records the ground truth of one file of the object: its data-chunk list (by digest) and,
// for a multi-chunk file, its root address (which must never be listed as a data chunk).
func (rn *runner) expectFile(ctx *core.Ctx, o *obj, ref []byte, memo map[string][][]byte) [][]byte {
	l, err := rn.leafList(ref, memo)
	if err != nil {
		ctx.Fail("ground-walk", "cannot list the data chunks below %x: %v", ref, err)
		return nil
	}
	o.expect[digestSeq(l)] = true
	if len(l) > 1 || (len(l) == 1 && !bytes.Equal(l[0], ref[:32])) {
		o.multiRoots[string(ref[:32])] = true
	}
	return l
}

// own parser of a mantaray 0.2 node blob (independent of the library's UnmarshalBinary)
type mfork struct {
	prefix []byte
	typ    byte
	ref    []byte
}

func parseNode(blob []byte) (entry []byte, forks []mfork, err error) {
	if len(blob) < 64 {
		return nil, nil, fmt.Errorf("short node")
	}
	d := append([]byte(nil), blob...)
	for i := 32; i < len(d); i++ {
		d[i] ^= blob[i%32]
	}
	rs := int(d[63])
	off := 64
	if len(d) < off+rs+32 {
		return nil, nil, fmt.Errorf("short node body")
	}
	entry = d[off : off+rs]
	off += rs
	idx := d[off : off+32]
	off += 32
	for b := 0; b < 256; b++ {
		if idx[b/8]>>(uint(b)%8)&1 == 0 {
			continue
		}
		if len(d) < off+32+rs {
			return nil, nil, fmt.Errorf("short fork")
		}
		typ := d[off]
		pl := int(d[off+1])
		if pl == 0 || pl > 30 {
			return nil, nil, fmt.Errorf("prefix length")
		}
		f := mfork{prefix: d[off+2 : off+2+pl], typ: typ, ref: d[off+32 : off+32+rs]}
		off += 32 + rs
		if typ&16 != 0 {
			if len(d) < off+2 {
				return nil, nil, fmt.Errorf("short meta")
			}
			ms := int(binary.BigEndian.Uint16(d[off : off+2]))
			off += 2 + ms
		}
		forks = append(forks, f)
	}
	return entry, forks, nil
}

// ---------------------------------------------------------------- runner

type obj struct {
	ref     []byte
	written map[string]bool
	dir     bool
	multi   bool
	// ground truth for GetChunkHashes: digests of the data-chunk list of every file of the object,
	// and the root addresses of its multi-chunk files
	expect     map[string]bool
	multiRoots map[string]bool
}

func newObj() *obj {
	return &obj{written: map[string]bool{}, expect: map[string]bool{}, multiRoots: map[string]bool{}}
}

type runner struct {
	ctx  context.Context
	s    *memStore
	objs map[string]*obj
	tr   traversal.Traverser
	gt   map[string]gnode // ground-truth walk cache: reference -> leaf / children
}

func (prop) New() core.Runner {
	s := newStore()
	return &runner{ctx: context.Background(), s: s, objs: map[string]*obj{}, tr: traversal.New(s), gt: map[string]gnode{}}
}
func (*runner) Close() {}

func hx(b []byte) string { return core.Hex(b) }

func (rn *runner) upload(r io.Reader, enc bool) ([]byte, error) {
	p := builder.NewPipelineBuilder(rn.ctx, rn.s, storage.ModePutUpload, enc)
	a, err := builder.FeedPipeline(rn.ctx, p, r)
	if err != nil {
		return nil, err
	}
	return a.Bytes(), nil
}

// chunkTokens: annotation tokens for the chunks below ref (payload only for intermediate chunks).
func (rn *runner) chunkTokens(ctx *core.Ctx, ref []byte, seen map[string]bool, collect bool) ([]byte, bool) {
	var out []gchunk
	var content []byte
	if err := rn.walkTree(ref, seen, &out, collect, &content); err != nil {
		ctx.Fail("ground-walk", "cannot follow the references below %x: %v", ref, err)
		return nil, false
	}
	for _, g := range out {
		if g.span > uint64(len(g.payload)) {
			ctx.Annotate(fmt.Sprintf("c:%s:%d:%d:%s", hx(g.addr), g.span, len(g.payload), hx(g.payload)))
		} else {
			ctx.Annotate(fmt.Sprintf("c:%s:%d:%d", hx(g.addr), g.span, len(g.payload)))
		}
	}
	return content, true
}

func (rn *runner) Step(ctx *core.Ctx, op []string) string {
	switch {
	case len(op) == 4 && op[0] == "file":
		enc := op[2] == "1"
		if op[2] != "0" && op[2] != "1" {
			return "bad-op"
		}
		r, n, ok := srcReader(op[3])
		if !ok {
			return "bad-op"
		}
		rn.s.log = nil
		ref, err := rn.upload(r, enc)
		if err != nil {
			ctx.Fail("upload-error", "upload failed: %v", err)
			return "err"
		}
		o := newObj()
		o.ref, o.multi = ref, n > C
		for _, k := range rn.s.log {
			o.written[k] = true
		}
		rn.objs[op[1]] = o
		seen := map[string]bool{}
		ctx.Annotate("ref:" + hx(ref))
		if _, ok := rn.chunkTokens(ctx, ref, seen, false); ok {
			for k := range o.written {
				if !seen[k] {
					ctx.Fail("written-unreachable", "chunk %x was written but is not reachable from the returned reference", k)
					break
				}
			}
			rn.expectFile(ctx, o, ref, map[string][][]byte{})
		}
		return fmt.Sprintf("ok %d", len(ref))
	case len(op) == 5 && op[0] == "dir":
		return rn.dir(ctx, op)
	case len(op) == 6 && op[0] == "trie":
		return rn.trie(ctx, op)
	case len(op) == 2 && op[0] == "travref":
		b, err := core.UnHex(op[1])
		if err != nil {
			return "bad-op"
		}
		n := 0
		if err := rn.tr.Traverse(rn.ctx, boson.NewAddress(b), func(boson.Address) error { n++; return nil }); err != nil {
			return "err"
		}
		if _, ok := rn.s.m[string(b[:min(32, len(b))])]; !ok {
			ctx.Fail("traverse-unknown-ok", "Traverse of a reference that was never written succeeded (%d addresses)", n)
		}
		return fmt.Sprintf("ok n=%d", n)
	}
	if len(op) != 2 {
		return "bad-op"
	}
	switch op[0] {
	case "traverse", "pyramid", "hashes", "pin":
	default:
		return "bad-op"
	}
	o := rn.objs[op[1]]
	if o == nil {
		return "noobj"
	}
	addr := boson.NewAddress(o.ref)
	switch op[0] {
	case "traverse":
		var rep [][]byte
		if err := rn.tr.Traverse(rn.ctx, addr, func(a boson.Address) error {
			rep = append(rep, append([]byte(nil), a.Bytes()...))
			return nil
		}); err != nil {
			ctx.Fail("traverse-error", "Traverse failed: %v", err)
			return "err"
		}
		rn.checkSubset(ctx, "traverse", rep, o)
		rn.checkCover(ctx, "traverse-missing", [][][]byte{rep}, o)
		first := "-"
		if len(rep) > 0 {
			first = hx(rep[0])
		}
		seq := "-"
		if !o.dir {
			seq = digestSeq(rep)
		}
		return fmt.Sprintf("ok n=%d first=%s set=%s seq=%s", len(rep), first, digestSorted(rep), seq)
	case "pyramid":
		py, err := rn.tr.GetPyramid(rn.ctx, addr)
		if err != nil {
			ctx.Fail("pyramid-error", "GetPyramid failed: %v", err)
			return "err"
		}
		var keys [][]byte
		for k, v := range py {
			b, err := hex.DecodeString(k)
			if err != nil {
				ctx.Fail("pyramid-key", "pyramid key %q is not hex", k)
				continue
			}
			keys = append(keys, b)
			if d, ok := rn.s.m[string(b)]; ok && len(o.ref) == 32 && !bytes.Equal(d, v) {
				ctx.Fail("pyramid-value", "pyramid value of %s differs from the stored chunk", k)
			}
		}
		rn.checkSubset(ctx, "pyramid", keys, o)
		return fmt.Sprintf("ok n=%d set=%s", len(keys), digestSorted(keys))
	case "hashes":
		hs, _, err := rn.tr.GetChunkHashes(rn.ctx, addr, nil)
		if err != nil {
			ctx.Fail("hashes-error", "GetChunkHashes failed: %v", err)
			return "err"
		}
		f := newFnv()
		tot := 0
		var all [][]byte
		for _, l := range hs {
			f.add([]byte{0xfe})
			for _, x := range l {
				f.addItem(x)
				all = append(all, x)
				tot++
			}
		}
		rn.checkSubset(ctx, "data", all, o)
		rn.checkDataLists(ctx, hs, o)
		// data chunks and pyramid together must cover everything written
		py, err := rn.tr.GetPyramid(rn.ctx, addr)
		if err == nil {
			var keys [][]byte
			for k := range py {
				if b, err := hex.DecodeString(k); err == nil {
					keys = append(keys, b)
				}
			}
			rn.checkCover(ctx, "cover-missing", [][][]byte{all, keys}, o)
		}
		return fmt.Sprintf("ok files=%d n=%d seq=%s", len(hs), tot, f.String())
	default: // pin
		rn.s.pins = map[string]bool{}
		rn.s.miss = 0
		ps := pinning.NewService(rn.s, statemock.NewStateStore(), rn.tr)
		if err := ps.CreatePin(rn.ctx, addr, true); err != nil {
			ctx.Fail("pin-error", "CreatePin failed: %v", err)
			return "err"
		}
		for k := range o.written {
			if !rn.s.pins[k] {
				ctx.Fail("pin-missing", "CreatePin(traverse) succeeded but written chunk %x is not pinned (%d pinned, %d Set calls on unknown addresses)", k, len(rn.s.pins), rn.s.miss)
				break
			}
		}
		return fmt.Sprintf("ok pinned=%d missing=%d", len(rn.s.pins), rn.s.miss)
	}
}

func digits(s string) bool {
	if s == "" || len(s) > 18 {
		return false
	}
	for _, c := range s {
		if c < '0' || c > '9' {
			return false
		}
	}
	return true
}

func min(a, b int) int {
	if a < b {
		return a
	}
	return b
}

// checkSubset: every reported item is the address of a chunk written for the object.
func (rn *runner) checkSubset(ctx *core.Ctx, what string, items [][]byte, o *obj) {
	for _, a := range items {
		if o.written[string(a)] {
			continue
		}
		if len(a) == 64 && o.written[string(a[:32])] {
			ctx.Fail(what+"-encrypted-ref", "%s reports the 64-byte reference %x... (address ‖ decryption key) instead of the 32-byte chunk address", what, a[:8])
		} else {
			ctx.Fail(what+"-outside", "%s reports %x which is not a chunk written for this object", what, a)
		}
		return
	}
}

func (rn *runner) checkCover(ctx *core.Ctx, clause string, lists [][][]byte, o *obj) {
	got := map[string]bool{}
	for _, l := range lists {
		for _, a := range l {
			got[string(a)] = true
		}
	}
	for k := range o.written {
		if !got[k] {
			ctx.Fail(clause, "written chunk %x is not reported (%d written, %d distinct reported)", k, len(o.written), len(got))
			return
		}
	}
}

// checkDataLists: every data-chunk list GetChunkHashes returns is, in order and with repeats, the list of
// data chunks of one file of the object (ground truth: leafList); the root of a multi-chunk file is
// never listed as one of its data chunks.
func (rn *runner) checkDataLists(ctx *core.Ctx, hs [][][]byte, o *obj) {
	if len(o.expect) == 0 {
		return // ground truth unavailable (already reported as ground-walk)
	}
	if !o.dir && len(hs) != 1 {
		ctx.Fail("data-list-count", "GetChunkHashes of a file reference returned %d data-chunk lists", len(hs))
		return
	}
	for i, l := range hs {
		if o.expect[digestSeq(l)] {
			continue
		}
		for j, a := range l {
			if o.multiRoots[string(a)] {
				ctx.Fail("data-root-listed", "data-chunk list %d lists %x at position %d of %d: that is the root (an intermediate chunk) of a multi-chunk file", i, a, j, len(l))
				return
			}
		}
		ctx.Fail("data-list-order", "data-chunk list %d (%d addresses) is not the left-to-right list of data chunks of any file of this object", i, len(l))
		return
	}
}

// dir <id> <enc> <root 0|1> <pathhex=src,pathhex=src,...>
func (rn *runner) dir(ctx *core.Ctx, op []string) string {
	enc := op[2] == "1"
	if (op[2] != "0" && op[2] != "1") || (op[3] != "0" && op[3] != "1") {
		return "bad-op"
	}
	type ent struct {
		path string
		src  string
	}
	var ents []ent
	for _, e := range strings.Split(op[4], ",") {
		kv := strings.SplitN(e, "=", 2)
		if len(kv) != 2 {
			return "bad-op"
		}
		p, err := core.UnHex(kv[0])
		if err != nil || len(p) == 0 {
			return "bad-op"
		}
		if _, _, ok := srcReader(kv[1]); !ok {
			return "bad-op"
		}
		ents = append(ents, ent{string(p), kv[1]})
	}
	ls := loadsave.New(rn.s, func() pipeline.Interface {
		return builder.NewPipelineBuilder(rn.ctx, rn.s, storage.ModePutUpload, enc)
	})
	m, err := manifest.NewDefaultManifest(ls, enc)
	if err != nil {
		return "err"
	}
	o := newObj()
	o.dir, o.multi = true, len(ents) > 1
	fileChunks := map[string][]string{} // path -> chunks written for the file finally mapped there
	for i, e := range ents {
		r, n, _ := srcReader(e.src)
		rn.s.log = nil
		ref, err := rn.upload(r, enc)
		if err != nil {
			ctx.Fail("upload-error", "upload failed: %v", err)
			return "err"
		}
		if n > C {
			o.multi = true
		}
		fileChunks[e.path] = append([]string(nil), rn.s.log...)
		meta := map[string]string{manifest.EntryMetadataFilenameKey: fmt.Sprintf("f%d", i), manifest.EntryMetadataContentTypeKey: "text/plain"}
		if err := m.Add(rn.ctx, e.path, manifest.NewEntry(boson.NewAddress(ref), meta)); err != nil {
			ctx.Fail("manifest-add-error", "Add(%q) failed: %v", e.path, err)
			return "err"
		}
	}
	if op[3] == "1" {
		if err := m.Add(rn.ctx, manifest.RootPath, manifest.NewEntry(boson.NewAddress(make([]byte, 32)), map[string]string{manifest.WebsiteIndexDocumentSuffixKey: "index.html"})); err != nil {
			return "err" // (encrypted manifests reject the 32-byte zero entry)
		}
	}
	rn.s.log = nil
	root, err := m.Store(rn.ctx)
	if err != nil {
		ctx.Fail("manifest-store-error", "Store failed: %v", err)
		return "err"
	}
	for _, k := range rn.s.log {
		o.written[k] = true
	}
	for _, l := range fileChunks {
		for _, k := range l {
			o.written[k] = true
		}
	}
	o.ref = root.Bytes()
	rn.objs[op[1]] = o
	rn.annotateManifest(ctx, o)
	return fmt.Sprintf("ok %d", len(o.ref))
}

// trie <id> <enc> <nfull> <tail> <seed>: the chunk tree of a file of nfull identical full chunks followed by
// one chunk of `tail` bytes (tail = 0: none), built the cheap way at the real constants: every distinct
// leaf goes ONCE through the production short pipeline ([encrypt →] bmt → store, as builder.go assembles
// it) and its reference is then written nfull times to the production hashtrie writer — exactly the
// writes the full pipeline makes for such a file, without pushing gigabytes through feeder and BMT.
// The file is published as the only entry ("largefile") of a stored manifest, so that Traverse /
// GetPyramid / GetChunkHashes do not first read the whole file into memory to try it as a manifest.
// nfull = k*Branches, tail > 0 gives the carried-up shape: the lone last chunk is lifted into the root.
func (rn *runner) trie(ctx *core.Ctx, op []string) string {
	enc := op[2] == "1"
	nfull, e1 := strconv.Atoi(op[3])
	tail, e2 := strconv.Atoi(op[4])
	seed, e3 := strconv.ParseUint(op[5], 10, 32)
	if (op[2] != "0" && op[2] != "1") || !digits(op[3]) || !digits(op[4]) || !digits(op[5]) || e1 != nil || e2 != nil || e3 != nil || nfull < 0 || nfull > 40000 || tail < 0 || tail > C || (nfull == 0 && tail == 0) {
		return "bad-op"
	}
	mode := storage.ModePutUpload
	refLen, branching := boson.HashSize, boson.Branches
	short := func() pipeline.ChainWriter {
		return bmt.NewBmtWriter(pstore.NewStoreWriter(rn.ctx, rn.s, mode, nil))
	}
	if enc {
		refLen, branching = boson.HashSize+encryption.KeyLength, boson.Branches/2
		short = func() pipeline.ChainWriter {
			return encpipe.NewEncryptionWriter(encryption.NewChunkEncrypter(), bmt.NewBmtWriter(pstore.NewStoreWriter(rn.ctx, rn.s, mode, nil)))
		}
	}
	rn.s.log = nil
	tw := hashtrie.NewHashTrieWriter(C, branching, refLen, short)
	var leaves [][]byte // the leaf addresses in file order (what the harness itself fed to the trie writer)
	writeLeaf := func(payload []byte, times int) error {
		data := make([]byte, 8+len(payload))
		binary.LittleEndian.PutUint64(data[:8], uint64(len(payload)))
		copy(data[8:], payload)
		span := append([]byte(nil), data[:8]...)
		args := pipeline.PipeWriteArgs{Data: data, Span: span}
		if err := short().ChainWrite(&args); err != nil {
			return err
		}
		ref, key := append([]byte(nil), args.Ref...), append([]byte(nil), args.Key...)
		for i := 0; i < times; i++ {
			if err := tw.ChainWrite(&pipeline.PipeWriteArgs{Ref: ref, Key: key, Span: span}); err != nil {
				return err
			}
			leaves = append(leaves, ref)
		}
		return nil
	}
	var err error
	if nfull > 0 {
		err = writeLeaf(core.GenBytes(seed, C, 0), nfull)
	}
	if err == nil && tail > 0 {
		err = writeLeaf(core.GenBytes(seed+7919, tail, 0), 1)
	}
	var sum []byte
	if err == nil {
		sum, err = tw.Sum()
	}
	if err != nil {
		ctx.Fail("upload-error", "hashtrie writer failed: %v", err)
		return "err"
	}
	fileRef := append([]byte(nil), sum...)
	o := newObj()
	o.dir, o.multi = true, len(leaves) > 1
	ls := loadsave.New(rn.s, func() pipeline.Interface {
		return builder.NewPipelineBuilder(rn.ctx, rn.s, mode, enc)
	})
	m, err := manifest.NewDefaultManifest(ls, enc)
	if err != nil {
		return "err"
	}
	meta := map[string]string{manifest.EntryMetadataFilenameKey: "largefile", manifest.EntryMetadataContentTypeKey: "application/octet-stream"}
	if err := m.Add(rn.ctx, "largefile", manifest.NewEntry(boson.NewAddress(fileRef), meta)); err != nil {
		ctx.Fail("manifest-add-error", "Add failed: %v", err)
		return "err"
	}
	root, err := m.Store(rn.ctx)
	if err != nil {
		ctx.Fail("manifest-store-error", "Store failed: %v", err)
		return "err"
	}
	for _, k := range rn.s.log {
		o.written[k] = true
	}
	o.ref = root.Bytes()
	rn.objs[op[1]] = o
	rn.annotateManifest(ctx, o)
	// the harness knows the leaf sequence it wrote: the ground-truth walk must find exactly that, and it
	// is the one data-chunk list GetChunkHashes may return
	want := make([][]byte, len(leaves))
	for i, l := range leaves {
		want[i] = l[:32]
	}
	if d := digestSeq(want); !o.expect[d] || len(o.expect) != 1 {
		ctx.Fail("ground-walk", "the stored tree below %x does not list the %d leaf references written to the trie writer in order", fileRef[:32], len(leaves))
		o.expect = map[string]bool{d: true}
	}
	if len(leaves) > 1 {
		o.multiRoots[string(fileRef[:32])] = true
	}
	return fmt.Sprintf("ok %d", len(o.ref))
}

// annotateManifest passes the ground truth of a stored manifest to the model: every chunk below the
// manifest reference and below every entry, and every node parsed by the independent parser.
func (rn *runner) annotateManifest(ctx *core.Ctx, o *obj) {
	ctx.Annotate("ref:" + hx(o.ref))
	seen := map[string]bool{}
	memo := map[string][][]byte{}
	zero := make([]byte, 32)
	var parse func(ref []byte, typ byte, depth int) bool
	parse = func(ref []byte, typ byte, depth int) bool {
		if depth > 300 {
			return false
		}
		blob, ok := rn.chunkTokens(ctx, ref, seen, true)
		if !ok {
			return false
		}
		entry, forks, err := parseNode(blob)
		if err != nil {
			ctx.Fail("ground-parse", "cannot parse manifest node %x: %v", ref, err)
			return false
		}
		var fs []string
		for _, f := range forks {
			fs = append(fs, fmt.Sprintf("%s~%d~%s", hx(f.prefix), f.typ, hx(f.ref)))
		}
		ft := "-"
		if len(fs) > 0 {
			ft = strings.Join(fs, ";")
		}
		ctx.Annotate(fmt.Sprintf("n:%s:%d:%s:%s", hx(ref), typ, hx(entry), ft))
		if typ&2 != 0 && len(entry) > 0 && !bytes.Equal(entry, zero) {
			if _, ok := rn.chunkTokens(ctx, entry, seen, false); !ok {
				return false
			}
			rn.expectFile(ctx, o, entry, memo)
		}
		for _, f := range forks {
			if !parse(f.ref, f.typ, depth+1) {
				return false
			}
		}
		return true
	}
	if parse(o.ref, 0, 0) {
		for k := range o.written {
			if !seen[k] {
				ctx.Fail("written-unreachable", "chunk %x was written but is not reachable from the manifest reference", k)
				break
			}
		}
	}
}

// ---------------------------------------------------------------- generator

// fileSize draws a size; *budget (in chunks) bounds the total hashing work of a run.
func fileSize(r *core.Rand, big bool, budget *int) int {
	n := fileSize0(r, big)
	k := (n + C - 1) / C
	if k > *budget {
		return r.Pick([]int{0, 1, 31, 32, 33, 4095, 4096, 4097, 70000})
	}
	*budget -= k
	return n
}

func fileSize0(r *core.Rand, big bool) int {
	switch r.Intn(8) {
	case 0:
		return r.Pick([]int{0, 1, 31, 32, 33, 4095, 4096, 4097})
	case 1, 2:
		return r.Pick([]int{C - 1, C, C + 1})
	case 3, 4:
		return r.Pick([]int{2*C - 1, 2 * C, 2*C + 1, 3*C + 5})
	case 5:
		if big {
			return r.Range(4, 14)*C + r.Pick([]int{-1, 0, 1, 777})
		}
		return r.Range(1, 5*C)
	default:
		return r.Range(1, 5*C)
	}
}

func src(r *core.Rand, n int) string {
	if n <= 24 {
		return "h:" + core.Hex(r.Bytes(n))
	}
	if n > 70000 {
		return fmt.Sprintf("p:%d:%d:%d", r.Intn(1000), n, r.Pick([]int{997, 4096, C, C / 2, 100003}))
	}
	return fmt.Sprintf("g:%d:%d", r.Intn(1000), n)
}

func genPath(r *core.Rand, pool []string) string {
	al := "abc/."
	mk := func(n int) string {
		b := make([]byte, n)
		for i := range b {
			b[i] = al[r.Intn(len(al))]
		}
		return string(b)
	}
	var p string
	switch {
	case len(pool) > 0 && r.Chance(50): // extend / share a prefix of an existing path
		q := pool[r.Intn(len(pool))]
		p = q[:r.Range(0, len(q))] + mk(r.Range(1, 6))
	case r.Chance(15): // longer than the 30-byte fork prefix limit
		p = mk(r.Range(31, 70))
	default:
		p = mk(r.Range(1, 12))
	}
	p = strings.TrimLeft(p, "/")
	for strings.HasSuffix(p, "/") {
		p = p[:len(p)-1] + "a"
	}
	if p == "" {
		p = "a"
	}
	return p
}

func obsOps(r *core.Rand, id string) []string {
	ops := []string{"traverse " + id, "pyramid " + id, "hashes " + id, "pin " + id}
	r2 := r.Intn(4)
	ops[0], ops[r2] = ops[r2], ops[0]
	if r.Chance(25) {
		ops = ops[:3]
	}
	return ops
}

func (prop) Gen(r *core.Rand, tier string) []core.Case {
	n, budget := 28, 50
	// every ENCRYPTED chunk is padded to a full 256 KiB chunk, however small the file or manifest node: each
	// costs an encryption + full BMT on upload and a decryption per read (~0.2 s over the ops of a case).
	// encBudget (in chunks) bounds that work in the quick tier; when it is spent, objects are drawn plain.
	encBudget := 200
	if tier == "thorough" {
		n, budget, encBudget = 200, 700, 1<<30
	}
	var cs []core.Case
	cs = append(cs,
		core.Case{ID: "fix-enc-multichunk", NT: true, Ops: []string{fmt.Sprintf("file e 1 p:5:%d:4096", 2*C+5), "traverse e", "pyramid e", "hashes e", "pin e"}},
		core.Case{ID: "fix-plain-multichunk", NT: true, Ops: []string{fmt.Sprintf("file f 0 p:5:%d:4096", 2*C+5), "traverse f", "pyramid f", "hashes f", "pin f"}},
		core.Case{ID: "fix-single", NT: false, Ops: []string{"file a 0 h:-", "traverse a", "pyramid a", "hashes a", "pin a", "file b 1 g:3:100", "traverse b", "pyramid b", "hashes b", "pin b"}},
		core.Case{ID: "fix-dir", NT: true, Ops: []string{fmt.Sprintf("dir d 0 1 %s=g:1:10,%s=g:2:20,%s=p:3:%d:997,%s=g:4:5", core.Hex([]byte("a")), core.Hex([]byte("ab")), core.Hex([]byte("img/x.png")), C+1, core.Hex([]byte("img/y.png"))),
			"traverse d", "pyramid d", "hashes d", "pin d"}},
		core.Case{ID: "fix-dir-enc", NT: true, Ops: []string{fmt.Sprintf("dir d 1 0 %s=g:1:10,%s=p:3:%d:997", core.Hex([]byte("a/b")), core.Hex([]byte("a/c")), C+1), "traverse d", "pyramid d", "hashes d", "pin d"}},
		// carried-up lone reference at the real constants (Branches*k+1 chunks: hashtrie lifts the single
		// left-over reference into the node above, so the root mixes intermediate and data references)
		core.Case{ID: "fix-carried-lone-chunk-plain", NT: true, Ops: []string{fmt.Sprintf("trie f 0 %d 100 3", boson.Branches), "traverse f", "pyramid f", "hashes f", "pin f"}},
		core.Case{ID: "fix-carried-lone-chunk-enc", NT: true, Ops: []string{fmt.Sprintf("trie f 1 %d 100 4", boson.Branches/2), "hashes f", "traverse f", "pyramid f", "pin f"}},
		core.Case{ID: "fix-carried-lone-chunk-2k", NT: true, Ops: []string{fmt.Sprintf("trie f 0 %d %d 5", 2*boson.Branches, C), "hashes f", "pyramid f", "traverse f", "pin f",
			fmt.Sprintf("trie g 1 %d 1 5", 3*boson.Branches/2), "hashes g", "traverse g"}},
		core.Case{ID: "fix-carried-lone-chunk-same", NT: true, Ops: []string{fmt.Sprintf("trie f 0 %d 0 6", boson.Branches+1), "hashes f", "traverse f", "pyramid f",
			fmt.Sprintf("trie g 1 %d 0 6", boson.Branches+1), "hashes g", "pyramid g"}},
		core.Case{ID: "fix-trie-no-carry", NT: true, Ops: []string{fmt.Sprintf("trie f 0 %d 77 7", boson.Branches-1), "hashes f", "traverse f", "pyramid f", "pin f",
			fmt.Sprintf("trie g 0 %d 5 7", boson.Branches+1), "hashes g", "traverse g", "pyramid g", "trie h 1 3 0 7", "hashes h", "traverse h", "trie i 0 1 0 7", "hashes i", "pyramid i", "traverse i"}},
		core.Case{ID: "fix-malformed", NT: false, Ops: []string{"traverse nope", "trie t 0 0 0 1", "trie t 2 1 0 1", "trie t 0 +1 0 1", "trie t 0 1 262145 1", "trie t 0 40001 0 1", "trie t 0 1 0 4294967296", "hashes t", "travref " + strings.Repeat("ab", 32), "travref " + strings.Repeat("ab", 64), "travref abcd", "travref -", "file x 2 h:00", "dir d 0 0 zz"}},
	)
	if tier == "thorough" {
		// three-level trees (the only ones with intermediate chunks below the root): 1 GiB encrypted;
		// the 2 GiB plain one only on request (VERIF_C09_GIANT=1), it needs ~10 GiB and many minutes
		cs = append(cs, core.Case{ID: "big-enc-3level", NT: true, Ops: []string{fmt.Sprintf("file f 1 p:9:%d:%d", 4097*C+17, C), "traverse f", "pyramid f", "hashes f", "pin f"}})
		if os.Getenv("VERIF_C09_GIANT") == "1" {
			cs = append(cs, core.Case{ID: "big-plain-3level", NT: true, Ops: []string{fmt.Sprintf("file f 0 p:9:%d:%d", 8193*C+17, C), "traverse f", "pyramid f", "hashes f", "pin f"}})
		}
	}
	for i := 0; i < n; i++ {
		c := core.Case{ID: fmt.Sprintf("g%d", i)}
		nobj := r.Range(1, 3)
		for k := 0; k < nobj; k++ {
			id := fmt.Sprintf("o%d", k)
			enc := r.Intn(2)
			if encBudget <= 0 {
				enc = 0
			}
			if budget >= 8 && r.Chance(10) {
				encBudget -= 8 * enc
				// large tree around the carry-over boundaries: Branches*k + {-1, 0, +1} full chunks, optional tail chunk
				budget -= 8
				b := boson.Branches
				if enc == 1 {
					b /= 2
				}
				nfull := b*r.Range(1, 2) + r.Pick([]int{0, 0, 0, -1, 1})
				tail := r.Pick([]int{0, 1, 100, C - 1, C, r.Range(1, C)})
				c.Ops = append(c.Ops, fmt.Sprintf("trie %s %d %d %d %d", id, enc, nfull, tail, r.Intn(1000)))
				c.NT = true
				c.Ops = append(c.Ops, obsOps(r, id)...)
				continue
			}
			if r.Chance(55) {
				sz := fileSize(r, true, &budget)
				c.Ops = append(c.Ops, fmt.Sprintf("file %s %d %s", id, enc, src(r, sz)))
				encBudget -= enc * ((sz+C-1)/C + 1)
				if sz > C {
					c.NT = true
				}
			} else {
				nf := r.Range(1, 12)
				if r.Chance(20) {
					nf = r.Range(13, 40)
				}
				var pool []string
				seenP := map[string]bool{}
				var ents []string
				bigs := 0
				for j := 0; j < nf; j++ {
					p := genPath(r, pool)
					if seenP[p] && !r.Chance(10) { // a few overwrites stay
						continue
					}
					seenP[p] = true
					pool = append(pool, p)
					sz := r.Range(0, 2000)
					if r.Chance(12) && bigs < 3 {
						sz = fileSize(r, false, &budget)
						bigs++
					}
					if r.Chance(10) && j > 0 { // identical content under two paths
						sz = 77
					}
					encBudget -= enc * ((sz+C-1)/C + 2) // the file's chunks + about one manifest node per entry
					if sz == 77 {
						ents = append(ents, core.Hex([]byte(p))+"=g:7:77")
					} else {
						ents = append(ents, core.Hex([]byte(p))+"="+src(r, sz))
					}
				}
				root := 0
				if enc == 0 && r.Chance(40) {
					root = 1
				}
				c.Ops = append(c.Ops, fmt.Sprintf("dir %s %d %d %s", id, enc, root, strings.Join(ents, ",")))
				if len(ents) > 1 {
					c.NT = true
				}
			}
			c.Ops = append(c.Ops, obsOps(r, id)...)
		}
		if r.Chance(10) {
			c.Ops = append(c.Ops, "traverse o9", "travref "+core.Hex(r.Bytes(r.Pick([]int{32, 64, 31, 65}))))
		}
		cs = append(cs, c)
	}
	return cs
}
