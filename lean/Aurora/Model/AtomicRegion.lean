import Aurora.Model.LockSetProg
/-!
# Check-then-act on one shared cell, run from an instruction list (C30, C32, C33)

The threads of this small-step system *interpret* instruction lists of `Model/LockSetProg.lean`
(`lock | unlock | access loc write`) — the lists the extractor generates from the Go source
(`Aurora/Generated/*Regions.lean`).  One mutex (lock 0) and one shared cell (location 0):

* `access _ false` — the thread copies the cell into its local variable (`s.store.Get(last cheque)`,
  the map lookup `a.accountingPeers[k]`);
* `access _ true`  — the thread applies ITS operation `op t` to the value in its local variable and
  stores the result in the cell (`s.store.Put(…)` if the cheque increases the last one it saw,
  `a.accountingPeers[k] = new record` if it saw none), producing a result (`amount` / the record);
* `lock` is enabled only when nobody holds the mutex; `unlock` releases it (Go's `sync.Mutex` is
  not owner-checked).  The local variable survives lock operations — a value read before `Lock()` is
  still in the variable afterwards; that is exactly what makes a read outside the region dangerous.

`okFrom` is the static discipline (checked by `decide` on the generated list): every access
happens while the mutex is held, and every write is preceded, *inside the same critical section*,
by a read (a "fresh" local).  `Lemmas/AtomicRegion.lean` proves that under this discipline every
interleaving of any number of threads is a sequential run of the operations in the order of their
writes (`atomic_serial`), and that the discipline is needed (`split_breaks`).  Core Lean only.
-/
namespace Aurora.AtomicRegion
open Aurora.LockSetProg (Instr Body)

/-- static check of the rest of a body: `held` = the mutex is held here, `fresh` = the local variable
    was read in the current critical section and nothing was written since.  Only lock 0 / location 0
    are admitted (anything else fails). -/
def okFrom : Bool → Bool → Body → Bool
  | h, _, [] => !h
  | h, _, .lock l :: r => !h && l == 0 && okFrom true false r
  | h, _, .unlock l :: r => h && l == 0 && okFrom false false r
  | h, _, .access loc false :: r => h && loc == 0 && okFrom h true r
  | h, f, .access loc true :: r => h && f && loc == 0 && okFrom h false r

/-- the body is a disciplined check-then-act: all accesses under the mutex, every write decided on a
    value read in the same critical section -/
def bodyOk (b : Body) : Bool := okFrom false false b

/-- at least one read and one write are listed (the obligation is not met vacuously) -/
def hasReadWrite (b : Body) : Bool :=
  b.any (fun i => match i with | .access _ w => !w | _ => false) &&
  b.any (fun i => match i with | .access _ w => w | _ => false)

/-- all accesses of the body lie in ONE critical section: no access outside the mutex, and the number
    of critical sections that contain an access is at most one.  State: held, this section has an
    access, a finished section had an access. -/
def oneRegionFrom : Bool → Bool → Bool → Body → Bool
  | h, _, _, [] => !h
  | h, _, d, .lock _ :: r => !h && oneRegionFrom true false d r
  | h, c, d, .unlock _ :: r => h && oneRegionFrom false false (d || c) r
  | h, _, d, .access _ _ :: r => h && !d && oneRegionFrom h true d r

def oneRegion (b : Body) : Bool := oneRegionFrom false false false b

/-- does the body access location `loc` with the given mode? -/
def accesses (b : Body) (loc : Nat) (write : Bool) : Bool :=
  b.any (fun i => match i with | .access l w => l == loc && w == write | _ => false)

structure Thr (α : Type) where
  rest : Body          -- instructions still to run
  held : Bool          -- ghost: this thread acquired the mutex and has not released it
  fresh : Bool         -- ghost: `loc` was read in the current critical section, nothing written since
  loc : α              -- the local variable (last value read)

structure St (α β : Type) where
  cell : α
  holder : Option Nat
  thr : Nat → Thr α
  log : List Nat               -- ghost: threads in the order of their writes
  outs : List (Nat × β)        -- ghost: results in the order of the writes

def St.setThr {α β : Type} (s : St α β) (t : Nat) (x : Thr α) : Nat → Thr α := fun u => if u = t then x else s.thr u

section
variable {α β : Type} (op : Nat → α → α × β)

/-- one atomic step of thread `t` -/
inductive Step : St α β → St α β → Prop
  | lock (s : St α β) (t l : Nat) (r : Body) : (s.thr t).rest = .lock l :: r → s.holder = none →
      Step s { s with holder := some t, thr := s.setThr t { (s.thr t) with rest := r, held := true, fresh := false } }
  | unlock (s : St α β) (t l : Nat) (r : Body) : (s.thr t).rest = .unlock l :: r →
      Step s { s with holder := none, thr := s.setThr t { (s.thr t) with rest := r, held := false, fresh := false } }
  | read (s : St α β) (t loc : Nat) (r : Body) : (s.thr t).rest = .access loc false :: r →
      Step s { s with thr := s.setThr t { (s.thr t) with rest := r, loc := s.cell, fresh := (s.thr t).held } }
  | write (s : St α β) (t loc : Nat) (r : Body) : (s.thr t).rest = .access loc true :: r →
      Step s { s with cell := (op t (s.thr t).loc).1, log := s.log ++ [t], outs := s.outs ++ [(t, (op t (s.thr t).loc).2)],
                      thr := s.setThr t { (s.thr t) with rest := r, fresh := false } }

/-- thread `t` runs `prog t` once; local variables start with `d` -/
def init (prog : Nat → Body) (c0 d : α) : St α β :=
  { cell := c0, holder := none, thr := fun t => ⟨prog t, false, false, d⟩, log := [], outs := [] }

inductive Reach (prog : Nat → Body) (c0 d : α) : St α β → Prop
  | init : Reach prog c0 d (init prog c0 d)
  | step {s s' : St α β} : Reach prog c0 d s → Step op s s' → Reach prog c0 d s'

/-- the sequential run: the operations of the threads in `l` applied one after the other -/
def seqRun (c : α) : List Nat → α × List (Nat × β)
  | [] => (c, [])
  | t :: l => let r := seqRun (op t c).1 l; (r.1, (t, (op t c).2) :: r.2)

end
end Aurora.AtomicRegion
