// Package c37: malformed peer messages never crash the node (property C37).
//
// Every op feeds bytes "sent by a remote peer" through a byte-level fake p2p.Stream into a REAL
// stream handler (Protocol().StreamSpecs[i].Handler) or into a REAL client call (the function that
// sends a request and parses the reply), under recover, and then runs the local operations that
// read the state the message may have created.  The model-free oracle is "outcome != panic".
package c37

import (
	"strings"

	"verifharness/core"
)

type prop struct{}

func init() { core.Register(prop{}) }

func (prop) ID() string { return "C37" }
func (prop) Rule() string {
	return "cases: 1-6 ops on one protocol's real service (handshake listener/dialer, hive2, retrieval, chunkinfo req/resp/pyramid, routetab req/resp/findUnderlay/relay/connChain, " +
		"pingpong, trafficprotocol cheque/init, multicast handshake/findGroup/multicast/notify/message and the client reads of each), optional set-up ops that create the local state a message " +
		"interacts with (known file with n chunks, running discovery queue, registered cheque peer, joined+subscribed group); chunkinfo also multi-step ChunkInfoResp sequences on the same (root, overlay): " +
		"a stored presence vector followed by vectors of equal / shorter / longer (by 1 byte, by many) / empty length, every ordered pair of lengths plus random orders of 2-5 (messages that reach the " +
		"service's worker goroutine in those branches run first in a mirror process, whose death is the outcome panic). Stream bytes are (a) structured: every protobuf type with each field " +
		"missing / empty / short / typical / oversized / inconsistent with its siblings, marshalled by the real writer, (b) hand-encoded wire variants (wrong wire type, unknown fields, nested truncation), " +
		"(c) raw: random bytes, truncated frames, length prefix > 1 MiB, trailing frames. Each handler op also runs the later local use of the state it left. Fixed regression cases (fix-...) first. " +
		"Non-trivial: at least one op whose stream decoded into a message (the handler body ran); distinct by op-list hash."
}

type runner struct {
	hs   *hsEnv
	hive *hiveEnv
	ret  *retEnv
	ci   *ciEnv
	rt   *rtEnv
	pp   *ppEnv
	tr   *trEnv
	mc   *mcEnv
}

func (prop) New() core.Runner { return &runner{} }

func (rn *runner) Close() {
	if rn.hive != nil {
		rn.hive.close()
	}
	if rn.rt != nil {
		rn.rt.close()
	}
	if rn.mc != nil {
		rn.mc.close()
	}
	if rn.ci != nil {
		rn.ci.cancel()
		rn.ci.stopMirror()
	}
}

// after a panic / hang the service may hold locks or half-written state: it is discarded
func needsReset(out string) bool {
	return strings.HasPrefix(out, "panic") || strings.Contains(out, " panic") || strings.HasPrefix(out, "hang")
}

func (rn *runner) dropCi() {
	if rn.ci != nil {
		rn.ci.cancel()
		rn.ci.stopMirror()
	}
	rn.ci = nil
}

func (rn *runner) Step(ctx *core.Ctx, op []string) string {
	if len(op) == 0 {
		return "bad-op"
	}
	var out string
	switch {
	case strings.HasPrefix(op[0], "hs."):
		out = rn.stepHs(ctx, op)
	case strings.HasPrefix(op[0], "hive."):
		out = rn.stepHive(ctx, op)
	case strings.HasPrefix(op[0], "ret."):
		out = rn.stepRet(ctx, op)
	case strings.HasPrefix(op[0], "ci."):
		out = rn.stepCi(ctx, op)
	case strings.HasPrefix(op[0], "rt."):
		out = rn.stepRt(ctx, op)
	case strings.HasPrefix(op[0], "ping."):
		out = rn.stepPing(ctx, op)
	case strings.HasPrefix(op[0], "tr."):
		out = rn.stepTr(ctx, op)
	case strings.HasPrefix(op[0], "mc."):
		out = rn.stepMc(ctx, op)
	default:
		return "bad-op"
	}
	if needsReset(out) {
		// the service may hold locks / half-written state: start over (the model resets the protocol too)
		switch {
		case strings.HasPrefix(op[0], "hs."):
			rn.hs = nil
		case strings.HasPrefix(op[0], "hive."):
			rn.hive = nil
		case strings.HasPrefix(op[0], "ret."):
			rn.ret = nil
		case strings.HasPrefix(op[0], "ci."):
			rn.dropCi()
		case strings.HasPrefix(op[0], "rt."):
			rn.rt = nil
		case strings.HasPrefix(op[0], "ping."):
			rn.pp = nil
		case strings.HasPrefix(op[0], "tr."):
			rn.tr = nil
		case strings.HasPrefix(op[0], "mc."):
			rn.mc = nil
		}
	}
	return out
}
