import Driver.Util
import Aurora.Model.Cheque
/-! Driver for C30: runs the cheque-receiving model on the op lines of the harness.
    The recovered signer arrives as the runner annotation `| rec=<id>|err|unk`. -/
namespace Driver.C30
open Aurora.Cheque

/-- number of chain-address ids the harness uses (TrafficCheques enumeration bound) -/
def nAddr : Nat := 16

def parseRec (s : String) : Option (Option Nat) :=
  if s = "rec=err" then some none
  else if s = "rec=unk" then some (some 1000000)
  else if s.startsWith "rec=" then (Driver.parseNat (s.drop 4).toString).map some
  else none

def storeResStr : StoreRes → String
  | .wrongRecipient => "wrong-recipient"
  | .recoverErr => "recover-err"
  | .invalid => "invalid"
  | .notIncreasing => "not-increasing"
  | .ok a => s!"ok {a}"

def resStr : Res → String
  | .unknownPeer => "unknown-peer"
  | .account => "account"
  | .store r => storeResStr r

def chequesStr (l : List (Nat × Nat)) : String :=
  if l.isEmpty then "-" else
  let sorted := l.mergeSort (fun a b => a.1 < b.1 || (a.1 == b.1 && a.2 ≤ b.2))
  " ".intercalate (sorted.map fun (p, v) => s!"{p}:{v}")

def step (st : St) (op : List String) : St × String :=
  match op with
  | ["reg", p, a] =>
    match Driver.parseNat p, Driver.parseNat a with
    | some p, some a => (register st p a, "ok")
    | _, _ => (st, "bad-op")
  | ["recv", p, ben, rcp, cum, _signer, _mut, "|", r] =>
    match Driver.parseNat p, Driver.parseNat ben, Driver.parseNat rcp, Driver.parseNat cum, parseRec r with
    | some p, some ben, some rcp, some cum, some r =>
      let (st', res) := receive st p ⟨ben, rcp, cum⟩ r
      (st', resStr res)
    | _, _, _, _, _ => (st, "bad-op")
  | ["srecv", ben, rcp, cum, _signer, _mut, "|", r] =>
    match Driver.parseNat ben, Driver.parseNat rcp, Driver.parseNat cum, parseRec r with
    | some ben, some rcp, some cum, some r =>
      let (st', res) := storeOnly st ⟨ben, rcp, cum⟩ r
      (st', storeResStr res)
    | _, _, _, _ => (st, "bad-op")
  | ["last", p] =>
    match Driver.parseNat p with
    | some p =>
      match lastReceived st p with
      | none => (st, "empty")
      | some none => (st, "nocheque")
      | some (some c) => (st, s!"{c.ben} {c.rcp} {c.cum}")
    | none => (st, "bad-op")
  | ["cheques"] => (st, chequesStr (cheques st nAddr))
  | _ => (st, "bad-op")

def handler : Driver.Handler := { σ := St, init := init 0, step := step }

end Driver.C30
