package main

// Copy-on-write facts for pkg/subscribe (property C40): `Publish` / `PublishArray` range over the
// slice they `Load` from `keyToNotifier` without any lock, so the model lets a publish that is parked
// inside a `Notify` call go on over the list as it was when the key was loaded.  That is sound only
// if nothing ever overwrites a cell of a slice value that was loaded from (= is published in) the
// map.  This pass reads off pkg/subscribe/*.go, per function (function literals included in their
// function), in source order:
//
//	origin of a local slice variable (join over all its assignments so far; loaded > other > fresh):
//	  loaded  `v, ok := <x>.keyToNotifier.Load(…)`, a type assertion `v.(T)` of such a v, a reslice /
//	          `append` whose base has origin loaded, a plain copy `y := x` of such a variable
//	  fresh   `make(…)`, a composite literal, `nil`, a reslice / `append` whose base is fresh
//	  other   anything else (parameters, calls, fields …)
//	writes   `append(b, …)` with a plain identifier b     → kind tail   (writes only behind len(b))
//	         `append(b[i:j], …)` (any resliced base)      → kind shift  (may overwrite visible cells)
//	         `copy(dst, …)`                               → kind copy
//	         `b[i] = …`, `b[i]++`                         → kind index
//	         each with the origin of its base variable
//	stores   `<x>.keyToNotifier.Store(k, e)` with the origin of e
//	copies   `copy(dst, src)`: (origin dst, origin src) — the `make`+`copy` before the removal loop
//
// Emitted as Aurora/Generated/SubscribeCow.lean; Props/C40.lean proves `C40_removal_on_fresh_copy`
// by `decide` over these tables: every slice `process` stores was made fresh and filled by `copy`
// from the loaded one, and no shift / copy / index write anywhere in the package targets a loaded
// slice.  Replacing the `make`+`copy` by `cSlice := v.([]*subInfo)` (seeded change C40-2) gives the
// rows `⟨"subPub.process", _, .shift, .loaded⟩` and `⟨"subPub.process", _, .loaded⟩` and the theorem fails.

import (
	"bytes"
	"fmt"
	"go/ast"
	"go/parser"
	"go/token"
	"os"
	"path/filepath"
	"sort"
	"strings"
)

func init() {
	extraGenerators["SubscribeCow.lean"] = genSubscribeCow
}

type cowRow struct {
	fn, kind string
	line     int
	origin   string
	src      string // copies only
}

type cowPass struct {
	fset   *token.FileSet
	writes []cowRow
	stores []cowRow
	copies []cowRow
	loads  int
}

func cowJoin(a, b string) string {
	rank := map[string]int{"": 0, "fresh": 1, "other": 2, "loaded": 3}
	if rank[b] > rank[a] {
		return b
	}
	return a
}

// isMapCall: e is `<x>.keyToNotifier.<method>(…)`.
func isMapCall(e ast.Expr, method string) (*ast.CallExpr, bool) {
	c, ok := e.(*ast.CallExpr)
	if !ok {
		return nil, false
	}
	se, ok := c.Fun.(*ast.SelectorExpr)
	if !ok || se.Sel.Name != method {
		return nil, false
	}
	in, ok := se.X.(*ast.SelectorExpr)
	if !ok || in.Sel.Name != "keyToNotifier" {
		return nil, false
	}
	return c, true
}

func cowBase(e ast.Expr) (id *ast.Ident, resliced bool) {
	for {
		switch x := e.(type) {
		case *ast.ParenExpr:
			e = x.X
		case *ast.SliceExpr:
			resliced = true
			e = x.X
		case *ast.Ident:
			return x, resliced
		default:
			return nil, resliced
		}
	}
}

func (p *cowPass) origin(env map[string]string, e ast.Expr) string {
	switch x := e.(type) {
	case *ast.ParenExpr:
		return p.origin(env, x.X)
	case *ast.Ident:
		if x.Name == "nil" {
			return "fresh"
		}
		if o, ok := env[x.Name]; ok {
			return o
		}
		return "other"
	case *ast.TypeAssertExpr:
		return p.origin(env, x.X)
	case *ast.SliceExpr:
		return p.origin(env, x.X)
	case *ast.CompositeLit:
		return "fresh"
	case *ast.CallExpr:
		if _, ok := isMapCall(x, "Load"); ok {
			return "loaded"
		}
		if id, ok := x.Fun.(*ast.Ident); ok {
			switch id.Name {
			case "make":
				return "fresh"
			case "append":
				if len(x.Args) > 0 {
					return p.origin(env, x.Args[0])
				}
			}
		}
	}
	return "other"
}

func (p *cowPass) line(n ast.Node) int { return p.fset.Position(n.Pos()).Line }

func (p *cowPass) fn(name string, body *ast.BlockStmt, params *ast.FieldList) {
	env := map[string]string{}
	if params != nil {
		for _, fl := range params.List {
			for _, nm := range fl.Names {
				env[nm.Name] = "other"
			}
		}
	}
	baseOrigin := func(e ast.Expr) string {
		id, _ := cowBase(e)
		if id == nil {
			return "other"
		}
		return p.origin(env, id)
	}
	// calls are visited in source order together with the assignments (ast.Inspect is pre-order,
	// so an assignment is seen before the calls of its right-hand side: evaluate calls first)
	var walk func(n ast.Node)
	var visitCalls func(n ast.Node)
	visitCalls = func(n ast.Node) {
		ast.Inspect(n, func(x ast.Node) bool {
			if fl, ok := x.(*ast.FuncLit); ok {
				walk(fl.Body) // same environment: a literal may capture and write the locals
				return false
			}
			c, ok := x.(*ast.CallExpr)
			if !ok {
				return true
			}
			if _, ok := isMapCall(c, "Load"); ok {
				p.loads++
			}
			if sc, ok := isMapCall(c, "Store"); ok && len(sc.Args) == 2 {
				p.stores = append(p.stores, cowRow{fn: name, line: p.line(c), origin: p.origin(env, sc.Args[1])})
			}
			if id, ok := c.Fun.(*ast.Ident); ok {
				switch {
				case id.Name == "append" && len(c.Args) > 0:
					_, resl := cowBase(c.Args[0])
					kind := "tail"
					if resl {
						kind = "shift"
					}
					p.writes = append(p.writes, cowRow{fn: name, line: p.line(c), kind: kind, origin: baseOrigin(c.Args[0])})
				case id.Name == "copy" && len(c.Args) == 2:
					p.writes = append(p.writes, cowRow{fn: name, line: p.line(c), kind: "copy", origin: baseOrigin(c.Args[0])})
					p.copies = append(p.copies, cowRow{fn: name, line: p.line(c), origin: baseOrigin(c.Args[0]), src: baseOrigin(c.Args[1])})
				}
			}
			return true
		})
	}
	walk = func(n ast.Node) {
		ast.Inspect(n, func(x ast.Node) bool {
			switch s := x.(type) {
			case *ast.AssignStmt:
				for _, r := range s.Rhs {
					visitCalls(r)
				}
				for _, l := range s.Lhs {
					if ie, ok := l.(*ast.IndexExpr); ok {
						visitCalls(ie.Index)
						p.writes = append(p.writes, cowRow{fn: name, line: p.line(s), kind: "index", origin: baseOrigin(ie.X)})
					}
				}
				if len(s.Lhs) == len(s.Rhs) {
					for i, l := range s.Lhs {
						if id, ok := l.(*ast.Ident); ok && id.Name != "_" {
							o := p.origin(env, s.Rhs[i])
							if s.Tok == token.DEFINE {
								if _, had := env[id.Name]; !had {
									env[id.Name] = o
									continue
								}
							}
							env[id.Name] = cowJoin(env[id.Name], o)
						}
					}
				} else if len(s.Rhs) == 1 { // v, ok := f()
					o := p.origin(env, s.Rhs[0])
					for i, l := range s.Lhs {
						if id, ok := l.(*ast.Ident); ok && id.Name != "_" {
							oo := "other"
							if i == 0 {
								oo = o
							}
							env[id.Name] = cowJoin(env[id.Name], oo)
						}
					}
				}
				return false
			case *ast.IncDecStmt:
				if ie, ok := s.X.(*ast.IndexExpr); ok {
					p.writes = append(p.writes, cowRow{fn: name, line: p.line(s), kind: "index", origin: baseOrigin(ie.X)})
				}
				return false
			case *ast.RangeStmt:
				visitCalls(s.X)
				for _, kv := range []ast.Expr{s.Key, s.Value} {
					if id, ok := kv.(*ast.Ident); ok && id.Name != "_" {
						env[id.Name] = cowJoin(env[id.Name], "other")
					}
				}
				walk(s.Body)
				return false
			case *ast.DeclStmt:
				if gd, ok := s.Decl.(*ast.GenDecl); ok {
					for _, sp := range gd.Specs {
						if vs, ok := sp.(*ast.ValueSpec); ok {
							for _, v := range vs.Values {
								visitCalls(v)
							}
							for i, nm := range vs.Names {
								o := "fresh" // `var x []T` is nil
								if len(vs.Values) == len(vs.Names) {
									o = p.origin(env, vs.Values[i])
								} else if len(vs.Values) > 0 {
									o = "other"
								}
								env[nm.Name] = cowJoin(env[nm.Name], o)
							}
						}
					}
				}
				return false
			case *ast.CallExpr:
				visitCalls(s)
				return false
			}
			return true
		})
	}
	walk(body)
}

func genSubscribeCow(repo string) (string, error) {
	dir := filepath.Join(repo, "pkg/subscribe")
	ents, err := os.ReadDir(dir)
	if err != nil {
		return "", err
	}
	p := &cowPass{fset: token.NewFileSet()}
	for _, e := range ents {
		name := e.Name()
		if !strings.HasSuffix(name, ".go") || strings.HasSuffix(name, "_test.go") {
			continue
		}
		src, err := os.ReadFile(filepath.Join(dir, name))
		if err != nil {
			return "", err
		}
		if bytes.Contains(src, []byte("//go:build verif")) {
			continue // hook files are not part of the shipped program
		}
		f, err := parser.ParseFile(p.fset, name, src, 0)
		if err != nil {
			return "", err
		}
		for _, d := range f.Decls {
			if fd, ok := d.(*ast.FuncDecl); ok && fd.Body != nil {
				fn := fd.Name.Name
				if fd.Recv != nil && len(fd.Recv.List) == 1 { // methods are listed as Type.method
					t := fd.Recv.List[0].Type
					if st, ok := t.(*ast.StarExpr); ok {
						t = st.X
					}
					if id, ok := t.(*ast.Ident); ok {
						fn = id.Name + "." + fn
					}
				}
				p.fn(fn, fd.Body, fd.Type.Params)
			}
		}
	}
	for _, l := range [][]cowRow{p.writes, p.stores, p.copies} {
		l := l
		sort.SliceStable(l, func(i, j int) bool { return l[i].line < l[j].line })
	}
	var sb strings.Builder
	sb.WriteString("-- GENERATED by harness/cmd/extract (subscribe_cow.go) from /repo/pkg/subscribe on every check run — do not edit\n")
	sb.WriteString("namespace Aurora.Generated.SubscribeCow\n\n")
	sb.WriteString("/-- where a slice variable's backing array comes from: made in this function, loaded from `keyToNotifier`\n    (published: a `Publish` may be ranging over it), or something the extractor does not follow -/\n")
	sb.WriteString("inductive Origin where\n  | fresh | loaded | other\nderiving DecidableEq, Repr\n\n")
	sb.WriteString("/-- `tail` = `append(b, …)` (writes behind `len b` only); `shift` = `append(b[i:j], …)`; `copy` = `copy(b, …)`;\n    `index` = `b[i] = …` -/\n")
	sb.WriteString("inductive Kind where\n  | tail | shift | copy | index\nderiving DecidableEq, Repr\n\n")
	sb.WriteString("structure Write where\n  fn : String\n  line : Nat\n  kind : Kind\n  base : Origin\nderiving Repr\n\n")
	sb.WriteString("/-- `keyToNotifier.Store(k, e)`: origin of `e` -/\nstructure Store where\n  fn : String\n  line : Nat\n  val : Origin\nderiving Repr\n\n")
	sb.WriteString("/-- `copy(dst, src)` -/\nstructure Copy where\n  fn : String\n  line : Nat\n  dst : Origin\n  src : Origin\nderiving Repr\n\n")
	list := func(name, typ string, rows []cowRow, f func(r cowRow) string) {
		fmt.Fprintf(&sb, "def %s : List %s := [\n", name, typ)
		for i, r := range rows {
			c := ","
			if i == len(rows)-1 {
				c = ""
			}
			sb.WriteString("  " + f(r) + c + "\n")
		}
		sb.WriteString("]\n\n")
	}
	list("writes", "Write", p.writes, func(r cowRow) string {
		return fmt.Sprintf("⟨%q, %d, .%s, .%s⟩", r.fn, r.line, r.kind, r.origin)
	})
	list("stores", "Store", p.stores, func(r cowRow) string {
		return fmt.Sprintf("⟨%q, %d, .%s⟩", r.fn, r.line, r.origin)
	})
	list("copies", "Copy", p.copies, func(r cowRow) string {
		return fmt.Sprintf("⟨%q, %d, .%s, .%s⟩", r.fn, r.line, r.origin, r.src)
	})
	fmt.Fprintf(&sb, "/-- `keyToNotifier.Load(` call sites (diagnostics) -/\ndef loads : Nat := %d\n\nend Aurora.Generated.SubscribeCow\n", p.loads)
	return sb.String(), nil
}
