import Driver.Util
import Aurora.Model.Localstore
/-!
Line-protocol driver for the localstore model, shared by C11, C13, C14 (and reusable by
C12/C15/C16/C17).  The Go counterpart is `harness/lsharness`.

Op lines (addresses are hex prefixes of the 32-byte address, right-padded with zero bytes;
`-` = no root / empty list):

    put  <req|up|uppin|reqpin|bad> <root|-> <a:data,a:data,…|->
    get  <req|sync|lookup|pin|bad> <root|-> <a>
    getm <req|sync|lookup|pin|bad> <a,a,…|->
    has  <pin|chunk|bad> <a>
    hasm <pin|chunk|bad> <a,a,…|->
    set  <sync|remove|pin|unpin|bad> <root|-> <a,a,…|->
    cap <n>            now <t≥1> <step>
    pyr <root> <cid:n,cid:n,…|-|none>     (script of chunkinfo.GetChunkPyramid; none = unknown file)
    gcsel              gcevict              reopen

Output line: `<result> t=<trigger> | <dump>`; with `crashDumps` (C14) followed by
` || k=<i> <dump of recover(crash i)>` for every prefix length i of the op's driver writes.
-/
namespace Driver.Localstore
open Aurora.Localstore

def pow256 (n : Nat) : Nat := 256 ^ n

/-- hex prefix → 32-byte big-endian number -/
def parseAddr (s : String) : Option Addr :=
  match Driver.hexToBytes s with
  | some bs =>
    if bs.isEmpty || bs.length > 32 then none
    else some ((bs.foldl (fun acc b => acc * 256 + b.toNat) 0) * pow256 (32 - bs.length))
  | none => none

def addrBytes (a : Addr) : List UInt8 :=
  (List.range 32).map (fun i => UInt8.ofNat ((a / pow256 (31 - i)) % 256))

def dropTrailingZeros (l : List UInt8) : List UInt8 :=
  (l.reverse.dropWhile (· == 0)).reverse

def showAddr (a : Addr) : String :=
  let bs := dropTrailingZeros (addrBytes a)
  if bs.isEmpty then "00" else Driver.bytesToHex bs

/-- `boson.Proximity(baseKey = 0…0, a)` -/
def po (a : Addr) : Nat :=
  let top := a / pow256 28
  if top = 0 then 31 else 31 - Nat.log2 top

def parseRoot (s : String) : Option (Option Addr) :=
  if s = "-" then some none else (parseAddr s).map some

def parseList {α : Type} (f : String → Option α) (s : String) : Option (List α) :=
  if s = "-" then some [] else (s.splitOn ",").mapM f

/-- data field of a put op: hex, or `@<seed>.<n>` = `genBytes seed n` (mirrors lsharness.ParseData) -/
def parseData (d : String) : Option Bytes :=
  if d.startsWith "@" then
    match ((d.drop 1).toString).splitOn "." with
    | [a, b] => match a.toNat?, b.toNat? with
      | some seed, some n => if n ≤ 16777216 then some (Driver.genBytes seed n) else none
      | _, _ => none
    | _ => none
  else Driver.hexToBytes d

/-- data in dumps and results: hex up to 256 bytes, beyond that `#<len>.<h>`, h = fold (h*31 + b) in UInt64
    (mirrors lsharness.ShowData) -/
def showData (d : Bytes) : String :=
  if d.length ≤ 256 then Driver.bytesToHex d
  else s!"#{d.length}.{(d.foldl (fun (h : UInt64) b => h * 31 + b.toUInt64) 0).toNat}"

def parseChunk (s : String) : Option (Addr × Bytes) :=
  match s.splitOn ":" with
  | [a, d] => match parseAddr a, parseData d with
    | some a, some d => some (a, d)
    | _, _ => none
  | _ => none

def parseCid (s : String) : Option (Addr × Nat) :=
  match s.splitOn ":" with
  | [a, n] => match parseAddr a, n.toNat? with
    | some a, some n => some (a, n)
    | _, _ => none
  | _ => none

def putMode : String → Option PutMode
  | "req" => some .request | "up" => some .upload | "uppin" => some .uploadPin
  | "reqpin" => some .requestPin | "bad" => some .invalid | _ => none
def getMode : String → Option GetMode
  | "req" => some .request | "sync" => some .sync | "lookup" => some .lookup
  | "pin" => some .pin | "bad" => some .invalid | _ => none
def setMode : String → Option SetMode
  | "sync" => some .sync | "remove" => some .remove | "pin" => some .pin
  | "unpin" => some .unpin | "bad" => some .invalid | _ => none
def hasMode : String → Option HasMode
  | "pin" => some .pin | "chunk" => some .chunk | "bad" => some .invalid | _ => none

def bits (l : List Bool) : String :=
  if l.isEmpty then "-" else String.ofList (l.map (fun b => if b then '1' else '0'))

def commaSep (l : List String) : String := ",".intercalate l

def showErr : Err → String
  | .notFound => "notfound"
  | .invalidMode => "invalid"

def showOut : Out → String
  | .exist l => s!"exist {bits l}"
  | .chunk d => s!"chunk {showData d}"
  | .chunks l => s!"chunks [{commaSep (l.map showData)}]"
  | .bool b => Driver.boolStr b
  | .bools l => s!"bools {bits l}"
  | .ok => "ok"
  | .err e => showErr e
  | .gcIdle => "idle"
  | .gcSel => "sel"
  | .gcDone n d v => s!"done collected={n} done={Driver.boolStr d} visited=[{commaSep (v.map showAddr)}]"
  | .busy => "busy"
  | .nogc => "nogc"

def showDb (db : Db) : String :=
  let d := db.data.map (fun e => s!"{showAddr e.1}:{e.2.binID}:{e.2.storeTs}:{showData e.2.data}")
  let a := db.access.map (fun e => s!"{showAddr e.1}:{e.2}")
  let g := db.gc.map (fun e => s!"{e.1.ts}:{e.1.binID}:{showAddr e.1.addr}={e.2}")
  let p := db.pin.map (fun e => s!"{showAddr e.1}={e.2}")
  let b := db.binIDs.map (fun e => s!"{e.1}={e.2}")
  s!"D[{commaSep d}] A[{commaSep a}] G[{commaSep g}] P[{commaSep p}] B[{commaSep b}] S={db.gcSize}"

def showState (s : State) : String :=
  s!"{showDb s.db} R={Driver.boolStr s.gcRunning} X[{commaSep (s.dirty.map showAddr)}]"

/-- driver state: model state + the pyramid script (environment of `gcEvict`) -/
structure DState where
  s : State
  pyr : List (Addr × Option (List (Addr × Nat))) := []

def initState : DState := { s := init 1000000 }

def parseOp (pyr : List (Addr × Option (List (Addr × Nat)))) : List String → Option Op
  | ["put", m, r, cs] => do
    let m ← putMode m; let r ← parseRoot r; let cs ← parseList parseChunk cs
    pure (.put m r cs)
  | ["get", m, r, a] => do
    let m ← getMode m; let r ← parseRoot r; let a ← parseAddr a
    pure (.get m r a)
  | ["getm", m, as] => do
    let m ← getMode m; let as ← parseList parseAddr as
    pure (.getMulti m as)
  | ["has", m, a] => do
    let m ← hasMode m; let a ← parseAddr a
    pure (.has m a)
  | ["hasm", m, as] => do
    let m ← hasMode m; let as ← parseList parseAddr as
    pure (.hasMulti m as)
  | ["set", m, r, as] => do
    let m ← setMode m; let r ← parseRoot r; let as ← parseList parseAddr as
    pure (.set m r as)
  | ["cap", n] => do let n ← n.toNat?; pure (.setCapacity n)
  | ["now", t, st] => do
    let t ← t.toNat?; let st ← st.toNat?
    if t = 0 then none else pure (.setClock t st)
  | ["gcsel"] => some .gcSelect
  | ["gcevict"] => some (.gcEvict pyr)
  | ["reopen"] => some .reopen
  | _ => none

/-- one protocol step; `crashDumps` adds the recovered state for every write prefix -/
def stepLine (crashDumps : Bool) (st : DState) (ws : List String) : DState × String :=
  match ws with
  | ["pyr", r, spec] =>
    match parseAddr r with
    | none => (st, "bad-op")
    | some r =>
      let v : Option (Option (List (Addr × Nat))) :=
        if spec = "none" then some none else (parseList parseCid spec).map some
      match v with
      | none => (st, "bad-op")
      | some v => ({ st with pyr := SMap.put natLt r v st.pyr }, "ok")
  | _ =>
    match parseOp st.pyr ws with
    | none => (st, "bad-op")
    | some op =>
      let r := run po st.s op
      let base := s!"{showOut r.out} t={Driver.boolStr r.trig} | {showState r.st}"
      let extra :=
        if crashDumps then
          (List.range (r.writes.length + 1)).foldl (fun acc k =>
            acc ++ s!" || k={k} {showDb (recover (crash po st.s op k) st.s.capacity).db}") ""
        else ""
      ({ st with s := r.st }, base ++ extra)

def handler (crashDumps : Bool) : Driver.Handler :=
  { σ := DState, init := initState, step := stepLine crashDumps }

end Driver.Localstore
