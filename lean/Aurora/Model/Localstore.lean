/-
Model of /repo/pkg/localstore (localstore.go, mode_put.go, mode_get.go, mode_get_multi.go,
mode_has.go, mode_set.go, gc.go) at the level of its five shed indexes.  Hand translation,
tied to the code by the C11/C13/C14 correspondence runs (and reused by C12/C15/C16/C17).
Core Lean only.

What is modelled literally (because the properties are about exactly this):

* the five indexes as keyed in `localstore.New`
    data   : Addr ↦ (binID, storeTimestamp, bytes)      retrievalDataIndex
    access : Addr ↦ accessTimestamp                      retrievalAccessIndex
    gc     : (accessTimestamp, binID, rootAddr) ↦ GCounter   gcIndex   (ordered by that key)
    pin    : Addr ↦ PinCounter                            pinIndex
    binIDs : po ↦ last bin id                              binIDs vector
  plus the persisted field `gcSize` and the `schema-name` field (as a flag);
* every operation builds ONE batch and reads **the database, never the batch** while filling it
  (`Tx.db` is what reads see, `Tx.batch` is pending) — so two `setGC` calls in one `Put` both see the
  old `GCounter`;
* the two places that write *outside* the batch: `gcIndex.Put` in `setPin` (GCounter > 1) and
  `pinIndex.Put` in `collectGarbage` (PinCounter > Number).  They are applied to `Tx.db` at once
  (later reads of the same operation see them) and survive an aborted operation;
* an error in the middle of an operation drops the batch (nothing of it is written) but keeps the
  direct writes and the clock ticks and dirty-address logging that already happened;
* `incGCSizeInBatch` silently skips a decrement larger than `gcSize`;
* `collectGarbage` split into `gcSelect` (candidate selection; sets `gcRunning`) and `gcEvict`
  (eviction + recount; an all-dirty / empty run forces `gcSize := 0`); operations executed between the two
  are the "racing" accesses and log dirty addresses;
* startup (`openDb`): writes `schema-name` once, and repairs `gcSize` only upwards;
* `shed.Item.Merge` effects that matter: `Get(ModeGetPin)` returns empty data, `setSync` writes a gc
  entry with `GCounter = 0`; uint64 wrap-around of `GCounter--` / `PinCounter--` / `gcSize-collected`.

Every operation returns its ordered **driver write list** (`List DW`): direct writes in order, then
the batch commit as one write (an empty batch commit is still a write).  The state after the
operation is *defined* as `applyLog db writes`, so `crash` (a prefix of the list) and the completed
operation are the same function.

Conventions: `Addr := Nat` is the 32-byte address read as a big-endian number (byte-lexicographic
order = numeric order).  `po : Addr → Nat` (proximity order to the node's base key) is a parameter.
Timestamps and counters are `Nat`; the clock is `now() = clock; clock += clockStep` (the harness
pins `now` to exactly this through `VerifSetNow`).  The chunk pyramid consulted by eviction
(`chunkinfo.GetChunkPyramid`) is an *argument* of `gcEvict`: `none` = the file is unknown to
chunkinfo (`DelFile` fails with not-found and the candidate is skipped).
-/
namespace Aurora.Localstore

abbrev Addr := Nat
abbrev Bytes := List UInt8

/-! ## Sorted association lists (the shed index abstraction) -/
namespace SMap
variable {κ V : Type} [DecidableEq κ]

/-- first value stored under `k` -/
def get (k : κ) : List (κ × V) → Option V
  | [] => none
  | (k', v) :: m => if k = k' then some v else get k m

def has (k : κ) (m : List (κ × V)) : Bool := (get k m).isSome

/-- remove every entry with key `k` -/
def erase (k : κ) (m : List (κ × V)) : List (κ × V) := m.filter (fun e => decide (e.1 ≠ k))

/-- insert before the first strictly larger key -/
def insertS (lt : κ → κ → Bool) (k : κ) (v : V) : List (κ × V) → List (κ × V)
  | [] => [(k, v)]
  | (k', v') :: m => if lt k k' then (k, v) :: (k', v') :: m else (k', v') :: insertS lt k v m

/-- `Put`: replace or insert in key order -/
def put (lt : κ → κ → Bool) (k : κ) (v : V) (m : List (κ × V)) : List (κ × V) :=
  insertS lt k v (erase k m)

def keys (m : List (κ × V)) : List κ := m.map (·.1)

end SMap

/-! ## Persistent state and driver writes -/

/-- value of retrievalDataIndex -/
structure DataVal where
  binID : Nat
  storeTs : Nat
  data : Bytes
deriving DecidableEq, Repr

/-- key of gcIndex: AccessTimestamp | BinID | Address(of the file root) -/
structure GcKey where
  ts : Nat
  binID : Nat
  addr : Addr
deriving DecidableEq, Repr

def GcKey.lt (a b : GcKey) : Bool :=
  decide (a.ts < b.ts) || (decide (a.ts = b.ts) && (decide (a.binID < b.binID) ||
    (decide (a.binID = b.binID) && decide (a.addr < b.addr))))

def natLt (a b : Nat) : Bool := decide (a < b)

/-- everything localstore persists -/
structure Db where
  data : List (Addr × DataVal) := []
  access : List (Addr × Nat) := []
  gc : List (GcKey × Nat) := []
  pin : List (Addr × Nat) := []
  binIDs : List (Nat × Nat) := []
  gcSize : Nat := 0
  schema : Bool := false
deriving DecidableEq, Repr

/-- one key/value write reaching the storage driver -/
inductive Write
  | dataPut (a : Addr) (v : DataVal)
  | dataDel (a : Addr)
  | accPut (a : Addr) (ts : Nat)
  | accDel (a : Addr)
  | gcPut (k : GcKey) (c : Nat)
  | gcDel (k : GcKey)
  | pinPut (a : Addr) (c : Nat)
  | pinDel (a : Addr)
  | binPut (po id : Nat)
  | gcSizePut (n : Nat)
  | schemaPut
deriving DecidableEq, Repr

/-- one *driver write*: a direct `Put`/`Delete`, or a batch `Commit` (atomic) -/
inductive DW
  | direct (w : Write)
  | batch (ws : List Write)
deriving DecidableEq, Repr

def applyW (db : Db) : Write → Db
  | .dataPut a v => { db with data := SMap.put natLt a v db.data }
  | .dataDel a => { db with data := SMap.erase a db.data }
  | .accPut a t => { db with access := SMap.put natLt a t db.access }
  | .accDel a => { db with access := SMap.erase a db.access }
  | .gcPut k c => { db with gc := SMap.put GcKey.lt k c db.gc }
  | .gcDel k => { db with gc := SMap.erase k db.gc }
  | .pinPut a c => { db with pin := SMap.put natLt a c db.pin }
  | .pinDel a => { db with pin := SMap.erase a db.pin }
  | .binPut p i => { db with binIDs := SMap.put natLt p i db.binIDs }
  | .gcSizePut n => { db with gcSize := n }
  | .schemaPut => { db with schema := true }

def applyBatch (db : Db) (ws : List Write) : Db := ws.foldl applyW db

def applyDW (db : Db) : DW → Db
  | .direct w => applyW db w
  | .batch ws => applyBatch db ws

/-- state of the store after a list of driver writes -/
def applyLog (db : Db) (log : List DW) : Db := log.foldl applyDW db

/-- Σ GCounter over the gc index (what `New` recomputes) -/
def gcSum (gc : List (GcKey × Nat)) : Nat := (gc.map (·.2)).sum

/-! ## uint64 helpers -/
def two64 : Nat := 18446744073709551616
/-- `x--` on a uint64 -/
def dec64 (x : Nat) : Nat := if x = 0 then two64 - 1 else x - 1
/-- `x - y` on uint64 -/
def sub64 (x y : Nat) : Nat := if y ≤ x then x - y else x + two64 - y

/-- `gcBatchSize` (gc.go) -/
def gcBatchSize : Nat := 10000
/-- `gcTarget()`: `uint64(float64(capacity) * 0.9)`; equal to `capacity*9/10` for every capacity
    below 2^50 (0.9 rounds up as a double). -/
def gcTarget (capacity : Nat) : Nat := capacity * 9 / 10

/-! ## Volatile state -/

structure State where
  db : Db := {}
  /-- value the next `now()` call returns -/
  clock : Nat := 1
  /-- `now()` advances the clock by this much after every call -/
  clockStep : Nat := 0
  capacity : Nat := 1000000
  /-- `db.gcRunning`: true exactly between `gcSelect` and `gcEvict` -/
  gcRunning : Bool := false
  /-- `db.dirtyAddresses` -/
  dirty : List Addr := []
  /-- candidates chosen by the last `gcSelect` (gc index entries, in iteration order) -/
  cands : List (GcKey × Nat) := []
  /-- `target` of the run in progress: `gcTarget()` is evaluated once, at the start of `collectGarbage` -/
  runTarget : Nat := 0
deriving Repr

inductive Err
  | notFound      -- driver.ErrNotFound / storage.ErrNotFound
  | invalidMode   -- ErrInvalidMode
deriving DecidableEq, Repr

inductive PutMode | request | upload | uploadPin | requestPin | invalid
deriving DecidableEq, Repr
inductive GetMode | request | sync | lookup | pin | invalid
deriving DecidableEq, Repr
inductive SetMode | sync | remove | pin | unpin | invalid
deriving DecidableEq, Repr
inductive HasMode | pin | chunk | invalid
deriving DecidableEq, Repr

/-- an operation in progress: `db` is what reads see (start state + direct writes so far),
    `batch` the pending batch, `log` the direct writes so far -/
structure Tx where
  db : Db
  batch : List Write := []
  log : List DW := []
  clock : Nat
  clockStep : Nat
  /-- bin ids handed out by this operation (`binIDs` map of `put`) -/
  bins : List (Nat × Nat) := []
  /-- accumulated gcSizeChange -/
  change : Int := 0
deriving Repr

namespace Tx
def now (tx : Tx) : Nat × Tx := (tx.clock, { tx with clock := tx.clock + tx.clockStep })
def inBatch (tx : Tx) (w : Write) : Tx := { tx with batch := tx.batch ++ [w] }
def direct (tx : Tx) (w : Write) : Tx := { tx with db := applyW tx.db w, log := tx.log ++ [DW.direct w] }
def addChange (tx : Tx) (c : Int) : Tx := { tx with change := tx.change + c }
end Tx

/-- `incBinID` -/
def incBinID (tx : Tx) (po : Nat) : Nat × Tx :=
  let cur := match SMap.get po tx.bins with
    | some v => v
    | none => (SMap.get po tx.db.binIDs).getD 0
  (cur + 1, { tx with bins := SMap.put natLt po (cur + 1) tx.bins })

/-- `setGC(batch, rootItem)`; `rootBin` is `rootItem.BinID` (0 = unknown) -/
def setGC (tx : Tx) (root : Option Addr) (rootBin : Nat) : Except (Err × Tx) Tx :=
  match root with
  | none => .ok tx
  | some r =>
    let (ts, tx) := match SMap.get r tx.db.access with
      | some t => (t, tx)
      | none => let (t, tx) := tx.now; (t, tx.inBatch (.accPut r t))
    let bin? := if rootBin = 0 then (SMap.get r tx.db.data).map (·.binID) else some rootBin
    match bin? with
    | none => .error (.notFound, tx)
    | some bin =>
      let key : GcKey := ⟨ts, bin, r⟩
      let cnt := match SMap.get key tx.db.gc with
        | none => 1
        | some c => c + 1
      .ok ((tx.inBatch (.gcPut key cnt)).addChange 1)

/-- the root part of `setPin`: the root's gc entry loses one chunk (`gcIndex.DeleteInBatch` when
    `GCounter = 1`, otherwise a **direct** `gcIndex.Put`), and `gcSizeChange--` whenever the root has
    an access entry — even if no gc entry was found -/
def setPinRoot (tx : Tx) (root : Option Addr) : Except (Err × Tx) Tx :=
  match root with
  | none => .ok tx
  | some r =>
    match SMap.get r tx.db.access with
    | none => .ok tx
    | some t =>
      match SMap.get r tx.db.data with
      | none => .error (.notFound, tx)
      | some rd =>
        match SMap.get (⟨t, rd.binID, r⟩ : GcKey) tx.db.gc with
        | none => .ok (tx.addChange (-1))
        | some c =>
          if c = 1 then .ok ((tx.inBatch (.gcDel ⟨t, rd.binID, r⟩)).addChange (-1))
          else .ok ((tx.direct (.gcPut ⟨t, rd.binID, r⟩ (dec64 c))).addChange (-1))

/-- `setPin(batch, item, rootItem)` -/
def setPin (tx : Tx) (a : Addr) (root : Option Addr) : Except (Err × Tx) Tx :=
  let pc := (SMap.get a tx.db.pin).getD 0
  match setPinRoot tx root with
  | .error e => .error e
  | .ok tx' => .ok (tx'.inBatch (.pinPut a (pc + 1)))

/-- `setUnpin(batch, item, rootItem)` -/
def setUnpin (tx : Tx) (a : Addr) (root : Option Addr) : Except (Err × Tx) Tx :=
  match SMap.get a tx.db.pin with
  | none => .error (.notFound, tx)
  | some pc =>
    if pc > 1 then .ok (tx.inBatch (.pinPut a (pc - 1)))
    else
      let tx := tx.inBatch (.pinDel a)
      match root with
      | none => .ok tx
      | some r =>
        let (t, tx) := match SMap.get r tx.db.access with
          | some t => (t, tx)
          | none => let (t, tx) := tx.now; (t, tx.inBatch (.accPut r t))
        match SMap.get r tx.db.data with
        | none => .error (.notFound, tx)
        | some rd =>
          let key : GcKey := ⟨t, rd.binID, r⟩
          let cnt := match SMap.get key tx.db.gc with
            | none => 1
            | some c => c + 1
          .ok ((tx.inBatch (.gcPut key cnt)).addChange 1)

/-- `setSync(batch, addr)`; note the gc entry is written with `GCounter = 0` -/
def setSync (tx : Tx) (a : Addr) : Except (Err × Tx) Tx :=
  match SMap.get a tx.db.data with
  | none => .ok tx
  | some d =>
    let tx := match SMap.get a tx.db.access with
      | some t => (tx.inBatch (.gcDel ⟨t, d.binID, a⟩)).addChange (-1)
      | none => tx
    let (t', tx) := tx.now
    let tx := tx.inBatch (.accPut a t')
    if SMap.has a tx.db.pin then .ok tx
    else .ok ((tx.inBatch (.gcPut ⟨t', d.binID, a⟩ 0)).addChange 1)

/-- `setRemove(batch, addr, rootAddr)` -/
def setRemove (tx : Tx) (a : Addr) (root : Option Addr) : Except (Err × Tx) Tx :=
  match SMap.get a tx.db.data with
  | none => .error (.notFound, tx)
  | some _ =>
    let pinStep : Tx × Bool := match SMap.get a tx.db.pin with
      | some c =>
        let c' := dec64 c
        if c' > 0 then (tx.inBatch (.pinPut a c'), true) else (tx.inBatch (.pinDel a), false)
      | none => (tx, false)
    if pinStep.2 then .ok pinStep.1
    else
      let tx := (pinStep.1.inBatch (.dataDel a)).inBatch (.accDel a)
      match root with
      | none => .ok tx
      | some r =>
        match SMap.get r tx.db.access with
        | none => .ok tx
        | some t =>
          match SMap.get r tx.db.data with
          | none => .error (.notFound, tx)
          | some rd =>
            let key : GcKey := ⟨t, rd.binID, r⟩
            match SMap.get key tx.db.gc with
            | none => .ok tx
            | some c =>
              let tx := if c > 1 then tx.inBatch (.gcPut key (c - 1))
                        else (tx.inBatch (.accDel r)).inBatch (.gcDel key)
              .ok (tx.addChange (-1))

/-- the common part of `putRequest`/`putUpload` for a new chunk: `StoreTimestamp = now()`, next bin
    id, `retrievalDataIndex.PutInBatch`; returns the bin id -/
def storeNew (po : Addr → Nat) (tx : Tx) (a : Addr) (data : Bytes) : Nat × Tx :=
  ((incBinID tx.now.2 (po a)).1,
   (incBinID tx.now.2 (po a)).2.inBatch (.dataPut a ⟨(incBinID tx.now.2 (po a)).1, tx.now.1, data⟩))

/-- `putRequest` (exists?, tx) -/
def putRequest (po : Addr → Nat) (tx : Tx) (a : Addr) (data : Bytes) (root : Option Addr) (pin : Bool) :
    Except (Err × Tx) (Bool × Tx) :=
  if SMap.has a tx.db.data then .ok (true, tx)
  else
    let rootBin := if root = some a then (storeNew po tx a data).1 else 0
    match (if pin then setPin (storeNew po tx a data).2 a root
           else setGC (storeNew po tx a data).2 root rootBin) with
    | .error e => .error e
    | .ok tx' => .ok (false, tx')

/-- `putUpload` -/
def putUpload (po : Addr → Nat) (tx : Tx) (a : Addr) (data : Bytes) : Bool × Tx :=
  if SMap.has a tx.db.data then (true, tx) else (false, (storeNew po tx a data).2)

/-- result of finishing an operation -/
structure Fin where
  writes : List DW
  clock : Nat
  trigger : Bool

/-- `incGCSizeInBatch` + `batch.Commit()` -/
def commit (capacity : Nat) (tx : Tx) : Fin :=
  let gcSize := tx.db.gcSize
  let (batch, trig) :=
    if tx.change = 0 then (tx.batch, false)
    else if tx.change > 0 then
      let n := (gcSize + tx.change.toNat) % two64
      (tx.batch ++ [.gcSizePut n], decide (n ≥ capacity))
    else
      let c := (-tx.change).toNat
      if c > gcSize then (tx.batch, false)
      else (tx.batch ++ [.gcSizePut (gcSize - c)], decide (gcSize - c ≥ capacity))
  { writes := tx.log ++ [DW.batch batch], clock := tx.clock, trigger := trig }

/-- an operation aborted by an error: the batch is dropped, direct writes stay -/
def abort (tx : Tx) : Fin := { writes := tx.log, clock := tx.clock, trigger := false }

def Tx.start (s : State) : Tx := { db := s.db, clock := s.clock, clockStep := s.clockStep }

/-- the loop of `put` over the chunks (`seen` = addresses of earlier chunks of the same call) -/
def putLoop (po : Addr → Nat) (mode : PutMode) (root : Option Addr) :
    Tx → List Addr → List (Addr × Bytes) → List Bool → Except (Err × Tx) (Tx × List Bool)
  | tx, _, [], acc => .ok (tx, acc.reverse)
  | tx, seen, (a, d) :: rest, acc =>
    if seen.contains a then putLoop po mode root tx (seen ++ [a]) rest (true :: acc)
    else
      match mode with
      | .request | .requestPin =>
        match putRequest po tx a d root (mode == .requestPin) with
        | .error e => .error e
        | .ok (ex, tx') => putLoop po mode root tx' (seen ++ [a]) rest (ex :: acc)
      | .upload =>
        let (ex, tx') := putUpload po tx a d
        putLoop po mode root tx' (seen ++ [a]) rest (ex :: acc)
      | .uploadPin =>
        let (ex, tx') := putUpload po tx a d
        match setPin tx' a root with
        | .error e => .error e
        -- `_, err = db.setPin(...)`: the gcSizeChange returned by setPin is discarded here
        | .ok tx'' => putLoop po mode root { tx'' with change := tx'.change } (seen ++ [a]) rest (ex :: acc)
      | .invalid => .error (.invalidMode, tx)

/-- outputs -/
inductive Out
  | exist (l : List Bool)
  | chunk (data : Bytes)
  | chunks (l : List Bytes)
  | bool (b : Bool)
  | bools (l : List Bool)
  | ok
  | err (e : Err)
  | gcIdle
  | gcSel
  | gcDone (collected : Nat) (done : Bool) (visited : List Addr)
  | busy
  | nogc
deriving DecidableEq, Repr

/-- what an operation yields: new volatile parts, output, and the ordered driver writes -/
structure Res where
  st : State
  out : Out
  writes : List DW
  /-- the operation fired `triggerGarbageCollection` (gcSize reached the capacity) -/
  trig : Bool := false

/-- finish: the persisted state after the op is by definition `applyLog` of its writes -/
def finish (s : State) (f : Fin) (dirty : List Addr) (out : Out) : Res :=
  { st := { s with db := applyLog s.db f.writes, clock := f.clock,
                   dirty := dirty },
    out := out, writes := f.writes, trig := f.trigger }

/-- the fast path of `put`: a single chunk in a non-pinning mode that is already stored returns
    before the lock is taken (no batch, no dirty logging) -/
def putFast (s : State) (mode : PutMode) (chs : List (Addr × Bytes)) : Bool :=
  match chs with
  | [(a, _)] => mode != PutMode.requestPin && mode != PutMode.uploadPin && SMap.has a s.db.data
  | _ => false

/-- `binIDs.PutInBatch` for every bin touched by the call (Go iterates a map; order is irrelevant
    inside one batch, the model uses ascending po) -/
def addBins (tx : Tx) : Tx :=
  tx.bins.foldl (fun (t : Tx) (p : Nat × Nat) => t.inBatch (.binPut p.1 p.2)) tx

/-- `put` under the lock: how the call finishes and what it returns -/
def putBody (po : Addr → Nat) (s : State) (mode : PutMode) (root : Option Addr) (chs : List (Addr × Bytes)) :
    Fin × Out :=
  if mode == PutMode.invalid then (abort (Tx.start s), .err .invalidMode)
  else
    match putLoop po mode root (Tx.start s) [] chs [] with
    | .error (e, tx) => (abort tx, .err e)
    | .ok (tx, ex) => (commit s.capacity (addBins tx), .exist ex)

/-- `DB.Put` -/
def put (po : Addr → Nat) (s : State) (mode : PutMode) (root : Option Addr) (chs : List (Addr × Bytes)) : Res :=
  if putFast s mode chs then { st := s, out := .exist [true], writes := [] }
  else
    finish s (putBody po s mode root chs).1
      (if s.gcRunning then s.dirty ++ chs.map (fun c => c.1) else s.dirty) (putBody po s mode root chs).2

/-- loop of `set` -/
def setLoop (mode : SetMode) (root : Option Addr) : Tx → List Addr → Except (Err × Tx) Tx
  | tx, [] => .ok tx
  | tx, a :: rest =>
    let r : Except (Err × Tx) Tx := match mode with
      | .sync => setSync tx a
      | .remove => setRemove tx a root
      | .pin => if SMap.has a tx.db.data then setPin tx a root else .error (.notFound, tx)
      | .unpin => setUnpin tx a root
      | .invalid => .error (.invalidMode, tx)
    match r with
    | .error e => .error e
    | .ok tx' => setLoop mode root tx' rest

/-- `set` under the lock -/
def setBody (s : State) (mode : SetMode) (root : Option Addr) (addrs : List Addr) : Fin × Out :=
  if mode == SetMode.invalid then (abort (Tx.start s), .err .invalidMode)
  else
    match setLoop mode root (Tx.start s) addrs with
    | .error (e, tx) => (abort tx, .err e)
    | .ok tx => (commit s.capacity tx, .ok)

/-- `DB.Set` -/
def set (s : State) (mode : SetMode) (root : Option Addr) (addrs : List Addr) : Res :=
  finish s (setBody s mode root addrs).1
    (if s.gcRunning then s.dirty ++ addrs else s.dirty) (setBody s mode root addrs).2

/-- `updateGC(item)`: `bin = 0` means the item carries no BinID (root given by context).
    Returns the writes (empty when the function returns before `Commit`). -/
def updateGC (s : State) (a : Addr) (bin : Nat) : State × List DW :=
  let s := if s.gcRunning then { s with dirty := s.dirty ++ [a] } else s
  let ts := (SMap.get a s.db.access).getD 0
  if ts = 0 then (s, [])
  else
    let bin? := if bin = 0 then (SMap.get a s.db.data).map (·.binID) else some bin
    match bin? with
    | none => (s, [])
    | some b =>
      let key : GcKey := ⟨ts, b, a⟩
      match SMap.get key s.db.gc with
      | none => (s, [])
      | some c =>
        let t' := s.clock
        let w := [DW.batch [.gcDel key, .gcPut ⟨t', b, a⟩ c, .accPut a t']]
        ({ s with db := applyLog s.db w, clock := s.clock + s.clockStep }, w)

/-- `DB.Get` (the `updateGC` goroutine of ModeGetRequest is run to completion) -/
def get (s : State) (mode : GetMode) (root : Option Addr) (a : Addr) : Res :=
  match SMap.get a s.db.data with
  | none => { st := s, out := .err .notFound, writes := [] }
  | some d =>
    match mode with
    | .request =>
      let (s', w) := match root with
        | some r => updateGC s r 0
        | none => updateGC s a d.binID
      { st := s', out := .chunk d.data, writes := w }
    | .pin =>
      if SMap.has a s.db.pin then { st := s, out := .chunk [], writes := [] }
      else { st := s, out := .err .notFound, writes := [] }
    | .sync | .lookup => { st := s, out := .chunk d.data, writes := [] }
    | .invalid => { st := s, out := .err .invalidMode, writes := [] }

/-- `DB.GetMulti` -/
def getMulti (s : State) (mode : GetMode) (addrs : List Addr) : Res :=
  match addrs.mapM (fun a => (SMap.get a s.db.data).map (fun d => (a, d))) with
  | none => { st := s, out := .err .notFound, writes := [] }
  | some items =>
    let datas := items.map (·.2.data)
    match mode with
    | .request =>
      let (s', w) := items.foldl (fun (acc : State × List DW) it =>
        let (s1, w1) := updateGC acc.1 it.1 it.2.binID
        (s1, acc.2 ++ w1)) (s, [])
      { st := s', out := .chunks datas, writes := w }
    | .pin =>
      if addrs.all (fun a => SMap.has a s.db.pin) then { st := s, out := .chunks datas, writes := [] }
      else { st := s, out := .err .notFound, writes := [] }
    | .sync | .lookup => { st := s, out := .chunks datas, writes := [] }
    | .invalid => { st := s, out := .err .invalidMode, writes := [] }

/-- `DB.Has` -/
def has (s : State) (mode : HasMode) (a : Addr) : Out :=
  match mode with
  | .pin => .bool (SMap.has a s.db.pin)
  | .chunk => .bool (SMap.has a s.db.data)
  | .invalid => .err .invalidMode

/-- `DB.HasMulti` (an unknown mode falls back to the data index) -/
def hasMulti (s : State) (mode : HasMode) (addrs : List Addr) : Out :=
  match mode with
  | .pin => .bools (addrs.map (fun a => SMap.has a s.db.pin))
  | _ => .bools (addrs.map (fun a => SMap.has a s.db.data))

/-! ## Garbage collection, split at `testHookGCIteratorDone` -/

/-- candidate selection: the `gcIndex.Iterate` callback of `collectGarbage` -/
def selectCands (gcSize target : Nat) : List (GcKey × Nat) → Nat → List (GcKey × Nat)
  | [], _ => []
  | (k, c) :: rest, collected =>
    if sub64 gcSize collected ≤ target then []
    else
      let collected' := (collected + c) % two64
      if collected' ≥ gcBatchSize then [(k, c)]
      else (k, c) :: selectCands gcSize target rest collected'

/-- first half of `collectGarbage`, up to `testHookGCIteratorDone` -/
def gcSelect (s : State) : Res :=
  if s.gcRunning then { st := s, out := .busy, writes := [] }
  else
    let target := gcTarget s.capacity
    if s.db.gcSize ≤ target then { st := { s with dirty := [] }, out := .gcIdle, writes := [] }
    else
      { st := { s with gcRunning := true, dirty := [], runTarget := target,
                       cands := selectCands s.db.gcSize target s.db.gc 0 },
        out := .gcSel, writes := [] }

/-- eviction of one file's pyramid (the body of the `DelFile` callback): returns gcCount -/
def evictPyramid : Tx → List (Addr × Nat) → Nat → Tx × Nat
  | tx, [], n => (tx, n)
  | tx, (cid, num) :: rest, n =>
    match SMap.get cid tx.db.pin with
    | some p =>
      if p > num then evictPyramid (tx.direct (.pinPut cid (p - num))) rest n
      else
        let tx := tx.inBatch (.pinDel cid)
        if SMap.has cid tx.db.data then evictPyramid (tx.inBatch (.dataDel cid)) rest (n + 1)
        else evictPyramid tx rest n
    | none =>
      if SMap.has cid tx.db.data then evictPyramid (tx.inBatch (.dataDel cid)) rest (n + 1)
      else evictPyramid tx rest n

/-- loop over the candidates: (tx, currentCollectedCount, recycled, visited) -/
def evictLoop (pyr : Addr → Option (List (Addr × Nat))) (dirty : List Addr) :
    Tx → List (GcKey × Nat) → Nat → List (GcKey × Nat) → List Addr →
    Tx × Nat × List (GcKey × Nat) × List Addr
  | tx, [], n, rec, vis => (tx, n, rec, vis)
  | tx, (k, c) :: rest, n, rec, vis =>
    match pyr k.addr with
    | none => evictLoop pyr dirty tx rest n rec (vis ++ [k.addr])
    | some chunks =>
      if dirty.contains k.addr then evictLoop pyr dirty tx rest n rec (vis ++ [k.addr])
      else
        let (tx', cnt) := evictPyramid tx chunks 0
        evictLoop pyr dirty tx' rest (n + cnt) (rec ++ [(k, c)]) (vis ++ [k.addr])

/-- second half of `collectGarbage`: eviction, recount, commit -/
def gcEvict (s : State) (pyr : Addr → Option (List (Addr × Nat))) : Res :=
  if !s.gcRunning then { st := s, out := .nogc, writes := [] }
  else
    let target := s.runTarget
    let (tx, n, recycled, visited) := evictLoop pyr s.dirty (Tx.start s) s.cands 0 [] []
    let gcSize := tx.db.gcSize
    let tx : Tx := recycled.foldl (fun (t : Tx) (e : GcKey × Nat) =>
      ((t.inBatch (.dataDel e.1.addr)).inBatch (.accDel e.1.addr)).inBatch (.gcDel e.1)) tx
    let n := n + recycled.length
    let n := if recycled.isEmpty then gcSize else n
    let cur := if n ≤ gcSize then gcSize - n else 0
    let done := !(decide (cur > target))
    let tx := tx.inBatch (.gcSizePut cur)
    let writes := tx.log ++ [DW.batch tx.batch]
    { st := { s with db := applyLog s.db writes, gcRunning := false, dirty := [], cands := [] },
      out := .gcDone n done visited, writes := writes }

/-! ## Startup -/

/-- the writes `localstore.New` performs on an existing database -/
def openWrites (db : Db) : List DW :=
  let w1 := if db.schema then [] else [DW.direct .schemaPut]
  let total := gcSum db.gc % two64   -- `currentSize += item.GCounter` on a uint64
  let w2 := if db.gcSize < total then [DW.direct (.gcSizePut total)] else []
  w1 ++ w2

/-- `localstore.New` on persisted state `db` -/
def openDb (db : Db) (capacity clock clockStep : Nat) : State :=
  { db := applyLog db (openWrites db), capacity := capacity, clock := clock, clockStep := clockStep }

/-- a fresh store -/
def init (capacity : Nat) : State := openDb {} capacity 1 0

/-- close + `New` on the same storage (volatile state is lost, the clock goes on) -/
def reopen (s : State) : Res :=
  if s.gcRunning then { st := s, out := .busy, writes := [] }
  else
    { st := openDb s.db s.capacity s.clock s.clockStep, out := .ok, writes := openWrites s.db }

/-! ## Operations as data -/

inductive Op
  | put (mode : PutMode) (root : Option Addr) (chs : List (Addr × Bytes))
  | get (mode : GetMode) (root : Option Addr) (a : Addr)
  | getMulti (mode : GetMode) (addrs : List Addr)
  | has (mode : HasMode) (a : Addr)
  | hasMulti (mode : HasMode) (addrs : List Addr)
  | set (mode : SetMode) (root : Option Addr) (addrs : List Addr)
  | gcSelect
  | gcEvict (pyr : List (Addr × Option (List (Addr × Nat))))
  | reopen
  | setCapacity (n : Nat)
  | setClock (t step : Nat)
deriving Repr

/-- pyramid script as a function; an address that is not scripted is unknown to chunkinfo -/
def pyrFun (l : List (Addr × Option (List (Addr × Nat)))) (a : Addr) : Option (List (Addr × Nat)) :=
  (SMap.get a l).getD none

def run (po : Addr → Nat) (s : State) : Op → Res
  | .put m r chs => put po s m r chs
  | .get m r a => get s m r a
  | .getMulti m as => getMulti s m as
  | .has m a => { st := s, out := has s m a, writes := [] }
  | .hasMulti m as => { st := s, out := hasMulti s m as, writes := [] }
  | .set m r as => set s m r as
  | .gcSelect => gcSelect s
  | .gcEvict p => gcEvict s (pyrFun p)
  | .reopen => reopen s
  | .setCapacity n => { st := { s with capacity := n }, out := .ok, writes := [] }
  | .setClock t st => { st := { s with clock := t, clockStep := st }, out := .ok, writes := [] }

def step (po : Addr → Nat) (s : State) (op : Op) : State := (run po s op).st

/-- the driver writes of `op` in state `s` -/
def writes (po : Addr → Nat) (s : State) (op : Op) : List DW := (run po s op).writes

/-- persisted state if the process stops after the first `k` driver writes of `op` -/
def crash (po : Addr → Nat) (s : State) (op : Op) (k : Nat) : Db :=
  applyLog s.db ((writes po s op).take k)

/-- reopening after a crash -/
def recover (db : Db) (capacity : Nat) : State := openDb db capacity 1 0

/-- states reachable from a fresh store -/
inductive Reachable (po : Addr → Nat) : State → Prop
  | init (cap : Nat) : Reachable po (init cap)
  | step {s : State} (op : Op) : Reachable po s → Reachable po (step po s op)

end Aurora.Localstore
