import Aurora.Model.Keystore
/-!
# C36 — Keystores protect keys with their password

Model: `Aurora/Model/Keystore.lean`.  `encryptKey`/`decryptKey` (scrypt, AES-CTR, keccak MAC) are
the `Scheme` parameter; what the property needs from them is stated as `Laws` — hypotheses, never
axioms — and instantiated by `toy` at the end of the file (non-vacuity).  `Holds kd s n pw k` reads
"key `k` is stored under name `n` and password `pw`" in keystore `kd` (file or mem).  Statements are
for all names, passwords (any byte strings, empty included), keys, randomness and — where the
property speaks about "asking again" — all histories of operations.
-/
namespace Aurora.Keystore

variable {Key : Type} (S : Scheme Key)

/-- what the property needs from `encryptKey`/`decryptKey`: decrypting with the password used for
    encrypting returns the key; any other password fails the MAC check (MAC collision freedom for
    the derived keys in play); an encrypted key file is never empty. -/
structure Laws : Prop where
  dec_enc : ∀ pw k r, S.dec pw (S.enc pw k r) = .ok k
  dec_wrong : ∀ pw pw' k r, pw' ≠ pw → S.dec pw' (S.enc pw k r) = .invalid
  enc_ne : ∀ pw k r, S.enc pw k r ≠ []

/-- **Returned unchanged for that password, by both keystores, and not created again**:
    if `k` is stored under `(n, pw)`, `Key(n, pw)` returns `k` with `created = false` and leaves
    the store as it is (whatever fresh key / randomness the generator would have produced). -/
theorem C36_get_returns_same_key (L : Laws S) (kd : Kind) (s : St Key) (n pw : Bytes) (k fresh : Key)
    (rnd : Bytes) (h : Holds S kd s n pw k) :
    svcKey S kd s n pw fresh rnd = (.ok (k, false), s) := by
  cases kd with
  | file =>
    obtain ⟨r, hr⟩ := h
    simp [svcKey, fileKey, hr, L.enc_ne, L.dec_enc]
  | mem =>
    simp only [Holds] at h
    simp [svcKey, memKey, h]

/-- **A different password is always rejected as invalid** (`ErrInvalidPassword`), store unchanged. -/
theorem C36_wrong_password_rejected (L : Laws S) (kd : Kind) (s : St Key) (n pw pw' : Bytes)
    (k fresh : Key) (rnd : Bytes) (h : Holds S kd s n pw k) (hne : pw' ≠ pw) :
    svcKey S kd s n pw' fresh rnd = (.invalid, s) := by
  cases kd with
  | file =>
    obtain ⟨r, hr⟩ := h
    simp [svcKey, fileKey, hr, L.enc_ne, L.dec_wrong pw pw' k r hne]
  | mem =>
    simp only [Holds] at h
    have : pw ≠ pw' := fun e => hne e.symm
    simp [svcKey, memKey, h, this]

/-- Creation: asking for a name that has no key (missing/empty file, absent map entry) creates
    one, reports `created = true`, and afterwards that key is stored under `(n, pw)`. -/
theorem C36_create_stores (kd : Kind) (s : St Key) (n pw : Bytes) (fresh : Key) (rnd : Bytes)
    (habs : match kd with | .file => s.files n = [] | .mem => s.mem n = none) :
    (svcKey S kd s n pw fresh rnd).1 = .ok (fresh, true) ∧
    Holds S kd (svcKey S kd s n pw fresh rnd).2 n pw fresh := by
  cases kd with
  | file =>
    simp only at habs
    refine ⟨by simp [svcKey, fileKey, habs], rnd, ?_⟩
    simp [svcKey, fileKey, habs, putFile]
  | mem =>
    simp only at habs
    simp [svcKey, memKey, habs, Holds, putMem]

/-- one step of a history preserves "k is stored under (n, pw)" unless it is an import into `n` -/
theorem holds_step (L : Laws S) (kd : Kind) (s : St Key) (n pw : Bytes) (k : Key) (op : Op Key)
    (h : Holds S kd s n pw k) (hop : ¬ op.importsInto n) : Holds S kd (stepOp S kd s op) n pw k := by
  cases op with
  | key m pw' fresh rnd =>
    by_cases hm : m = n
    · subst hm
      by_cases hp : pw' = pw
      · subst hp
        simp only [stepOp, C36_get_returns_same_key S L kd s m pw' k fresh rnd h]; exact h
      · simp only [stepOp, C36_wrong_password_rejected S L kd s m pw pw' k fresh rnd h hp]; exact h
    · have hnm : ¬ n = m := fun e => hm e.symm
      cases kd with
      | file =>
        obtain ⟨r, hr⟩ := h
        refine ⟨r, ?_⟩
        simp only [stepOp, svcKey, fileKey]
        split
        · simp [putFile, hnm, hr]
        · split <;> exact hr
      | mem =>
        simp only [Holds] at h ⊢
        simp only [stepOp, svcKey, memKey]
        split
        · simp [putMem, hnm, h]
        · split <;> exact h
  | export_ m pw' rnd => exact h
  | import_ m pw' blob rnd =>
    have hm : ¬ n = m := fun e => hop e.symm
    cases kd with
    | file =>
      obtain ⟨r, hr⟩ := h
      refine ⟨r, ?_⟩
      simp only [stepOp, svcImport, fileImport]
      split
      · split
        · simp [putFile, hm, hr]
        · exact hr
        · exact hr
      all_goals exact hr
    | mem => exact h
  | importPK m pw' k' rnd =>
    have hm : ¬ n = m := fun e => hop e.symm
    cases kd with
    | file =>
      obtain ⟨r, hr⟩ := h
      refine ⟨r, ?_⟩
      simp only [stepOp, svcImportPK, fileImportPK]
      split
      · simp [putFile, hm, hr]
      all_goals exact hr
    | mem => exact h

/-- **Asking again returns the same key rather than creating a new one** — over histories: after
    *any* sequence of operations (gets and creations under any names and passwords — right or
    wrong —, exports, imports into other names) the key stored under `(n, pw)` is still `k`, and
    `Key(n, pw)` returns it with `created = false`. -/
theorem C36_second_get_not_created (L : Laws S) (kd : Kind) (s : St Key) (n pw : Bytes) (k : Key)
    (ops : List (Op Key)) (h : Holds S kd s n pw k) (hops : ∀ op ∈ ops, ¬ op.importsInto n)
    (fresh : Key) (rnd : Bytes) :
    Holds S kd (run S kd s ops) n pw k ∧
    (svcKey S kd (run S kd s ops) n pw fresh rnd).1 = .ok (k, false) := by
  have hh : Holds S kd (run S kd s ops) n pw k := by
    induction ops generalizing s with
    | nil => exact h
    | cons op rest ih =>
      simp only [run, List.foldl_cons]
      exact ih (stepOp S kd s op) (holds_step S L kd s n pw k op h (hops op (by simp)))
        (fun o ho => hops o (by simp [ho]))
  exact ⟨hh, by rw [C36_get_returns_same_key S L kd _ n pw k fresh rnd hh]⟩

/-- The full export/import clause for both keystores: exporting the key stored under `(n, pw)` and
    importing the result into a name `m` that holds a key under the same password makes `m` hold
    the exported key. -/
def C36_full : Prop :=
  ∀ (Key : Type) (S : Scheme Key), Laws S → ∀ (kd : Kind) (s : St Key) (n m pw : Bytes) (k k' : Key)
    (r r' : Bytes), Holds S kd s n pw k → Holds S kd s m pw k' →
    ∃ b s', svcExport S kd s n pw r = .ok b ∧ svcImport S kd s m pw b r' = (.ok (), s') ∧
      Holds S kd s' m pw k

/-- **Exporting then importing reproduces the key** — proved for the file keystore (guard
    `kd = .file`; the mem keystore's `ExportKey`/`ImportKey` are `panic("implement me")`, see
    `C36_full_counterexample`).  Also: the exported blob opens to `k` under `pw` and only under
    `pw`; other names are untouched; a wrong password exports nothing. -/
theorem C36_export_import_roundtrip_partial (L : Laws S) (s : St Key) (n m pw : Bytes) (k k' : Key)
    (r r' : Bytes) (hn : Holds S .file s n pw k) (hm : Holds S .file s m pw k') :
    ∃ b s', svcExport S .file s n pw r = .ok b ∧ S.dec pw b = .ok k ∧
      (∀ pw', pw' ≠ pw → S.dec pw' b = .invalid ∧ svcExport S .file s n pw' r = .invalid) ∧
      svcImport S .file s m pw b r' = (.ok (), s') ∧ Holds S .file s' m pw k ∧
      (∀ fresh rnd, (svcKey S .file s' m pw fresh rnd).1 = .ok (k, false)) ∧
      (∀ x, x ≠ m → s'.files x = s.files x) := by
  obtain ⟨rn, hrn⟩ := hn
  obtain ⟨rm, hrm⟩ := hm
  refine ⟨S.enc pw k r, putFile s m (S.enc pw k r'), ?_, L.dec_enc _ _ _, ?_, ?_, ?_, ?_, ?_⟩
  · simp [svcExport, fileExport, fileRead, hrn, L.dec_enc, ofDec]
  · intro pw' hne
    exact ⟨L.dec_wrong _ _ _ _ hne, by simp [svcExport, fileExport, fileRead, hrn, L.dec_wrong pw pw' k rn hne, ofDec]⟩
  · simp [svcImport, fileImport, fileRead, hrm, L.dec_enc, ofDec]
  · exact ⟨r', by simp [putFile]⟩
  · intro fresh rnd
    have : Holds S .file (putFile s m (S.enc pw k r')) m pw k := ⟨r', by simp [putFile]⟩
    rw [C36_get_returns_same_key S L .file _ m pw k fresh rnd this]
  · intro x hx; simp [putFile, hx]

/-- a failed import (wrong password for the existing key, wrong password for the blob, or a blob
    that does not parse) restores the previous file: the store is unchanged -/
theorem C36_failed_import_restores (s : St Key) (n pw blob rnd : Bytes)
    (h : (svcImport S .file s n pw blob rnd).1 ≠ .ok ()) :
    (svcImport S .file s n pw blob rnd).2 = s := by
  simp only [svcImport, fileImport] at h ⊢
  cases hr : fileRead S s n pw with
  | ok k0 =>
    simp only [hr] at h ⊢
    cases hd : S.dec pw blob with
    | ok k1 => simp [hd] at h
    | invalid => rfl
    | bad => rfl
  | invalid => rfl
  | err => rfl
  | panic => rfl

/-! ### non-vacuity and the mem counterexample -/

/-- toy scheme with one-byte keys: the blob is `1 :: key :: password` -/
def toy : Scheme UInt8 :=
  { enc := fun pw k _ => 1 :: k :: pw,
    dec := fun pw b => match b with
      | 1 :: k :: p => if p = pw then .ok k else .invalid
      | _ => .bad }

theorem toyLaws : Laws toy where
  dec_enc := by intro pw k r; simp [toy]
  dec_wrong := by
    intro pw pw' k r h
    have : ¬ pw = pw' := fun e => h e.symm
    simp [toy, this]
  enc_ne := by intro pw k r; simp [toy]

/-- `Holds` is reachable: creating a key in an empty store of either kind makes it hold. -/
example (kd : Kind) : Holds toy kd (svcKey toy kd St.empty [1] [2] 7 []).2 [1] [2] 7 :=
  (C36_create_stores toy kd St.empty [1] [2] 7 [] (by cases kd <;> rfl)).2

/-- **The full clause fails for the mem keystore**: its `ExportKey` panics, so no exported blob
    exists.  (Witness: the store after `Key("\x01", "\x02")`; replayed on the real code in every
    run — oracle clauses `mem-export-unimplemented` / `mem-import-unimplemented`.) -/
theorem C36_full_counterexample : ¬ C36_full := by
  intro h
  have hh : Holds toy .mem (svcKey toy .mem St.empty [1] [2] 7 []).2 [1] [2] 7 :=
    (C36_create_stores toy .mem St.empty [1] [2] 7 [] rfl).2
  obtain ⟨b, s', he, _⟩ := h UInt8 toy toyLaws .mem _ [1] [1] [2] 7 7 [] [] hh hh
  simp [svcExport, memExport] at he

end Aurora.Keystore
