package c37

import (
	"context"
	"time"

	"github.com/gauss-project/aurorafs/pkg/addressbook"
	"github.com/gauss-project/aurorafs/pkg/aurora"
	"github.com/gauss-project/aurorafs/pkg/boson"
	"github.com/gauss-project/aurorafs/pkg/crypto"
	"github.com/gauss-project/aurorafs/pkg/p2p"
	p2pmock "github.com/gauss-project/aurorafs/pkg/p2p/mock"
	"github.com/gauss-project/aurorafs/pkg/p2p/protobuf"
	"github.com/gauss-project/aurorafs/pkg/routetab"
	rtpb "github.com/gauss-project/aurorafs/pkg/routetab/pb"
	mockstate "github.com/gauss-project/aurorafs/pkg/statestore/mock"
	"github.com/gauss-project/aurorafs/pkg/storage"
	"github.com/gauss-project/aurorafs/pkg/topology/lightnode"

	"verifharness/core"
)

// ---- routetab: onRouteReq, onRouteResp, onFindUnderlay, onRelay, onRelayConnChain handlers and the FindUnderlay client read

// relayP2P stands in for libp2p.Service: CallHandler reads the first RouteRelayReq of the stream with the
// real reader and takes the same forward / local decision as libp2p.CallHandler; dispatching to a local
// protocol handler over a virtual stream is NOT reproduced (see notes/C37.md).
type relayP2P struct {
	*p2pmock.Service
	self boson.Address
}

func (s *relayP2P) CallHandler(ctx context.Context, last p2p.Peer, stream p2p.Stream) (*rtpb.RouteRelayReq, *p2p.WriterChan, *p2p.ReaderChan, bool, error) {
	w := &p2p.WriterChan{W: make(chan []byte, 1), Err: make(chan error, 1)}
	r := &p2p.ReaderChan{R: make(chan []byte, 1), Err: make(chan error, 1)}
	req := &rtpb.RouteRelayReq{}
	if err := protobuf.NewReader(stream).ReadMsg(req); err != nil {
		return nil, w, r, false, nil
	}
	if !req.MidCall && !boson.NewAddress(req.Dest).Equal(s.self) {
		return req, w, r, true, nil
	}
	if _, err := aurora.NewModelFromBytes(req.SrcMode); err != nil {
		return req, w, r, !boson.NewAddress(req.Dest).Equal(s.self), err
	}
	return req, w, r, false, nil
}

func (s *relayP2P) CallHandlerWithConnChain(ctx context.Context, last, src p2p.Peer, stream p2p.Stream, protocolName, protocolVersion, streamName string) error {
	return nil
}

type rtEnv struct {
	svc    *routetab.Service
	kb     *kadBox
	st     *fakeStreamer
	ab     addressbook.Interface
	store  storage.StateStorer
	self   boson.Address
	conn   []boson.Address
	cancel context.CancelFunc
	p2ps   *relayP2P
	light  *lightnode.Container
}

func newRtEnv() *rtEnv {
	self := overlayOf("rt-self")
	store := mockstate.NewStateStore()
	ab := addressbook.New(mockstate.NewStateStore())
	st := &fakeStreamer{}
	var conn []boson.Address
	for i := 0; i < 3; i++ {
		conn = append(conn, signedBook(ab, "rt-n"+itoa(int64(i)), "/ip4/8.8.4."+itoa(int64(i+1))+"/tcp/1634"))
	}
	signedBook(ab, "rt-far", "/ip4/9.9.9.9/tcp/1634")
	light := lightnode.NewContainer(self)
	kb := newKad(self, ab, noDiscovery{}, light, conn, nil)
	c, cancel := context.WithCancel(context.Background())
	p2ps := &relayP2P{Service: p2pmock.New(), self: self}
	svc := routetab.New(self, c, p2ps, st, ab, networkID, light, kb.kad, store, noLog, routetab.Options{})
	return &rtEnv{svc: svc, kb: kb, st: st, ab: ab, store: store, self: self, conn: conn, cancel: cancel, p2ps: p2ps, light: light}
}

func (e *rtEnv) close() {
	e.cancel()
	e.kb.close()
}

type noDiscovery struct{}

func (noDiscovery) BroadcastPeers(context.Context, boson.Address, ...boson.Address) error { return nil }
func (noDiscovery) DoFindNode(context.Context, boson.Address, boson.Address, []int32, int32) (chan boson.Address, error) {
	return nil, nil
}
func (noDiscovery) IsStart() bool                       { return false }
func (noDiscovery) IsHive2() bool                       { return false }
func (noDiscovery) NotifyDiscoverWork(...boson.Address) {}

// signedBook stores a correctly signed address record for key `name`.
func signedBook(ab addressbook.Interface, name, underlay string) boson.Address {
	a := signedAddress(name, underlay)
	_ = ab.Put(a.Overlay, *a)
	return a.Overlay
}

func signedAddress(name, underlay string) *aurora.Address {
	a, err := aurora.NewAddress(crypto.NewDefaultSigner(keyOf(name)), mustMA(underlay), overlayOf(name), networkID)
	if err != nil {
		panic(err)
	}
	return a
}

func annPaths(ps []*rtpb.Path) []string {
	t := []string{itoa(int64(len(ps)))}
	for _, p := range ps {
		t = append(t, hx(p.Sign), itoa(int64(len(p.Bodys))))
		for _, b := range p.Bodys {
			t = append(t, hx(b))
		}
		t = append(t, itoa(int64(len(p.Items))))
		for _, b := range p.Items {
			t = append(t, hx(b))
		}
	}
	return t
}

func annUList(us []*rtpb.UnderlayResp) []string {
	t := []string{itoa(int64(len(us)))}
	for _, u := range us {
		_, err := aurora.ParseAddress(u.Underlay, u.Dest, u.Signature, networkID)
		t = append(t, hx(u.Dest), hx(u.Underlay), hx(u.Signature), core.B(err == nil))
	}
	return t
}

func (rn *runner) stepRt(ctx *core.Ctx, op []string) string {
	if len(op) != 3 {
		return "bad-op"
	}
	stream, err := core.UnHex(op[2])
	if err != nil {
		return "bad-op"
	}
	if rn.rt == nil {
		rn.rt = newRtEnv()
	}
	e := rn.rt
	peer := p2p.Peer{Address: overlayOf(op[1]), Mode: fullMode}
	specs := e.svc.Protocol().StreamSpecs
	fr := newFrameReader(stream)
	bg := context.Background()
	e.st.setReply(nil)
	isNb := func(b []byte) bool { return e.svc.IsNeighbor(boson.NewAddress(b)) }
	switch op[0] {
	case "rt.req":
		var req rtpb.RouteReq
		var dests [][]byte
		ctx.Annotate(hx(e.self.Bytes()))
		if ok, _ := fr.next(&req); !ok {
			ctx.Annotate("X")
		} else {
			t := []string{"Q", hx(req.Dest), itoa(int64(req.Alpha)), itoa(int64(req.UType)), core.B(boson.NewAddress(req.Dest).Equal(e.self)), core.B(isNb(req.Dest))}
			t = append(t, annPaths(req.Paths)...)
			ctx.Annotate(append(t, annUList(req.UList)...)...)
			dests = append(dests, req.Dest)
			for _, p := range req.Paths {
				dests = append(dests, p.Items...)
			}
		}
		o := run(func() error { return specs[0].Handler(bg, peer, newStream(stream)) })
		report(ctx, o, "routetab-req", "routetab.onRouteReq")
		return o.class + e.later(ctx, o, dests, "req")
	case "rt.resp":
		var resp rtpb.RouteResp
		var dests [][]byte
		ctx.Annotate(hx(e.self.Bytes()))
		if ok, _ := fr.next(&resp); !ok {
			ctx.Annotate("X")
		} else {
			t := []string{"S", hx(resp.Dest), itoa(int64(resp.UType))}
			t = append(t, annPaths(resp.Paths)...)
			ctx.Annotate(append(t, annUList(resp.UList)...)...)
			dests = append(dests, resp.Dest)
			for _, p := range resp.Paths {
				dests = append(dests, p.Items...)
			}
		}
		o := run(func() error { return specs[1].Handler(bg, peer, newStream(stream)) })
		report(ctx, o, "routetab-resp", "routetab.onRouteResp")
		return o.class + e.later(ctx, o, dests, "resp")
	case "rt.findunderlay":
		var req rtpb.UnderlayReq
		if ok, _ := fr.next(&req); !ok {
			ctx.Annotate("X")
		} else {
			_, err := e.ab.Get(boson.NewAddress(req.Dest))
			ctx.Annotate("U", hx(req.Dest), core.B(err == nil))
		}
		o := run(func() error { return specs[2].Handler(bg, peer, newStream(stream)) })
		report(ctx, o, "routetab-findunderlay", "routetab.onFindUnderlay")
		return o.class
	case "rt.relay", "rt.connchain":
		var req rtpb.RouteRelayReq
		if ok, _ := fr.next(&req); !ok {
			ctx.Annotate("X")
		} else {
			_, merr := aurora.NewModelFromBytes(req.SrcMode)
			// oracle fact: is there a usable next hop for Dest (neighbour, or a stored route through a neighbour not on the path)?
			var skips []boson.Address
			for _, p := range append(append([][]byte(nil), req.Paths...), e.self.Bytes()) {
				skips = append(skips, boson.NewAddress(p))
			}
			c, cancel := context.WithCancel(bg)
			cancel()
			_, nerr := e.svc.GetNextHopRandomOrFind(c, boson.NewAddress(req.Dest), skips...)
			t := []string{"L", hx(req.Src), hx(req.SrcMode), hx(req.Dest), core.B(req.MidCall), itoa(int64(len(req.Paths))),
				core.B(boson.NewAddress(req.Dest).Equal(e.self)), core.B(isNb(req.Dest)), core.B(merr == nil), core.B(nerr == nil)}
			ctx.Annotate(t...)
		}
		idx := 3
		if op[0] == "rt.connchain" {
			idx = 4
		}
		o := run(func() error {
			c, cancel := context.WithTimeout(bg, 400*time.Millisecond)
			defer cancel()
			return specs[idx].Handler(c, peer, newStream(stream))
		})
		report(ctx, o, "routetab-"+op[0][3:], "routetab."+op[0][3:])
		return o.class
	case "rt.dofindunderlay":
		// client: FindUnderlay parses the peer's UnderlayResp
		var resp rtpb.UnderlayResp
		if ok, _ := fr.next(&resp); !ok {
			ctx.Annotate("X")
		} else {
			_, err := aurora.ParseAddress(resp.Underlay, resp.Dest, resp.Signature, networkID)
			ctx.Annotate("V", hx(resp.Dest), hx(resp.Underlay), hx(resp.Signature), core.B(err == nil))
		}
		e.st.setReply(stream)
		var got *aurora.Address
		o := run(func() error {
			a, err := e.svc.FindUnderlay(bg, peer.Address)
			got = a
			return err
		})
		report(ctx, o, "routetab-dofindunderlay", "routetab.FindUnderlay")
		if o.class != "ok" {
			return o.class
		}
		l := run(func() error {
			_ = got.Underlay.String()
			_, _ = e.ab.Get(got.Overlay)
			// the record is served to the next peer that asks
			return specs[2].Handler(bg, peer, newStream(frame(&rtpb.UnderlayReq{Dest: got.Overlay.Bytes()})))
		})
		report(ctx, l, "routetab-dofindunderlay-later-use", "use of the stored address record")
		return o.class + " " + l.class
	}
	return "bad-op"
}

// later local use of routes / address records a route message stored: lookups, next hops, deletion, and a restart over the same store.
func (e *rtEnv) later(ctx *core.Ctx, o outcome, dests [][]byte, which string) string {
	if o.class != "ok" {
		return ""
	}
	l := run(func() error {
		bg := context.Background()
		if len(dests) > 12 {
			dests = dests[:12]
		}
		c, cancel := context.WithCancel(bg)
		cancel()
		for _, d := range dests {
			a := boson.NewAddress(d)
			_, _ = e.svc.GetRoute(bg, a)
			_, _ = e.svc.GetNextHopRandomOrFind(c, a)
			_, _ = e.ab.Get(a)
		}
		// restart over the same state store: ResumeRoutes / ResumePaths / Gc
		c2, cancel2 := context.WithCancel(bg)
		svc2 := routetab.New(e.self, c2, e.p2ps, e.st, e.ab, networkID, e.light, e.kb.kad, e.store, noLog, routetab.Options{})
		for _, d := range dests {
			_, _ = svc2.GetRoute(bg, boson.NewAddress(d))
		}
		cancel2()
		if len(dests) > 0 {
			_ = e.svc.DelRoute(bg, boson.NewAddress(dests[0]))
		}
		return nil
	})
	report(ctx, l, "routetab-"+which+"-later-use", "route lookups / restart after a route message")
	return " " + l.class
}
