import Aurora.Lemmas.Mantaray
/-! In-memory (fully loaded) tries: pure lookup `get`, the map law for `add` (own path and frame
    condition), `hasPrefix` law, and the histories theorem. -/
namespace Aurora.Mantaray

/-! ## lists -/

theorem isPrefix_iff (a b : Bytes) : isPrefix a b = true ↔ ∃ s, b = a ++ s := by
  induction a generalizing b with
  | nil => simp [isPrefix]
  | cons x xs ih =>
    cases b with
    | nil => simp [isPrefix]
    | cons y ys =>
      simp only [isPrefix, Bool.and_eq_true, beq_iff_eq, List.cons_append, List.cons.injEq, ih]
      constructor
      · rintro ⟨rfl, s, rfl⟩; exact ⟨s, rfl, rfl⟩
      · rintro ⟨s, rfl, rfl⟩; exact ⟨rfl, s, rfl⟩

theorem isPrefix_append_self (a s : Bytes) : isPrefix a (a ++ s) = true := (isPrefix_iff _ _).2 ⟨s, rfl⟩

theorem common_prefix_left (a b : Bytes) : ∃ s, a = common a b ++ s := by
  induction a generalizing b with
  | nil => exact ⟨[], by cases b <;> rfl⟩
  | cons x xs ih =>
    cases b with
    | nil => exact ⟨x :: xs, rfl⟩
    | cons y ys =>
      by_cases h : x = y
      · subst h
        obtain ⟨s, hs⟩ := ih ys
        exact ⟨s, by simp only [common, if_true, List.cons_append]; rw [← hs]⟩
      · exact ⟨x :: xs, by simp [common, h]⟩

theorem common_prefix_right (a b : Bytes) : ∃ s, b = common a b ++ s := by
  induction a generalizing b with
  | nil => exact ⟨b, by cases b <;> rfl⟩
  | cons x xs ih =>
    cases b with
    | nil => exact ⟨[], rfl⟩
    | cons y ys =>
      by_cases h : x = y
      · subst h
        obtain ⟨s, hs⟩ := ih ys
        exact ⟨s, by simp only [common, if_true, List.cons_append]; rw [← hs]⟩
      · exact ⟨y :: ys, by simp [common, h]⟩

theorem common_len_iff (a b : Bytes) : (common a b).length = a.length ↔ isPrefix a b = true := by
  constructor
  · intro h
    obtain ⟨s, hs⟩ := common_prefix_left a b
    have : s = [] := by
      have := congrArg List.length hs
      simp only [List.length_append] at this
      exact List.eq_nil_of_length_eq_zero (by omega)
    subst this
    rw [List.append_nil] at hs
    obtain ⟨s2, hs2⟩ := common_prefix_right a b
    rw [← hs] at hs2
    exact (isPrefix_iff _ _).2 ⟨s2, hs2⟩
  · intro h; rw [common_of_isPrefix a b h]

/-! ## pure lookup -/

/-- `LookupNode` without the loading side effect (for loaded tries) -/
def get : Nat → Node → Bytes → Option Node
  | 0, _, _ => none
  | _ + 1, n, [] => some n
  | f + 1, n, k :: t =>
    match findFork n.forks k with
    | none => none
    | some (pfx, child) =>
      if isPrefix pfx (k :: t) then get f child ((k :: t).drop pfx.length) else none

def semNode (x : Node) : Option (Bytes × Meta) := if x.value then some (x.entry, x.md) else none

/-- what `Lookup` answers on a loaded trie -/
def sem (f : Nat) (n : Node) (q : Bytes) : Option (Bytes × Meta) := (get f n q).bind semNode

/-- every node of the trie is loaded (Go: `forks != nil` everywhere) -/
inductive Mem : Node → Prop
  | mk (v w : Bool) (r : Option PTree) (e : Bytes) (m : Meta) (f : List (Bytes × Node)) :
      (∀ pc ∈ f, Mem pc.2) → Mem (.mk v w r e m true f)

theorem Mem.loaded {n : Node} (h : Mem n) : n.loaded = true := by cases h; rfl
theorem Mem.child {n : Node} (h : Mem n) {pc : Bytes × Node} (hpc : pc ∈ n.forks) : Mem pc.2 := by
  cases h with
  | mk v w r e m f hf => exact hf pc hpc

theorem Mem.setForks {n : Node} (h : Mem n) (fs : List (Bytes × Node)) (hfs : ∀ pc ∈ fs, Mem pc.2) :
    Mem (n.setForks fs) := by
  cases h with
  | mk v w r e m f hf => exact Mem.mk v w r e m fs hfs

theorem Mem.new : Mem Node.new := Mem.mk _ _ _ _ _ [] (by simp)

theorem Mem.setEntry {n : Node} (h : Mem n) (e : Bytes) (md : Meta) : Mem (n.setEntry e md) := by
  cases h with
  | mk v w r e0 m f hf =>
    simp only [Node.setEntry]
    split <;> exact Mem.mk _ _ _ _ _ f hf

theorem findFork_mem {fs : List (Bytes × Node)} {k : UInt8} {x : Bytes × Node}
    (h : findFork fs k = some x) : x ∈ fs := List.mem_of_find?_eq_some h

theorem mem_setFork {fs : List (Bytes × Node)} {k : UInt8} {x : Bytes × Node} {P : Bytes × Node → Prop}
    (hfs : ∀ pc ∈ fs, P pc) (hx : P x) : ∀ pc ∈ setFork fs k x, P pc := by
  induction fs with
  | nil => intro pc hpc; simp [setFork] at hpc; subst hpc; exact hx
  | cons g rest ih =>
    intro pc hpc
    unfold setFork at hpc
    split at hpc
    · simp only [List.mem_cons] at hpc
      rcases hpc with rfl | h
      · exact hx
      · exact hfs pc (by simp [h])
    · simp only [List.mem_cons] at hpc
      rcases hpc with rfl | h
      · exact hfs _ (by simp)
      · exact ih (fun y hy => hfs y (by simp [hy])) pc h

theorem setFork_self {fs : List (Bytes × Node)} {k : UInt8} {x : Bytes × Node}
    (h : findFork fs k = some x) : setFork fs k x = fs := by
  induction fs with
  | nil => simp [findFork] at h
  | cons g rest ih =>
    unfold findFork at h ih
    unfold setFork
    by_cases hg : (g.1.head? == some k) = true
    · simp only [List.find?_cons, hg, Option.some.injEq] at h
      subst h
      simp [hg]
    · simp only [List.find?_cons, hg] at h
      simp only [hg, Bool.false_eq_true, if_false, ih h]

theorem findFork_setFork_other (fs : List (Bytes × Node)) (k k' : UInt8) (x : Bytes × Node)
    (hx : x.1.head? = some k) (hk : k' ≠ k) : findFork (setFork fs k x) k' = findFork fs k' := by
  have hx' : (x.1.head? == some k') = false := by
    rw [hx]; simp; exact fun h => hk h.symm
  induction fs with
  | nil => simp [setFork, findFork, hx']
  | cons g rest ih =>
    unfold setFork
    by_cases hg : (g.1.head? == some k) = true
    · have hg' : (g.1.head? == some k') = false := by
        have : g.1.head? = some k := by simpa using hg
        rw [this]; simp; exact fun h => hk h.symm
      simp [hg, findFork, hx', hg']
    · simp only [hg, Bool.false_eq_true, if_false]
      unfold findFork at ih ⊢
      simp only [List.find?_cons]
      split
      · rfl
      · exact ih

theorem setForks_self (n : Node) : n.setForks n.forks = n := by cases n; rfl

/-- on a loaded trie `LookupNode` changes nothing and finds what `get` finds -/
theorem lookupNode_eq_get : ∀ (f : Nat) (n : Node) (p : Bytes), Mem n → lookupNode f n p = (n, get f n p) := by
  intro f
  induction f with
  | zero => intro n p _; rfl
  | succ f ih =>
    intro n p hm
    have hl := load_stable n (Or.inl hm.loaded)
    cases p with
    | nil => simp [lookupNode, get, hl]
    | cons k t =>
      simp only [lookupNode, get, hl]
      cases hff : findFork n.forks k with
      | none => rfl
      | some pc =>
        obtain ⟨pfx, child⟩ := pc
        simp only
        by_cases hp : isPrefix pfx (k :: t) = true
        · have hc := (common_len_iff pfx (k :: t)).2 hp
          simp only [if_true, hp, common_of_isPrefix _ _ hp]
          rw [ih child _ (hm.child (findFork_mem hff))]
          simp [setFork_self hff, setForks_self]
        · have hc : ¬ (common pfx (k :: t)).length = pfx.length := fun h => hp ((common_len_iff _ _).1 h)
          simp [hc, hp]


/-! ## fuel -/

theorem get_fuel : ∀ (f1 f2 : Nat) (n : Node) (q : Bytes), q.length < f1 → q.length < f2 →
    get f1 n q = get f2 n q := by
  intro f1
  induction f1 with
  | zero => intro f2 n q h; omega
  | succ f1 ih =>
    intro f2 n q h1 h2
    cases f2 with
    | zero => omega
    | succ f2 =>
      cases q with
      | nil => rfl
      | cons k t =>
        simp only [get]
        cases hff : findFork n.forks k with
        | none => rfl
        | some pc =>
          obtain ⟨pfx, child⟩ := pc
          simp only
          split
          · have hpos : 0 < pfx.length := by
              have := findFork_some_head hff
              cases pfx with
              | nil => simp at this
              | cons a b => simp
            apply ih <;> (simp only [List.length_drop, List.length_cons] at *; omega)
          · rfl

theorem sem_fuel (f1 f2 : Nat) (n : Node) (q : Bytes) (h1 : q.length < f1) (h2 : q.length < f2) :
    sem f1 n q = sem f2 n q := by unfold sem; rw [get_fuel f1 f2 n q h1 h2]

/-! ## unfolding `sem` -/

theorem sem_nil (f : Nat) (n : Node) : sem (f + 1) n [] = semNode n := rfl

theorem sem_cons (f : Nat) (n : Node) (k : UInt8) (t : Bytes) :
    sem (f + 1) n (k :: t) =
      match findFork n.forks k with
      | none => none
      | some pc => if isPrefix pc.1 (k :: t) then sem f pc.2 ((k :: t).drop pc.1.length) else none := by
  unfold sem
  simp only [get]
  cases findFork n.forks k with
  | none => rfl
  | some pc =>
    obtain ⟨pfx, child⟩ := pc
    simp only
    split <;> rfl

theorem sem_setFork_other (f : Nat) (n : Node) (k k' : UInt8) (t : Bytes) (x : Bytes × Node)
    (hx : x.1.head? = some k) (hk : k' ≠ k) :
    sem (f + 1) (n.setForks (setFork n.forks k x)) (k' :: t) = sem (f + 1) n (k' :: t) := by
  rw [sem_cons, sem_cons, setForks_forks, findFork_setFork_other _ _ _ _ hx hk]

theorem sem_setFork_same (f : Nat) (n : Node) (k : UInt8) (t : Bytes) (x : Bytes × Node)
    (hx : x.1.head? = some k) :
    sem (f + 1) (n.setForks (setFork n.forks k x)) (k :: t) =
      if isPrefix x.1 (k :: t) then sem f x.2 ((k :: t).drop x.1.length) else none := by
  rw [sem_cons, setForks_forks, findFork_setFork_same _ _ _ hx]

theorem semNode_setForks (n : Node) (fs) : semNode (n.setForks fs) = semNode n := by cases n; rfl

/-- a node without forks answers only the empty path -/
theorem sem_noforks (f : Nat) (n : Node) (hn : n.forks = []) (q : Bytes) :
    sem (f + 1) n q = if q = [] then semNode n else none := by
  cases q with
  | nil => simp [sem_nil]
  | cons k t => rw [sem_cons, hn]; simp [findFork]

theorem setEntry_forks (n : Node) (e md) : (n.setEntry e md).forks = n.forks := by
  cases n; simp only [Node.setEntry]; split <;> rfl

theorem semNode_setEntry (n : Node) (e : Bytes) (md : Meta) (hmd : md ≠ []) :
    semNode (n.setEntry e md) = some (e, md) := by
  have := (setEntry_spec n e md hmd).1
  unfold semNode; simp [this.1, this.2.1, this.2.2]

/-- `q = a ++ s`-style facts used below -/
theorem eq_iff_prefix_drop (p q : Bytes) : q = p ↔ (isPrefix p q = true ∧ q.drop p.length = []) := by
  constructor
  · rintro rfl; exact ⟨by simpa using isPrefix_append_self q [], by simp⟩
  · rintro ⟨h1, h2⟩
    obtain ⟨s, rfl⟩ := (isPrefix_iff _ _).1 h1
    rw [List.drop_left] at h2
    simp [h2]


theorem eq_append_iff (a s q : Bytes) : q = a ++ s ↔ (isPrefix a q = true ∧ q.drop a.length = s) := by
  constructor
  · rintro rfl; exact ⟨isPrefix_append_self a s, by rw [List.drop_left]⟩
  · rintro ⟨h1, h2⟩
    obtain ⟨s', rfl⟩ := (isPrefix_iff _ _).1 h1
    rw [List.drop_left] at h2
    rw [h2]

theorem isPrefix_append (a b q : Bytes) :
    isPrefix (a ++ b) q = (isPrefix a q && isPrefix b (q.drop a.length)) := by
  induction a generalizing q with
  | nil => simp [isPrefix]
  | cons x xs ih =>
    cases q with
    | nil => simp [isPrefix]
    | cons y ys =>
      simp only [List.cons_append, isPrefix, List.length_cons, List.drop_succ_cons, ih, Bool.and_assoc]

theorem isPrefix_head {r : Bytes} {k : UInt8} {t : Bytes} (hr : r ≠ []) (h : isPrefix r (k :: t) = true) :
    r.head? = some k := by
  cases r with
  | nil => exact absurd rfl hr
  | cons a b =>
    simp only [isPrefix, Bool.and_eq_true, beq_iff_eq] at h
    simp [h.1]

/-- the node an edge split inserts: one fork `(rest, child)` -/
theorem sem_mid (f : Nat) (v : Bool) (rest : Bytes) (child : Node) (hr : rest ≠ []) (q : Bytes) :
    sem (f + 1) (Node.mk v false none [] [] true [(rest, child)]) q =
      if q = [] then (if v then some ([], []) else none)
      else if isPrefix rest q then sem f child (q.drop rest.length) else none := by
  cases q with
  | nil => cases v <;> simp [sem_nil, semNode, Node.value, Node.entry, Node.md]
  | cons k t =>
    rw [sem_cons]
    simp only [Node.forks, findFork, List.find?_cons, List.find?_nil]
    by_cases hp : isPrefix rest (k :: t) = true
    · have := isPrefix_head hr hp
      simp [this, hp]
    · by_cases hh : (rest.head? == some k) = true
      · simp [hh, hp]
      · simp [hh, hp]


theorem semNode_new : semNode Node.new = none := rfl

/-- The map law of `Add` on loaded tries: the added path answers the new entry, every other path
    answers as before. -/
theorem sem_add (e : Bytes) (md : Meta) (hmd : md ≠ []) :
    ∀ (fa : Nat) (n : Node) (p : Bytes) (n' : Node), Mem n → p.length < fa →
      add fa n p e md = some n' →
      Mem n' ∧ ∀ (fl : Nat) (q : Bytes), q.length < fl →
        sem fl n' q = if q = p then some (e, md) else sem fl n q := by
  intro fa
  induction fa with
  | zero => intro n p n' _ h; omega
  | succ fa ih =>
    intro n p n' hm hfa hadd
    cases p with
    | nil =>
      simp only [add, Option.some.injEq] at hadd
      subst hadd
      refine ⟨hm.setEntry e md, ?_⟩
      intro fl q hq
      cases fl with
      | zero => omega
      | succ f =>
        cases q with
        | nil => simp [sem_nil, semNode_setEntry n e md hmd]
        | cons k t => rw [sem_cons, sem_cons, setEntry_forks]; simp
    | cons k t =>
      simp only [add, hm.loaded, if_true] at hadd
      -- common shape of the three results: one fork replaced
      have frame : ∀ (x : Bytes × Node), x.1.head? = some k → Mem x.2 →
          (∀ (f : Nat) (t' : Bytes), (k :: t').length < f + 1 →
            (if isPrefix x.1 (k :: t') then sem f x.2 ((k :: t').drop x.1.length) else none) =
              if k :: t' = k :: t then some (e, md) else sem (f + 1) n (k :: t')) →
          Mem (n.setForks (setFork n.forks k x)) ∧ ∀ (fl : Nat) (q : Bytes), q.length < fl →
            sem fl (n.setForks (setFork n.forks k x)) q =
              if q = k :: t then some (e, md) else sem fl n q := by
        intro x hx hmx hsame
        refine ⟨hm.setForks _ (mem_setFork (P := fun pc => Mem pc.2) (fun pc hpc => hm.child hpc) hmx), ?_⟩
        intro fl q hq
        cases fl with
        | zero => omega
        | succ f =>
          cases q with
          | nil => simp [sem_nil, semNode_setForks]
          | cons k' t' =>
            by_cases hk : k' = k
            · subst hk
              rw [sem_setFork_same _ _ _ _ _ hx]
              exact hsame f t' hq
            · rw [sem_setFork_other _ _ _ _ _ _ hx hk]
              have : ¬ (k' :: t' = k :: t) := by intro h; injection h with h1 _; exact hk h1
              simp [this]
      cases hff : findFork n.forks k with
      | none =>
        simp only [hff, hm.loaded, Bool.not_true, Bool.false_eq_true, if_false] at hadd
        by_cases hlong : (k :: t).length > nodePrefixMaxSize
        · simp only [hlong, if_true] at hadd
          cases hnn : add fa Node.new ((k :: t).drop nodePrefixMaxSize) e md with
          | none => simp [hnn] at hadd
          | some nn =>
            simp only [hnn, Option.some.injEq] at hadd
            subst hadd
            have hlen : ((k :: t).drop nodePrefixMaxSize).length < fa := by
              simp only [List.length_drop, List.length_cons, nodePrefixMaxSize] at *; omega
            obtain ⟨hmnn, lawnn⟩ := ih Node.new _ nn Mem.new hlen hnn
            have htl : ((k :: t).take nodePrefixMaxSize).length = nodePrefixMaxSize := by
              simp only [List.length_take, List.length_cons, nodePrefixMaxSize] at *; omega
            apply frame ((k :: t).take nodePrefixMaxSize, nn) (by simp [nodePrefixMaxSize]) hmnn
            intro f t' hq
            simp only
            rw [sem_cons, hff]
            have hqk : (k :: t').head? = some k := rfl
            generalize k :: t' = q at hq hqk ⊢
            have hqpos : 0 < q.length := by
              cases q with
              | nil => simp at hqk
              | cons a b => simp
            have hsplit := eq_append_iff ((k :: t).take nodePrefixMaxSize) ((k :: t).drop nodePrefixMaxSize) q
            rw [List.take_append_drop] at hsplit
            rw [htl] at hsplit ⊢
            by_cases hp : isPrefix ((k :: t).take nodePrefixMaxSize) q = true
            · have hq' : (q.drop nodePrefixMaxSize).length < f := by
                simp only [List.length_drop, nodePrefixMaxSize] at *; omega
              rw [if_pos hp, lawnn f _ hq']
              cases f with
              | zero => omega
              | succ f0 =>
                rw [sem_noforks f0 Node.new rfl, semNode_new]
                by_cases hd : q.drop nodePrefixMaxSize = (k :: t).drop nodePrefixMaxSize
                · have : q = k :: t := hsplit.2 ⟨hp, hd⟩
                  rw [if_pos hd, if_pos this]
                · have : ¬ q = k :: t := fun h => hd (hsplit.1 h).2
                  rw [if_neg hd, if_neg this]
                  try simp
            · have : ¬ q = k :: t := fun h => hp (hsplit.1 h).1
              simp [hp, this]
        · simp only [hlong, if_false, Option.some.injEq] at hadd
          subst hadd
          apply frame (k :: t, Node.new.setEntry e md) rfl (Mem.new.setEntry e md)
          intro f t' hq
          simp only
          rw [sem_cons, hff]
          have hqk : (k :: t').head? = some k := rfl
          generalize k :: t' = q at hq hqk ⊢
          have hqpos : 0 < q.length := by
            cases q with
            | nil => simp at hqk
            | cons a b => simp
          have hsplit := eq_iff_prefix_drop (k :: t) q
          by_cases hp : isPrefix (k :: t) q = true
          · rw [if_pos hp]
            have hq' : (q.drop (k :: t).length).length < f := by
              simp only [List.length_drop, List.length_cons] at *; omega
            cases f with
            | zero => omega
            | succ f0 =>
              rw [sem_noforks f0 _ (by rw [setEntry_forks]; rfl), semNode_setEntry _ e md hmd]
              by_cases hd : q.drop (k :: t).length = []
              · have : q = k :: t := hsplit.2 ⟨hp, hd⟩
                rw [if_pos hd, if_pos this]
              · have : ¬ q = k :: t := fun h => hd (hsplit.1 h).2
                rw [if_neg hd, if_neg this]
                try simp
          · have : ¬ q = k :: t := fun h => hp (hsplit.1 h).1
            simp [hp, this]
      | some pc =>
        obtain ⟨pfx, child⟩ := pc
        simp only [hff] at hadd
        have hh := findFork_some_head hff
        simp only at hh
        have hmc : Mem child := hm.child (findFork_mem hff)
        obtain ⟨sp, hsp⟩ := common_prefix_right pfx (k :: t)
        obtain ⟨rest, hrest⟩ := common_prefix_left pfx (k :: t)
        have hrest' : pfx.drop (common pfx (k :: t)).length = rest := by
          have := congrArg (List.drop (common pfx (k :: t)).length) hrest
          rw [List.drop_left] at this; exact this
        have hsp' : (k :: t).drop (common pfx (k :: t)).length = sp := by
          have := congrArg (List.drop (common pfx (k :: t)).length) hsp
          rw [List.drop_left] at this; exact this
        rw [hrest', hsp'] at hadd
        have hch := common_head hh (show (k :: t).head? = some k from rfl)
        generalize hc : common pfx (k :: t) = c at *
        have hcpos : 0 < c.length := by
          cases c with
          | nil => simp at hch
          | cons a b => simp
        have hsplen : sp.length < fa := by
          have := congrArg List.length hsp
          simp only [List.length_append, List.length_cons] at this hfa; omega
        by_cases hre : rest = []
        · -- the path continues below the existing fork
          subst hre
          simp only [List.isEmpty_nil, if_true] at hadd
          rw [List.append_nil] at hrest
          subst hrest
          cases hnn : add fa child sp e md with
          | none => simp [hnn] at hadd
          | some nn =>
            simp only [hnn, Option.some.injEq] at hadd
            subst hadd
            obtain ⟨hmnn, lawnn⟩ := ih child sp nn hmc hsplen hnn
            apply frame (pfx, nn) hh hmnn
            intro f t' hq
            simp only
            rw [sem_cons, hff]
            have hqk : (k :: t').head? = some k := rfl
            generalize k :: t' = q at hq hqk ⊢
            have hqpos : 0 < q.length := by
              cases q with
              | nil => simp at hqk
              | cons a b => simp
            simp only
            have hsplit := eq_append_iff pfx sp q
            rw [← hsp] at hsplit
            by_cases hp : isPrefix pfx q = true
            · have hppos : 0 < pfx.length := hcpos
              have hq' : (q.drop pfx.length).length < f := by
                simp only [List.length_drop] at *; omega
              rw [if_pos hp, if_pos hp, lawnn f _ hq']
              by_cases hd : q.drop pfx.length = sp
              · have : q = k :: t := hsplit.2 ⟨hp, hd⟩
                rw [if_pos hd, if_pos this]
              · have : ¬ q = k :: t := fun h => hd (hsplit.1 h).2
                rw [if_neg hd, if_neg this]
                try simp
            · have : ¬ q = k :: t := fun h => hp (hsplit.1 h).1
              simp [hp, this]
        · -- edge split
          have hie : rest.isEmpty = false := by cases rest <;> simp_all
          simp only [hie, Bool.false_eq_true, if_false] at hadd
          cases hnn : add fa (Node.mk ((k :: t).length == c.length) false none [] [] true [(rest, child)]) sp e md with
          | none => rw [hnn] at hadd; exact absurd hadd (by simp)
          | some nn =>
            simp only [hnn, Option.some.injEq] at hadd
            subst hadd
            have hmmid : Mem (Node.mk ((k :: t).length == c.length) false none [] [] true [(rest, child)]) :=
              Mem.mk _ _ _ _ _ _ (by intro pc hpc; simp at hpc; subst hpc; exact hmc)
            obtain ⟨hmnn, lawnn⟩ := ih _ sp nn hmmid hsplen hnn
            apply frame (c, nn) hch hmnn
            intro f t' hq
            simp only
            rw [sem_cons, hff]
            have hqk : (k :: t').head? = some k := rfl
            generalize k :: t' = q at hq hqk ⊢
            have hqpos : 0 < q.length := by
              cases q with
              | nil => simp at hqk
              | cons a b => simp
            simp only
            have hsplit := eq_append_iff c sp q
            rw [← hsp] at hsplit
            have hpa := isPrefix_append c rest q
            rw [← hrest] at hpa
            by_cases hp : isPrefix c q = true
            · have hq' : (q.drop c.length).length < f := by
                simp only [List.length_drop] at *; omega
              rw [if_pos hp, lawnn f _ hq']
              by_cases hd : q.drop c.length = sp
              · have : q = k :: t := hsplit.2 ⟨hp, hd⟩
                rw [if_pos hd, if_pos this]
              · have hne : ¬ q = k :: t := fun h => hd (hsplit.1 h).2
                rw [if_neg hd, if_neg hne]
                cases f with
                | zero => omega
                | succ f0 =>
                  rw [sem_mid f0 _ rest child hre]
                  simp only [hpa, hp, Bool.true_and]
                  by_cases hq0 : q.drop c.length = []
                  · -- q = c: a proper prefix of the old fork prefix, and p ≠ c
                    have hv : ((k :: t).length == c.length) = false := by
                      have hspne : sp ≠ [] := fun h => hd (by rw [hq0, h])
                      have hl := congrArg List.length hsp
                      simp only [List.length_append] at hl
                      have : 0 < sp.length := List.length_pos_iff.mpr hspne
                      simp only [beq_eq_false_iff_ne, ne_eq]; omega
                    have hnr : isPrefix rest (q.drop c.length) = false := by
                      rw [hq0]; cases rest with
                      | nil => exact absurd rfl hre
                      | cons a b => rfl
                    rw [hq0] at hnr
                    have hv' : ¬ (t.length + 1 = c.length) := by simpa using hv
                    simp [hq0, hv', hnr]
                  · simp only [hq0, if_false]
                    by_cases hpr : isPrefix rest (q.drop c.length) = true
                    · simp only [hpr, if_true]
                      have hdd : q.drop pfx.length = (q.drop c.length).drop rest.length := by
                        rw [List.drop_drop, hrest, List.length_append]
                      rw [hdd]
                      have hrl : 0 < rest.length := List.length_pos_iff.mpr hre
                      obtain ⟨s2, hs2⟩ := (isPrefix_iff _ _).1 hpr
                      have hxl : rest.length ≤ (q.drop c.length).length := by
                        rw [hs2, List.length_append]; omega
                      apply sem_fuel
                      · rw [List.length_drop]; omega
                      · rw [List.length_drop]; omega
                    · simp [hpr]
            · have hne : ¬ q = k :: t := fun h => hp (hsplit.1 h).1
              simp [hp, hne, hpa]


/-- on a loaded trie `Add` never panics -/
theorem add_isSome (e : Bytes) (md : Meta) : ∀ (fa : Nat) (n : Node) (p : Bytes), Mem n →
    ∃ n', add fa n p e md = some n' := by
  intro fa
  induction fa with
  | zero => intro n p _; exact ⟨n, rfl⟩
  | succ fa ih =>
    intro n p hm
    have key : ∀ (nn0 : Node) (sp c : Bytes) (k : UInt8), Mem nn0 →
        ∃ n', (match add fa nn0 sp e md with
          | none => none
          | some nn => some (n.setForks (setFork n.forks k (c, nn)))) = some n' := by
      intro nn0 sp c k h
      obtain ⟨nn, hnn⟩ := ih nn0 sp h
      rw [hnn]; exact ⟨_, rfl⟩
    cases p with
    | nil => exact ⟨_, rfl⟩
    | cons k t =>
      simp only [add, hm.loaded, if_true]
      cases hff : findFork n.forks k with
      | none =>
        simp only [Bool.not_true, Bool.false_eq_true, if_false]
        split
        · exact key _ _ _ _ Mem.new
        · exact ⟨_, rfl⟩
      | some pc =>
        obtain ⟨pfx, child⟩ := pc
        have hmc : Mem child := hm.child (findFork_mem hff)
        simp only
        apply key
        split
        · exact hmc
        · exact Mem.mk _ _ _ _ _ _ (by intro pc hpc; simp at hpc; subst hpc; exact hmc)

/-! ## specification side -/

theorem find?_erase_ne (m : PathMap) (p q : Bytes) (h : q ≠ p) :
    List.find? (fun x => x.1 == q) (m.filter (fun x => !(x.1 == p))) = List.find? (fun x => x.1 == q) m := by
  induction m with
  | nil => rfl
  | cons x rest ih =>
    by_cases hx : x.1 = p
    · have hq : (x.1 == q) = false := by rw [hx]; simp; exact fun e => h e.symm
      simp [List.filter_cons, hx, List.find?_cons, hq, ih]
      rw [← hx]; simp [hq]
    · have : (x.1 == p) = false := by simp [hx]
      simp only [List.filter_cons, this, Bool.not_false, if_true, List.find?_cons, ih]

theorem find_insert (m : PathMap) (p q : Bytes) (v : Bytes × Meta) :
    (m.insert p v).find q = if q = p then some v else m.find q := by
  unfold PathMap.insert PathMap.find PathMap.erase
  by_cases h : q = p
  · subst h; simp
  · have h' : (p == q) = false := by simp; exact fun e => h e.symm
    simp only [List.find?_cons, h', find?_erase_ne m p q h, if_neg h]

/-- the wrapper's `lookup` on a loaded trie -/
theorem lookup_mem (n : Node) (hm : Mem n) (p : Bytes) :
    lookup n p = (n, sem (p.length + 1) n p) := by
  unfold lookup sem
  rw [lookupNode_eq_get _ _ _ hm]
  cases get (p.length + 1) n p with
  | none => rfl
  | some x => simp [semNode, Option.bind]

end Aurora.Mantaray
