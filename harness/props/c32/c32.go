// Package c32: correspondence + oracle for pkg/accounting (per-peer unpaid traffic) with a
// scripted settlement.Interface.
package c32

import (
	"context"
	"errors"
	"fmt"
	"io"
	"math/big"
	"runtime"
	"strconv"
	"strings"
	"sync"
	"time"

	"github.com/gauss-project/aurorafs/pkg/accounting"
	"github.com/gauss-project/aurorafs/pkg/boson"
	"github.com/gauss-project/aurorafs/pkg/logging"
	"github.com/gauss-project/aurorafs/pkg/p2p"

	"verifharness/core"
	"verifharness/settle"
)

type prop struct{}

func init() { core.Register(prop{}) }

const (
	tolerance = 1000
	threshold = 100
	nPeers    = 8
	sentinel  = 200
)

func (prop) ID() string { return "C32" }
func (prop) Rule() string {
	return "cases: Accounting(tolerance 1000, threshold 100) over a scripted settlement layer; 8-50 ops for 3 peers: credit (amounts dense around the " +
		"threshold, settlement put ok/failing), notify (amounts below / equal / above the outstanding balance, zero), reserve (available balance around " +
		"unpaid+amount, or failing), debit (unsettled served traffic around the tolerance 999/1000/1001, put ok/failing), unpaid (exact read-back by " +
		"bisection through Reserve), stress (k concurrent Credit+Reserve goroutines), first (2-4 goroutines Credit/Reserve/NotifyPayment a peer that has no " +
		"record yet; the scripted RetrieveTraffic calls are held until every goroutine is inside one, waits for the peer-map mutex or has returned — so first " +
		"touches that CAN overlap DO overlap; amounts dense around the threshold); first contact of a peer takes its opening balance from the scripted " +
		"RetrieveTraffic (or fails). Non-trivial: >=1 credit reaching the threshold, >=1 truncating or exact payment, >=1 debit at the tolerance boundary."
}

func (prop) Gen(r *core.Rand, tier string) []core.Case {
	n := 300
	if tier == "thorough" {
		n = 5000
	}
	cs := []core.Case{
		// more threshold credits than the settle queue holds (1000) while Pay is slow: none of the requests may be lost
		{ID: "fix-burst-slow-pay", NT: true, Ops: []string{"burst 0 1100 100 0", "unpaid 0 0", "burst 1 5 30 0", "unpaid 1 0", "notify 0 110000 0", "burst 0 3 99 0", "unpaid 0 0"}},
		{ID: "fix-threshold-boundary", NT: true, Ops: []string{"credit 0 99 0 0", "credit 0 1 0 0", "unpaid 0 0", "notify 0 100 0", "unpaid 0 0", "credit 0 100 0 0"}},
		{ID: "fix-overpay-truncates", NT: true, Ops: []string{"credit 0 40 5 0", "notify 0 50 0", "unpaid 0 0", "notify 0 1 0", "credit 0 7 0 0", "unpaid 0 0"}},
		{ID: "fix-debit-tolerance", NT: true, Ops: []string{"debit 0 10 0 999 0", "debit 0 10 0 1000 0", "debit 0 10 0 1001 0", "debit 0 10 0 e 0", "debit 1 10 e 5 0"}},
		{ID: "fix-concurrent-first-credits", NT: true, Ops: []string{"first 0 0 2 c 100 c 50", "unpaid 0 0", "credit 0 1 0 0", "unpaid 0 0"}},
		{ID: "fix-concurrent-first-mixed", NT: true, Ops: []string{"first 1 60 3 c 30 n 20 r 5", "unpaid 1 0", "first 2 0 3 c 99 n 0 c 1", "unpaid 2 0", "first 2 0 2 c 1 c 1", "first 3 e 2 c 5 c 6", "unpaid 3 7"}},
		{ID: "fix-concurrent-reserve-credit", NT: true, Ops: []string{"credit 0 10 0 0", "stress 0 16 9 0", "unpaid 0 0", "reserve 0 5 0 159", "reserve 0 5 0 158"}},
	}
	for i := 0; i < n; i++ {
		c := core.Case{ID: fmt.Sprintf("g%d", i)}
		est := map[int]int{} // generator's estimate of unpaid, to aim at boundaries
		thr, trunc, tol := 0, 0, 0
		firstUsed := map[int]bool{}
		nops := r.Range(8, 50)
		for k := 0; k < nops; k++ {
			p := r.Intn(3)
			rt := strconv.Itoa(r.Pick([]int{0, 0, 0, 5, 60, 99, 100, 250}))
			if r.Chance(6) {
				rt = "e"
			}
			_, known := est[p]
			if !known && rt != "e" {
				v, _ := strconv.Atoi(rt)
				est[p] = v
			}
			_, known = est[p]
			switch r.Intn(16) {
			case 0, 1, 2, 3, 4:
				amt := r.Pick([]int{1, 7, 30, 99, 100, 101, threshold - est[p], threshold - est[p] - 1, r.Range(0, 150)})
				if amt < 0 {
					amt = 0
				}
				pe := 0
				if r.Chance(8) {
					pe = 1
				}
				c.Ops = append(c.Ops, fmt.Sprintf("credit %d %d %s %d", p, amt, rt, pe))
				if known {
					est[p] += amt
					if est[p] >= threshold && pe == 0 {
						thr++
					}
				}
			case 5, 6, 7:
				amt := r.Pick([]int{0, 1, est[p] - 1, est[p], est[p] + 1, est[p] / 2, r.Range(0, 300)})
				if amt < 0 {
					amt = 0
				}
				c.Ops = append(c.Ops, fmt.Sprintf("notify %d %d %s", p, amt, rt))
				if known {
					if amt >= est[p] {
						trunc++
						est[p] = 0
					} else {
						est[p] -= amt
					}
				}
			case 8, 9:
				amt := r.Range(0, 40)
				av := strconv.Itoa(est[p] + amt + r.Range(-1, 1))
				if r.Chance(8) {
					av = "e"
				}
				c.Ops = append(c.Ops, fmt.Sprintf("reserve %d %d %s %s", p, amt, rt, av))
			case 10, 11, 12:
				tt := strconv.Itoa(r.Pick([]int{0, 500, 999, 1000, 1001, 5000}))
				if r.Chance(6) {
					tt = "e"
				}
				pe := 0
				if r.Chance(8) {
					pe = 1
				}
				c.Ops = append(c.Ops, fmt.Sprintf("debit %d %d %s %s %d", p, r.Range(0, 500), rt, tt, pe))
				if tt == "999" || tt == "1000" {
					tol++
				}
			case 13, 14:
				if x13 := r.Intn(10); x13 < 5 {
					// concurrent first touch of a peer without a record (3..7 are never used otherwise)
					fp := r.Pick([]int{3, 4, 5, 6, 7, p})
					if _, k := est[fp]; k || firstUsed[fp] {
						c.Ops = append(c.Ops, fmt.Sprintf("unpaid %d %s", p, rt))
						break
					}
					firstUsed[fp] = true
					ort := r.Pick([]int{0, 0, 0, 5, 60, 99, 100})
					kk := r.Range(2, 4)
					l, sumC, sumN := "", 0, 0
					for j := 0; j < kk; j++ {
						switch y := r.Intn(10); {
						case y < 6:
							a := r.Pick([]int{1, 30, 50, 99, 100, threshold - ort - sumC, threshold - ort - sumC - 1, r.Range(0, 120)})
							if a < 0 {
								a = 1
							}
							sumC += a
							l += fmt.Sprintf(" c %d", a)
						case y < 8:
							l += fmt.Sprintf(" r %d", r.Range(0, 40))
						default:
							a := 0
							if ort-sumN > 0 && r.Chance(60) {
								a = r.Range(0, ort-sumN)
							}
							sumN += a
							l += fmt.Sprintf(" n %d", a)
						}
					}
					ors := strconv.Itoa(ort)
					if r.Chance(6) {
						ors = "e"
					}
					c.Ops = append(c.Ops, fmt.Sprintf("first %d %s %d%s", fp, ors, kk, l), fmt.Sprintf("unpaid %d 0", fp))
					if ors != "e" {
						est[fp] = ort + sumC - sumN
						if est[fp] >= threshold && sumC > 0 {
							thr++
						}
					}
				} else if x13 < 8 {
					c.Ops = append(c.Ops, fmt.Sprintf("stress %d %d %d %s", p, r.Range(2, 12), r.Range(1, 40), rt))
					est[p] += 0 // estimate no longer exact; fine
				} else {
					c.Ops = append(c.Ops, fmt.Sprintf("unpaid %d %s", p, rt))
				}
			default:
				c.Ops = append(c.Ops, fmt.Sprintf("unpaid %d %s", p, rt))
			}
		}
		c.Ops = append(c.Ops, "unpaid 0 0", "unpaid 1 0", "unpaid 2 0")
		c.NT = thr > 0 && trunc > 0 && tol > 0
		cs = append(cs, c)
	}
	return cs
}

type runner struct {
	acc    *accounting.Accounting
	sc     *settle.Script
	shadow map[int]*big.Int // model-free spec: credits minus payments (truncated), nil = no record yet
}

func (prop) New() core.Runner {
	sc := settle.NewScript()
	acc := accounting.NewAccounting(big.NewInt(tolerance), big.NewInt(threshold), logging.New(io.Discard, 0), nil, sc)
	return &runner{acc: acc, sc: sc, shadow: map[int]*big.Int{}}
}
func (rn *runner) Close() {}

func parseOI(s string) (*big.Int, bool) { // "e" -> nil
	if s == "e" {
		return nil, true
	}
	v, ok := new(big.Int).SetString(s, 10)
	return v, ok
}

var huge = new(big.Int).Lsh(big.NewInt(1), 66)

// measure reads unPaidTraffic exactly through the public API: Reserve(peer, 0) succeeds iff
// unpaid <= AvailableBalance, so bisect on the scripted available balance.
func (rn *runner) measure(peer boson.Address) (*big.Int, bool) {
	ok := func(k *big.Int) (bool, bool) {
		rn.sc.Set(func(s *settle.Script) { s.Available = k })
		err := rn.acc.Reserve(peer, 0)
		if err == nil {
			return true, true
		}
		if errors.Is(err, accounting.ErrLowAvailableExceeded) {
			return false, true
		}
		return false, false
	}
	lo, hi := new(big.Int).Neg(huge), new(big.Int).Set(huge) // invariant: !ok(lo), ok(hi)
	if a, v := ok(hi); !v || !a {
		return nil, false
	}
	if a, v := ok(lo); !v || a {
		return nil, false
	}
	for new(big.Int).Sub(hi, lo).Cmp(big.NewInt(1)) > 0 {
		mid := new(big.Int).Add(lo, hi)
		mid.Rsh(mid, 1)
		a, v := ok(mid)
		if !v {
			return nil, false
		}
		if a {
			hi = mid
		} else {
			lo = mid
		}
	}
	return hi, true
}

// drainPays makes the settle goroutine's queue observable: enqueue a payment request for a
// sentinel peer and count what arrives before it.
func (rn *runner) drainPays(peer boson.Address) (int, bool) {
	rn.sc.Set(func(s *settle.Script) { s.Retrieve = new(big.Int).Lsh(big.NewInt(1), 62); s.PutRetErr = false })
	if err := rn.acc.Credit(context.Background(), settle.Peer(sentinel), 0); err != nil {
		return 0, false
	}
	n := 0
	for {
		select {
		case p := <-rn.sc.PayCh():
			if p.Equal(settle.Peer(sentinel)) {
				return n, true
			}
			if p.Equal(peer) {
				n++
			} else {
				n += 1000 // a payment request for somebody else
			}
		case <-time.After(10 * time.Second):
			return n, false
		}
	}
}

func (rn *runner) contact(p int, rt *big.Int) bool {
	if _, ok := rn.shadow[p]; ok {
		return true
	}
	if rt == nil {
		return false
	}
	rn.shadow[p] = new(big.Int).Set(rt)
	return true
}

func (rn *runner) checkUnpaid(ctx *core.Ctx, p int, what string) {
	want, ok := rn.shadow[p]
	if !ok {
		return
	}
	got, ok := rn.measure(settle.Peer(p))
	if !ok {
		ctx.Fail("unpaid-unreadable", "could not read the unpaid balance of peer %d after %s", p, what)
		return
	}
	if got.Sign() < 0 && want.Sign() >= 0 {
		ctx.Fail("unpaid-negative", "unpaid balance of peer %d is %s after %s", p, got, what)
	}
	if got.Cmp(want) != 0 {
		ctx.Fail("unpaid-mismatch-"+what, "peer %d: unpaid balance %s, credits minus payments = %s", p, got, want)
		rn.shadow[p] = got
	}
}

type firstItem struct {
	kind string
	amt  uint64
	gid  string
	done bool
	err  error
}

// first <p> <rt> <k> (<c|r|n> <amt>)*k : k goroutines touch peer p, which has no accountingPeer
// record yet, at the same time.  RetrieveTraffic calls of the scripted settlement layer are held; the
// runner lets them go whenever every goroutine is held there, waits for the peer-map mutex inside
// getAccountingPeer, or has returned.  rt >= sum of the payments is required (otherwise the outcome
// would depend on the order: NotifyPayment truncates at zero).
func (rn *runner) first(ctx *core.Ctx, op []string, p int, peer boson.Address) string {
	rt, ok1 := parseOI(op[2])
	k64, errk := strconv.ParseUint(op[3], 10, 8)
	k := int(k64)
	if !ok1 || errk != nil || k < 1 || k > 4 || len(op) != 4+2*k || (rt != nil && rt.Sign() < 0) {
		return "bad-op"
	}
	items := make([]*firstItem, k)
	sumC, sumN := new(big.Int), new(big.Int)
	credits := 0
	for j := 0; j < k; j++ {
		kind := op[4+2*j]
		amt, err := strconv.ParseUint(op[5+2*j], 10, 64)
		if err != nil || (kind != "c" && kind != "r" && kind != "n") {
			return "bad-op"
		}
		switch kind {
		case "c":
			sumC.Add(sumC, new(big.Int).SetUint64(amt))
			credits++
		case "n":
			sumN.Add(sumN, new(big.Int).SetUint64(amt))
		}
		items[j] = &firstItem{kind: kind, amt: amt}
	}
	if rt != nil && rt.Cmp(sumN) < 0 {
		return "bad-op"
	}
	if _, known := rn.shadow[p]; known {
		return "known"
	}
	rn.sc.Set(func(s *settle.Script) { s.Retrieve, s.PutRetErr, s.Available = rt, false, huge })
	rn.sc.TakeCalls()
	rn.sc.Hold(true)
	var mu sync.Mutex
	var wg sync.WaitGroup
	for j := range items {
		it := items[j]
		ready := make(chan struct{})
		wg.Add(1)
		go func() {
			defer wg.Done()
			it.gid = settle.GoroutineID()
			close(ready)
			var err error
			switch it.kind {
			case "c":
				err = rn.acc.Credit(context.Background(), peer, it.amt)
			case "r":
				err = rn.acc.Reserve(peer, it.amt)
			default:
				err = rn.acc.NotifyPayment(peer, new(big.Int).SetUint64(it.amt))
			}
			mu.Lock()
			it.done, it.err = true, err
			mu.Unlock()
		}()
		<-ready
	}
	waiting := func() (allDone, quiet bool) { // quiet: nobody can move unless the held calls return
		allDone, quiet = true, true
		held := map[string]bool{}
		for _, h := range rn.sc.Held() {
			held[h.Tag] = true
		}
		for _, it := range items {
			mu.Lock()
			d := it.done
			mu.Unlock()
			if d {
				continue
			}
			allDone = false
			if held[it.gid] || settle.LockWait(it.gid, ".getAccountingPeer") {
				continue
			}
			quiet = false
		}
		return
	}
	deadline := time.Now().Add(20 * time.Second)
	stuck := false
	for spin := 0; ; spin++ {
		allDone, quiet := false, false
		if spin > 20 || spin%5 == 0 {
			allDone, quiet = waiting()
		}
		if allDone {
			break
		}
		if quiet {
			time.Sleep(200 * time.Microsecond)
			if _, q2 := waiting(); q2 {
				rn.sc.ReleaseHeld()
			}
			continue
		}
		if time.Now().After(deadline) {
			stuck = true
			break
		}
		if spin < 50 {
			runtime.Gosched()
		} else {
			time.Sleep(100 * time.Microsecond)
		}
	}
	rn.sc.Hold(false)
	rn.sc.ReleaseHeld()
	wg.Wait()
	if stuck {
		return "stuck"
	}
	pays, okd := rn.drainPays(peer)
	if !okd {
		return "timeout"
	}
	anyErr := false
	for _, it := range items {
		if it.err != nil {
			anyErr = true
		}
	}
	if rt == nil {
		if !anyErr {
			ctx.Fail("first-no-opening-balance", "RetrieveTraffic failed but an operation on the unknown peer %d succeeded", p)
		}
		return "err"
	}
	rn.contact(p, rt)
	total := new(big.Int).Sub(new(big.Int).Add(rt, sumC), sumN)
	rn.shadow[p] = total
	rn.checkUnpaid(ctx, p, "first")
	paid := "-"
	if sumN.Sign() == 0 {
		paid = "0"
		if pays > 0 {
			paid = "1"
		}
		reach := credits > 0 && total.Cmp(big.NewInt(threshold)) >= 0
		if reach && pays == 0 {
			ctx.Fail("first-pay-missing", "peer %d: concurrent first credits leave unpaid=%s >= threshold %d but no payment was requested", p, total, threshold)
		}
		if !reach && pays > 0 {
			ctx.Fail("first-pay-spurious", "peer %d: unpaid=%s after concurrent first operations, threshold %d not reached by a credit, %d payment(s) requested", p, total, threshold, pays)
		}
	}
	if pays > credits {
		ctx.Fail("first-pay-duplicate", "peer %d: %d payment requests for %d credits", p, pays, credits)
	}
	if anyErr {
		return "err"
	}
	v, okm := rn.measure(peer)
	if !okm {
		return "err"
	}
	return fmt.Sprintf("ok unpaid=%s paid=%s", v, paid)
}

func (rn *runner) Step(ctx *core.Ctx, op []string) string {
	out := rn.step(ctx, op)
	// the opening balance handed out by the settlement layer is the layer's own value: accounting must never change it
	if was, is, mutated := rn.sc.CheckShared(); mutated {
		ctx.Fail("backend-value-mutated", "`%s`: the *big.Int returned by RetrieveTraffic (%s) was changed in place to %s", strings.Join(op, " "), was, is)
	}
	return out
}

func (rn *runner) step(ctx *core.Ctx, op []string) string {
	atoi := func(s string) (uint64, bool) {
		v, err := strconv.ParseUint(s, 10, 64)
		return v, err == nil
	}
	if len(op) < 3 {
		return "bad-op"
	}
	p64, okp := atoi(op[1])
	if !okp || p64 >= nPeers {
		return "bad-op"
	}
	p := int(p64)
	peer := settle.Peer(p)
	switch {
	case len(op) >= 4 && op[0] == "first":
		return rn.first(ctx, op, p, peer)
	case len(op) == 5 && op[0] == "reserve":
		amt, ok1 := atoi(op[2])
		rt, ok2 := parseOI(op[3])
		av, ok3 := parseOI(op[4])
		if !ok1 || !ok2 || !ok3 {
			return "bad-op"
		}
		rn.sc.Set(func(s *settle.Script) { s.Retrieve, s.Available = rt, av })
		err := rn.acc.Reserve(peer, amt)
		created := rn.contact(p, rt)
		out := "ok"
		if errors.Is(err, accounting.ErrLowAvailableExceeded) {
			out = "low"
		} else if err != nil {
			out = "err"
		}
		if created && av != nil {
			low := av.Cmp(new(big.Int).Add(rn.shadow[p], new(big.Int).SetUint64(amt))) < 0
			if low != (out == "low") {
				ctx.Fail("reserve-decision", "Reserve(%d) with available %s and unpaid %s answered %s", amt, av, rn.shadow[p], out)
			}
		}
		rn.checkUnpaid(ctx, p, "reserve")
		return out
	case len(op) == 5 && op[0] == "burst":
		// n credits of amt to one peer while the settlement layer's Pay is slow (gated): the payment requests queue
		// up behind the one in progress; every credit that leaves the unpaid balance at or above the threshold must
		// still be followed by its payment request once Pay gets going again
		n, ok1 := atoi(op[2])
		amt, ok2 := atoi(op[3])
		rt, ok3 := parseOI(op[4])
		if !ok1 || !ok2 || !ok3 || n == 0 || n > 3000 {
			return "bad-op"
		}
		rn.sc.Set(func(s *settle.Script) { s.Retrieve, s.PutRetErr = rt, false })
		rn.sc.TakeCalls()
		open := rn.sc.GatePay()
		done := make(chan int, 1)
		go func() {
			okc := 0
			for i := uint64(0); i < n; i++ {
				if rn.acc.Credit(context.Background(), peer, amt) == nil {
					okc++
				}
			}
			done <- okc
		}()
		// let the credits run into the full queue (or finish), then open the gate
		okc, finished := 0, false
		select {
		case okc = <-done:
			finished = true
		case <-time.After(300 * time.Millisecond):
		}
		open()
		if !finished {
			select {
			case okc = <-done:
			case <-time.After(30 * time.Second):
				return "timeout"
			}
		}
		// wait until the settle goroutine has worked off the queue (no new settlement calls for 200 ms)
		for quiet, i := 0, 0; quiet < 4 && i < 400; i++ {
			time.Sleep(50 * time.Millisecond)
			if len(rn.sc.TakeCalls()) == 0 {
				quiet++
			} else {
				quiet = 0
			}
		}
		pays, okd := rn.drainPays(peer)
		if !okd {
			return "timeout"
		}
		want := 0
		if rn.contact(p, rt) {
			for i := 0; i < okc; i++ {
				rn.shadow[p] = new(big.Int).Add(rn.shadow[p], new(big.Int).SetUint64(amt))
				if rn.shadow[p].Cmp(big.NewInt(threshold)) >= 0 {
					want++
				}
			}
			if pays < want {
				ctx.Fail("pay-missing.burst", "%d credits left the unpaid balance at or above the threshold %d while Pay was slow, only %d payment requests followed", want, threshold, pays)
			} else if pays > want {
				ctx.Fail("pay-duplicate", "%d payment requests for %d credits at or above the threshold", pays, want)
			}
		}
		rn.checkUnpaid(ctx, p, "burst")
		return fmt.Sprintf("ok n=%d pay=%d", okc, pays)
	case len(op) == 5 && op[0] == "credit":
		amt, ok1 := atoi(op[2])
		rt, ok2 := parseOI(op[3])
		pe, ok3 := atoi(op[4])
		if !ok1 || !ok2 || !ok3 || pe > 1 {
			return "bad-op"
		}
		rn.sc.Set(func(s *settle.Script) { s.Retrieve, s.PutRetErr = rt, pe == 1 })
		rn.sc.TakeCalls()
		err := rn.acc.Credit(context.Background(), peer, amt)
		calls := rn.sc.TakeCalls()
		pays, okd := rn.drainPays(peer)
		if !okd {
			return "timeout"
		}
		if rn.contact(p, rt) {
			rn.shadow[p] = new(big.Int).Add(rn.shadow[p], new(big.Int).SetUint64(amt))
			recorded := false
			for _, c := range calls {
				if c.Name == "PutRetrieveTraffic" && c.Amount.Cmp(new(big.Int).SetUint64(amt)) == 0 && c.Peer.Equal(peer) {
					recorded = true
				}
			}
			if !recorded {
				ctx.Fail("credit-not-recorded", "Credit(%d) did not hand the amount to the settlement layer", amt)
			}
			if err == nil {
				want := 0
				if rn.shadow[p].Cmp(big.NewInt(threshold)) >= 0 {
					want = 1
				}
				switch {
				case pays < want:
					ctx.Fail("pay-missing", "credit left unpaid=%s >= threshold %d but no payment was requested", rn.shadow[p], threshold)
				case pays > want && want == 0:
					ctx.Fail("pay-spurious", "credit left unpaid=%s < threshold %d but %d payment(s) requested", rn.shadow[p], threshold, pays)
				case pays > want:
					ctx.Fail("pay-duplicate", "%d payment requests for one credit", pays)
				}
			}
		}
		rn.checkUnpaid(ctx, p, "credit")
		if err != nil {
			return fmt.Sprintf("err pay=%d", pays)
		}
		return fmt.Sprintf("ok pay=%d", pays)
	case len(op) == 6 && op[0] == "debit":
		amt, ok1 := atoi(op[2])
		rt, ok2 := parseOI(op[3])
		tt, ok3 := parseOI(op[4])
		pe, ok4 := atoi(op[5])
		if !ok1 || !ok2 || !ok3 || !ok4 || pe > 1 {
			return "bad-op"
		}
		rn.sc.Set(func(s *settle.Script) { s.Retrieve, s.Transfer, s.PutTraErr = rt, tt, pe == 1 })
		rn.sc.TakeCalls()
		err := rn.acc.Debit(peer, amt)
		calls := rn.sc.TakeCalls()
		put := "-"
		for _, c := range calls {
			if c.Name == "PutTransferTraffic" {
				put = c.Amount.String()
			}
		}
		res := "ok"
		var bpe *p2p.BlockPeerError
		if errors.As(err, &bpe) {
			res = "blocked"
		} else if err != nil {
			res = "err"
		}
		if rn.contact(p, rt) && tt != nil {
			if tt.Cmp(big.NewInt(tolerance)) >= 0 {
				if put != "-" {
					ctx.Fail("debit-refused-recorded", "unsettled served traffic %s >= tolerance %d but %s was recorded", tt, tolerance, put)
				}
				if res != "blocked" {
					ctx.Fail("debit-not-refused", "unsettled served traffic %s >= tolerance %d but Debit answered %s", tt, tolerance, res)
				}
			} else {
				if put != strconv.FormatUint(amt, 10) {
					ctx.Fail("debit-not-recorded", "served traffic %d below tolerance was not handed to the settlement layer (put=%s)", amt, put)
				}
				if res == "blocked" {
					ctx.Fail("debit-refused-below-tolerance", "unsettled served traffic %s < tolerance %d but the peer was blocked", tt, tolerance)
				}
			}
		}
		rn.checkUnpaid(ctx, p, "debit")
		return fmt.Sprintf("%s put=%s", res, put)
	case len(op) == 4 && op[0] == "notify":
		amt, ok1 := new(big.Int).SetString(op[2], 10)
		rt, ok2 := parseOI(op[3])
		if !ok1 || !ok2 {
			return "bad-op"
		}
		rn.sc.Set(func(s *settle.Script) { s.Retrieve = rt })
		err := rn.acc.NotifyPayment(peer, amt)
		if rn.contact(p, rt) && amt.Sign() >= 0 {
			u := new(big.Int).Sub(rn.shadow[p], amt)
			if u.Sign() < 0 && rn.shadow[p].Sign() >= 0 {
				u = big.NewInt(0)
			}
			rn.shadow[p] = u
		} else if _, ok := rn.shadow[p]; ok {
			delete(rn.shadow, p) // negative payment: outside the property; resynchronise
			if v, ok := rn.measure(peer); ok {
				rn.shadow[p] = v
			}
		}
		rn.checkUnpaid(ctx, p, "notify")
		if err != nil {
			return "err"
		}
		return "ok"
	case len(op) == 3 && op[0] == "unpaid":
		rt, ok := parseOI(op[2])
		if !ok {
			return "bad-op"
		}
		rn.sc.Set(func(s *settle.Script) { s.Retrieve = rt })
		v, okm := rn.measure(peer)
		rn.contact(p, rt)
		if !okm {
			return "err"
		}
		rn.checkUnpaid(ctx, p, "unpaid")
		return v.String()
	case len(op) == 5 && op[0] == "stress":
		k, ok1 := atoi(op[2])
		amt, ok2 := atoi(op[3])
		rt, ok3 := parseOI(op[4])
		if !ok1 || !ok2 || !ok3 || k > 64 {
			return "bad-op"
		}
		rn.sc.Set(func(s *settle.Script) { s.Retrieve, s.PutRetErr, s.Available = rt, false, huge })
		// first contact sequentially (creation consumes rt), then k goroutines each Credit + Reserve
		if err := rn.acc.Reserve(peer, 0); err != nil {
			return "err"
		}
		rn.contact(p, rt)
		var wg sync.WaitGroup
		for g := uint64(0); g < k; g++ {
			wg.Add(2)
			go func() { defer wg.Done(); _ = rn.acc.Credit(context.Background(), peer, amt) }()
			go func() { defer wg.Done(); _ = rn.acc.Reserve(peer, amt) }()
		}
		wg.Wait()
		pays, okd := rn.drainPays(peer)
		if !okd {
			return "timeout"
		}
		before := new(big.Int).Set(rn.shadow[p])
		rn.shadow[p] = new(big.Int).Add(before, new(big.Int).Mul(new(big.Int).SetUint64(k), new(big.Int).SetUint64(amt)))
		rn.checkUnpaid(ctx, p, "stress")
		return fmt.Sprintf("ok pay=%d", pays)
	}
	return "bad-op"
}
