import Driver.NodeLite
/-! Driver for C17: the shared node-lite model driver (status + full symbolic dump per op). -/
namespace Driver.C17
def handler : Driver.Handler := Driver.NodeLite.handler
end Driver.C17
