import Driver.NodeLite
/-! Driver for C12: the shared node-lite model driver (status + full symbolic dump per op). -/
namespace Driver.C12
def handler : Driver.Handler := Driver.NodeLite.handler
end Driver.C12
