import Driver.FileCommon
/-! Driver for C07: the shared file-pipeline driver (see `Driver/FileCommon.lean` for the ops). -/
namespace Driver.C07
def handler : Driver.Handler := Driver.File.handler
end Driver.C07
