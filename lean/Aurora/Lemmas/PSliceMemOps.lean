import Aurora.Model.PSliceMemOps
import Aurora.Lemmas.PSliceMem
import Aurora.Lemmas.PSlice
/-! Refinement of the list model `PSlice` by the memory-level operations (`Model/PSliceMemOps.lean`),
    enabledness of every primitive step they emit, and iteration over the memory. -/
namespace Aurora.PSliceMem
open Aurora.PSlice (Addr PS indexFrom Ctl BinOutcome bin setBin)
open Aurora.Proximity

/-! ## reading bins -/

theorem read_default (m : Mem) : read m ⟨0, 0, 0⟩ = [] := by simp [read]

theorem hdr_of_ge (m : Mem) (i : Nat) (h : m.bins.length ≤ i) : hdr m i = ⟨0, 0, 0⟩ := by
  unfold hdr; rw [List.getElem?_eq_none h]; rfl

theorem lt_of_len_lt_cap (m : Mem) (i : Nat) (hc : (hdr m i).len < (hdr m i).cap) : i < m.bins.length := by
  apply Classical.byContradiction; intro hn
  rw [hdr_of_ge m i (by omega)] at hc; simp at hc

theorem bin_abs (ms : MS) (i : Nat) : bin (abs ms) i = binM ms i := by
  unfold bin abs binM hdr
  simp only [List.getElem?_map]
  cases ms.mem.bins[i]? with
  | none => simp [read]
  | some h => rfl

theorem read_length (m : Mem) (hw : WF m) (j : Nat) : (read m (hdr m j)).length = (hdr m j).len := by
  by_cases hj : j < m.bins.length
  · unfold read; rw [List.length_take]
    have := hw.lencap j hj; have := hw.capsz j hj; omega
  · rw [hdr_of_ge m j (by omega), read_default]; rfl

theorem take_succ_set (l : List Addr) (n : Nat) (a : Addr) (h : n < l.length) :
    (l.set n a).take (n + 1) = l.take n ++ [a] := by
  rw [List.take_succ_eq_append_getElem (by simpa using h)]
  simp
  apply List.ext_getElem?
  intro k
  simp only [List.getElem?_take, List.getElem?_set]
  by_cases hk : k < n
  · have : ¬ n = k := by omega
    simp [hk, this]
  · simp [hk]

theorem binM_step_realloc (m : Mem) (hw : WF m) (i : Nat) (content : List Addr) (len cap : Nat)
    (hc : len ≤ cap ∧ cap ≤ content.length) (j : Nat) :
    read (step m (.realloc i content len cap)) (hdr (step m (.realloc i content len cap)) j) =
      if j = i ∧ i < m.bins.length then content.take len else read m (hdr m j) := by
  simp only [step]
  rw [if_pos hc, hdr_set m]
  by_cases e : j = i ∧ i < m.bins.length
  · rw [if_pos e, if_pos e]
    unfold read cells; simp
  · rw [if_neg e, if_neg e]
    by_cases hj : j < m.bins.length
    · unfold read; rw [cells_append m content _ _ (hw.inheap j hj)]
    · rw [hdr_of_ge m j (by omega)]; simp [read]

theorem binM_step_write (m : Mem) (hw : WF m) (i : Nat) (a : Addr)
    (hc : (hdr m i).len < (hdr m i).cap) (j : Nat) :
    read (step m (.write i a)) (hdr (step m (.write i a)) j) =
      if j = i ∧ i < m.bins.length then read m (hdr m i) ++ [a] else read m (hdr m j) := by
  have hi := lt_of_len_lt_cap m i hc
  have harr := hw.inheap i hi
  have hsz := hw.capsz i hi
  simp only [step]
  rw [if_pos hc, hdr_set m]
  by_cases e : j = i ∧ i < m.bins.length
  · rw [if_pos e, if_pos e]
    unfold read
    have : cells ⟨m.heap.set (hdr m i).arr ((cells m (hdr m i).arr).set (hdr m i).len a),
        m.bins.set i { hdr m i with len := (hdr m i).len + 1 }⟩ (hdr m i).arr
        = (cells m (hdr m i).arr).set (hdr m i).len a := by
      unfold cells; simp [harr]
    simp only [this]
    exact take_succ_set _ _ _ (by omega)
  · rw [if_neg e, if_neg e]
    by_cases hj : j < m.bins.length
    · have hji : j ≠ i := fun h => e ⟨h, hi⟩
      have hne : (hdr m i).arr ≠ (hdr m j).arr := by
        intro h'
        have := hw.noalias i j hi hj (Ne.symm hji) h'
        omega
      unfold read cells
      simp only
      rw [List.getElem?_set_ne hne]
    · rw [hdr_of_ge m j (by omega)]; simp [read]

/-! ## abstraction of one primitive step -/

theorem ps_ext (s t : PS) (hb : s.base = t.base) (hm : s.maxBins = t.maxBins)
    (hl : s.bins.length = t.bins.length) (h : ∀ j, bin s j = bin t j) : s = t := by
  cases s with
  | mk sb sbase sm =>
    cases t with
    | mk tb tbase tm =>
      simp only at hb hm hl
      subst hb; subst hm
      have : sb = tb := by
        apply List.ext_getElem hl
        intro j h1 h2
        have := h j
        simpa [bin, h1, h2] using this
      rw [this]

theorem setBin_self (s : PS) (i : Nat) : setBin s i (bin s i) = s := by
  apply ps_ext
  · rfl
  · rfl
  · simp [setBin]
  · intro j; rw [Aurora.PSlice.bin_setBin]
    split
    · rename_i h; rw [h.1]
    · rfl

@[simp] theorem abs_bins_length (ms : MS) : (abs ms).bins.length = ms.mem.bins.length := by
  simp [abs]

@[simp] theorem stepM_base (ms : MS) (p : Prim) : (stepM ms p).base = ms.base := rfl
@[simp] theorem stepM_maxBins (ms : MS) (p : Prim) : (stepM ms p).maxBins = ms.maxBins := rfl
@[simp] theorem stepM_mem (ms : MS) (p : Prim) : (stepM ms p).mem = step ms.mem p := rfl

theorem abs_stepM_realloc (ms : MS) (hw : WF ms.mem) (i : Nat) (content : List Addr) (len cap : Nat)
    (hc : len ≤ cap ∧ cap ≤ content.length) :
    abs (stepM ms (.realloc i content len cap)) = setBin (abs ms) i (content.take len) := by
  apply ps_ext
  · rfl
  · rfl
  · simp [setBin, bins_length_step]
  · intro j
    rw [bin_abs, Aurora.PSlice.bin_setBin, bin_abs, abs_bins_length]
    exact binM_step_realloc ms.mem hw i content len cap hc j

theorem abs_stepM_write (ms : MS) (hw : WF ms.mem) (i : Nat) (a : Addr)
    (hc : (hdr ms.mem i).len < (hdr ms.mem i).cap) :
    abs (stepM ms (.write i a)) = setBin (abs ms) i (bin (abs ms) i ++ [a]) := by
  apply ps_ext
  · rfl
  · rfl
  · simp [setBin, bins_length_step]
  · intro j
    rw [bin_abs, Aurora.PSlice.bin_setBin, bin_abs, bin_abs, abs_bins_length]
    exact binM_step_write ms.mem hw i a hc j

/-- enabledness of a primitive: it does what the Go statement does (it is not the no-op branch of
    `step`) and it addresses an existing bin. -/
def Enabled (m : Mem) : Prim → Prop
  | .write i _ => i < m.bins.length ∧ (hdr m i).len < (hdr m i).cap
  | .realloc i content len cap => i < m.bins.length ∧ len ≤ cap ∧ cap ≤ content.length

theorem appendPrim_spec (ms : MS) (hw : WF ms.mem) (orc : Nat → Nat) (i : Nat) (a : Addr) :
    abs (stepM ms (appendPrim ms.mem orc i a)) = setBin (abs ms) i (bin (abs ms) i ++ [a]) ∧
    (i < ms.mem.bins.length → Enabled ms.mem (appendPrim ms.mem orc i a)) := by
  unfold appendPrim
  simp only
  by_cases hc : (hdr ms.mem i).len < (hdr ms.mem i).cap
  · rw [if_pos hc]
    exact ⟨abs_stepM_write ms hw i a hc, fun hi => ⟨hi, hc⟩⟩
  · rw [if_neg hc]
    have hl := read_length ms.mem hw i
    have hg : (hdr ms.mem i).len + 1 ≤ max (orc i) ((hdr ms.mem i).len + 1) ∧
        max (orc i) ((hdr ms.mem i).len + 1) ≤
          (read ms.mem (hdr ms.mem i) ++ a :: List.replicate (max (orc i) ((hdr ms.mem i).len + 1) - ((hdr ms.mem i).len + 1)) zero).length := by
      simp only [List.length_append, List.length_cons, List.length_replicate, hl]
      omega
    refine ⟨?_, fun hi => ⟨hi, hg⟩⟩
    rw [abs_stepM_realloc ms hw i _ _ _ hg, bin_abs]
    congr 1
    unfold binM
    rw [← hl]
    simp [List.take_append]
    exact List.take_of_length_le (by omega)

/-! ## sequences of primitives -/

/-- every primitive of the sequence is enabled in the state in which it executes -/
def EnabledSeq : Mem → List Prim → Prop
  | _, [] => True
  | m, p :: ps => Enabled m p ∧ EnabledSeq (step m p) ps

theorem run_append (m : Mem) (a b : List Prim) : run m (a ++ b) = run (run m a) b := by
  simp [run, List.foldl_append]

theorem enabledSeq_append : ∀ (a b : List Prim) (m : Mem),
    EnabledSeq m (a ++ b) ↔ EnabledSeq m a ∧ EnabledSeq (run m a) b := by
  intro a
  induction a with
  | nil => intro b m; simp [EnabledSeq, run]
  | cons p ps ih =>
    intro b m
    simp only [List.cons_append, EnabledSeq, ih]
    show _ ↔ _ ∧ EnabledSeq (run (step m p) ps) b
    exact and_assoc.symm

theorem runM_append (ms : MS) (a b : List Prim) : runM ms (a ++ b) = runM (runM ms a) b := by
  simp [runM, List.foldl_append]

theorem runM_mem : ∀ (ps : List Prim) (ms : MS), (runM ms ps).mem = run ms.mem ps := by
  intro ps
  induction ps with
  | nil => intro ms; rfl
  | cons p ps ih => intro ms; exact ih (stepM ms p)

theorem runM_base : ∀ (ps : List Prim) (ms : MS), (runM ms ps).base = ms.base := by
  intro ps
  induction ps with
  | nil => intro ms; rfl
  | cons p ps ih => intro ms; exact ih (stepM ms p)

theorem runM_maxBins : ∀ (ps : List Prim) (ms : MS), (runM ms ps).maxBins = ms.maxBins := by
  intro ps
  induction ps with
  | nil => intro ms; rfl
  | cons p ps ih => intro ms; exact ih (stepM ms p)

theorem wf_runM (ms : MS) (hw : WF ms.mem) (ps : List Prim) : WF (runM ms ps).mem := by
  rw [runM_mem]; exact wf_run ps _ hw

/-- the slice has one header per bin and `1 ≤ maxBins ≤ 256` (so `po` is a valid bin index) -/
def InRange (ms : MS) : Prop := ms.mem.bins.length = ms.maxBins ∧ 1 ≤ ms.maxBins ∧ ms.maxBins ≤ 256

theorem inRange_stepM (ms : MS) (p : Prim) (h : InRange ms) : InRange (stepM ms p) := by
  unfold InRange at *
  simp only [stepM_mem, stepM_maxBins, bins_length_step]
  exact h

theorem inRange_runM (ms : MS) (ps : List Prim) (h : InRange ms) : InRange (runM ms ps) := by
  unfold InRange at *
  rw [runM_mem, runM_maxBins, bins_length_run]
  exact h

theorem indexM_eq (ms : MS) (a : Addr) (po : Nat) : indexM ms a po = Aurora.PSlice.index (abs ms) a po := by
  unfold indexM Aurora.PSlice.index; rw [bin_abs]

theorem poM_eq (ms : MS) (a : Addr) : poM ms a = Aurora.PSlice.po (abs ms) a := rfl

theorem poM_stepM (ms : MS) (p : Prim) (a : Addr) : poM (stepM ms p) a = poM ms a := rfl

theorem poM_lt (ms : MS) (h : InRange ms) (a : Addr) : poM ms a < ms.mem.bins.length := by
  rw [poM_eq, Aurora.PSlice.po_eq_min (abs ms) h.2.1 h.2.2, h.1]
  show min _ (ms.maxBins - 1) < ms.maxBins
  have := h.2.1
  omega

/-! ## the operations: refinement of the list model, well-formedness, enabledness -/

/-- what is proved about each piece of an operation that emits the primitives `ps` in state `ms`
    and corresponds to the list-model state `s'` afterwards -/
def Spec (ms : MS) (ps : List Prim) (s' : PS) : Prop :=
  WF (runM ms ps).mem ∧ abs (runM ms ps) = s' ∧ (InRange ms → EnabledSeq ms.mem ps)

theorem spec_nil (ms : MS) (hw : WF ms.mem) : Spec ms [] (abs ms) := ⟨hw, rfl, fun _ => trivial⟩

theorem spec_append (ms : MS) (a b : List Prim) (s1 s2 : PS)
    (h1 : Spec ms a s1) (h2 : Spec (runM ms a) b s2) : Spec ms (a ++ b) s2 := by
  obtain ⟨w1, e1, n1⟩ := h1
  obtain ⟨w2, e2, n2⟩ := h2
  refine ⟨by rw [runM_append]; exact w2, by rw [runM_append]; exact e2, ?_⟩
  intro hr
  rw [enabledSeq_append, ← runM_mem]
  exact ⟨n1 hr, n2 (inRange_runM ms a hr)⟩

theorem addOne_spec (ms : MS) (hw : WF ms.mem) (orc : Nat → Nat) (a : Addr) :
    Spec ms (addOnePrims ms orc a) (Aurora.PSlice.addOne (abs ms) a) := by
  unfold addOnePrims Aurora.PSlice.addOne
  simp only
  rw [indexM_eq, poM_eq]
  by_cases he : (Aurora.PSlice.index (abs ms) a (Aurora.PSlice.po (abs ms) a)).isSome = true
  · rw [if_pos he, if_pos he]; exact spec_nil ms hw
  · rw [if_neg he, if_neg he]
    obtain ⟨h1, h2⟩ := appendPrim_spec ms hw orc (Aurora.PSlice.po (abs ms) a) a
    refine ⟨wf_step _ hw _, h1, ?_⟩
    intro hr
    exact ⟨h2 (poM_lt ms hr a), trivial⟩

theorem addLoopPrims_cons_false (orc : Nat → Nat) (a : Addr) (rest : List (Addr × Bool)) (ms : MS) :
    addLoopPrims orc ((a, false) :: rest) ms =
      addOnePrims ms orc a ++ addLoopPrims orc rest (runM ms (addOnePrims ms orc a)) := by
  unfold addOnePrims
  rw [addLoopPrims]
  simp only [Bool.false_eq_true, if_false]
  by_cases he : (indexM ms a (poM ms a)).isSome = true
  · rw [if_pos he, if_pos he]; rfl
  · rw [if_neg he, if_neg he]; rfl

theorem addLoop_spec (orc : Nat → Nat) : ∀ (l : List (Addr × Bool)) (ms : MS), WF ms.mem →
    Spec ms (addLoopPrims orc l ms) (Aurora.PSlice.addLoop (abs ms) l) := by
  intro l
  induction l with
  | nil => intro ms hw; exact spec_nil ms hw
  | cons p rest ih =>
    intro ms hw
    obtain ⟨a, e⟩ := p
    cases e with
    | true =>
      rw [addLoopPrims, Aurora.PSlice.addLoop]
      simp only [if_true]
      exact ih ms hw
    | false =>
      rw [addLoopPrims_cons_false, Aurora.PSlice.addLoop]
      simp only [Bool.false_eq_true, if_false]
      have h1 := addOne_spec ms hw orc a
      apply spec_append ms _ _ _ _ h1
      have := ih (runM ms (addOnePrims ms orc a)) h1.1
      rw [h1.2.1] at this
      exact this

theorem grow_spec (l : List (Addr × Bool)) : ∀ (is : List Nat) (ms : MS), WF ms.mem →
    (∀ i, i ∈ is → i < ms.maxBins) → Spec ms (growPrims l is ms) (abs ms) := by
  intro is
  induction is with
  | nil => intro ms hw _; exact spec_nil ms hw
  | cons i is ih =>
    intro ms hw hin
    rw [growPrims]
    simp only
    by_cases hc : binChange ms l i > 0 ∧ (hdr ms.mem i).cap < (hdr ms.mem i).len + binChange ms l i
    · rw [if_pos hc]
      have hl := read_length ms.mem hw i
      have hg : (hdr ms.mem i).len ≤ (hdr ms.mem i).len + binChange ms l i ∧
          (hdr ms.mem i).len + binChange ms l i ≤
            (read ms.mem (hdr ms.mem i) ++ List.replicate (binChange ms l i) zero).length := by
        simp only [List.length_append, List.length_replicate, hl]; omega
      have key : ∀ p, p = Prim.realloc i (read ms.mem (hdr ms.mem i) ++ List.replicate (binChange ms l i) zero)
          (hdr ms.mem i).len ((hdr ms.mem i).len + binChange ms l i) →
          Spec ms (p :: growPrims l is (stepM ms p)) (abs ms) := by
        intro p hp
        have habs : abs (stepM ms p) = abs ms := by
          rw [hp, abs_stepM_realloc ms hw i _ _ _ hg]
          have : List.take (hdr ms.mem i).len (read ms.mem (hdr ms.mem i) ++ List.replicate (binChange ms l i) zero)
              = bin (abs ms) i := by
            rw [bin_abs]; unfold binM
            rw [← hl]; simp
          rw [this, setBin_self]
        have hw' : WF (stepM ms p).mem := wf_step ms.mem hw p
        obtain ⟨w, e, n⟩ := ih (stepM ms p) hw' (fun j hj => hin j (List.mem_cons_of_mem _ hj))
        refine ⟨w, by rw [← habs]; exact e, ?_⟩
        intro hr
        refine ⟨?_, n (inRange_stepM ms _ hr)⟩
        rw [hp]
        refine ⟨?_, hg⟩
        rw [hr.1]; exact hin i List.mem_cons_self
      exact key _ rfl
    · rw [if_neg hc]
      exact ih ms hw (fun j hj => hin j (List.mem_cons_of_mem _ hj))

theorem existsFlagsM_eq (ms : MS) (addrs : List Addr) :
    existsFlagsM ms addrs = Aurora.PSlice.existsFlags (abs ms) addrs := by
  unfold existsFlagsM Aurora.PSlice.existsFlags
  apply List.map_congr_left
  intro a _
  rw [indexM_eq, poM_eq]

theorem addBatch_spec (ms : MS) (hw : WF ms.mem) (orc : Nat → Nat) (addrs : List Addr) :
    Spec ms (growPrims (addrs.zip (existsFlagsM ms addrs)) (List.range ms.maxBins) ms ++
        addLoopPrims orc (addrs.zip (existsFlagsM ms addrs))
          (runM ms (growPrims (addrs.zip (existsFlagsM ms addrs)) (List.range ms.maxBins) ms)))
      (Aurora.PSlice.addLoop (abs ms) (addrs.zip (Aurora.PSlice.existsFlags (abs ms) addrs))) := by
  have h1 := grow_spec (addrs.zip (existsFlagsM ms addrs)) (List.range ms.maxBins) ms hw
    (fun i hi => List.mem_range.1 hi)
  apply spec_append ms _ _ _ _ h1
  have := addLoop_spec orc (addrs.zip (existsFlagsM ms addrs)) _ h1.1
  rw [h1.2.1, existsFlagsM_eq] at this
  rw [existsFlagsM_eq]
  exact this

theorem add_spec (ms : MS) (hw : WF ms.mem) (orc : Nat → Nat) (addrs : List Addr) :
    Spec ms (addPrims ms orc addrs) (Aurora.PSlice.add (abs ms) addrs) := by
  cases addrs with
  | nil => exact addBatch_spec ms hw orc []
  | cons a t =>
    cases t with
    | nil => exact addOne_spec ms hw orc a
    | cons b t' => exact addBatch_spec ms hw orc (a :: b :: t')

theorem remove_spec (ms : MS) (hw : WF ms.mem) (a : Addr) :
    Spec ms (removePrims ms a) (Aurora.PSlice.remove (abs ms) a) := by
  unfold removePrims Aurora.PSlice.remove
  simp only
  rw [indexM_eq, ← poM_eq, bin_abs]
  cases hidx : Aurora.PSlice.index (abs ms) a (poM ms a) with
  | none => exact spec_nil ms hw
  | some i =>
    simp only
    have hl : (binM ms (poM ms a)).length = (hdr ms.mem (poM ms a)).len := read_length ms.mem hw _
    rw [hl]
    have hlen : ((binM ms (poM ms a)).take ((hdr ms.mem (poM ms a)).len - 1)).length
        = (hdr ms.mem (poM ms a)).len - 1 := by
      rw [List.length_take, hl]; omega
    have one : ∀ (content : List Addr), content.length = (hdr ms.mem (poM ms a)).len - 1 →
        Spec ms [.realloc (poM ms a) content ((hdr ms.mem (poM ms a)).len - 1) ((hdr ms.mem (poM ms a)).len - 1)]
          (setBin (abs ms) (poM ms a) content) := by
      intro content hcl
      have hg : (hdr ms.mem (poM ms a)).len - 1 ≤ (hdr ms.mem (poM ms a)).len - 1 ∧
          (hdr ms.mem (poM ms a)).len - 1 ≤ content.length := ⟨Nat.le_refl _, by omega⟩
      refine ⟨?_, ?_, ?_⟩
      · exact wf_runM ms hw _
      · show abs (stepM ms _) = _
        rw [abs_stepM_realloc ms hw _ _ _ _ hg, List.take_of_length_le (by omega)]
      · intro hr
        exact ⟨⟨poM_lt ms hr a, hg⟩, trivial⟩
    by_cases hc : i = (hdr ms.mem (poM ms a)).len - 1
    · rw [if_pos hc, if_pos hc]
      exact one _ hlen
    · rw [if_neg hc, if_neg hc]
      exact one _ (by rw [List.length_set]; exact hlen)

/-- the list-model operation an operation of the memory model stands for (the oracle is dropped) -/
def toOp : MOp → Aurora.PSlice.Op
  | .add _ as => .add as
  | .remove a => .remove a

theorem op_spec (ms : MS) (hw : WF ms.mem) (op : MOp) :
    Spec ms (opPrims ms op) (Aurora.PSlice.applyOp (abs ms) (toOp op)) := by
  cases op with
  | add orc as => exact add_spec ms hw orc as
  | remove a => exact remove_spec ms hw a

theorem runOps_cons (ms : MS) (op : MOp) (rest : List MOp) :
    runOps ms (op :: rest) = runOps (applyMOp ms op) rest := rfl

theorem ops_spec : ∀ (ops : List MOp) (ms : MS), WF ms.mem →
    runOps ms ops = runM ms (opsPrims ms ops) ∧
    Spec ms (opsPrims ms ops) (Aurora.PSlice.run (abs ms) (ops.map toOp)) := by
  intro ops
  induction ops with
  | nil => intro ms hw; exact ⟨rfl, spec_nil ms hw⟩
  | cons op rest ih =>
    intro ms hw
    have h1 := op_spec ms hw op
    obtain ⟨e, h2⟩ := ih (applyMOp ms op) h1.1
    constructor
    · rw [runOps_cons, e, opsPrims, runM_append]; rfl
    · rw [opsPrims]
      apply spec_append ms _ _ _ _ h1
      have : abs (applyMOp ms op) = Aurora.PSlice.applyOp (abs ms) (toOp op) := h1.2.1
      rw [this] at h2
      exact h2

theorem wf_newM (m : Nat) (base : Addr) : WF (newM m base).mem := wf_init m

theorem abs_newM (m : Nat) (base : Addr) : abs (newM m base) = Aurora.PSlice.new m base := by
  apply ps_ext
  · rfl
  · rfl
  · simp [abs, newM, init, Aurora.PSlice.new]
  · intro j
    rw [bin_abs, Aurora.PSlice.bin_new]
    unfold binM newM
    have : hdr (init m) j = ⟨0, 0, 0⟩ := by
      unfold hdr init; simp only [List.getElem?_replicate]; split <;> rfl
    rw [this, read_default]

theorem inRange_newM (m : Nat) (base : Addr) (h1 : 1 ≤ m) (h2 : m ≤ 256) : InRange (newM m base) := by
  refine ⟨?_, h1, h2⟩
  simp [newM, init]

theorem runOps_eq : ∀ (ops : List MOp) (ms : MS), runOps ms ops = runM ms (opsPrims ms ops) := by
  intro ops
  induction ops with
  | nil => intro ms; rfl
  | cons op rest ih =>
    intro ms
    rw [runOps_cons, ih, opsPrims, runM_append]; rfl

/-! ## iteration over the memory -/

/-- a stable snapshot keeps its reading and stays stable across any sequence of primitives -/
theorem run_isolated' : ∀ (ps : List Prim) (m : Mem) (h : Hdr), Stable m h →
    read (run m ps) h = read m h ∧ Stable (run m ps) h := by
  intro ps
  induction ps with
  | nil => intro m h hs; exact ⟨rfl, hs⟩
  | cons p ps ih =>
    intro m h hs
    obtain ⟨h1, h2⟩ := step_isolated m h hs p
    obtain ⟨h3, h4⟩ := ih (step m p) h h2
    exact ⟨by show read (run (step m p) ps) h = _; rw [h3, h1], h4⟩

/-- between two element loads of an iteration the memory changes only by primitive steps (this
    includes being in the middle of somebody's `Add`) -/
def PrimsOnly {σ : Type} (get : σ → MS) (pf : σ → Addr → Nat → σ × Ctl) : Prop :=
  ∀ st p i, ∃ ps, (get (pf st p i).1).mem = run (get st).mem ps

/-- between two element loads of an iteration the slice changes only by complete `Add`/`Remove`
    operations (performed by the callback itself or by other goroutines) -/
def OpsOnly {σ : Type} (get : σ → MS) (pf : σ → Addr → Nat → σ × Ctl) : Prop :=
  ∀ st p i, ∃ ops, get (pf st p i).1 = runOps (get st) ops

theorem opsOnly_primsOnly {σ : Type} (get : σ → MS) (pf : σ → Addr → Nat → σ × Ctl)
    (h : OpsOnly get pf) : PrimsOnly get pf := by
  intro st p i
  obtain ⟨ops, e⟩ := h st p i
  exact ⟨opsPrims (get st) ops, by rw [e, runOps_eq, runM_mem]⟩

theorem iterPeers_inv {σ : Type} (pf : σ → Addr → Nat → σ × Ctl) (P : σ → Prop)
    (hP : ∀ st p i, P st → P (pf st p i).1) (po : Nat) :
    ∀ (l : List Addr) (st : σ), P st → P (Aurora.PSlice.iterPeers pf po l st).1 := by
  intro l
  induction l with
  | nil => intro st h; exact h
  | cons p ps ih =>
    intro st h
    rw [Aurora.PSlice.iterPeers_cons]
    have := hP st p po h
    cases hpf : pf st p po with
    | mk st' c =>
      rw [hpf] at this
      cases c with
      | err => exact this
      | stop => exact this
      | next => exact this
      | go => exact ih st' this

/-- one bin: loading the elements one by one from the current heap while the memory keeps
    changing gives the same loop as iterating over the list the header denoted when it was read -/
theorem iterPeersM_eq {σ : Type} (get : σ → MS) (pf : σ → Addr → Nat → σ × Ctl)
    (hp : PrimsOnly get pf) (po : Nat) (h : Hdr) (L : List Addr) (hL : L.length = h.len) :
    ∀ (n k : Nat) (st : σ), n + k = h.len → Stable (get st).mem h → read (get st).mem h = L →
      iterPeersM get pf po h n k st = Aurora.PSlice.iterPeers pf po (L.drop k) st := by
  intro n
  induction n with
  | zero =>
    intro k st hk _ _
    have : L.drop k = [] := List.drop_eq_nil_iff.2 (by omega)
    rw [this]; rfl
  | succ n ih =>
    intro k st hk hs hr
    have hkL : k < L.length := by omega
    have hel : (cells (get st).mem h.arr)[k]?.getD zero = L[k] := by
      have : L[k]? = (cells (get st).mem h.arr)[k]? := by
        rw [← hr]; unfold read
        rw [List.getElem?_take, if_pos (by omega)]
      rw [← this, List.getElem?_eq_getElem hkL]; rfl
    rw [List.drop_eq_getElem_cons hkL, iterPeersM, Aurora.PSlice.iterPeers_cons]
    simp only [hel]
    obtain ⟨ps, hps⟩ := hp st L[k] po
    obtain ⟨r1, r2⟩ := run_isolated' ps (get st).mem h hs
    rw [← hps] at r1 r2
    cases hpf : pf st L[k] po with
    | mk st' c =>
      rw [hpf] at r1 r2
      cases c with
      | err => rfl
      | stop => rfl
      | next => rfl
      | go => exact ih (k + 1) st' (by omega) r2 (by rw [r1]; exact hr)

/-- all bins: the memory-level loops equal the list-level loops over the abstraction -/
theorem eachBinsM_eq {σ : Type} (get : σ → MS) (pf : σ → Addr → Nat → σ × Ctl)
    (hp : PrimsOnly get pf) : ∀ (is : List Nat) (st : σ), WF (get st).mem →
    eachBinsM get pf is st = Aurora.PSlice.eachBins (fun st => abs (get st)) pf is st := by
  intro is
  induction is with
  | nil => intro st _; rfl
  | cons i is ih =>
    intro st hw
    have key : iterPeersM get pf i (hdr (get st).mem i) (hdr (get st).mem i).len 0 st =
        Aurora.PSlice.iterPeers pf i (bin (abs (get st)) i) st := by
      rw [bin_abs]; unfold binM
      by_cases hi : i < (get st).mem.bins.length
      · have := iterPeersM_eq get pf hp i (hdr (get st).mem i) (read (get st).mem (hdr (get st).mem i))
          (read_length _ hw i) (hdr (get st).mem i).len 0 st (by omega) (stable_of_wf _ hw i hi) rfl
        simpa using this
      · rw [hdr_of_ge _ i (by omega), read_default]; rfl
    rw [eachBinsM, Aurora.PSlice.eachBins]
    simp only [key]
    have hwf : WF (get (Aurora.PSlice.iterPeers pf i (bin (abs (get st)) i) st).1).mem := by
      apply iterPeers_inv pf (fun st => WF (get st).mem) _ i _ st hw
      intro st p j hw'
      obtain ⟨ps, hps⟩ := hp st p j
      rw [hps]; exact wf_run ps _ hw'
    cases hit : Aurora.PSlice.iterPeers pf i (bin (abs (get st)) i) st with
    | mk st' o =>
      rw [hit] at hwf
      cases o with
      | exhausted => exact ih st' hwf
      | stopped => rfl
      | failed => rfl

/-! ## what the callback is called with -/

/-- instrument a callback with a log of the `(po, address)` arguments it receives -/
def withLog {σ : Type} (pf : σ → Addr → Nat → σ × Ctl) :
    σ × List (Nat × Addr) → Addr → Nat → (σ × List (Nat × Addr)) × Ctl :=
  fun sl p i => ((( pf sl.1 p i).1, sl.2 ++ [(i, p)]), (pf sl.1 p i).2)

theorem iterPeers_log {σ : Type} (pf : σ → Addr → Nat → σ × Ctl) (i : Nat) :
    ∀ (l : List Addr) (st : σ) (log : List (Nat × Addr)),
    ∃ k, k ≤ l.length ∧
      (Aurora.PSlice.iterPeers (withLog pf) i l (st, log)).1.2 = log ++ (l.take k).map (fun p => (i, p)) ∧
      ((∀ st p, (pf st p i).2 = .go) → k = l.length) := by
  intro l
  induction l with
  | nil => intro st log; exact ⟨0, Nat.le_refl _, by simp [Aurora.PSlice.iterPeers], fun _ => rfl⟩
  | cons p ps ih =>
    intro st log
    rw [Aurora.PSlice.iterPeers_cons]
    have one : log ++ [(i, p)] = log ++ ((p :: ps).take 1).map (fun p => (i, p)) := by simp
    cases hc : (pf st p i).2 with
    | go =>
      obtain ⟨k, hk, he, hall⟩ := ih (pf st p i).1 (log ++ [(i, p)])
      refine ⟨k + 1, by simp; omega, ?_, fun ha => by rw [hall ha]; rfl⟩
      simp only [withLog, hc]
      rw [he]; simp
    | err =>
      refine ⟨1, by simp, ?_, fun ha => by rw [ha] at hc; cases hc⟩
      simp only [withLog, hc]; exact one
    | stop =>
      refine ⟨1, by simp, ?_, fun ha => by rw [ha] at hc; cases hc⟩
      simp only [withLog, hc]; exact one
    | next =>
      refine ⟨1, by simp, ?_, fun ha => by rw [ha] at hc; cases hc⟩
      simp only [withLog, hc]; exact one

theorem opsOnly_withLog {σ : Type} (get : σ → MS) (pf : σ → Addr → Nat → σ × Ctl)
    (h : OpsOnly get pf) : OpsOnly (fun sl : σ × List (Nat × Addr) => get sl.1) (withLog pf) := by
  intro sl p i
  exact h sl.1 p i

/-! ## the batch path of `Add` never grows through `append` -/

theorem hdr_step_realloc (m : Mem) (i : Nat) (content : List Addr) (len cap : Nat)
    (hc : len ≤ cap ∧ cap ≤ content.length) (j : Nat) :
    hdr (step m (.realloc i content len cap)) j =
      if j = i ∧ i < m.bins.length then ⟨m.heap.length, len, cap⟩ else hdr m j := by
  simp only [step]; rw [if_pos hc, hdr_set m]

theorem hdr_step_write (m : Mem) (i : Nat) (a : Addr) (hc : (hdr m i).len < (hdr m i).cap) (j : Nat) :
    hdr (step m (.write i a)) j =
      if j = i ∧ i < m.bins.length then { hdr m i with len := (hdr m i).len + 1 } else hdr m j := by
  simp only [step]; rw [if_pos hc, hdr_set m]

theorem binChange_congr (ms ms' : MS) (h1 : ms'.base = ms.base) (h2 : ms'.maxBins = ms.maxBins)
    (l : List (Addr × Bool)) (i : Nat) : binChange ms' l i = binChange ms l i := by
  unfold binChange poM; rw [h1, h2]

theorem binChange_cons (ms : MS) (a : Addr) (e : Bool) (rest : List (Addr × Bool)) (i : Nat) :
    binChange ms ((a, e) :: rest) i = (if (!e && poM ms a == i) = true then 1 else 0) + binChange ms rest i := by
  unfold binChange
  rw [List.filter_cons]
  split
  · simp_all; omega
  · simp_all

/-- every bin has room for all the appends the rest of the batch can still make into it -/
def Room (l : List (Addr × Bool)) (ms : MS) : Prop :=
  ∀ i, i < ms.mem.bins.length → (hdr ms.mem i).len + binChange ms l i ≤ (hdr ms.mem i).cap

theorem grow_room (l : List (Addr × Bool)) : ∀ (is : List Nat) (ms : MS), WF ms.mem →
    (∀ k, k ∈ is → k < ms.mem.bins.length →
      (hdr (runM ms (growPrims l is ms)).mem k).len + binChange ms l k ≤ (hdr (runM ms (growPrims l is ms)).mem k).cap) ∧
    (∀ j, j ∉ is → hdr (runM ms (growPrims l is ms)).mem j = hdr ms.mem j) := by
  intro is
  induction is with
  | nil =>
    intro ms _
    exact ⟨fun k hk => by simp at hk, fun j _ => rfl⟩
  | cons i rest ih =>
    intro ms hw
    rw [growPrims]
    simp only
    by_cases hc : binChange ms l i > 0 ∧ (hdr ms.mem i).cap < (hdr ms.mem i).len + binChange ms l i
    · rw [if_pos hc]
      have hl := read_length ms.mem hw i
      have hg : (hdr ms.mem i).len ≤ (hdr ms.mem i).len + binChange ms l i ∧
          (hdr ms.mem i).len + binChange ms l i ≤
            (read ms.mem (hdr ms.mem i) ++ List.replicate (binChange ms l i) zero).length := by
        simp only [List.length_append, List.length_replicate, hl]; omega
      have key : ∀ p, p = Prim.realloc i (read ms.mem (hdr ms.mem i) ++ List.replicate (binChange ms l i) zero)
          (hdr ms.mem i).len ((hdr ms.mem i).len + binChange ms l i) →
          (∀ k, k ∈ i :: rest → k < ms.mem.bins.length →
            (hdr (runM ms (p :: growPrims l rest (stepM ms p))).mem k).len + binChange ms l k
              ≤ (hdr (runM ms (p :: growPrims l rest (stepM ms p))).mem k).cap) ∧
          (∀ j, j ∉ i :: rest → hdr (runM ms (p :: growPrims l rest (stepM ms p))).mem j = hdr ms.mem j) := by
        intro p hp
        obtain ⟨A1, B1⟩ := ih (stepM ms p) (wf_step ms.mem hw p)
        have hh : ∀ j, hdr (stepM ms p).mem j =
            if j = i ∧ i < ms.mem.bins.length then ⟨ms.mem.heap.length, (hdr ms.mem i).len, (hdr ms.mem i).len + binChange ms l i⟩
            else hdr ms.mem j := by
          intro j; rw [hp]; exact hdr_step_realloc ms.mem i _ _ _ hg j
        constructor
        · intro k hk hkl
          show (hdr (runM (stepM ms p) (growPrims l rest (stepM ms p))).mem k).len + _ ≤
            (hdr (runM (stepM ms p) (growPrims l rest (stepM ms p))).mem k).cap
          by_cases hkr : k ∈ rest
          · have := A1 k hkr (by simpa [bins_length_step] using hkl)
            rwa [binChange_congr ms (stepM ms p) rfl rfl] at this
          · have hki : k = i := by
              rcases List.mem_cons.1 hk with h | h
              · exact h
              · exact absurd h hkr
            subst hki
            rw [B1 k hkr, hh k, if_pos ⟨rfl, hkl⟩]
            exact Nat.le_refl _
        · intro j hj
          show hdr (runM (stepM ms p) (growPrims l rest (stepM ms p))).mem j = _
          have hji : j ≠ i := fun h => hj (h ▸ List.mem_cons_self)
          have hjr : j ∉ rest := fun h => hj (List.mem_cons_of_mem _ h)
          rw [B1 j hjr, hh j, if_neg (fun h => hji h.1)]
      exact key _ rfl
    · rw [if_neg hc]
      obtain ⟨A1, B1⟩ := ih ms hw
      constructor
      · intro k hk hkl
        by_cases hkr : k ∈ rest
        · exact A1 k hkr hkl
        · have hki : k = i := by
            rcases List.mem_cons.1 hk with h | h
            · exact h
            · exact absurd h hkr
          subst hki
          rw [B1 k hkr]
          have := hw.lencap k hkl
          omega
      · intro j hj
        exact B1 j (fun h => hj (List.mem_cons_of_mem _ h))

def IsWrite : Prim → Prop
  | .write _ _ => True
  | .realloc _ _ _ _ => False

/-- third loop of the batch path, when every bin has room: all appends are in place and the
    runtime's growth policy is never consulted -/
theorem addLoop_room (orc orc' : Nat → Nat) : ∀ (l : List (Addr × Bool)) (ms : MS), WF ms.mem →
    InRange ms → Room l ms →
    (∀ p, p ∈ addLoopPrims orc l ms → IsWrite p) ∧ addLoopPrims orc l ms = addLoopPrims orc' l ms := by
  intro l
  induction l with
  | nil => intro ms _ _ _; exact ⟨fun p hp => by simp [addLoopPrims] at hp, rfl⟩
  | cons x rest ih =>
    intro ms hw hr hroom
    obtain ⟨a, e⟩ := x
    have hmono : Room rest ms := by
      intro i hi
      have := hroom i hi
      rw [binChange_cons] at this
      omega
    cases e with
    | true =>
      rw [addLoopPrims, addLoopPrims]
      simp only [if_true]
      exact ih ms hw hr hmono
    | false =>
      rw [addLoopPrims, addLoopPrims]
      simp only [Bool.false_eq_true, if_false]
      by_cases he : (indexM ms a (poM ms a)).isSome = true
      · rw [if_pos he, if_pos he]
        exact ih ms hw hr hmono
      · rw [if_neg he, if_neg he]
        have hpo := poM_lt ms hr a
        have hrm := hroom (poM ms a) hpo
        rw [binChange_cons] at hrm
        simp only [Bool.not_false, Bool.true_and, beq_self_eq_true, if_true] at hrm
        have hc : (hdr ms.mem (poM ms a)).len < (hdr ms.mem (poM ms a)).cap := by omega
        have hw1 : ∀ o, appendPrim ms.mem o (poM ms a) a = .write (poM ms a) a := by
          intro o; unfold appendPrim; simp only; rw [if_pos hc]
        rw [hw1 orc, hw1 orc']
        have hroom' : Room rest (stepM ms (.write (poM ms a) a)) := by
          intro i hi
          have hi' : i < ms.mem.bins.length := by simpa [bins_length_step] using hi
          rw [binChange_congr ms (stepM ms _) rfl rfl]
          show (hdr (step ms.mem _) i).len + _ ≤ (hdr (step ms.mem _) i).cap
          rw [hdr_step_write ms.mem _ a hc i]
          by_cases hip : i = poM ms a
          · rw [if_pos ⟨hip, hpo⟩]; simp only
            subst hip; omega
          · rw [if_neg (fun h => hip h.1)]
            have := hroom i hi'
            rw [binChange_cons] at this
            omega
        obtain ⟨h1, h2⟩ := ih (stepM ms (.write (poM ms a) a)) (wf_step ms.mem hw (.write (poM ms a) a))
          (inRange_stepM ms _ hr) hroom'
        refine ⟨?_, by rw [h2]⟩
        intro p hp
        rcases List.mem_cons.1 hp with h | h
        · rw [h]; trivial
        · exact h1 p h

/-- the batch path of `Add` (`len(addrs) ≠ 1`): after the pre-grow loop every append of the third
    loop is an in-place `.write`; the primitives do not depend on the growth oracle. -/
theorem addBatch_no_growth (ms : MS) (hw : WF ms.mem) (hr : InRange ms) (orc orc' : Nat → Nat)
    (addrs : List Addr) (hb : addrs.length ≠ 1) :
    addPrims ms orc addrs = addPrims ms orc' addrs ∧
    ∀ p, p ∈ addLoopPrims orc (addrs.zip (existsFlagsM ms addrs))
        (runM ms (growPrims (addrs.zip (existsFlagsM ms addrs)) (List.range ms.maxBins) ms)) → IsWrite p := by
  have hg := grow_spec (addrs.zip (existsFlagsM ms addrs)) (List.range ms.maxBins) ms hw
    (fun i hi => List.mem_range.1 hi)
  obtain ⟨A, _⟩ := grow_room (addrs.zip (existsFlagsM ms addrs)) (List.range ms.maxBins) ms hw
  have hroom : Room (addrs.zip (existsFlagsM ms addrs))
      (runM ms (growPrims (addrs.zip (existsFlagsM ms addrs)) (List.range ms.maxBins) ms)) := by
    intro i hi
    have hi' : i < ms.mem.bins.length := by rw [runM_mem, bins_length_run] at hi; exact hi
    rw [binChange_congr ms _ (runM_base _ _) (runM_maxBins _ _)]
    exact A i (List.mem_range.2 (by rw [← hr.1]; exact hi')) hi'
  obtain ⟨h1, h2⟩ := addLoop_room orc orc' _ _ hg.1 (inRange_runM ms _ hr) hroom
  refine ⟨?_, h1⟩
  cases addrs with
  | nil => simp only [addPrims]; rw [h2]
  | cons a t =>
    cases t with
    | nil => simp at hb
    | cons b t' => simp only [addPrims]; rw [h2]

end Aurora.PSliceMem
