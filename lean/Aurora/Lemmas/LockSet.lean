/-
  Generic lock-set lemma for a reader–writer mutex (sync.RWMutex).

  The mutex state is the list of current holders with their mode.  `Lock()` returns only when
  nobody holds the mutex, `RLock()` returns only when no writer holds it, `Unlock()/RUnlock()`
  drop one holder entry.  From this we get the usual invariant (all holders are readers, or
  there is exactly one holder and it is a writer) and from it the lock-set lemma: two
  simultaneous accesses of different threads, each covered by the mutex in the mode it
  needs (writes under `w`, reads under `w` or `r`), are both reads.

  Core Lean only.
-/
namespace Aurora.LockSet

inductive Mode | r | w
deriving DecidableEq, Repr

abbrev Tid := Nat

/-- who currently holds the RWMutex and how -/
structure St where
  holders : List (Tid × Mode)

inductive Step : St → St → Prop
  /-- `Lock()` succeeds only when nobody holds the mutex -/
  | acqW (s : St) (t : Tid) : s.holders = [] → Step s ⟨[(t, .w)]⟩
  /-- `RLock()` succeeds only without a writer -/
  | acqR (s : St) (t : Tid) : (∀ h ∈ s.holders, h.2 = .r) → Step s ⟨(t, .r) :: s.holders⟩
  /-- `Unlock()` / `RUnlock()` -/
  | rel (s : St) (h : Tid × Mode) : Step s ⟨s.holders.erase h⟩

inductive Reachable : St → Prop
  | init : Reachable ⟨[]⟩
  | step {s s' : St} : Reachable s → Step s s' → Reachable s'

/-- readers only, or exactly one writer -/
def Inv (s : St) : Prop :=
  (∀ h ∈ s.holders, h.2 = .r) ∨ (∃ t, s.holders = [(t, .w)])

theorem inv_init : Inv ⟨[]⟩ := by
  refine Or.inl ?_
  intro h hh
  cases hh

theorem inv_step {s s' : St} (hi : Inv s) (hs : Step s s') : Inv s' := by
  cases hs with
  | acqW t _ => exact Or.inr ⟨t, rfl⟩
  | acqR t hr =>
    refine Or.inl ?_
    intro h hh
    cases List.mem_cons.mp hh with
    | inl e => rw [e]
    | inr m => exact hr h m
  | rel h =>
    cases hi with
    | inl hr =>
      refine Or.inl ?_
      intro x hx
      exact hr x (List.mem_of_mem_erase hx)
    | inr hw =>
      cases hw with
      | intro t ht =>
        by_cases e : h = (t, Mode.w)
        · refine Or.inl ?_
          intro x hx
          have hx' : x ∈ ([(t, Mode.w)] : List (Tid × Mode)).erase h := by
            simpa [ht] using hx
          rw [e] at hx'
          simp at hx'
        · refine Or.inr ⟨t, ?_⟩
          show s.holders.erase h = [(t, Mode.w)]
          rw [ht]
          have hne : ((t, Mode.w) == h) = false := by
            apply beq_false_of_ne
            intro c
            exact e c.symm
          simp [hne]

/-- (a) the reader–writer invariant holds in every reachable state -/
theorem invariant {s : St} (h : Reachable s) :
    (∀ h ∈ s.holders, h.2 = .r) ∨ (∃ t, s.holders = [(t, .w)]) := by
  induction h with
  | init => exact inv_init
  | step _ hs ih => exact inv_step ih hs

/-- an in-flight access of thread `t` (`write` or read) is covered by the mutex in state `s` -/
def covered (s : St) (t : Tid) (write : Bool) : Prop :=
  (t, Mode.w) ∈ s.holders ∨ (write = false ∧ (t, Mode.r) ∈ s.holders)

/-- a covered access implies the thread holds the mutex in some mode -/
theorem covered_holds {s : St} {t : Tid} {w : Bool} (h : covered s t w) :
    ∃ m, (t, m) ∈ s.holders := by
  cases h with
  | inl hw => exact ⟨_, hw⟩
  | inr hr => exact ⟨_, hr.2⟩

/-- a covered write means the thread is *the* holder -/
theorem holders_of_covered_write {s : St} (hs : Reachable s) {t : Tid}
    (h : covered s t true) : s.holders = [(t, .w)] := by
  have hw : (t, Mode.w) ∈ s.holders := by
    cases h with
    | inl hw => exact hw
    | inr hr => exact absurd hr.1 (by decide)
  cases invariant hs with
  | inl hr => exact absurd (hr _ hw) (by intro c; cases c)
  | inr he =>
    cases he with
    | intro t' ht' =>
      rw [ht'] at hw
      have : (t, Mode.w) = (t', Mode.w) := by simpa using hw
      rw [ht', this]

/-- if thread `t` holds the mutex in write mode, every holder entry belongs to `t` -/
theorem writer_exclusive {s : St} (hs : Reachable s) {t t' : Tid} {m : Mode}
    (hw : (t, Mode.w) ∈ s.holders) (h' : (t', m) ∈ s.holders) : t' = t := by
  cases invariant hs with
  | inl hr => exact absurd (hr _ hw) (by intro c; cases c)
  | inr he =>
    cases he with
    | intro u hu =>
      rw [hu] at hw h'
      have e1 : (t, Mode.w) = (u, Mode.w) := by simpa using hw
      have e2 : (t', m) = (u, Mode.w) := by simpa using h'
      have a : t = u := congrArg Prod.fst e1
      have b : t' = u := congrArg Prod.fst e2
      rw [a, b]

/-- (b) lock-set lemma: two simultaneous covered accesses of different threads are both reads,
    i.e. there is no conflicting (write/any) pair. -/
theorem no_race {s : St} (hs : Reachable s) {t1 t2 : Tid} {w1 w2 : Bool}
    (c1 : covered s t1 w1) (c2 : covered s t2 w2) (hne : t1 ≠ t2) :
    w1 = false ∧ w2 = false := by
  cases c1 with
  | inl hw1 =>
    -- t1 is the writer: t2 cannot hold anything
    cases covered_holds c2 with
    | intro m hm => exact absurd (writer_exclusive hs hw1 hm).symm hne
  | inr hr1 =>
    cases c2 with
    | inl hw2 => exact absurd (writer_exclusive hs hw2 hr1.2) hne
    | inr hr2 => exact ⟨hr1.1, hr2.1⟩

/-- corollary in the usual phrasing: a covered write excludes any covered access of another thread -/
theorem write_excludes {s : St} (hs : Reachable s) {t1 t2 : Tid} {w2 : Bool}
    (c1 : covered s t1 true) (c2 : covered s t2 w2) : t1 = t2 := by
  by_cases e : t1 = t2
  · exact e
  · exact absurd (no_race hs c1 c2 e).1 (by decide)

end Aurora.LockSet
