import Aurora.Model.PSlice
import Aurora.Lemmas.Proximity
import Mathlib.Data.List.Nodup
/-! Helper lemmas for Props/C21 (core Lean + `Mathlib.Data.List.Nodup` for `List.nodup_flatten`). -/
namespace Aurora.PSlice
open Aurora.Proximity

/-! ## index -/

theorem indexFrom_none (a : Addr) (l : List Addr) : ∀ i, indexFrom a l i = none ↔ a ∉ l := by
  induction l with
  | nil => intro i; simp [indexFrom]
  | cons p ps ih =>
    intro i
    unfold indexFrom
    by_cases h : p = a
    · simp [h]
    · rw [if_neg h, ih]
      simp [Ne.symm h]

theorem indexFrom_some (a : Addr) (l : List Addr) : ∀ i j, indexFrom a l i = some j →
    i ≤ j ∧ l[j - i]? = some a := by
  induction l with
  | nil => intro i j h; simp [indexFrom] at h
  | cons p ps ih =>
    intro i j h
    unfold indexFrom at h
    by_cases hp : p = a
    · rw [if_pos hp] at h
      have : i = j := by simpa using h
      subst this
      simp [hp]
    · rw [if_neg hp] at h
      obtain ⟨h1, h2⟩ := ih (i + 1) j h
      refine ⟨by omega, ?_⟩
      have : j - i = (j - (i + 1)) + 1 := by omega
      rw [this]; simpa using h2

theorem indexFrom_isSome (a : Addr) (l : List Addr) (i : Nat) : (indexFrom a l i).isSome = true ↔ a ∈ l := by
  cases h : indexFrom a l i with
  | none => simp [(indexFrom_none a l i).1 h]
  | some j =>
    simp only [Option.isSome_some, true_iff]
    apply Classical.byContradiction
    intro hn
    rw [(indexFrom_none a l i).2 hn] at h
    simp at h

/-! ## removal inside one bin -/

/-- what `Remove` stores into the bin when the address was found at index `i` -/
def removeAt (b : List Addr) (i : Nat) : List Addr :=
  if i = b.length - 1 then b.take (b.length - 1)
  else (b.take (b.length - 1)).set i (b[b.length - 1]?.getD [])

theorem removeAt_perm (b : List Addr) : ∀ i, i < b.length → (removeAt b i).Perm (b.eraseIdx i) := by
  induction b with
  | nil => intro i h; simp at h
  | cons x b' ih =>
    intro i hi
    cases i with
    | zero =>
      cases b' with
      | nil => simp [removeAt]
      | cons y b'' =>
        simp only [removeAt, List.length_cons, List.eraseIdx_zero, List.tail_cons]
        have h1 : ¬ (0 = b''.length + 1 + 1 - 1) := by omega
        rw [if_neg h1]
        have e : b''.length + 1 + 1 - 1 = b''.length + 1 := by omega
        rw [e]
        simp only [List.take_succ_cons, List.set_cons_zero, List.getElem?_cons_succ]
        -- goal: last :: take n (y :: b'') ~ y :: b''
        have hl : (y :: b'')[b''.length]? = some ((y :: b'').getLast (by simp)) := by
          rw [List.getLast_eq_getElem]; simp
        rw [hl]
        simp only [Option.getD_some]
        have hd : (y :: b'').take b''.length = (y :: b'').dropLast := by
          rw [List.dropLast_eq_take]; simp
        rw [hd]
        have := List.dropLast_concat_getLast (l := y :: b'') (by simp)
        exact (List.perm_append_singleton _ _).symm.trans (by rw [this])
    | succ i' =>
      have hi' : i' < b'.length := by simpa using hi
      have ihh := ih i' hi'
      cases b' with
      | nil => simp at hi'
      | cons y b'' =>
        simp only [removeAt, List.length_cons, List.eraseIdx_cons_succ] at ihh ⊢
        have e : b''.length + 1 + 1 - 1 = b''.length + 1 := by omega
        have e' : b''.length + 1 - 1 = b''.length := by omega
        rw [e]; rw [e'] at ihh
        by_cases hc : i' = b''.length
        · have : i' + 1 = b''.length + 1 := by omega
          rw [if_pos this]; rw [if_pos hc] at ihh
          simp only [List.take_succ_cons]
          exact List.Perm.cons x ihh
        · have : ¬ (i' + 1 = b''.length + 1) := by omega
          rw [if_neg this]; rw [if_neg hc] at ihh
          simp only [List.take_succ_cons, List.set_cons_succ, List.getElem?_cons_succ]
          exact List.Perm.cons x ihh


theorem mem_eraseIdx_nodup (b : List Addr) : ∀ (i : Nat) (a x : Addr), b.Nodup → b[i]? = some a →
    (x ∈ b.eraseIdx i ↔ x ∈ b ∧ x ≠ a) := by
  induction b with
  | nil => intro i a x _ h; simp at h
  | cons y b' ih =>
    intro i a x hnd hi
    have hnd' := List.nodup_cons.1 hnd
    cases i with
    | zero =>
      have : y = a := by simpa using hi
      subst this
      simp only [List.eraseIdx_zero, List.tail_cons, List.mem_cons]
      constructor
      · intro hx; exact ⟨Or.inr hx, fun h => hnd'.1 (h ▸ hx)⟩
      · intro ⟨h1, h2⟩; cases h1 with
        | inl h => exact absurd h h2
        | inr h => exact h
    | succ i' =>
      have hi' : b'[i']? = some a := by simpa using hi
      have hab : a ∈ b' := List.mem_of_getElem? hi'
      simp only [List.eraseIdx_cons_succ, List.mem_cons, ih i' a x hnd'.2 hi']
      constructor
      · intro h; cases h with
        | inl h => subst h; exact ⟨Or.inl rfl, fun h => hnd'.1 (h ▸ hab)⟩
        | inr h => exact ⟨Or.inr h.1, h.2⟩
      · intro ⟨h1, h2⟩; cases h1 with
        | inl h => exact Or.inl h
        | inr h => exact Or.inr ⟨h, h2⟩

theorem mem_removeAt (b : List Addr) (i : Nat) (a x : Addr) (hnd : b.Nodup) (hi : b[i]? = some a) :
    x ∈ removeAt b i ↔ x ∈ b ∧ x ≠ a := by
  have hlt : i < b.length := by
    apply Classical.byContradiction; intro hn
    rw [List.getElem?_eq_none (by omega)] at hi; simp at hi
  rw [(removeAt_perm b i hlt).mem_iff]
  exact mem_eraseIdx_nodup b i a x hnd hi

theorem nodup_removeAt (b : List Addr) (i : Nat) (hnd : b.Nodup) (hlt : i < b.length) :
    (removeAt b i).Nodup :=
  (removeAt_perm b i hlt).nodup_iff.2 (hnd.sublist (List.eraseIdx_sublist _ _))

/-! ## invariant and membership -/

structure Inv (s : PS) : Prop where
  len : s.bins.length = s.maxBins
  pos : 1 ≤ s.maxBins
  le : s.maxBins ≤ 256
  nodup : ∀ i, (bin s i).Nodup
  inbin : ∀ i x, x ∈ bin s i → po s x = i

/-- the address is stored somewhere in the slice -/
def Mem (s : PS) (x : Addr) : Prop := ∃ i, x ∈ bin s i

theorem po_eq_min (s : PS) (h1 : 1 ≤ s.maxBins) (h2 : s.maxBins ≤ 256) (a : Addr) :
    po s a = min (proximity s.base a) (s.maxBins - 1) := by
  unfold po
  simp only
  split <;> omega

theorem po_lt (s : PS) (h : Inv s) (a : Addr) : po s a < s.bins.length := by
  rw [po_eq_min s h.pos h.le, h.len]; have := h.pos; omega

theorem bin_setBin (s : PS) (i : Nat) (b : List Addr) (j : Nat) :
    bin (setBin s i b) j = if j = i ∧ i < s.bins.length then b else bin s j := by
  unfold bin setBin
  simp only [List.getElem?_set]
  by_cases h : i = j
  · subst h
    by_cases h2 : i < s.bins.length
    · simp [h2]
    · simp [h2]
  · have : ¬ (j = i) := fun h' => h h'.symm
    simp [h, this]

@[simp] theorem po_setBin (s : PS) (i : Nat) (b : List Addr) (a : Addr) : po (setBin s i b) a = po s a := rfl

theorem mem_iff (s : PS) (h : Inv s) (x : Addr) : Mem s x ↔ x ∈ bin s (po s x) := by
  constructor
  · intro ⟨i, hi⟩; rw [h.inbin i x hi]; exact hi
  · intro hx; exact ⟨_, hx⟩

theorem bin_nil_of_ge (s : PS) (i : Nat) (h : s.bins.length ≤ i) : bin s i = [] := by
  unfold bin; rw [List.getElem?_eq_none h]; rfl

/-- replacing bin `i` by a list with the right properties keeps the invariant -/
theorem inv_setBin (s : PS) (h : Inv s) (i : Nat) (b : List Addr) (hnd : b.Nodup)
    (hin : ∀ x, x ∈ b → po s x = i) : Inv (setBin s i b) := by
  refine ⟨by simp [setBin, h.len], h.pos, h.le, ?_, ?_⟩
  · intro j; rw [bin_setBin]; split
    · exact hnd
    · exact h.nodup j
  · intro j x; rw [bin_setBin]; split
    · rename_i hc; intro hx; rw [po_setBin, hin x hx, hc.1]
    · intro hx; exact h.inbin j x hx

theorem mem_setBin (s : PS) (h : Inv s) (i : Nat) (hi : i < s.bins.length) (b : List Addr) (x : Addr)
    (hpo : po s x = i) : Mem (setBin s i b) x ↔ x ∈ b := by
  constructor
  · intro ⟨j, hj⟩
    rw [bin_setBin] at hj
    by_cases hc : j = i ∧ i < s.bins.length
    · rw [if_pos hc] at hj; exact hj
    · rw [if_neg hc] at hj
      have := h.inbin j x hj
      exact absurd ⟨by omega, hi⟩ hc
  · intro hx; exact ⟨i, by rw [bin_setBin, if_pos ⟨rfl, hi⟩]; exact hx⟩

theorem mem_setBin_other (s : PS) (h : Inv s) (i : Nat) (b : List Addr) (x : Addr)
    (hpo : po s x ≠ i) (hb : ∀ y, y ∈ b → po s y = i) : Mem (setBin s i b) x ↔ Mem s x := by
  constructor
  · intro ⟨j, hj⟩
    rw [bin_setBin] at hj
    by_cases hc : j = i ∧ i < s.bins.length
    · rw [if_pos hc] at hj; exact absurd (hb x hj) hpo
    · rw [if_neg hc] at hj; exact ⟨j, hj⟩
  · intro hx
    have := (mem_iff s h x).1 hx
    refine ⟨po s x, ?_⟩
    rw [bin_setBin, if_neg (fun hc => hpo hc.1)]; exact this

/-! ## Add (single) -/

theorem index_isSome (s : PS) (a : Addr) (p : Nat) : (index s a p).isSome = true ↔ a ∈ bin s p :=
  indexFrom_isSome a (bin s p) 0

theorem inv_addOne (s : PS) (h : Inv s) (a : Addr) : Inv (addOne s a) := by
  unfold addOne
  simp only
  by_cases he : (index s a (po s a)).isSome = true
  · rw [if_pos he]; exact h
  · rw [if_neg he]
    have hn : a ∉ bin s (po s a) := fun hm => he ((index_isSome s a _).2 hm)
    apply inv_setBin s h
    · rw [List.nodup_append]
      refine ⟨h.nodup _, by simp, ?_⟩
      intro x hx y hy
      have : y = a := by simpa using hy
      subst this
      intro hxy; subst hxy; exact hn hx
    · intro x hx
      rcases List.mem_append.1 hx with hx | hx
      · exact h.inbin _ x hx
      · have : x = a := by simpa using hx
        rw [this]

theorem mem_addOne (s : PS) (h : Inv s) (a x : Addr) : Mem (addOne s a) x ↔ Mem s x ∨ x = a := by
  unfold addOne
  simp only
  by_cases he : (index s a (po s a)).isSome = true
  · rw [if_pos he]
    have hm : Mem s a := ⟨_, (index_isSome s a _).1 he⟩
    constructor
    · intro hx; exact Or.inl hx
    · intro hx; cases hx with
      | inl hx => exact hx
      | inr hx => rw [hx]; exact hm
  · rw [if_neg he]
    by_cases hp : po s x = po s a
    · rw [mem_setBin s h _ (po_lt s h a) _ x hp, List.mem_append, mem_iff s h x, hp]
      simp
    · have hxa : x ≠ a := fun e => hp (by rw [e])
      rw [mem_setBin_other s h _ _ x hp]
      · simp [hxa]
      · intro y hy
        rcases List.mem_append.1 hy with hy | hy
        · exact h.inbin _ y hy
        · have : y = a := by simpa using hy
          rw [this]

/-! ## Add (batch) -/

theorem inv_addLoop : ∀ (l : List (Addr × Bool)) (s : PS), Inv s → Inv (addLoop s l) := by
  intro l
  induction l with
  | nil => intro s h; exact h
  | cons p rest ih =>
    intro s h
    obtain ⟨a, e⟩ := p
    unfold addLoop
    by_cases he : e = true
    · rw [if_pos he]; exact ih s h
    · rw [if_neg he]; exact ih _ (inv_addOne s h a)

theorem mem_addLoop : ∀ (l : List (Addr × Bool)) (s : PS), Inv s →
    (∀ p, p ∈ l → p.2 = true → Mem s p.1) →
    ∀ x, Mem (addLoop s l) x ↔ Mem s x ∨ x ∈ l.map (·.1) := by
  intro l
  induction l with
  | nil => intro s _ _ x; simp [addLoop]
  | cons p rest ih =>
    intro s h hflag x
    obtain ⟨a, e⟩ := p
    unfold addLoop
    by_cases he : e = true
    · rw [if_pos he, ih s h (fun p hp => hflag p (List.mem_cons_of_mem _ hp)) x]
      have hm : Mem s a := hflag (a, e) (List.mem_cons_self) he
      simp only [List.map_cons, List.mem_cons]
      constructor
      · intro hx; cases hx with
        | inl hx => exact Or.inl hx
        | inr hx => exact Or.inr (Or.inr hx)
      · intro hx; rcases hx with hx | hx | hx
        · exact Or.inl hx
        · rw [hx]; exact Or.inl hm
        · exact Or.inr hx
    · rw [if_neg he, ih _ (inv_addOne s h a) (fun p hp hpe =>
        (mem_addOne s h a p.1).2 (Or.inl (hflag p (List.mem_cons_of_mem _ hp) hpe))) x,
        mem_addOne s h a x]
      simp only [List.map_cons, List.mem_cons]
      constructor
      · intro hx; rcases hx with (hx | hx) | hx
        · exact Or.inl hx
        · exact Or.inr (Or.inl hx)
        · exact Or.inr (Or.inr hx)
      · intro hx; rcases hx with hx | hx | hx
        · exact Or.inl (Or.inl hx)
        · exact Or.inl (Or.inr hx)
        · exact Or.inr hx

theorem zip_map_fst {β : Type} (f : Addr → β) : ∀ addrs : List Addr, (addrs.zip (addrs.map f)).map (·.1) = addrs := by
  intro addrs
  induction addrs with
  | nil => rfl
  | cons a t ih => simp [ih]

theorem zip_map_snd {β : Type} (f : Addr → β) : ∀ (addrs : List Addr) (p : Addr × β),
    p ∈ addrs.zip (addrs.map f) → p.2 = f p.1 := by
  intro addrs
  induction addrs with
  | nil => intro p h; simp at h
  | cons a t ih =>
    intro p h
    simp only [List.map_cons, List.zip_cons_cons, List.mem_cons] at h
    cases h with
    | inl h => rw [h]
    | inr h => exact ih p h

theorem zip_flags_fst (s : PS) (addrs : List Addr) :
    (addrs.zip (existsFlags s addrs)).map (·.1) = addrs := zip_map_fst _ addrs

theorem zip_flags_sound (s : PS) (addrs : List Addr) :
    ∀ p, p ∈ addrs.zip (existsFlags s addrs) → p.2 = true → Mem s p.1 := by
  intro p hp he
  have := zip_map_snd _ addrs p hp
  rw [this] at he
  exact ⟨_, (index_isSome s p.1 _).1 he⟩

theorem inv_add (s : PS) (h : Inv s) (addrs : List Addr) : Inv (add s addrs) := by
  unfold add
  split
  · exact inv_addOne s h _
  · exact inv_addLoop _ s h

theorem mem_add (s : PS) (h : Inv s) (addrs : List Addr) (x : Addr) :
    Mem (add s addrs) x ↔ Mem s x ∨ x ∈ addrs := by
  unfold add
  split
  · rw [mem_addOne s h]; simp
  · rw [mem_addLoop _ s h (zip_flags_sound s addrs) x, zip_flags_fst]

/-! ## Remove -/

theorem remove_eq (s : PS) (a : Addr) :
    remove s a = match index s a (po s a) with
      | none => s
      | some i => setBin s (po s a) (removeAt (bin s (po s a)) i) := by
  unfold remove removeAt
  simp only
  cases index s a (po s a) with
  | none => rfl
  | some i => simp only; split <;> rfl

theorem inv_remove (s : PS) (h : Inv s) (a : Addr) : Inv (remove s a) := by
  rw [remove_eq]
  cases hi : index s a (po s a) with
  | none => exact h
  | some i =>
    simp only
    obtain ⟨_, h2⟩ := indexFrom_some a _ 0 i hi
    have hlt : i < (bin s (po s a)).length := by
      apply Classical.byContradiction; intro hn
      rw [List.getElem?_eq_none (by omega)] at h2; simp at h2
    apply inv_setBin s h
    · exact nodup_removeAt _ i (h.nodup _) hlt
    · intro x hx
      have := (mem_removeAt _ i a x (h.nodup _) (by simpa using h2)).1 hx
      exact h.inbin _ x this.1

theorem mem_remove (s : PS) (h : Inv s) (a x : Addr) : Mem (remove s a) x ↔ Mem s x ∧ x ≠ a := by
  rw [remove_eq]
  cases hi : index s a (po s a) with
  | none =>
    simp only
    have hn : a ∉ bin s (po s a) := (indexFrom_none a _ 0).1 hi
    constructor
    · intro hx; refine ⟨hx, ?_⟩
      intro e; subst e; exact hn ((mem_iff s h x).1 hx)
    · intro hx; exact hx.1
  | some i =>
    simp only
    obtain ⟨_, h2⟩ := indexFrom_some a _ 0 i hi
    have h2' : (bin s (po s a))[i]? = some a := by simpa using h2
    have hrm := fun y => mem_removeAt _ i a y (h.nodup _) h2'
    by_cases hp : po s x = po s a
    · rw [mem_setBin s h _ (po_lt s h a) _ x hp, hrm x, mem_iff s h x, hp]
    · have hxa : x ≠ a := fun e => hp (by rw [e])
      rw [mem_setBin_other s h _ _ x hp]
      · simp [hxa]
      · intro y hy; exact h.inbin _ y ((hrm y).1 hy).1

/-! ## New -/

theorem bin_new (m : Nat) (base : Addr) (i : Nat) : bin (new m base) i = [] := by
  unfold bin new
  simp only [List.getElem?_replicate]
  split <;> rfl

theorem inv_new (m : Nat) (base : Addr) (h1 : 1 ≤ m) (h2 : m ≤ 256) : Inv (new m base) := by
  refine ⟨by simp [new], h1, h2, ?_, ?_⟩
  · intro i; rw [bin_new]; exact List.nodup_nil
  · intro i x hx; rw [bin_new] at hx; simp at hx

theorem not_mem_new (m : Nat) (base : Addr) (x : Addr) : ¬ Mem (new m base) x := by
  intro ⟨i, hi⟩; rw [bin_new] at hi; simp at hi


/-! ## operation sequences and the set they denote -/

inductive Op
  | add (addrs : List Addr)
  | remove (a : Addr)

def applyOp (s : PS) : Op → PS
  | .add as => add s as
  | .remove a => remove s a

def run (s : PS) (ops : List Op) : PS := ops.foldl applyOp s

/-- the abstract set (as a predicate) after one operation -/
def specStep (S : Addr → Prop) : Op → (Addr → Prop)
  | .add as => fun x => S x ∨ x ∈ as
  | .remove a => fun x => S x ∧ x ≠ a

/-- `added \ removed`, in history order -/
def specRun (S : Addr → Prop) (ops : List Op) : Addr → Prop := ops.foldl specStep S

theorem inv_applyOp (s : PS) (h : Inv s) (op : Op) : Inv (applyOp s op) := by
  cases op with
  | add as => exact inv_add s h as
  | remove a => exact inv_remove s h a

theorem mem_applyOp (s : PS) (h : Inv s) (op : Op) (S : Addr → Prop) (hS : ∀ x, Mem s x ↔ S x) (x : Addr) :
    Mem (applyOp s op) x ↔ specStep S op x := by
  cases op with
  | add as => simp only [applyOp, specStep, mem_add s h, hS]
  | remove a => simp only [applyOp, specStep, mem_remove s h, hS]

theorem run_refines : ∀ (ops : List Op) (s : PS), Inv s → ∀ (S : Addr → Prop), (∀ x, Mem s x ↔ S x) →
    Inv (run s ops) ∧ ∀ x, Mem (run s ops) x ↔ specRun S ops x := by
  intro ops
  induction ops with
  | nil => intro s h S hS; exact ⟨h, hS⟩
  | cons op rest ih =>
    intro s h S hS
    exact ih (applyOp s op) (inv_applyOp s h op) (specStep S op) (mem_applyOp s h op S hS)

/-! ## sizes -/

/-- every stored address, shallowest bin first -/
def allPeers (s : PS) : List Addr := s.bins.flatten

theorem mem_bins_iff (s : PS) (l : List Addr) : l ∈ s.bins ↔ ∃ i, i < s.bins.length ∧ bin s i = l := by
  constructor
  · intro h
    obtain ⟨i, hi, e⟩ := List.mem_iff_getElem.1 h
    exact ⟨i, hi, by simp [bin, hi, e]⟩
  · intro ⟨i, hi, e⟩
    rw [← e]; simp [bin, hi]

theorem mem_allPeers (s : PS) (x : Addr) : x ∈ allPeers s ↔ Mem s x := by
  unfold allPeers Mem
  rw [List.mem_flatten]
  constructor
  · intro ⟨l, hl, hx⟩
    obtain ⟨i, _, e⟩ := (mem_bins_iff s l).1 hl
    exact ⟨i, by rw [e]; exact hx⟩
  · intro ⟨i, hx⟩
    by_cases hi : i < s.bins.length
    · exact ⟨bin s i, (mem_bins_iff s _).2 ⟨i, hi, rfl⟩, hx⟩
    · rw [bin_nil_of_ge s i (by omega)] at hx; simp at hx

theorem nodup_allPeers (s : PS) (h : Inv s) : (allPeers s).Nodup := by
  unfold allPeers
  rw [List.nodup_flatten]
  constructor
  · intro l hl
    obtain ⟨i, _, e⟩ := (mem_bins_iff s l).1 hl
    rw [← e]; exact h.nodup i
  · rw [List.pairwise_iff_getElem]
    intro i j hi hj hij x hx1 hx2
    have e1 : bin s i = s.bins[i] := by simp [bin, hi]
    have e2 : bin s j = s.bins[j] := by simp [bin, hj]
    have p1 := h.inbin i x (by rw [e1]; exact hx1)
    have p2 := h.inbin j x (by rw [e2]; exact hx2)
    omega

theorem foldl_len (l : List (List Addr)) : ∀ acc, l.foldl (fun acc b => acc + b.length) acc = acc + l.flatten.length := by
  induction l with
  | nil => intro acc; simp
  | cons b t ih => intro acc; simp [ih]; omega

theorem length_eq (s : PS) : length s = (allPeers s).length := by
  unfold length allPeers; rw [foldl_len]; simp

theorem mem_bin_iff (s : PS) (h : Inv s) (i : Nat) (x : Addr) : x ∈ bin s i ↔ Mem s x ∧ po s x = i := by
  constructor
  · intro hx; exact ⟨⟨i, hx⟩, h.inbin i x hx⟩
  · intro ⟨hm, hp⟩; rw [← hp]; exact (mem_iff s h x).1 hm

theorem shallowestEmptyFrom_some (l : List (List Addr)) : ∀ off r, off + l.length ≤ 256 →
    shallowestEmptyFrom l off = some r →
    off ≤ r ∧ r - off < l.length ∧ l[r - off]? = some [] ∧ ∀ j, j < r - off → l[j]? ≠ some [] := by
  induction l with
  | nil => intro off r _ h; simp [shallowestEmptyFrom] at h
  | cons b t ih =>
    intro off r hle h
    unfold shallowestEmptyFrom at h
    simp only [List.length_cons] at hle
    by_cases hb : b.length = 0
    · rw [if_pos hb] at h
      have : off % 256 = r := by simpa using h
      have hr : r = off := by omega
      subst hr
      have : b = [] := List.length_eq_zero_iff.1 hb
      simp [this]
    · rw [if_neg hb] at h
      obtain ⟨h1, h2, h3, h4⟩ := ih (off + 1) r (by omega) h
      have e : r - off = (r - (off + 1)) + 1 := by omega
      refine ⟨by omega, by simp only [List.length_cons]; omega, by rw [e]; simpa using h3, ?_⟩
      intro j hj
      cases j with
      | zero =>
        simp only [List.getElem?_cons_zero, ne_eq, Option.some.injEq]
        intro hb'; rw [hb'] at hb; simp at hb
      | succ j' => simpa using h4 j' (by omega)

theorem shallowestEmptyFrom_none (l : List (List Addr)) : ∀ off,
    shallowestEmptyFrom l off = none → ∀ j, j < l.length → l[j]? ≠ some [] := by
  induction l with
  | nil => intro off _ j hj; simp at hj
  | cons b t ih =>
    intro off h j hj
    unfold shallowestEmptyFrom at h
    by_cases hb : b.length = 0
    · rw [if_pos hb] at h; simp at h
    · rw [if_neg hb] at h
      cases j with
      | zero =>
        simp only [List.getElem?_cons_zero, ne_eq, Option.some.injEq]
        intro hb'; rw [hb'] at hb; simp at hb
      | succ j' => simpa using ih (off + 1) h j' (by simpa using hj)

theorem bins_get_eq (s : PS) (i : Nat) (hi : i < s.bins.length) : s.bins[i]? = some (bin s i) := by
  simp [bin, hi]


/-! ## iteration -/

/-- the `(bin, address)` pairs of the slice in the order given by the bin indices `is` -/
def entries (s : PS) (is : List Nat) : List (Nat × Addr) :=
  is.flatMap (fun i => (bin s i).map (fun p => (i, p)))

/-- Specification of the iteration on the flat listing: call the callback on each entry in order;
    `err` ends with the error, `stop` ends without error, `next` skips the remaining entries of the
    same bin (`skip`), `go` continues. -/
def specIter {σ : Type} (pf : σ → Addr → Nat → σ × Ctl) : List (Nat × Addr) → Option Nat → σ → σ × Bool
  | [], _, st => (st, true)
  | (i, p) :: rest, skip, st =>
    if skip = some i then specIter pf rest skip st
    else match pf st p i with
      | (st', .err) => (st', false)
      | (st', .stop) => (st', true)
      | (st', .next) => specIter pf rest (some i) st'
      | (st', .go) => specIter pf rest none st'

theorem specIter_cons {σ : Type} (pf : σ → Addr → Nat → σ × Ctl) (i : Nat) (p : Addr)
    (rest : List (Nat × Addr)) (skip : Option Nat) (st : σ) :
    specIter pf ((i, p) :: rest) skip st =
      if skip = some i then specIter pf rest skip st
      else match pf st p i with
        | (st', .err) => (st', false)
        | (st', .stop) => (st', true)
        | (st', .next) => specIter pf rest (some i) st'
        | (st', .go) => specIter pf rest none st' := by
  rw [specIter]

theorem iterPeers_cons {σ : Type} (pf : σ → Addr → Nat → σ × Ctl) (i : Nat) (p : Addr) (ps : List Addr) (st : σ) :
    iterPeers pf i (p :: ps) st =
      match pf st p i with
      | (st', .err) => (st', .failed)
      | (st', .stop) => (st', .stopped)
      | (st', .next) => (st', .exhausted)
      | (st', .go) => iterPeers pf i ps st' := by
  rw [iterPeers]
  cases pf st p i with
  | mk a c => cases c <;> rfl

theorem specIter_skip_irrelevant {σ : Type} (pf : σ → Addr → Nat → σ × Ctl) (l : List (Nat × Addr)) :
    ∀ (i : Nat) (st : σ), (∀ e, e ∈ l → e.1 ≠ i) → specIter pf l (some i) st = specIter pf l none st := by
  induction l with
  | nil => intro i st _; rfl
  | cons e rest ih =>
    intro i st h
    obtain ⟨j, p⟩ := e
    have hj : j ≠ i := h (j, p) List.mem_cons_self
    rw [specIter_cons, specIter_cons]
    have n1 : ¬ (some i = some j) := by simpa using Ne.symm hj
    have n2 : ¬ ((none : Option Nat) = some j) := by simp
    rw [if_neg n1, if_neg n2]

theorem specIter_skip_block {σ : Type} (pf : σ → Addr → Nat → σ × Ctl) (i : Nat) (ps : List Addr)
    (rest : List (Nat × Addr)) (st : σ) :
    specIter pf (ps.map (fun p => (i, p)) ++ rest) (some i) st = specIter pf rest (some i) st := by
  induction ps with
  | nil => rfl
  | cons p ps ih =>
    simp only [List.map_cons, List.cons_append]
    rw [specIter_cons, if_pos rfl]; exact ih

/-- one bin: the Go inner loop against the flat specification -/
theorem iterPeers_spec {σ : Type} (pf : σ → Addr → Nat → σ × Ctl) (i : Nat) (rest : List (Nat × Addr))
    (hrest : ∀ e, e ∈ rest → e.1 ≠ i) : ∀ (ps : List Addr) (st : σ),
    specIter pf (ps.map (fun p => (i, p)) ++ rest) none st =
      match iterPeers pf i ps st with
      | (st', .failed) => (st', false)
      | (st', .stopped) => (st', true)
      | (st', .exhausted) => specIter pf rest none st' := by
  intro ps
  induction ps with
  | nil => intro st; simp [iterPeers]
  | cons p ps ih =>
    intro st
    simp only [List.map_cons, List.cons_append]
    rw [specIter_cons, iterPeers_cons]
    have n2 : ¬ ((none : Option Nat) = some i) := by simp
    rw [if_neg n2]
    cases h : pf st p i with
    | mk st' c =>
      cases c with
      | err => rfl
      | stop => rfl
      | next =>
        simp only
        rw [specIter_skip_block, specIter_skip_irrelevant pf rest i st' hrest]
      | go => simp only; exact ih st'

theorem entries_fst (s : PS) (is : List Nat) : ∀ e, e ∈ entries s is → e.1 ∈ is := by
  intro e he
  unfold entries at he
  obtain ⟨i, hi, hm⟩ := List.mem_flatMap.1 he
  obtain ⟨p, _, rfl⟩ := List.mem_map.1 hm
  exact hi

/-- the Go loops (`EachBin`, `EachBinRev` with a callback that does not change the slice) against
    the flat specification -/
theorem eachBins_spec {σ : Type} (s : PS) (pf : σ → Addr → Nat → σ × Ctl) :
    ∀ (is : List Nat) (st : σ), is.Nodup →
    eachBins (fun _ => s) pf is st = specIter pf (entries s is) none st := by
  intro is
  induction is with
  | nil => intro st _; rfl
  | cons i is ih =>
    intro st hnd
    have hnd' := List.nodup_cons.1 hnd
    have hrest : ∀ e, e ∈ entries s is → e.1 ≠ i := by
      intro e he hei
      exact hnd'.1 (hei ▸ entries_fst s is e he)
    have he : entries s (i :: is) = (bin s i).map (fun p => (i, p)) ++ entries s is := by
      simp [entries]
    rw [he, iterPeers_spec pf i _ hrest]
    unfold eachBins
    cases h : iterPeers pf i (bin s i) st with
    | mk st' o =>
      cases o with
      | exhausted => simp only; exact ih st' hnd'.2
      | stopped => rfl
      | failed => rfl

end Aurora.PSlice
