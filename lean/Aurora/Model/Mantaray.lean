/-!
# Mantaray manifest trie: model of `github.com/gauss-project/manifest@v0.4.2/mantaray`
(`Node.Add / Remove / LookupNode / HasPrefix / Save / load`, files `node.go`, `persist.go`) as used
through `/repo/pkg/manifest/mantaray.go` (`Add / Remove / Lookup / HasPrefix / Store`,
`NewMantarayManifestReference`) over `/repo/pkg/file/loadsave`.

Transcribed as the code is — including what it does *not* do:

* `Add` clears `n.ref` only (a) at the node where the path ends and (b) at a node it has to load
  itself (`forks == nil`).  A node that was loaded earlier by a read (`LookupNode`, `HasPrefix`,
  `Remove`) keeps its `ref`, so `Save` skips it (`ref != nil ⇒ return`).
* `Remove` deletes the whole matched fork and never clears any `ref`.
* `Add` replaces metadata only when the new metadata is non-empty.
* `Add` of a path that ends at a node which is not loaded yet clears that node's `ref` without
  loading it: its forks become unreachable, a later `Add` below it panics (nil map), and
  `Save` fails (`MarshalBinary: ErrInvalidInput` for `ref == nil ∧ forks == nil`).

Persistence is modelled without a heap: the chunk store is content addressed and immutable, so a
reference denotes a fixed persisted tree; `ref : Option PTree` *is* that tree (`none` = dirty).
The serialisation itself (`MarshalBinary/UnmarshalBinary`, JSON metadata, obfuscation) is trusted;
only what it keeps is modelled: a node's blob holds its entry and, per fork, prefix, the child's
value / with-metadata flags, the child's metadata and the child's reference.  The root's own flags
and metadata are not persisted.  Assumption: all entries have the same non-zero length (the blob
pads / truncates entries to `refBytesSize`), paths given to `add` are non-empty.
-/
namespace Aurora.Mantaray

abbrev Bytes := List UInt8
/-- canonical metadata blob (`[]` = no metadata); the model only tests emptiness and copies -/
abbrev Meta := List UInt8

/-- persisted tree denoted by a reference -/
inductive PTree where
  | mk (entry : Bytes) (forks : List (Bytes × Bool × Bool × Meta × PTree))

/-- in-memory node.  `loaded = false` ⇔ Go's `forks == nil`. -/
inductive Node where
  | mk (value withMeta : Bool) (ref : Option PTree) (entry : Bytes) (md : Meta)
       (loaded : Bool) (forks : List (Bytes × Node))

namespace Node
def value : Node → Bool | .mk v _ _ _ _ _ _ => v
def withMeta : Node → Bool | .mk _ w _ _ _ _ _ => w
def ref : Node → Option PTree | .mk _ _ r _ _ _ _ => r
def entry : Node → Bytes | .mk _ _ _ e _ _ _ => e
def md : Node → Meta | .mk _ _ _ _ m _ _ => m
def loaded : Node → Bool | .mk _ _ _ _ _ l _ => l
def forks : Node → List (Bytes × Node) | .mk _ _ _ _ _ _ f => f
def setForks : Node → List (Bytes × Node) → Node | .mk v w r e m l _, f => .mk v w r e m l f
def setRef : Node → Option PTree → Node | .mk v w _ e m l f, r => .mk v w r e m l f
end Node

/-- `mantaray.New()` -/
def Node.new : Node := .mk false false none [] [] true []
/-- `mantaray.NewNodeRef(ref)` -/
def Node.ofRef (t : PTree) : Node := .mk false false (some t) [] [] false []

def nodePrefixMaxSize : Nat := 30

/-- `common(a, b)` -/
def common : Bytes → Bytes → Bytes
  | a :: as, b :: bs => if a = b then a :: common as bs else []
  | _, _ => []

/-- `n.forks[k]` -/
def findFork (forks : List (Bytes × Node)) (k : UInt8) : Option (Bytes × Node) :=
  forks.find? (fun f => f.1.head? == some k)

/-- `n.forks[k] = f` -/
def setFork : List (Bytes × Node) → UInt8 → Bytes × Node → List (Bytes × Node)
  | [], _, f => [f]
  | g :: rest, k, f => if g.1.head? == some k then f :: rest else g :: setFork rest k f

/-- `delete(n.forks, k)` -/
def delFork (forks : List (Bytes × Node)) (k : UInt8) : List (Bytes × Node) :=
  forks.filter (fun f => !(f.1.head? == some k))

/-- `if n.forks == nil { n.load() }` — `UnmarshalBinary` fills entry and forks from the blob; the
    children are `NewNodeRef`s carrying the flags and metadata stored in the fork record -/
def Node.load : Node → Node
  | .mk v w r e m true f => .mk v w r e m true f
  | .mk v w none e m false f => .mk v w none e m false f
  | .mk v w (some (.mk pe pfs)) _ m false _ =>
    .mk v w (some (.mk pe pfs)) pe m true
      (pfs.map (fun x => (x.1, Node.mk x.2.1 x.2.2.1 (some x.2.2.2.2) [] x.2.2.2.1 false [])))

/-- `LookupNode`: returns the node as it is afterwards (nodes on the way got loaded) and the node
    found -/
def lookupNode : Nat → Node → Bytes → Node × Option Node
  | 0, n, _ => (n, none)
  | fuel + 1, n, path =>
    let n := n.load
    match path with
    | [] => (n, some n)
    | k :: _ =>
      match findFork n.forks k with
      | none => (n, none)
      | some (pfx, child) =>
        let c := common pfx path
        if c.length = pfx.length then
          let r := lookupNode fuel child (path.drop c.length)
          (n.setForks (setFork n.forks k (pfx, r.1)), r.2)
        else (n, none)

/-- the wrapper's `Lookup`: entry and metadata of a value node -/
def lookup (n : Node) (path : Bytes) : Node × Option (Bytes × Meta) :=
  let r := lookupNode (path.length + 1) n path
  (r.1, match r.2 with
        | some x => if x.value then some (x.entry, x.md) else none
        | none => none)

/-- `bytes.HasPrefix(a, p)` -/
def isPrefix : Bytes → Bytes → Bool
  | [], _ => true
  | _ :: _, [] => false
  | a :: as, b :: bs => a == b && isPrefix as bs

/-- `HasPrefix` -/
def hasPrefixN : Nat → Node → Bytes → Node × Bool
  | 0, n, _ => (n, false)
  | fuel + 1, n, path =>
    let n := n.load
    match path with
    | [] => (n, true)
    | k :: _ =>
      match findFork n.forks k with
      | none => (n, false)
      | some (pfx, child) =>
        let c := common pfx path
        if c.length = pfx.length then
          let r := hasPrefixN fuel child (path.drop c.length)
          (n.setForks (setFork n.forks k (pfx, r.1)), r.2)
        else (n, isPrefix path pfx)

def hasPrefix (n : Node) (path : Bytes) : Node × Bool := hasPrefixN (path.length + 1) n path

/-- the `len(path) == 0` branch of `Add` -/
def Node.setEntry : Node → Bytes → Meta → Node
  | .mk _ w _ _ m l f, entry, md =>
    if md.isEmpty then .mk true w none entry m l f else .mk true true none entry md l f

/-- `Add`; `none` = Go panics (`assignment to entry in nil map`: the node has neither forks nor a
    reference to load them from — an unloaded node whose `ref` an earlier `Add` cleared) -/
def add : Nat → Node → Bytes → Bytes → Meta → Option Node
  | 0, n, _, _, _ => some n
  | fuel + 1, n, path, entry, md =>
    match path with
    | [] => some (n.setEntry entry md)
    | k :: _ =>
      -- `if n.forks == nil { load; n.ref = nil }`
      let n := if n.loaded then n else n.load.setRef none
      match findFork n.forks k with
      | none =>
        if !n.loaded then none else
        if path.length > nodePrefixMaxSize then
          match add fuel Node.new (path.drop nodePrefixMaxSize) entry md with
          | none => none
          | some nn => some (n.setForks (setFork n.forks k (path.take nodePrefixMaxSize, nn)))
        else
          some (n.setForks (setFork n.forks k (path, Node.new.setEntry entry md)))
      | some (pfx, child) =>
        let c := common pfx path
        let rest := pfx.drop c.length
        let nn := if rest.isEmpty then child
                  else Node.mk (path.length == c.length) false none [] [] true [(rest, child)]
        match add fuel nn (path.drop c.length) entry md with
        | none => none
        | some nn => some (n.setForks (setFork n.forks k (c, nn)))

inductive RemoveRes | ok | notFound | emptyPath
deriving Repr, DecidableEq

/-- `Remove` -/
def remove : Nat → Node → Bytes → Node × RemoveRes
  | 0, n, _ => (n, .notFound)
  | fuel + 1, n, path =>
    match path with
    | [] => (n, .emptyPath)
    | k :: _ =>
      let n := n.load
      match findFork n.forks k with
      | none => (n, .notFound)
      | some (pfx, child) =>
        if !isPrefix pfx path then (n, .notFound) else
        let rest := path.drop pfx.length
        if rest.isEmpty then (n.setForks (delFork n.forks k), .ok)
        else
          let r := remove fuel child rest
          (n.setForks (setFork n.forks k (pfx, r.1)), r.2)

mutual
/-- `save`: `none` = `MarshalBinary` failed with `ErrInvalidInput` (dirty node whose forks were
    never loaded) -/
def save : Node → Option Node
  | .mk v w (some r) e m l f => some (.mk v w (some r) e m l f)
  | .mk v w none e m l f =>
    match saveForks f with
    | none => none
    | some fs =>
      if !l then none else
      match blobForks fs with
      | none => none
      | some pfs => some (.mk v w (some (.mk e pfs)) e m false [])
def saveForks : List (Bytes × Node) → Option (List (Bytes × Node))
  | [] => some []
  | (p, c) :: rest =>
    match save c, saveForks rest with
    | some c', some rest' => some ((p, c') :: rest')
    | _, _ => none
/-- the fork records of `MarshalBinary` -/
def blobForks : List (Bytes × Node) → Option (List (Bytes × Bool × Bool × Meta × PTree))
  | [] => some []
  | (p, c) :: rest =>
    match c.ref, blobForks rest with
    | some r, some rest' => some ((p, c.value, c.withMeta, (if c.withMeta then c.md else []), r) :: rest')
    | _, _ => none
end

/-! ## The wrapper as a state machine -/

structure State where
  root : Node
  last : Option PTree      -- address returned by the last successful `Store`
  dead : Bool := false     -- the manifest object was dropped after a failed `Store` or a panic

def State.new : State := { root := Node.new, last := none }

inductive Op where
  | add (path entry : Bytes) (md : Meta)
  | remove (path : Bytes)
  | store
  | reload
  | lookup (path : Bytes)
  | hasPrefix (path : Bytes)

inductive Out where
  | ok | notFound | err | noStore | broken | panic
  | found (entry : Bytes) (md : Meta)
  | bool (b : Bool)
deriving DecidableEq

/-- one wrapper operation on a live manifest object -/
def stepLive (s : State) : Op → State × Out
  | .add p e m =>
    match add (p.length + 1) s.root p e m with
    | some n => ({ s with root := n }, .ok)
    | none => ({ s with dead := true }, .panic)
  | .remove p =>
    let r := remove (p.length + 1) s.root p
    ({ s with root := r.1 }, match r.2 with | .ok => .ok | .notFound => .notFound | .emptyPath => .err)
  | .store =>
    match save s.root with
    | some n => ({ s with root := n, last := n.ref }, .ok)
    | none => ({ s with dead := true }, .err)
  | .reload =>
    match s.last with
    | some t => ({ s with root := Node.ofRef t, dead := false }, .ok)
    | none => (s, .noStore)
  | .lookup p =>
    let r := lookup s.root p
    ({ s with root := r.1 }, match r.2 with | some (e, m) => .found e m | none => .notFound)
  | .hasPrefix p =>
    let r := hasPrefix s.root p
    ({ s with root := r.1 }, .bool r.2)

/-- one wrapper operation; after a failed `Store` only `reload` (a new object from the last stored
    address) brings the manifest back -/
def step (s : State) (op : Op) : State × Out :=
  if s.dead then
    match op with
    | .reload => stepLive s op
    | _ => (s, .broken)
  else stepLive s op

def run (s : State) : List Op → State × List Out
  | [] => (s, [])
  | op :: rest =>
    let r := step s op
    let r' := run r.1 rest
    (r'.1, r.2 :: r'.2)

end Aurora.Mantaray
