import Aurora.Lemmas.BmtConcStep
/-! Preservation of `Inv`: one lemma per step case. -/
namespace Aurora.BmtConc
open Aurora.Bmt

theorem arr_same_of_fl {cfg : Cfg} {s s' : St} {ph : Nat → Nat → Ph}
    (h : fl cfg (s'.pc cfg.pos) = fl cfg (s.pc cfg.pos)) (c k : Nat) :
    arr cfg s' ph c k = arr cfg s ph c k := by
  unfold arr; rw [h]

theorem inv_init {cfg : Cfg} {s : St} {ph : Nat → Nat → Ph} {t : Nat} (hv : cfg.vals ≠ [])
    (inv : Inv cfg s ph) (ht : t ≤ cfg.pos) (hpc : s.pc t = .init) :
    Inv cfg (setPc s t (.top 0 t (some (cfg.vals.getD t [])))) ph := by
  have hT := inv.thr t ht
  rw [hpc] at hT
  have hfl : fl cfg ((setPc s t (.top 0 t (some (cfg.vals.getD t [])))).pc cfg.pos) = fl cfg (s.pc cfg.pos) := by
    simp only [setPc]
    by_cases e : cfg.pos = t
    · subst e; rw [upd_same, hpc]; rfl
    · rw [upd_ne _ _ _ _ e]
  apply inv_build inv t _ cfg.d 0 rfl
  · intros; rfl
  · intros; rfl
  · intros; rfl
  · intro c k _ _ _; exact arr_same_of_fl hfl c k
  · intros; exact Iff.rfl
  · intro h; omega
  · right; rfl
  · intro _; exact ⟨Nat.zero_le _, ht, hT, (val_zero cfg t ht hv).symm, fun e => e⟩
  · intro t' _ c k h; exact h
  · intros; rfl
  · intros; rfl
  · intro c k t' h
    by_cases e : t' = t
    · right; subst e
      have := (inv.own c k t' h).2
      rw [hpc] at this
      exact ⟨rfl, ht, this⟩
    · left; exact ⟨e, h⟩
  · exact inv.leaf
  · exact inv.res

theorem inv_hash {cfg : Cfg} {s : St} {ph : Nat → Nat → Ph} {t c j : Nat} (hv : cfg.vals ≠ [])
    (inv : Inv cfg s ph) (ht : t ≤ cfg.pos) (hpc : s.pc t = .hash c j) :
    Inv cfg (setPc s t (.top c j (some (cfg.H ((s.left c j).getD [] ++ (s.right c j).getD []))))) ph := by
  have hT := inv.thr t ht
  rw [hpc] at hT
  obtain ⟨h1, h2, h3, h4, h5⟩ := hT
  obtain ⟨c, rfl⟩ : ∃ c', c = c' + 1 := ⟨c - 1, by omega⟩
  have hN := inv.node c j (by omega) h3
  obtain ⟨_, nl, nr, np⟩ := hN
  rw [h4] at np
  have hb : arr cfg s ph c (2 * j) = true ∧ arr cfg s ph c (2 * j + 1) = true := by
    apply Classical.byContradiction
    intro hc
    exact Ph.noConfusion (np.mpr hc)
  have hval : cfg.H ((s.left (c + 1) j).getD [] ++ (s.right (c + 1) j).getD []) = val cfg (c + 1) j := by
    rw [nl hb.1, nr hb.2, val_succ cfg hv c j h3]; rfl
  have hfl : fl cfg ((setPc s t (.top (c + 1) j (some (cfg.H ((s.left (c + 1) j).getD [] ++ (s.right (c + 1) j).getD []))))).pc cfg.pos)
      = fl cfg (s.pc cfg.pos) := by
    simp only [setPc]
    by_cases e : cfg.pos = t
    · subst e; rw [upd_same, hpc]; rfl
    · rw [upd_ne _ _ _ _ e]
  apply inv_build inv t _ cfg.d 0 rfl
  · intros; rfl
  · intros; rfl
  · intros; rfl
  · intro c k _ _ _; exact arr_same_of_fl hfl c k
  · intros; exact Iff.rfl
  · intro h; omega
  · right; rfl
  · intro _; exact ⟨h2, h3, h4, hval, h5⟩
  · intro t' _ c k h; exact h
  · intros; rfl
  · intros; rfl
  · intro c' k t' h
    by_cases e : t' = t
    · right; subst e
      have := (inv.own c' k t' h).2
      rw [hpc] at this
      exact ⟨rfl, ht, this⟩
    · left; exact ⟨e, h⟩
  · exact inv.leaf
  · exact inv.res

theorem inv_finNil {cfg : Cfg} {s : St} {ph : Nat → Nat → Ph} {t c k : Nat}
    (inv : Inv cfg s ph) (ht : t ≤ cfg.pos) (hpc : s.pc t = .top c k none) (hc : cfg.d ≤ c) :
    Inv cfg (setPc s t .done) ph := by
  have hT := inv.thr t ht
  rw [hpc] at hT
  obtain ⟨h1, h2, h3⟩ := hT
  subst h1
  apply inv_build inv cfg.pos _ cfg.d 0 rfl
  · intros; rfl
  · intros; rfl
  · intros; rfl
  · intro c' k' hc' _ _
    apply arr_frame
    · intro _; exact Iff.rfl
    · intro _
      simp only [setPc, upd_same, hpc, fl]
      constructor <;> intro <;> omega
  · intros; exact Iff.rfl
  · intro h; omega
  · right; rfl
  · intro _; trivial
  · intro t' _ c k h; exact h
  · intros; rfl
  · intros; rfl
  · intro c' k' t' h
    by_cases e : t' = cfg.pos
    · exfalso; subst e
      have := (inv.own c' k' _ h).2
      rw [hpc] at this
      exact this
    · left; exact ⟨e, h⟩
  · exact inv.leaf
  · exact inv.res

theorem inv_fnil {cfg : Cfg} {s : St} {ph : Nat → Nat → Ph} {t c k : Nat}
    (inv : Inv cfg s ph) (ht : t ≤ cfg.pos) (hpc : s.pc t = .top c k none) (hc : c < cfg.d) (hk : k % 2 ≠ 0) :
    Inv cfg (setPc s t (.top (c + 1) (k / 2) none)) ph := by
  have hT := inv.thr t ht
  rw [hpc] at hT
  obtain ⟨h1, h2, h3⟩ := hT
  subst h1
  apply inv_build inv cfg.pos _ cfg.d 0 rfl
  · intros; rfl
  · intros; rfl
  · intros; rfl
  · intro c' k' hc' _ hk'
    apply arr_frame
    · intro _; exact Iff.rfl
    · intro hlt
      simp only [setPc, upd_same, hpc, fl]
      have hp : path cfg.pos (c' + 1) = path cfg.pos c' / 2 := rfl
      by_cases e : c' = c
      · subst e; exfalso; omega
      · constructor <;> intro <;> omega
  · intros; exact Iff.rfl
  · intro h; omega
  · right; rfl
  · intro _
    refine ⟨rfl, by omega, ?_⟩
    rw [h3]; rfl
  · intro t' _ c k h; exact h
  · intros; rfl
  · intros; rfl
  · intro c' k' t' h
    by_cases e : t' = cfg.pos
    · exfalso; subst e
      have := (inv.own c' k' _ h).2
      rw [hpc] at this
      exact this
    · left; exact ⟨e, h⟩
  · exact inv.leaf
  · exact inv.res

theorem inv_send {cfg : Cfg} {s : St} {ph : Nat → Nat → Ph} {t c k : Nat} {sv : Option Bytes} {v : Bytes}
    (hpos : cfg.pos < 2 ^ cfg.d)
    (inv : Inv cfg s ph) (ht : t ≤ cfg.pos) (hpc : s.pc t = .top c k sv) (hc : cfg.d ≤ c)
    (hvv : (t < cfg.pos ∧ v = sv.getD []) ∨ (¬ t < cfg.pos ∧ sv = some v)) :
    Inv cfg { setPc s t .done with result := [v] } (upd2 ph cfg.d 0 .arrived) := by
  have hT := inv.thr t ht
  rw [hpc] at hT
  cases sv with
  | none =>
    exfalso
    obtain ⟨h1, _, _⟩ := hT
    rcases hvv with ⟨h, _⟩ | ⟨_, h⟩
    · omega
    · cases h
  | some v' =>
    obtain ⟨h1, h2, h3, h4, h5⟩ := hT
    have hvv' : v = v' := by
      rcases hvv with ⟨_, h⟩ | ⟨_, h⟩
      · exact h
      · cases h; rfl
    subst hvv'
    have hcd : c = cfg.d := by omega
    subst hcd
    have hk0 : k = 0 := by have := path_d cfg.pos cfg.d hpos; omega
    subst hk0
    apply inv_build inv t .done cfg.d 0 rfl
    · intros; rfl
    · intros; rfl
    · intros; rfl
    · intro c' k' hc' _ _
      apply arr_frame
      · intro _; rw [upd2_ne _ _ _ _ _ _ (by omega)]
      · intro _
        show c' < fl cfg (upd s.pc t .done cfg.pos) ↔ _
        by_cases e : cfg.pos = t
        · subst e; rw [upd_same, hpc]; simp only [fl]
          constructor <;> intro <;> omega
        · rw [upd_ne _ _ _ _ e]
    · intro c' j' _
      by_cases e : c' = cfg.d ∧ j' = 0
      · obtain ⟨rfl, rfl⟩ := e; rw [upd2_same, h3]; simp
      · rw [upd2_ne _ _ _ _ _ _ e]
    · intro h; omega
    · right; rfl
    · intro _; trivial
    · intro t' e c' k' h
      have : ¬(c' = cfg.d ∧ k' = 0) := by
        rintro ⟨rfl, rfl⟩; rw [h3] at h; cases h; exact e rfl
      rw [upd2_ne _ _ _ _ _ _ this]; exact h
    · intros; rfl
    · intros; rfl
    · intro c' k' t' h
      by_cases e : c' = cfg.d ∧ k' = 0
      · obtain ⟨rfl, rfl⟩ := e; rw [upd2_same] at h; cases h
      · rw [upd2_ne _ _ _ _ _ _ e] at h
        by_cases e' : t' = t
        · exfalso; subst e'
          have := (inv.own c' k' _ h).2
          rw [hpc] at this
          exact e this
        · left; exact ⟨e', h⟩
    · intro i hi
      by_cases e : 0 = cfg.d ∧ i = 0
      · obtain ⟨e1, rfl⟩ := e; rw [← e1, upd2_same]; simp
      · rw [upd2_ne _ _ _ _ _ _ e]; exact inv.leaf i hi
    · show [v] = _
      rw [upd2_same, if_pos rfl, h4]

theorem arr_held {cfg : Cfg} {s : St} {ph : Nat → Nat → Ph} {c k t : Nat}
    (hk : k ≤ path cfg.pos c) (h : ph c k = .held t) : arr cfg s ph c k = false := by
  unfold arr; rw [if_pos hk, h]; simp

theorem inv_writeL {cfg : Cfg} {s : St} {ph : Nat → Nat → Ph} {t c k : Nat} {v : Bytes}
    (inv : Inv cfg s ph) (ht : t ≤ cfg.pos) (hpc : s.pc t = .top c k (some v)) (hc : c < cfg.d)
    (htp : t < cfg.pos) (hk : k % 2 = 0) :
    Inv cfg (setPc { s with left := upd2 s.left (c + 1) (k / 2) (some v) } t (.wrote c k)) ph := by
  have hT := inv.thr t ht
  rw [hpc] at hT
  obtain ⟨h1, h2, h3, h4, h5⟩ := hT
  have hfl : fl cfg ((setPc { s with left := upd2 s.left (c + 1) (k / 2) (some v) } t (.wrote c k)).pc cfg.pos)
      = fl cfg (s.pc cfg.pos) := by
    simp only [setPc]; rw [upd_ne _ _ _ _ (by omega)]
  apply inv_build inv t _ c (k / 2) rfl
  · intros; rfl
  · intro c' j' h; exact upd2_ne _ _ _ _ _ _ h
  · intros; rfl
  · intro c k _ _ _; exact arr_same_of_fl hfl c k
  · intros; exact Iff.rfl
  · intro _ hj
    have hN := inv.node c (k / 2) hc hj
    unfold NodeAt NodeOK at hN ⊢
    rw [arr_same_of_fl hfl, arr_same_of_fl hfl]
    obtain ⟨n1, n2, n3, n4⟩ := hN
    refine ⟨n1, ?_, n3, n4⟩
    intro ha
    rw [show 2 * (k / 2) = k by omega, arr_held h2 h3] at ha
    cases ha
  · right; rfl
  · intro _
    refine ⟨hc, h2, h3, ?_, fun e => by omega⟩
    rw [if_pos hk]
    show upd2 s.left (c + 1) (k / 2) (some v) (c + 1) (k / 2) = _
    rw [upd2_same, h4]
  · intro t' _ c k h; exact h
  · intro t' ht' e c' k' hw hk'
    show upd2 s.left (c + 1) (k / 2) (some v) (c' + 1) (k' / 2) = _
    apply upd2_ne
    rintro ⟨e1, e2⟩
    have hT' := inv.thr t' ht'
    rw [hw] at hT'
    have : c' = c := by omega
    subst this
    have : k' = k := by omega
    subst this
    have := hT'.2.2.1
    rw [h3] at this
    cases this
    exact e rfl
  · intros; rfl
  · intro c' k' t' h
    by_cases e : t' = t
    · right; subst e
      have := (inv.own c' k' t' h).2
      rw [hpc] at this
      exact ⟨rfl, ht, this⟩
    · left; exact ⟨e, h⟩
  · exact inv.leaf
  · exact inv.res

theorem inv_writeR {cfg : Cfg} {s : St} {ph : Nat → Nat → Ph} {t c k : Nat} {v : Bytes}
    (inv : Inv cfg s ph) (ht : t ≤ cfg.pos) (hpc : s.pc t = .top c k (some v)) (hc : c < cfg.d)
    (hk : k % 2 ≠ 0) :
    Inv cfg (setPc { s with right := upd2 s.right (c + 1) (k / 2) (some v) } t (.wrote c k)) ph := by
  have hT := inv.thr t ht
  rw [hpc] at hT
  obtain ⟨h1, h2, h3, h4, h5⟩ := hT
  have hfl : fl cfg ((setPc { s with right := upd2 s.right (c + 1) (k / 2) (some v) } t (.wrote c k)).pc cfg.pos)
      = fl cfg (s.pc cfg.pos) := by
    simp only [setPc]
    by_cases e : cfg.pos = t
    · subst e; rw [upd_same, hpc]; rfl
    · rw [upd_ne _ _ _ _ e]
  apply inv_build inv t _ c (k / 2) rfl
  · intros; rfl
  · intros; rfl
  · intro c' j' h; exact upd2_ne _ _ _ _ _ _ h
  · intro c k _ _ _; exact arr_same_of_fl hfl c k
  · intros; exact Iff.rfl
  · intro _ hj
    have hN := inv.node c (k / 2) hc hj
    unfold NodeAt NodeOK at hN ⊢
    rw [arr_same_of_fl hfl, arr_same_of_fl hfl]
    obtain ⟨n1, n2, n3, n4⟩ := hN
    refine ⟨n1, n2, ?_, n4⟩
    intro ha
    rw [show 2 * (k / 2) + 1 = k by omega, arr_held h2 h3] at ha
    cases ha
  · right; rfl
  · intro _
    refine ⟨hc, h2, h3, ?_, fun e => ⟨h5 e, by omega⟩⟩
    rw [if_neg hk]
    show upd2 s.right (c + 1) (k / 2) (some v) (c + 1) (k / 2) = _
    rw [upd2_same, h4]
  · intro t' _ c k h; exact h
  · intros; rfl
  · intro t' ht' e c' k' hw
    show upd2 s.right (c + 1) (k / 2) (some v) (c' + 1) (k' / 2) = _
    apply upd2_ne
    rintro ⟨e1, e2⟩
    have hT' := inv.thr t' ht'
    have : c' = c := by omega
    subst this
    rcases hw with ⟨hw, hk'⟩ | ⟨sv, hw⟩
    · rw [hw] at hT'
      have : k' = k := by omega
      subst this
      have := hT'.2.2.1
      rw [h3] at this
      cases this
      exact e rfl
    · rw [hw] at hT'
      obtain ⟨_, _, q1, q2, _⟩ := hT'
      omega
  · intro c' k' t' h
    by_cases e : t' = t
    · right; subst e
      have := (inv.own c' k' t' h).2
      rw [hpc] at this
      exact ⟨rfl, ht, this⟩
    · left; exact ⟨e, h⟩
  · exact inv.leaf
  · exact inv.res

theorem inv_fzr {cfg : Cfg} {s : St} {ph : Nat → Nat → Ph} {t c k : Nat} {sv : Option Bytes}
    (inv : Inv cfg s ph) (ht : t ≤ cfg.pos) (hpc : s.pc t = .top c k sv) (hc : c < cfg.d)
    (htp : ¬ t < cfg.pos) (hk : k % 2 = 0) :
    Inv cfg (setPc { s with right := upd2 s.right (c + 1) (k / 2) (some (zerohash cfg.H cfg.seg (c + 1))) } t (.zr c k sv)) ph := by
  have hT := inv.thr t ht
  rw [hpc] at hT
  have htpos : t = cfg.pos := by omega
  subst htpos
  have hkp : k = path cfg.pos c := by
    cases sv with
    | none => exact hT.2.2
    | some v => exact hT.2.2.2.2 rfl
  have hsv : ∀ v, sv = some v → ph c k = .held cfg.pos ∧ v = val cfg c k := by
    intro v e; subst e; exact ⟨hT.2.2.1, hT.2.2.2.1⟩
  have hfl : fl cfg ((setPc { s with right := upd2 s.right (c + 1) (k / 2) (some (zerohash cfg.H cfg.seg (c + 1))) } cfg.pos (.zr c k sv)).pc cfg.pos)
      = fl cfg (s.pc cfg.pos) := by
    simp only [setPc]; rw [upd_same, hpc]; rfl
  apply inv_build inv cfg.pos _ c (k / 2) rfl
  · intros; rfl
  · intros; rfl
  · intro c' j' h; exact upd2_ne _ _ _ _ _ _ h
  · intro c k _ _ _; exact arr_same_of_fl hfl c k
  · intros; exact Iff.rfl
  · intro _ hj
    have hN := inv.node c (k / 2) hc hj
    unfold NodeAt NodeOK at hN ⊢
    rw [arr_same_of_fl hfl, arr_same_of_fl hfl]
    obtain ⟨n1, n2, n3, n4⟩ := hN
    refine ⟨n1, n2, ?_, n4⟩
    intro ha
    exfalso
    unfold arr at ha
    rw [if_neg (by omega), hpc] at ha
    simp [fl] at ha
  · right; rfl
  · intro _
    refine ⟨rfl, hc, hkp, hk, ?_, hsv⟩
    show upd2 s.right (c + 1) (k / 2) _ (c + 1) (k / 2) = _
    rw [upd2_same]
  · intro t' _ c k h; exact h
  · intros; rfl
  · intro t' ht' e c' k' hw
    show upd2 s.right (c + 1) (k / 2) _ (c' + 1) (k' / 2) = _
    apply upd2_ne
    rintro ⟨e1, e2⟩
    have hT' := inv.thr t' ht'
    have : c' = c := by omega
    subst this
    rcases hw with ⟨hw, hk'⟩ | ⟨sv', hw⟩
    · rw [hw] at hT'
      have := hT'.2.1
      omega
    · rw [hw] at hT'
      exact e hT'.1
  · intro c' k' t' h
    by_cases e : t' = cfg.pos
    · right; subst e
      have := (inv.own c' k' _ h).2
      rw [hpc] at this
      refine ⟨rfl, ht, ?_⟩
      cases sv with
      | none => exact this.elim
      | some v => exact this
    · left; exact ⟨e, h⟩
  · exact inv.leaf
  · exact inv.res

theorem inv_zrSome {cfg : Cfg} {s : St} {ph : Nat → Nat → Ph} {t c k : Nat} {v : Bytes} (hv : cfg.vals ≠ [])
    (inv : Inv cfg s ph) (ht : t ≤ cfg.pos) (hpc : s.pc t = .zr c k (some v)) :
    Inv cfg (setPc { s with left := upd2 s.left (c + 1) (k / 2) (some v) } t (.hash (c + 1) (k / 2)))
      (upd2 (upd2 ph c k .arrived) (c + 1) (k / 2) (.held t)) ∧
    Mono ph (upd2 (upd2 ph c k .arrived) (c + 1) (k / 2) (.held t)) := by
  have hT := inv.thr t ht
  rw [hpc] at hT
  obtain ⟨h1, hc, hkp, hk, hzr, hh⟩ := hT
  obtain ⟨hheld, hval⟩ := hh v rfl
  subst h1
  have hp : path cfg.pos (c + 1) = path cfg.pos c / 2 := rfl
  have hj : k / 2 ≤ path cfg.pos (c + 1) := by omega
  have hN := inv.node c (k / 2) hc hj
  unfold NodeAt NodeOK at hN
  have ek : 2 * (k / 2) = k := by omega
  have aL0 : arr cfg s ph c k = false := arr_held (by omega) hheld
  have aR0 : arr cfg s ph c (k + 1) = false := by
    unfold arr; rw [if_neg (by omega), hpc]; simp [fl]
  rw [ek, aL0, aR0] at hN
  obtain ⟨n1, _, _, n4⟩ := hN
  have hpend : ph (c + 1) (k / 2) = .pending := n4.mpr (by simp)
  refine ⟨?_, mono_trans (mono_arrive ph c k) (mono_hold _ _ _ _ (by rw [upd2_ne _ _ _ _ _ _ (by omega)]; exact hpend))⟩
  apply inv_build inv cfg.pos _ c (k / 2) rfl
  · intros; rfl
  · intro c' j' h; exact upd2_ne _ _ _ _ _ _ h
  · intros; rfl
  · intro c' k' hc' hne hk'
    apply arr_frame
    · intro _
      by_cases e : c' = c + 1 ∧ k' = k / 2
      · obtain ⟨rfl, rfl⟩ := e; rw [upd2_same, hpend]; simp
      · rw [upd2_ne _ _ _ _ _ _ e, upd2_ne _ _ _ _ _ _ (by omega)]
    · intro hlt
      simp only [setPc, upd_same, hpc, fl]
      have hp' : path cfg.pos (c' + 1) = path cfg.pos c' / 2 := rfl
      by_cases e : c' = c
      · subst e; exfalso; omega
      · constructor <;> intro <;> omega
  · intro c' j' hne
    rw [upd2_ne _ _ _ _ _ _ hne]
    by_cases e : c' = c ∧ j' = k
    · obtain ⟨rfl, rfl⟩ := e; rw [upd2_same, hheld]; simp
    · rw [upd2_ne _ _ _ _ _ _ e]
  · intro _ _
    unfold NodeAt NodeOK
    have aL1 : arr cfg (setPc { s with left := upd2 s.left (c + 1) (k / 2) (some v) } cfg.pos (.hash (c + 1) (k / 2)))
        (upd2 (upd2 ph c k .arrived) (c + 1) (k / 2) (.held cfg.pos)) c k = true := by
      unfold arr; rw [if_pos (by omega), upd2_ne _ _ _ _ _ _ (by omega), upd2_same]; simp
    have aR1 : arr cfg (setPc { s with left := upd2 s.left (c + 1) (k / 2) (some v) } cfg.pos (.hash (c + 1) (k / 2)))
        (upd2 (upd2 ph c k .arrived) (c + 1) (k / 2) (.held cfg.pos)) c (k + 1) = true := by
      unfold arr; rw [if_neg (by omega)]; simp [setPc, fl]
    rw [ek, aL1, aR1]
    refine ⟨?_, ?_, ?_, ?_⟩
    · show s.state (c + 1) (k / 2) % 2 = _
      rw [n1]; rfl
    · intro _
      show upd2 s.left (c + 1) (k / 2) (some v) (c + 1) (k / 2) = _
      rw [upd2_same, hval]
    · intro _
      show s.right (c + 1) (k / 2) = _
      rw [hzr, val_out cfg hv c (k + 1) (by omega)]
    · rw [upd2_same]; simp
  · right; rfl
  · intro _
    refine ⟨by omega, by omega, hj, ?_, fun _ => by omega⟩
    rw [upd2_same]
  · intro t' e c' k' h
    have n1 : ¬(c' = c + 1 ∧ k' = k / 2) := by
      rintro ⟨rfl, rfl⟩; rw [hpend] at h; cases h
    have n2 : ¬(c' = c ∧ k' = k) := by
      rintro ⟨rfl, rfl⟩; rw [hheld] at h; cases h; exact e rfl
    rw [upd2_ne _ _ _ _ _ _ n1, upd2_ne _ _ _ _ _ _ n2]; exact h
  · intro t' ht' e c' k' hw hk'
    show upd2 s.left (c + 1) (k / 2) (some v) (c' + 1) (k' / 2) = _
    apply upd2_ne
    rintro ⟨e1, e2⟩
    have hT' := inv.thr t' ht'
    rw [hw] at hT'
    have : c' = c := by omega
    subst this
    have : k' = k := by omega
    subst this
    have := hT'.2.2.1
    rw [hheld] at this
    cases this
    exact e rfl
  · intros; rfl
  · intro c' k' t' h
    by_cases e1 : c' = c + 1 ∧ k' = k / 2
    · obtain ⟨rfl, rfl⟩ := e1
      rw [upd2_same] at h
      cases h
      right; exact ⟨rfl, ht, rfl, rfl⟩
    · rw [upd2_ne _ _ _ _ _ _ e1] at h
      by_cases e2 : c' = c ∧ k' = k
      · obtain ⟨rfl, rfl⟩ := e2; rw [upd2_same] at h; cases h
      · rw [upd2_ne _ _ _ _ _ _ e2] at h
        by_cases e : t' = cfg.pos
        · exfalso; subst e
          have := (inv.own c' k' _ h).2
          rw [hpc] at this
          exact e2 this
        · left; exact ⟨e, h⟩
  · intro i hi
    rw [upd2_ne _ _ _ _ _ _ (by omega)]
    by_cases e : 0 = c ∧ i = k
    · obtain ⟨rfl, rfl⟩ := e; rw [upd2_same]; simp
    · rw [upd2_ne _ _ _ _ _ _ e]; exact inv.leaf i hi
  · show s.result = _
    rw [inv.res]
    by_cases e : cfg.d = c + 1 ∧ 0 = k / 2
    · obtain ⟨e1, e2⟩ := e
      rw [e1, e2, upd2_same, hpend]; simp
    · rw [upd2_ne _ _ _ _ _ _ e, upd2_ne _ _ _ _ _ _ (by omega)]

end Aurora.BmtConc
