package c37

import (
	"bytes"
	"context"
	"encoding/binary"
	"fmt"
	"os"
	"os/exec"
	"sort"
	"strconv"
	"strings"
	"sync"
	"time"

	"github.com/gauss-project/aurorafs/pkg/boson"
	"github.com/gauss-project/aurorafs/pkg/cac"
	"github.com/gauss-project/aurorafs/pkg/chunkinfo"
	cipb "github.com/gauss-project/aurorafs/pkg/chunkinfo/pb"
	"github.com/gauss-project/aurorafs/pkg/p2p"
	rtmock "github.com/gauss-project/aurorafs/pkg/routetab/mock"
	mockstate "github.com/gauss-project/aurorafs/pkg/statestore/mock"
	"github.com/gauss-project/aurorafs/pkg/storage"
	storemock "github.com/gauss-project/aurorafs/pkg/storage/mock"
	"github.com/gauss-project/aurorafs/pkg/subscribe"
	"github.com/gauss-project/aurorafs/pkg/traversal"

	"verifharness/core"
)

// ---- chunkinfo: handlerChunkInfoReq / handlerChunkInfoResp / handlerPyramid (+ the pyramid client read it forwards to)

// travFake scripts the node's own files (pyramid == nil lookups) and delegates the validation of a
// peer-supplied pyramid to the REAL traversal service.
type travFake struct {
	mu    sync.Mutex
	files map[string][][]byte // root -> data chunk hashes
	real  traversal.Traverser
}

func (t *travFake) Traverse(context.Context, boson.Address, boson.AddressIterFunc) error { return nil }
func (t *travFake) GetPyramid(_ context.Context, a boson.Address) (map[string][]byte, error) {
	t.mu.Lock()
	defer t.mu.Unlock()
	if _, ok := t.files[a.String()]; !ok {
		return nil, storage.ErrNotFound
	}
	return map[string][]byte{a.String(): []byte("root-chunk")}, nil
}
func (t *travFake) GetChunkHashes(ctx context.Context, a boson.Address, pyramid map[string][]byte) ([][][]byte, [][]byte, error) {
	if pyramid != nil {
		h, p, err := t.real.GetChunkHashes(ctx, a, pyramid)
		if err == nil {
			var flat [][]byte
			for _, f := range h {
				flat = append(flat, f...)
			}
			t.mu.Lock()
			t.files[a.String()] = flat
			t.mu.Unlock()
		}
		return h, p, err
	}
	t.mu.Lock()
	defer t.mu.Unlock()
	cids, ok := t.files[a.String()]
	if !ok {
		return nil, nil, storage.ErrNotFound
	}
	return [][][]byte{cids}, nil, nil
}

func ciCid(root boson.Address, i int) []byte {
	b := make([]byte, 32)
	copy(b, root.Bytes())
	b[0] = 0xc1
	binary.BigEndian.PutUint16(b[30:], uint16(i))
	return b
}

type ciEnv struct {
	ci     *chunkinfo.ChunkInfo
	st     *fakeStreamer
	trav   *travFake
	state  storage.StateStorer
	self   boson.Address
	known  map[string]int
	ctx    context.Context
	cancel context.CancelFunc
	// ops executed on this service so far (replayed into the mirror process when it takes this case over: see
	// cimirror.go)
	hist []string
}

func newCiEnv() *ciEnv {
	self := overlayOf("ci-self")
	st := &fakeStreamer{}
	state := mockstate.NewStateStore()
	store := storemock.NewStorer()
	tf := &travFake{files: map[string][][]byte{}, real: traversal.New(store)}
	rt := rtmock.NewMockRouteTable()
	ci := chunkinfo.New(self, st, noLog, tf, state, store, &rt, nil, nil, subscribe.NewSubPub())
	c, cancel := context.WithCancel(context.Background())
	return &ciEnv{ci: ci, st: st, trav: tf, state: state, self: self, known: map[string]int{}, ctx: c, cancel: cancel}
}

// plainFilePyramid is the pyramid of a plain (non-manifest) file of n data chunks: one intermediate
// chunk (n > 1) or the single data chunk itself; returns the root address and the ChunkPyramidResp frames.
func plainFilePyramid(seed uint64, n int) (boson.Address, []*cipb.ChunkPyramidResp) {
	var payload []byte
	span := make([]byte, 8)
	if n <= 1 {
		payload = core.GenBytes(seed, 100, 0)
		binary.LittleEndian.PutUint64(span, uint64(len(payload)))
	} else {
		for i := 0; i < n; i++ {
			payload = append(payload, core.GenBytes(seed+uint64(i)+1, 32, 0)...)
		}
		binary.LittleEndian.PutUint64(span, uint64(n*boson.ChunkSize))
	}
	ch, err := cac.NewWithDataSpan(append(span, payload...))
	if err != nil {
		panic(err)
	}
	return ch.Address(), []*cipb.ChunkPyramidResp{{Hash: ch.Address().Bytes(), Chunk: ch.Data()}, {Ok: true}}
}

// nestedRaggedPyramid: five BMT-valid chunks whose spans and payloads disagree (sizes written for 4 KiB
// chunks while boson.ChunkSize is larger): root(span 128*4096+4106) -> [A (span 128*4096, 128 refs to D),
// B (span 4106, refs to D and E plus 8 zero bytes)].  The joiner descends into A in an errgroup goroutine
// and slices a leaf out of range there: the process dies.
func nestedRaggedPyramid() (boson.Address, []*cipb.ChunkPyramidResp) {
	mk := func(span uint64, payload []byte) boson.Chunk {
		sp := make([]byte, 8)
		binary.LittleEndian.PutUint64(sp, span)
		ch, err := cac.NewWithDataSpan(append(sp, payload...))
		if err != nil {
			panic(err)
		}
		return ch
	}
	d := mk(4096, make([]byte, 4096))
	small := make([]byte, 10)
	small[0] = 9
	e := mk(10, small)
	var full []byte
	for i := 0; i < 128; i++ {
		full = append(full, d.Address().Bytes()...)
	}
	a := mk(128*4096, full)
	b := mk(4106, append(append(append([]byte(nil), d.Address().Bytes()...), e.Address().Bytes()...), make([]byte, 8)...))
	root := mk(128*4096+4106, append(append([]byte(nil), a.Address().Bytes()...), b.Address().Bytes()...))
	var fs []*cipb.ChunkPyramidResp
	for _, c := range []boson.Chunk{root, a, b, d, e} {
		fs = append(fs, &cipb.ChunkPyramidResp{Hash: c.Address().Bytes(), Chunk: c.Data()})
	}
	return root.Address(), append(fs, &cipb.ChunkPyramidResp{Ok: true})
}

// A pyramid with an intermediate chunk below the root makes the joiner work in errgroup goroutines, where a
// panic cannot be recovered: such replies are first tried in a child process (this binary re-executed with
// C37_PROBE_PYRAMID set, see init below).
func pyramidOf(reply []byte) (map[string][]byte, bool) {
	fr := newFrameReader(reply)
	pyr := map[string][]byte{}
	for {
		var r cipb.ChunkPyramidResp
		if ok, _ := fr.next(&r); !ok {
			return pyr, false
		}
		if r.Ok {
			return pyr, true
		}
		pyr[boson.NewAddress(r.Hash).String()] = r.Chunk
	}
}

func needsProbe(pyr map[string][]byte) bool {
	inter := 0
	for _, c := range pyr {
		if len(c) >= 8 && binary.LittleEndian.Uint64(c[:8]) > boson.ChunkSize {
			inter++
		}
	}
	return inter >= 2
}

const probeEnv = "C37_PROBE_PYRAMID"

func init() {
	v := os.Getenv(probeEnv)
	if v == "" {
		return
	}
	// v names a file: first line hex root, second line hex reply stream
	raw, err := os.ReadFile(v)
	if err != nil {
		os.Exit(9)
	}
	parts := strings.Fields(string(raw))
	if len(parts) != 2 {
		os.Exit(9)
	}
	rb, err1 := core.UnHex(parts[0])
	reply, err2 := core.UnHex(parts[1])
	if err1 != nil || err2 != nil {
		os.Exit(9)
	}
	pyr, _ := pyramidOf(reply)
	func() {
		defer func() {
			if e := recover(); e != nil {
				fmt.Fprintln(os.Stderr, "probe: panic in caller goroutine:", e)
				os.Exit(3)
			}
		}()
		_, _, _ = traversal.New(storemock.NewStorer()).GetChunkHashes(context.Background(), boson.NewAddress(rb), pyr)
	}()
	// the joiner's reader goroutines are not all waited for: give a late one the time to panic
	time.Sleep(1500 * time.Millisecond)
	os.Exit(0)
}

// probePyramid reports whether the real traversal survives the pyramid (in a child process).
func probePyramid(root boson.Address, reply []byte) (survived bool, detail string) {
	exe, err := os.Executable()
	if err != nil {
		return true, ""
	}
	f, err := os.CreateTemp("", "c37-probe-*")
	if err != nil {
		return true, ""
	}
	defer os.Remove(f.Name())
	_, _ = f.WriteString(core.Hex(root.Bytes()) + "\n" + core.Hex(reply) + "\n")
	_ = f.Close()
	cmd := exec.Command(exe, "C37", "rule")
	cmd.Env = append(os.Environ(), probeEnv+"="+f.Name())
	var stderr bytes.Buffer
	cmd.Stderr = &stderr
	if err := cmd.Run(); err != nil {
		msg := stderr.String()
		if !strings.Contains(msg, "panic") && !strings.Contains(msg, "fatal error") {
			return true, "" // the child could not be run: fall through to the in-process call
		}
		if i := strings.Index(msg, "\n"); i > 0 {
			msg = msg[:i]
		}
		return false, trunc(msg, 160)
	}
	return true, ""
}

func sortedKeys(m map[string][]byte) []string {
	var ks []string
	for k := range m {
		ks = append(ks, k)
	}
	sort.Strings(ks)
	return ks
}

// text of a map key as a token: hex of its bytes (keys are arbitrary strings)
func keyTok(k string) string { return hx([]byte(k)) }

func isHexAddr(s string) bool { _, err := boson.ParseHexAddress(s); return err == nil }

func (rn *runner) stepCi(ctx octx, op []string) string {
	if rn.ci == nil {
		rn.ci = newCiEnv()
	}
	e := rn.ci
	bg := context.Background()
	line := strings.Join(op, " ")
	switch {
	case op[0] == "ci.file" && len(op) == 3:
		// set-up: the node holds a file `root` with n data chunks and serves it
		rb, err := core.UnHex(op[1])
		n, err2 := strconv.Atoi(op[2])
		if err != nil || err2 != nil || n < 0 || n > 4096 || len(rb) != 32 {
			return "bad-op"
		}
		root := boson.NewAddress(rb)
		if _, dup := e.known[root.String()]; dup {
			return "dup"
		}
		var cids [][]byte
		for i := 0; i < n; i++ {
			cids = append(cids, ciCid(root, i))
		}
		if !e.shadow(ctx, line, false, "chunkinfo-setup-file") {
			return "panic"
		}
		e.trav.mu.Lock()
		e.trav.files[root.String()] = cids
		e.trav.mu.Unlock()
		o := run(func() error {
			return e.ci.OnChunkTransferred(boson.NewAddress(ciCid(root, 0)), root, overlayOf("ci-peerA"), boson.ZeroAddress)
		})
		report(ctx, o, "chunkinfo-setup-file", "OnChunkTransferred")
		if o.class == "ok" {
			e.known[root.String()] = n
		} else {
			e.trav.mu.Lock()
			delete(e.trav.files, root.String())
			e.trav.mu.Unlock()
		}
		return o.class
	case op[0] == "ci.find" && len(op) == 3:
		// set-up: a local discovery for `root` is running (queue + pending finder exist)
		rb, err := core.UnHex(op[1])
		if err != nil {
			return "bad-op"
		}
		var overlays []boson.Address
		for _, h := range strings.Split(op[2], ",") {
			b, err := core.UnHex(h)
			if err != nil {
				return "bad-op"
			}
			overlays = append(overlays, boson.NewAddress(b))
		}
		root := boson.NewAddress(rb)
		if !e.shadow(ctx, line, false, "chunkinfo-setup-find") {
			return "panic"
		}
		e.st.setReply(nil)
		// FindChunkInfo keeps waiting for the first ChunkInfoResp of this root (as the download path does); it
		// is released when the case ends.  (Calling it with a cancelled context instead leaves its 1-slot
		// sync channel registered for ever, and the second response for the root then blocks its handler:
		// a liveness defect of the code, not a panic — see notes/C37.md.)
		o := run(func() error {
			go func() {
				defer func() { _ = recover() }()
				_ = e.ci.FindChunkInfo(e.ctx, nil, root, overlays)
			}()
			return nil
		})
		time.Sleep(15 * time.Millisecond) // findChunkInfo / queueProcess run in goroutines
		report(ctx, o, "chunkinfo-setup-find", "FindChunkInfo")
		return o.class
	}
	if len(op) < 3 {
		return "bad-op"
	}
	stream, err := core.UnHex(op[2])
	if err != nil {
		return "bad-op"
	}
	peer := p2p.Peer{Address: overlayOf(op[1]), Mode: fullMode}
	specs := e.ci.Protocol().StreamSpecs
	fr := newFrameReader(stream)
	switch {
	case op[0] == "ci.req" && len(op) == 3:
		var req cipb.ChunkInfoReq
		if ok, _ := fr.next(&req); !ok {
			ctx.Annotate("X")
		} else {
			ctx.Annotate("R", hx(req.RootCid), hx(req.Target), hx(req.Req), core.B(boson.NewAddress(req.Target).Equal(e.self)))
		}
		if !e.shadow(ctx, line, false, "chunkinfo-req") {
			return "panic"
		}
		e.st.setReply(nil)
		o := run(func() error { return specs[0].Handler(bg, peer, newStream(stream)) })
		report(ctx, o, "chunkinfo-req", "chunkinfo.handlerChunkInfoReq")
		return o.class
	case op[0] == "ci.resp" && len(op) == 3:
		var resp cipb.ChunkInfoResp
		shape := "other"
		var root, target boson.Address
		risky := false
		if ok, _ := fr.next(&resp); !ok {
			ctx.Annotate("X")
		} else {
			root = boson.NewAddress(resp.RootCid)
			target = boson.NewAddress(resp.Target)
			t := []string{"P", hx(resp.RootCid), hx(resp.Target), hx(resp.Req), core.B(boson.NewAddress(resp.Req).Equal(e.self)),
				keyTok(target.String()), itoa(int64(len(resp.Presence)))}
			for _, k := range sortedKeys(resp.Presence) {
				t = append(t, keyTok(k), hx(resp.Presence[k]), core.B(isHexAddr(k)), core.B(isHexAddr(k) && boson.MustParseHexAddress(k).Equal(e.self)))
				if !isHexAddr(k) {
					shape = "nonhex-presence-key"
				}
			}
			ctx.Annotate(t...)
			// does the message reach updateChunkInfo (in the discover WORKER goroutine, where a panic cannot be
			// recovered), and in which branch: first vector for (root, target) or merge into the stored one?
			if v, ok := resp.Presence[target.String()]; ok && v != nil && boson.NewAddress(resp.Req).Equal(e.self) {
				if _, sb, stored := e.storedVec(root, target); stored {
					risky = true
					rel := "equal"
					switch {
					case len(v) == 0:
						rel = "empty"
					case len(v) < len(sb):
						rel = "shorter"
					case len(v) > len(sb):
						rel = "longer"
					}
					if shape == "other" {
						shape = "stored-presence-" + rel
					}
				} else if n := e.known[root.String()]; n > 0 && len(v)*8 < n {
					risky = true
					if shape == "other" {
						shape = "short-presence"
					}
				}
			}
		}
		// a message that reaches the worker goroutine in one of the branches above is first run in the mirror
		// process (the same ops on the same real service): if that process dies, the real handler is not called
		if !e.shadow(ctx, line, risky, "chunkinfo-"+shape+"-worker-goroutine") {
			return "panic"
		}
		e.st.setReply(nil)
		o := run(func() error { return specs[1].Handler(bg, peer, newStream(stream)) })
		report(ctx, o, "chunkinfo-"+shape, "chunkinfo.handlerChunkInfoResp")
		if o.class != "ok" {
			return o.class
		}
		time.Sleep(2 * time.Millisecond)
		l := run(func() error { e.laterUse(root, peer.Address); return nil })
		report(ctx, l, "chunkinfo-"+shape+"-later-use", "GetChunkInfo / overlays / restart after a ChunkInfoResp")
		if l.class != "ok" {
			return o.class + " " + l.class
		}
		// what is stored for (root, target) now: `v<Len>:<bytes>` or `v-` (the model prints the same)
		vt := "v-"
		if n, b, stored := e.storedVec(root, target); stored {
			vt = "v" + itoa(int64(n)) + ":" + hx(b)
		}
		return o.class + " " + l.class + " " + vt
	case op[0] == "ci.pyramid" && len(op) == 4:
		reply, err := core.UnHex(op[3])
		if err != nil {
			return "bad-op"
		}
		var req cipb.ChunkPyramidReq
		var root boson.Address
		if ok, _ := fr.next(&req); !ok {
			ctx.Annotate("X")
		} else {
			root = boson.NewAddress(req.RootCid)
			_, known := e.known[root.String()]
			local := boson.NewAddress(req.Target).Equal(e.self) || known
			t := []string{"Y", hx(req.RootCid), hx(req.Target), core.B(boson.NewAddress(req.Target).Equal(e.self))}
			if !local {
				if pyr, term := pyramidOf(reply); term && needsProbe(pyr) && !inMirror {
					if ok, detail := probePyramid(root, reply); !ok {
						// the real handler would take the whole process down: report, and answer what a rejecting traversal gives
						ctx.Fail("chunkinfo-pyramid-joiner-goroutine-panic", "traversal.GetChunkHashes on this peer pyramid kills the process: %s", detail)
						ctx.Annotate(append(t, "G", itoa(int64(len(pyr))), "K", "T0")...)
						return "err"
					}
				}
				// what the forwarded request's reply decodes to: frames until Ok, and whether the REAL traversal accepts the pyramid
				t = append(t, e.annPyramidReply(ctx, root, reply)...)
			}
			ctx.Annotate(t...)
		}
		if !e.shadow(ctx, line, false, "chunkinfo-pyramid") {
			return "panic"
		}
		e.st.setReply(reply)
		o := run(func() error { return specs[2].Handler(bg, peer, newStream(stream)) })
		report(ctx, o, "chunkinfo-pyramid", "chunkinfo.handlerPyramid / sendPyramid")
		if o.class != "ok" {
			return o.class
		}
		if n, ok := e.trav.count(root); ok {
			if _, had := e.known[root.String()]; !had {
				e.known[root.String()] = n
			}
		}
		l := run(func() error { e.laterUse(root, peer.Address); return nil })
		report(ctx, l, "chunkinfo-pyramid-later-use", "local reads after a pyramid exchange")
		return o.class + " " + l.class
	}
	return "bad-op"
}

func (t *travFake) count(root boson.Address) (int, bool) {
	t.mu.Lock()
	defer t.mu.Unlock()
	c, ok := t.files[root.String()]
	seen := map[string]bool{}
	for _, x := range c {
		seen[string(x)] = true
	}
	return len(seen), ok
}

// annPyramidReply: `G <nframes> <end: K ok-frame | X bad/EOF> <T0|T1 nchunks>`
func (e *ciEnv) annPyramidReply(ctx octx, root boson.Address, reply []byte) []string {
	fr := newFrameReader(reply)
	pyr := map[string][]byte{}
	n := 0
	for {
		var r cipb.ChunkPyramidResp
		if ok, _ := fr.next(&r); !ok {
			return []string{"G", itoa(int64(n)), "X"}
		}
		if r.Ok {
			break
		}
		pyr[boson.NewAddress(r.Hash).String()] = r.Chunk
		n++
	}
	// oracle fact: does the real traversal accept this pyramid for this root (on a scratch store)?
	var cnt int
	var terr error
	v := run(func() error {
		h, _, err := traversal.New(storemock.NewStorer()).GetChunkHashes(context.Background(), root, pyr)
		terr = err
		seen := map[string]bool{}
		for _, f := range h {
			for _, x := range f {
				seen[string(x)] = true
			}
		}
		cnt = len(seen)
		return nil
	})
	report(ctx, v, "chunkinfo-pyramid-traversal", "traversal.GetChunkHashes on a peer-supplied pyramid")
	if v.class != "ok" || terr != nil {
		return []string{"G", itoa(int64(n)), "K", "T0"}
	}
	return []string{"G", itoa(int64(n)), "K", "T1", itoa(int64(cnt))}
}

// storedVec: the presence vector the node holds for (root, overlay), as the API reports it
func (e *ciEnv) storedVec(root, overlay boson.Address) (n int, b []byte, ok bool) {
	o := run(func() error {
		for _, x := range e.ci.GetChunkInfoDiscoverOverlays(root) {
			if x.Overlay == overlay.String() {
				n, b, ok = x.Bit.Len, append([]byte(nil), x.Bit.B...), true
			}
		}
		return nil
	})
	if o.class != "ok" {
		return 0, nil, false
	}
	return n, b, ok
}

// laterUse reads the state a message may have created, the way the retrieval path, the API and a restart do.
func (e *ciEnv) laterUse(root, peer boson.Address) {
	n := e.known[root.String()]
	for i := 0; i < n && i < 4; i++ {
		_ = e.ci.GetChunkInfo(root, boson.NewAddress(ciCid(root, i)))
	}
	if n > 0 {
		_ = e.ci.GetChunkInfo(root, boson.NewAddress(ciCid(root, n-1)))
	}
	_ = e.ci.GetChunkInfo(root, overlayOf("ci-unknown-cid"))
	_ = e.ci.GetChunkInfoDiscoverOverlays(root)
	_ = e.ci.GetChunkInfoServerOverlays(root)
	_ = e.ci.IsDiscover(root)
	_, _ = e.ci.GetFileList(peer)
	_ = e.ci.GetChunkInfoSource(root)
	_ = e.ci.GetChunkPyramid(root)
	// restart: a new service over the same state store reloads what was persisted
	rt := rtmock.NewMockRouteTable()
	ci2 := chunkinfo.New(e.self, e.st, noLog, e.trav, e.state, storemock.NewStorer(), &rt, nil, nil, subscribe.NewSubPub())
	if err := ci2.InitChunkInfo(); err != nil {
		_ = fmt.Sprint(err)
	}
	_ = ci2.GetChunkInfo(root, boson.NewAddress(ciCid(root, 0)))
	_ = ci2.GetChunkInfoDiscoverOverlays(root)
}
