import Aurora.Model.Traffic
/-! Helper lemmas for C31 (paying side of the traffic service). -/
namespace Aurora.Traffic

theorem imax_ge_left (a b : Int) : a ≤ imax a b := by unfold imax; split <;> omega
theorem imax_ge_right (a b : Int) : b ≤ imax a b := by unfold imax; split <;> omega
theorem imax_self_of_le (a b : Int) (h : b ≤ a) : imax a b = a := by unfold imax; split <;> omega

theorem sumTo_congr (n : Nat) (f g : Nat → Int) (h : ∀ a, a < n → f a = g a) : sumTo n f = sumTo n g := by
  induction n with
  | zero => rfl
  | succ k ih =>
    simp only [sumTo]
    rw [ih (fun a ha => h a (by omega)), h k (by omega)]

theorem sumTo_upd (n : Nat) (f : Nat → Int) (a : Nat) (v : Int) :
    sumTo n (upd f a v) = sumTo n f + (if a < n then v - f a else 0) := by
  induction n with
  | zero => simp [sumTo]
  | succ k ih =>
    simp only [sumTo, ih, upd]
    by_cases h1 : a < k
    · have : ¬ k = a := by omega
      have h2 : a < k + 1 := by omega
      simp [h1, h2, this]; omega
    · by_cases h2 : a = k
      · subst h2; simp; omega
      · have h3 : ¬ a < k + 1 := by omega
        have : ¬ k = a := fun h => h2 h.symm
        simp [h1, h3, this]

/-- what `pay` does, by outcome -/
theorem pay_cases (n : Nat) (st : St) (p : Nat) (thr : Int) (fail : Bool) :
    ((pay n st p thr fail).2.status ≠ .ok ∧ (pay n st p thr fail).1 = st) ∨
    (∃ a, st.fwd p = some a ∧ fail = false ∧ thr ≤ st.tot a - st.chq a ∧ st.tot a - st.chq a ≤ avail n st ∧
      (pay n st p thr fail).2 = ⟨.ok, some (st.tot a), some (st.tot a - st.chq a)⟩ ∧
      (pay n st p thr fail).1 = { st with chq := upd st.chq a (st.tot a), tot := upd st.tot a (st.tot a),
                                          sLast := upd st.sLast a (some (st.tot a)) }) := by
  unfold pay
  cases hf : st.fwd p with
  | none => left; simp
  | some a =>
    simp only
    by_cases h1 : st.tot a - st.chq a < thr
    · left; simp [h1]
    · by_cases h2 : avail n st < st.tot a - st.chq a
      · left; simp [h1, h2]
      · cases fail with
        | true => left; simp [h1, h2]
        | false =>
          right
          refine ⟨a, rfl, rfl, by omega, by omega, ?_, ?_⟩
          · simp only [h1, h2, if_false, Bool.false_eq_true]
            have : st.chq a + (st.tot a - st.chq a) = st.tot a := by omega
            rw [this]
          · simp only [h1, h2, if_false, Bool.false_eq_true]
            have : st.chq a + (st.tot a - st.chq a) = st.tot a := by omega
            rw [this, imax_self_of_le _ _ (Int.le_refl _)]

/-- emitted cheque: outstanding ≥ threshold, and its cumulative payout is the total owed -/
theorem pay_emit (n : Nat) (st : St) (p : Nat) (thr : Int) (fail : Bool) (cum : Int)
    (h : (pay n st p thr fail).2.emit = some cum) :
    ∃ a, st.fwd p = some a ∧ thr ≤ st.tot a - st.chq a ∧ cum = st.tot a ∧ (pay n st p thr fail).1.tot a = st.tot a := by
  cases hf : st.fwd p with
  | none => simp [pay, hf] at h
  | some a =>
    refine ⟨a, rfl, ?_⟩
    by_cases h1 : st.tot a - st.chq a < thr
    · simp [pay, hf, h1] at h
    · by_cases h2 : avail n st < st.tot a - st.chq a
      · simp [pay, hf, h1, h2] at h
      · have e : st.chq a + (st.tot a - st.chq a) = st.tot a := by omega
        cases fail with
        | true =>
          simp [pay, hf, h1, h2, e] at h ⊢
          omega
        | false =>
          simp [pay, hf, h1, h2, e, upd, imax_self_of_le] at h ⊢
          omega

/-- invariant of reachable states (histories whose payments use positive thresholds) -/
def Inv (st : St) : Prop :=
  ∀ a, (st.chq a ≤ st.tot a) ∧
       (∀ l, st.sLast a = some l → l ≤ st.chq a ∧ inSet st a = true) ∧
       (inSet st a = true ∨ st.tot a = st.chq a)

def PosThr : Op → Prop
  | .pay _ thr _ => 0 < thr
  | _ => True

theorem inv_init : Inv init := by
  intro a; simp [init, inSet]

theorem inSet_refresh_mem (st : St) (a : Nat) : inSet (refresh st) a = inSet st a := by
  simp [inSet, refresh]

/-- what `refresh` needs of its input (also true of the cleared memory after a restart) -/
def WeakInv (st : St) : Prop :=
  ∀ a, (∀ l, st.sLast a = some l → inSet st a = true) ∧ (inSet st a = true ∨ st.tot a = st.chq a)

theorem weak_of_inv (st : St) (h : Inv st) : WeakInv st :=
  fun a => ⟨fun l hl => ((h a).2.1 l hl).2, (h a).2.2⟩

theorem inv_refresh (st : St) (h : WeakInv st) : Inv (refresh st) := by
  intro a
  obtain ⟨h2, h3⟩ := h a
  rw [inSet_refresh_mem]
  by_cases hs : inSet st a = true
  · simp only [refresh, hs, if_true]
    refine ⟨imax_ge_left _ _, ?_, Or.inl trivial⟩
    intro l hl
    simp only [hl]
    exact ⟨imax_ge_right _ _, trivial⟩
  · have hs' : inSet st a = false := by simpa using hs
    simp only [refresh, hs', Bool.false_eq_true, if_false]
    cases h3 with
    | inl h => exact absurd h hs
    | inr h =>
      refine ⟨by omega, ?_, Or.inr h⟩
      intro l hl; have := h2 l hl; simp [hs'] at this

theorem inv_step (n : Nat) (st : St) (op : Op) (hp : PosThr op) (h : Inv st) : Inv (step n st op) := by
  cases op with
  | reg p a => intro x; simpa [step, register, inSet] using h x
  | credit p amt =>
    simp only [step, credit]
    cases hf : st.fwd p with
    | none => simpa using h
    | some a =>
      intro x
      obtain ⟨h1, h2, h3⟩ := h x
      by_cases hx : x = a
      · subst hx
        simp only [Option.getD_some, inSet, upd, if_true, Option.isSome_some, Bool.true_or, true_or, and_true]
        refine ⟨by omega, fun l hl => ?_⟩
        first | exact (h2 l hl).1 | exact ⟨(h2 l hl).1, trivial⟩
      · simp only [Option.getD_some, inSet, upd, hx, if_false]
        exact ⟨h1, h2, h3⟩
  | pay p thr fail =>
    simp only [step]
    rcases pay_cases n st p thr fail with ⟨_, he⟩ | ⟨a, hf, _, hthr, _, _, he⟩
    · rw [he]; exact h
    · rw [he]
      intro x
      obtain ⟨h1, h2, h3⟩ := h x
      have hpos : 0 < thr := hp
      by_cases hx : x = a
      · subst hx
        have hin : inSet st x = true := by
          cases h3 with
          | inl h => exact h
          | inr h => omega
        simp only [inSet, upd, if_true] at hin ⊢
        refine ⟨Int.le_refl _, ?_, Or.inl hin⟩
        intro l hl; simp only [Option.some.injEq] at hl; subst hl; exact ⟨Int.le_refl _, hin⟩
      · simp only [inSet, upd, hx, if_false]
        exact ⟨h1, h2, h3⟩
  | chainBal v => intro x; simpa [step, inSet] using h x
  | chainCashed a v =>
    intro x
    obtain ⟨h1, h2, h3⟩ := h x
    simp only [step, inSet, upd] at *
    refine ⟨h1, fun l hl => ⟨(h2 l hl).1, ?_⟩, ?_⟩
    · have := (h2 l hl).2
      by_cases hx : x = a <;> simp [hx] <;> simpa [hx] using this
    · cases h3 with
      | inl h3 => left; by_cases hx : x = a <;> simp [hx] <;> simpa [hx] using h3
      | inr h3 => exact Or.inr h3
  | chainFail b => intro x; simpa [step, inSet] using h x
  | refresh => exact inv_refresh st (weak_of_inv st h)
  | restart =>
    simp only [step, restart]
    apply inv_refresh
    intro a
    obtain ⟨_, h2, _⟩ := h a
    simp only [inSet] at *
    exact ⟨fun l hl => (h2 l hl).2, Or.inr trivial⟩
  | cashout p s =>
    simp only [step, cashout]
    cases hf : st.fwd p with
    | none => simpa using h
    | some a =>
      by_cases hs : s = some 1
      · intro x
        have hx := h x
        simp only [hs, if_true, Option.getD_some, inSet] at hx ⊢
        exact hx
      · simpa [hs] using h

/-- the operations that are allowed to touch the cashed records / chain balance:
    refresh (start-up, 24 h), restart, cash-out receipt -/
def Op.isRefresh : Op → Bool
  | .refresh | .restart | .cashout _ _ => true
  | _ => false

end Aurora.Traffic
