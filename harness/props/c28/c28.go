// Package c28: correspondence + oracle for route discovery and relaying (property C28).
//
// Two kinds of cases share one runner:
//   - handler level (ops node/req/resp/find/relay/pgc/dump): ONE real routetab.Service; messages are
//     delivered through Protocol().StreamSpecs[i].Handler, everything it writes to streams and its
//     tables are compared with the Lean model's handlers;
//   - network level (ops net/nfind/nrun/nquiesce/nrelay): up to 6 real Services wired by a
//     deterministic scheduler (PRNG-chosen delivery / drop order); this is the model-free oracle for
//     the global invariants (the model answers `ok` to these ops).
package c28

import (
	"context"
	"fmt"
	"sort"
	"strconv"
	"strings"
	"sync/atomic"
	"time"

	"github.com/ethereum/go-ethereum/common"
	"github.com/gauss-project/aurorafs/pkg/boson"
	"github.com/gauss-project/aurorafs/pkg/p2p/protobuf"
	"github.com/gauss-project/aurorafs/pkg/routetab"
	"github.com/gauss-project/aurorafs/pkg/routetab/pb"

	"verifharness/core"
)

type prop struct{}

func init() { core.Register(prop{}) }

func (prop) ID() string { return "C28" }
func (prop) Rule() string {
	return "two case families over a 6-node universe (real secp256k1 identities). Handler level (2/3 of cases): `node self nbrs book alpha ttl` then 6-30 ops " +
		"req/resp (mostly honest-looking: one duplicate-free path ending in the sender, lengths dense around ttl; a smaller malformed stream: 0 or 2 paths, paths containing self, duplicates, over-long, empty), " +
		"find, relay (conn-chain and plain), relayd (a relay whose handler runs a route discovery; a response - mostly from the predecessor or another neighbour, for the relay's target - is delivered while FindRoute waits), pgc, dump; alpha 1..3 in the message and as NeighborAlpha, ttl 2..5, utype 0/1/2 with underlay lists, scripted crypto/rand bytes for RandomSubset. " +
		"Network level (1/3): `net n edges alpha ttl pub` with n=3..6 and a random connected graph (tree + extra edges: cycles, diamonds), then nfind/nrun(with drops)/nquiesce/nrelay (a discovery started by a relaying node is run to its answer inside the relay) and occasional nlink/nunlink; every 15th case is a churn scenario (a learned route S-P-X-T loses X-T, a new way via Y comes up, S relays to T); " +
		"invariants checked on every table and every in-flight message after every scheduler step. Fixed regression cases first. " +
		"Non-trivial: handler case with a node and >=3 delivered messages of which >=1 produced output, or network case with >=1 nfind and >=1 nquiesce; distinct by op-list hash."
}

// ---------- string forms shared with the Lean driver ----------

func pathStr(p []int) string {
	if len(p) == 0 {
		return "e"
	}
	s := make([]string, len(p))
	for i, v := range p {
		s[i] = strconv.Itoa(v)
	}
	return strings.Join(s, ".")
}
func pathsStr(ps [][]int) string {
	if len(ps) == 0 {
		return "-"
	}
	s := make([]string, len(ps))
	for i, p := range ps {
		s[i] = pathStr(p)
	}
	return strings.Join(s, "|")
}
func listStr(p []int) string {
	if len(p) == 0 {
		return "-"
	}
	s := make([]string, len(p))
	for i, v := range p {
		s[i] = strconv.Itoa(v)
	}
	return strings.Join(s, ",")
}
func parseList(s, sep string) ([]int, bool) {
	if s == "-" || s == "e" {
		return nil, true
	}
	var out []int
	for _, f := range strings.Split(s, sep) {
		v, err := strconv.Atoi(f)
		if err != nil || v < 0 || v >= universe {
			return nil, false
		}
		out = append(out, v)
	}
	return out, true
}
func parsePaths(s string) ([][]int, bool) {
	if s == "-" {
		return nil, true
	}
	var out [][]int
	for _, f := range strings.Split(s, "|") {
		p, ok := parseList(f, ".")
		if !ok {
			return nil, false
		}
		out = append(out, p)
	}
	return out, true
}
func parsePairs(s string) (a, b []int, ok bool) { // "1:0,2:1"
	if s == "-" {
		return nil, nil, true
	}
	for _, f := range strings.Split(s, ",") {
		xy := strings.Split(f, ":")
		if len(xy) != 2 {
			return nil, nil, false
		}
		x, e1 := strconv.Atoi(xy[0])
		y, e2 := strconv.Atoi(xy[1])
		if e1 != nil || e2 != nil || x < 0 || x >= universe || y < 0 {
			return nil, nil, false
		}
		a, b = append(a, x), append(b, y)
	}
	return a, b, true
}
func pairsStr(a, b []int) string {
	if len(a) == 0 {
		return "-"
	}
	s := make([]string, len(a))
	for i := range a {
		s[i] = fmt.Sprintf("%d:%d", a[i], b[i])
	}
	return strings.Join(s, ",")
}

func itemsOf(p []int) [][]byte {
	out := make([][]byte, len(p))
	for i, v := range p {
		out[i] = ids[v].overlay.Bytes()
	}
	return out
}
func pbPaths(ps [][]int) []*pb.Path {
	var out []*pb.Path
	for _, p := range ps {
		out = append(out, &pb.Path{Items: itemsOf(p)})
	}
	return out
}
func pbUList(ul []int) []*pb.UnderlayResp {
	var out []*pb.UnderlayResp
	for _, v := range ul {
		a := ids[v].addr
		out = append(out, &pb.UnderlayResp{Dest: a.Overlay.Bytes(), Underlay: a.Underlay.Bytes(), Signature: a.Signature})
	}
	return out
}
func idxPath(items [][]byte) []int {
	out := make([]int, len(items))
	for i, b := range items {
		out[i] = idx(boson.NewAddress(b))
	}
	return out
}
func idxPaths(ps []*pb.Path) [][]int {
	var out [][]int
	for _, p := range ps {
		out = append(out, idxPath(p.Items))
	}
	return out
}
func idxUList(ul []*pb.UnderlayResp) []int {
	var out []int
	for _, u := range ul {
		out = append(out, idx(boson.NewAddress(u.Dest)))
	}
	return out
}

func (p packet) String() string {
	switch p.kind {
	case "Q":
		return fmt.Sprintf("Q>%d:%d:%d:%d:%s:%s", p.to, idx(boson.NewAddress(p.req.Dest)), p.req.Alpha, p.req.UType, pathsStr(idxPaths(p.req.Paths)), listStr(idxUList(p.req.UList)))
	case "R":
		return fmt.Sprintf("R>%d:%d:%d:%s:%s", p.to, idx(boson.NewAddress(p.resp.Dest)), p.resp.UType, pathsStr(idxPaths(p.resp.Paths)), listStr(idxUList(p.resp.UList)))
	}
	return p.kind + ">" + strconv.Itoa(p.to)
}
func packetsStr(ps []packet) string {
	var s []string
	for _, p := range ps {
		if p.kind == "Q" || p.kind == "R" {
			s = append(s, p.String())
		}
	}
	if len(s) == 0 {
		return "-"
	}
	return strings.Join(s, ";")
}

// ---------- generator ----------

func shuffled(r *core.Rand, n int) []int {
	p := make([]int, n)
	for i := range p {
		p[i] = i
	}
	for k := n - 1; k > 0; k-- {
		j := r.Intn(k + 1)
		p[k], p[j] = p[j], p[k]
	}
	return p
}

func rndHex(r *core.Rand) string {
	if r.Chance(30) {
		return "-"
	}
	return core.Hex(r.Bytes(r.Range(1, 8)))
}

func genHandler(r *core.Rand, id string) core.Case {
	c := core.Case{ID: id}
	perm := shuffled(r, universe)
	self := perm[0]
	nn := r.Pick([]int{1, 2, 2, 3, 3, 3, 4, 5})
	nbrs := perm[1 : 1+nn]
	class := make([]int, nn)
	for i := range class {
		class[i] = r.Pick([]int{0, 0, 1})
	}
	var book []int
	for i := 0; i < universe; i++ {
		if i != self && r.Chance(40) {
			book = append(book, i)
		}
	}
	alpha := r.Pick([]int{1, 2, 2, 2, 3})
	ttl := r.Pick([]int{2, 3, 3, 4, 4, 5})
	if r.Chance(97) {
		c.Ops = append(c.Ops, fmt.Sprintf("node %d %s %s %d %d", self, pairsStr(nbrs, class), listStr(book), alpha, ttl))
	}
	others := perm[1:]
	isNbr := func(x int) bool {
		for _, v := range nbrs {
			if v == x {
				return true
			}
		}
		return false
	}
	// an honest-looking path of length l ending in `last`, avoiding `self` (unless bad)
	mkPath := func(l, last int, withSelf, dup bool) []int {
		pool := []int{}
		for _, v := range shuffled(r, universe) {
			if v != last && (withSelf || v != self) {
				pool = append(pool, v)
			}
		}
		p := []int{}
		for k := 0; k < l-1; k++ {
			p = append(p, pool[k%len(pool)])
		}
		if l > 0 {
			p = append(p, last)
		}
		if withSelf && l > 1 {
			p[r.Intn(l-1)] = self
		}
		if dup && l > 2 {
			p[r.Intn(l-1)] = p[l-1]
		}
		return p
	}
	delivered, produced := 0, 0
	nops := r.Range(6, 30)
	hot := others[r.Intn(len(others))] // a favourite destination so that pending entries and routes collide
	pickDest := func() int {
		switch r.Intn(10) {
		case 0:
			return self
		case 1, 2, 3, 4:
			return hot
		default:
			return r.Intn(universe)
		}
	}
	for k := 0; k < nops; k++ {
		from := nbrs[r.Intn(len(nbrs))]
		if r.Chance(10) {
			from = others[r.Intn(len(others))]
		}
		dest := pickDest()
		ut := r.Pick([]int{0, 1, 1, 1, 2})
		var ul []int
		if r.Chance(30) {
			ul = append(ul, r.Intn(universe))
			if r.Chance(30) {
				ul = append(ul, dest)
			}
		}
		switch x := r.Intn(20); {
		case x < 8: // request
			l := r.Pick([]int{1, 1, 2, 2, 3, ttl - 1, ttl, ttl + 1})
			if l < 1 {
				l = 1
			}
			var ps [][]int
			switch r.Intn(12) {
			case 0:
				ps = nil
			case 1:
				ps = [][]int{mkPath(l, from, false, false), mkPath(r.Range(1, ttl+1), from, false, false)}
			case 2:
				ps = [][]int{mkPath(l, from, true, false)}
			case 3:
				ps = [][]int{mkPath(l, from, false, true)}
			default:
				ps = [][]int{mkPath(l, from, false, false)}
			}
			a := r.Pick([]int{0, 1, 2, 2, 3, -1})
			c.Ops = append(c.Ops, fmt.Sprintf("req %d %d %d %d %s %s %s", from, dest, a, ut, pathsStr(ps), listStr(ul), rndHex(r)))
			delivered++
			produced++
		case x < 14: // response
			l := r.Pick([]int{1, 2, 2, 3, ttl - 1, ttl, ttl + 1})
			if l < 1 {
				l = 1
			}
			var ps [][]int
			switch r.Intn(12) {
			case 0:
				ps = nil
			case 1, 2:
				ps = [][]int{mkPath(l, from, false, false), mkPath(r.Range(1, ttl+2), from, false, false)}
			case 3:
				ps = [][]int{mkPath(l, from, true, false)}
			case 4:
				ps = [][]int{mkPath(l, from, false, true)}
			case 5:
				ps = [][]int{{}}
			default:
				p := mkPath(l, from, false, false)
				if len(p) > 0 && r.Chance(70) {
					p[0] = dest // a response path starts at the target
					for i := 1; i < len(p); i++ {
						if p[i] == dest && i != len(p)-1 {
							p[i] = others[r.Intn(len(others))]
						}
					}
				}
				ps = [][]int{p}
			}
			c.Ops = append(c.Ops, fmt.Sprintf("resp %d %d %d %s %s", from, dest, ut, pathsStr(ps), listStr(ul)))
			delivered++
		case x < 16:
			c.Ops = append(c.Ops, fmt.Sprintf("find %d %s", dest, rndHex(r)))
		case x < 18:
			kind := "c"
			if r.Bool() {
				kind = "p"
			}
			l := r.Range(0, 3)
			p := mkPath(l, from, r.Chance(10), false)
			if r.Chance(55) {
				// a relay that has to discover a route while relaying: the response that arrives meanwhile
				// mostly comes from the predecessor (the learned route leads back onto the path) or another neighbour
				var far []int // targets that are neither self nor a neighbour: the handler has to look at its table
				for _, v := range others {
					if !isNbr(v) {
						far = append(far, v)
					}
				}
				if len(far) > 0 && r.Chance(85) {
					dest = far[r.Intn(len(far))]
				}
				rfrom := from
				if r.Chance(50) {
					rfrom = nbrs[r.Intn(len(nbrs))]
				}
				rdest := dest
				if r.Chance(12) {
					rdest = pickDest()
				}
				rl := r.Pick([]int{2, 2, 3, 3, ttl, ttl + 1})
				rp := mkPath(rl, rfrom, r.Chance(6), r.Chance(6))
				if len(rp) > 1 && r.Chance(85) {
					rp[0] = rdest
					for i := 1; i < len(rp)-1; i++ {
						if rp[i] == rdest {
							rp[i] = others[r.Intn(len(others))]
						}
					}
				}
				rps := [][]int{rp}
				if r.Chance(10) {
					rps = append(rps, mkPath(r.Range(1, ttl+1), rfrom, false, false))
				}
				c.Ops = append(c.Ops, fmt.Sprintf("relayd %s %d %d %s %s %d %d %d %s %s", kind, from, dest, pathStr(p), rndHex(r), rfrom, rdest, ut, pathsStr(rps), listStr(ul)))
				delivered++
				continue
			}
			c.Ops = append(c.Ops, fmt.Sprintf("relay %s %d %d %s %s", kind, from, dest, pathStr(p), rndHex(r)))
		case x < 19:
			c.Ops = append(c.Ops, "pgc")
		default:
			c.Ops = append(c.Ops, "dump")
		}
		_ = isNbr
	}
	c.Ops = append(c.Ops, "dump")
	c.NT = len(c.Ops) > 0 && strings.HasPrefix(c.Ops[0], "node") && delivered >= 3 && produced >= 1
	return c
}

func genNet(r *core.Rand, id string) core.Case {
	c := core.Case{ID: id}
	n := r.Range(3, universe)
	perm := shuffled(r, n)
	edges := map[[2]int]bool{}
	add := func(a, b int) {
		if a == b {
			return
		}
		if a > b {
			a, b = b, a
		}
		edges[[2]int{a, b}] = true
	}
	for i := 1; i < n; i++ { // random tree => connected
		add(perm[i], perm[r.Intn(i)])
	}
	for k := r.Intn(n + 1); k > 0; k-- { // extra edges: cycles
		add(r.Intn(n), r.Intn(n))
	}
	var es []string
	for e := range edges {
		es = append(es, fmt.Sprintf("%d-%d", e[0], e[1]))
	}
	sort.Strings(es)
	var pub []int
	for i := 0; i < n; i++ {
		if r.Chance(60) {
			pub = append(pub, i)
		}
	}
	alpha := r.Pick([]int{1, 2, 2, 3})
	ttl := r.Pick([]int{2, 3, 4, 5, 6})
	c.Ops = append(c.Ops, fmt.Sprintf("net %d %s %d %d %s", n, strings.Join(es, ","), alpha, ttl, listStr(pub)))
	finds, quiesce := 0, 0
	for k := r.Range(3, 10); k > 0; k-- {
		switch x := r.Intn(10); {
		case x < 4:
			c.Ops = append(c.Ops, fmt.Sprintf("nfind %d %d %s", r.Intn(n), r.Intn(n), rndHex(r)))
			finds++
		case x < 6:
			c.Ops = append(c.Ops, fmt.Sprintf("nrun %d %d %d", r.Range(1, 12), r.Intn(1000), r.Pick([]int{0, 0, 10, 30})))
		case x < 8:
			c.Ops = append(c.Ops, fmt.Sprintf("nquiesce %d", r.Intn(1000)))
			quiesce++
		default:
			if r.Chance(25) {
				c.Ops = append(c.Ops, fmt.Sprintf("%s %d %d", []string{"nlink", "nunlink"}[r.Intn(2)], r.Intn(n), r.Intn(n)))
			}
			c.Ops = append(c.Ops, fmt.Sprintf("nrelay %d %d %d", r.Intn(n), r.Intn(n), r.Intn(1000)))
		}
	}
	c.Ops = append(c.Ops, fmt.Sprintf("nquiesce %d", r.Intn(1000)), fmt.Sprintf("nrelay %d %d %d", r.Intn(n), r.Intn(n), r.Intn(1000)))
	quiesce++
	c.NT = finds >= 1 && quiesce >= 1
	return c
}

// genChurn: a route is learned, then the topology changes under it and a relay has to discover a new
// route while it is being relayed: S - P - X - T (plus random extra links that do not shorten S..T
// below P), S discovers T; X-T goes down; a new way P - Y - T (or X - Y - T, S - Y - T) comes up; relays.
func genChurn(r *core.Rand, id string) core.Case {
	c := core.Case{ID: id}
	n := r.Range(5, universe)
	perm := shuffled(r, n)
	S, P, X, T, Y := perm[0], perm[1], perm[2], perm[3], perm[4]
	es := []string{fmt.Sprintf("%d-%d", S, P), fmt.Sprintf("%d-%d", P, X), fmt.Sprintf("%d-%d", X, T)}
	if n == 6 && r.Chance(50) {
		z := perm[5]
		es = append(es, fmt.Sprintf("%d-%d", z, r.Pick([]int{S, P, X})))
	}
	if r.Chance(20) {
		es = append(es, fmt.Sprintf("%d-%d", S, X))
	}
	var pub []int
	for i := 0; i < n; i++ {
		if r.Chance(75) {
			pub = append(pub, i)
		}
	}
	c.Ops = append(c.Ops, fmt.Sprintf("net %d %s %d %d %s", n, strings.Join(es, ","), r.Pick([]int{1, 2, 2, 3}), r.Pick([]int{4, 5, 6}), listStr(pub)))
	c.Ops = append(c.Ops, fmt.Sprintf("nfind %d %d %s", S, T, rndHex(r)), fmt.Sprintf("nquiesce %d", r.Intn(1000)))
	if r.Chance(30) {
		c.Ops = append(c.Ops, fmt.Sprintf("nfind %d %d %s", P, T, rndHex(r)), fmt.Sprintf("nquiesce %d", r.Intn(1000)))
	}
	c.Ops = append(c.Ops, fmt.Sprintf("nunlink %d %d", X, T))
	via := r.Pick([]int{P, P, P, X, S})
	c.Ops = append(c.Ops, fmt.Sprintf("nlink %d %d", via, Y), fmt.Sprintf("nlink %d %d", Y, T))
	for k := r.Range(1, 3); k > 0; k-- {
		c.Ops = append(c.Ops, fmt.Sprintf("nrelay %d %d %d", r.Pick([]int{S, S, S, P}), T, r.Intn(1000)))
		if r.Chance(40) {
			c.Ops = append(c.Ops, fmt.Sprintf("nquiesce %d", r.Intn(1000)))
		}
	}
	c.Ops = append(c.Ops, fmt.Sprintf("nquiesce %d", r.Intn(1000)), fmt.Sprintf("nrelay %d %d %d", S, T, r.Intn(1000)))
	c.NT = true
	return c
}

func (prop) Gen(r *core.Rand, tier string) []core.Case {
	n := 450
	if tier == "thorough" {
		n = 12000
	}
	cs := []core.Case{
		// two pending sources for one target: the second forwarded response must not get self twice
		{ID: "fix-resp-two-sources", NT: true, Ops: []string{"node 0 1:0,2:0,3:0 - 2 5", "req 1 3 2 0 1 - -", "req 2 3 2 0 2 - -", "dump", "resp 3 3 0 3 -", "dump"}},
		{ID: "fix-resp-three-sources", NT: true, Ops: []string{"node 0 1:0,2:1,3:0,4:0 - 3 5", "req 1 5 1 0 1 - -", "req 2 5 1 0 2 - -", "req 3 5 1 0 3 - 00", "resp 4 5 0 5.4 -", "dump"}},
		{ID: "fix-target-is-self", NT: true, Ops: []string{"node 2 1:0,3:0 - 2 4", "req 1 2 2 1 0.1 - -", "req 3 2 0 0 4.3 5 -", "dump"}},
		{ID: "fix-ttl-boundary", NT: true, Ops: []string{"node 0 1:0,2:0 - 2 3", "req 1 5 2 0 3.4.1 - -", "req 1 5 2 0 2.3.4.1 - -", "resp 1 5 0 5.4.1 -", "resp 1 5 0 5.4.3.1 -", "resp 2 4 0 4.3.2|4.1.3.2 -", "dump"}},
		{ID: "fix-stored-route-answer", NT: true, Ops: []string{"node 0 1:0,2:0 5 2 5", "resp 1 5 1 5.4.1 5", "req 2 5 2 1 3.2 - -", "req 2 5 2 0 4.2 - -", "req 2 5 2 1 2 - -", "dump"}},
		{ID: "fix-relay", NT: true, Ops: []string{"node 0 1:0,2:0 - 2 5", "resp 1 5 0 5.4.1 -", "resp 2 5 0 5.3.2 -", "relay c 1 5 3.1 -", "relay p 2 5 2 -", "relay c 1 2 1 -", "relay c 1 4 1 -", "relay c 1 0 1 -", "dump"}},
		// a relay node without a usable route runs a discovery while relaying; the only route it learns leads
		// back through its predecessor (1, on the path 2.1): it has to give up, not to forward to 1.  Then the
		// same with a route through the fresh neighbour 3 (forwarded), a response for another target / a
		// discarded response (FindRoute gives up), and a response that adds no route for the target.
		{ID: "fix-relay-after-discovery", NT: true, Ops: []string{"node 0 1:0,3:0 - 2 5", "relayd c 1 5 2.1 - 1 5 1 5.4.1 -", "dump", "relayd p 1 5 2.1 - 1 5 0 5.2.1 -", "relayd c 1 5 2.1 - 3 5 1 5.4.3 5", "dump",
			"relayd c 1 4 2.1 - 3 5 1 5.3 -", "relayd p 1 4 1 - 3 4 1 4.0.3 -", "relayd c 1 4 2.1 - 3 4 1 2.3 -", "dump", "relayd c 1 4 2.1 00 3 4 1 4.3|4.2.1 -", "relayd c 1 0 1 - 3 4 1 4.3 -", "relayd c 1 3 1 - 3 4 1 4.3 -", "dump"}},
		{ID: "fix-nonode", NT: false, Ops: []string{"req 1 3 2 0 1 - -", "dump", "nrun 3 1 0", "find 2 -", "relayd c 1 5 2.1 - 1 5 1 5.4.1 -", "nlink 0 1", "nunlink 0 1", "relayd x 1 5 2.1 - 1 5 1 5.4.1 -", "relayd c 1 5 2.1 - 1 5 1 5.4.1"}},
		{ID: "fix-net-diamond", NT: true, Ops: []string{"net 4 0-1,0-2,1-3,2-3 2 4 0,1,2,3", "nfind 0 3 -", "nquiesce 1", "nfind 1 2 -", "nrun 3 7 30", "nquiesce 2", "nrelay 0 3 5"}},
		// S=0 - P=1 - X=2 - T=3, S discovers T; the link X-T goes down, Y=4 joins with P-Y-T; S relays to T: P still
		// routes via X, X has to run a discovery while relaying and learns only a route through P (on the path)
		{ID: "fix-net-relay-after-discovery", NT: true, Ops: []string{"net 5 0-1,1-2,2-3 2 6 0,1,2,3,4", "nfind 0 3 -", "nquiesce 1", "nunlink 2 3", "nlink 1 4", "nlink 4 3", "nrelay 0 3 1", "nrelay 0 3 2", "nquiesce 2", "nrelay 0 3 3"}},
		{ID: "fix-net-ring", NT: true, Ops: []string{"net 6 0-1,1-2,2-3,3-4,4-5,0-5 2 6 0,2,4", "nfind 0 3 -", "nfind 3 0 0102", "nquiesce 3", "nfind 1 4 -", "nquiesce 4", "nrelay 0 3 1", "nrelay 2 5 2"}},
	}
	for i := 0; i < n; i++ {
		if i%15 == 14 {
			cs = append(cs, genChurn(r, fmt.Sprintf("c%d", i)))
		} else if i%3 == 2 {
			cs = append(cs, genNet(r, fmt.Sprintf("n%d", i)))
		} else {
			cs = append(cs, genHandler(r, fmt.Sprintf("h%d", i)))
		}
	}
	return cs
}

// ---------- runner ----------

type runner struct {
	dirty bool // some delivered message carried a path with a repeated node or with self
	node  *simNode
	alpha int
	ttl   int
	net   *simNet
}

func (prop) New() core.Runner { return &runner{} }
func (rn *runner) Close() {
	if rn.node != nil {
		rn.node.close()
	}
	if rn.net != nil {
		rn.net.close()
	}
}

func setGlobals(alpha, ttl int) {
	routetab.NeighborAlpha = int32(alpha)
	atomic.StoreInt32(&routetab.MaxTTL, int32(ttl))
}

func hasDup(p []int) bool {
	seen := map[int]bool{}
	for _, v := range p {
		if seen[v] {
			return true
		}
		seen[v] = true
	}
	return false
}
func contains(p []int, x int) bool {
	for _, v := range p {
		if v == x {
			return true
		}
	}
	return false
}

func (rn *runner) annotateCands(ctx *core.Ctx, dest int) {
	a, b := rn.node.candidates(ids[dest].overlay)
	ctx.Annotate("c=" + pairsStr(a, b))
}

// handlerOracle: model-free checks on what one handler call wrote and stored.
// cleanIn: every path of the delivered message was duplicate-free and did not contain self.
func (rn *runner) handlerOracle(ctx *core.Ctx, out []packet, cleanIn bool, inPaths [][]int, isReq bool) {
	self := rn.node.self
	for _, p := range out {
		var ps [][]int
		if p.kind == "Q" {
			ps = idxPaths(p.req.Paths)
			if !contains(rn.node.nbrs, p.to) {
				ctx.Fail("request-to-non-neighbor", "request forwarded to %d which is not connected", p.to)
			}
			if isReq {
				for _, ip := range inPaths {
					if contains(ip, p.to) && p.to != idx(boson.NewAddress(p.req.Dest)) {
						ctx.Fail("request-forwarded-onto-path", "request forwarded to %d which is already on its path %v", p.to, ip)
					}
				}
			}
		} else if p.kind == "R" {
			ps = idxPaths(p.resp.Paths)
		} else {
			continue
		}
		for _, q := range ps {
			if len(q) == 0 || q[len(q)-1] != self {
				ctx.Fail("sent-path-not-ending-in-self", "sent path %v does not end in the sender %d", q, self)
			}
			if cleanIn && hasDup(q) {
				ctx.Fail("sent-path-duplicate", "sent path %v repeats a node although every received path was duplicate-free", q)
			}
		}
	}
	if isReq {
		nq := 0
		for _, p := range out {
			if p.kind == "Q" {
				nq++
			}
		}
		_ = nq
	}
	rn.node.svc.VerifTable().VerifEachPath(func(_ common.Hash, p *routetab.Path) {
		ip := make([]int, len(p.Items))
		for i, a := range p.Items {
			ip[i] = idx(a)
		}
		if contains(ip, self) {
			ctx.Fail("stored-path-contains-self", "node %d stores %v", self, ip)
		}
		if len(ip) > rn.ttl {
			ctx.Fail("stored-path-too-long", "node %d stores %v, ttl %d", self, ip, rn.ttl)
		}
	})
}

func (rn *runner) dump() string {
	n := rn.node
	tab := n.svc.VerifTable()
	var ps []string
	keys := map[common.Hash]string{}
	tab.VerifEachPath(func(k common.Hash, p *routetab.Path) {
		ip := make([]int, len(p.Items))
		for i, a := range p.Items {
			ip[i] = idx(a)
		}
		keys[k] = pathStr(ip)
		ps = append(ps, pathStr(ip))
	})
	sort.Strings(ps)
	type tr struct {
		t int
		s string
	}
	var rs []tr
	for tk, l := range tab.VerifRoutes() {
		var e []string
		for _, r := range l {
			ks, ok := keys[r.PathKey]
			if !ok {
				ks = "?"
			}
			e = append(e, fmt.Sprintf("%d:%s", idx(r.Neighbor), ks))
		}
		rs = append(rs, tr{byHash[tk], fmt.Sprintf("%d=[%s]", byHash[tk], strings.Join(e, ";"))})
	}
	sort.Slice(rs, func(i, j int) bool { return rs[i].t < rs[j].t })
	var rstr []string
	for _, r := range rs {
		rstr = append(rstr, r.s)
	}
	pend := n.svc.VerifPendingCalls()
	var prs []tr
	for tk, items := range pend.VerifResp() {
		var e []string
		for _, it := range items {
			s := strconv.Itoa(idx(it.Src))
			if it.ResCh != nil {
				s += "c"
			}
			e = append(e, s)
		}
		prs = append(prs, tr{byHash[tk], fmt.Sprintf("%d=%s", byHash[tk], strings.Join(e, ","))})
	}
	sort.Slice(prs, func(i, j int) bool { return prs[i].t < prs[j].t })
	var prstr []string
	for _, r := range prs {
		prstr = append(prstr, r.s)
	}
	var pq []string
	for _, k := range pend.VerifReqKeys() {
		if len(k) == 128 {
			pq = append(pq, fmt.Sprintf("%d>%d", byHex[k[:64]], byHex[k[64:]]))
		} else {
			pq = append(pq, "?")
		}
	}
	sort.Strings(pq)
	var bk []int
	for i := 0; i < universe; i++ {
		if a, _ := n.book.Get(ids[i].overlay); a != nil {
			bk = append(bk, i)
		}
	}
	j := func(l []string, sep string) string {
		if len(l) == 0 {
			return "-"
		}
		return strings.Join(l, sep)
	}
	return fmt.Sprintf("P=%s R=%s W=%s L=%s B=%s", j(ps, ","), j(rstr, ","), j(prstr, ";"), j(pq, ","), listStr(bk))
}

func (rn *runner) Step(ctx *core.Ctx, op []string) string {
	if len(op) == 0 {
		return "bad-op"
	}
	switch op[0] {
	case "node":
		if len(op) != 6 {
			return "bad-op"
		}
		self, e1 := strconv.Atoi(op[1])
		nb, cl, ok1 := parsePairs(op[2])
		bk, ok2 := parseList(op[3], ",")
		a, e2 := strconv.Atoi(op[4])
		l, e3 := strconv.Atoi(op[5])
		if e1 != nil || e2 != nil || e3 != nil || !ok1 || !ok2 || self < 0 || self >= universe || a < 1 || l < 0 || contains(nb, self) || hasDup(nb) {
			return "bad-op"
		}
		if rn.node != nil {
			rn.node.close()
		}
		setGlobals(a, l)
		rn.alpha, rn.ttl = a, l
		rn.node = newSimNode(self, nb, cl, bk)
		rn.dirty = false
		return "ok"
	case "net", "nfind", "nrun", "nquiesce", "nrelay", "nlink", "nunlink":
		return rn.netStep(ctx, op)
	}
	if rn.node == nil {
		return "nonode"
	}
	n := rn.node
	switch {
	case op[0] == "req" && len(op) == 8:
		from, e1 := strconv.Atoi(op[1])
		dest, e2 := strconv.Atoi(op[2])
		a, e3 := strconv.Atoi(op[3])
		ut, e4 := strconv.Atoi(op[4])
		ps, ok1 := parsePaths(op[5])
		ul, ok2 := parseList(op[6], ",")
		rnd, e5 := core.UnHex(op[7])
		if e1 != nil || e2 != nil || e3 != nil || e4 != nil || e5 != nil || !ok1 || !ok2 || from < 0 || from >= universe || dest < 0 || dest >= universe {
			return "bad-op"
		}
		rn.annotateCands(ctx, dest)
		msg := &pb.RouteReq{Dest: ids[dest].overlay.Bytes(), Alpha: int32(a), Paths: pbPaths(ps), UType: int32(ut), UList: pbUList(ul)}
		n.str.take()
		withRand(rnd, func() { _ = n.deliver("onRouteReq", from, msg) })
		out := decode(n.self, n.str.take())
		clean := true
		for _, p := range ps {
			if hasDup(p) || contains(p, n.self) {
				clean = false
			}
		}
		rn.dirty = rn.dirty || !clean
		rn.handlerOracle(ctx, out, !rn.dirty, ps, true)
		// forwarding fan-out: at most alpha (message alpha, or NeighborAlpha when <= 0) requests
		lim := a
		if lim <= 0 {
			lim = rn.alpha
		}
		nq := 0
		for _, p := range out {
			if p.kind == "Q" {
				nq++
			}
		}
		if nq > lim {
			ctx.Fail("forward-exceeds-alpha", "%d requests forwarded, alpha %d", nq, lim)
		}
		return packetsStr(out)
	case op[0] == "resp" && len(op) == 6:
		from, e1 := strconv.Atoi(op[1])
		dest, e2 := strconv.Atoi(op[2])
		ut, e4 := strconv.Atoi(op[3])
		ps, ok1 := parsePaths(op[4])
		ul, ok2 := parseList(op[5], ",")
		if e1 != nil || e2 != nil || e4 != nil || !ok1 || !ok2 || from < 0 || from >= universe || dest < 0 || dest >= universe {
			return "bad-op"
		}
		msg := &pb.RouteResp{Dest: ids[dest].overlay.Bytes(), Paths: pbPaths(ps), UType: int32(ut), UList: pbUList(ul)}
		n.str.take()
		_ = n.deliver("onRouteResp", from, msg)
		out := decode(n.self, n.str.take())
		clean := true
		for _, p := range ps {
			if len(p) <= rn.ttl && (hasDup(p) || contains(p, n.self)) {
				clean = false
			}
		}
		rn.dirty = rn.dirty || !clean
		rn.handlerOracle(ctx, out, !rn.dirty, ps, false)
		seen := map[int]bool{}
		for _, p := range out {
			if p.kind == "R" {
				if seen[p.to] {
					ctx.Fail("response-forwarded-twice", "response forwarded twice to %d", p.to)
				}
				seen[p.to] = true
			}
		}
		return packetsStr(out)
	case op[0] == "find" && len(op) == 3:
		dest, e1 := strconv.Atoi(op[1])
		rnd, e2 := core.UnHex(op[2])
		if e1 != nil || e2 != nil || dest < 0 || dest >= universe {
			return "bad-op"
		}
		rn.annotateCands(ctx, dest)
		if dest == n.self {
			_, err := n.svc.FindRoute(context.Background(), ids[dest].overlay, time.Millisecond)
			if err == nil {
				ctx.Fail("find-self-accepted", "FindRoute(self) returned no error")
			}
			return "self"
		}
		n.str.take()
		withRand(rnd, func() { _, _ = n.svc.FindRoute(context.Background(), ids[dest].overlay, time.Millisecond) })
		out := decode(n.self, n.str.take())
		rn.handlerOracle(ctx, out, !rn.dirty, nil, false)
		return packetsStr(out)
	case op[0] == "relay" && len(op) == 6:
		from, e1 := strconv.Atoi(op[2])
		dest, e2 := strconv.Atoi(op[3])
		path, ok := parseList(op[4], ".")
		rnd, e3 := core.UnHex(op[5])
		if (op[1] != "c" && op[1] != "p") || e1 != nil || e2 != nil || e3 != nil || !ok || from < 0 || from >= universe || dest < 0 || dest >= universe {
			return "bad-op"
		}
		rn.annotateCands(ctx, dest)
		msg := &pb.RouteRelayReq{Src: ids[from].overlay.Bytes(), SrcMode: full.Bv.Bytes(), Dest: ids[dest].overlay.Bytes(),
			ProtocolName: []byte("x"), ProtocolVersion: []byte("1"), StreamName: []byte("y"), Paths: itemsOf(path)}
		name := routetab.StreamOnRelayConnChain
		if op[1] == "p" {
			name = routetab.StreamOnRelay
		}
		n.str.take()
		withRand(rnd, func() { _ = n.deliver(name, from, msg) })
		out := decode(n.self, n.str.take())
		if dest == n.self {
			ctx.Annotate("n=-")
			return "local"
		}
		next := -1
		for _, p := range out {
			if p.kind == "C" || p.kind == "P" {
				next = p.to
				got := idxPath(p.relay.Paths)
				want := append(append([]int(nil), path...), n.self)
				if pathStr(got) != pathStr(want) {
					ctx.Fail("relay-path-not-extended", "relayed path %v, expected %v", got, want)
				}
			}
		}
		if next >= 0 && next != dest && (contains(path, next) || next == n.self) {
			ctx.Fail("relay-revisit", "relay for %d with path %v forwarded to %d", dest, path, next)
		}
		if next >= 0 && !contains(n.nbrs, next) {
			ctx.Fail("relay-to-non-neighbor", "relay forwarded to %d which is not connected", next)
		}
		if next < 0 {
			ctx.Annotate("n=-")
			return "next=- finds=" + packetsStr(out)
		}
		ctx.Annotate("n=" + strconv.Itoa(next))
		return fmt.Sprintf("next=%d finds=%s", next, packetsStr(out))
	case op[0] == "relayd" && len(op) == 11:
		// relayd <c|p> <from> <dest> <path> <rnd> <rfrom> <rdest> <rutype> <rpaths> <rulist>: a relay request
		// whose handler has to run a route discovery (no usable next hop); while FindRoute waits, the response
		// `resp <rfrom> <rdest> <rutype> <rpaths> <rulist>` is delivered to onRouteResp; if it is a response for
		// <dest> that is not discarded, FindRoute returns and the handler picks the next hop from what it has
		// learned (second getNextHopRandom of GetNextHopRandomOrFind); otherwise FindRoute gives up.  If no
		// discovery is started (a next hop is known, the target is a neighbour or self, nobody to ask) the
		// response is not delivered.
		from, e1 := strconv.Atoi(op[2])
		dest, e2 := strconv.Atoi(op[3])
		path, ok := parseList(op[4], ".")
		rnd, e3 := core.UnHex(op[5])
		rfrom, e4 := strconv.Atoi(op[6])
		rdest, e6 := strconv.Atoi(op[7])
		rut, e5 := strconv.Atoi(op[8])
		rps, ok1 := parsePaths(op[9])
		rul, ok2 := parseList(op[10], ",")
		if (op[1] != "c" && op[1] != "p") || e1 != nil || e2 != nil || e3 != nil || e4 != nil || e5 != nil || e6 != nil || !ok || !ok1 || !ok2 ||
			from < 0 || from >= universe || dest < 0 || dest >= universe || rfrom < 0 || rfrom >= universe || rdest < 0 || rdest >= universe {
			return "bad-op"
		}
		rn.annotateCands(ctx, dest)
		msg := &pb.RouteRelayReq{Src: ids[from].overlay.Bytes(), SrcMode: full.Bv.Bytes(), Dest: ids[dest].overlay.Bytes(),
			ProtocolName: []byte("x"), ProtocolVersion: []byte("1"), StreamName: []byte("y"), Paths: itemsOf(path)}
		name := routetab.StreamOnRelayConnChain
		if op[1] == "p" {
			name = routetab.StreamOnRelay
		}
		resp := &pb.RouteResp{Dest: ids[rdest].overlay.Bytes(), Paths: pbPaths(rps), UType: int32(rut), UList: pbUList(rul)}
		n.str.take()
		parked := false
		withRand(rnd, func() {
			parked = n.relayRun(name, from, msg, dest, n.expectForward(dest, rn.alpha), func() {
				_ = n.deliver("onRouteResp", rfrom, resp)
			})
		})
		out := decode(n.self, n.str.take())
		if dest == n.self {
			ctx.Annotate("n=-")
			return "local"
		}
		if parked {
			for _, p := range rps {
				if len(p) <= rn.ttl && (hasDup(p) || contains(p, n.self)) {
					rn.dirty = true
				}
			}
		}
		rn.handlerOracle(ctx, out, !rn.dirty, rps, false)
		next := -1
		for _, p := range out {
			if p.kind == "C" || p.kind == "P" {
				next = p.to
				got := idxPath(p.relay.Paths)
				want := append(append([]int(nil), path...), n.self)
				if pathStr(got) != pathStr(want) {
					ctx.Fail("relay-path-not-extended", "relayed path %v, expected %v", got, want)
				}
			}
		}
		if next >= 0 && next != dest && (contains(path, next) || next == n.self) {
			if parked {
				ctx.Fail("relay-revisit/after-discovery", "relay for %d with path %v: after a route discovery the stream is forwarded to %d, which is on its path", dest, path, next)
			} else {
				ctx.Fail("relay-revisit", "relay for %d with path %v forwarded to %d", dest, path, next)
			}
		}
		if next >= 0 && !contains(n.nbrs, next) {
			ctx.Fail("relay-to-non-neighbor", "relay forwarded to %d which is not connected", next)
		}
		d := 0
		if parked {
			d = 1
		}
		if next < 0 {
			ctx.Annotate("n=-")
			return fmt.Sprintf("next=- d=%d finds=%s", d, packetsStr(out))
		}
		ctx.Annotate("n=" + strconv.Itoa(next))
		return fmt.Sprintf("next=%d d=%d finds=%s", next, d, packetsStr(out))
	case op[0] == "pgc" && len(op) == 1:
		n.svc.VerifPendingCalls().GcReqLog(0)
		n.svc.VerifPendingCalls().GcResItems(0)
		return "ok"
	case op[0] == "dump" && len(op) == 1:
		return rn.dump()
	}
	return "bad-op"
}

var _ = protobuf.NewReader
