import Aurora.Model.Kv
/-
Model of /repo/pkg/shed over the leveldb driver (property C19), after the three `fix:` commits
in `index.go` (reverse iteration from a missing `StartFrom`; `SkipStartFromItem` without
`StartFrom`; `Last` seeking past the index-qualified prefix).

One `Kv.Store` holds everything, as in `leveldb/schema.go`:
  key `[0]`            the schema (opaque value),
  key `1 :: name`      a field; a vector element is `1 :: name ++ bigEndian8 i`,
  key `id :: userKey`  an index entry; ids are handed out from 2 upwards (`CreateIndex`).
Index key/value codecs are user functions; the model works on encoded keys and values (the
harness uses identity codecs).  `Item` decoding strips the id byte (`key[1:]`).

A `DB` is the store plus the pending batch.  Reads never look at the batch; `IncInBatch` etc.
read the store and write to the batch, as in the code.
-/
namespace Aurora.Shed
open Aurora.Kv

structure DB where
  store : Store
  batch : List Write
deriving Repr

/-- a fresh database: only the schema key exists -/
def DB.init : DB := { store := [([0], [])], batch := [] }

/-- prefix byte of the i-th created index (`keyPrefixIndexStart = 2`) -/
def indexId (i : Nat) : UInt8 := UInt8.ofNat (2 + i)

/-! ### index point operations (on the store) -/

def ikey (id : UInt8) (k : Bytes) : Bytes := id :: k

def idxGet (s : Store) (id : UInt8) (k : Bytes) : Option Bytes := Kv.get s (ikey id k)
def idxHas (s : Store) (id : UInt8) (k : Bytes) : Bool := Kv.has s (ikey id k)
def idxHasMulti (s : Store) (id : UInt8) (ks : List Bytes) : List Bool := ks.map (idxHas s id)
/-- `Fill`: every key must be present, otherwise the first miss aborts with not-found -/
def idxFill (s : Store) (id : UInt8) (ks : List Bytes) : Option (List Bytes) := ks.mapM (idxGet s id)
def idxPut (s : Store) (id : UInt8) (k v : Bytes) : Store := Kv.put s (ikey id k) v
def idxDelete (s : Store) (id : UInt8) (k : Bytes) : Store := Kv.delete s (ikey id k)

/-! ### iteration -/

structure IterOpts where
  pfx : Bytes            -- `Prefix` (nil = empty)
  start : Option Bytes   -- encoded key of `StartFrom`
  skip : Bool            -- `SkipStartFromItem`
  reverse : Bool         -- `Reverse`
deriving Repr

def totalPrefix (id : UInt8) (o : IterOpts) : Bytes := id :: o.pfx

def startKey (id : UInt8) (o : IterOpts) : Bytes :=
  match o.start with
  | some k => ikey id k
  | none => totalPrefix id o

/-- Cursor positioning of `Index.Iterate` before the loop.  `none`: "invalid prefix" error;
    an invalid cursor: nothing to visit (the early `return it.Error()` paths included). -/
def position (s : Store) (id : UInt8) (o : IterOpts) : Option Cursor :=
  let it := seek s (startKey id o)
  if o.reverse then
    match o.start with
    | none =>
      let it := it.last
      if !it.valid then some it
      else if hasPrefix it.key (totalPrefix id o) then some it
      else
        match bytesIncrement (totalPrefix id o) with
        | none => none
        | some inc =>
          let it := it.seek inc
          if !it.valid then some it else some it.prev
    | some _ =>
      if !it.valid then some it.last
      else if it.key ≠ startKey id o then some it.prev
      else some it
  else some it

/-- the entries the loop `for ; ok; ok = itSeekerFn()` would reach from the cursor -/
def walk (c : Cursor) (rev : Bool) : List Entry := if rev then c.bwdList else c.fwdList

/-- `decodeKeyFunc`: strip the id byte -/
def strip (e : Entry) : Entry := (e.1.tail, e.2)

/-- the items `Index.Iterate` hands to the callback if the callback never stops it -/
def iterItems (s : Store) (id : UInt8) (o : IterOpts) : Option (List Entry) :=
  (position s id o).map fun c =>
    let l := walk c o.reverse
    -- `if options.SkipStartFromItem && options.StartFrom != nil && bytes.Equal(startKey, it.Key())`
    let l := if o.skip && o.start.isSome && c.key == startKey id o then l.tail else l
    -- `itemFromIterator`: a key without the total prefix ends the loop
    (l.takeWhile (fun e => hasPrefix e.1 (totalPrefix id o))).map strip

def iterate (s : Store) (id : UInt8) (o : IterOpts) (cb : Callback) : List Entry × Res :=
  match iterItems s id o with
  | none => ([], .err)
  | some l => drive cb [] l

/-- `itemFromIterator` -/
def itemAt (c : Cursor) (tp : Bytes) : Option Entry :=
  if hasPrefix c.key tp then some (c.key.tail, c.value) else none

def first (s : Store) (id : UInt8) (p : Bytes) : Option Entry :=
  itemAt (seek s (id :: p)) (id :: p)

def last (s : Store) (id : UInt8) (p : Bytes) : Option Entry :=
  let it := seek s [id]
  let it := match bytesIncrement (id :: p) with
    | some nx => (it.seek nx).prev
    | none => it.last
  itemAt it (id :: p)

/-- the counting loop of `Count`/`CountFrom`: while `key[0] == f.prefix[0]` -/
def countLoop (c : Cursor) (id : UInt8) : Nat :=
  (c.fwdList.takeWhile (fun e => e.1.head? == some id)).length

def count (s : Store) (id : UInt8) : Nat := countLoop (seek s [id]) id
def countFrom (s : Store) (id : UInt8) (k : Bytes) : Nat := countLoop (seek s (ikey id k)) id

/-! ### fields and vectors -/

def fieldKey (name : Bytes) : Bytes := 1 :: name

def be8 (n : Nat) : Bytes :=
  [7, 6, 5, 4, 3, 2, 1, 0].map fun i => UInt8.ofNat (n / 256 ^ i % 256)

def fromBe (b : Bytes) : Nat := b.foldl (fun acc x => acc * 256 + x.toNat) 0

def vecKey (name : Bytes) (i : Nat) : Bytes := fieldKey name ++ be8 i

def two64 : Nat := 18446744073709551616

/-- `Uint64Field.Get` / `Uint64Vector.Get` on key `k`: missing = 0 -/
def u64Get (s : Store) (k : Bytes) : Nat :=
  match Kv.get s k with
  | some b => fromBe b
  | none => 0

def u64Enc (n : Nat) : Bytes := be8 (n % two64)
def incVal (n : Nat) : Nat := (n + 1) % two64     -- `val++` on a uint64
def decVal (n : Nat) : Nat := if n ≠ 0 then n - 1 else n

def strGet (s : Store) (k : Bytes) : Bytes := (Kv.get s k).getD []

/-! ### database-level operations -/

def DB.write (db : DB) (w : Write) : DB := { db with store := applyWrite db.store w }
def DB.stage (db : DB) (w : Write) : DB := { db with batch := db.batch ++ [w] }
def DB.commit (db : DB) : DB := { store := Kv.commit db.store db.batch, batch := [] }
def DB.drop (db : DB) : DB := { db with batch := [] }
/-- close + open: the store persists, the pending batch is gone -/
def DB.reopen (db : DB) : DB := { db with batch := [] }

end Aurora.Shed
