import Aurora.Model.LockSetProg
/-! The lock-set theorem: if every body passes the static check, no interleaving reaches a race. -/
namespace Aurora.LockSetProg

def Inv (L : Nat → Nat) (s : State) : Prop :=
  ∀ t, okFrom L (s.thr t).held (s.thr t).rest = true ∧ ∀ l ∈ (s.thr t).held, s.holder l = some t

theorem inv_init (L : Nat → Nat) : Inv L init := by
  intro t; simp [init, okFrom]

theorem inv_step (L : Nat → Nat) (prog : List Body) (hp : ∀ b ∈ prog, bodyOk L b = true)
    (s s' : State) (h : Inv L s) (st : Step prog s s') : Inv L s' := by
  cases st with
  | lock t l r hr hfree =>
    intro u
    by_cases hu : u = t
    · subst hu
      have h0 := h u
      simp only [State.setThr, if_true]
      rw [hr] at h0
      refine ⟨by simpa [okFrom] using h0.1, ?_⟩
      intro l' hl'
      by_cases e : l' = l
      · simp [e]
      · simp only [e, if_false]
        have : l' ∈ (s.thr u).held := by simpa [e] using hl'
        exact h0.2 l' this
    · have h0 := h u
      simp only [State.setThr, hu, if_false]
      refine ⟨h0.1, ?_⟩
      intro l' hl'
      have := h0.2 l' hl'
      have e : l' ≠ l := by intro e; rw [e, hfree] at this; cases this
      simp [e, this]
  | unlock t l r hr =>
    have ht := h t
    rw [hr] at ht
    simp only [okFrom, Bool.and_eq_true, List.contains_iff_mem] at ht
    have hheld : s.holder l = some t := ht.2 l (by simpa using ht.1.1)
    intro u
    by_cases hu : u = t
    · subst hu
      simp only [State.setThr, if_true]
      refine ⟨ht.1.2, ?_⟩
      intro l' hl'
      simp only [List.mem_filter, decide_eq_true_eq] at hl'
      simp only [hl'.2, if_false]
      exact ht.2 l' hl'.1
    · have h0 := h u
      simp only [State.setThr, hu, if_false]
      refine ⟨h0.1, ?_⟩
      intro l' hl'
      have := h0.2 l' hl'
      have e : l' ≠ l := by
        intro e; rw [e, hheld] at this
        exact hu (Option.some.inj this).symm
      simp [e, this]
  | access t loc w r hr =>
    intro u
    by_cases hu : u = t
    · subst hu
      have h0 := h u
      rw [hr] at h0
      simp only [okFrom, Bool.and_eq_true] at h0
      simp only [State.setThr, if_true]
      exact ⟨h0.1.2, h0.2⟩
    · simpa [State.setThr, hu] using h u
  | call t b hr hb =>
    intro u
    by_cases hu : u = t
    · subst hu
      have h0 := h u
      rw [hr] at h0
      simp only [okFrom, List.isEmpty_iff] at h0
      simp only [State.setThr, if_true]
      refine ⟨?_, h0.2⟩
      rw [h0.1]; exact hp b hb
    · simpa [State.setThr, hu] using h u

theorem inv_reachable (L : Nat → Nat) (prog : List Body) (hp : ∀ b ∈ prog, bodyOk L b = true)
    (s : State) (hr : Reachable prog s) : Inv L s := by
  induction hr with
  | init => exact inv_init L
  | step s s' _ st ih => exact inv_step L prog hp s s' ih st

/-- Lock-set theorem: every access to `loc` holds `L loc` in every body ⇒ no reachable state of any
    interleaving of any number of threads has two concurrent conflicting accesses. -/
theorem lockset_race_free (L : Nat → Nat) (prog : List Body) (hp : ∀ b ∈ prog, bodyOk L b = true)
    (s : State) (hr : Reachable prog s) : ¬ Race s := by
  rintro ⟨t1, t2, loc, w1, w2, r1, r2, hne, h1, h2, _⟩
  have hi := inv_reachable L prog hp s hr
  have a1 := hi t1
  have a2 := hi t2
  rw [h1] at a1; rw [h2] at a2
  simp only [okFrom, Bool.and_eq_true, List.contains_iff_mem] at a1 a2
  have e1 := a1.2 (L loc) (by simpa using a1.1.1)
  have e2 := a2.2 (L loc) (by simpa using a2.1.1)
  rw [e1] at e2
  exact hne (Option.some.inj e2)

end Aurora.LockSetProg
