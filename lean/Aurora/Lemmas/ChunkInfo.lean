import Aurora.Model.ChunkInfo
/-!
Helper lemmas for C17 (`Aurora/Props/C17.lean`): lookups in the availability table after
`putNeighbor` / `markPresent` / `delFile`, bit-vector facts, and the abstract event machine over
which `no_overclaim` is an invariant.
-/
namespace Aurora.ChunkInfo
open Aurora.ChunkPyramid

theorem lookup_map_set {β : Type} (m : List (Nat × β)) (k k' : Nat) (v : β) :
    (m.map (fun e => if e.1 = k then (k, v) else e)).lookup k' =
      if k' = k then (m.lookup k).map (fun _ => v) else m.lookup k' := by
  induction m with
  | nil => by_cases h : k' = k <;> simp [h]
  | cons e m ih =>
    obtain ⟨x, w⟩ := e
    by_cases hx : x = k
    · subst hx
      by_cases hk : k' = x
      · subst hk; simp [List.lookup]
      · have : (k' == x) = false := by simpa using hk
        simp only [List.map_cons, if_true, List.lookup, this, hk, if_false]
        rw [ih]; simp [hk]
    · by_cases hk : k' = x
      · subst hk
        have : ¬ k' = k := hx
        simp [List.lookup, hx, this]
      · have h1 : (k' == x) = false := by simpa using hk
        have h2 : (k == x) = false := by simpa using fun h => hx h.symm
        simp only [List.map_cons, hx, if_false, List.lookup, h1, h2]
        exact ih

theorem lookup_append_new {β : Type} (m : List (Nat × β)) (k k' : Nat) (v : β) (hn : m.lookup k = none) :
    (m ++ [(k, v)]).lookup k' = if k' = k then some v else m.lookup k' := by
  induction m with
  | nil =>
    by_cases h : k' = k
    · simp [List.lookup, h]
    · have : (k' == k) = false := by simpa using h
      simp [List.lookup, h, this]
  | cons e m ih =>
    obtain ⟨x, w⟩ := e
    by_cases hkx : k = x
    · subst hkx; simp [List.lookup] at hn
    · have hkx' : (k == x) = false := by simpa using hkx
      simp only [List.lookup, hkx'] at hn
      by_cases hk : k' = x
      · subst hk
        have : ¬ k' = k := fun h => hkx h.symm
        simp [List.lookup, this]
      · have h1 : (k' == x) = false := by simpa using hk
        simp only [List.cons_append, List.lookup, h1]
        exact ih hn

theorem lookup_upd {β : Type} (m : List (Nat × β)) (k k' : Nat) (v : β) :
    (upd m k v).lookup k' = if k' = k then some v else m.lookup k' := by
  unfold upd
  cases hl : m.lookup k with
  | some w =>
    simp only [Option.isSome_some, if_true]
    rw [lookup_map_set, hl]; simp
  | none =>
    simp only [Option.isSome_none, Bool.false_eq_true, if_false]
    exact lookup_append_new m k k' v hl

theorem lookup_del {β : Type} (m : List (Nat × β)) (k k' : Nat) :
    (del m k).lookup k' = if k' = k then none else m.lookup k' := by
  unfold del
  induction m with
  | nil => by_cases h : k' = k <;> simp [h]
  | cons e m ih =>
    obtain ⟨x, w⟩ := e
    by_cases hx : x = k
    · subst hx
      by_cases hk : k' = x
      · subst hk; simp [List.filter, ih]
      · have : (k' == x) = false := by simpa using hk
        simp [List.filter, List.lookup, this, hk, ih]
    · have hx' : (x != k) = true := by simpa using hx
      by_cases hk : k' = x
      · subst hk
        simp [List.filter, hx', List.lookup, hx]
      · have h1 : (k' == x) = false := by simpa using hk
        simp only [List.filter, hx', List.lookup, h1, ih]

/-! ### bits -/

theorem getBit_zeros (n i : Nat) : getBit (zeros n) i = false := by
  unfold getBit zeros
  by_cases h : i < n
  · simp [List.getD, List.getElem?_replicate, h]
  · simp [List.getD, List.getElem?_replicate, h]

theorem getBit_setBit (b : Bits) (i j : Nat) :
    getBit (setBit b i) j = true → (j = i ∧ i < b.length) ∨ getBit b j = true := by
  unfold getBit setBit
  intro h
  by_cases hji : j = i
  · subst hji
    by_cases hl : j < b.length
    · exact Or.inl ⟨rfl, hl⟩
    · right
      have : b.set j true = b := List.set_eq_of_length_le (by omega)
      rw [this] at h; exact h
  · right
    simp only [List.getD, List.getElem?_set_ne (Ne.symm hji)] at h ⊢
    exact h

theorem idxOf_spec (c : Addr) (l : List Addr) (i : Nat) (h : idxOf c l = some i) : l[i]? = some c := by
  induction l generalizing i with
  | nil => simp [idxOf] at h
  | cons a l ih =>
    unfold idxOf at h
    by_cases hac : a = c
    · simp [hac] at h; subst h; simp [hac]
    · simp only [hac, if_false, Option.map_eq_some_iff] at h
      obtain ⟨j, hj, hji⟩ := h
      subst hji
      simpa using ih j hj

/-! ### the availability record of one root for the node itself -/

/-- set bits point at stored data chunks -/
def NoOverclaim (stored : Addr → Bool) (f : FileS) (b : Bits) : Prop :=
  ∀ i, getBit b i = true → ∃ c, f.cids[i]? = some c ∧ stored c = true

theorem noOverclaim_zeros (stored : Addr → Bool) (f : FileS) (n : Nat) : NoOverclaim stored f (zeros n) := by
  intro i h; rw [getBit_zeros] at h; exact absurd h (by simp)

theorem noOverclaim_mark (stored : Addr → Bool) (f : FileS) (b : Bits) (cid : Addr)
    (hb : NoOverclaim stored f b) (hst : stored cid = true) :
    NoOverclaim stored f (match f.cidPos cid with | some i => setBit b i | none => b) := by
  cases hp : f.cidPos cid with
  | none => simpa using hb
  | some i =>
    simp only
    intro j hj
    rcases getBit_setBit b i j hj with ⟨hji, _⟩ | h
    · subst hji
      exact ⟨cid, idxOf_spec cid f.cids j hp, hst⟩
    · exact hb j h

theorem noOverclaim_mono (s1 s2 : Addr → Bool) (f : FileS) (b : Bits)
    (h : NoOverclaim s1 f b) (hm : ∀ c ∈ f.cids, s1 c = true → s2 c = true) : NoOverclaim s2 f b := by
  intro i hi
  obtain ⟨c, hc, hs⟩ := h i hi
  exact ⟨c, hc, hm c (List.mem_of_getElem? hc) hs⟩

/-! ### table lookups after the updates -/

def selfBits (t : Tables) (root : Addr) : Option Bits := t.pres root self

theorem selfBits_ins (t : Tables) (root r : Addr) (b : Bits) :
    selfBits { t with presence := upd t.presence root (upd ((t.presence.lookup root).getD []) self b) } r =
      if r = root then some b else selfBits t r := by
  unfold selfBits Tables.pres
  simp only [lookup_upd]
  by_cases h : r = root
  · simp [h, lookup_upd]
  · simp [h]

theorem selfBits_ins_other (t : Tables) (root r : Addr) (o : Ov) (b : Bits) (ho : o ≠ self) :
    selfBits { t with presence := upd t.presence root (upd ((t.presence.lookup root).getD []) o b) } r =
      selfBits t r := by
  unfold selfBits Tables.pres
  simp only [lookup_upd]
  by_cases h : r = root
  · subst h
    have : ¬ self = o := fun e => ho e.symm
    simp only [if_true, Option.bind_some, lookup_upd, this, if_false]
    cases hl : t.presence.lookup r with
    | none => simp
    | some m => simp
  · simp [h]

theorem selfBits_putNeighbor_other (s : State) (root r : Addr) (o : Ov) (n : Nat) (ho : o ≠ self) :
    selfBits (putNeighbor s root o n).mem r = selfBits s.mem r ∧
    selfBits (putNeighbor s root o n).disk r = selfBits s.disk r := by
  unfold putNeighbor
  cases h : s.mem.pres root o with
  | some _ => exact ⟨rfl, rfl⟩
  | none =>
    simp only [onBoth]
    exact ⟨selfBits_ins_other _ _ _ _ _ ho, selfBits_ins_other _ _ _ _ _ ho⟩

theorem selfBits_markPresent_other (s : State) (f : FileS) (r : Addr) (o : Ov) (cid : Addr) (ho : o ≠ self) :
    selfBits (markPresent s f o cid).mem r = selfBits s.mem r ∧
    selfBits (markPresent s f o cid).disk r = selfBits s.disk r := by
  unfold markPresent
  cases h : s.mem.pres f.root o with
  | none => exact ⟨rfl, rfl⟩
  | some _ =>
    simp only [onBoth]
    exact ⟨selfBits_ins_other _ _ _ _ _ ho, selfBits_ins_other _ _ _ _ _ ho⟩

theorem selfBits_delFile (t : Tables) (root r : Addr) :
    selfBits { presence := del t.presence root, discover := del t.discover root, source := del t.source root } r =
      if r = root then none else selfBits t r := by
  unfold selfBits Tables.pres
  simp only [lookup_del]
  by_cases h : r = root
  · simp [h]
  · simp [h]

end Aurora.ChunkInfo
