// Package c39: correspondence + oracle for pkg/bitvector (property C39).
package c39

import (
	"fmt"
	"strconv"

	"github.com/gauss-project/aurorafs/pkg/bitvector"

	"verifharness/core"
)

type prop struct{}

func init() { core.Register(prop{}) }

func (prop) ID() string { return "C39" }
func (prop) Rule() string {
	return "cases: constructor (New or NewFromBytes with backing ceil(len/8)+{0..3} bytes, or an invalid length) followed by 4-40 random ops " +
		"(get/set/unset at indices dense around byte and length boundaries, setbytes/unsetbytes with right and wrong mask lengths, equals, dump); " +
		"a fill-all-then-equals epilogue in 1/3 of cases. Non-trivial: a vector was constructed and the case has >=1 mutation and >=1 observation; distinct by op-list hash."
}

func (prop) Gen(r *core.Rand, tier string) []core.Case {
	n := 400
	if tier == "thorough" {
		n = 20000
	}
	var cs []core.Case
	// fixed regression cases first
	cs = append(cs,
		core.Case{ID: "fix-long-backing", NT: true, Ops: []string{"frombytes ff00 8", "equals", "unset 3", "equals", "set 3", "equals", "dump"}},
		core.Case{ID: "fix-partial-long", NT: true, Ops: []string{"frombytes ff0300 10", "equals", "unset 9", "equals", "dump"}},
		core.Case{ID: "fix-errors", NT: false, Ops: []string{"new 0", "new -3", "frombytes ff 9", "frombytes - 1", "get 0"}},
	)
	for i := 0; i < n; i++ {
		c := core.Case{ID: fmt.Sprintf("g%d", i)}
		var l int
		switch r.Intn(10) {
		case 0:
			l = r.Range(1, 16)
		case 1:
			l = 8 * r.Range(1, 64)
		case 2:
			l = 8*r.Range(0, 63) + r.Range(1, 7)
		default:
			l = r.Range(1, 512)
		}
		need := (l + 7) / 8
		blen := need
		made := true
		switch r.Intn(12) {
		case 0:
			c.Ops = append(c.Ops, fmt.Sprintf("new %d", l))
		case 1: // invalid constructor
			made = false
			if r.Bool() {
				c.Ops = append(c.Ops, fmt.Sprintf("new %d", -r.Intn(3)))
			} else {
				blen = need - 1
				c.Ops = append(c.Ops, fmt.Sprintf("frombytes %s %d", core.Hex(r.Bytes(blen)), l))
			}
		default:
			blen = need + r.Intn(4)
			b := r.Bytes(blen)
			if r.Chance(30) { // mostly-set vectors make Equals interesting
				for k := range b {
					b[k] = 0xff
				}
				if r.Bool() && blen > need {
					b[blen-1] = byte(r.U64())
				}
			}
			c.Ops = append(c.Ops, fmt.Sprintf("frombytes %s %d", core.Hex(b), l))
		}
		idx := func() int {
			switch r.Intn(6) {
			case 0:
				return l - 1
			case 1:
				return r.Intn(l)/8*8 + r.Pick([]int{0, 7})
			case 2: // beyond len but maybe inside backing, or beyond backing (panic)
				return l + r.Intn(40)
			default:
				return r.Intn(l)
			}
		}
		nops := r.Range(4, 40)
		mut, obs := 0, 0
		for k := 0; k < nops; k++ {
			switch r.Intn(10) {
			case 0, 1:
				c.Ops = append(c.Ops, "get "+strconv.Itoa(idx()))
				obs++
			case 2, 3:
				c.Ops = append(c.Ops, "set "+strconv.Itoa(idx()))
				mut++
			case 4:
				c.Ops = append(c.Ops, "unset "+strconv.Itoa(idx()))
				mut++
			case 5, 6:
				ml := blen
				if r.Chance(15) {
					ml = blen + r.Range(-1, 1)
					if ml < 0 {
						ml = 0
					}
				}
				op := "setbytes "
				if r.Bool() {
					op = "unsetbytes "
				}
				c.Ops = append(c.Ops, op+core.Hex(r.Bytes(ml)))
				mut++
			case 7, 8:
				c.Ops = append(c.Ops, "equals")
				obs++
			default:
				c.Ops = append(c.Ops, "dump")
				obs++
			}
		}
		if r.Intn(3) == 0 && made {
			// fill every bit < len, one way or the other, then test Equals; then clear one
			if r.Bool() {
				m := make([]byte, blen)
				for k := range m {
					m[k] = 0xff
				}
				c.Ops = append(c.Ops, "setbytes "+core.Hex(m))
			} else {
				for k := 0; k < l; k++ {
					c.Ops = append(c.Ops, "set "+strconv.Itoa(k))
				}
			}
			c.Ops = append(c.Ops, "equals", "unset "+strconv.Itoa(r.Intn(l)), "equals", "dump")
			mut++
			obs++
		}
		c.NT = made && mut > 0 && obs > 0
		cs = append(cs, c)
	}
	return cs
}

type runner struct {
	bv  *bitvector.BitVector
	ref []bool // model-free oracle: the boolean array of length Len()
}

func (prop) New() core.Runner { return &runner{} }
func (*runner) Close()        {}

func (rn *runner) rebuildRef() {
	rn.ref = make([]bool, rn.bv.Len())
	for i := range rn.ref {
		rn.ref[i] = rn.bv.Get(i)
	}
}

func (rn *runner) Step(ctx *core.Ctx, op []string) string {
	switch {
	case len(op) == 2 && op[0] == "new":
		l, err := strconv.Atoi(op[1])
		if err != nil {
			return "bad-op"
		}
		bv, e := bitvector.New(l)
		if e != nil {
			rn.bv = nil
			if l > 0 {
				ctx.Fail("new-rejects-positive", "New(%d) failed", l)
			}
			return "err"
		}
		rn.bv = bv
		rn.rebuildRef()
		if bv.Len() != l {
			ctx.Fail("new-len", "New(%d).Len()=%d", l, bv.Len())
		}
		for i, v := range rn.ref {
			if v {
				ctx.Fail("new-nonzero", "New(%d) bit %d set", l, i)
			}
		}
		return "ok"
	case len(op) == 3 && op[0] == "frombytes":
		b, err := core.UnHex(op[1])
		l, err2 := strconv.Atoi(op[2])
		if err != nil || err2 != nil {
			return "bad-op"
		}
		bv, e := bitvector.NewFromBytes(b, l)
		if e != nil {
			rn.bv = nil
			if l > 0 && len(b)*8 >= l {
				ctx.Fail("frombytes-rejects-valid", "NewFromBytes(%d bytes, %d) failed", len(b), l)
			}
			return "err"
		}
		if l <= 0 || len(b)*8 < l {
			ctx.Fail("frombytes-accepts-invalid", "NewFromBytes(%d bytes, %d) accepted", len(b), l)
		}
		rn.bv = bv
		rn.rebuildRef()
		return "ok"
	}
	if rn.bv == nil {
		return "novec"
	}
	bv := rn.bv
	switch {
	case len(op) == 2 && (op[0] == "get" || op[0] == "set" || op[0] == "unset"):
		i, err := strconv.Atoi(op[1])
		if err != nil || i < 0 {
			return "bad-op"
		}
		switch op[0] {
		case "get":
			v := bv.Get(i)
			if i < len(rn.ref) && v != rn.ref[i] {
				ctx.Fail("get", "Get(%d)=%v, boolean array says %v", i, v, rn.ref[i])
			}
			return core.B(v)
		case "set":
			bv.Set(i)
			if i < len(rn.ref) {
				rn.ref[i] = true
			}
		default:
			bv.Unset(i)
			if i < len(rn.ref) {
				rn.ref[i] = false
			}
		}
		rn.checkRef(ctx, op[0])
		return "ok"
	case len(op) == 2 && (op[0] == "setbytes" || op[0] == "unsetbytes"):
		m, err := core.UnHex(op[1])
		if err != nil {
			return "bad-op"
		}
		var e error
		if op[0] == "setbytes" {
			e = bv.SetBytes(m)
		} else {
			e = bv.UnsetBytes(m)
		}
		if e != nil {
			rn.checkRef(ctx, op[0]+"-err")
			return "err"
		}
		for i := range rn.ref {
			if m[i/8]&(1<<uint(i%8)) != 0 {
				rn.ref[i] = op[0] == "setbytes"
			}
		}
		rn.checkRef(ctx, op[0])
		return "ok"
	case len(op) == 1 && op[0] == "equals":
		v := bv.Equals()
		all := true
		for _, x := range rn.ref {
			all = all && x
		}
		if v != all {
			clause := "equals-exact-backing"
			if len(bv.Bytes())*8-bv.Len() >= 8 {
				clause = "equals-long-backing"
			}
			ctx.Fail(clause, "Equals()=%v but all-%d-bits-set=%v (backing %d bytes)", v, bv.Len(), all, len(bv.Bytes()))
		}
		return core.B(v)
	case len(op) == 1 && op[0] == "dump":
		// round-trip: decode the encoding again and compare every bit
		cp := append([]byte(nil), bv.Bytes()...)
		bv2, e := bitvector.NewFromBytes(cp, bv.Len())
		if e != nil {
			ctx.Fail("roundtrip", "NewFromBytes(Bytes(), Len()) failed: %v", e)
		} else {
			for i := range rn.ref {
				if bv2.Get(i) != rn.ref[i] {
					ctx.Fail("roundtrip", "bit %d differs after Bytes()/NewFromBytes", i)
					break
				}
			}
		}
		return fmt.Sprintf("%d %s", bv.Len(), core.Hex(bv.Bytes()))
	}
	return "bad-op"
}

func (rn *runner) checkRef(ctx *core.Ctx, what string) {
	for i := range rn.ref {
		if rn.bv.Get(i) != rn.ref[i] {
			ctx.Fail("array-"+what, "after %s bit %d = %v, boolean array says %v", what, i, rn.bv.Get(i), rn.ref[i])
			return
		}
	}
	if rn.bv.Len() != len(rn.ref) {
		ctx.Fail("len-changed", "Len() changed to %d", rn.bv.Len())
	}
}
