// Package c36: correspondence + oracle for pkg/keystore/file and pkg/keystore/mem (property C36).
package c36

import (
	"crypto/ecdsa"
	"encoding/json"
	"errors"
	"fmt"
	"os"
	"strconv"
	"strings"
	"sync"

	"github.com/gauss-project/aurorafs/pkg/crypto"
	"github.com/gauss-project/aurorafs/pkg/keystore"
	filekeystore "github.com/gauss-project/aurorafs/pkg/keystore/file"
	memkeystore "github.com/gauss-project/aurorafs/pkg/keystore/mem"

	"verifharness/core"
)

type prop struct{}

func init() { core.Register(prop{}) }

func (prop) ID() string { return "C36" }
func (prop) Rule() string {
	return "cases: one file keystore (fresh temp dir) and one mem keystore per case; 2-3 names and 2-3 passwords drawn from pools that include the empty string, unicode, spaces, a sub-directory name, " +
		"a NUL-containing and a 1 kB password; sequences of 6-12 ops: key (create / get with the right / a wrong password), exists, export to a slot (right/wrong password, missing name), " +
		"import from a slot into the same or another name (same/different password), import of a mutated export (mac, ciphertext, iv, salt, version, truncated), import of garbage, importpk; the mem keystore gets the same ops " +
		"(its export/import panic: known finding). scrypt costs ~70 ms per encryption/decryption, so the quick tier runs ~25 cases (~150 keystore calls). " +
		"Fixed regression cases first (create/get/wrong-get/export/import round trip on both keystores). Non-trivial: a key was created and read again or exported; distinct by op-list hash."
}

var names = []string{"", "a", "swarm", "ключ", "名前", "a b", "x.key", "dir/sub", "key🔑", "Upper", "upper"}
var passwords = []string{"", "pw", "пароль", "p w", "\x00nul", "密码🔒", strings.Repeat("long-", 205), "pw ", "PW"}

func hx(s string) string { return core.Hex([]byte(s)) }

func (prop) Gen(r *core.Rand, tier string) []core.Case {
	n := 14
	if tier == "thorough" {
		n = 180
	}
	var cs []core.Case
	// fixed: the whole life cycle once per keystore
	for _, kd := range []string{"f", "m"} {
		a, b, p, q := hx("alice"), hx("bob"), hx("secret"), hx("other")
		cs = append(cs, core.Case{ID: "fix-lifecycle-" + kd, NT: true, Ops: []string{
			"exists " + kd + " " + a, "key " + kd + " " + a + " " + p, "exists " + kd + " " + a, "key " + kd + " " + a + " " + p, "key " + kd + " " + a + " " + q,
			"key " + kd + " " + b + " " + p, "export " + kd + " " + a + " " + p + " 0", "export " + kd + " " + a + " " + q + " 1", "import " + kd + " " + b + " " + p + " 0",
			"key " + kd + " " + b + " " + p, "key " + kd + " " + a + " " + p, "import " + kd + " " + b + " " + q + " 0", "key " + kd + " " + b + " " + p}})
	}
	// concurrent get-or-create on the in-memory keystore (fresh names, then an existing one, then a wrong password)
	cs = append(cs, core.Case{ID: "fix-par-key", NT: true, Ops: []string{"parkey m " + hx("p1") + " " + hx("pw") + " 8", "key m " + hx("p1") + " " + hx("pw"),
		"parkey m " + hx("p1") + " " + hx("pw") + " 8", "parkey m " + hx("p2") + " " + hx("") + " 16", "parkey m " + hx("p1") + " " + hx("other") + " 4", "parkey m " + hx("p3") + " " + hx("x") + " 8"}})
	cs = append(cs, core.Case{ID: "fix-empty-and-unicode", NT: true, Ops: []string{
		"key f - -", "key f - -", "key f - " + hx("x"), "key m - -", "key m - -", "key m - " + hx("x"),
		"key f " + hx("ключ") + " " + hx("пароль"), "key f " + hx("ключ") + " " + hx("пароль"), "key f " + hx("ключ") + " " + hx("пароль "),
		"export f - - 0", "key f " + hx("n2") + " -", "import f " + hx("n2") + " - 0", "key f " + hx("n2") + " -"}})
	// private keys whose scalar has leading zero bytes (about 1 key in 256 has one): they must be stored, read back,
	// exported and re-imported like any other — an encoder that drops the leading zeros writes 31 / 30 bytes
	for k, pk := range []string{"00" + strings.Repeat("7b", 31), "0000" + strings.Repeat("c4", 30), strings.Repeat("00", 31) + "05"} {
		nm, p := hx(fmt.Sprintf("short%d", k)), hx("pw")
		cs = append(cs, core.Case{ID: fmt.Sprintf("fix-short-scalar-%d", k), NT: true, Ops: []string{
			"key f " + nm + " " + p, "importpk f " + nm + " " + p + " " + pk, "key f " + nm + " " + p, "export f " + nm + " " + p + " 0", "key f " + hx("copy") + " " + p,
			"import f " + hx("copy") + " " + p + " 0", "key f " + hx("copy") + " " + p, "key f " + nm + " " + hx("wrong")}})
	}
	for i := 0; i < n; i++ {
		c := core.Case{ID: fmt.Sprintf("g%d", i)}
		kd := "f"
		if r.Chance(25) {
			kd = "m"
		}
		var ns, ps []string
		for k := 0; k < 3; k++ {
			ns = append(ns, names[r.Intn(len(names))])
			ps = append(ps, passwords[r.Intn(len(passwords))])
		}
		if r.Chance(50) {
			ps[1] = ps[0] // same password on two names makes imports succeed
		}
		nm := func() string { return hx(ns[r.Intn(len(ns))]) }
		pw := func() string { return hx(ps[r.Intn(len(ps))]) }
		created, reread := false, false
		// always start by creating one key
		c.Ops = append(c.Ops, "key "+kd+" "+hx(ns[0])+" "+hx(ps[0]))
		created = true
		for k := r.Range(5, 11); k > 0; k-- {
			switch r.Intn(14) {
			case 0, 1, 2, 3:
				c.Ops = append(c.Ops, "key "+kd+" "+nm()+" "+pw())
				reread = true
			case 4:
				c.Ops = append(c.Ops, "exists "+kd+" "+nm())
				if kd == "m" {
					c.Ops = append(c.Ops, fmt.Sprintf("parkey m %s %s %d", nm(), pw(), r.Range(4, 16)))
				}
			case 5, 6:
				c.Ops = append(c.Ops, fmt.Sprintf("export %s %s %s %d", kd, nm(), pw(), r.Intn(2)))
				reread = true
			case 7, 8:
				c.Ops = append(c.Ops, fmt.Sprintf("import %s %s %s %d", kd, nm(), pw(), r.Intn(2)))
			case 9:
				kinds := []string{"mac", "ct", "iv", "salt", "ver", "trunc", "cipher", "none"}
				c.Ops = append(c.Ops, fmt.Sprintf("importmut %s %s %s %d %s", kd, nm(), pw(), r.Intn(2), kinds[r.Intn(len(kinds))]))
			case 10:
				raws := []string{"", "{}", "not json", `{"version":3}`, `{"version":3,"crypto":{"cipher":"aes-128-ctr","kdf":"scrypt","mac":"zz"}}`, "\x00\x01"}
				c.Ops = append(c.Ops, fmt.Sprintf("importraw %s %s %s %s", kd, nm(), pw(), hx(raws[r.Intn(len(raws))])))
			case 11:
				c.Ops = append(c.Ops, fmt.Sprintf("importpk %s %s %s %s", kd, nm(), pw(), core.Hex(append([]byte{1}, r.Bytes(31)...))))
			default:
				// get with the first name/password again (the "asking again" clause)
				c.Ops = append(c.Ops, "key "+kd+" "+hx(ns[0])+" "+hx(ps[0]))
				reread = true
			}
		}
		c.Ops = append(c.Ops, "key "+kd+" "+hx(ns[0])+" "+hx(ps[0]))
		c.NT = created && reread
		cs = append(cs, c)
	}
	return cs
}

// ---- runner

type shadow struct {
	pw string
	d  string // hex of the private scalar
}

type slot struct {
	blob []byte
	pw   string
	d    string
}

type runner struct {
	dir   string
	file  keystore.Service
	mem   keystore.Service
	sh    map[string]map[string]*shadow // kind -> name -> what the property says is stored
	slots map[int]*slot
}

func (prop) New() core.Runner {
	dir, err := os.MkdirTemp("", "verif-c36-")
	if err != nil {
		panic(err)
	}
	return &runner{dir: dir, file: filekeystore.New(dir), mem: memkeystore.New(),
		sh: map[string]map[string]*shadow{"f": {}, "m": {}}, slots: map[int]*slot{}}
}
func (rn *runner) Close() { _ = os.RemoveAll(rn.dir) }

func scalar(k *ecdsa.PrivateKey) string { return core.Hex(crypto.EncodeSecp256k1PrivateKey(k)) }

func class(err error) string {
	if errors.Is(err, keystore.ErrInvalidPassword) {
		return "invalid"
	}
	return "err"
}

// guarded: a panic inside the keystore is reported to the oracle before the framework prints `panic`
func guarded(ctx *core.Ctx, clause string, f func()) {
	defer func() {
		if e := recover(); e != nil {
			ctx.Fail(clause, "keystore call panicked: %v", e)
			panic(e)
		}
	}()
	f()
}

func mutate(blob []byte, kind string) []byte {
	var m map[string]interface{}
	if json.Unmarshal(blob, &m) != nil {
		return blob
	}
	cr, _ := m["crypto"].(map[string]interface{})
	flip := func(s string) string {
		if s == "" {
			return "00"
		}
		c := s[len(s)-1]
		if c == '0' {
			c = '1'
		} else {
			c = '0'
		}
		return s[:len(s)-1] + string(c)
	}
	switch kind {
	case "mac":
		cr["mac"] = flip(cr["mac"].(string))
	case "ct":
		cr["ciphertext"] = flip(cr["ciphertext"].(string))
	case "iv":
		cp := cr["cipherparams"].(map[string]interface{})
		cp["iv"] = flip(cp["iv"].(string))
	case "salt":
		kp := cr["kdfparams"].(map[string]interface{})
		kp["salt"] = flip(kp["salt"].(string))
	case "ver":
		m["version"] = 4
	case "cipher":
		cr["cipher"] = "aes-256-ctr"
	case "trunc":
		return blob[:len(blob)/2]
	}
	out, _ := json.Marshal(m)
	return out
}

func (rn *runner) Step(ctx *core.Ctx, op []string) string {
	if len(op) < 3 || (op[1] != "f" && op[1] != "m") {
		return "bad-op"
	}
	kd := op[1]
	svc := rn.file
	if kd == "m" {
		svc = rn.mem
	}
	unhex := func(s string) (string, bool) { b, e := core.UnHex(s); return string(b), e == nil }
	name, ok := unhex(op[2])
	if !ok {
		return "bad-op"
	}
	sh := rn.sh[kd]
	// refresh: after a successful import the property's view of what is stored under the name
	refresh := func(pw string, want string, clause string) {
		k, created, err := svc.Key(name, pw)
		if err != nil || created {
			ctx.Fail("import-lost-key", "after a successful import Key(%q) gives created=%v err=%v", name, created, err)
			delete(sh, name)
			return
		}
		if want != "" && scalar(k) != want {
			ctx.Fail(clause, "imported key differs from the exported one")
		}
		sh[name] = &shadow{pw: pw, d: scalar(k)}
	}
	switch {
	case op[0] == "key" && len(op) == 4:
		pw, ok := unhex(op[3])
		if !ok {
			return "bad-op"
		}
		k, created, err := svc.Key(name, pw)
		s := sh[name]
		if err != nil {
			cl := class(err)
			switch {
			case s == nil:
				ctx.Fail("create-failed", "Key(%q) on a name without key failed: %v", name, err)
			case s.pw == pw:
				ctx.Fail("right-password-rejected", "Key(%q) with the stored password failed: %v", name, err)
			case cl != "invalid":
				ctx.Fail("wrong-password-other-error", "Key(%q) with a different password failed with %v, not ErrInvalidPassword", name, err)
			}
			return cl
		}
		ctx.Annotate("k=" + scalar(k))
		switch {
		case s == nil && !created:
			ctx.Fail("phantom-key", "Key(%q) returned an existing key for a name never created", name)
		case s != nil && created:
			ctx.Fail("second-get-created", "Key(%q) created a new key although one is stored", name)
		case s != nil && s.pw != pw:
			ctx.Fail("wrong-password-accepted", "Key(%q) accepted a different password", name)
		case s != nil && s.d != scalar(k):
			ctx.Fail("get-different-key", "Key(%q) returned a different key than stored", name)
		}
		if s == nil || created {
			sh[name] = &shadow{pw: pw, d: scalar(k)}
		}
		return fmt.Sprintf("ok %s created=%s", scalar(k), core.B(created))
	case op[0] == "parkey" && len(op) == 5:
		// k concurrent Key(name, pw) calls on the in-memory keystore: get-or-create must be atomic
		pw, ok := unhex(op[3])
		k, e := strconv.Atoi(op[4])
		if !ok || e != nil || k < 2 || k > 64 || kd != "m" {
			return "bad-op"
		}
		type res struct {
			d       string
			created bool
			err     error
		}
		out := make([]res, k)
		var wg sync.WaitGroup
		start := make(chan struct{})
		for i := 0; i < k; i++ {
			wg.Add(1)
			go func(i int) {
				defer wg.Done()
				<-start
				key, c, err := svc.Key(name, pw)
				if err == nil {
					out[i] = res{scalar(key), c, nil}
				} else {
					out[i] = res{err: err}
				}
			}(i)
		}
		close(start)
		wg.Wait()
		s := sh[name]
		final, fc, ferr := svc.Key(name, pw)
		nc := 0
		for i, r := range out {
			if r.err != nil {
				if s == nil || s.pw == pw {
					ctx.Fail("par-key-error", "concurrent Key(%q) #%d failed: %v", name, i, r.err)
				}
				continue
			}
			if r.created {
				nc++
			}
			if ferr == nil && r.d != scalar(final) {
				ctx.Fail("par-key-differs", "concurrent caller %d was handed a key that differs from the stored one", i)
			}
		}
		if s != nil && s.pw != pw {
			if ferr == nil {
				ctx.Fail("wrong-password-accepted", "Key(%q) accepted a different password", name)
			}
			return class(ferr)
		}
		if ferr != nil || fc {
			ctx.Fail("par-key-lost", "after concurrent Key calls Key(%q) gives created=%v err=%v", name, fc, ferr)
			return "err"
		}
		want := 0
		if s == nil {
			want = 1
		}
		if nc != want {
			ctx.Fail("par-key-created-count", "%d callers were told that they created the key, want %d", nc, want)
		}
		if s != nil && s.d != scalar(final) {
			ctx.Fail("get-different-key", "Key(%q) returned a different key than stored", name)
		}
		ctx.Annotate("k=" + scalar(final))
		sh[name] = &shadow{pw: pw, d: scalar(final)}
		return fmt.Sprintf("ok %s created=%d", scalar(final), nc)
	case op[0] == "exists" && len(op) == 3:
		e, err := svc.Exists(name)
		if err != nil {
			return "err"
		}
		if e != (sh[name] != nil) {
			ctx.Fail("exists-wrong", "Exists(%q)=%v", name, e)
		}
		return core.B(e)
	case op[0] == "export" && len(op) == 5:
		pw, ok1 := unhex(op[3])
		sl, err2 := strconv.Atoi(op[4])
		if !ok1 || err2 != nil {
			return "bad-op"
		}
		var blob []byte
		var err error
		guarded(ctx, "mem-export-unimplemented", func() { blob, err = svc.ExportKey(name, pw) })
		s := sh[name]
		if err != nil {
			if s != nil && s.pw == pw {
				ctx.Fail("export-failed", "ExportKey(%q) with the stored password failed: %v", name, err)
			}
			if s != nil && s.pw != pw && class(err) != "invalid" {
				ctx.Fail("export-wrong-password-other-error", "ExportKey(%q) wrong password: %v", name, err)
			}
			return class(err)
		}
		if s == nil || s.pw != pw {
			ctx.Fail("export-wrong-password-accepted", "ExportKey(%q) succeeded without the stored password", name)
			return "ok"
		}
		rn.slots[sl] = &slot{blob: blob, pw: pw, d: s.d}
		return "ok"
	case (op[0] == "import" && len(op) == 5) || (op[0] == "importmut" && len(op) == 6) || (op[0] == "importraw" && len(op) == 5):
		pw, ok1 := unhex(op[3])
		if !ok1 {
			return "bad-op"
		}
		var blob []byte
		want := ""
		if op[0] == "importraw" {
			b, ok := unhex(op[4])
			if !ok {
				return "bad-op"
			}
			blob = []byte(b)
		} else {
			sl, err := strconv.Atoi(op[4])
			if err != nil {
				return "bad-op"
			}
			s := rn.slots[sl]
			if s == nil {
				return "noslot"
			}
			blob = s.blob
			if op[0] == "importmut" {
				blob = mutate(append([]byte(nil), s.blob...), op[5])
			} else {
				want = s.d
			}
		}
		if op[0] != "import" && kd == "f" {
			// what the real decryptKey makes of this blob under pw: observed through a scratch
			// keystore that holds a key under pw (the only exported entry point to decryptKey)
			ctx.Annotate("dec=" + rn.probe(pw, blob))
		}
		var err error
		guarded(ctx, "mem-import-unimplemented", func() { err = svc.ImportKey(name, pw, blob) })
		s := sh[name]
		if err != nil {
			// a failed import must leave the stored key alone: checked by the later key ops against the shadow
			return class(err)
		}
		if s == nil || s.pw != pw {
			ctx.Fail("import-wrong-password-accepted", "ImportKey(%q) succeeded without the stored password", name)
		}
		refresh(pw, want, "export-import-different-key")
		return "ok"
	case op[0] == "importpk" && len(op) == 5:
		pw, ok1 := unhex(op[3])
		kb, err2 := core.UnHex(op[4])
		if !ok1 || err2 != nil || len(kb) != 32 {
			return "bad-op"
		}
		pk, e := crypto.DecodeSecp256k1PrivateKey(kb)
		if e != nil {
			return "bad-op"
		}
		var err error
		guarded(ctx, "mem-importpk-unimplemented", func() { err = svc.ImportPrivateKey(name, pw, pk) })
		if err != nil {
			return class(err)
		}
		if s := sh[name]; s == nil || s.pw != pw {
			ctx.Fail("import-wrong-password-accepted", "ImportPrivateKey(%q) succeeded without the stored password", name)
		}
		refresh(pw, core.Hex(kb), "importpk-different-key")
		return "ok"
	}
	return "bad-op"
}

// probe: outcome class of the real decryptKey(blob, pw), observed via ImportKey on a scratch file
// keystore whose key "probe" is stored under pw (so the first read succeeds and the result is the blob's).
func (rn *runner) probe(pw string, blob []byte) string {
	dir, err := os.MkdirTemp("", "verif-c36-probe-")
	if err != nil {
		return "bad"
	}
	defer os.RemoveAll(dir)
	ks := filekeystore.New(dir)
	if _, _, err := ks.Key("probe", pw); err != nil {
		return "bad"
	}
	if err := ks.ImportKey("probe", pw, blob); err != nil {
		if errors.Is(err, keystore.ErrInvalidPassword) {
			return "invalid"
		}
		return "bad"
	}
	k, _, err := ks.Key("probe", pw)
	if err != nil {
		return "bad"
	}
	return "ok:" + scalar(k)
}
