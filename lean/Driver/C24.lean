import Driver.KadShared
/-! Driver for C24: the shared Kad model driver (op lines: harness/kadh/kadh.go). -/
namespace Driver.C24
def handler : Driver.Handler := Driver.KadShared.handler
end Driver.C24
