// Package c33: correspondence + oracle for "traffic totals survive restarts": concurrent
// PutRetrieveTraffic / PutTransferTraffic calls on the real traffic.Service whose state-store Puts
// are parked by settle.GateStore and released in the order the case dictates; restart = abort the
// in-flight writes, new service on the same store, Init().
package c33

import (
	"context"
	"fmt"
	"math/big"
	"runtime"
	"strconv"
	"strings"
	"time"

	chequePkg "github.com/gauss-project/aurorafs/pkg/settlement/traffic/cheque"

	"verifharness/core"
	"verifharness/settle"
)

type prop struct{}

func init() { core.Register(prop{}) }

const (
	nPeers = 6
	nAddrs = 8
)

func (prop) ID() string { return "C33" }
func (prop) Rule() string {
	return "cases: 2-3 peers registered; 8-40 ops: start <thread> <peer> r|t <amount> launches PutRetrieveTraffic/PutTransferTraffic in a goroutine and " +
		"reports whether it reached the state-store Put (value it is about to persist), blocks on the peer lock, or returned; release <thread> lets a parked " +
		"Put through (in any order the generator picks: FIFO, LIFO, random; the second starter of a peer is released first in 1/3 of the cases); " +
		"restart aborts in-flight writes and rebuilds the service on the same store (+Init); get/pay/lastsent observe memory, store and cheques; " +
		"hs <peer> <cum> is the settlement handshake of a registered peer presenting a cheque of ours for <cum> (really signed; lower, equal or higher than the recorded last cheque; oracle last-cheque-lowered); " +
		"refresh <peer> r|t <amount> (quiescent node only) runs TrafficInit with its read of that peer's persisted total parked after the read, starts a " +
		"PutRetrieveTraffic/PutTransferTraffic meanwhile, then lets the refresh go on (the update either waits for the peer lock or slips in between). " +
		"Fixed regression cases fix-stale-persist* (T1 reads 5, T2 updates to 8 and persists, T1 persists last) first. " +
		"Non-trivial: >=2 updates of one peer overlapping in time and a restart or a quiescent observation afterwards."
}

func (prop) Gen(r *core.Rand, tier string) []core.Case {
	n := 100
	if tier == "thorough" {
		n = 800
	}
	cs := []core.Case{
		{ID: "fix-stale-persist", NT: true, Ops: []string{"reg 0 1", "start 0 0 r 5", "start 1 0 r 3", "release 1", "release 0", "release 1", "get 0", "restart", "get 0"}},
		{ID: "fix-stale-persist-transfer", NT: true, Ops: []string{"reg 0 1", "start 0 0 t 5", "start 1 0 t 3", "release 1", "release 0", "release 1", "get 0", "restart", "get 0"}},
		{ID: "fix-stale-persist-then-pay", NT: true, Ops: []string{"reg 0 1", "start 0 0 r 5", "start 1 0 r 3", "release 1", "release 0", "release 1", "pay 0", "restart", "get 0", "start 2 0 r 4", "release 2", "pay 0", "lastsent 0"}},
		{ID: "fix-refresh-overlaps-update", NT: true, Ops: []string{"reg 0 1", "start 0 0 t 100", "release 0", "refresh 0 t 5", "get 0", "start 1 0 t 1", "release 1", "get 0", "restart", "get 0"}},
		{ID: "fix-refresh-overlaps-update-retrieve", NT: true, Ops: []string{"reg 0 1", "start 0 0 r 100", "release 0", "pay 0", "refresh 0 r 5", "get 0", "start 1 0 r 1", "release 1", "get 0", "pay 0", "restart", "get 0", "lastsent 0"}},
		// handshake: the peer presents an older cheque (must not replace the record), the same one, a newer one
		// (a cheque whose record was lost); then restart and pay again
		{ID: "fix-handshake-stale-cheque", NT: true, Ops: []string{"reg 0 1", "start 0 0 r 100", "release 0", "pay 0", "start 1 0 r 150", "release 1", "pay 0", "lastsent 0",
			"hs 0 100", "lastsent 0", "get 0", "hs 0 250", "lastsent 0", "restart", "lastsent 0", "get 0", "start 2 0 r 10", "release 2", "pay 0", "lastsent 0",
			"hs 0 300", "lastsent 0", "get 0", "pay 0", "restart", "get 0", "lastsent 0", "start 3 0 r 5", "release 3", "pay 0", "hs 1 5", "hs 7 5"}},
		// known finding: a peer known only by an adopted last-sent cheque is not restored at start-up
		{ID: "fix-known-cheque-only-peer", NT: true, Ops: []string{"reg 0 1", "hs 0 300", "lastsent 0", "get 0", "restart", "get 0", "lastsent 0", "start 0 0 r 5", "release 0", "pay 0", "lastsent 0"}},
		{ID: "fix-crash-midway", NT: true, Ops: []string{"reg 0 1", "start 0 0 r 5", "release 0", "start 1 0 r 3", "restart", "get 0", "start 2 0 r 1", "release 2", "get 0"}},
	}
	for i := 0; i < n; i++ {
		c := core.Case{ID: fmt.Sprintf("g%d", i)}
		np := r.Range(2, 3)
		for p := 0; p < np; p++ {
			c.Ops = append(c.Ops, fmt.Sprintf("reg %d %d", p, p+1))
		}
		var live []int // started, not yet released (generator's view)
		next := 0
		overlap, after := false, false
		perPeer := map[int]int{}
		nops := r.Range(8, 40)
		for k := 0; k < nops; k++ {
			switch x := r.Intn(14); {
			case x < 5 && next < 16:
				p := r.Intn(np)
				if r.Chance(3) {
					p = 4
				}
				d := "r"
				if r.Chance(30) {
					d = "t"
				}
				c.Ops = append(c.Ops, fmt.Sprintf("start %d %d %s %d", next, p, d, r.Range(1, 30)))
				live = append(live, next)
				perPeer[p]++
				if perPeer[p] >= 2 {
					overlap = true
				}
				next++
			case x < 9 && len(live) > 0:
				j := 0
				switch r.Intn(3) {
				case 0:
					j = len(live) - 1
				case 1:
					j = r.Intn(len(live))
				}
				c.Ops = append(c.Ops, fmt.Sprintf("release %d", live[j]))
				if r.Chance(70) { // a blocked thread answers notparked and stays live: keep it sometimes
					live = append(live[:j], live[j+1:]...)
				}
			case x == 9:
				c.Ops = append(c.Ops, "restart")
				live = nil
				perPeer = map[int]int{}
				if overlap {
					after = true
				}
			case x == 10 && r.Chance(50):
				// a refresh needs a quiescent node: drain first
				for _, t := range live {
					c.Ops = append(c.Ops, fmt.Sprintf("release %d", t), fmt.Sprintf("release %d", t))
				}
				live = nil
				d := "r"
				if r.Chance(50) {
					d = "t"
				}
				pp := r.Intn(np)
				c.Ops = append(c.Ops, fmt.Sprintf("refresh %d %s %d", pp, d, r.Range(1, 30)), "get "+strconv.Itoa(pp))
			case x == 10:
				c.Ops = append(c.Ops, "pay "+strconv.Itoa(r.Intn(np)))
			case x == 11 && r.Chance(50):
				pp := r.Intn(np)
				c.Ops = append(c.Ops, fmt.Sprintf("hs %d %d", pp, r.Pick([]int{0, 1, r.Range(1, 30), r.Range(1, 60), r.Range(20, 200)})), "lastsent "+strconv.Itoa(pp))
			case x == 11:
				c.Ops = append(c.Ops, "lastsent "+strconv.Itoa(r.Intn(np)))
			default:
				c.Ops = append(c.Ops, "get "+strconv.Itoa(r.Intn(np)))
			}
		}
		// drain: release everything twice (blocked threads park after the first round), observe, restart, observe
		for round := 0; round < 3; round++ {
			for t := 0; t < next; t++ {
				c.Ops = append(c.Ops, fmt.Sprintf("release %d", t))
			}
		}
		for p := 0; p < np; p++ {
			c.Ops = append(c.Ops, "get "+strconv.Itoa(p))
		}
		c.Ops = append(c.Ops, "restart")
		for p := 0; p < np; p++ {
			c.Ops = append(c.Ops, "get "+strconv.Itoa(p), "pay "+strconv.Itoa(p))
		}
		c.NT = overlap || after
		cs = append(cs, c)
	}
	return cs
}

type thread struct {
	id     int
	peer   int
	dir    string
	amt    int64
	gid    string
	done   chan error
	parked *settle.Parked
	state  string // parked | blocked | done
}

type runner struct {
	env     *settle.Env
	reg     map[int]int
	threads map[int]*thread // active (not yet returned)
	// oracle
	delivered   map[int]*big.Int // addr -> last delivered cumulative payout
	adopted     map[int]*big.Int // addr -> cheque adopted at a handshake since the last restart (raises the owed total in memory)
	lostCheque  map[int]bool     // addr -> a restart found a last sent cheque but no persisted total (the peer is not restored: known finding)
	completedR  map[int]*big.Int // addr -> highest total whose persist completed (retrieve)
	completedT  map[int]*big.Int
	updatedR    map[int]bool // addr -> an update completed since the last restart
	updatedT    map[int]bool
}

func (prop) New() core.Runner {
	env := settle.NewEnv()
	env.Chain.SetBalance(settle.Self(), new(big.Int).Lsh(big.NewInt(1), 60))
	_ = env.Svc.Init()
	env.Gate.GatePrefixes("retrieved_traffic_", "transferred_traffic_")
	return &runner{env: env, reg: map[int]int{}, threads: map[int]*thread{}, delivered: map[int]*big.Int{},
		completedR: map[int]*big.Int{}, completedT: map[int]*big.Int{}, updatedR: map[int]bool{}, updatedT: map[int]bool{}}
}

func (rn *runner) Close() {
	rn.abortAll()
	rn.env.Close()
}

func gid() string {
	b := make([]byte, 64)
	b = b[:runtime.Stack(b, false)]
	f := strings.Fields(string(b))
	if len(f) >= 2 {
		return f[1]
	}
	return "?"
}

// lockWait reports whether goroutine g is waiting in sync.Mutex.Lock called directly from
// PutRetrieveTraffic / PutTransferTraffic (i.e. on the per-peer Traffic lock).
func lockWait(g string) bool {
	return settle.LockWait(g, ".PutRetrieveTraffic", ".PutTransferTraffic")
}

// settle waits until thread t is parked in Put, blocked on the peer lock, or has returned.
func (rn *runner) settleThread(t *thread, allowBlocked bool) {
	deadline := time.Now().Add(20 * time.Second)
	blockedSeen := 0
	for i := 0; ; i++ {
		select {
		case err := <-t.done:
			t.state = "done"
			if err == chequePkg.ErrNoCheque {
				t.state = "done nocheque"
			}
			return
		default:
		}
		for _, pk := range rn.env.Gate.ParkedList() {
			if pk.Tag == t.gid {
				t.parked = pk
				t.state = "parked"
				return
			}
		}
		if allowBlocked && i > 20 && i%10 == 0 && rn.holderParked(t) {
			if lockWait(t.gid) {
				blockedSeen++
				if blockedSeen >= 2 {
					t.state = "blocked"
					return
				}
			} else {
				blockedSeen = 0
			}
		}
		if time.Now().After(deadline) {
			t.state = "stuck"
			return
		}
		if i < 50 {
			runtime.Gosched()
		} else {
			time.Sleep(100 * time.Microsecond)
		}
	}
}

// holderParked: some other update of the same peer is parked inside Put — the only situation in
// which waiting for the peer lock is not transient (Publish* goroutines hold it for microseconds).
func (rn *runner) holderParked(t *thread) bool {
	a, ok := rn.reg[t.peer]
	if !ok {
		return false
	}
	for _, u := range rn.threads {
		if u != t && u.state == "parked" && rn.reg[u.peer] == a {
			return true
		}
	}
	return false
}

func (rn *runner) abortAll() {
	for round := 0; round < 64 && len(rn.threads) > 0; round++ {
		rn.env.Gate.AbortAll()
		for id, t := range rn.threads {
			if t.state == "parked" {
				<-t.done
				delete(rn.threads, id)
			}
		}
		for id, t := range rn.threads {
			t.parked = nil
			rn.settleThread(t, false)
			if strings.HasPrefix(t.state, "done") {
				delete(rn.threads, id)
			}
		}
	}
}

func (rn *runner) busy(a int) (active, waiter bool) {
	for _, t := range rn.threads {
		if rn.reg[t.peer] == a {
			active = true
			if t.state == "blocked" {
				waiter = true
			}
		}
	}
	return
}

func get(m map[int]*big.Int, k int) *big.Int {
	if v, ok := m[k]; ok {
		return v
	}
	return big.NewInt(0)
}

func (rn *runner) totals(p int) (memR, memT, stR, stT *big.Int, ok bool) {
	a, known := rn.reg[p]
	if !known {
		return nil, nil, nil, nil, false
	}
	var err error
	if memR, err = rn.env.Svc.TotalReceived(settle.Peer(p)); err != nil {
		return nil, nil, nil, nil, false
	}
	memT, _ = rn.env.Svc.TotalSent(settle.Peer(p))
	stR, _ = rn.env.CS.GetRetrieveTraffic(settle.Addr(a))
	stT, _ = rn.env.CS.GetTransferTraffic(settle.Addr(a))
	return memR, memT, stR, stT, true
}

// quiescentCheck: with no update in flight, a total that was updated since the last restart must
// be persisted with exactly its in-memory value.
func (rn *runner) quiescentCheck(ctx *core.Ctx) {
	if len(rn.threads) != 0 {
		return
	}
	for p, a := range rn.reg {
		memR, memT, stR, stT, ok := rn.totals(p)
		if !ok {
			continue
		}
		// what a restart restores for the owed total is max(persisted total, last sent cheque): a handshake that adopts a
		// higher cheque raises the total in memory and the persisted cheque, not the persisted total
		plain := stR
		if c, err := rn.env.Svc.LastSentCheque(settle.Peer(p)); err == nil && c.CumulativePayout.Cmp(stR) > 0 {
			stR = c.CumulativePayout
		}
		// (a peer hit by the known finding restart-below-before.cheque-only-peer restarts at 0 with its old cheque still
		// persisted: there the plain persisted total is what memory holds until the next refresh)
		if rn.updatedR[a] && stR.Cmp(memR) != 0 && !(rn.lostCheque[a] && plain.Cmp(memR) == 0) {
			ctx.Fail("stale-persist-retrieve", "peer %d quiescent: restorable retrieve total (max of persisted total and last sent cheque) %s != total in memory %s", p, stR, memR)
			rn.updatedR[a] = false
		}
		if rn.updatedT[a] && stT.Cmp(memT) != 0 {
			ctx.Fail("stale-persist-transfer", "peer %d quiescent: persisted transfer total %s != total in memory %s", p, stT, memT)
			rn.updatedT[a] = false
		}
	}
}

// refresh runs TrafficInit (the 24h refresh / TrafficInit API call) on a quiescent node with the
// read of peer p's persisted total (direction dir) parked AFTER the read was done, launches an update
// of that total meanwhile, and only then lets the refresh continue.  If the refresh reads the total
// under the peer lock the update waits (upd=blocked) and is applied afterwards; if it reads before
// taking the lock the update slips in (upd=done) and the refresh goes on with a stale total.
func (rn *runner) refresh(ctx *core.Ctx, p, a int, dir string, amt int64) string {
	memR0, memT0, _, _, ok := rn.totals(p)
	if !ok {
		return "err"
	}
	gate := rn.env.Gate
	key := fmt.Sprintf("retrieved_traffic__%x", settle.Addr(a))
	if dir == "t" {
		key = fmt.Sprintf("transferred_traffic__%x", settle.Addr(a))
	}
	gate.GateReads(key)
	svc := rn.env.Svc
	rdone := make(chan error, 1)
	go func() { rdone <- svc.TrafficInit() }()
	var rd *settle.Parked
	refreshed := false
	deadline := time.Now().Add(20 * time.Second)
	for i := 0; rd == nil && !refreshed; i++ {
		select {
		case <-rdone:
			refreshed = true
			continue
		default:
		}
		for _, pk := range gate.ParkedList() {
			if pk.Read && pk.Key == key {
				rd = pk
			}
		}
		if time.Now().After(deadline) {
			gate.GateReads()
			return "stuck"
		}
		if i < 50 {
			runtime.Gosched()
		} else {
			time.Sleep(100 * time.Microsecond)
		}
	}
	// the update
	t := &thread{id: -1, peer: p, dir: dir, amt: amt, done: make(chan error, 1)}
	ready := make(chan struct{})
	go func() {
		t.gid = gid()
		close(ready)
		var err error
		if dir == "r" {
			err = svc.PutRetrieveTraffic(settle.Peer(p), big.NewInt(amt))
		} else {
			err = svc.PutTransferTraffic(settle.Peer(p), big.NewInt(amt))
		}
		t.done <- err
	}()
	<-ready
	mode := "seq"
	finish := func() bool { // the update is parked in its own Put: let it through and wait for its return
		if t.state != "parked" {
			return false
		}
		gate.Release(t.parked, nil)
		return <-t.done == nil
	}
	okUpd := false
	if rd == nil {
		rn.settleThread(t, false)
		okUpd = finish()
	} else {
		// blocked on the peer lock (held by the refresh), or past it and parked in its Put
		blockedSeen := 0
		for i := 0; ; i++ {
			for _, pk := range gate.ParkedList() {
				if !pk.Read && pk.Tag == t.gid {
					t.parked, t.state = pk, "parked"
				}
			}
			if t.state == "parked" {
				mode = "done"
				break
			}
			if i > 20 && i%10 == 0 {
				if lockWait(t.gid) {
					blockedSeen++
					if blockedSeen >= 2 {
						mode = "blocked"
						break
					}
				} else {
					blockedSeen = 0
				}
			}
			if time.Now().After(deadline) {
				mode = "stuck"
				break
			}
			if i < 50 {
				runtime.Gosched()
			} else {
				time.Sleep(100 * time.Microsecond)
			}
		}
		if mode == "done" {
			okUpd = finish()
		}
		gate.GateReads()
		gate.Release(rd, nil)
		<-rdone
		if mode == "blocked" {
			rn.settleThread(t, false)
			okUpd = finish()
		}
	}
	gate.GateReads()
	if mode == "stuck" {
		gate.AbortAll()
		return "stuck"
	}
	if !okUpd {
		return "err"
	}
	// ---- oracle: the update returned nil, so its total is acknowledged
	ack := new(big.Int).Add(memR0, big.NewInt(amt))
	cm, upd, what := rn.completedR, rn.updatedR, "retrieve"
	if dir == "t" {
		ack = new(big.Int).Add(memT0, big.NewInt(amt))
		cm, upd, what = rn.completedT, rn.updatedT, "transfer"
	}
	if ack.Cmp(get(cm, a)) > 0 {
		cm[a] = ack
	}
	upd[a] = true
	memR, memT, stR, stT, ok := rn.totals(p)
	if !ok {
		return "err"
	}
	mem, st := memR, stR
	if dir == "t" {
		mem, st = memT, stT
	}
	if mem.Cmp(ack) < 0 {
		ctx.Fail("refresh-forgets-"+what, "peer %d: %s total in memory is %s after a refresh that overlapped an update, %s was acknowledged", p, what, mem, ack)
	}
	if st.Cmp(ack) < 0 {
		ctx.Fail("refresh-unpersists-"+what, "peer %d: persisted %s total is %s after a refresh that overlapped an update, %s was acknowledged", p, what, st, ack)
	}
	return fmt.Sprintf("ok upd=%s mem=%s/%s st=%s/%s", mode, memR, memT, stR, stT)
}

func (rn *runner) Step(ctx *core.Ctx, op []string) string {
	atoi := func(s string) (int, bool) {
		v, err := strconv.Atoi(s)
		return v, err == nil && v >= 0
	}
	out := rn.do(ctx, op, atoi)
	if out != "bad-op" {
		rn.quiescentCheck(ctx)
	}
	return out
}

func (rn *runner) do(ctx *core.Ctx, op []string, atoi func(string) (int, bool)) string {
	switch {
	case len(op) == 3 && op[0] == "reg":
		p, ok1 := atoi(op[1])
		a, ok2 := atoi(op[2])
		if !ok1 || !ok2 || p >= nPeers || a >= nAddrs {
			return "bad-op"
		}
		if err := rn.env.Book.PutBeneficiary(settle.Peer(p), settle.Addr(a)); err != nil {
			return "err"
		}
		rn.reg[p] = a
		return "ok"
	case len(op) == 5 && op[0] == "start":
		id, ok1 := atoi(op[1])
		p, ok2 := atoi(op[2])
		amt, ok3 := atoi(op[4])
		if !ok1 || !ok2 || !ok3 || id >= 16 || p >= nPeers || (op[3] != "r" && op[3] != "t") {
			return "bad-op"
		}
		if _, dup := rn.threads[id]; dup {
			return "busy"
		}
		if a, known := rn.reg[p]; known {
			if _, waiter := rn.busy(a); waiter {
				return "busy"
			}
		}
		t := &thread{id: id, peer: p, dir: op[3], amt: int64(amt), done: make(chan error, 1)}
		ready := make(chan struct{})
		svc := rn.env.Svc
		go func() {
			t.gid = gid()
			close(ready)
			var err error
			if t.dir == "r" {
				err = svc.PutRetrieveTraffic(settle.Peer(p), big.NewInt(t.amt))
			} else {
				err = svc.PutTransferTraffic(settle.Peer(p), big.NewInt(t.amt))
			}
			t.done <- err
		}()
		<-ready
		rn.settleThread(t, true)
		switch t.state {
		case "parked":
			rn.threads[id] = t
			return "parked " + t.parked.Value
		case "blocked":
			rn.threads[id] = t
			return "blocked"
		}
		return t.state
	case len(op) == 2 && op[0] == "release":
		id, ok := atoi(op[1])
		if !ok {
			return "bad-op"
		}
		t, live := rn.threads[id]
		if !live || t.state != "parked" {
			return "notparked"
		}
		a := rn.reg[t.peer]
		v, _ := new(big.Int).SetString(t.parked.Value, 10)
		rn.env.Gate.Release(t.parked, nil)
		if err := <-t.done; err != nil {
			return "err"
		}
		delete(rn.threads, id)
		// the update has returned: its total is durable from now on
		cm := rn.completedR
		if t.dir == "t" {
			cm = rn.completedT
			rn.updatedT[a] = true
		} else {
			rn.updatedR[a] = true
		}
		if v != nil && v.Cmp(get(cm, a)) > 0 {
			cm[a] = v
		}
		// a goroutine that was waiting for the peer lock now proceeds to its own Put
		for _, u := range rn.threads {
			if u.state == "blocked" && rn.reg[u.peer] == a {
				rn.settleThread(u, false)
				if u.state == "parked" {
					return fmt.Sprintf("ok woke=%d:%s", u.id, u.parked.Value)
				}
				return "ok woke=" + strconv.Itoa(u.id) + ":" + u.state
			}
		}
		return "ok"
	case len(op) == 4 && op[0] == "refresh":
		p, ok1 := atoi(op[1])
		amt, ok2 := atoi(op[3])
		if !ok1 || !ok2 || p >= nPeers || (op[2] != "r" && op[2] != "t") {
			return "bad-op"
		}
		if len(rn.threads) != 0 {
			return "busy"
		}
		a, known := rn.reg[p]
		if !known {
			return "nocheque"
		}
		return rn.refresh(ctx, p, a, op[2], int64(amt))
	case len(op) == 1 && op[0] == "restart":
		quiescent := len(rn.threads) == 0
		type tot struct{ r, t *big.Int }
		before := map[int]tot{}
		hadTotals := map[int]bool{}
		for p, a := range rn.reg {
			var v big.Int
			e1 := rn.env.Raw.Get(fmt.Sprintf("retrieved_traffic__%x", settle.Addr(a)), &v)
			e2 := rn.env.Raw.Get(fmt.Sprintf("transferred_traffic__%x", settle.Addr(a)), &v)
			hadTotals[p] = e1 == nil || e2 == nil
		}
		if quiescent {
			for p := range rn.reg {
				if memR, memT, _, _, ok := rn.totals(p); ok {
					before[p] = tot{memR, memT}
				}
			}
		}
		rn.abortAll()
		rn.updatedR, rn.updatedT = map[int]bool{}, map[int]bool{}
		rn.adopted = map[int]*big.Int{}
		if rn.lostCheque == nil {
			rn.lostCheque = map[int]bool{}
		}
		for p, a := range rn.reg {
			if _, err := rn.env.Svc.LastSentCheque(settle.Peer(p)); err == nil && !hadTotals[p] {
				rn.lostCheque[a] = true
			}
		}
		rn.env.Restart()
		if err := rn.env.Svc.Init(); err != nil {
			return "err"
		}
		for p, a := range rn.reg {
			memR, memT, _, _, ok := rn.totals(p)
			if !ok {
				ctx.Fail("restart-forgets-peer", "peer %d unknown after restart", p)
				continue
			}
			if memR.Cmp(get(rn.completedR, a)) < 0 {
				ctx.Fail("restart-forgets-retrieve", "peer %d: restored retrieve total %s < %s persisted by an update that had returned", p, memR, get(rn.completedR, a))
			}
			if memT.Cmp(get(rn.completedT, a)) < 0 {
				ctx.Fail("restart-forgets-transfer", "peer %d: restored transfer total %s < %s persisted by an update that had returned", p, memT, get(rn.completedT, a))
			}
			if b, ok := before[p]; ok && quiescent {
				if memR.Cmp(b.r) < 0 || memT.Cmp(b.t) < 0 {
					clause := "restart-below-before"
					if !hadTotals[p] {
						// the peer had no persisted traffic total at all: its totals came from a cheque adopted at handshake
						clause = "restart-below-before.cheque-only-peer"
					}
					ctx.Fail(clause, "peer %d: totals %s/%s before a quiescent restart, %s/%s after", p, b.r, b.t, memR, memT)
				}
			}
			if l, err := rn.env.Svc.LastSentCheque(settle.Peer(p)); err == nil {
				if d, ok := rn.delivered[a]; ok && l.CumulativePayout.Cmp(d) < 0 {
					ctx.Fail("restart-forgets-cheque", "peer %d: last sent cheque %s < delivered %s", p, l.CumulativePayout, d)
				}
			}
		}
		return "ok"
	case len(op) == 2 && op[0] == "get":
		p, ok := atoi(op[1])
		if !ok || p >= nPeers {
			return "bad-op"
		}
		if a, known := rn.reg[p]; known {
			if active, _ := rn.busy(a); active {
				return "busy" // the totals are read under the peer lock, which an in-flight update may hold
			}
		}
		memR, memT, stR, stT, known := rn.totals(p)
		if !known {
			return "nocheque"
		}
		return fmt.Sprintf("mem=%s/%s st=%s/%s", memR, memT, stR, stT)
	case len(op) == 2 && op[0] == "pay":
		p, ok := atoi(op[1])
		if !ok || p >= nPeers {
			return "bad-op"
		}
		a, known := rn.reg[p]
		if !known {
			return "unknown"
		}
		if active, _ := rn.busy(a); active {
			return "busy"
		}
		rn.env.Proto.Take()
		err := rn.env.Svc.Pay(context.Background(), settle.Peer(p), big.NewInt(1))
		em := rn.env.Proto.Take()
		if err != nil {
			return "err"
		}
		if len(em) == 0 {
			return "below"
		}
		cum := em[0].Cheque.CumulativePayout
		if d, ok := rn.delivered[a]; ok && cum.Cmp(d) <= 0 {
			clause := "repay"
			if rn.lostCheque[a] {
				clause = "repay.cheque-only-peer" // consequence of restart-below-before.cheque-only-peer
			}
			ctx.Fail(clause, "peer %d: new cheque cumulative payout %s <= already delivered %s", p, cum, d)
		}
		rn.delivered[a] = new(big.Int).Set(cum)
		return "ok " + cum.String()
	case len(op) == 3 && op[0] == "hs":
		// the settlement handshake of a registered peer that presents the cheque it holds from us (cumulative payout
		// op[2], really signed with the node's key): a higher one replaces our record, a lower or equal one must not
		p, ok := atoi(op[1])
		cum, ok2 := atoi(op[2])
		if !ok || !ok2 || p >= nPeers {
			return "bad-op"
		}
		a, known := rn.reg[p]
		if !known {
			return "unknown"
		}
		if active, _ := rn.busy(a); active {
			return "busy"
		}
		before := big.NewInt(0)
		if c, err := rn.env.Svc.LastSentCheque(settle.Peer(p)); err == nil {
			before = c.CumulativePayout
		}
		sc, err := settle.SignCheque(settle.Self(), settle.Addr(a), big.NewInt(int64(cum)), 0)
		if err != nil {
			return "err"
		}
		if err := rn.env.Svc.Handshake(settle.Peer(p), settle.Addr(a), *sc); err != nil {
			return "err"
		}
		after := big.NewInt(0)
		if c, err := rn.env.Svc.LastSentCheque(settle.Peer(p)); err == nil {
			after = c.CumulativePayout
		}
		if after.Cmp(before) < 0 {
			ctx.Fail("last-cheque-lowered", "peer %d: handshake with a cheque for %d lowered the last sent cheque from %s to %s", p, cum, before, after)
		}
		if after.Cmp(before) > 0 {
			if rn.adopted == nil {
				rn.adopted = map[int]*big.Int{}
			}
			rn.adopted[a] = after
		}
		if d, ok := rn.delivered[a]; !ok || d.Cmp(big.NewInt(int64(cum))) < 0 {
			rn.delivered[a] = big.NewInt(int64(cum)) // the peer holds this cheque
		}
		return "ok"
	case len(op) == 2 && op[0] == "lastsent":
		p, ok := atoi(op[1])
		if !ok || p >= nPeers {
			return "bad-op"
		}
		c, err := rn.env.Svc.LastSentCheque(settle.Peer(p))
		if err == chequePkg.ErrNoCheque {
			return "nocheque"
		}
		if err != nil {
			return "err"
		}
		return c.CumulativePayout.String()
	}
	return "bad-op"
}
