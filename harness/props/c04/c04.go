// Package c04: correspondence + oracle for pkg/cac (property C04).
package c04

import (
	"bytes"
	"encoding/hex"
	"fmt"
	"strconv"
	"strings"
	"time"

	"github.com/gauss-project/aurorafs/pkg/boson"
	"github.com/gauss-project/aurorafs/pkg/cac"
	"golang.org/x/crypto/sha3"

	"verifharness/core"
)

type prop struct{}

func init() { core.Register(prop{}) }

func (prop) ID() string { return "C04" }
func (prop) Rule() string {
	return "cases: create a chunk with New (data lengths 0,1,7,8,9,31..33,63..65,4096, C-1,C,C+1, random) or NewWithDataSpan (payload lengths 0,7,8,9,C+7,C+8,C+9, random; arbitrary span bytes) " +
		"or set an arbitrary (address,payload) pair (incl. empty/short/long addresses against every payload length class); `par k` ops run k (up to 128 > pool size 32) concurrent New/Valid/mutated-Valid rounds on the shared BMT pool with a hang watchdog; then interleave valid / single-byte XOR mutations of payload (every position for small chunks, random positions for big ones, incl. span bytes) and of all 32 address bytes / undo / truncate / extend (zero and non-zero bytes, past C+8). " +
		"Non-trivial: a chunk was created and >=1 mutation followed by valid; distinct by op-list hash. Big (>=64 KiB) payloads limited to keep the Lean side fast."
}

const C = boson.ChunkSize

func (prop) Gen(r *core.Rand, tier string) []core.Case {
	n, big := 120, 8
	if tier == "thorough" {
		n, big = 1500, 80
	}
	var cs []core.Case
	cs = append(cs,
		core.Case{ID: "fix-bounds", NT: true, Ops: []string{"new h:-", "valid", "new g:1:1", "valid", "trunc 8", "valid", "trunc 7", "valid",
			"newspan g:2:8", "valid", "newspan g:2:7", "newspan h:0100000000000000ff", "valid", "extend h:00", "valid", "mutp 0 1", "valid"}},
		core.Case{ID: "fix-full", NT: true, Ops: []string{fmt.Sprintf("new p:3:%d:1000", C), "valid", "extend h:00", "valid", fmt.Sprintf("new p:3:%d:1000", C+1),
			fmt.Sprintf("newspan p:4:%d:512", C+8), "valid", fmt.Sprintf("mutp %d 128", C+7), "valid", fmt.Sprintf("newspan p:4:%d:512", C+9)}},
	)
	// arbitrary (address, payload) pairs with degenerate addresses: empty, short, long — for every payload length class
	for j, l := range []int{0, 7, 8, 9, 100, C + 8, C + 9, C + 100} {
		for k, a := range []string{"-", "00", hex.EncodeToString(make([]byte, 31)), hex.EncodeToString(make([]byte, 33))} {
			src := fmt.Sprintf("p:%d:%d:997", j, l)
			cs = append(cs, core.Case{ID: fmt.Sprintf("fix-degenerate-addr-%d-%d", j, k), NT: false, Ops: []string{"set " + a + " " + src, "valid", "extend h:00", "valid"}})
		}
	}
	// concurrent creation/validation on the shared BMT pool (more workers than pooled trees)
	for j := 0; j < 3; j++ {
		cs = append(cs, core.Case{ID: fmt.Sprintf("fix-par-%d", j), NT: true, Ops: []string{fmt.Sprintf("par %d %d %d", 96+16*j, r.Intn(1000), r.Range(1, 4096)), "par 40 7 64"}})
	}
	bigUsed := 0
	for i := 0; i < n; i++ {
		c := core.Case{ID: fmt.Sprintf("g%d", i)}
		var l int
		switch r.Intn(12) {
		case 0:
			l = r.Pick([]int{0, 1, 7, 8, 9, 31, 32, 33, 63, 64, 65, 127, 128, 129})
		case 1:
			if bigUsed < big {
				l = r.Pick([]int{C - 1, C, C + 1, C - 64, C / 2, C + 7, C + 8, C + 9})
				bigUsed++
			} else {
				l = r.Pick([]int{4095, 4096, 4097})
			}
		case 2:
			l = r.Range(0, 5000)
		default:
			l = r.Range(1, 300)
		}
		src := fmt.Sprintf("g:%d:%d", r.Intn(1000), l)
		if l > 70000 {
			src = fmt.Sprintf("p:%d:%d:%d", r.Intn(1000), l, r.Range(100, 3000))
		} else if l <= 40 {
			src = "h:" + core.Hex(r.Bytes(l))
		}
		created := true
		plen := l + 8
		switch r.Intn(10) {
		case 0, 1, 2:
			c.Ops = append(c.Ops, "newspan "+src)
			plen = l
			created = l >= 8 && l <= C+8
		case 3:
			c.Ops = append(c.Ops, "set "+hex.EncodeToString(r.Bytes(32))+" "+src)
			plen = l
		default:
			c.Ops = append(c.Ops, "new "+src)
			created = l >= 1 && l <= C
		}
		c.Ops = append(c.Ops, "valid")
		muts := 0
		if created {
			k := r.Range(2, 14)
			if plen > 70000 {
				k = r.Range(1, 3)
			}
			for j := 0; j < k; j++ {
				x := 1 << uint(r.Intn(8))
				if r.Chance(30) {
					x = r.Range(1, 255)
				}
				switch r.Intn(10) {
				case 0, 1, 2, 3:
					pos := r.Intn(plen)
					if r.Chance(30) {
						pos = r.Pick([]int{0, 7, 8, plen - 1})
					}
					c.Ops = append(c.Ops, fmt.Sprintf("mutp %d %d", pos, x), "valid")
					muts++
					if r.Chance(60) {
						c.Ops = append(c.Ops, fmt.Sprintf("mutp %d %d", pos, x), "valid") // undo
					}
				case 4, 5, 6:
					pos := r.Intn(32)
					c.Ops = append(c.Ops, fmt.Sprintf("muta %d %d", pos, x), "valid")
					muts++
					if r.Chance(60) {
						c.Ops = append(c.Ops, fmt.Sprintf("muta %d %d", pos, x), "valid")
					}
				case 7:
					c.Ops = append(c.Ops, "extend h:"+core.Hex(r.Bytes(r.Range(1, 3))), "valid")
					muts++
				case 8:
					c.Ops = append(c.Ops, "extend h:00", "valid") // zero padding keeps the BMT root
					muts++
				default:
					if plen < 70000 {
						c.Ops = append(c.Ops, fmt.Sprintf("trunc %d", r.Intn(plen+1)), "valid")
						muts++
					}
				}
			}
		}
		c.NT = created && muts > 0
		cs = append(cs, c)
	}
	return cs
}

func parLen(n, i int) int { return 1 + (n+37*i)%4096 }

type chunk struct{ addr, data []byte }

type runner struct {
	cur    *chunk
	wasOK  bool // cur was produced valid and not changed in length since (for the mutation oracle)
	pristi *chunk
}

func (prop) New() core.Runner { return &runner{} }
func (*runner) Close()        {}

func keccak(b ...[]byte) []byte {
	h := sha3.NewLegacyKeccak256()
	for _, x := range b {
		h.Write(x)
	}
	return h.Sum(nil)
}
func refRoot(b []byte) []byte {
	if len(b) == 64 {
		return keccak(b)
	}
	return keccak(refRoot(b[:len(b)/2]), refRoot(b[len(b)/2:]))
}

// independent validity predicate: the statement of the property
func refValid(addr, p []byte) bool {
	if len(p) < 8 || len(p) > C+8 {
		return false
	}
	buf := make([]byte, C)
	copy(buf, p[8:])
	return bytes.Equal(keccak(p[:8], refRoot(buf)), addr)
}

func (rn *runner) create(ctx *core.Ctx, ch boson.Chunk, err error, wantErr string, what string) string {
	if err != nil {
		rn.cur = nil
		if wantErr == "" {
			ctx.Fail(what+"-rejects-valid-length", "%v", err)
		}
		if err.Error() == "data too large" {
			return "err-large"
		}
		return "err-short"
	}
	if wantErr != "" {
		ctx.Fail(what+"-accepts-"+wantErr, "accepted")
	}
	rn.cur = &chunk{addr: append([]byte(nil), ch.Address().Bytes()...), data: append([]byte(nil), ch.Data()...)}
	rn.pristi = &chunk{addr: append([]byte(nil), rn.cur.addr...), data: append([]byte(nil), rn.cur.data...)}
	if !cac.Valid(ch) {
		ctx.Fail(what+"-not-valid", "fresh chunk fails Valid")
	}
	return fmt.Sprintf("ok %s %d", hex.EncodeToString(rn.cur.addr), len(rn.cur.data))
}

func (rn *runner) Step(ctx *core.Ctx, op []string) string {
	switch {
	case len(op) == 2 && op[0] == "new":
		d, ok := core.ParseSrc(op[1])
		if !ok {
			return "bad-op"
		}
		want := ""
		if len(d) > C {
			want = "large"
		} else if len(d) == 0 {
			want = "short"
		}
		ch, err := cac.New(d)
		out := rn.create(ctx, ch, err, want, "new")
		if err == nil && (len(rn.cur.data) != len(d)+8 || !bytes.Equal(rn.cur.data[8:], d)) {
			ctx.Fail("new-payload", "payload is not span||data")
		}
		return out
	case len(op) == 2 && op[0] == "newspan":
		p, ok := core.ParseSrc(op[1])
		if !ok {
			return "bad-op"
		}
		want := ""
		if len(p) > C+8 {
			want = "large"
		} else if len(p) < 8 {
			want = "short"
		}
		ch, err := cac.NewWithDataSpan(p)
		return rn.create(ctx, ch, err, want, "newspan")
	case len(op) == 4 && op[0] == "par":
		k, e1 := strconv.Atoi(op[1])
		seed, e2 := strconv.Atoi(op[2])
		n, e3 := strconv.Atoi(op[3])
		if e1 != nil || e2 != nil || e3 != nil || k < 1 || k > 256 || n < 1 || n > 8192 {
			return "bad-op"
		}
		outs := make([]string, k)
		bad := make([]string, k)
		done := make(chan int, k)
		for i := 0; i < k; i++ {
			go func(i int) {
				defer func() {
					if e := recover(); e != nil {
						bad[i] = fmt.Sprint("panic: ", e)
					}
					done <- i
				}()
				d := core.GenBytes(uint64(seed+i), parLen(n, i), 0)
				ch, err := cac.New(d)
				if err != nil {
					bad[i] = "New failed: " + err.Error()
					return
				}
				outs[i] = hex.EncodeToString(ch.Address().Bytes()[:8])
				if !refValid(ch.Address().Bytes(), ch.Data()) {
					bad[i] = "address is not the BMT hash of the payload"
				} else if !cac.Valid(ch) {
					bad[i] = "fresh chunk rejected by Valid"
				} else {
					p := append([]byte(nil), ch.Data()...)
					p[len(p)-1] ^= 1
					if cac.Valid(boson.NewChunk(ch.Address(), p)) {
						bad[i] = "payload-mutated chunk accepted by Valid"
					}
				}
			}(i)
		}
		timeout := time.After(40 * time.Second)
		for got := 0; got < k; got++ {
			select {
			case <-done:
			case <-timeout:
				ctx.Fail("par-hang", "%d of %d concurrent New/Valid calls never returned", k-got, k)
				return "hang"
			}
		}
		for i, b := range bad {
			if b != "" {
				ctx.Fail("par-wrong", "worker %d (len %d): %s", i, parLen(n, i), b)
				break
			}
		}
		return strings.Join(outs, ",")
	case len(op) == 3 && op[0] == "set":
		a, err := core.UnHex(op[1])
		p, ok := core.ParseSrc(op[2])
		if err != nil || !ok {
			return "bad-op"
		}
		rn.cur = &chunk{addr: a, data: p}
		rn.pristi = nil
		return "ok"
	}
	if rn.cur == nil {
		return "nochunk"
	}
	c := rn.cur
	switch {
	case len(op) == 1 && op[0] == "valid":
		v := cac.Valid(boson.NewChunk(boson.NewAddress(c.addr), c.data))
		want := refValid(c.addr, c.data)
		if v != want {
			clause := "valid-accepts-invalid"
			if want {
				clause = "valid-rejects-valid"
			}
			if len(c.data) > C+8 {
				clause += "-oversize"
			} else if len(c.data) < 8 {
				clause += "-undersize"
			}
			ctx.Fail(clause, "Valid=%v reference=%v (payload %d bytes)", v, want, len(c.data))
		}
		// mutation clause: same length as the pristine valid chunk, but different bytes => invalid
		if rn.pristi != nil && v && len(c.data) == len(rn.pristi.data) &&
			(!bytes.Equal(c.data, rn.pristi.data) || !bytes.Equal(c.addr, rn.pristi.addr)) {
			ctx.Fail("mutation-still-valid", "chunk differs from the created one in payload/address bytes but is valid")
		}
		return core.B(v)
	case len(op) == 3 && (op[0] == "mutp" || op[0] == "muta"):
		pos, e1 := strconv.Atoi(op[1])
		x, e2 := strconv.Atoi(op[2])
		if e1 != nil || e2 != nil || pos < 0 {
			return "bad-op"
		}
		t := c.data
		if op[0] == "muta" {
			t = c.addr
		}
		if pos >= len(t) {
			return "range"
		}
		t[pos] ^= byte(x)
		return "ok"
	case len(op) == 2 && op[0] == "trunc":
		n, err := strconv.Atoi(op[1])
		if err != nil || n < 0 {
			return "bad-op"
		}
		if n < len(c.data) {
			c.data = c.data[:n]
		}
		return "ok"
	case len(op) == 2 && op[0] == "extend":
		b, ok := core.ParseSrc(op[1])
		if !ok {
			return "bad-op"
		}
		c.data = append(c.data, b...)
		return "ok"
	case len(op) == 1 && op[0] == "info":
		return fmt.Sprintf("%s %d", core.Hex(c.addr), len(c.data))
	}
	return "bad-op"
}
