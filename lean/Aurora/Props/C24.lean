import Aurora.Lemmas.Kad
/-!
# C24 — Topology tracks exactly the live connections

Theorems about the Kad model (Model/Kad.lean): `Kad.apply : Kad → Ev → Kad × Obs` is the
transcription of the event handlers (`AddPeers`, `Connected`, `Outbound`, `Disconnected`,
`DisconnectForce`, `RefreshProtectPeer`, `Reachable`, `UpdateReachability`, `SetRadius`);
`Obs` is what the environment observes of a `Connected` call (result, and the peer kicked out by
`randomPeer` in bootnode mode).  All statements are for every event history from a fresh
`Kad.new`, any base address, thresholds, node mode and static list.
-/
namespace Aurora.Props.C24
open Aurora.Topo

/-- "connected and not since disconnected", read off the observable history: a successful
`Connected` and a non-bootnode `Outbound` put the peer in; `Disconnected`, `DisconnectForce` and
being kicked put it out; an `Outbound` to a boot node changes nothing. -/
def liveStep (live : Addr → Prop) (ev : Ev) (o : Obs) : Addr → Prop :=
  match ev with
  | .conn a _ _ => if o.out = .ok then fun x => x = a ∨ (live x ∧ o.kicked ≠ some x) else live
  | .out a false => fun x => x = a ∨ live x
  | .disc a => fun x => x ≠ a ∧ live x
  | .force a => fun x => x ≠ a ∧ live x
  | _ => live

/-- run a history on the model and on the specification side by side -/
def runLive : Kad → (Addr → Prop) → List Ev → Kad × (Addr → Prop)
  | k, live, [] => (k, live)
  | k, live, ev :: evs => runLive (k.apply ev).1 (liveStep live ev (k.apply ev).2) evs

/-- auxiliary: `liveStep` respects pointwise equivalence -/
theorem C24_liveStep_congr (p q : Addr → Prop) (ev : Ev) (o : Obs) (h : ∀ x, p x ↔ q x) :
    ∀ x, liveStep p ev o x ↔ liveStep q ev o x := by
  intro x
  unfold liveStep
  cases ev with
  | conn a f kick => simp only []; split <;> simp [h x]
  | out a b => cases b <;> simp [h x]
  | disc a => simp [h x]
  | force a => simp [h x]
  | _ => exact h x

/-- auxiliary: a handler that touches neither peer set keeps every set-level fact -/
theorem C24_same_sets (k k' : Kad) (wf : KadWF k) (hb : k'.base = k.base)
    (hc : k'.connected = k.connected) (hk : k'.known = k.known) :
    KadWF k' ∧ k'.base = k.base ∧ (∀ x, k'.connMem x ↔ k.connMem x) ∧ (∀ x, k'.knownMem x ↔ k.knownMem x) := by
  refine ⟨⟨by rw [hc]; exact wf.cs, by rw [hc, hb]; exact wf.cc, by rw [hk]; exact wf.ks⟩, hb, ?_, ?_⟩
  · intro x; unfold Kad.connMem; rw [hc, hb]
  · intro x; unfold Kad.knownMem; rw [hk, hb]

/-- effect of one event on the connected and known sets -/
theorem C24_apply_spec (k : Kad) (ev : Ev) (wf : KadWF k) :
    KadWF (k.apply ev).1 ∧ (k.apply ev).1.base = k.base ∧
    (∀ x, (k.apply ev).1.connMem x ↔ liveStep k.connMem ev (k.apply ev).2 x) := by
  cases ev with
  | add as =>
    have h := addMany_spec k.base k.known as [] wf.ks
    exact ⟨⟨wf.cs, wf.cc, h.1⟩, rfl, fun _ => Iff.rfl⟩
  | conn a f kick =>
    simp only [Kad.apply]
    unfold Kad.connectedEv
    simp only []
    have hOn := onConnected_spec k a wf
    have hplain : KadWF (k.onConnected a) ∧ (k.onConnected a).base = k.base ∧
        ∀ x, (k.onConnected a).connMem x ↔ liveStep k.connMem (.conn a f kick) ⟨.ok, none⟩ x :=
      ⟨hOn.1, hOn.2.1, fun x => by simp [liveStep, hOn.2.2.1 x]⟩
    have hsame : ∀ o : ConnOut, o ≠ .ok → KadWF k ∧ k.base = k.base ∧
        ∀ x, k.connMem x ↔ liveStep k.connMem (.conn a f kick) ⟨o, none⟩ x :=
      fun o ho => ⟨wf, rfl, fun x => by simp [liveStep, ho]⟩
    split
    · split
      · split
        · exact hsame _ (by decide)
        · split
          · split
            · rename_i x0 _
              obtain ⟨w1, b1, c1, _⟩ := disconnected_spec k x0 wf
              obtain ⟨w2, b2, c2, _⟩ := onConnected_spec (k.disconnected x0) a w1
              refine ⟨w2, by rw [b2, b1], fun x => ?_⟩
              rw [c2 x, c1 x]
              simp only [liveStep, if_true]
              constructor
              · rintro (h | ⟨h1, h2⟩)
                · exact Or.inl h
                · exact Or.inr ⟨h2, fun e => h1 (Option.some.inj e).symm⟩
              · rintro (h | ⟨h1, h2⟩)
                · exact Or.inl h
                · exact Or.inr ⟨fun e => h2 (by rw [e]), h1⟩
            · exact hsame _ (by decide)
          · exact hsame _ (by decide)
      · split
        · exact hsame _ (by decide)
        · exact hplain
    · exact hplain
  | out a b =>
    cases b with
    | true =>
      obtain ⟨w, hb, hc, _⟩ := outbound_boot_spec k a wf
      refine ⟨w, hb, fun x => ?_⟩
      show PSlice.mem (k.outbound a true).base (k.outbound a true).connected x ↔ _
      rw [hc, hb]; rfl
    | false =>
      obtain ⟨w, hb, hc, _⟩ := outbound_full_spec k a wf
      exact ⟨w, hb, fun x => by simp [Kad.apply, liveStep, hc x]⟩
  | disc a =>
    obtain ⟨w, hb, hc, _⟩ := disconnected_spec k a wf
    exact ⟨w, hb, fun x => by simp [Kad.apply, liveStep, hc x]⟩
  | force a =>
    obtain ⟨w, hb, hc, _⟩ := disconnectForce_spec k a wf
    exact ⟨w, hb, fun x => by simp [Kad.apply, liveStep, hc x]⟩
  | protect as =>
    obtain ⟨w, hb, hc, _⟩ := C24_same_sets k (k.setProtect as) wf rfl rfl rfl
    exact ⟨w, hb, hc⟩
  | reach a s =>
    obtain ⟨w, hb, hc, _⟩ := C24_same_sets k (k.setReachable a s) wf rfl rfl rfl
    exact ⟨w, hb, hc⟩
  | self s =>
    have : (k.updateReachability s).base = k.base ∧ (k.updateReachability s).connected = k.connected ∧
        (k.updateReachability s).known = k.known := by
      unfold Kad.updateReachability; split <;> exact ⟨rfl, rfl, rfl⟩
    obtain ⟨w, hb, hc, _⟩ := C24_same_sets k (k.updateReachability s) wf this.1 this.2.1 this.2.2
    exact ⟨w, hb, hc⟩
  | radius r =>
    have : (k.setRadius r).base = k.base ∧ (k.setRadius r).connected = k.connected ∧
        (k.setRadius r).known = k.known := by
      unfold Kad.setRadius; split <;> exact ⟨rfl, rfl, rfl⟩
    obtain ⟨w, hb, hc, _⟩ := C24_same_sets k (k.setRadius r) wf this.1 this.2.1 this.2.2
    exact ⟨w, hb, hc⟩

/-- auxiliary: the connected set follows `liveStep` along any history (generalised start state) -/
theorem C24_runLive_spec : ∀ (evs : List Ev) (k : Kad) (live : Addr → Prop), KadWF k →
    (∀ x, k.connMem x ↔ live x) →
    KadWF (runLive k live evs).1 ∧ ∀ x, (runLive k live evs).1.connMem x ↔ (runLive k live evs).2 x := by
  intro evs
  induction evs with
  | nil => intro k live wf h; exact ⟨wf, h⟩
  | cons ev evs ih =>
    intro k live wf h
    obtain ⟨w, _, c⟩ := C24_apply_spec k ev wf
    exact ih _ _ w (fun x => (c x).trans (C24_liveStep_congr _ _ ev _ h x))

/-- clause 1: after any history the peers the topology reports as connected (`EachPeer`) are
exactly those whose last relevant event is a successful connect and that were not disconnected,
force-disconnected or kicked since — boot-node outbound connections never count — and every peer
sits once, in the bin of its proximity order. -/
theorem C24_connected_exact (base : Addr) (binMax : Nat) (boot : Bool) (static : List Addr) (evs : List Ev) :
    let r := runLive (Kad.new base binMax boot static) (fun _ => False) evs
    (∀ x, x ∈ r.1.connected.toList ↔ r.2 x) ∧ r.1.connected.Clean r.1.base := by
  intro r
  have h := C24_runLive_spec evs (Kad.new base binMax boot static) (fun _ => False) (new_wf _ _ _ _)
    (fun x => ⟨fun hm => new_mem base x hm, False.elim⟩)
  exact ⟨fun x => (mem_toList_iff _ _ x h.1.cc).trans (h.2 x), h.1.cc⟩

/-- clause "outbound connections to boot nodes are never counted": such an event leaves the
connected set as it is -/
theorem C24_bootnode_outbound_never_counted (k : Kad) (a : Addr) :
    (k.apply (.out a true)).1.connected = k.connected := rfl

/-! ### connected ⊆ known -/

/-- the p2p layer hands a peer to `Connected` / non-boot `Outbound` only if it is not a boot node,
and flags `Outbound` as boot exactly for boot nodes -/
def Disciplined (isBoot : Addr → Prop) : Ev → Prop
  | .conn a _ _ => ¬ isBoot a
  | .out a b => (b = true ↔ isBoot a)
  | _ => True

def SubInv (isBoot : Addr → Prop) (k : Kad) : Prop :=
  (∀ x, k.connMem x → k.knownMem x) ∧ (∀ x, k.connMem x → ¬ isBoot x)

/-- auxiliary: one disciplined event preserves connected ⊆ known -/
theorem C24_apply_subInv (isBoot : Addr → Prop) (k : Kad) (ev : Ev) (wf : KadWF k) (hd : Disciplined isBoot ev)
    (hi : SubInv isBoot k) : SubInv isBoot (k.apply ev).1 := by
  obtain ⟨h1, h2⟩ := hi
  cases ev with
  | add as =>
    refine ⟨fun x hx => ?_, h2⟩
    exact (addMany_spec k.base k.known as x wf.ks).2 (h1 x hx)
  | conn a f kick =>
    simp only [Kad.apply]
    unfold Kad.connectedEv
    simp only []
    have hplain : SubInv isBoot (k.onConnected a) := by
      obtain ⟨_, _, c, d⟩ := onConnected_spec k a wf
      refine ⟨fun x hx => ?_, fun x hx => ?_⟩
      · rcases (c x).mp hx with e | e
        · exact (d x).mpr (Or.inl e)
        · exact (d x).mpr (Or.inr (h1 x e))
      · rcases (c x).mp hx with e | e
        · rw [e]; exact hd
        · exact h2 x e
    split
    · split
      · split
        · exact ⟨h1, h2⟩
        · split
          · split
            · rename_i x0 _
              obtain ⟨w1, _, c1, d1⟩ := disconnected_spec k x0 wf
              obtain ⟨_, _, c2, d2⟩ := onConnected_spec (k.disconnected x0) a w1
              refine ⟨fun x hx => ?_, fun x hx => ?_⟩
              · rcases (c2 x).mp hx with e | e
                · exact (d2 x).mpr (Or.inl e)
                · exact (d2 x).mpr (Or.inr ((d1 x).mpr (h1 x ((c1 x).mp e).2)))
              · rcases (c2 x).mp hx with e | e
                · rw [e]; exact hd
                · exact h2 x ((c1 x).mp e).2
            · exact ⟨h1, h2⟩
          · exact ⟨h1, h2⟩
      · split
        · exact ⟨h1, h2⟩
        · exact hplain
    · exact hplain
  | out a b =>
    cases b with
    | true =>
      obtain ⟨_, hb, hc, hk⟩ := outbound_boot_spec k a wf
      have hboot : isBoot a := hd.mp rfl
      have hcm : ∀ x, (k.outbound a true).connMem x ↔ k.connMem x := by
        intro x; unfold Kad.connMem; rw [hc, hb]
      refine ⟨fun x hx => ?_, fun x hx => h2 x ((hcm x).mp hx)⟩
      have hx' := (hcm x).mp hx
      exact hk x (fun e => h2 x hx' (e ▸ hboot)) (h1 x hx')
    | false =>
      obtain ⟨_, _, c, d⟩ := outbound_full_spec k a wf
      have hnb : ¬ isBoot a := fun h => by have := hd.mpr h; cases this
      refine ⟨fun x hx => ?_, fun x hx => ?_⟩
      · rcases (c x).mp hx with e | e
        · exact (d x).mpr (Or.inl e)
        · exact (d x).mpr (Or.inr (h1 x e))
      · rcases (c x).mp hx with e | e
        · rw [e]; exact hnb
        · exact h2 x e
  | disc a =>
    obtain ⟨_, _, c, d⟩ := disconnected_spec k a wf
    exact ⟨fun x hx => (d x).mpr (h1 x ((c x).mp hx).2), fun x hx => h2 x ((c x).mp hx).2⟩
  | force a =>
    obtain ⟨_, _, c, d⟩ := disconnectForce_spec k a wf
    exact ⟨fun x hx => d x ((c x).mp hx).1 (h1 x ((c x).mp hx).2), fun x hx => h2 x ((c x).mp hx).2⟩
  | protect as =>
    obtain ⟨_, _, c, d⟩ := C24_same_sets k (k.setProtect as) wf rfl rfl rfl
    exact ⟨fun x hx => (d x).mpr (h1 x ((c x).mp hx)), fun x hx => h2 x ((c x).mp hx)⟩
  | reach a s =>
    obtain ⟨_, _, c, d⟩ := C24_same_sets k (k.setReachable a s) wf rfl rfl rfl
    exact ⟨fun x hx => (d x).mpr (h1 x ((c x).mp hx)), fun x hx => h2 x ((c x).mp hx)⟩
  | self s =>
    have : (k.updateReachability s).base = k.base ∧ (k.updateReachability s).connected = k.connected ∧
        (k.updateReachability s).known = k.known := by
      unfold Kad.updateReachability; split <;> exact ⟨rfl, rfl, rfl⟩
    obtain ⟨_, _, c, d⟩ := C24_same_sets k (k.updateReachability s) wf this.1 this.2.1 this.2.2
    exact ⟨fun x hx => (d x).mpr (h1 x ((c x).mp hx)), fun x hx => h2 x ((c x).mp hx)⟩
  | radius r =>
    have : (k.setRadius r).base = k.base ∧ (k.setRadius r).connected = k.connected ∧
        (k.setRadius r).known = k.known := by
      unfold Kad.setRadius; split <;> exact ⟨rfl, rfl, rfl⟩
    obtain ⟨_, _, c, d⟩ := C24_same_sets k (k.setRadius r) wf this.1 this.2.1 this.2.2
    exact ⟨fun x hx => (d x).mpr (h1 x ((c x).mp hx)), fun x hx => h2 x ((c x).mp hx)⟩

def run : Kad → List Ev → Kad
  | k, [] => k
  | k, ev :: evs => run (k.apply ev).1 evs

/-- auxiliary: … along any disciplined history -/
theorem C24_run_subInv (isBoot : Addr → Prop) : ∀ (evs : List Ev) (k : Kad), KadWF k → SubInv isBoot k →
    (∀ ev ∈ evs, Disciplined isBoot ev) → KadWF (run k evs) ∧ SubInv isBoot (run k evs) := by
  intro evs
  induction evs with
  | nil => intro k wf hi _; exact ⟨wf, hi⟩
  | cons ev evs ih =>
    intro k wf hi hd
    exact ih _ (C24_apply_spec k ev wf).1 (C24_apply_subInv isBoot k ev wf (hd ev (by simp)) hi)
      (fun e he => hd e (by simp [he]))

/-- clause 2: every connected peer is also known — for every history in which the p2p layer keeps
its side of the contract (`Disciplined`: boot nodes are dialled with the boot flag and never handed
to `Connected`). -/
theorem C24_connected_subset_known (isBoot : Addr → Prop) (base : Addr) (binMax : Nat) (boot : Bool)
    (static : List Addr) (evs : List Ev) (hd : ∀ ev ∈ evs, Disciplined isBoot ev) :
    ∀ x ∈ (run (Kad.new base binMax boot static) evs).connected.toList,
      x ∈ (run (Kad.new base binMax boot static) evs).known.toList := by
  have h := C24_run_subInv isBoot evs (Kad.new base binMax boot static) (new_wf _ _ _ _)
    ⟨fun x hx => absurd hx (new_mem base x), fun x hx => absurd hx (new_mem base x)⟩ hd
  intro x hx
  exact mem_toList_of_mem _ _ x (h.2.1 x ((mem_toList_iff _ _ x h.1.cc).mp hx))

/-- without that contract the clause is false of the code: a connected peer that is then dialled
with the boot flag is dropped from the known set but stays connected -/
theorem C24_subset_needs_discipline :
    let k := run (Kad.new [0x00, 0, 0, 0] 5 false []) [.conn [0x80, 0, 0, 1] false none, .out [0x80, 0, 0, 1] true]
    [0x80, 0, 0, 1] ∈ k.connected.toList ∧ [0x80, 0, 0, 1] ∉ k.known.toList := by decide

/-! ### admission -/

/-- "the bin is oversaturated": it is shallower than the potential depth (depth of the *known*
peers at full radius) and holds at least `os` connected peers that are reachable and not static -/
def Oversaturated (k : Kad) (bin : Nat) : Prop :=
  bin < recalcDepth k.params (k.flags k.known) maxPO ∧
  k.os ≤ ((k.connected.bins.getD bin []).filter (fun a => k.reachable a && !k.static.contains a)).length

theorem C24_binSaturated_iff (k : Kad) (bin : Nat) : (k.binSaturated bin).2 = true ↔ Oversaturated k bin := by
  unfold Kad.binSaturated Oversaturated
  simp only []
  split
  · rename_i h; simp; omega
  · rename_i h; simp; omega

/-- clause 3: an unprotected inbound peer (node not in bootnode mode, connection not forced) is
accepted only if its bin is not oversaturated — and is rejected only if it is -/
theorem C24_admission_sound (k : Kad) (a : Addr) (kick : Option Addr)
    (hb : k.bootMode = false) (hp : k.isProtected a = false) :
    ((k.apply (.conn a false kick)).2.out = .ok ↔ ¬ Oversaturated k (proximity k.base a)) ∧
    ((k.apply (.conn a false kick)).2.out = .oversat ↔ Oversaturated k (proximity k.base a)) := by
  rw [← C24_binSaturated_iff]
  simp only [Kad.apply]
  unfold Kad.connectedEv
  simp only [hb, hp]
  cases h : (k.binSaturated (proximity k.base a)).2 <;> simp

/-- forced connections and protected peers are always accepted (node not in bootnode mode) -/
theorem C24_forced_or_protected_accepted (k : Kad) (a : Addr) (force : Bool) (kick : Option Addr)
    (hb : k.bootMode = false) (h : force = true ∨ k.isProtected a = true) :
    (k.apply (.conn a force kick)).2.out = .ok := by
  simp only [Kad.apply]
  unfold Kad.connectedEv
  simp only [hb]
  rcases h with h | h
  · subst h; cases (k.binSaturated (proximity k.base a)).2 <;> cases k.isProtected a <;> simp
  · rw [h]; simp

/-- `Pick` -/
theorem C24_pick_iff (k : Kad) (a : Addr) :
    k.pick a = true ↔ k.bootMode = true ∨ k.isProtected a = true ∨ ¬ Oversaturated k (proximity k.base a) := by
  rw [← C24_binSaturated_iff]
  unfold Kad.pick
  cases k.bootMode <;> cases k.isProtected a <;> simp

/-! ### non-vacuity -/

private def b0 : Addr := [0x00, 0, 0, 0]
private def p (i : UInt8) : Addr := [0x80, 0, 0, i]     -- bin 0
private def q (i : UInt8) : Addr := [0x40, 0, 0, i]     -- bin 1
private def fill : List Ev :=
  [.conn (q 1) false none, .reach (q 1) 1, .conn (q 2) false none, .reach (q 2) 1, .conn (q 3) false none, .reach (q 3) 1,
   .conn (p 1) false none, .reach (p 1) 1, .conn (p 2) false none, .reach (p 2) 1, .conn (p 3) false none, .reach (p 3) 1,
   .conn (p 4) false none, .reach (p 4) 1, .conn (p 5) false none, .reach (p 5) 1]

/- a bin does get oversaturated (BinMaxPeers 5): the next unprotected inbound peer is rejected,
a forced one accepted -/
set_option maxRecDepth 100000 in
example : ((run (Kad.new b0 5 false []) fill).apply (.conn (p 6) false none)).2.out = .oversat := by decide
set_option maxRecDepth 100000 in
example : ((run (Kad.new b0 5 false []) fill).apply (.conn (p 6) true none)).2.out = .ok := by decide
set_option maxRecDepth 100000 in
example : (run (Kad.new b0 5 false []) fill).pick (p 6) = false := by decide
example : ∀ ev ∈ fill, Disciplined (fun _ => False) ev := by
  intro ev h; simp [fill] at h; rcases h with h | h | h | h | h | h | h | h | h | h | h | h | h | h | h | h <;> subst h <;> simp [Disciplined]

end Aurora.Props.C24
