import Aurora.Lemmas.Upload
import Aurora.Lemmas.SpecTree
/-!
The hash-trie writer fed with arbitrary leaf entries `(span, reference)` (not only the entries of data
chunks): below the 8-level limit its `Sum` is the bottom-up root `rootG` over those entries, and the span
of that root is the sum of the leaf spans.  (The `leaves` op of the file drivers runs exactly this on the
real writer, with spans of `2^32` and more.)
-/
namespace Aurora.HashTrie
open Aurora.Bmt (Bytes)
open Aurora.Tree

section
variable (cref : Bytes → Bytes → Bytes) (B : Nat)

/-- `ChainWrite` of every entry in order -/
def feedEntries (u : Upload) (es : List Entry) : Upload := es.foldl (feedEntry cref B) u

theorem feedEntries_state (hB : 0 < B) (es : List Entry) : ∀ (u : Upload) (done : List Entry),
    u.failed = false → u.trie.full = false →
    u.trie.levels = state (wrapE cref) B 8 done → done.length + es.length < B ^ 7 →
    (feedEntries cref B u es).failed = false ∧ (feedEntries cref B u es).trie.full = false ∧
    (feedEntries cref B u es).trie.levels = state (wrapE cref) B 8 (done ++ es) := by
  induction es with
  | nil => intro u done h1 h2 h3 _; simp [feedEntries, h1, h2, h3]
  | cons p t ih =>
    intro u done h1 h2 h3 hlen
    simp only [feedEntries, List.foldl_cons]
    have hstep : (feedEntry cref B u p).failed = false ∧ (feedEntry cref B u p).trie.full = false ∧
        (feedEntry cref B u p).trie.levels = state (wrapE cref) B 8 (done ++ [p]) := by
      unfold feedEntry chainWrite
      simp only [h1, Bool.false_eq_true, ↓reduceIte, h2, Bool.false_or]
      rw [h3, push_state (wrapE cref) B hB 8, push_flag (wrapE cref) B hB 7 done _ (by simp at hlen; omega)]
      refine ⟨?_, ?_, ?_⟩ <;> first | rfl | trivial
    have := ih (feedEntry cref B u p) (done ++ [p]) hstep.1 hstep.2.1 hstep.2.2
      (by simp at hlen ⊢; omega)
    simpa [feedEntries, List.append_assoc] using this

/-- **`Sum` after any leaves = the bottom-up root over them** (the whole root entry, span included) -/
theorem leaves_root_eq_rootG (hB : 2 ≤ B) (es : List Entry) (hne : es ≠ []) (hlen : es.length < B ^ 7) :
    ((feedEntries cref B {} es).sumTrie cref B).2 = rootG (wrapE cref) B es.length es := by
  have hB0 : 0 < B := by omega
  have hst := feedEntries_state cref B hB0 es {} [] rfl rfl
    (by simp [State.new, maxLevel, state_nil B hB0]) (by simpa using hlen)
  simp only [List.nil_append] at hst
  obtain ⟨hf, _, hlv⟩ := hst
  unfold Upload.sumTrie
  simp only [hf, Bool.false_eq_true, ↓reduceIte]
  obtain ⟨r, hr⟩ := rootG_enough (wrapE cref) B hB es.length es (Nat.le_refl _) hne
  have hr' := rootG_stable (wrapE cref) B _ _ _ hr (max 7 es.length) (by omega)
  have hsum := sumUp_root (wrapE cref) B hB 7 es [] (max 7 es.length) (by simp) (by simpa using hne)
    (by simp; omega) (by omega)
  simp only [List.append_nil] at hsum
  have hstate : state (wrapE cref) B 8 es = rem B es :: state (wrapE cref) B 7 (fullWraps (wrapE cref) B es) := rfl
  rw [← hstate, hr'] at hsum
  unfold trieSum
  rw [hlv, hr]
  generalize hsu : sumUp (wrapE cref) B (state (wrapE cref) B 8 es) = su at hsum
  obtain ⟨o, gs⟩ := su
  simp only at hsum
  subst hsum
  rfl

end

/-- one level up keeps the total of a list of spans -/
theorem levelUpG_sum (B : Nat) (hB : 0 < B) : ∀ ns : List Nat, (levelUpG List.sum B ns).sum = ns.sum := by
  apply groups_induction B hB (fun ns => (levelUpG List.sum B ns).sum = ns.sum)
  · intro es h
    rw [levelUpG_le List.sum B es (by omega)]
    match es with
    | [] => rfl
    | [a] => rfl
    | a :: b :: r => simp [tailOf]
  · intro es h ih
    by_cases hle : es.length ≤ B
    · rw [levelUpG_le List.sum B es hle]
      match es with
      | [] => rfl
      | [a] => rfl
      | a :: b :: r => simp [tailOf]
    · rw [levelUpG_gt List.sum B es hB (by omega)]
      simp only [List.sum_cons, ih]
      rw [← List.sum_append, List.take_append_drop]

theorem rootG_sum (B : Nat) (hB : 0 < B) : ∀ (fuel : Nat) (ns : List Nat) (s : Nat),
    rootG List.sum B fuel ns = some s → s = ns.sum := by
  intro fuel
  induction fuel with
  | zero =>
    intro ns s h
    match ns, h with
    | [a], h => simp [rootG] at h; simp [h]
  | succ n ih =>
    intro ns s h
    match ns, h with
    | [a], h => simp [rootG] at h; simp [h]
    | [], h => simp only [rootG] at h; rw [ih _ _ h, levelUpG_sum B hB]
    | a :: b :: r, h => simp only [rootG] at h; rw [ih _ _ h, levelUpG_sum B hB]

/-- the span of the bottom-up root is the sum of the leaf spans -/
theorem rootG_span (cref : Bytes → Bytes → Bytes) (B : Nat) (hB : 0 < B) (fuel : Nat) (es : List Entry) (r : Entry)
    (h : rootG (wrapE cref) B fuel es = some r) : r.span = (es.map Entry.span).sum := by
  have hm := rootG_map (wrapE cref) List.sum B Entry.span (fun _ => rfl) hB fuel es
  rw [h] at hm
  exact rootG_sum B hB fuel _ _ hm

end Aurora.HashTrie
