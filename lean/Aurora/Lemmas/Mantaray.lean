import Aurora.Spec.PathMap
/-! Helper lemmas for Props/C10: fork-map operations, `common`, and the two "follow the same path"
    inductions (lookup after add, lookup after remove) — valid for every trie state, loaded or not. -/
namespace Aurora.Mantaray

/-! ## fork map -/

theorem findFork_some_head {fs : List (Bytes × Node)} {k : UInt8} {x : Bytes × Node}
    (h : findFork fs k = some x) : x.1.head? = some k := by
  unfold findFork at h
  have := List.find?_some h
  simpa using this

theorem findFork_setFork_same (fs : List (Bytes × Node)) (k : UInt8) (x : Bytes × Node)
    (hx : x.1.head? = some k) : findFork (setFork fs k x) k = some x := by
  induction fs with
  | nil => simp [setFork, findFork, hx]
  | cons g rest ih =>
    unfold setFork
    by_cases hg : (g.1.head? == some k) = true
    · simp [hg, findFork, hx]
    · simp only [hg]
      unfold findFork at ih ⊢
      simp only [Bool.false_eq_true, if_false, List.find?_cons, hg]
      exact ih

theorem findFork_delFork (fs : List (Bytes × Node)) (k : UInt8) : findFork (delFork fs k) k = none := by
  unfold findFork delFork
  rw [List.find?_eq_none]
  intro x hx
  have := (List.mem_filter.mp hx).2
  simpa using this

/-! ## `common` -/

theorem common_self (a : Bytes) : common a a = a := by
  induction a with
  | nil => rfl
  | cons x xs ih => simp [common, ih]

theorem common_common_right (a b : Bytes) : common (common a b) b = common a b := by
  induction a generalizing b with
  | nil => cases b <;> rfl
  | cons x xs ih =>
    cases b with
    | nil => rfl
    | cons y ys =>
      by_cases h : x = y
      · subst h; simp [common, ih]
      · simp [common, h]

theorem common_take (n : Nat) (p : Bytes) : common (p.take n) p = p.take n := by
  induction p generalizing n with
  | nil => simp [common]
  | cons x xs ih =>
    cases n with
    | zero => simp [common]
    | succ m => simp [common, ih]

theorem common_of_isPrefix (a b : Bytes) (h : isPrefix a b = true) : common a b = a := by
  induction a generalizing b with
  | nil => cases b <;> rfl
  | cons x xs ih =>
    cases b with
    | nil => simp [isPrefix] at h
    | cons y ys =>
      simp only [isPrefix, Bool.and_eq_true, beq_iff_eq] at h
      obtain ⟨rfl, h2⟩ := h
      simp [common, ih ys h2]

theorem common_head {a b : Bytes} {k : UInt8} (ha : a.head? = some k) (hb : b.head? = some k) :
    (common a b).head? = some k := by
  cases a with
  | nil => simp at ha
  | cons x xs =>
    cases b with
    | nil => simp at hb
    | cons y ys =>
      simp only [List.head?_cons, Option.some.injEq] at ha hb
      subst ha; subst hb
      simp [common]

/-! ## nodes -/

/-- `load` does nothing on a node that is loaded or has no reference -/
theorem load_stable (n : Node) (h : n.loaded = true ∨ n.ref = none) : n.load = n := by
  cases n with
  | mk v w r e m l f =>
    cases l with
    | true => rfl
    | false =>
      simp only [Node.loaded, Node.ref, Bool.false_eq_true, false_or] at h
      subst h; rfl

theorem load_stable' (n : Node) : n.load.loaded = true ∨ n.load.ref = none := by
  cases n with
  | mk v w r e m l f =>
    cases l with
    | true => left; rfl
    | false =>
      cases r with
      | none => right; rfl
      | some t => cases t with | mk pe pfs => left; rfl

theorem setForks_loaded (n : Node) (fs) : (n.setForks fs).loaded = n.loaded := by cases n; rfl
theorem setForks_ref (n : Node) (fs) : (n.setForks fs).ref = n.ref := by cases n; rfl
theorem setForks_forks (n : Node) (fs) : (n.setForks fs).forks = fs := by cases n; rfl
theorem setRef_ref (n : Node) (r) : (n.setRef r).ref = r := by cases n; rfl
theorem setRef_forks (n : Node) (r) : (n.setRef r).forks = n.forks := by cases n; rfl
theorem setRef_loaded (n : Node) (r) : (n.setRef r).loaded = n.loaded := by cases n; rfl

/-- what `Lookup` answers for a found node -/
def isEntry (x : Node) (e : Bytes) (md : Meta) : Prop := x.value = true ∧ x.entry = e ∧ x.md = md

theorem setEntry_spec (n : Node) (e : Bytes) (md : Meta) (hmd : md ≠ []) :
    isEntry (n.setEntry e md) e md ∧ (n.setEntry e md).ref = none := by
  cases n with
  | mk v w r e0 m l f =>
    have : md.isEmpty = false := by cases md <;> simp_all
    simp [Node.setEntry, this, isEntry, Node.value, Node.entry, Node.md, Node.ref]

/-- lookup after add follows the path `add` took: for every node state -/
theorem lookup_add (e : Bytes) (md : Meta) (hmd : md ≠ []) :
    ∀ (fa : Nat) (n : Node) (p : Bytes) (n' : Node) (fl : Nat), p.length < fa → p.length < fl →
      add fa n p e md = some n' →
      ∃ x, (lookupNode fl n' p).2 = some x ∧ isEntry x e md := by
  intro fa
  induction fa with
  | zero => intro n p n' fl h; omega
  | succ fa ih =>
    intro n p n' fl hfa hfl hadd
    cases fl with
    | zero => omega
    | succ fl =>
    cases p with
    | nil =>
      simp only [add, Option.some.injEq] at hadd
      subst hadd
      have hs := setEntry_spec n e md hmd
      refine ⟨n.setEntry e md, ?_, hs.1⟩
      simp [lookupNode, load_stable _ (Or.inr hs.2)]
    | cons k t =>
      simp only [add] at hadd
      -- the node after the conditional load
      generalize hn1 : (if n.loaded = true then n else n.load.setRef none) = n1 at hadd
      have hst1 : n1.loaded = true ∨ n1.ref = none := by
        subst hn1
        by_cases hl : n.loaded = true
        · simp [hl]
        · simp [hl, setRef_ref]
      have key : ∀ (pfx : Bytes) (child : Node) (rest : Bytes), pfx.head? = some k →
          common pfx (k :: t) = pfx → rest = (k :: t).drop pfx.length →
          (∃ x, (lookupNode fl child rest).2 = some x ∧ isEntry x e md) →
          ∃ x, (lookupNode (fl + 1) (n1.setForks (setFork n1.forks k (pfx, child))) (k :: t)).2 = some x ∧
            isEntry x e md := by
        intro pfx child rest hh hc hr hx
        have hst : (n1.setForks (setFork n1.forks k (pfx, child))).loaded = true ∨
            (n1.setForks (setFork n1.forks k (pfx, child))).ref = none := by
          rw [setForks_loaded, setForks_ref]; exact hst1
        simp only [lookupNode, load_stable _ hst, setForks_forks,
          findFork_setFork_same _ k (pfx, child) hh, hc, if_true]
        rw [← hr]; exact hx
      cases hff : findFork n1.forks k with
      | none =>
        simp only [hff] at hadd
        by_cases hl : n1.loaded = true
        · simp only [hl, Bool.not_true, Bool.false_eq_true, if_false] at hadd
          by_cases hlong : (k :: t).length > nodePrefixMaxSize
          · simp only [hlong, if_true] at hadd
            cases hnn : add fa Node.new ((k :: t).drop nodePrefixMaxSize) e md with
            | none => simp [hnn] at hadd
            | some nn =>
              simp only [hnn, Option.some.injEq] at hadd
              subst hadd
              have hlen : ((k :: t).drop nodePrefixMaxSize).length < fa := by
                simp only [List.length_drop, List.length_cons, nodePrefixMaxSize] at *; omega
              have hlen2 : ((k :: t).drop nodePrefixMaxSize).length < fl := by
                simp only [List.length_drop, List.length_cons, nodePrefixMaxSize] at *; omega
              have ihx := ih Node.new _ nn fl hlen hlen2 hnn
              have htl : ((k :: t).take nodePrefixMaxSize).length = nodePrefixMaxSize := by
                simp only [List.length_take, List.length_cons, nodePrefixMaxSize] at *; omega
              exact key ((k :: t).take nodePrefixMaxSize) nn _ (by simp [nodePrefixMaxSize])
                (common_take _ _) (by rw [htl]) ihx
          · simp only [hlong, if_false, Option.some.injEq] at hadd
            subst hadd
            have hs := setEntry_spec Node.new e md hmd
            refine key (k :: t) (Node.new.setEntry e md) [] rfl (common_self _) (by simp) ?_
            refine ⟨Node.new.setEntry e md, ?_, hs.1⟩
            cases fl with
            | zero => simp at hfl
            | succ fl' => simp [lookupNode, load_stable _ (Or.inr hs.2)]
        · simp [hl] at hadd
      | some pc =>
        obtain ⟨pfx, child⟩ := pc
        simp only [hff] at hadd
        have hh := findFork_some_head hff
        simp only at hh
        generalize hnn0 : (if (pfx.drop (common pfx (k :: t)).length).isEmpty = true then child
            else Node.mk ((k :: t).length == (common pfx (k :: t)).length) false none [] [] true
              [(pfx.drop (common pfx (k :: t)).length, child)]) = nn0 at hadd
        cases hnn : add fa nn0 ((k :: t).drop (common pfx (k :: t)).length) e md with
        | none => simp [hnn] at hadd
        | some nn =>
          simp only [hnn, Option.some.injEq] at hadd
          subst hadd
          have hch := common_head hh (show (k :: t).head? = some k from rfl)
          have hcpos : 0 < (common pfx (k :: t)).length := by
            cases hcc : common pfx (k :: t) with
            | nil => rw [hcc] at hch; simp at hch
            | cons a b => simp
          have hlen : ((k :: t).drop (common pfx (k :: t)).length).length < fa := by
            simp only [List.length_drop, List.length_cons] at *; omega
          have hlen2 : ((k :: t).drop (common pfx (k :: t)).length).length < fl := by
            simp only [List.length_drop, List.length_cons] at *; omega
          have ihx := ih nn0 _ nn fl hlen hlen2 hnn
          exact key (common pfx (k :: t)) nn _ hch (common_common_right _ _) rfl ihx


/-- lookup after a successful remove follows the path `remove` took: for every node state -/
theorem lookup_remove :
    ∀ (fr : Nat) (n : Node) (p : Bytes) (n' : Node) (fl : Nat), p.length < fr → p.length < fl →
      remove fr n p = (n', RemoveRes.ok) → (lookupNode fl n' p).2 = none := by
  intro fr
  induction fr with
  | zero => intro n p n' fl h; omega
  | succ fr ih =>
    intro n p n' fl hfr hfl hrem
    cases fl with
    | zero => omega
    | succ fl =>
    cases p with
    | nil => simp [remove] at hrem
    | cons k t =>
      simp only [remove] at hrem
      have hst1 := load_stable' n
      cases hff : findFork n.load.forks k with
      | none => simp [hff] at hrem
      | some pc =>
        obtain ⟨pfx, child⟩ := pc
        simp only [hff] at hrem
        have hh := findFork_some_head hff
        simp only at hh
        by_cases hpre : isPrefix pfx (k :: t) = true
        · simp only [hpre, Bool.not_true, Bool.false_eq_true, if_false] at hrem
          by_cases hrest : ((k :: t).drop pfx.length).isEmpty = true
          · simp only [hrest, if_true, Prod.mk.injEq, and_true] at hrem
            subst hrem
            have hst : (n.load.setForks (delFork n.load.forks k)).loaded = true ∨
                (n.load.setForks (delFork n.load.forks k)).ref = none := by
              rw [setForks_loaded, setForks_ref]; exact hst1
            simp [lookupNode, load_stable _ hst, setForks_forks, findFork_delFork]
          · simp only [hrest, Bool.false_eq_true, if_false, Prod.mk.injEq] at hrem
            obtain ⟨h1, h2⟩ := hrem
            subst h1
            have hst : (n.load.setForks (setFork n.load.forks k (pfx, (remove fr child ((k :: t).drop pfx.length)).1))).loaded = true ∨
                (n.load.setForks (setFork n.load.forks k (pfx, (remove fr child ((k :: t).drop pfx.length)).1))).ref = none := by
              rw [setForks_loaded, setForks_ref]; exact hst1
            have hppos : 0 < pfx.length := by
              cases pfx with
              | nil => simp at hh
              | cons a b => simp
            have hl1 : ((k :: t).drop pfx.length).length < fr := by
              simp only [List.length_drop, List.length_cons] at *; omega
            have hl2 : ((k :: t).drop pfx.length).length < fl := by
              simp only [List.length_drop, List.length_cons] at *; omega
            have ihx := ih child _ (remove fr child ((k :: t).drop pfx.length)).1 fl hl1 hl2
              (by rw [← h2])
            simp only [lookupNode, load_stable _ hst, setForks_forks,
              findFork_setFork_same _ k (pfx, _) hh, common_of_isPrefix _ _ hpre, if_true]
            exact ihx
        · simp [hpre] at hrem

end Aurora.Mantaray
