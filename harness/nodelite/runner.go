package nodelite

import (
	"bytes"
	"context"
	"errors"
	"fmt"
	"os"
	"sort"
	"strconv"
	"strings"

	"github.com/gauss-project/aurorafs/pkg/boson"
	"github.com/gauss-project/aurorafs/pkg/cac"
	"github.com/gauss-project/aurorafs/pkg/chunkinfo"
	"github.com/gauss-project/aurorafs/pkg/localstore"
	"github.com/gauss-project/aurorafs/pkg/storage"

	"verifharness/core"
)

// ---- file specs ------------------------------------------------------------------------------
//
// A file spec is `name/LETTERS`: every upper-case letter A..H is one full 256 KiB chunk, a
// lower-case letter a..h (allowed only in last position) a short last chunk of 1000+k bytes.
// Equal letters are equal content, hence equal chunks: `x/ABA` has a repeated chunk, `y/AB` is a
// chunk-aligned prefix of it, `z/ABA` is the same content under another name (another manifest).
// A directory spec joins 2..4 file specs with `+`.

const ChunkSize = 262144

// ChunkContent is the content of one letter.
func ChunkContent(letter byte) []byte {
	n := ChunkSize
	if letter >= 'a' {
		n = 1000 + int(letter-'a')
	}
	b := make([]byte, n)
	for i := range b {
		b[i] = letter ^ byte(i%251) ^ byte((i/251)%13)
	}
	return b
}

type SubSpec struct {
	Name    string
	Letters string
}

// ParseSpec validates and splits a spec.
func ParseSpec(s string) ([]SubSpec, bool) {
	parts := strings.Split(s, "+")
	if len(parts) == 0 || len(parts) > 4 {
		return nil, false
	}
	var out []SubSpec
	seen := map[string]bool{}
	for _, p := range parts {
		f := strings.Split(p, "/")
		if len(f) != 2 || len(f[0]) == 0 || len(f[0]) > 3 || len(f[1]) == 0 || len(f[1]) > 6 {
			return nil, false
		}
		for _, c := range f[0] {
			if !(c >= 'a' && c <= 'z' || c >= '0' && c <= '9') {
				return nil, false
			}
		}
		for i := 0; i < len(f[1]); i++ {
			c := f[1][i]
			switch {
			case c >= 'A' && c <= 'H':
			case c >= 'a' && c <= 'h' && i == len(f[1])-1:
			default:
				return nil, false
			}
		}
		if seen[f[0]] {
			return nil, false
		}
		seen[f[0]] = true
		out = append(out, SubSpec{Name: f[0], Letters: f[1]})
	}
	return out, true
}

func contentOf(letters string) []byte {
	var out []byte
	for i := 0; i < len(letters); i++ {
		out = append(out, ChunkContent(letters[i])...)
	}
	return out
}

// ---- file knowledge ---------------------------------------------------------------------------

// File is what the harness knows about one spec.
type File struct {
	Spec    string
	Subs    []SubSpec
	Enc     bool
	Root    boson.Address
	Data    []boson.Address   // data chunks in GetChunkHashes order, with repetitions (plain files)
	SubData [][]boson.Address // per entry, in the same order
	SubName []string          // entry name per SubData element
	Hash    []boson.Address   // pyramid keys that are not data chunks of a multi-chunk file ("mate")
	All     []boson.Address   // every chunk written by the upload (ground truth, distinct)
	AtN     bool              // uploaded through N's API
	AtP     bool              // uploaded at the peer
	Raw     bool              // POST /bytes upload (no manifest, not registered with chunkinfo)
	Writes  []boson.Address   // Put sequence of the last upload (with repetitions)
}

// HasAddr tells whether a is one of the file's chunks.
func (f *File) HasAddr(a boson.Address) bool {
	for _, x := range f.All {
		if x.Equal(a) {
			return true
		}
	}
	return false
}

// ---- snapshots --------------------------------------------------------------------------------

type GCEnt struct {
	Root  boson.Address
	Count uint64
}

// Snap is the observable state of node N after an operation.
type Snap struct {
	Stored map[string]bool   // address string -> has chunk (over all known addresses)
	Pin    map[string]uint64 // whole pin index
	GC     []GCEnt           // gc index in index order
	Access []boson.Address
	GCSize uint64
	CI     chunkinfo.VerifState
	Keys   []string // state-store keys (chunk-/discover-/sourceChunk-/sourcePyramid-/root-pin)
	Listed []string // GET /pins
}

// ---- events / oracles ---------------------------------------------------------------------------

type Event struct {
	Kind    string // up upenc pup pyr fetch ask pin unpin haspin pins del gc gcr read get getfault serve reinit download
	File    *File
	Arg     []string
	Code    int    // HTTP status (0 if none)
	Word    string // result word
	Before  *Snap
	After   *Snap
	Runner  *Runner
	GCRuns  int
	GCCount uint64
	Skipped bool // guard answered (nofile / unstable / bad-op): nothing executed
	// gcr only: the racing operation ran (the run called DelFile for the trigger first); snapshots taken
	// inside the window right before / after the racing operation; its target file and status
	Fired      bool
	Mid0, Mid1 *Snap
	Target     *File
	RaceCode   string
	Served     boson.Address // serve only: the chunk delivered to the peer
}

type Oracle interface {
	Check(ctx *core.Ctx, ev *Event)
}

// ---- runner ---------------------------------------------------------------------------------------

type Runner struct {
	N, P    *Node
	clock   int64
	restore func()
	ids     map[string]int
	addrs   []boson.Address
	files   map[string]*File
	order   []string // specs in order of first upload
	oracles []Oracle
	// history facts for oracles
	Uploaded   map[string]bool // chunk address -> written by an upload at N (ModePutUpload*)
	EverCached map[string]bool // chunk address -> ever put by request mode at N (pyramid / retrieval)
	err        error
}

func NewRunner(oracles ...Oracle) *Runner {
	rn := &Runner{ids: map[string]int{}, files: map[string]*File{}, oracles: oracles, clock: 1,
		Uploaded: map[string]bool{}, EverCached: map[string]bool{}}
	rn.restore = localstore.VerifSetNow(func() int64 { return rn.clock })
	a1 := make([]byte, 32)
	a1[0] = 0x11
	a2 := make([]byte, 32)
	a2[0] = 0x22
	var err error
	if rn.N, err = New(a1); err != nil {
		panic(err)
	}
	if rn.P, err = New(a2); err != nil {
		panic(err)
	}
	Connect(rn.N, rn.P)
	return rn
}

func (rn *Runner) Close() {
	rn.N.Close()
	rn.P.Close()
	rn.restore()
}

// Files returns the known files in order of first upload.
func (rn *Runner) Files() []*File {
	var out []*File
	for _, s := range rn.order {
		out = append(out, rn.files[s])
	}
	return out
}

func (rn *Runner) id(a boson.Address) int {
	k := a.String()
	if v, ok := rn.ids[k]; ok {
		return v
	}
	v := len(rn.addrs) + 1
	rn.ids[k] = v
	rn.addrs = append(rn.addrs, a)
	return v
}

// ID returns the symbolic id of an address (0 = unknown to the model).
func (rn *Runner) ID(a boson.Address) int { return rn.ids[a.String()] }

func (rn *Runner) idList(l []boson.Address) string {
	if len(l) == 0 {
		return "-"
	}
	var s []string
	for _, a := range l {
		s = append(s, strconv.Itoa(rn.id(a)))
	}
	return strings.Join(s, ".")
}

func ovName(rn *Runner, o string) string {
	switch o {
	case rn.N.Addr.String():
		return "n"
	case rn.P.Addr.String():
		return "p"
	}
	return "?"
}

func bitString(l int, b []byte) string {
	var sb strings.Builder
	for i := 0; i < l; i++ {
		if i/8 < len(b) && b[i/8]&(1<<(uint(i)%8)) != 0 {
			sb.WriteByte('1')
		} else {
			sb.WriteByte('0')
		}
	}
	if l == 0 {
		return "-"
	}
	return sb.String()
}

// Snapshot reads the observable state of N.
func (rn *Runner) Snapshot() *Snap {
	n := rn.N
	n.Quiesce()
	s := &Snap{Stored: map[string]bool{}, Pin: map[string]uint64{}}
	for _, a := range rn.addrs {
		if len(a.Bytes()) != 32 {
			continue
		}
		has, err := n.DB.Has(context.Background(), storage.ModeHasChunk, a)
		if err != nil {
			panic(err)
		}
		s.Stored[a.String()] = has
	}
	d, err := n.DB.VerifDumpLite()
	if err != nil {
		panic(err)
	}
	for _, p := range d.Pin {
		s.Pin[boson.NewAddress(p.Address).String()] = p.PinCounter
	}
	for _, g := range d.GC {
		s.GC = append(s.GC, GCEnt{Root: boson.NewAddress(g.Address), Count: g.GCounter})
	}
	for _, a := range d.Access {
		s.Access = append(s.Access, boson.NewAddress(a.Address))
	}
	s.GCSize = d.GCSize
	s.CI = n.CI.VerifDump()
	for _, k := range n.StateKeys("") {
		if k == "statestore_schema" {
			continue
		}
		s.Keys = append(s.Keys, k)
	}
	s.Listed, _ = n.Pins()
	return s
}

// sid: symbolic id for dumps; 64-byte (encrypted) references are hidden everywhere but in the pin list
func (rn *Runner) sid(hexAddr string) (int, bool) {
	if len(hexAddr) != 64 {
		return 0, false
	}
	id, ok := rn.ids[hexAddr]
	return id, ok
}

// symbolic rendering of state-store keys: prefix:root[:overlay]
func (rn *Runner) symKey(k string) (string, bool) {
	for _, pf := range []struct{ p, s string }{{"chunk-", "c"}, {"discover-", "d"}, {"sourceChunk-", "sc"}, {"sourcePyramid-", "sp"}} {
		if strings.HasPrefix(k, pf.p) {
			rest := strings.SplitN(strings.TrimPrefix(k, pf.p), "-", 2)
			if len(rest) != 2 {
				return "", false
			}
			id, ok := rn.sid(rest[0])
			if !ok {
				return "", false
			}
			return fmt.Sprintf("%s:%d:%s", pf.s, id, ovName(rn, rest[1])), true
		}
	}
	if strings.HasPrefix(k, "root-pin-") {
		id, ok := rn.ids[strings.TrimPrefix(k, "root-pin-")]
		if !ok {
			return "", false
		}
		return fmt.Sprintf("rp:%d", id), true
	}
	return "", false
}

// Show renders a snapshot with symbolic ids, exactly as lean/Driver/NodeLite.lean `showState`.
// Addresses without id (chunks of encrypted uploads) are left out.
func (rn *Runner) Show(s *Snap) string {
	var sb strings.Builder
	var ids []int
	for k, v := range s.Stored {
		if v {
			ids = append(ids, rn.ids[k])
		}
	}
	sort.Ints(ids)
	sb.WriteString("S[")
	for i, v := range ids {
		if i > 0 {
			sb.WriteByte(',')
		}
		sb.WriteString(strconv.Itoa(v))
	}
	sb.WriteString("] P[")
	type kv struct {
		k int
		v uint64
	}
	var pins []kv
	for k, v := range s.Pin {
		if id, ok := rn.sid(k); ok {
			pins = append(pins, kv{id, v})
		}
	}
	sort.Slice(pins, func(i, j int) bool { return pins[i].k < pins[j].k })
	for i, p := range pins {
		if i > 0 {
			sb.WriteByte(',')
		}
		fmt.Fprintf(&sb, "%d=%d", p.k, p.v)
	}
	sb.WriteString("] G[")
	first := true
	for _, g := range s.GC {
		id, ok := rn.sid(g.Root.String())
		if !ok {
			continue
		}
		if !first {
			sb.WriteByte(',')
		}
		first = false
		fmt.Fprintf(&sb, "%d=%d", id, g.Count)
	}
	sb.WriteString("] A[")
	var acc []int
	for _, a := range s.Access {
		if id, ok := rn.sid(a.String()); ok {
			acc = append(acc, id)
		}
	}
	sort.Ints(acc)
	for i, v := range acc {
		if i > 0 {
			sb.WriteByte(',')
		}
		sb.WriteString(strconv.Itoa(v))
	}
	fmt.Fprintf(&sb, "] Z=%d C[", s.GCSize)
	var refs []kv
	for _, c := range s.CI.Chunk {
		if id, ok := rn.sid(c.Cid); ok {
			refs = append(refs, kv{id, uint64(c.Count)})
		}
	}
	sort.Slice(refs, func(i, j int) bool { return refs[i].k < refs[j].k })
	for i, p := range refs {
		if i > 0 {
			sb.WriteByte(',')
		}
		fmt.Fprintf(&sb, "%d=%d", p.k, p.v)
	}
	sb.WriteString("] R[")
	type rr struct {
		id int
		s  string
	}
	var roots []rr
	bits := func(l []chunkinfo.VerifBits) string {
		var x []string
		for _, b := range l {
			x = append(x, ovName(rn, b.Overlay)+">"+bitString(b.Len, b.B))
		}
		sort.Strings(x)
		if len(x) == 0 {
			return "-"
		}
		return strings.Join(x, ";")
	}
	for _, r := range s.CI.Roots {
		id, ok := rn.sid(r.Root)
		if !ok {
			continue
		}
		hd := "-"
		if r.HasHashData {
			hd = fmt.Sprintf("%d/%d", r.ChunkMax, r.HashMax)
		}
		pr := "-"
		if r.HasPresence {
			pr = bits(r.Presence)
			if pr == "-" {
				pr = "e"
			}
		}
		dc := "-"
		if r.HasDiscover {
			dc = bits(r.Discover)
			if dc == "-" {
				dc = "e"
			}
		}
		sc := "-"
		if r.HasSource {
			sc = ovName(rn, r.PyramidSource) + "!" + bits(r.ChunkSource)
		}
		roots = append(roots, rr{id, fmt.Sprintf("%d:h=%s:p=%s:d=%s:s=%s", id, hd, pr, dc, sc)})
	}
	sort.Slice(roots, func(i, j int) bool { return roots[i].id < roots[j].id })
	for i, r := range roots {
		if i > 0 {
			sb.WriteByte(' ')
		}
		sb.WriteString(r.s)
	}
	sb.WriteString("] K[")
	var keys []string
	for _, k := range s.Keys {
		if sk, ok := rn.symKey(k); ok {
			keys = append(keys, sk)
		}
	}
	sort.Strings(keys)
	sb.WriteString(strings.Join(keys, ","))
	sb.WriteString("] L[")
	var ls []int
	for _, l := range s.Listed {
		if id, ok := rn.ids[l]; ok {
			ls = append(ls, id)
		}
	}
	sort.Ints(ls)
	for i, v := range ls {
		if i > 0 {
			sb.WriteByte(',')
		}
		sb.WriteString(strconv.Itoa(v))
	}
	sb.WriteString("]")
	return sb.String()
}

// structure of a plain upload: ground truth from the content (cac addresses of the 256 KiB pieces)
// and the Put log; data order and pyramid keys as the real traversal reports them (annotation),
// cross-checked against the ground truth.
func (rn *Runner) learn(ctx *core.Ctx, node *Node, f *File, written []boson.Address) {
	seen := map[string]bool{}
	f.All = nil
	for _, a := range written {
		if !seen[a.String()] {
			seen[a.String()] = true
			f.All = append(f.All, a)
		}
	}
	if f.Enc {
		return
	}
	// ground truth data chunks per entry
	truth := map[string][]boson.Address{}
	dataSet := map[string]bool{}
	single := map[string]bool{}
	for _, sub := range f.Subs {
		c := contentOf(sub.Letters)
		for off := 0; off < len(c); off += ChunkSize {
			end := off + ChunkSize
			if end > len(c) {
				end = len(c)
			}
			ch, err := cac.New(c[off:end])
			if err != nil {
				panic(err)
			}
			truth[sub.Name] = append(truth[sub.Name], ch.Address())
			dataSet[ch.Address().String()] = true
			if len(c) <= ChunkSize {
				single[ch.Address().String()] = true
			}
		}
	}
	hashes, _, err := node.Trav.GetChunkHashes(context.Background(), f.Root, nil)
	if err != nil {
		ctx.Fail("harness-structure", "GetChunkHashes(%s): %v", f.Spec, err)
		return
	}
	f.Data, f.SubData, f.SubName = nil, nil, nil
	used := map[string]bool{}
	for _, li := range hashes {
		var l []boson.Address
		for _, b := range li {
			l = append(l, boson.NewAddress(b))
		}
		// which entry is it?  match against the ground truth lists
		name := ""
		for _, sub := range f.Subs {
			if used[sub.Name] {
				continue
			}
			t := truth[sub.Name]
			if len(t) == len(l) {
				same := true
				for i := range t {
					if !t[i].Equal(l[i]) {
						same = false
					}
				}
				if same {
					name = sub.Name
					break
				}
			}
		}
		if name == "" {
			ctx.Fail("harness-structure", "traversal reports a data list that is not the chunk list of any entry of %s", f.Spec)
		}
		used[name] = true
		f.SubData = append(f.SubData, l)
		f.SubName = append(f.SubName, name)
		f.Data = append(f.Data, l...)
	}
	if len(f.SubData) != len(f.Subs) {
		ctx.Fail("harness-structure", "traversal reports %d entries for %s", len(f.SubData), f.Spec)
	}
	pyr, err := node.Trav.GetPyramid(context.Background(), f.Root)
	if err != nil {
		ctx.Fail("harness-structure", "GetPyramid(%s): %v", f.Spec, err)
		return
	}
	f.Hash = nil
	for k := range pyr {
		a := boson.MustParseHexAddress(k)
		if dataSet[k] && !single[k] {
			ctx.Fail("harness-structure", "pyramid of %s contains data chunk %s of a multi-chunk entry", f.Spec, k[:8])
		}
		if !seen[k] {
			ctx.Fail("harness-structure", "pyramid of %s contains %s which the upload never wrote", f.Spec, k[:8])
		}
		f.Hash = append(f.Hash, a)
	}
	sort.Slice(f.Hash, func(i, j int) bool { return bytes.Compare(f.Hash[i].Bytes(), f.Hash[j].Bytes()) < 0 })
	// every written chunk is a data chunk or a pyramid key
	inH := map[string]bool{}
	for _, a := range f.Hash {
		inH[a.String()] = true
	}
	for _, a := range f.All {
		if !dataSet[a.String()] && !inH[a.String()] {
			ctx.Fail("harness-structure", "upload of %s wrote %s which is neither data nor pyramid", f.Spec, a.String()[:8])
		}
	}
}

// learnRaw: structure of a /bytes upload: data chunks from the content, everything else written
// is an intermediate chunk.
func (rn *Runner) learnRaw(ctx *core.Ctx, f *File, written []boson.Address) {
	f.All, f.Data, f.Hash = nil, nil, nil
	seen := map[string]bool{}
	for _, a := range written {
		if !seen[a.String()] {
			seen[a.String()] = true
			f.All = append(f.All, a)
		}
	}
	c := contentOf(f.Subs[0].Letters)
	data := map[string]bool{}
	for off := 0; off < len(c); off += ChunkSize {
		end := off + ChunkSize
		if end > len(c) {
			end = len(c)
		}
		ch, err := cac.New(c[off:end])
		if err != nil {
			panic(err)
		}
		f.Data = append(f.Data, ch.Address())
		data[ch.Address().String()] = true
		if !seen[ch.Address().String()] {
			ctx.Fail("harness-structure", "raw upload did not write data chunk %d", off/ChunkSize)
		}
	}
	for _, a := range f.All {
		if !data[a.String()] {
			f.Hash = append(f.Hash, a)
		}
	}
	sort.Slice(f.Hash, func(i, j int) bool { return bytes.Compare(f.Hash[i].Bytes(), f.Hash[j].Bytes()) < 0 })
}

func (rn *Runner) annotateStruct(ctx *core.Ctx, f *File) {
	if f.Enc {
		ctx.Annotate("r=" + strconv.Itoa(rn.id(f.Root)))
		return
	}
	// id assignment order: root, data, hash
	r := rn.id(f.Root)
	var subs []string
	for i, l := range f.SubData {
		subs = append(subs, f.SubName[i]+":"+rn.idList(l))
	}
	if len(subs) == 0 {
		subs = []string{"-"}
	}
	ctx.Annotate("r="+strconv.Itoa(r), "d="+strings.Join(subs, ","), "h="+rn.idList(f.Hash), "w="+rn.idList(f.Writes))
}

// Complete: every pyramid key of f is stored at N (traversals of f from the local store succeed).
func (rn *Runner) Complete(f *File, s *Snap) bool {
	if f.Enc {
		return true
	}
	for _, a := range f.Hash {
		if !s.Stored[a.String()] {
			return false
		}
	}
	return s.Stored[f.Root.String()]
}

func (rn *Runner) lookup(spec string) *File { return rn.files[spec] }

// Step executes one op line.
func (rn *Runner) Step(ctx *core.Ctx, op []string) string {
	if len(op) == 0 {
		return "bad-op"
	}
	rn.clock++
	before := rn.Snapshot()
	ev := &Event{Kind: op[0], Arg: op[1:], Before: before, Runner: rn}
	out := rn.exec(ctx, ev, op)
	rn.N.Refresh()
	ev.After = rn.Snapshot()
	if ev.Word == "" {
		ev.Word = out
	}
	for _, o := range rn.oracles {
		o.Check(ctx, ev)
	}
	if ev.Skipped {
		return out
	}
	return out + " " + rn.Show(ev.After)
}

func skip(ev *Event, w string) string {
	ev.Skipped = true
	ev.Word = w
	return w
}

func (rn *Runner) exec(ctx *core.Ctx, ev *Event, op []string) string {
	n := rn.N
	switch op[0] {
	case "up", "upenc", "pup":
		if len(op) != 3 || (op[2] != "0" && op[2] != "1") {
			return skip(ev, "bad-op")
		}
		subs, ok := ParseSpec(op[1])
		if !ok {
			return skip(ev, "bad-op")
		}
		enc := op[0] == "upenc"
		if enc && len(subs) != 1 {
			return skip(ev, "bad-op")
		}
		pin := op[2] == "1"
		node := n
		if op[0] == "pup" {
			node = rn.P
			pin = false
		}
		f := rn.files[op[1]]
		if f != nil && f.Enc != enc {
			return skip(ev, "bad-op") // one spec is either always plain or always encrypted within a case
		}
		var (
			ref     boson.Address
			written []boson.Address
			code    int
			err     error
		)
		if len(subs) == 1 {
			ref, written, code, err = node.Upload(subs[0].Name, contentOf(subs[0].Letters), pin, enc)
		} else {
			var files []DirFile
			for _, s := range subs {
				files = append(files, DirFile{Path: s.Name, Content: contentOf(s.Letters)})
			}
			ref, written, code, err = node.UploadDir(files, pin)
		}
		ev.Code = code
		if err != nil {
			ctx.Fail("harness-upload", "%v", err)
			return strconv.Itoa(code)
		}
		if f == nil {
			f = &File{Spec: op[1], Subs: subs, Enc: enc}
			rn.files[op[1]] = f
			rn.order = append(rn.order, op[1])
		} else if !enc && !f.Root.Equal(ref) {
			ctx.Fail("harness-structure", "second upload of %s gives another reference", op[1])
		}
		if enc && f.Root.Bytes() != nil {
			// a second encrypted upload is a different reference: keep all chunks, the last root
			written = append(append([]boson.Address(nil), f.All...), written...)
		}
		f.Root = ref
		f.Writes = written
		rn.learn(ctx, node, f, written)
		ev.File = f
		if node == n {
			f.AtN = true
			for _, a := range written {
				rn.Uploaded[a.String()] = true
			}
		} else {
			f.AtP = true
		}
		rn.annotateStruct(ctx, f)
		return strconv.Itoa(code)

	case "raw":
		// raw <LETTERS> <pin>: POST /bytes — a local upload that is not registered with chunkinfo
		if len(op) != 3 || (op[2] != "0" && op[2] != "1") {
			return skip(ev, "bad-op")
		}
		subs, ok := ParseSpec("r/" + op[1])
		if !ok {
			return skip(ev, "bad-op")
		}
		ref, written, code, err := n.UploadBytes(contentOf(subs[0].Letters), op[2] == "1")
		ev.Code = code
		if err != nil {
			ctx.Fail("harness-upload", "%v", err)
			return strconv.Itoa(code)
		}
		spec := "=" + op[1]
		f := rn.files[spec]
		if f == nil {
			f = &File{Spec: spec, Subs: subs, Raw: true}
			rn.files[spec] = f
			rn.order = append(rn.order, spec)
		}
		f.Root = ref
		f.AtN = true
		rn.learnRaw(ctx, f, written)
		ev.File = f
		for _, a := range written {
			rn.Uploaded[a.String()] = true
		}
		ctx.Annotate("r="+strconv.Itoa(rn.id(f.Root)), "d="+rn.idList(f.Data), "h="+rn.idList(f.Hash), "w="+rn.idList(written))
		return strconv.Itoa(code)

	case "pins":
		if len(op) != 1 {
			return skip(ev, "bad-op")
		}
		_, code := n.Pins()
		ev.Code = code
		return strconv.Itoa(code)

	case "reinit":
		if len(op) != 1 {
			return skip(ev, "bad-op")
		}
		for _, f := range rn.Files() {
			if f.AtN || rn.known(f, ev.Before) {
				if !rn.Complete(f, ev.Before) && rn.hasKeys(f, ev.Before) {
					return skip(ev, "unstable")
				}
			}
		}
		if err := n.Reinit(); err != nil {
			return "err"
		}
		return "ok"

	case "gc":
		if len(op) != 2 {
			return skip(ev, "bad-op")
		}
		c, err := strconv.ParseUint(op[1], 10, 32)
		if err != nil {
			return skip(ev, "bad-op")
		}
		// guard: every gc-indexed root is a known plain file whose pyramid is complete locally
		for _, g := range ev.Before.GC {
			f := rn.byRoot(g.Root)
			if f == nil || f.Enc || !rn.Complete(f, ev.Before) {
				return skip(ev, "unstable")
			}
		}
		runs, col, e := n.CollectGarbage(c)
		ev.GCRuns, ev.GCCount = runs, col
		n.DB.VerifSetCapacity(DefaultCapacity)
		if e != nil {
			return "err"
		}
		return fmt.Sprintf("ok c=%d", col)
	case "gcr2":
		// gcr2 <capacity> <first spec> <second spec>: a collection as `gc`; if the first run calls DelFile for <first> and then
		// for <second>, `POST /pins` of <first> is executed inside that second call: after the callback of <first> has decided
		// that file's deletions (they sit in the run's batch), before the batch is committed.
		if len(op) != 4 {
			return skip(ev, "bad-op")
		}
		c, err := strconv.ParseUint(op[1], 10, 32)
		if err != nil {
			return skip(ev, "bad-op")
		}
		_, ok1 := ParseSpec(op[2])
		_, ok2 := ParseSpec(op[3])
		if !ok1 || !ok2 {
			return skip(ev, "bad-op")
		}
		for _, g := range ev.Before.GC {
			f := rn.byRoot(g.Root)
			if f == nil || f.Enc || !rn.Complete(f, ev.Before) {
				return skip(ev, "unstable")
			}
		}
		f1, f2 := rn.lookup(op[2]), rn.lookup(op[3])
		if f1 == nil || f2 == nil {
			return skip(ev, "nofile")
		}
		if f1.Enc || f2.Enc {
			return skip(ev, "bad-op")
		}
		if !rn.known(f1, ev.Before) || !rn.Complete(f1, ev.Before) {
			return skip(ev, "unstable")
		}
		ev.File, ev.Target = f2, f1
		ev.RaceCode = "-"
		hook := func() {
			ev.Mid0 = rn.Snapshot()
			ev.RaceCode = strconv.Itoa(n.PinRef(f1.Root))
			n.Quiesce()
			ev.Mid1 = rn.Snapshot()
		}
		runs, col, fired, e := n.CollectGarbageRace(c, []boson.Address{f1.Root, f2.Root}, hook)
		ev.GCRuns, ev.GCCount, ev.Fired = runs, col, fired
		n.DB.VerifSetCapacity(DefaultCapacity)
		if e != nil {
			return "err"
		}
		fl := 0
		if fired {
			fl = 1
		}
		return fmt.Sprintf("ok c=%d f=%d r=%s", col, fl, ev.RaceCode)

	case "gcr":
		// gcr <capacity> <trigger spec> pin|unpin|get <target spec> -|d<i>|h<i>
		// a collection as `gc`; when the first run calls DelFile for its FIRST candidate and that candidate is
		// the trigger file, the operation on the target file is executed to completion inside that call —
		// after the run selected (and, in a changed tree, possibly checked) the candidate, before the deletion
		// callback takes batchMu and re-checks the dirty addresses.
		if len(op) != 6 {
			return skip(ev, "bad-op")
		}
		c, err := strconv.ParseUint(op[1], 10, 32)
		if err != nil {
			return skip(ev, "bad-op")
		}
		_, ok1 := ParseSpec(op[2])
		_, ok2 := ParseSpec(op[4])
		if !ok1 || !ok2 {
			return skip(ev, "bad-op")
		}
		act, which := op[3], op[5]
		idx := -1
		switch act {
		case "pin", "unpin":
			if which != "-" {
				return skip(ev, "bad-op")
			}
		case "get":
			if len(which) < 2 || (which[0] != 'd' && which[0] != 'h') {
				return skip(ev, "bad-op")
			}
			i, err := strconv.Atoi(which[1:])
			if err != nil || i < 0 {
				return skip(ev, "bad-op")
			}
			idx = i
		default:
			return skip(ev, "bad-op")
		}
		for _, g := range ev.Before.GC {
			f := rn.byRoot(g.Root)
			if f == nil || f.Enc || !rn.Complete(f, ev.Before) {
				return skip(ev, "unstable")
			}
		}
		trig, tgt := rn.lookup(op[2]), rn.lookup(op[4])
		if trig == nil || tgt == nil {
			return skip(ev, "nofile")
		}
		if trig.Enc || tgt.Enc {
			return skip(ev, "bad-op")
		}
		var a boson.Address
		if act == "get" {
			switch {
			case which[0] == 'h' && idx < len(tgt.Hash):
				a = tgt.Hash[idx]
			case which[0] == 'd' && idx < len(tgt.Data):
				a = tgt.Data[idx]
			default:
				return skip(ev, "bad-op")
			}
		}
		if !rn.known(tgt, ev.Before) || !rn.Complete(tgt, ev.Before) {
			return skip(ev, "unstable")
		}
		if act == "get" && !ev.Before.Stored[a.String()] {
			return skip(ev, "absent")
		}
		ev.File, ev.Target = trig, tgt
		ev.RaceCode = "-"
		hook := func() {
			ev.Mid0 = rn.Snapshot()
			switch act {
			case "pin":
				ev.RaceCode = strconv.Itoa(n.PinRef(tgt.Root))
			case "unpin":
				ev.RaceCode = strconv.Itoa(n.UnpinRef(tgt.Root))
			default:
				if err := n.GetUnderRoot(tgt.Root, a, storage.ModeGetRequest); err != nil {
					ev.RaceCode = "err"
				} else {
					ev.RaceCode = "ok"
				}
			}
			n.Quiesce() // the access-time updates of the racing reads are done (and logged as dirty) before the callback
			ev.Mid1 = rn.Snapshot()
		}
		runs, col, fired, e := n.CollectGarbageRace(c, []boson.Address{trig.Root}, hook)
		ev.GCRuns, ev.GCCount, ev.Fired = runs, col, fired
		n.DB.VerifSetCapacity(DefaultCapacity)
		if e != nil {
			return "err"
		}
		fl := 0
		if fired {
			fl = 1
		}
		return fmt.Sprintf("ok c=%d f=%d r=%s", col, fl, ev.RaceCode)
	case "delr":
		// delr <spec A> up <spec B> <pin>  |  delr <spec A> del <spec B> -
		// DELETE /aurora/{A} is held at the entry of ChunkInfo.DelFile (everything the handler does before
		// DelFile has happened, nothing of what DelFile serialises has); meanwhile the second operation — an
		// upload of B or a complete DELETE of B — runs to completion through the API; then the held delete
		// continues.  DelFile takes chunkinfo's syncLk, so in the real system the two are serialised in exactly
		// this order: B's operation, then A's list-and-remove.
		if len(op) != 5 || (op[2] != "up" && op[2] != "del") {
			return skip(ev, "bad-op")
		}
		_, okA := ParseSpec(op[1])
		subsB, okB := ParseSpec(op[3])
		if !okA || !okB || op[1] == op[3] {
			return skip(ev, "bad-op")
		}
		if (op[2] == "up" && op[4] != "0" && op[4] != "1") || (op[2] == "del" && op[4] != "-") {
			return skip(ev, "bad-op")
		}
		fa, fb := rn.lookup(op[1]), rn.lookup(op[3])
		if fa == nil || (op[2] == "del" && fb == nil) {
			return skip(ev, "nofile")
		}
		if fa.Enc || (fb != nil && fb.Enc) {
			return skip(ev, "bad-op")
		}
		if !rn.known(fa, ev.Before) || !rn.Complete(fa, ev.Before) {
			return skip(ev, "unstable")
		}
		if op[2] == "del" && (!rn.known(fb, ev.Before) || !rn.Complete(fb, ev.Before)) {
			return skip(ev, "unstable")
		}
		ev.File = fa
		ev.RaceCode = "-"
		during := func() {
			ev.Mid0 = rn.Snapshot()
			if op[2] == "del" {
				ev.Target = fb
				ev.RaceCode = strconv.Itoa(n.Delete(fb.Root))
			} else {
				var (
					ref     boson.Address
					written []boson.Address
					code    int
					err     error
				)
				pin := op[4] == "1"
				if len(subsB) == 1 {
					ref, written, code, err = n.Upload(subsB[0].Name, contentOf(subsB[0].Letters), pin, false)
				} else {
					var files []DirFile
					for _, s := range subsB {
						files = append(files, DirFile{Path: s.Name, Content: contentOf(s.Letters)})
					}
					ref, written, code, err = n.UploadDir(files, pin)
				}
				ev.RaceCode = strconv.Itoa(code)
				if err != nil {
					ctx.Fail("harness-upload", "%v", err)
					return
				}
				f := fb
				if f == nil {
					f = &File{Spec: op[3], Subs: subsB}
					rn.files[op[3]] = f
					rn.order = append(rn.order, op[3])
				} else if !f.Root.Equal(ref) {
					ctx.Fail("harness-structure", "second upload of %s gives another reference", op[3])
				}
				f.Root = ref
				f.Writes = written
				rn.learn(ctx, n, f, written)
				f.AtN = true
				for _, a := range written {
					rn.Uploaded[a.String()] = true
				}
				ev.Target = f
				rn.annotateStruct(ctx, f)
			}
			ev.Mid1 = rn.Snapshot()
		}
		code, fired := n.DeleteHeld(fa.Root, during)
		ev.Code, ev.Fired = code, fired
		if !fired {
			ctx.Fail("harness-delete-hold", "DELETE of %s never reached ChunkInfo.DelFile (status %d)", op[1], code)
		}
		return fmt.Sprintf("%d r=%s", code, ev.RaceCode)
	}

	// ops on one file
	if len(op) < 2 {
		return skip(ev, "bad-op")
	}
	if _, ok := ParseSpec(op[1]); !ok {
		return skip(ev, "bad-op")
	}
	f := rn.lookup(op[1])
	if f == nil {
		return skip(ev, "nofile")
	}
	ev.File = f
	switch op[0] {
	case "pin", "unpin", "haspin":
		if len(op) != 2 {
			return skip(ev, "bad-op")
		}
		if op[0] != "haspin" && !f.Enc && !rn.Complete(f, ev.Before) {
			return skip(ev, "unstable")
		}
		if op[0] != "haspin" && !f.Enc && !rn.known(f, ev.Before) {
			return skip(ev, "unstable")
		}
		var code int
		switch op[0] {
		case "pin":
			code = n.PinRef(f.Root)
		case "unpin":
			code = n.UnpinRef(f.Root)
		default:
			code = n.HasPinRef(f.Root)
		}
		ev.Code = code
		if f.Enc && op[0] != "haspin" {
			ctx.Annotate("c=" + strconv.Itoa(code)) // outcome of a traversal over 64-byte references: opaque to the model
		}
		return strconv.Itoa(code)

	case "del":
		if len(op) != 2 || f.Enc {
			return skip(ev, "bad-op")
		}
		if !rn.Complete(f, ev.Before) {
			return skip(ev, "unstable")
		}
		code := n.Delete(f.Root)
		ev.Code = code
		return strconv.Itoa(code)

	case "read":
		if len(op) != 2 || f.Enc {
			return skip(ev, "bad-op")
		}
		w := "ok"
		for _, s := range f.Subs {
			path := s.Name
			if len(f.Subs) == 1 {
				path = ""
			}
			b, err := n.ReadLocal(f.Root, path)
			if err != nil {
				w = "missing"
				break
			}
			if !bytes.Equal(b, contentOf(s.Letters)) {
				w = "corrupt"
				break
			}
		}
		ev.Word = w
		return w

	case "pyr":
		if len(op) != 2 || f.Enc {
			return skip(ev, "bad-op")
		}
		if !f.AtP {
			return skip(ev, "nofile")
		}
		if rn.known(f, ev.Before) && !rn.Complete(f, ev.Before) {
			return skip(ev, "unstable")
		}
		if err := n.FetchPyramid(f.Root); err != nil {
			return "err"
		}
		rn.markCached(f.Hash)
		return "ok"

	case "ask":
		if len(op) != 2 || f.Enc {
			return skip(ev, "bad-op")
		}
		if !f.AtP {
			return skip(ev, "nofile")
		}
		if !rn.known(f, ev.Before) || !rn.Complete(f, ev.Before) {
			return skip(ev, "unstable")
		}
		if err := n.AskChunkInfo(f.Root); err != nil {
			return "err"
		}
		return "ok"

	case "fetch":
		// fetch <spec> <entry index> <mask over the entry's data positions>
		if len(op) != 4 || f.Enc {
			return skip(ev, "bad-op")
		}
		k, err := strconv.Atoi(op[2])
		if err != nil || k < 0 || k >= len(f.Subs) {
			return skip(ev, "bad-op")
		}
		if !f.AtP {
			return skip(ev, "nofile")
		}
		if k >= len(f.SubData) {
			return skip(ev, "bad-op")
		}
		mask := op[3]
		if len(mask) != len(f.SubData[k]) || strings.Trim(mask, "01") != "" {
			return skip(ev, "bad-op")
		}
		if !rn.known(f, ev.Before) || !rn.Complete(f, ev.Before) {
			return skip(ev, "unstable") // the harness fetches only after the pyramid exchange (as Init does)
		}
		var ranges [][2]int64
		for i := 0; i < len(mask); i++ {
			if mask[i] == '1' {
				ranges = append(ranges, [2]int64{int64(i) * ChunkSize, int64(i)*ChunkSize + 1})
			}
		}
		path := f.SubName[k]
		if len(f.Subs) == 1 {
			path = ""
		}
		_, touched, err := n.FetchChunks(f.Root, path, ranges)
		ctx.Annotate("t=" + rn.idList(touched))
		if err != nil {
			rn.err = err
			if os.Getenv("VH_DEBUG") != "" {
				fmt.Fprintln(os.Stderr, "fetch error:", err)
			}
			return "err"
		}
		for i := 0; i < len(mask); i++ {
			if mask[i] == '1' {
				rn.markCached(f.SubData[k][i : i+1])
			}
		}
		return "ok"

	case "serve":
		// serve <spec> d<i>|h<i>: the peer asks N for one chunk of the file (N as target); N's retrieval
		// handler delivers it and reports the transfer to chunkinfo (availability record for the peer)
		if len(op) != 3 || f.Enc || len(op[2]) < 2 {
			return skip(ev, "bad-op")
		}
		i, err := strconv.Atoi(op[2][1:])
		if err != nil || i < 0 {
			return skip(ev, "bad-op")
		}
		var a boson.Address
		switch {
		case op[2][0] == 'h' && i < len(f.Hash):
			a = f.Hash[i]
		case op[2][0] == 'd' && i < len(f.Data):
			a = f.Data[i]
		default:
			return skip(ev, "bad-op")
		}
		if !rn.known(f, ev.Before) || !rn.Complete(f, ev.Before) {
			return skip(ev, "unstable")
		}
		if !ev.Before.Stored[a.String()] {
			return skip(ev, "absent")
		}
		data, err := n.ServeToPeer(f.Root, a)
		if err != nil {
			rn.err = err
			if os.Getenv("VH_DEBUG") != "" {
				fmt.Fprintln(os.Stderr, "serve error:", err)
			}
			return "err"
		}
		if ch, err := n.DB.Get(context.Background(), storage.ModeGetLookup, a); err != nil || !bytes.Equal(ch.Data(), data) {
			ctx.Fail("harness-serve", "delivery for %s is not the stored chunk", short(a))
		}
		ev.Served = a
		return "ok"

	case "get":
		// get <spec> h<i>|d<i> : local read of one chunk under the file's context (ModeGetRequest)
		if len(op) != 3 || f.Enc || len(op[2]) < 2 {
			return skip(ev, "bad-op")
		}
		i, err := strconv.Atoi(op[2][1:])
		if err != nil || i < 0 {
			return skip(ev, "bad-op")
		}
		var a boson.Address
		switch {
		case op[2][0] == 'h' && i < len(f.Hash):
			a = f.Hash[i]
		case op[2][0] == 'd' && i < len(f.Data):
			a = f.Data[i]
		default:
			return skip(ev, "bad-op")
		}
		if !rn.known(f, ev.Before) || !rn.Complete(f, ev.Before) {
			return skip(ev, "unstable")
		}
		if !ev.Before.Stored[a.String()] {
			return skip(ev, "absent") // would go to the network; fetch covers that
		}
		if err := n.GetUnderRoot(f.Root, a, storage.ModeGetRequest); err != nil {
			return "err"
		}
		return "ok"

	case "getfault":
		// getfault <spec> h<i>|d<i> : netstore.Get of one chunk under the file's context while the local read of
		// exactly that chunk fails with an error that is not storage.ErrNotFound (the storer netstore reads through
		// answers it; localstore is not reached).  The chunk need not be stored: a failing read does not go to the
		// network.  Guards as for `get` except `absent`.
		if len(op) != 3 || f.Enc || len(op[2]) < 2 {
			return skip(ev, "bad-op")
		}
		i, err := strconv.Atoi(op[2][1:])
		if err != nil || i < 0 {
			return skip(ev, "bad-op")
		}
		var a boson.Address
		switch {
		case op[2][0] == 'h' && i < len(f.Hash):
			a = f.Hash[i]
		case op[2][0] == 'd' && i < len(f.Data):
			a = f.Data[i]
		default:
			return skip(ev, "bad-op")
		}
		if !rn.known(f, ev.Before) || !rn.Complete(f, ev.Before) {
			return skip(ev, "unstable")
		}
		gerr, hits := n.GetFaultUnderRoot(f.Root, a, storage.ModeGetRequest)
		if hits == 0 {
			ctx.Fail("harness-getfault", "netstore.Get of %s did not make the armed local read", short(a))
		}
		if gerr == nil {
			return "ok" // the failed read was answered with a chunk: disagrees with the model's `err`
		}
		if !errors.Is(gerr, errInjectedRead) {
			// e.g. netstore.ErrRecoveryAttempt: the failing read was taken to the network
			ctx.Fail("harness-getfault", "read of %s with a failing local read answered %v, not the read error", short(a), gerr)
		}
		return "err"

	}
	return skip(ev, "bad-op")
}

func (rn *Runner) markCached(l []boson.Address) {
	for _, a := range l {
		rn.EverCached[a.String()] = true
	}
}

// known: chunkinfo has the file registered (pyramid table entry).
func (rn *Runner) known(f *File, s *Snap) bool {
	for _, r := range s.CI.Roots {
		if r.Root == f.Root.String() && r.HasHashData {
			return true
		}
	}
	return false
}

func (rn *Runner) hasKeys(f *File, s *Snap) bool {
	for _, k := range s.Keys {
		if strings.Contains(k, f.Root.String()) && !strings.HasPrefix(k, "root-pin-") {
			return true
		}
	}
	return false
}

func (rn *Runner) byRoot(a boson.Address) *File {
	for _, f := range rn.files {
		if f.Root.Equal(a) {
			return f
		}
	}
	return nil
}
