import Aurora.Model.Pinning
/-!
Helper lemmas for C15 (`Aurora/Props/C15.lean`): counters of the association-list pin index
under `inc` / `dec`, their folds, and the multiset invariant
`counter a = base a + Σ_{r pinned} (occurrences of a among the addresses of r)`.
-/
namespace Aurora.Pinning

theorem lookup_map_upd (m : List (Addr × Nat)) (a b : Addr) (g : Nat → Nat) :
    (m.map (fun e => if e.1 = a then (a, g e.2) else e)).lookup b =
      if b = a then (m.lookup a).map g else m.lookup b := by
  induction m with
  | nil => by_cases h : b = a <;> simp [h]
  | cons e m ih =>
    obtain ⟨k, v⟩ := e
    by_cases hk : k = a
    · subst hk
      by_cases hb : b = k
      · subst hb; simp [List.lookup]
      · have : (b == k) = false := by simpa using hb
        simp [List.lookup, this, hb, ih]
    · by_cases hb : b = k
      · subst hb
        have hba : ¬ b = a := hk
        simp [List.lookup, hk, hba]
      · have h1 : (b == k) = false := by simpa using hb
        have h2 : (a == k) = false := by simpa using fun h => hk h.symm
        simp only [List.map_cons, hk, if_false, List.lookup, h1, h2, ih]

theorem lookup_filter_ne (m : List (Addr × Nat)) (a b : Addr) :
    (m.filter (fun e => e.1 != a)).lookup b = if b = a then none else m.lookup b := by
  induction m with
  | nil => by_cases h : b = a <;> simp [h]
  | cons e m ih =>
    obtain ⟨k, v⟩ := e
    by_cases hk : k = a
    · subst hk
      by_cases hb : b = k
      · subst hb; simp [List.filter, ih]
      · have : (b == k) = false := by simpa using hb
        simp [List.filter, List.lookup, this, hb, ih]
    · have hka : (k != a) = true := by simpa using hk
      by_cases hb : b = k
      · subst hb
        simp [List.filter, hka, List.lookup, hk]
      · have h1 : (b == k) = false := by simpa using hb
        simp only [List.filter, hka, List.lookup, h1, ih]

theorem lookup_append_single (m : List (Addr × Nat)) (a b : Addr) (v : Nat)
    (h : m.lookup a = none) :
    (m ++ [(a, v)]).lookup b = if b = a then some v else m.lookup b := by
  induction m with
  | nil => by_cases hb : b = a <;> simp [List.lookup, hb]
  | cons e m ih =>
    obtain ⟨k, w⟩ := e
    by_cases hak : a = k
    · subst hak; simp [List.lookup] at h
    · have hak' : (a == k) = false := by simpa using hak
      simp only [List.lookup, hak'] at h
      by_cases hb : b = k
      · subst hb
        have : ¬ b = a := fun h' => hak h'.symm
        simp [List.lookup, this]
      · have h1 : (b == k) = false := by simpa using hb
        simp only [List.cons_append, List.lookup, h1, ih h]

theorem cnt_inc (m : List (Addr × Nat)) (a b : Addr) :
    cnt (inc m a) b = if b = a then cnt m a + 1 else cnt m b := by
  unfold inc cnt
  cases h : m.lookup a with
  | some v =>
    simp only [lookup_map_upd m a b (fun _ => v + 1)]
    by_cases hb : b = a
    · simp [hb, h]
    · simp [hb]
  | none =>
    simp only [lookup_append_single m a b 1 h]
    by_cases hb : b = a
    · simp [hb]
    · simp [hb]

theorem lookup_some_of_cnt_pos (m : List (Addr × Nat)) (a : Addr) (h : 0 < cnt m a) :
    ∃ v, m.lookup a = some v ∧ 0 < v := by
  unfold cnt at h
  cases hl : m.lookup a with
  | some v => exact ⟨v, rfl, by simpa [hl] using h⟩
  | none => simp [hl] at h

theorem cnt_dec (m m' : List (Addr × Nat)) (a b : Addr) (h : dec m a = some m') :
    cnt m' b = if b = a then cnt m a - 1 else cnt m b := by
  unfold dec at h
  cases hl : m.lookup a with
  | none => simp [hl] at h
  | some v =>
    simp only [hl] at h
    by_cases hv : v > 1
    · simp only [hv, if_true, Option.some.injEq] at h
      subst h
      unfold cnt
      simp only [lookup_map_upd m a b (fun _ => v - 1)]
      by_cases hb : b = a
      · simp [hb, hl]
      · simp [hb]
    · simp only [hv, if_false, Option.some.injEq] at h
      subst h
      unfold cnt
      simp only [lookup_filter_ne]
      by_cases hb : b = a
      · simp [hb, hl]; omega
      · simp [hb]

theorem dec_isSome_of_cnt_pos (m : List (Addr × Nat)) (a : Addr) (h : 0 < cnt m a) :
    ∃ m', dec m a = some m' := by
  obtain ⟨v, hv, _⟩ := lookup_some_of_cnt_pos m a h
  unfold dec
  simp only [hv]
  by_cases h1 : v > 1
  · exact ⟨_, by simp only [h1, if_true]; rfl⟩
  · exact ⟨_, by simp only [h1, if_false]; rfl⟩

/-- `pinAll` adds, for every address, its number of occurrences among the stored addresses -/
theorem cnt_pinAll (stored : Addr → Bool) (ms : List Addr) (m : List (Addr × Nat)) (b : Addr) :
    cnt (pinAll stored m ms) b = cnt m b + (ms.filter stored).count b := by
  induction ms generalizing m with
  | nil => simp [pinAll]
  | cons a ms ih =>
    have : pinAll stored m (a :: ms) = pinAll stored (if stored a then inc m a else m) ms := by
      simp [pinAll, List.foldl]
    rw [this, ih]
    by_cases hs : stored a = true
    · simp only [hs, if_true, List.filter_cons_of_pos hs, cnt_inc]
      by_cases hb : b = a
      · subst hb; simp [List.count_cons_self]; omega
      · have : (a == b) = false := by simpa using fun h => hb h.symm
        simp [hb, List.count_cons, this]
    · have hs' : stored a = false := by simpa using hs
      simp [hs']

/-- with enough counters `unpinAll` succeeds and subtracts the occurrences -/
theorem unpinAll_spec (ms : List Addr) (m : List (Addr × Nat)) (ok0 : Bool)
    (h : ∀ a, ms.count a ≤ cnt m a) :
    (ms.foldl (fun (p : List (Addr × Nat) × Bool) a =>
      match dec p.1 a with
      | some m' => (m', p.2)
      | none => (p.1, false)) (m, ok0)).2 = ok0 ∧
    ∀ b, cnt (ms.foldl (fun (p : List (Addr × Nat) × Bool) a =>
      match dec p.1 a with
      | some m' => (m', p.2)
      | none => (p.1, false)) (m, ok0)).1 b = cnt m b - ms.count b := by
  induction ms generalizing m with
  | nil => simp
  | cons a ms ih =>
    have hpos : 0 < cnt m a := by
      have := h a; simp [List.count_cons_self] at this; omega
    obtain ⟨m', hm'⟩ := dec_isSome_of_cnt_pos m a hpos
    simp only [List.foldl, hm']
    have h' : ∀ c, ms.count c ≤ cnt m' c := by
      intro c
      rw [cnt_dec m m' a c hm']
      have := h c
      by_cases hc : c = a
      · subst hc; simp [List.count_cons_self] at this; simp; omega
      · have hne : (a == c) = false := by simpa using fun h => hc h.symm
        simp [List.count_cons, hne] at this
        simp [hc]; exact this
    obtain ⟨i1, i2⟩ := ih m' h'
    refine ⟨i1, ?_⟩
    intro b
    rw [i2 b, cnt_dec m m' a b hm']
    by_cases hb : b = a
    · subst hb; simp [List.count_cons_self]; omega
    · have hne : (a == b) = false := by simpa using fun h => hb h.symm
      simp [hb, List.count_cons, hne]

theorem unpinAll_ok (ms : List Addr) (m : List (Addr × Nat)) (h : ∀ a, ms.count a ≤ cnt m a) :
    (unpinAll m ms).2 = true ∧ ∀ b, cnt (unpinAll m ms).1 b = cnt m b - ms.count b := by
  unfold unpinAll
  exact unpinAll_spec ms m true h

/-! ### the multiset invariant -/

/-- occurrences of `b` among the addresses of all pinned references -/
def load (ms : Addr → List Addr) (roots : List Addr) (b : Addr) : Nat :=
  (roots.map (fun r => (ms r).count b)).sum

/-- every counter = base + load, and a reference is listed at most once -/
def Inv (ms : Addr → List Addr) (base : Addr → Nat) (s : State) : Prop :=
  s.roots.Nodup ∧ ∀ b, cnt s.pin b = base b + load ms s.roots b

theorem load_append (ms : Addr → List Addr) (l : List Addr) (r b : Addr) :
    load ms (l ++ [r]) b = load ms l b + (ms r).count b := by
  simp [load]

theorem load_filter (ms : Addr → List Addr) (l : List Addr) (r b : Addr)
    (hn : l.Nodup) (hr : r ∈ l) :
    load ms (l.filter (· != r)) b + (ms r).count b = load ms l b := by
  induction l with
  | nil => simp at hr
  | cons x l ih =>
    have hnd := List.nodup_cons.mp hn
    by_cases hx : x = r
    · subst hx
      have hnot : x ∉ l := hnd.1
      have hf : l.filter (· != x) = l := by
        apply List.filter_eq_self.mpr
        intro y hy
        have : y ≠ x := fun h => hnot (h ▸ hy)
        simpa using this
      simp [load, List.filter, hf]; omega
    · have hr' : r ∈ l := by
        cases hr with
        | head => exact absurd rfl hx
        | tail _ h => exact h
      have hxr : (x != r) = true := by simpa using hx
      have := ih hnd.2 hr'
      simp only [load, List.filter, hxr, List.map_cons, List.sum_cons] at this ⊢
      omega

theorem load_ge (ms : Addr → List Addr) (l : List Addr) (r b : Addr) (hr : r ∈ l) :
    (ms r).count b ≤ load ms l b := by
  induction l with
  | nil => simp at hr
  | cons x l ih =>
    cases hr with
    | head => simp [load]
    | tail _ h => have := ih h; simp only [load, List.map_cons, List.sum_cons] at this ⊢; omega

theorem contains_iff (l : List Addr) (r : Addr) : l.contains r = true ↔ r ∈ l := by
  simp

/-- effective pin of a reference all of whose reported addresses are stored -/
theorem inv_pin (ms : Addr → List Addr) (base : Addr → Nat) (stored : Addr → Bool)
    (s : State) (r : Addr) (hs : ∀ a ∈ ms r, stored a = true) (hi : Inv ms base s) :
    Inv ms base (apiPin stored ms s r).1 := by
  unfold apiPin
  by_cases hc : s.roots.contains r = true
  · simp only [hc, if_true]; exact hi
  · have hc' : s.roots.contains r = false := by simpa using hc
    have hnot : r ∉ s.roots := by simpa using hc'
    simp only [hc', Bool.false_eq_true, if_false]
    refine ⟨?_, ?_⟩
    · exact List.nodup_append.mpr ⟨hi.1, by simp, by
        intro a ha b hb; simp at hb; subst hb; exact fun h => hnot (h ▸ ha)⟩
    · intro b
      have hf : (ms r).filter stored = ms r := List.filter_eq_self.mpr hs
      simp only [cnt_pinAll, hf, load_append, hi.2 b]; omega

theorem unpin_ok (ms : Addr → List Addr) (base : Addr → Nat) (s : State) (r : Addr)
    (hi : Inv ms base s) (hr : r ∈ s.roots) :
    (unpinAll s.pin (ms r)).2 = true ∧
      ∀ b, cnt (unpinAll s.pin (ms r)).1 b = cnt s.pin b - (ms r).count b := by
  apply unpinAll_ok
  intro a
  rw [hi.2 a]
  have := load_ge ms s.roots r a hr
  omega

theorem inv_unpin (ms : Addr → List Addr) (base : Addr → Nat) (s : State) (r : Addr)
    (hi : Inv ms base s) : Inv ms base (apiUnpin ms s r).1 := by
  unfold apiUnpin
  by_cases hc : s.roots.contains r = true
  · have hr : r ∈ s.roots := by simpa using hc
    obtain ⟨hok, hcnt⟩ := unpin_ok ms base s r hi hr
    simp only [hc, Bool.not_true, Bool.false_eq_true, if_false]
    cases hu : unpinAll s.pin (ms r) with
    | mk m ok =>
      rw [hu] at hok hcnt
      simp only at hok hcnt
      subst hok
      simp only [if_true]
      refine ⟨hi.1.filter _, ?_⟩
      intro b
      have := load_filter ms s.roots r b hi.1 hr
      simp only [hcnt b, hi.2 b]; omega
  · have hc' : s.roots.contains r = false := by simpa using hc
    simp only [hc', Bool.not_false, if_true]; exact hi

/-! ### the handlers, case by case (membership form) -/

theorem apiPin_listed (stored : Addr → Bool) (ms : Addr → List Addr) (s : State) (r : Addr)
    (h : r ∈ s.roots) : apiPin stored ms s r = (s, .ok) := by
  have hc : s.roots.contains r = true := by simpa using h
  unfold apiPin; rw [if_pos hc]

theorem apiPin_new (stored : Addr → Bool) (ms : Addr → List Addr) (s : State) (r : Addr)
    (h : r ∉ s.roots) :
    apiPin stored ms s r = ({ roots := s.roots ++ [r], pin := pinAll stored s.pin (ms r) }, .created) := by
  have hc : ¬ s.roots.contains r = true := by simpa using h
  unfold apiPin; rw [if_neg hc]

theorem apiUnpin_not_listed (ms : Addr → List Addr) (s : State) (r : Addr) (h : r ∉ s.roots) :
    apiUnpin ms s r = (s, .notFound) := by
  have hc : (!s.roots.contains r) = true := by simpa using h
  unfold apiUnpin; rw [if_pos hc]

theorem apiUnpin_listed (ms : Addr → List Addr) (base : Addr → Nat) (s : State) (r : Addr)
    (hi : Inv ms base s) (h : r ∈ s.roots) :
    apiUnpin ms s r = ({ roots := s.roots.filter (· != r), pin := (unpinAll s.pin (ms r)).1 }, .ok) := by
  have hc : ¬ (!s.roots.contains r) = true := by simpa using h
  obtain ⟨hok, _⟩ := unpin_ok ms base s r hi h
  unfold apiUnpin; rw [if_neg hc]
  cases hu : unpinAll s.pin (ms r) with
  | mk m ok =>
    rw [hu] at hok
    simp only at hok
    subst hok
    simp

theorem filter_ne_of_not_mem (l : List Addr) (r : Addr) (h : r ∉ l) : l.filter (· != r) = l := by
  apply List.filter_eq_self.mpr
  intro y hy
  have : y ≠ r := fun e => h (e ▸ hy)
  simpa using this

theorem inv_run (stored : Addr → Bool) (ms : Addr → List Addr) (base : Addr → Nat)
    (hst : ∀ r, ∀ a ∈ ms r, stored a = true) (h : List Op) (t : State) (ht : Inv ms base t) :
    Inv ms base (run stored ms t h) := by
  induction h generalizing t with
  | nil => exact ht
  | cons op h ih =>
    simp only [run, List.foldl]
    apply ih
    cases op with
    | pin r => exact inv_pin ms _ stored t r (hst r) ht
    | unpin r => exact inv_unpin ms _ t r ht

theorem run_append_single (stored : Addr → Bool) (ms : Addr → List Addr) (t : State) (h : List Op) (op : Op) :
    run stored ms t (h ++ [op]) = step stored ms (run stored ms t h) op := by
  simp [run, List.foldl_append]

theorem list_rev_induction {α : Type} (P : List α → Prop) (h0 : P [])
    (hs : ∀ l a, P l → P (l ++ [a])) : ∀ l, P l := by
  have : ∀ l : List α, P l.reverse := by
    intro l
    induction l with
    | nil => simpa using h0
    | cons a l ih => rw [List.reverse_cons]; exact hs _ _ ih
  intro l
  have := this l.reverse
  simpa using this

theorem run_cons (stored : Addr → Bool) (ms : Addr → List Addr) (t : State) (h : List Op) (op : Op) :
    run stored ms t (op :: h) = run stored ms (step stored ms t op) h := by
  simp [run, List.foldl]

end Aurora.Pinning
