import Aurora.Lemmas.StateStore
/-!
# C18 — State stores behave as the same persistent map

Property theorems only (helpers: `Aurora/Lemmas/Kv.lean`, `Aurora/Lemmas/StateStore.lean`).
Models: `Aurora/Model/StateStore.lean` (`Level` = leveldb state store over `Model/Kv`, `Mock` = the
map-based mock) — transcriptions of `/repo/pkg/statestore/{leveldb/leveldb.go,mock/store.go}`
after the two `fix:` commits, tied to the code by the C18 correspondence run.
The specification is the sorted map `Kv.SMap` (lookup function) with its unique ascending
listing.  Statements hold for every store state satisfying the representation invariant
(`Sorted` / `NoDupKeys`), every key, prefix and *every* callback (`Kv.Callback`: an arbitrary
function of the entries visited so far and the current entry); `C18_histories` shows the
invariants and the agreement of both stores with the specification along every history.
-/
namespace Aurora.StateStore
open Aurora.Kv

/-- **level_refines** — the leveldb store refines the map: `Get` is the lookup, `Put`/`Delete`
    are map update/removal and keep the representation sorted, reopening keeps everything. -/
theorem C18_level_refines (s : Level) (hs : Sorted s) (k v : Bytes) :
    (∀ k', s.get k' = abs s k') ∧
    Sorted (s.put k v) ∧ abs (s.put k v) = (abs s).put k v ∧
    Sorted (s.delete k) ∧ abs (s.delete k) = (abs s).delete k ∧
    s.reopen = s :=
  ⟨fun _ => rfl, sorted_put hs k v, abs_put s k v, sorted_delete hs k, abs_delete hs k, rfl⟩

/-- **mock_refines** — the mock refines the same map (whatever the internal order of its entries):
    `Put`/`Delete` are map update/removal and keep one entry per key. -/
theorem C18_mock_refines (m : Mock) (hm : NoDupKeys m) (k v : Bytes) :
    NoDupKeys (m.put k v) ∧ (fun k' => (m.put k v).get k') = SMap.put (fun k' => m.get k') k v ∧
    NoDupKeys (m.delete k) ∧ (fun k' => (m.delete k).get k') = SMap.delete (fun k' => m.get k') k :=
  ⟨nodup_put m hm k v, funext (mock_get_put m k v), nodup_delete m hm k, funext (mock_get_delete m k)⟩

/-- a value read back equals the value written; deleted keys are absent; other keys are
    untouched — in both stores. -/
theorem C18_read_your_writes (s : Level) (hs : Sorted s) (m : Mock) (k v k' : Bytes) :
    (s.put k v).get k = some v ∧ (m.put k v).get k = some v ∧
    (s.delete k).get k = none ∧ (m.delete k).get k = none ∧
    (k' ≠ k → (s.put k v).get k' = s.get k' ∧ (m.put k v).get k' = m.get k' ∧
              (s.delete k).get k' = s.get k' ∧ (m.delete k).get k' = m.get k') := by
  refine ⟨?_, ?_, ?_, ?_, ?_⟩
  · simp [Level.put, Level.get, get_put]
  · simp [mock_get_put]
  · simp [Level.delete, Level.get, get_delete hs]
  · simp [mock_get_delete]
  · intro h
    refine ⟨?_, ?_, ?_, ?_⟩
    · simp [Level.put, Level.get, get_put, h]
    · simp [mock_get_put, h]
    · simp [Level.delete, Level.get, get_delete hs, h]
    · simp [mock_get_delete, h]

/-- **iterate_sorted_prefix_stop**, part 1 — what `Iterate(prefix, cb)` walks over.  `L` is the
    ascending listing of the map (for the leveldb store: its representation).  Both stores run
    the callback loop over `M = L.filter (hasPrefix · prefix)`, and `M` is strictly ascending in
    byte order and holds exactly the entries of the map whose key carries the prefix. -/
theorem C18_iterate_visits_matching_ascending (s : Level) (hs : Sorted s) (m : Mock)
    (hm : NoDupKeys m) (hsame : ∀ k, s.get k = m.get k) (p : Bytes) (cb : Callback) :
    let M := s.filter (fun e => hasPrefix e.1 p)
    Sorted M ∧ (∀ k v, (k, v) ∈ M ↔ hasPrefix k p = true ∧ abs s k = some v) ∧
    s.iterate p cb = drive cb [] M ∧ m.iterate p cb = drive cb [] M := by
  intro M
  have hM : Sorted M := List.Pairwise.sublist List.filter_sublist hs
  refine ⟨hM, ?_, level_iterate_eq s p cb, ?_⟩
  · intro k v
    rw [mem_iff_get hM, get_filter_key (fun k => hasPrefix k p) s k]
    by_cases h : hasPrefix k p = true <;> simp [h, abs]
  · unfold Mock.iterate
    rw [mock_matching_eq m hm s hs hsame p]

/-- **iterate_sorted_prefix_stop**, part 2 — a callback that never asks to stop (and never
    fails) is shown every matching entry, in ascending order, and `Iterate` returns nil. -/
theorem C18_iterate_never_stopped (cb : Callback) (M : List Entry)
    (h : ContUpTo cb [] M M.length) : drive cb [] M = (M, .ok) := by
  simpa using drive_all cb [] M h

/-- **iterate_sorted_prefix_stop**, part 3 — iteration stops exactly when asked: if the first
    decision other than "continue" is taken at the `n`-th matching entry, the entries visited
    are the first `n+1` matching entries and nothing after them; the result is nil for `stop`. -/
theorem C18_iterate_stops_when_asked (cb : Callback) (M : List Entry) (n : Nat) (hn : n < M.length)
    (hc : ContUpTo cb [] M n) (hh : cb (M.take n) M[n] ≠ .cont) :
    (drive cb [] M).1 = M.take (n + 1) ∧
    (cb (M.take n) M[n] = .stop → (drive cb [] M).2 = .ok) := by
  have := drive_halt cb [] M n hn hc (by simpa using hh)
  simp only [List.nil_append] at this
  rw [this]
  refine ⟨rfl, ?_⟩
  intro h; simp [h, haltRes]

/-- **iterate_error_propagates** — if the callback returns an error (with or without `stop`)
    at the `n`-th matching entry, after continuing on all earlier ones, then `Iterate` returns
    that error — in the leveldb store (no longer overwritten by the deferred `iter.Close()`) and
    in the mock. -/
theorem C18_iterate_error_propagates (s : Level) (hs : Sorted s) (m : Mock) (hm : NoDupKeys m)
    (hsame : ∀ k, s.get k = m.get k) (p : Bytes) (cb : Callback) (n : Nat)
    (hn : n < (s.filter (fun e => hasPrefix e.1 p)).length)
    (hc : ContUpTo cb [] (s.filter (fun e => hasPrefix e.1 p)) n)
    (herr : cb ((s.filter (fun e => hasPrefix e.1 p)).take n) (s.filter (fun e => hasPrefix e.1 p))[n] = .err ∨
            cb ((s.filter (fun e => hasPrefix e.1 p)).take n) (s.filter (fun e => hasPrefix e.1 p))[n] = .stopErr) :
    (s.iterate p cb).2 = .cberr ∧ (m.iterate p cb).2 = .cberr := by
  obtain ⟨_, _, h1, h2⟩ := C18_iterate_visits_matching_ascending s hs m hm hsame p cb
  have hh : cb ([] ++ (s.filter (fun e => hasPrefix e.1 p)).take n) (s.filter (fun e => hasPrefix e.1 p))[n] ≠ .cont := by
    rcases herr with h | h <;> simp [h]
  have := drive_halt cb [] _ n hn hc hh
  rw [h1, h2, this]
  rcases herr with h | h <;> simp [h, haltRes]

/-! ### all histories -/

inductive Op where
  | put (k v : Bytes)
  | del (k : Bytes)
  | reopen   -- close and reopen the persistent store (the mock and the spec are unaffected)

def Level.apply (s : Level) : Op → Level
  | .put k v => s.put k v
  | .del k => s.delete k
  | .reopen => s.reopen

def Mock.apply (m : Mock) : Op → Mock
  | .put k v => m.put k v
  | .del k => m.delete k
  | .reopen => m

def specApply (a : SMap) : Op → SMap
  | .put k v => a.put k v
  | .del k => a.delete k
  | .reopen => a

/-- **same persistent map, every history** — starting from empty stores, after any sequence of
    put / delete / reopen both representations satisfy their invariants and both answer every
    `Get` exactly like the specification map (so, by the theorems above, every `Iterate` as
    well); in particular values survive `reopen`. -/
theorem C18_histories (ops : List Op) :
    let s := ops.foldl Level.apply ([] : Level)
    let m := ops.foldl Mock.apply ([] : Mock)
    let a := ops.foldl specApply (fun _ => none)
    Sorted s ∧ NoDupKeys m ∧ (∀ k, s.get k = a k) ∧ (∀ k, m.get k = a k) := by
  suffices H : ∀ (s : Level) (m : Mock) (a : SMap), Sorted s → NoDupKeys m → (∀ k, s.get k = a k) →
      (∀ k, m.get k = a k) →
      Sorted (ops.foldl Level.apply s) ∧ NoDupKeys (ops.foldl Mock.apply m) ∧
      (∀ k, (ops.foldl Level.apply s).get k = ops.foldl specApply a k) ∧
      (∀ k, (ops.foldl Mock.apply m).get k = ops.foldl specApply a k) by
    exact H [] [] (fun _ => none) (by simp [Sorted]) (by simp [NoDupKeys]) (fun _ => rfl) (fun _ => rfl)
  induction ops with
  | nil => intro s m a h1 h2 h3 h4; exact ⟨h1, h2, h3, h4⟩
  | cons op ops ih =>
    intro s m a h1 h2 h3 h4
    simp only [List.foldl_cons]
    cases op with
    | put k v =>
      apply ih _ _ _ (sorted_put h1 k v) (nodup_put m h2 k v)
      · intro k'; simp only [Level.apply, Level.put, Level.get, specApply, SMap.put, get_put]
        rw [← h3 k']; rfl
      · intro k'; simp only [Mock.apply, specApply, SMap.put, mock_get_put]; rw [← h4 k']
    | del k =>
      apply ih _ _ _ (sorted_delete h1 k) (nodup_delete m h2 k)
      · intro k'; simp only [Level.apply, Level.delete, Level.get, specApply, SMap.delete, get_delete h1]
        rw [← h3 k']; rfl
      · intro k'; simp only [Mock.apply, specApply, SMap.delete, mock_get_delete]; rw [← h4 k']
    | reopen => exact ih _ _ _ h1 h2 h3 h4

/-- What the first repair changed: with the deferred `err = iter.Close()` the result of
    `Iterate` was `nil` whatever the loop returned; in the model of the repaired code a failing
    callback on a one-entry store yields the callback's error. -/
theorem C18_error_witness :
    (Level.iterate [([97], [1])] [97] (fun _ _ => .err)).2 = .cberr ∧
    (Mock.iterate [([97], [1])] [97] (fun _ _ => .err)).2 = .cberr := by
  constructor
  · decide
  · simp [Mock.iterate, Mock.matching, hasPrefix, Kv.get, drive]

/-- Non-vacuity: a sorted two-entry store / a mock in the opposite internal order with the same
    lookups exist, and a callback that stops at the second entry satisfies the premises of
    `C18_iterate_stops_when_asked`. -/
example : Sorted [([97], [1]), ([97, 98], [2])] ∧ NoDupKeys [([97, 98], [2]), ([97], [1])] := by
  constructor
  · decide
  · simp [NoDupKeys]

example : ContUpTo (fun vis _ => if vis.length = 1 then .stop else .cont) []
    [([97], [1]), ([97, 98], [2])] 1 := by
  intro j hj hj1
  have : j = 0 := by omega
  subst this; rfl

end Aurora.StateStore
