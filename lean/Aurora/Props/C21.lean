import Aurora.Lemmas.PSlice
import Aurora.Lemmas.PSliceLocks
import Aurora.Lemmas.PSliceMem
import Aurora.Lemmas.PSliceMemOps
/-!
# C21 — Proximity-indexed peer sets behave as sets

Property theorems only (helper lemmas: `Aurora/Lemmas/PSlice.lean`, `LockSet.lean`,
`PSliceLocks.lean`).  The model is `Aurora/Model/PSlice.lean`, a transcription of
`/repo/pkg/topology/pslice/pslice.go` after the `fix:` commit (batch `Add` re-checks the bin
before each append).  Vocabulary: `Mem s x` = "`x` is stored in some bin"; `Inv s` = the
representation invariant (one bin per index, `1 ≤ maxBins ≤ 256`, no bin holds an address twice,
every address sits in bin `po s x`); `run s ops` = the slice after a history of `Add`/`Remove`
calls; `specRun S ops` = the set `added \ removed` (sets are predicates `Addr → Prop`);
`allPeers s` = concatenation of the bins; `entries s is` = the `(bin, address)` pairs in the order
of the bin indices `is`; `specIter` = the specification of iteration with stop / next / error on
that flat list.  Histories, addresses (any length, also different from the base's), batch
contents and callbacks are arbitrary — no bound.
-/
namespace Aurora.PSlice
open Aurora.Proximity

/-- Clause "after any sequence of single and batched additions and removals the set contains
    exactly the added and not removed addresses": refinement of the slice to the set
    `added \ removed`, together with the representation invariant, for every history. -/
theorem C21_refines_set (m : Nat) (base : Addr) (h1 : 1 ≤ m) (h2 : m ≤ 256) (ops : List Op) :
    Inv (run (new m base) ops) ∧
    ∀ x, Mem (run (new m base) ops) x ↔ specRun (fun _ => False) ops x :=
  run_refines ops (new m base) (inv_new m base h1 h2) (fun _ => False)
    (fun x => ⟨fun h => not_mem_new m base x h, fun h => h.elim⟩)

/-- One step of the refinement, spelled out: what `Add` (single or batch, with repeated and
    already-present addresses) and `Remove` do to the set. -/
theorem C21_add_remove_spec (s : PS) (h : Inv s) (addrs : List Addr) (a x : Addr) :
    (Mem (add s addrs) x ↔ Mem s x ∨ x ∈ addrs) ∧ (Mem (remove s a) x ↔ Mem s x ∧ x ≠ a) ∧
    Inv (add s addrs) ∧ Inv (remove s a) :=
  ⟨mem_add s h addrs x, mem_remove s h a x, inv_add s h addrs, inv_remove s h a⟩

/-- Clause "each once": in every reachable state the concatenation of all bins has no duplicates
    and lists exactly the members. -/
theorem C21_nodup (m : Nat) (base : Addr) (h1 : 1 ≤ m) (h2 : m ≤ 256) (ops : List Op) :
    (allPeers (run (new m base) ops)).Nodup ∧
    ∀ x, x ∈ allPeers (run (new m base) ops) ↔ Mem (run (new m base) ops) x :=
  ⟨nodup_allPeers _ (C21_refines_set m base h1 h2 ops).1, mem_allPeers _⟩

/-- Clause "in the bin given by its proximity to the base (capped at the last bin)". -/
theorem C21_bin_correct (s : PS) (h : Inv s) (i : Nat) (x : Addr) (hx : x ∈ bin s i) :
    i = min (proximity s.base x) (s.maxBins - 1) ∧ i < s.maxBins := by
  have := h.inbin i x hx
  rw [po_eq_min s h.pos h.le] at this
  have hp := h.pos
  exact ⟨this.symm, by omega⟩

/-- `Length()` is the cardinality of the set (length of a duplicate-free listing of the members). -/
theorem C21_length_spec (s : PS) (h : Inv s) :
    length s = (allPeers s).length ∧ (allPeers s).Nodup ∧ ∀ x, x ∈ allPeers s ↔ Mem s x :=
  ⟨length_eq s, nodup_allPeers s h, mem_allPeers s⟩

/-- `BinSize(i)` is the number of members whose bin is `i` (`bin s i` is a duplicate-free listing
    of exactly these), and `0` past the last bin; `BinPeers(i)` is that listing. -/
theorem C21_binSize_spec (s : PS) (h : Inv s) (i : Nat) :
    (s.maxBins ≤ i → binSize s i = 0 ∧ binPeers s i = []) ∧
    (i < s.maxBins → binSize s i = (bin s i).length ∧ binPeers s i = bin s i) ∧
    (bin s i).Nodup ∧ ∀ x, x ∈ bin s i ↔ Mem s x ∧ po s x = i := by
  refine ⟨?_, ?_, h.nodup i, mem_bin_iff s h i⟩
  · intro hi; simp [binSize, binPeers, hi]
  · intro hi
    have : ¬ (i ≥ s.maxBins) := by omega
    simp [binSize, binPeers, this]

/-- `ShallowestEmpty()`: answers bin `r` iff bin `r` is empty and every shallower bin is not;
    answers "none" iff no bin is empty. -/
theorem C21_shallowestEmpty_spec (s : PS) (h : Inv s) :
    (∀ r, shallowestEmpty s = some r →
        r < s.maxBins ∧ bin s r = [] ∧ ∀ j, j < r → bin s j ≠ []) ∧
    (shallowestEmpty s = none → ∀ j, j < s.maxBins → bin s j ≠ []) := by
  constructor
  · intro r hr
    obtain ⟨_, h2, h3, h4⟩ := shallowestEmptyFrom_some s.bins 0 r (by have := h.len; have := h.le; omega) hr
    simp only [Nat.sub_zero] at h2 h3 h4
    refine ⟨by rw [← h.len]; exact h2, ?_, ?_⟩
    · rw [bins_get_eq s r h2] at h3; simpa using h3
    · intro j hj hb
      apply h4 j hj
      rw [bins_get_eq s j (by omega), hb]
  · intro hn j hj hb
    apply shallowestEmptyFrom_none s.bins 0 hn j (by rw [h.len]; exact hj)
    rw [bins_get_eq s j (by rw [h.len]; exact hj), hb]

/-- `Exists(a)` is membership. -/
theorem C21_exists_spec (s : PS) (h : Inv s) (a : Addr) : «exists» s a = true ↔ Mem s a := by
  unfold «exists»
  rw [index_isSome, mem_iff s h]

/-- Clause "deepest-first iteration, including early stop and skip-to-next-bin": `EachBin` with any
    callback (that does not itself change the slice) is the flat specification `specIter` run on
    the `(bin, address)` pairs listed from bin `maxBins-1` down to bin `0`. -/
theorem C21_eachBin_order {σ : Type} (s : PS) (pf : σ → Addr → Nat → σ × Ctl) (st : σ) :
    eachBin (fun _ => s) pf st = specIter pf (entries s (List.range s.maxBins).reverse) none st :=
  eachBins_spec s pf _ st (List.nodup_reverse.2 List.nodup_range)

/-- Clause "shallowest-first iteration": same for `EachBinRev`, bins `0 … maxBins-1`. -/
theorem C21_eachBinRev_order {σ : Type} (s : PS) (pf : σ → Addr → Nat → σ × Ctl) (st : σ) :
    eachBinRev (fun _ => s) pf st = specIter pf (entries s (List.range s.maxBins)) none st :=
  eachBins_spec s pf _ st List.nodup_range

/-- the listing that iteration walks agrees with the set: a pair `(i, x)` is listed iff `x` is a
    member whose bin is `i` (for a bin index in range). -/
theorem C21_entries_spec (s : PS) (h : Inv s) (is : List Nat) (i : Nat) (x : Addr) :
    (i, x) ∈ entries s is ↔ i ∈ is ∧ Mem s x ∧ po s x = i := by
  unfold entries
  rw [List.mem_flatMap]
  constructor
  · intro ⟨j, hj, hm⟩
    obtain ⟨p, hp, he⟩ := List.mem_map.1 hm
    have e1 : j = i := by have := congrArg Prod.fst he; simpa using this
    have e2 : p = x := by have := congrArg Prod.snd he; simpa using this
    subst e1; subst e2
    exact ⟨hj, (mem_bin_iff s h j p).1 hp⟩
  · intro ⟨hi, hm⟩
    exact ⟨i, hi, List.mem_map.2 ⟨x, (mem_bin_iff s h i x).2 hm, rfl⟩⟩

/-- What the repair of the batch path changed: before it, `Add(a, a)` on an empty slice stored `a`
    twice (`Length() = 2`), so "each once" failed. -/
theorem C21_addOld_counterexample :
    ¬ (allPeers (addOld (new 2 [0#8]) [[0x80#8], [0x80#8]])).Nodup ∧
    length (addOld (new 2 [0#8]) [[0x80#8], [0x80#8]]) = 2 ∧
    length (add (new 2 [0#8]) [[0x80#8], [0x80#8]]) = 1 := by
  decide

/-! ### Race freedom (lock-set argument over generated facts)

`Aurora.Generated.PSliceLocks.accesses` is regenerated from `pslice.go` on every run: one row per
syntactic access to `s.peers` / `s.baseBytes` in a method of `*PSlice` (helpers `po`/`index`
inlined at their call sites), with the state of `s.mu` at that point. -/

open Aurora.Generated.PSliceLocks Aurora.LockSet Aurora.PSliceLocks in
/-- every access to the guarded fields happens with `mu` held — writes under `Lock`, reads under
    `Lock` or `RLock`; the table is not empty, covers every method of the file, and no method
    writes any other field. -/
theorem C21_lockset_table :
    accesses.all disciplined = true ∧ accesses ≠ [] ∧
    methods.all (fun m => accesses.any (fun a => a.method == m || a.via == m)) = true ∧
    structFields = ["peers", "baseBytes", "mu", "maxBins"] ∧ otherFieldWrites = [] :=
  ⟨table_disciplined, table_nonempty, methods_have_rows, struct_fields, no_other_writes⟩

open Aurora.Generated.PSliceLocks Aurora.LockSet Aurora.PSliceLocks in
/-- Clause "iteration concurrent with updates is free of data races", for the slice-header array
    `s.peers` and `s.baseBytes`: in every reachable state of the RWMutex, two table rows executed at
    the same moment by different goroutines, each holding the mutex the way its row says, are both
    reads. -/
theorem C21_no_race (s : St) (hs : Reachable s) (a1 a2 : Access)
    (h1 : a1 ∈ accesses) (h2 : a2 ∈ accesses) (t1 t2 : Tid) (hne : t1 ≠ t2)
    (held1 : heldAs a1 s t1) (held2 : heldAs a2 s t2) :
    a1.write = false ∧ a2.write = false :=
  pslice_no_race s hs a1 a2 h1 h2 t1 t2 hne held1 held2

/-! ### Snapshot isolation (backing-array model `Aurora/Model/PSliceMem.lean`) -/

open Aurora.PSliceMem in
/-- Clause "iteration concurrent with updates", for the *elements* that `EachBin/EachBinRev` read
    after releasing the lock: start from `New`, let any sequence `before` of memory writes happen,
    take the slice header of any bin `i` (the snapshot `peers := s.peers[i]`), then let any
    further sequence `after` of writes by `Add`/`Remove` happen (in-place append at index `len`,
    or allocation of a fresh array): the snapshot still reads exactly the same elements — no
    location the reader looks at is ever written again. -/
theorem C21_snapshot_isolated (maxBins : Nat) (before after : List Prim) (i : Nat) (hi : i < maxBins) :
    let m := Aurora.PSliceMem.run (init maxBins) before
    read (Aurora.PSliceMem.run m after) (hdr m i) = read m (hdr m i) := by
  intro m
  have hw : WF m := wf_run before _ (wf_init maxBins)
  have hl : m.bins.length = maxBins := by
    show (Aurora.PSliceMem.run (init maxBins) before).bins.length = maxBins
    rw [bins_length_run]; simp [init]
  exact run_isolated after m (hdr m i) (stable_of_wf m hw i (by omega))

open Aurora.PSliceMem in
/-- the same for one write, as an invariant: any stable snapshot (in particular any header read
    from a well-formed memory) is unaffected by a write and remains stable; well-formedness is
    preserved. -/
theorem C21_write_preserves_snapshots (m : Aurora.PSliceMem.Mem) (hw : WF m) (h : Hdr) (hs : Stable m h) (p : Prim) :
    read (step m p) h = read m h ∧ Stable (step m p) h ∧ WF (step m p) :=
  ⟨(step_isolated m h hs p).1, (step_isolated m h hs p).2, wf_step m hw p⟩

/-! ### The real operations on the backing-array model (`Aurora/Model/PSliceMemOps.lean`)

`MOp` = `Add` (single or batch, with the capacities the Go runtime picks when `append` has to grow
as an oracle argument — any function is allowed, the model only uses `max (orc i) (len+1)`) or
`Remove`; `opPrims ms op` = the primitive memory steps the real code performs for `op` in state
`ms`, in program order; `applyMOp ms op` runs them; `runOps` = a history; `abs` reads every bin
header in the heap and gives a list-model state; `toOp` forgets the oracle. -/

open Aurora.PSliceMem in
/-- **Refinement** of the list model by the memory-level operations: for every history of real
    `Add`/`Remove` calls from `New` — any addresses, any batches, any capacity choices of the
    runtime — reading every bin header in the heap gives exactly the state of the list model after
    the same history, the memory is well formed, and bin `i` read through its current header is
    bin `i` of the list model.  Hence every list-level theorem above (`C21_refines_set`,
    `C21_nodup`, `C21_bin_correct`, sizes, iteration order) is a theorem about the memory. -/
theorem C21_mem_refines_list (m : Nat) (base : Addr) (ops : List MOp) :
    abs (runOps (newM m base) ops) = run (new m base) (ops.map toOp) ∧
    WF (runOps (newM m base) ops).mem ∧
    ∀ i, read (runOps (newM m base) ops).mem (hdr (runOps (newM m base) ops).mem i)
        = bin (run (new m base) (ops.map toOp)) i := by
  obtain ⟨e, hw, ha, _⟩ := ops_spec ops (newM m base) (wf_newM m base)
  rw [abs_newM] at ha
  rw [e]
  refine ⟨ha, hw, ?_⟩
  intro i
  rw [← ha, bin_abs]; rfl

open Aurora.PSliceMem in
/-- one step of the refinement, from any well-formed memory: the abstraction commutes with the
    operation, and well-formedness is kept. -/
theorem C21_mem_op_refines (ms : MS) (hw : WF ms.mem) (op : MOp) :
    abs (applyMOp ms op) = applyOp (abs ms) (toOp op) ∧ WF (applyMOp ms op).mem :=
  ⟨(op_spec ms hw op).2.1, (op_spec ms hw op).1⟩

open Aurora.PSliceMem in
/-- the transfer spelled out for the main clause: what is *in the heap* after any history is the set
    `added \ removed`, and the abstraction satisfies the representation invariant (each address
    once, in its proximity bin). -/
theorem C21_mem_refines_set (m : Nat) (base : Addr) (h1 : 1 ≤ m) (h2 : m ≤ 256) (ops : List MOp) :
    Inv (abs (runOps (newM m base) ops)) ∧
    ∀ x, (∃ i, x ∈ binM (runOps (newM m base) ops) i) ↔ specRun (fun _ => False) (ops.map toOp) x := by
  obtain ⟨e, _, _⟩ := C21_mem_refines_list m base ops
  obtain ⟨hi, hm⟩ := C21_refines_set m base h1 h2 (ops.map toOp)
  rw [e]
  refine ⟨hi, fun x => ?_⟩
  rw [← hm x, ← e]
  constructor
  · intro ⟨i, hx⟩; exact ⟨i, by rw [bin_abs]; exact hx⟩
  · intro ⟨i, hx⟩; exact ⟨i, by rw [← bin_abs]; exact hx⟩

open Aurora.PSliceMem in
/-- **Every memory step of the real operations is one of the two primitives** the isolation
    theorems cover, and is *enabled* where it executes: a store into an existing array happens only
    as `.write i a` with `len < cap` of bin `i`'s current header — at index `len`, never below it —
    and every other store goes into a freshly allocated array that becomes bin `i`'s array
    (`.realloc`, with `len ≤ cap ≤` array size), always for a bin index `i < maxBins`.  The state
    after a history is the run of exactly these steps from `New`; the same for one more operation
    from any reachable state. -/
theorem C21_ops_emit_safe_prims (m : Nat) (base : Addr) (h1 : 1 ≤ m) (h2 : m ≤ 256) (ops : List MOp) :
    (runOps (newM m base) ops).mem = Aurora.PSliceMem.run (init m) (opsPrims (newM m base) ops) ∧
    EnabledSeq (init m) (opsPrims (newM m base) ops) ∧
    ∀ op, EnabledSeq (runOps (newM m base) ops).mem (opPrims (runOps (newM m base) ops) op) ∧
      (applyMOp (runOps (newM m base) ops) op).mem =
        Aurora.PSliceMem.run (runOps (newM m base) ops).mem (opPrims (runOps (newM m base) ops) op) := by
  obtain ⟨e, hw, _, hen⟩ := ops_spec ops (newM m base) (wf_newM m base)
  have hr := inRange_newM m base h1 h2
  refine ⟨by rw [e, runM_mem]; rfl, hen hr, ?_⟩
  intro op
  have hr' : InRange (runOps (newM m base) ops) := by rw [e]; exact inRange_runM _ _ hr
  have hw' : WF (runOps (newM m base) ops).mem := by rw [e]; exact hw
  exact ⟨(op_spec _ hw' op).2.2 hr', runM_mem _ _⟩

open Aurora.PSliceMem in
/-- where the growth oracle matters: only in the single-address path.  In the batch path
    (`len(addrs) ≠ 1`) the pre-grow loop leaves every bin with room for all the appends the third
    loop can make, so each of them is an in-place `.write` and the emitted primitives are the same
    for every oracle — the Go runtime's growth policy is never consulted there.  (This is why one
    observation of `cap()` per bin after an `Add` determines the oracle in the correspondence
    run.) -/
theorem C21_batch_add_no_runtime_growth (m : Nat) (base : Addr) (h1 : 1 ≤ m) (h2 : m ≤ 256)
    (ops : List MOp) (orc orc' : Nat → Nat) (addrs : List Addr) (hb : addrs.length ≠ 1) :
    let s := runOps (newM m base) ops
    opPrims s (.add orc addrs) = opPrims s (.add orc' addrs) ∧
    ∀ p, p ∈ addLoopPrims orc (addrs.zip (existsFlagsM s addrs))
        (runM s (growPrims (addrs.zip (existsFlagsM s addrs)) (List.range s.maxBins) s)) → IsWrite p := by
  intro s
  obtain ⟨e, hw, _, _⟩ := ops_spec ops (newM m base) (wf_newM m base)
  have hr : InRange s := by
    show InRange (runOps (newM m base) ops)
    rw [e]; exact inRange_runM _ _ (inRange_newM m base h1 h2)
  have hw' : WF s.mem := by
    show WF (runOps (newM m base) ops).mem
    rw [e]; exact hw
  exact addBatch_no_growth s hw' hr orc orc' addrs hb

open Aurora.PSliceMem in
/-- `C21_snapshot_isolated` **for the real operations**: after any history `before` of `Add`/`Remove`
    calls take the header of any bin `i` (what `EachBin` copies under `RLock`); whatever history
    `after` of `Add`/`Remove` calls follows, with whatever capacity choices, that header still
    reads exactly bin `i` of the list model at the moment of the snapshot. -/
theorem C21_snapshot_isolated_ops (m : Nat) (base : Addr) (before after : List MOp) (i : Nat) :
    read (runOps (runOps (newM m base) before) after).mem (hdr (runOps (newM m base) before).mem i)
      = bin (run (new m base) (before.map toOp)) i := by
  obtain ⟨_, hw, hb⟩ := C21_mem_refines_list m base before
  rw [← hb i, runOps_eq _ (runOps (newM m base) before), runM_mem]
  by_cases hi : i < (runOps (newM m base) before).mem.bins.length
  · exact run_isolated _ _ _ (stable_of_wf _ hw i hi)
  · rw [hdr_of_ge _ i (by omega), read_default, read_default]

open Aurora.PSliceMem in
/-- Clause "iteration concurrent with updates", functional part.  The memory-level `EachBin` /
    `EachBinRev` copy the header of a bin when they reach it and then load element `k` of that
    header from the heap *as it is at that moment*, for `k = 0 … len-1`, running the callback in
    between; between two loads any finite sequence of complete `Add`/`Remove` operations may be
    applied to the slice (`OpsOnly`: by the callback or by other goroutines; the rest of the state
    `σ` is unconstrained).  From any state reachable from `New` by real operations:
    * the whole iteration equals the list-level iteration `eachBin`/`eachBinRev` over the
      abstraction, in which the bin is an immutable list taken when the bin is reached — so a bin
      visited later sees the later state;
    * for each bin, the loop over the header copied in state `st` is the loop over
      `bin (abs (get st)) i`: exactly the peers bin `i` had when its header was read, in that
      order, with the same stop / next / error behaviour, whatever the interleaved operations do.
    Iteration is linearizable per bin at the moment the bin's header is read. -/
theorem C21_iteration_snapshot_semantics {σ : Type} (get : σ → MS) (pf : σ → Addr → Nat → σ × Ctl)
    (hops : OpsOnly get pf) (st : σ)
    (hreach : ∃ m base ops, get st = runOps (newM m base) ops) :
    eachBinM get pf st = eachBin (fun st => abs (get st)) pf st ∧
    eachBinRevM get pf st = eachBinRev (fun st => abs (get st)) pf st ∧
    ∀ i, iterPeersM get pf i (hdr (get st).mem i) (hdr (get st).mem i).len 0 st
        = iterPeers pf i (bin (abs (get st)) i) st := by
  obtain ⟨m, base, ops, e⟩ := hreach
  have hw : WF (get st).mem := by rw [e]; exact (C21_mem_refines_list m base ops).2.1
  have hp := opsOnly_primsOnly get pf hops
  refine ⟨eachBinsM_eq get pf hp _ st hw, eachBinsM_eq get pf hp _ st hw, ?_⟩
  intro i
  rw [bin_abs]; unfold binM
  by_cases hi : i < (get st).mem.bins.length
  · have := iterPeersM_eq get pf hp i (hdr (get st).mem i) (read (get st).mem (hdr (get st).mem i))
      (read_length _ hw i) (hdr (get st).mem i).len 0 st (by omega) (stable_of_wf _ hw i hi) rfl
    simpa using this
  · rw [hdr_of_ge _ i (by omega), read_default]; rfl

open Aurora.PSliceMem in
/-- the same at the granularity of single memory steps (an element load may also fall *inside*
    somebody's `Add`/`Remove`, which holds the write lock but not the reader's attention): between two
    loads the memory changes by any sequence of primitive steps; from any well-formed memory. -/
theorem C21_iteration_snapshot_midop {σ : Type} (get : σ → MS) (pf : σ → Addr → Nat → σ × Ctl)
    (hp : PrimsOnly get pf) (st : σ) (hw : WF (get st).mem) (is : List Nat) :
    eachBinsM get pf is st = eachBins (fun st => abs (get st)) pf is st :=
  eachBinsM_eq get pf hp is st hw

open Aurora.PSliceMem in
/-- what the callback is called with: instrument any callback with a log of its arguments; for the
    bin whose header is copied in state `st` (reachable by real operations) the calls are a prefix of
    `bin s i` — the peers of bin `i` in the list-model state `s` at that moment, in the order of `s`,
    each tagged `i` — and all of `bin s i` if the callback never asks to stop / skip / fail, no
    matter which `Add`/`Remove` operations run between the visits. -/
theorem C21_iteration_visits {σ : Type} (get : σ → MS) (pf : σ → Addr → Nat → σ × Ctl)
    (hops : OpsOnly get pf) (st : σ) (m : Nat) (base : Addr) (ops : List MOp)
    (hreach : get st = runOps (newM m base) ops) (i : Nat) (log : List (Nat × Addr)) :
    ∃ k, k ≤ (bin (run (new m base) (ops.map toOp)) i).length ∧
      (iterPeersM (fun sl : σ × List (Nat × Addr) => get sl.1) (withLog pf) i
          (hdr (get st).mem i) (hdr (get st).mem i).len 0 (st, log)).1.2
        = log ++ ((bin (run (new m base) (ops.map toOp)) i).take k).map (fun p => (i, p)) ∧
      ((∀ st p, (pf st p i).2 = .go) → k = (bin (run (new m base) (ops.map toOp)) i).length) := by
  have h := (C21_iteration_snapshot_semantics (fun sl : σ × List (Nat × Addr) => get sl.1) (withLog pf)
    (opsOnly_withLog get pf hops) (st, log) ⟨m, base, ops, hreach⟩).2.2 i
  have hb : bin (abs (get st)) i = bin (run (new m base) (ops.map toOp)) i := by
    rw [hreach, (C21_mem_refines_list m base ops).1]
  rw [h, hb]
  exact iterPeers_log pf i _ st log

/-! Non-vacuity. -/
open Aurora.PSliceMem in
example : read (Aurora.PSliceMem.run (init 2) [.realloc 0 [[1#8], []] 1 2, .write 0 [2#8]]) ⟨1, 1, 2⟩ = [[1#8]] := by
  decide
open Aurora.PSliceMem in
example : read (Aurora.PSliceMem.run (init 2) [.realloc 0 [[1#8], []] 1 2, .write 0 [2#8]])
    (hdr (Aurora.PSliceMem.run (init 2) [.realloc 0 [[1#8], []] 1 2, .write 0 [2#8]]) 0) = [[1#8], [2#8]] := by
  decide
example : Inv (new 32 [1#8, 2#8]) := inv_new _ _ (by decide) (by decide)
example : Mem (run (new 2 [0#8]) [.add [[0x80#8], [0x01#8]], .remove [0x80#8]]) [0x01#8] :=
  ⟨1, by decide⟩
example : ¬ Mem (run (new 2 [0#8]) [.add [[0x80#8], [0x01#8]], .remove [0x80#8]]) [0x80#8] := by
  rw [(C21_refines_set 2 [0#8] (by decide) (by decide) _).2]
  simp [specRun, specStep]
example : shallowestEmpty (add (new 2 [0#8]) [[0x01#8]]) = some 0 := by decide
/-! Non-vacuity of the memory-level theorems: a concrete history with a grown append, an in-place
    append, a batch with a pre-grow and a copy-on-remove; an old snapshot; a callback that removes
    the peer it is visiting (an `OpsOnly` callback), run over the memory. -/
open Aurora.PSliceMem in
example : (abs (runOps (newM 2 [0#8]) [.add (fun _ => 4) [[0x80#8]], .add (fun _ => 0) [[0x81#8]],
      .add (fun _ => 0) [[0x82#8], [0x40#8], [0x82#8]], .remove [0x80#8]])).bins
    = [[[0x82#8], [0x81#8]], [[0x40#8]]] := by decide
open Aurora.PSliceMem in
example : ((runOps (newM 2 [0#8]) [.add (fun _ => 4) [[0x80#8]], .add (fun _ => 0) [[0x81#8]],
      .add (fun _ => 0) [[0x82#8], [0x40#8], [0x82#8]], .remove [0x80#8]]).mem.bins)
    = [⟨3, 2, 2⟩, ⟨2, 1, 1⟩] := by decide
open Aurora.PSliceMem in
example : opsPrims (newM 2 [0#8]) [.add (fun _ => 4) [[0x80#8]], .add (fun _ => 0) [[0x81#8]]]
    = [.realloc 0 [[0x80#8], [], [], []] 1 4, .write 0 [0x81#8]] := by decide
open Aurora.PSliceMem in
example : read (runOps (runOps (newM 2 [0#8]) [.add (fun _ => 4) [[0x80#8]]])
      [.add (fun _ => 0) [[0x81#8]], .remove [0x80#8]]).mem ⟨1, 1, 4⟩ = [[0x80#8]] := by decide
open Aurora.PSliceMem in
/-- the single-address path does depend on the oracle (contrast with `C21_batch_add_no_runtime_growth`) -/
example : opPrims (newM 2 [0#8]) (.add (fun _ => 4) [[0x80#8]]) ≠ opPrims (newM 2 [0#8]) (.add (fun _ => 1) [[0x80#8]]) := by
  decide
open Aurora.PSliceMem in
example : OpsOnly (σ := MS) id (fun st p _ => (applyMOp st (.remove p), .go)) :=
  fun _ p _ => ⟨[.remove p], rfl⟩
open Aurora.PSliceMem in
example : (abs (eachBinM (σ := MS) id (fun st p _ => (applyMOp st (.remove p), .go))
      (runOps (newM 2 [0#8]) [.add (fun _ => 0) [[0x80#8], [0x81#8], [0x40#8]]])).1).bins = [[], []] := by
  decide
open Aurora.LockSet in
example : Reachable ⟨[(1, .r), (2, .r)]⟩ :=
  .step (.step .init (.acqR _ 2 (by simp))) (.acqR _ 1 (by simp))

end Aurora.PSlice
