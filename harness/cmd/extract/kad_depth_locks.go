package main

// Atomicity facts for the neighbourhood depth of pkg/topology/kademlia (property C22): where
// `depth` / `radius` of Kad are read and written relative to `depthMu`, and — for every store
// `x.depth = …` — whether the recalcDepth call whose result is stored is evaluated inside the SAME
// write-locked region as the store, from the live `x.connectedPeers` and a radius read in that
// region.  Emitted as Aurora/Generated/KadDepthLocks.lean; Props/C22.lean proves
// `C22_depth_update_atomic` by `decide` over these tables, so moving the recalculation out of the
// lock (read under RLock, compute unlocked, Lock only to store) breaks the theorem.
//
// Lock regions.  Every function declaration and every function literal is a separate unit that
// starts with no lock held.  Statement lists are walked in source order:
//
//	x.depthMu.Lock()  / x.depthMu.RLock()      as a statement with no lock held: a new region begins
//	                                           (mode w / r, region id = source line of the call)
//	x.depthMu.Unlock() / x.depthMu.RUnlock()   as a statement in a region of the matching mode: it ends
//	defer x.depthMu.Unlock() / RUnlock()       in a region of the matching mode: the region lasts to the
//	                                           end of the unit (a later explicit unlock = not understood)
//
// A nested statement list (if / for / switch / select bodies, blocks) inherits the state; if it
// ends in a different state than it began, the state after the enclosing statement is `unknown`.
// Any other occurrence of `depthMu` (a mismatched call, TryLock, the mutex passed around, a lock
// call inside an expression) is listed in `mutexOther` and makes the state `unknown`.  `unknown`
// never satisfies the obligation: what the pass cannot classify fails.
//
// Accesses are selector expressions `<anything>.depth` / `<anything>.radius` (no other struct of the
// package has such fields; a false positive could only make the obligation fail).

import (
	"bytes"
	"fmt"
	"go/ast"
	"go/parser"
	"go/token"
	"os"
	"path/filepath"
	"sort"
	"strings"
)

func init() {
	extraGenerators["KadDepthLocks.lean"] = genKadDepthLocks
}

type kdState struct {
	mode     string // none | r | w | unknown
	region   int
	deferred bool
}

type kdAccess struct {
	fn, field, kind string
	line            int
	st              kdState
}

type kdDef struct { // one assignment `v := <expr>` / `v = <expr>` to a plain local
	rhs  ast.Expr
	st   kdState
	line int
}

type kdStore struct {
	fn   string
	line int
	st   kdState
	rhs  ast.Expr
	unit *kdUnit
}

type kdUnit struct {
	name string
	defs map[string][]kdDef
}

type kdPass struct {
	fset    *token.FileSet
	acc     []kdAccess
	stores  []kdStore
	other   []string // unclassified uses of the mutex: "fn:line"
	recalcs int      // recalcDepth call sites seen in Kad methods / literals (diagnostics)
}

// muCall: st is `<x>.depthMu.<Method>()`; returns the method name.
func muCall(e ast.Expr) (string, bool) {
	c, ok := e.(*ast.CallExpr)
	if !ok || len(c.Args) != 0 {
		return "", false
	}
	se, ok := c.Fun.(*ast.SelectorExpr)
	if !ok {
		return "", false
	}
	in, ok := se.X.(*ast.SelectorExpr)
	if !ok || in.Sel.Name != "depthMu" {
		return "", false
	}
	if _, ok := in.X.(*ast.Ident); !ok {
		return "", false
	}
	return se.Sel.Name, true
}

func (p *kdPass) line(n ast.Node) int { return p.fset.Position(n.Pos()).Line }

// scanExpr records the accesses inside one expression / simple statement evaluated in state st.
// Function literals become units of their own.  lhs = the expressions that are assigned to.
func (p *kdPass) scanNode(u *kdUnit, n ast.Node, st kdState, lhs map[ast.Expr]bool, nlit *int) {
	if n == nil {
		return
	}
	ast.Inspect(n, func(x ast.Node) bool {
		switch e := x.(type) {
		case *ast.FuncLit:
			*nlit++
			lu := &kdUnit{name: fmt.Sprintf("%s.func%d", strings.SplitN(u.name, ".func", 2)[0], *nlit), defs: map[string][]kdDef{}}
			end := p.walkList(lu, e.Body.List, kdState{mode: "none"}, nlit)
			_ = end
			return false
		case *ast.UnaryExpr:
			if e.Op == token.AND {
				if se, ok := e.X.(*ast.SelectorExpr); ok && (se.Sel.Name == "depth" || se.Sel.Name == "radius") {
					p.acc = append(p.acc, kdAccess{u.name, se.Sel.Name, "other", p.line(se), st})
					return false
				}
			}
		case *ast.SelectorExpr:
			switch e.Sel.Name {
			case "depth", "radius":
				kind := "read"
				if lhs[e] {
					kind = "write"
				}
				p.acc = append(p.acc, kdAccess{u.name, e.Sel.Name, kind, p.line(e), st})
			case "depthMu":
				// reached only when the mutex is used in a way walkList did not consume
				p.other = append(p.other, fmt.Sprintf("%s:%d", u.name, p.line(e)))
			}
		case *ast.CallExpr:
			if id, ok := e.Fun.(*ast.Ident); ok && id.Name == "recalcDepth" {
				p.recalcs++
			}
		}
		return true
	})
}

func sameState(a, b kdState) bool {
	return a.mode == b.mode && a.region == b.region && a.deferred == b.deferred
}

// nested walks a nested statement list; the state after the enclosing statement is the entry
// state if the list leaves it unchanged, `unknown` otherwise.
func (p *kdPass) nested(u *kdUnit, list []ast.Stmt, st kdState, nlit *int) kdState {
	if end := p.walkList(u, list, st, nlit); !sameState(end, st) {
		return kdState{mode: "unknown"}
	}
	return st
}

func (p *kdPass) walkList(u *kdUnit, list []ast.Stmt, st kdState, nlit *int) kdState {
	for _, s := range list {
		st = p.walkStmt(u, s, st, nlit)
	}
	return st
}

func (p *kdPass) walkStmt(u *kdUnit, s ast.Stmt, st kdState, nlit *int) kdState {
	merge := func(a, b kdState) kdState { // state after a statement with several nested lists
		if a.mode == "unknown" || b.mode == "unknown" {
			return kdState{mode: "unknown"}
		}
		return a
	}
	switch x := s.(type) {
	case *ast.ExprStmt:
		if m, ok := muCall(x.X); ok {
			switch {
			case m == "Lock" && st.mode == "none":
				return kdState{mode: "w", region: p.line(x)}
			case m == "RLock" && st.mode == "none":
				return kdState{mode: "r", region: p.line(x)}
			case m == "Unlock" && st.mode == "w" && !st.deferred:
				return kdState{mode: "none"}
			case m == "RUnlock" && st.mode == "r" && !st.deferred:
				return kdState{mode: "none"}
			}
			p.other = append(p.other, fmt.Sprintf("%s:%d", u.name, p.line(x)))
			return kdState{mode: "unknown"}
		}
		p.scanNode(u, x.X, st, nil, nlit)
		return st
	case *ast.DeferStmt:
		if m, ok := muCall(x.Call); ok {
			if (m == "Unlock" && st.mode == "w" || m == "RUnlock" && st.mode == "r") && !st.deferred {
				st.deferred = true
				return st
			}
			p.other = append(p.other, fmt.Sprintf("%s:%d", u.name, p.line(x)))
			return kdState{mode: "unknown"}
		}
		p.scanNode(u, x.Call, st, nil, nlit)
		return st
	case *ast.AssignStmt:
		lhs := map[ast.Expr]bool{}
		for _, l := range x.Lhs {
			lhs[l] = true
		}
		for _, l := range x.Lhs {
			p.scanNode(u, l, st, lhs, nlit)
		}
		for _, r := range x.Rhs {
			p.scanNode(u, r, st, nil, nlit)
		}
		if len(x.Lhs) == len(x.Rhs) {
			for i, l := range x.Lhs {
				switch le := l.(type) {
				case *ast.Ident:
					u.defs[le.Name] = append(u.defs[le.Name], kdDef{x.Rhs[i], st, p.line(x)})
				case *ast.SelectorExpr:
					if le.Sel.Name == "depth" {
						op := x.Rhs[i]
						if x.Tok != token.ASSIGN {
							op = nil // `+=` and friends: not a plain store
						}
						p.stores = append(p.stores, kdStore{u.name, p.line(x), st, op, u})
					}
				}
			}
		} else {
			for _, l := range x.Lhs {
				if le, ok := l.(*ast.Ident); ok {
					u.defs[le.Name] = append(u.defs[le.Name], kdDef{nil, st, p.line(x)})
				}
				if le, ok := l.(*ast.SelectorExpr); ok && le.Sel.Name == "depth" {
					p.stores = append(p.stores, kdStore{u.name, p.line(x), st, nil, u})
				}
			}
		}
		return st
	case *ast.IncDecStmt:
		lhs := map[ast.Expr]bool{x.X: true}
		p.scanNode(u, x.X, st, lhs, nlit)
		if le, ok := x.X.(*ast.SelectorExpr); ok && le.Sel.Name == "depth" {
			p.stores = append(p.stores, kdStore{u.name, p.line(x), st, nil, u})
		}
		return st
	case *ast.DeclStmt:
		if gd, ok := x.Decl.(*ast.GenDecl); ok {
			for _, sp := range gd.Specs {
				if vs, ok := sp.(*ast.ValueSpec); ok {
					for i, nm := range vs.Names {
						var r ast.Expr
						if i < len(vs.Values) && len(vs.Values) == len(vs.Names) {
							r = vs.Values[i]
						}
						u.defs[nm.Name] = append(u.defs[nm.Name], kdDef{r, st, p.line(vs)})
					}
					for _, v := range vs.Values {
						p.scanNode(u, v, st, nil, nlit)
					}
				}
			}
		}
		return st
	case *ast.BlockStmt:
		return p.nested(u, x.List, st, nlit)
	case *ast.LabeledStmt:
		return p.walkStmt(u, x.Stmt, st, nlit)
	case *ast.IfStmt:
		if x.Init != nil {
			st = p.walkStmt(u, x.Init, st, nlit)
		}
		p.scanNode(u, x.Cond, st, nil, nlit)
		out := p.nested(u, x.Body.List, st, nlit)
		if x.Else != nil {
			out = merge(out, p.nested(u, []ast.Stmt{x.Else}, st, nlit))
		}
		return out
	case *ast.ForStmt:
		if x.Init != nil {
			st = p.walkStmt(u, x.Init, st, nlit)
		}
		p.scanNode(u, x.Cond, st, nil, nlit)
		if x.Post != nil {
			if end := p.walkStmt(u, x.Post, st, nlit); !sameState(end, st) {
				return kdState{mode: "unknown"}
			}
		}
		return p.nested(u, x.Body.List, st, nlit)
	case *ast.RangeStmt:
		p.scanNode(u, x.X, st, nil, nlit)
		for _, kv := range []ast.Expr{x.Key, x.Value} {
			if id, ok := kv.(*ast.Ident); ok {
				u.defs[id.Name] = append(u.defs[id.Name], kdDef{nil, st, p.line(x)})
			} else if kv != nil {
				p.scanNode(u, kv, st, map[ast.Expr]bool{kv: true}, nlit)
			}
		}
		return p.nested(u, x.Body.List, st, nlit)
	case *ast.SwitchStmt:
		if x.Init != nil {
			st = p.walkStmt(u, x.Init, st, nlit)
		}
		p.scanNode(u, x.Tag, st, nil, nlit)
		return p.clauses(u, x.Body, st, nlit)
	case *ast.TypeSwitchStmt:
		if x.Init != nil {
			st = p.walkStmt(u, x.Init, st, nlit)
		}
		st = p.walkStmt(u, x.Assign, st, nlit)
		return p.clauses(u, x.Body, st, nlit)
	case *ast.SelectStmt:
		return p.clauses(u, x.Body, st, nlit)
	case *ast.GoStmt:
		p.scanNode(u, x.Call, st, nil, nlit)
		return st
	case *ast.ReturnStmt:
		for _, r := range x.Results {
			p.scanNode(u, r, st, nil, nlit)
		}
		return st
	case *ast.SendStmt:
		p.scanNode(u, x.Chan, st, nil, nlit)
		p.scanNode(u, x.Value, st, nil, nlit)
		return st
	case *ast.BranchStmt, *ast.EmptyStmt:
		return st
	}
	// anything else: scan it flat in the current state
	p.scanNode(u, s, st, nil, nlit)
	return st
}

func (p *kdPass) clauses(u *kdUnit, body *ast.BlockStmt, st kdState, nlit *int) kdState {
	out := st
	for _, c := range body.List {
		switch cc := c.(type) {
		case *ast.CaseClause:
			for _, e := range cc.List {
				p.scanNode(u, e, st, nil, nlit)
			}
			if r := p.nested(u, cc.Body, st, nlit); r.mode == "unknown" {
				out = r
			}
		case *ast.CommClause:
			cs := st
			if cc.Comm != nil {
				cs = p.walkStmt(u, cc.Comm, st, nlit)
			}
			if r := p.nested(u, cc.Body, cs, nlit); r.mode == "unknown" || !sameState(cs, st) {
				out = kdState{mode: "unknown"}
			}
		}
	}
	return out
}

// classification of one store, resolved after its unit has been walked completely
type kdStoreRow struct {
	fn                  string
	line                int
	st                  kdState
	rhs                 string // recalc | local | other
	compute, radius     kdState
	peersLive, filterOk bool
}

// recalcArgs: e is `recalcDepth(<x>.connectedPeers, <radius>, <x>.peerFilter)`.
func (p *kdPass) recalcArgs(e ast.Expr) (radius ast.Expr, peersLive, filterOk, ok bool) {
	c, is := e.(*ast.CallExpr)
	if !is || len(c.Args) != 3 {
		return nil, false, false, false
	}
	id, is := c.Fun.(*ast.Ident)
	if !is || id.Name != "recalcDepth" {
		return nil, false, false, false
	}
	sel := func(a ast.Expr, name string) bool {
		se, is := a.(*ast.SelectorExpr)
		if !is || se.Sel.Name != name {
			return false
		}
		_, is = se.X.(*ast.Ident)
		return is
	}
	return c.Args[1], sel(c.Args[0], "connectedPeers"), sel(c.Args[2], "peerFilter"), true
}

func (p *kdPass) classify(s kdStore) kdStoreRow {
	row := kdStoreRow{fn: s.fn, line: s.line, st: s.st, rhs: "other",
		compute: kdState{mode: "unknown"}, radius: kdState{mode: "unknown"}}
	if s.rhs == nil {
		return row
	}
	call, callSt := s.rhs, s.st
	if id, ok := s.rhs.(*ast.Ident); ok {
		ds := s.unit.defs[id.Name]
		if len(ds) != 1 || ds[0].rhs == nil || ds[0].line >= s.line {
			return row
		}
		call, callSt = ds[0].rhs, ds[0].st
		row.rhs = "local"
	}
	radius, live, filt, ok := p.recalcArgs(call)
	if !ok {
		row.rhs = "other"
		return row
	}
	if row.rhs != "local" {
		row.rhs = "recalc"
	}
	row.compute, row.peersLive, row.filterOk = callSt, live, filt
	switch r := radius.(type) {
	case *ast.SelectorExpr:
		if _, is := r.X.(*ast.Ident); is && r.Sel.Name == "radius" {
			row.radius = callSt // read while the arguments of the call are evaluated
		}
	case *ast.Ident:
		if ds := s.unit.defs[r.Name]; len(ds) == 1 && ds[0].rhs != nil {
			if se, is := ds[0].rhs.(*ast.SelectorExpr); is && se.Sel.Name == "radius" {
				if _, is := se.X.(*ast.Ident); is {
					row.radius = ds[0].st
				}
			}
		}
	}
	return row
}

func genKadDepthLocks(repo string) (string, error) {
	dir := filepath.Join(repo, "pkg/topology/kademlia")
	ents, err := os.ReadDir(dir)
	if err != nil {
		return "", err
	}
	p := &kdPass{fset: token.NewFileSet()}
	for _, e := range ents {
		name := e.Name()
		if !strings.HasSuffix(name, ".go") || strings.HasSuffix(name, "_test.go") {
			continue
		}
		src, err := os.ReadFile(filepath.Join(dir, name))
		if err != nil {
			return "", err
		}
		if bytes.Contains(src, []byte("//go:build verif")) {
			continue // hook files are not part of the shipped program
		}
		f, err := parser.ParseFile(p.fset, name, src, 0)
		if err != nil {
			return "", err
		}
		for _, d := range f.Decls {
			fd, ok := d.(*ast.FuncDecl)
			if !ok || fd.Body == nil {
				continue
			}
			nlit := 0
			u := &kdUnit{name: fd.Name.Name, defs: map[string][]kdDef{}}
			// parameters count as definitions without a known value
			if fd.Type.Params != nil {
				for _, fl := range fd.Type.Params.List {
					for _, nm := range fl.Names {
						u.defs[nm.Name] = append(u.defs[nm.Name], kdDef{nil, kdState{mode: "none"}, p.line(fl)})
					}
				}
			}
			p.walkList(u, fd.Body.List, kdState{mode: "none"}, &nlit)
		}
	}
	var rows []kdStoreRow
	for _, s := range p.stores {
		rows = append(rows, p.classify(s))
	}
	sort.SliceStable(p.acc, func(i, j int) bool { return p.acc[i].line < p.acc[j].line })
	sort.SliceStable(rows, func(i, j int) bool { return rows[i].line < rows[j].line })
	sort.Strings(p.other)

	mode := func(s kdState) string {
		switch s.mode {
		case "w":
			return ".w"
		case "r":
			return ".r"
		case "none":
			return ".free"
		}
		return ".unknown"
	}
	var sb strings.Builder
	sb.WriteString("-- GENERATED by harness/cmd/extract (kad_depth_locks.go) from /repo/pkg/topology/kademlia on every check run — do not edit\n")
	sb.WriteString("namespace Aurora.Generated.KadDepthLocks\n\n")
	sb.WriteString("/-- how `depthMu` is held at a program point: not at all, read-locked, write-locked, or in a way the\n    extractor does not understand -/\n")
	sb.WriteString("inductive Mode where\n  | free | r | w | unknown\nderiving DecidableEq, Repr\n\n")
	sb.WriteString("/-- a lock state: mode + the region it belongs to (source line of the Lock()/RLock() call that opened it, 0 = none) -/\n")
	sb.WriteString("structure At where\n  mode : Mode\n  region : Nat\nderiving DecidableEq, Repr\n\n")
	sb.WriteString("inductive Kind where\n  | read | write | other\nderiving DecidableEq, Repr\n\n")
	sb.WriteString("/-- one syntactic access to `Kad.depth` / `Kad.radius` (`other` = address taken) -/\n")
	sb.WriteString("structure Access where\n  fn : String\n  line : Nat\n  field : String\n  kind : Kind\n  lock : At\nderiving Repr\n\n")
	sb.WriteString("inductive Rhs where\n  | recalc  -- `x.depth = recalcDepth(…)`\n  | local   -- `x.depth = v` where `v` has exactly one earlier definition `v := recalcDepth(…)` in the same function\n  | other   -- anything else (not understood)\nderiving DecidableEq, Repr\n\n")
	sb.WriteString("/-- one store to `Kad.depth`: where it happens, where the stored `recalcDepth(…)` call is evaluated, where the\n    radius passed to it is read, whether the peer set passed is the live `x.connectedPeers` and the filter `x.peerFilter` -/\n")
	sb.WriteString("structure Store where\n  fn : String\n  line : Nat\n  lock : At\n  rhs : Rhs\n  compute : At\n  radius : At\n  peersLive : Bool\n  filterOk : Bool\nderiving Repr\n\n")
	sb.WriteString("def accesses : List Access := [\n")
	for i, a := range p.acc {
		c := ","
		if i == len(p.acc)-1 {
			c = ""
		}
		fmt.Fprintf(&sb, "  ⟨%q, %d, %q, .%s, ⟨%s, %d⟩⟩%s\n", a.fn, a.line, a.field, a.kind, mode(a.st), a.st.region, c)
	}
	sb.WriteString("]\n\ndef stores : List Store := [\n")
	for i, r := range rows {
		c := ","
		if i == len(rows)-1 {
			c = ""
		}
		fmt.Fprintf(&sb, "  ⟨%q, %d, ⟨%s, %d⟩, .%s, ⟨%s, %d⟩, ⟨%s, %d⟩, %v, %v⟩%s\n", r.fn, r.line, mode(r.st), r.st.region, r.rhs,
			mode(r.compute), r.compute.region, mode(r.radius), r.radius.region, r.peersLive, r.filterOk, c)
	}
	sb.WriteString("]\n\n/-- uses of `depthMu` the extractor could not classify (`function:line`) -/\ndef mutexOther : List String := [")
	for i, o := range p.other {
		if i > 0 {
			sb.WriteString(", ")
		}
		fmt.Fprintf(&sb, "%q", o)
	}
	fmt.Fprintf(&sb, "]\n\n/-- `recalcDepth(` call sites in the package (diagnostics) -/\ndef recalcCalls : Nat := %d\n\nend Aurora.Generated.KadDepthLocks\n", p.recalcs)
	return sb.String(), nil
}
