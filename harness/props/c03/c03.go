// Package c03: correspondence + oracle for pkg/bmt (property C03).
package c03

import (
	"encoding/hex"
	"fmt"
	"strconv"
	"strings"
	"sync"

	"github.com/gauss-project/aurorafs/pkg/bmt"
	"github.com/gauss-project/aurorafs/pkg/boson"
	"golang.org/x/crypto/sha3"

	"verifharness/core"
)

type prop struct{}

func init() { core.Register(prop{}) }

func (prop) ID() string { return "C03" }
func (prop) Rule() string {
	return "cases: a pool (segment counts 2..8192, capacity 1..3) and a stream of get/setspan/write/writegen/hash/reset/put ops over 1-3 hashers sharing the pool, " +
		"so trees are reused dirty (short data after long data); data lengths boundary-dense around 0,1,31,32,33,63,64,65,127,128, capacity-64, capacity-1, capacity, capacity+5 (overflowing write); " +
		"writes split at random points incl. zero-length writes; `par` ops run k concurrent hashes on the shared pool; keccak known-answer ops. " +
		"Non-trivial: >=1 hash of >=1 byte on a reused (put then get again) tree or with >=2 writes; distinct by op-list hash."
}

func boundaryLens(max int) []int {
	c := []int{0, 1, 31, 32, 33, 63, 64, 65, 127, 128, 129, 191, 192, 193, max - 65, max - 64, max - 63, max - 33, max - 32, max - 1, max, max + 5, max / 2, max/2 + 1, max/2 - 1, max/2 + 64}
	var out []int
	for _, x := range c {
		if x >= 0 {
			out = append(out, x)
		}
	}
	return out
}

func (prop) Gen(r *core.Rand, tier string) []core.Case {
	n, bigEvery := 150, 50
	if tier == "thorough" {
		n, bigEvery = 3000, 40
	}
	var cs []core.Case
	cs = append(cs, core.Case{ID: "kat", Ops: []string{"pool 2 1", "keccak -", "keccak 616263",
		"keccak " + hex.EncodeToString(core.GenBytes(7, 135, 0)), "keccak " + hex.EncodeToString(core.GenBytes(8, 136, 0)),
		"keccak " + hex.EncodeToString(core.GenBytes(9, 137, 0)), "keccak " + hex.EncodeToString(core.GenBytes(10, 300, 0))}})
	cs = append(cs, core.Case{ID: "fix-reuse-dirty", NT: true, Ops: []string{"pool 128 1", "get a", "writegen a 3 4096", "hash a", "put a",
		"get b", "writegen b 4 65", "hash b", "put b", "get c", "hash c", "writegen c 5 64", "hash c", "reset c", "writegen c 6 1", "hash c"}})
	for i := 0; i < n; i++ {
		c := core.Case{ID: fmt.Sprintf("g%d", i)}
		segs := r.Pick([]int{2, 3, 4, 8, 16, 100, 128, 128, 128, 256})
		if i%bigEvery == bigEvery-1 {
			segs = 8192
		}
		cnt := 2
		for cnt < segs {
			cnt *= 2
		}
		max := cnt * 32
		capacity := r.Range(1, 3)
		c.Ops = append(c.Ops, fmt.Sprintf("pool %d %d", segs, capacity))
		ids := []string{"a", "b", "c"}
		live := map[string]bool{}
		free := capacity
		rounds := r.Range(2, 8)
		if segs == 8192 {
			rounds = r.Range(2, 3)
		}
		reused, multi := false, false
		puts := 0
		for k := 0; k < rounds; k++ {
			id := ids[r.Intn(len(ids))]
			if !live[id] {
				if free == 0 { // put someone back first
					for x := range live {
						if live[x] {
							c.Ops = append(c.Ops, "put "+x)
							live[x] = false
							free++
							puts++
							break
						}
					}
				}
				c.Ops = append(c.Ops, "get "+id)
				live[id] = true
				free--
				if puts > 0 {
					reused = true
				}
			} else if r.Chance(50) {
				c.Ops = append(c.Ops, "reset "+id)
			}
			if r.Chance(70) {
				c.Ops = append(c.Ops, "setspan "+id+" "+core.Hex(r.Bytes(8)))
			}
			var total int
			if r.Chance(65) {
				bl := boundaryLens(max)
				total = bl[r.Intn(len(bl))]
			} else {
				total = r.Intn(max + 1)
			}
			// split into writes
			rem := total
			nw := 0
			for rem > 0 || nw == 0 {
				var w int
				switch r.Intn(5) {
				case 0:
					w = rem
				case 1:
					w = 0
				case 2:
					w = min(rem, r.Pick([]int{1, 31, 32, 33, 63, 64, 65, 128}))
				default:
					w = r.Intn(rem + 1)
				}
				if w <= 256 && segs != 8192 {
					c.Ops = append(c.Ops, "write "+id+" "+core.Hex(r.Bytes(w)))
				} else {
					c.Ops = append(c.Ops, fmt.Sprintf("writegen %s %d %d", id, r.Intn(1000), w))
				}
				rem -= w
				nw++
				if nw > 6 {
					c.Ops = append(c.Ops, fmt.Sprintf("writegen %s %d %d", id, r.Intn(1000), rem))
					rem = 0
				}
				if total == 0 {
					break
				}
			}
			if nw >= 2 && total > 0 {
				multi = true
			}
			c.Ops = append(c.Ops, "hash "+id)
			if r.Chance(10) {
				// Hash twice / Write after Hash without Reset is outside the hasher's contract (the real
				// code deadlocks); both sides answer `hashed` without calling the code.
				c.Ops = append(c.Ops, "hash "+id)
			}
			if r.Chance(50) {
				c.Ops = append(c.Ops, "put "+id)
				live[id] = false
				free++
				puts++
			}
		}
		if free > 0 && r.Chance(40) && segs != 8192 {
			c.Ops = append(c.Ops, fmt.Sprintf("par %d %d %d", r.Range(2, 12), r.Intn(1000), r.Intn(max+1)))
		}
		c.NT = reused || multi
		cs = append(cs, c)
	}
	return cs
}

func min(a, b int) int {
	if a < b {
		return a
	}
	return b
}

type hs struct {
	h      *bmt.Hasher
	span   []byte
	data   []byte
	hashed bool // Hash was called since get/reset
}

type runner struct {
	pool *bmt.Pool
	max  int
	free int
	hs   map[string]*hs
}

func (prop) New() core.Runner { return &runner{} }
func (*runner) Close()        {}

// independent reference: keccak(span || root of zero-padded data), plain recursion
func keccak(b ...[]byte) []byte {
	h := sha3.NewLegacyKeccak256()
	for _, x := range b {
		h.Write(x)
	}
	return h.Sum(nil)
}
func refRoot(b []byte) []byte {
	if len(b) == 64 {
		return keccak(b)
	}
	return keccak(refRoot(b[:len(b)/2]), refRoot(b[len(b)/2:]))
}
func refHash(span, data []byte, max int) []byte {
	p := make([]byte, max)
	copy(p, data)
	return keccak(span, refRoot(p))
}

func (rn *runner) oracle(ctx *core.Ctx, x *hs, got []byte) {
	d := x.data
	if len(d) > rn.max {
		d = d[:rn.max]
	}
	want := refHash(x.span, d, rn.max)
	if hex.EncodeToString(want) != hex.EncodeToString(got) {
		clause := "hash-mismatch"
		if len(d) == 0 {
			clause = "hash-mismatch-empty"
		} else if len(x.data) > rn.max {
			clause = "hash-mismatch-overflow"
		}
		ctx.Fail(clause, "len=%d span=%x: got %x want %x", len(d), x.span, got, want)
	}
}

func (rn *runner) Step(ctx *core.Ctx, op []string) string {
	if len(op) == 3 && op[0] == "pool" {
		n, e1 := strconv.Atoi(op[1])
		c, e2 := strconv.Atoi(op[2])
		if e1 != nil || e2 != nil || n < 1 || c < 1 || c > 8 || n > 8192 {
			return "bad-op"
		}
		rn.pool = bmt.NewPool(bmt.NewConf(boson.NewHasher, n, c))
		rn.free = c
		rn.hs = map[string]*hs{}
		h := rn.pool.Get()
		rn.max = h.Capacity()
		rn.pool.Put(h)
		return fmt.Sprintf("ok %d", rn.max)
	}
	if rn.pool == nil {
		return "nopool"
	}
	switch {
	case len(op) == 2 && op[0] == "get":
		if rn.hs[op[1]] != nil {
			return "dup"
		}
		if rn.free == 0 {
			return "empty" // Get would block forever
		}
		rn.free--
		rn.hs[op[1]] = &hs{h: rn.pool.Get(), span: make([]byte, 8)}
		return "ok"
	case len(op) == 2 && op[0] == "put":
		x := rn.hs[op[1]]
		if x == nil {
			return "noh"
		}
		rn.pool.Put(x.h)
		rn.free++
		delete(rn.hs, op[1])
		return "ok"
	case len(op) == 2 && op[0] == "reset":
		x := rn.hs[op[1]]
		if x == nil {
			return "noh"
		}
		x.h.Reset()
		x.span = make([]byte, 8)
		x.data = nil
		x.hashed = false
		return "ok"
	case len(op) == 3 && op[0] == "setspan":
		x := rn.hs[op[1]]
		if x == nil {
			return "noh"
		}
		b, err := core.UnHex(op[2])
		if err != nil {
			return "bad-op"
		}
		x.h.SetHeader(b)
		copy(x.span, b)
		// the hasher must have captured the header: the caller recycles its span buffer right away
		for i := range b {
			b[i] ^= 0xa5
		}
		return "ok"
	case (len(op) == 3 && op[0] == "write") || (len(op) == 4 && op[0] == "writegen"):
		x := rn.hs[op[1]]
		if x == nil {
			return "noh"
		}
		if x.hashed {
			return "hashed"
		}
		var b []byte
		if op[0] == "write" {
			var err error
			if b, err = core.UnHex(op[2]); err != nil {
				return "bad-op"
			}
		} else {
			seed, e1 := strconv.Atoi(op[2])
			n, e2 := strconv.Atoi(op[3])
			if e1 != nil || e2 != nil || n < 0 {
				return "bad-op"
			}
			b = core.GenBytes(uint64(seed), n, 0)
		}
		n, err := x.h.Write(b)
		if err != nil {
			return "err"
		}
		x.data = append(x.data, b...)
		return strconv.Itoa(n)
	case len(op) == 2 && op[0] == "hash":
		x := rn.hs[op[1]]
		if x == nil {
			return "noh"
		}
		if x.hashed {
			return "hashed"
		}
		got, err := x.h.Hash(nil)
		x.hashed = true
		if err != nil {
			return "err"
		}
		rn.oracle(ctx, x, got)
		return hex.EncodeToString(got)
	case len(op) == 4 && op[0] == "par":
		k, e1 := strconv.Atoi(op[1])
		seed, e2 := strconv.Atoi(op[2])
		n, e3 := strconv.Atoi(op[3])
		if e1 != nil || e2 != nil || e3 != nil || k < 1 || k > 64 {
			return "bad-op"
		}
		if rn.free == 0 {
			return "empty"
		}
		outs := make([]string, k)
		var wg sync.WaitGroup
		var mu sync.Mutex
		for i := 0; i < k; i++ {
			wg.Add(1)
			go func(i int) {
				defer wg.Done()
				l := (n + 37*i) % (rn.max + 1)
				data := core.GenBytes(uint64(seed+i), l, 0)
				span := core.GenBytes(uint64(seed+1000+i), 8, 0)
				h := rn.pool.Get()
				h.SetHeader(span)
				// split the write in two to exercise the section bookkeeping
				_, _ = h.Write(data[:l/3])
				_, _ = h.Write(data[l/3:])
				got, _ := h.Hash(nil)
				rn.pool.Put(h)
				want := refHash(span, data, rn.max)
				if hex.EncodeToString(got) != hex.EncodeToString(want) {
					mu.Lock()
					ctx.Fail("hash-mismatch-concurrent", "par worker %d len=%d: got %x want %x", i, l, got, want)
					mu.Unlock()
				}
				outs[i] = hex.EncodeToString(got)
			}(i)
		}
		wg.Wait()
		return strings.Join(outs, ",")
	case len(op) == 2 && op[0] == "keccak":
		b, err := core.UnHex(op[1])
		if err != nil {
			return "bad-op"
		}
		return hex.EncodeToString(keccak(b))
	}
	return "bad-op"
}
