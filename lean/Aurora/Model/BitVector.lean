/-
Model of /repo/pkg/bitvector/bitvector.go (hand translation, tied by the C39
correspondence run).  Bytes are `BitVec 8`; the backing slice is a `List`.
Go panics (index out of range) are modelled by `Option`/guards in the driver:
the functions here are total and agree with Go wherever Go does not panic
(`i / 8 < b.length`).
-/
namespace Aurora.BitVector

abbrev Byte := BitVec 8

structure BV where
  len : Nat
  b   : List Byte
deriving Repr, DecidableEq

/-- `New`: number of backing bytes chosen by the constructor. -/
def newBytes (l : Nat) : Nat :=
  if l % 8 = 0 ∧ l ≠ 0 then l / 8 else l / 8 + 1

/-- `NewFromBytes(b, l)`; `l` is a Go `int`, so it may be negative. -/
def newFromBytes (b : List Byte) (l : Int) : Option BV :=
  if l ≤ 0 then none
  else if (b.length : Int) * 8 < l then none
  else some { len := l.toNat, b := b }

/-- `New(l)`.  (For `l < 0` Go's `make` gets a non-positive length only when
`l/8+1 ≤ 0`; the driver never calls `New` with a negative length, the theorem
`new_error_iff` covers `l ≤ 0` through `newFromBytes`.) -/
def new (l : Int) : Option BV :=
  newFromBytes (List.replicate (newBytes l.toNat) 0#8) l

/-- bit `j` (LSB first) of a byte. -/
def bit (x : Byte) (j : Nat) : Bool := x.getLsbD j

/-- `Get(i)`; reading past the backing slice (a Go panic) yields `false` here. -/
def get (bv : BV) (i : Nat) : Bool :=
  bit (bv.b[i / 8]?.getD 0#8) (i % 8)

/-- the unexported `set(i, v)`: flip the bit by XOR when it differs. -/
def set (bv : BV) (i : Nat) (v : Bool) : BV :=
  if get bv i != v then
    { bv with b := bv.b.set (i / 8) (bv.b[i / 8]?.getD 0#8 ^^^ (1#8 <<< (i % 8))) }
  else bv

/-- the loop shared by `SetBytes` / `UnsetBytes`. -/
def maskLoop (v : Bool) (bs : List Byte) (bv : BV) : BV :=
  (List.range (bv.b.length * 8)).foldl
    (fun acc i => if bit (bs[i / 8]?.getD 0#8) (i % 8) then set acc i v else acc) bv

def setBytes (bv : BV) (bs : List Byte) : Option BV :=
  if bs.length ≠ bv.b.length then none else some (maskLoop true bs bv)

def unsetBytes (bv : BV) (bs : List Byte) : Option BV :=
  if bs.length ≠ bv.b.length then none else some (maskLoop false bs bv)

/-- number of backing bytes that hold bits `< len` (the repaired `Equals`
    iterates over exactly these). -/
def usedBytes (len : Nat) : Nat := if len % 8 = 0 then len / 8 else len / 8 + 1

/-- inner `for length > 0 { length--; … }` loop of `Equals` on the last used byte. -/
def lowBitsSet (x : Byte) : Nat → Bool
  | 0 => true
  | n + 1 => if bit x (n % 8) then lowBitsSet x n else false

/-- `Equals()` — "all bits set" test (outer loop over byte index `i`, `l` = bytes
    inspected). -/
def equalsLoop (rem : Nat) (l : Nat) (b : List Byte) : Nat → Nat → Bool
  | _, 0 => true
  | i, fuel + 1 =>
    if rem ≠ 0 ∧ i = l - 1 then
      if lowBitsSet (b[i]?.getD 0#8) rem then equalsLoop rem l b (i + 1) fuel else false
    else if b[i]?.getD 0#8 = 0xff#8 then equalsLoop rem l b (i + 1) fuel else false

def equals (bv : BV) : Bool :=
  let l := usedBytes bv.len
  equalsLoop (bv.len % 8) l bv.b 0 l

/-- The pre-repair `Equals` (loop bound `len(bv.b)`); kept to state what the repair changed
    (`equalsOld_counterexample` in Props/C39). -/
def equalsOld (bv : BV) : Bool :=
  let l := bv.b.length
  equalsLoop (bv.len % 8) l bv.b 0 l

/-- well-formedness established by the constructors -/
def WF (bv : BV) : Prop := 0 < bv.len ∧ bv.len ≤ bv.b.length * 8

instance (bv : BV) : Decidable (WF bv) := by unfold WF; infer_instance

/-- abstraction: the boolean array of length `len` -/
def abs (bv : BV) : List Bool := (List.range bv.len).map (get bv)

end Aurora.BitVector
