import Aurora.Model.Bmt
/-!
# Model of `/repo/pkg/file/pipeline/feeder/feeder.go` (`chunkFeeder.Write` / `Sum`)

`size` is the feeder's chunk size (`boson.ChunkSize` in the builder).  State: the valid prefix
`f.buffer[:f.bufferIdx]` (bytes of the Go buffer beyond `bufferIdx` are never read, so they are not
represented) and the counter `wrote` (an `Int`, as `w` can be negative inside `Write`).

A chunk handed to the next writer is represented by its payload `d[span:span+sp]`; the 8-byte
prefix `d[:span]` is always `le64 sp` and is added by the pipeline model.  The Go code reuses ONE
slice `d` for every chunk flushed inside a single `Write` call (later chunks overwrite earlier
ones); the model hands out values, i.e. it assumes the next writers do not retain `Data` beyond
`ChainWrite` (true for bmt → store → hashtrie as long as the `Putter` copies what it keeps).
-/
namespace Aurora.Feeder
open Aurora.Bmt (Bytes)

structure State where
  buf : Bytes := []      -- f.buffer[:f.bufferIdx]
  wrote : Int := 0
deriving Repr

/-- Result of the `for i := 0; i < len(b);` loop of `Write`.
    `pre` is `d[span:span+sp]` at the loop head (the bytes taken over from the buffer in the first
    iteration, empty afterwards; `sp = pre.length = f.bufferIdx` at every loop head), `rest = b[i:]`,
    `w` the running count, `out` the chunks flushed so far (in order).  Returns
    `(new buffer, whether the function returned from inside the loop, w, chunks)`. -/
def writeLoop (size : Nat) : Nat → Bytes → Bytes → Int → List Bytes → Bytes × Bool × Int × List Bytes
  | 0, rest, _, w, out => (rest, true, w, out)          -- fuel exhausted (never: fuel = len(b)+1)
  | fuel + 1, rest, pre, w, out =>
    if rest = [] then ([], false, w, out)                -- `i == len(b)`: leave the loop
    else if pre.length + rest.length < size then
      -- `n = copy(f.buffer, b[i:]); f.bufferIdx = n; return w + n`
      let n := min size rest.length
      (rest.take n, true, w + n, out)
    else
      -- `n = copy(d[span+f.bufferIdx:], b[i:]); i += n; sp += n; ChainWrite(d[:span+sp])`
      let n := min (size - pre.length) rest.length
      let chunk := pre ++ rest.take n
      -- `f.bufferIdx = 0; w += sp; sp = 0`
      writeLoop size fuel (rest.drop n) [] (w + chunk.length) (out ++ [chunk])

/-- `Write(b)`: new state, chunk payloads flushed (in order), returned byte count. -/
def write (size : Nat) (f : State) (b : Bytes) : State × List Bytes × Int :=
  if b.length + f.buf.length < size then
    -- `n := copy(f.buffer[f.bufferIdx:], b); f.bufferIdx += n; return n`
    let n := min (size - f.buf.length) b.length
    ({ f with buf := f.buf ++ b.take n }, [], n)
  else
    -- `sp = copy(d[span:], f.buffer[:f.bufferIdx]); if sp > 0 { w -= sp }`
    let pre := f.buf.take size
    let w0 : Int := - (pre.length : Int)
    let (buf', early, w, out) := writeLoop size (b.length + 1) b pre w0 []
    if early then ({ f with buf := buf' }, out, w)        -- returned inside the loop: `wrote` untouched
    else
      -- after the loop: `f.wrote += int64(w); return w` (bufferIdx was reset by the last flush,
      -- or is unchanged if the loop body never ran)
      ({ buf := if out = [] then f.buf else buf', wrote := f.wrote + w }, out, w)

/-- The chunks `Sum()` flushes before calling `next.Sum()`: the pending buffer, and — when nothing
    was ever accounted in `wrote` — the empty-file chunk (span 0, no payload). -/
def sum (f : State) : State × List Bytes :=
  let (f1, out1) :=
    if f.buf.length > 0 then ({ f with wrote := f.wrote + (f.buf.length + 8 : Nat) }, [f.buf]) else (f, [])
  if f1.wrote = 0 then ({ f1 with wrote := f1.wrote + 8 }, out1 ++ [[]]) else (f1, out1)

end Aurora.Feeder
