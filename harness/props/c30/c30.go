// Package c30: correspondence + oracle for "cheques are credited once and to the right peer"
// (traffic.Service.ReceiveCheque over the real cheque store with real secp256k1 signatures).
package c30

import (
	"context"
	"fmt"
	"math/big"
	"runtime"
	"sort"
	"strconv"
	"strings"
	"sync"
	"time"

	"github.com/gauss-project/aurorafs/pkg/settlement/traffic"
	chequePkg "github.com/gauss-project/aurorafs/pkg/settlement/traffic/cheque"

	"verifharness/core"
	"verifharness/settle"
)

type prop struct{}

func init() { core.Register(prop{}) }

func (prop) ID() string { return "C30" }
func (prop) Rule() string {
	return "cases: 3 peers (ids 0-2) registered with chain addresses 1-3 (keys), then 6-40 ops: cheques delivered through Service.ReceiveCheque " +
		"(valid increasing, replay of an earlier line, equal, decreasing, wrong recipient, wrong signer, corrupted/truncated/empty signature, " +
		"validly signed by registered issuer B but delivered by peer A, signed by an unregistered key, delivered by an unregistered peer, huge amounts), " +
		"direct ChequeStore.ReceiveCheque calls, LastReceivedCheque and TrafficCheques observations, rare re-registration; " +
		"signature reuse (xrecv/sxrecv: a cheque carrying exactly the signature bytes of an earlier accepted cheque with another cumulative payout / recipient / " +
		"issuer); parrecv: 2-3 cheques of one issuer (the same cheque twice, increasing, decreasing, one invalid) delivered concurrently to the cheque store or " +
		"through the service, with the reads of the last-cheque record parked until every delivery has read, waits for a lock or has returned; fixed regression " +
		"cases fix-foreign-issuer*, fix-reused-signature, fix-concurrent-replay* first. Non-trivial: >=1 valid cheque, >=1 adversarial cheque and >=1 observation; distinct by op-list hash."
}

const (
	nPeers = 5  // peer ids 0..4 (3,4 normally unregistered)
	nAddrs = 16 // chain address ids 0..15 (0 = this node, 0..7 have keys)
)

func (prop) Gen(r *core.Rand, tier string) []core.Case {
	n := 300
	if tier == "thorough" {
		n = 4000 // every case leaks the service's two background goroutines, and parrecv inspects all goroutine stacks
	}
	cs := []core.Case{
		{ID: "fix-foreign-issuer", NT: true, Ops: []string{"reg 0 1", "reg 1 2", "recv 0 2 0 77 2 0", "cheques", "last 0", "last 1"}},
		{ID: "fix-foreign-issuer-then-own", NT: true, Ops: []string{"reg 0 1", "reg 1 2", "recv 1 2 0 50 2 0", "recv 0 2 0 77 2 0", "recv 0 1 0 10 1 0", "cheques", "last 0", "last 1"}},
		{ID: "fix-wrong-recipient-own-issuer", NT: true, Ops: []string{"reg 0 1", "recv 0 1 5 10 1 0", "cheques", "last 0"}},
		{ID: "fix-reused-signature", NT: true, Ops: []string{"reg 0 1", "recv 0 1 0 10 1 0", "recv 0 1 0 10 1 0", "xrecv 0 1 0 1000 1 0 10 1", "last 0", "recv 0 1 0 25 1 0", "cheques", "last 0"}},
		{ID: "fix-reused-signature-store", NT: true, Ops: []string{"reg 0 1", "srecv 1 0 10 1 0", "sxrecv 1 0 1000 1 0 10 1", "sxrecv 2 0 50 1 0 10 1", "sxrecv 1 5 50 1 0 10 1", "srecv 1 0 25 1 0", "last 0"}},
		{ID: "fix-concurrent-replay", NT: true, Ops: []string{"reg 0 1", "parrecv s 2 1 0 10 1 0 1 0 10 1 0", "last 0", "srecv 1 0 10 1 0"}},
		{ID: "fix-concurrent-increasing", NT: true, Ops: []string{"reg 0 1", "parrecv s 2 1 0 10 1 0 1 0 20 1 0", "last 0", "srecv 1 0 20 1 0", "last 0"}},
		{ID: "fix-concurrent-replay-service", NT: true, Ops: []string{"reg 0 1", "parrecv 0 3 1 0 10 1 0 1 0 10 1 0 1 0 30 1 0", "cheques", "last 0"}},
		{ID: "fix-replay-reorder", NT: true, Ops: []string{"reg 0 1", "recv 0 1 0 10 1 0", "recv 0 1 0 30 1 0", "recv 0 1 0 10 1 0", "recv 0 1 0 30 1 0", "recv 0 1 0 20 1 0", "cheques", "last 0"}},
	}
	for i := 0; i < n; i++ {
		c := core.Case{ID: fmt.Sprintf("g%d", i)}
		last := map[int]*big.Int{}
		for p := 0; p < 3; p++ {
			c.Ops = append(c.Ops, fmt.Sprintf("reg %d %d", p, p+1))
		}
		fwd := map[int]int{0: 1, 1: 2, 2: 3}
		var sent []string
		type gen struct {
			ben int
			cum *big.Int
		}
		var genuine []gen // cheques the generator expects to be accepted (their signatures get reused)
		valid, adv, obs := 0, 0, 0
		nops := r.Range(6, 40)
		cumOf := func(a int) *big.Int {
			if v, ok := last[a]; ok {
				return v
			}
			return big.NewInt(0)
		}
		for k := 0; k < nops; k++ {
			p := r.Intn(3)
			a := fwd[p]
			verb := "recv " + strconv.Itoa(p) + " "
			if r.Chance(12) {
				verb = "srecv "
			}
			line := func(ben, rcp int, cum *big.Int, signer, mut int) string {
				return fmt.Sprintf("%s%d %d %s %d %d", verb, ben, rcp, cum.String(), signer, mut)
			}
			inc := big.NewInt(int64(r.Range(1, 50)))
			if r.Chance(5) {
				inc = new(big.Int).Lsh(big.NewInt(int64(r.Range(1, 9))), uint(r.Range(60, 90)))
			}
			switch r.Intn(24) {
			case 0, 1, 2, 3, 4, 5, 6: // valid, increasing
				cum := new(big.Int).Add(cumOf(a), inc)
				l := line(a, 0, cum, a, 0)
				last[a] = cum
				sent = append(sent, l)
				genuine = append(genuine, gen{a, cum})
				c.Ops = append(c.Ops, l)
				valid++
			case 7: // replay of an earlier line (possibly through another peer: the line is kept as is)
				if len(sent) > 0 {
					c.Ops = append(c.Ops, sent[r.Intn(len(sent))])
					adv++
				}
			case 8: // equal / decreasing
				cum := new(big.Int).Sub(cumOf(a), big.NewInt(int64(r.Intn(3))))
				if cum.Sign() < 0 {
					cum = big.NewInt(0)
				}
				c.Ops = append(c.Ops, line(a, 0, cum, a, 0))
				adv++
			case 9: // wrong recipient
				c.Ops = append(c.Ops, line(a, r.Pick([]int{4, 5, 1, 2}), new(big.Int).Add(cumOf(a), inc), a, 0))
				adv++
			case 10: // wrong signer
				s := r.Pick([]int{0, 1, 2, 3, 4, 5})
				c.Ops = append(c.Ops, line(a, 0, new(big.Int).Add(cumOf(a), inc), s, 0))
				if s != a {
					adv++
				} else {
					last[a] = new(big.Int).Add(cumOf(a), inc)
					valid++
				}
			case 11: // corrupted / truncated / empty signature
				c.Ops = append(c.Ops, line(a, 0, new(big.Int).Add(cumOf(a), inc), a, r.Range(1, 3)))
				adv++
			case 12, 13: // validly signed by another registered issuer, delivered by p
				b := fwd[(p+1+r.Intn(2))%3]
				cum := new(big.Int).Add(cumOf(b), inc)
				l := line(b, 0, cum, b, 0)
				if verb == "srecv " {
					last[b] = cum
				}
				sent = append(sent, l)
				c.Ops = append(c.Ops, l)
				adv++
			case 14: // signed by an unregistered key, claims to be it
				b := r.Pick([]int{4, 5, 6})
				c.Ops = append(c.Ops, line(b, 0, new(big.Int).Add(cumOf(b), inc), b, 0))
				adv++
			case 15: // unregistered peer delivers a perfectly valid cheque of issuer a
				c.Ops = append(c.Ops, fmt.Sprintf("recv %d %d 0 %s %d 0", r.Pick([]int{3, 4}), a, new(big.Int).Add(cumOf(a), inc).String(), a))
				adv++
			case 16: // rare re-registration
				if r.Chance(25) {
					np, na := r.Intn(4), r.Range(1, 5)
					c.Ops = append(c.Ops, fmt.Sprintf("reg %d %d", np, na))
					fwd[np] = na
				} else {
					c.Ops = append(c.Ops, "cheques")
					obs++
				}
			case 20, 21: // signature reuse: an earlier genuine cheque's signature on different content
				if len(genuine) > 0 {
					g := genuine[r.Intn(len(genuine))]
					nb, nr, nc := g.ben, 0, new(big.Int).Add(cumOf(g.ben), inc)
					switch r.Intn(5) {
					case 0:
						nb = fwd[(p+1)%3] // another issuer
					case 1:
						nr = r.Pick([]int{1, 4, 5}) // another recipient
					case 2:
						nc = new(big.Int).Add(g.cum, big.NewInt(int64(r.Range(0, 1)))) // same / +1
					}
					xv := "xrecv " + strconv.Itoa(p) + " "
					if verb == "srecv " {
						xv = "sxrecv "
					}
					c.Ops = append(c.Ops, fmt.Sprintf("%s%d %d %s %d 0 %s %d", xv, nb, nr, nc.String(), g.ben, g.cum.String(), g.ben))
					adv++
				}
			case 22, 23: // concurrent deliveries of cheques of one issuer (costly: about half as often as a signature reuse)
				if !r.Chance(55) {
					c.Ops = append(c.Ops, "cheques")
					obs++
					break
				}
				k := r.Range(2, 3)
				via := strconv.Itoa(p)
				if r.Chance(60) {
					via = "s"
				}
				l := fmt.Sprintf("parrecv %s %d", via, k)
				base := new(big.Int).Add(cumOf(a), inc)
				hi := cumOf(a)
				for j := 0; j < k; j++ {
					cum, signer, mut := base, a, 0
					switch r.Intn(6) {
					case 0, 1: // the same cheque again
					case 2, 3:
						cum = new(big.Int).Add(base, big.NewInt(int64(r.Range(1, 30)*(j+1))))
					case 4:
						cum = cumOf(a) // not increasing
					case 5:
						if r.Bool() {
							signer = (a + 1) % 6
						} else {
							mut = r.Range(1, 3)
						}
					}
					if signer == a && mut == 0 && cum.Cmp(hi) > 0 {
						hi = cum
					}
					l += fmt.Sprintf(" %d 0 %s %d %d", a, cum.String(), signer, mut)
				}
				if hi.Cmp(cumOf(a)) > 0 {
					last[a] = hi
					genuine = append(genuine, gen{a, hi})
					valid++
				}
				c.Ops = append(c.Ops, l)
				adv++
			case 17, 18:
				c.Ops = append(c.Ops, "last "+strconv.Itoa(r.Intn(4)))
				obs++
			default:
				c.Ops = append(c.Ops, "cheques")
				obs++
			}
		}
		c.Ops = append(c.Ops, "cheques", "last 0", "last 1", "last 2")
		c.NT = valid > 0 && adv > 0
		cs = append(cs, c)
	}
	return cs
}

type runner struct {
	env *settle.Env
	// model-free shadow for the oracle
	fwd    map[int]int      // peer -> address as registered by the harness
	rev    map[int]int      // address -> peer
	maxAcc map[int]*big.Int // highest accepted cumulative payout per issuer
	sumAmt map[int]*big.Int // Σ amounts returned by the store per issuer
	sigs   map[string][]byte // signature per (content, key), so that reuse is byte-exact
}

func (prop) New() core.Runner {
	return &runner{env: settle.NewEnv(), fwd: map[int]int{}, rev: map[int]int{}, maxAcc: map[int]*big.Int{}, sumAmt: map[int]*big.Int{}, sigs: map[string][]byte{}}
}
func (rn *runner) Close() { rn.env.Close() }

func errWord(err error) string {
	switch {
	case err == nil:
		return "ok"
	case err == chequePkg.ErrWrongBeneficiary:
		return "wrong-recipient"
	case err == chequePkg.ErrChequeInvalid:
		return "invalid"
	case err == chequePkg.ErrChequeNotIncreasing:
		return "not-increasing"
	case err.Error() == "account information error":
		return "unknown-peer"
	case err.Error() == "account information error ":
		return "account"
	}
	return "recover-err"
}

// credits returns the sorted "peer:received" entries of TrafficCheques, optionally without peer `skip`.
func (rn *runner) credits(skip int) string {
	l, _ := rn.env.Svc.TrafficCheques()
	var keep []*traffic.TrafficCheque
	for _, tc := range l {
		if settle.PeerID(tc.Peer, nPeers) != skip {
			keep = append(keep, tc)
		}
	}
	return chequesStr(keep)
}

func chequesStr(l []*traffic.TrafficCheque) string {
	var out []string
	type kv struct {
		p int
		v *big.Int
	}
	var kvs []kv
	for _, tc := range l {
		if tc.ReceivedSettlements.Sign() == 0 {
			continue
		}
		kvs = append(kvs, kv{settle.PeerID(tc.Peer, nPeers), tc.ReceivedSettlements})
	}
	sort.Slice(kvs, func(i, j int) bool {
		if kvs[i].p != kvs[j].p {
			return kvs[i].p < kvs[j].p
		}
		return kvs[i].v.Cmp(kvs[j].v) <= 0
	})
	for _, x := range kvs {
		out = append(out, fmt.Sprintf("%d:%s", x.p, x.v.String()))
	}
	if len(out) == 0 {
		return "-"
	}
	return strings.Join(out, " ")
}

func get(m map[int]*big.Int, k int) *big.Int {
	if v, ok := m[k]; ok {
		return v
	}
	return big.NewInt(0)
}

// sign builds the cheque and signs it with key `signer` (mutations: 1 corrupt, 2 truncate, 3 empty).
// The signature of a given (content, key) is computed once per case, so a later op that names the
// same content gets exactly the same signature bytes.
func (rn *runner) sign(ben, rcp int, cum *big.Int, signer, mut int) (*chequePkg.SignedCheque, bool) {
	key := fmt.Sprintf("%d/%d/%s/%d", ben, rcp, cum.String(), signer)
	sig, ok := rn.sigs[key]
	if !ok {
		sc, err := settle.SignCheque(settle.Addr(ben), settle.Addr(rcp), cum, signer)
		if err != nil {
			return nil, false
		}
		sig = sc.Signature
		rn.sigs[key] = sig
	}
	sc := &chequePkg.SignedCheque{Cheque: chequePkg.Cheque{Recipient: settle.Addr(rcp), Beneficiary: settle.Addr(ben), CumulativePayout: new(big.Int).Set(cum)},
		Signature: append([]byte(nil), sig...)}
	switch mut {
	case 1:
		sc.Signature[7] ^= 0x40
	case 2:
		sc.Signature = sc.Signature[:40]
	case 3:
		sc.Signature = nil
	}
	return sc, true
}

// recovered is the oracle field for the model: what the real (stateless) recovery says.
func recovered(sc *chequePkg.SignedCheque) string {
	if a, err := chequePkg.RecoverCheque(sc, settle.ChainID); err == nil {
		if id := settle.AddrID(a, nAddrs); id >= 0 {
			return strconv.Itoa(id)
		}
		return "unk"
	}
	return "err"
}

// deliver hands one cheque to the service (p >= 0) or to the cheque store (p < 0) and evaluates
// the acceptance conditions of the property on the outcome, without the model.
func (rn *runner) deliver(ctx *core.Ctx, p int, sc *chequePkg.SignedCheque, ben, rcp int, cum *big.Int, genuine bool, how string) string {
	ctx.Annotate("rec=" + recovered(sc))
	owner := -2 // the peer the issuer's address is registered for
	if rp, ok := rn.rev[ben]; ok {
		owner = rp
	}
	beforeAll, beforeOthers := rn.credits(-2), rn.credits(owner)
	rn.env.CS.Take()
	var amount *big.Int
	var err error
	if p >= 0 {
		err = rn.env.Svc.ReceiveCheque(context.Background(), settle.Peer(p), sc)
		if rs := rn.env.CS.Take(); len(rs) == 1 && rs[0].Err == nil {
			amount = rs[0].Amount
		} else if err == nil {
			ctx.Fail("accept-without-store", "service accepted but the cheque store did not accept exactly once")
		}
	} else {
		amount, err = rn.env.CS.ReceiveCheque(context.Background(), sc)
	}
	afterAll, afterOthers := rn.credits(-2), rn.credits(owner)
	if err != nil {
		if beforeAll != afterAll {
			ctx.Fail("reject-changed-credit", "rejected cheque changed the credits: [%s] -> [%s]", beforeAll, afterAll)
		}
		return errWord(err)
	}
	rn.accepted(ctx, p, ben, rcp, cum, genuine, how, amount)
	if p >= 0 && beforeOthers != afterOthers {
		ctx.Fail("credit-other-peer", "cheque of issuer %d (address registered for peer %d) changed the credit of other peers: [%s] -> [%s]", ben, owner, beforeOthers, afterOthers)
	}
	if get(rn.sumAmt, ben).Cmp(get(rn.maxAcc, ben)) != 0 {
		ctx.Fail("credit-sum", "issuer %d: sum of credited amounts %s != highest accepted cumulative payout %s", ben, get(rn.sumAmt, ben), get(rn.maxAcc, ben))
	}
	if amount == nil {
		return "ok ?"
	}
	return "ok " + amount.String()
}

// accepted: the four conditions of the property for one accepted cheque, and the shadow totals.
func (rn *runner) accepted(ctx *core.Ctx, p, ben, rcp int, cum *big.Int, genuine bool, how string, amount *big.Int) {
	if rcp != 0 {
		ctx.Fail("accept-wrong-recipient", "accepted a cheque for recipient id %d", rcp)
	}
	if !genuine {
		ctx.Fail("accept-bad-signature", "accepted a cheque of issuer %d for %s %s", ben, cum, how)
	}
	if cum.Cmp(get(rn.maxAcc, ben)) <= 0 {
		ctx.Fail("accept-not-increasing", "accepted cumulative %s <= highest accepted %s of issuer %d", cum, get(rn.maxAcc, ben), ben)
	}
	if p >= 0 {
		if a, ok := rn.fwd[p]; !ok || a != ben {
			ctx.Fail("accept-foreign-issuer", "peer %d (registered address %d, known=%v) delivered a cheque of issuer %d and it was accepted", p, a, ok, ben)
		}
	}
	if amount != nil {
		rn.sumAmt[ben] = new(big.Int).Add(get(rn.sumAmt, ben), amount)
	}
	if cum.Cmp(get(rn.maxAcc, ben)) > 0 {
		rn.maxAcc[ben] = cum
	}
}

type parItem struct {
	ben, rcp, signer, mut int
	cum                   *big.Int
	sc                    *chequePkg.SignedCheque
	gid                   string
	done                  bool
	err                   error
	amount                *big.Int
}

// parrecv <via> <k> (<ben> <rcp> <cum> <signer> <mut>)*k : k cheques delivered concurrently to the
// cheque store (via = s) or through the service by peer <via>.  Every read of a last-received-cheque
// record is parked after it was done; the runner releases the parked reads once every delivery is
// parked at such a read, waits for a mutex inside ReceiveCheque, or has returned — so deliveries that
// CAN overlap between the read and the store DO overlap, deterministically.
func (rn *runner) parrecv(ctx *core.Ctx, op []string, atoi func(string) (int, bool)) string {
	p := -1
	if op[1] != "s" {
		var ok bool
		if p, ok = atoi(op[1]); !ok || p >= nPeers {
			return "bad-op"
		}
	}
	k, ok := atoi(op[2])
	if !ok || k < 1 || k > 4 || len(op) != 3+5*k {
		return "bad-op"
	}
	items := make([]*parItem, k)
	for j := 0; j < k; j++ {
		f := op[3+5*j:]
		ben, ok1 := atoi(f[0])
		rcp, ok2 := atoi(f[1])
		cum, ok3 := new(big.Int).SetString(f[2], 10)
		signer, ok4 := atoi(f[3])
		mut, ok5 := atoi(f[4])
		if !ok1 || !ok2 || !ok3 || !ok4 || !ok5 || ben >= nAddrs || rcp >= nAddrs || signer >= settle.NKeys || mut > 3 || cum.Sign() < 0 {
			return "bad-op"
		}
		sc, ok := rn.sign(ben, rcp, cum, signer, mut)
		if !ok {
			return "bad-op"
		}
		items[j] = &parItem{ben: ben, rcp: rcp, signer: signer, mut: mut, cum: cum, sc: sc}
	}
	recs := make([]string, k)
	for j, it := range items {
		recs[j] = recovered(it.sc)
	}
	beforeAll := rn.credits(-2)
	rn.env.CS.Take()
	gate := rn.env.Gate
	gate.GateReads("traffic_last_received_cheque_")
	var mu sync.Mutex
	var wg sync.WaitGroup
	for j := range items {
		it := items[j]
		ready := make(chan struct{})
		wg.Add(1)
		go func() {
			defer wg.Done()
			it.gid = settle.GoroutineID()
			close(ready)
			var a *big.Int
			var err error
			if p >= 0 {
				err = rn.env.Svc.ReceiveCheque(context.Background(), settle.Peer(p), it.sc)
			} else {
				a, err = rn.env.CS.ReceiveCheque(context.Background(), it.sc)
			}
			mu.Lock()
			it.done, it.err, it.amount = true, err, a
			mu.Unlock()
		}()
		<-ready
	}
	// schedule: release the parked reads whenever nobody can make progress without it
	var order []int // deliveries in the order in which they read the last-cheque record
	seen := map[int]bool{}
	deadline := time.Now().Add(20 * time.Second)
	stuck := false
	for spin := 0; ; spin++ {
		parked := gate.ParkedList()
		byGid := map[string]*settle.Parked{}
		for _, pk := range parked {
			if pk.Read {
				byGid[pk.Tag] = pk
			}
		}
		for _, pk := range parked { // arrival order = order of the reads
			for j, it := range items {
				if pk.Read && pk.Tag == it.gid && !seen[j] {
					seen[j] = true
					order = append(order, j)
				}
			}
		}
		allDone, quiet := true, true
		for _, it := range items {
			mu.Lock()
			d := it.done
			mu.Unlock()
			if d {
				continue
			}
			allDone = false
			if _, pk := byGid[it.gid]; pk {
				continue
			}
			if spin > 20 && settle.LockWait(it.gid, "(*chequeStore).ReceiveCheque", "(*Service).ReceiveCheque") {
				continue
			}
			quiet = false
		}
		if allDone {
			break
		}
		if quiet {
			// confirm once more before releasing (a goroutine seen in Lock may have been about to get it)
			time.Sleep(200 * time.Microsecond)
			again := true
			for _, it := range items {
				mu.Lock()
				d := it.done
				mu.Unlock()
				if d {
					continue
				}
				found := false
				for _, pk := range gate.ParkedList() {
					if pk.Read && pk.Tag == it.gid {
						found = true
					}
				}
				if !found && !settle.LockWait(it.gid, "(*chequeStore).ReceiveCheque", "(*Service).ReceiveCheque") {
					again = false
				}
			}
			if again {
				for _, pk := range gate.ParkedList() {
					if pk.Read {
						for j, it := range items {
							if pk.Tag == it.gid && !seen[j] {
								seen[j] = true
								order = append(order, j)
							}
						}
						gate.Release(pk, nil)
					}
				}
			}
			continue
		}
		if time.Now().After(deadline) {
			stuck = true
			break
		}
		if spin < 50 {
			runtime.Gosched()
		} else {
			time.Sleep(100 * time.Microsecond)
		}
	}
	gate.GateReads()
	for _, pk := range gate.ParkedList() {
		if pk.Read {
			gate.Release(pk, nil)
		}
	}
	wg.Wait()
	if stuck {
		return "stuck"
	}
	for j := range items {
		if !seen[j] {
			order = append(order, j)
		}
	}
	ords := make([]string, k)
	for i, j := range order {
		ords[i] = strconv.Itoa(j)
	}
	ctx.Annotate("rec="+strings.Join(recs, ","), "ord="+strings.Join(ords, ","))
	// amounts of deliveries through the service come from the recording cheque store
	if p >= 0 {
		for _, rr := range rn.env.CS.Take() {
			for _, it := range items {
				if rr.Cheque == it.sc && rr.Err == nil {
					it.amount = rr.Amount
				}
			}
		}
	}
	// ---- oracle (model-free)
	nacc := 0
	accByContent := map[string]int{}
	var out []string
	for _, j := range order { // shadow totals follow the order of the reads (any order gives the same sums)
		it := items[j]
		if it.err != nil {
			continue
		}
		nacc++
		genuine := it.mut == 0 && it.signer == it.ben
		accByContent[fmt.Sprintf("%d/%d/%s", it.ben, it.rcp, it.cum)]++
		if it.amount == nil {
			ctx.Fail("accept-without-store", "service accepted but the cheque store did not report an amount")
		}
		rn.accepted(ctx, p, it.ben, it.rcp, it.cum, genuine, fmt.Sprintf("signed by key %d (mutation %d), delivered concurrently", it.signer, it.mut), it.amount)
	}
	for c, n := range accByContent {
		if n > 1 {
			ctx.Fail("par-replay-accepted-twice", "the same cheque (issuer/recipient/amount %s) delivered concurrently was accepted %d times", c, n)
		}
	}
	issuers := map[int]bool{}
	for _, it := range items {
		issuers[it.ben] = true
	}
	for b := range issuers {
		if get(rn.sumAmt, b).Cmp(get(rn.maxAcc, b)) != 0 {
			ctx.Fail("par-credit-sum", "issuer %d: after concurrent deliveries the credited amounts sum to %s, highest accepted cumulative payout is %s", b, get(rn.sumAmt, b), get(rn.maxAcc, b))
		}
		if c, err := rn.env.CS.LastReceivedCheque(settle.Addr(b)); err == nil && c.CumulativePayout.Cmp(get(rn.maxAcc, b)) != 0 {
			ctx.Fail("par-last-not-max", "issuer %d: stored last received cheque %s, highest accepted cumulative payout %s", b, c.CumulativePayout, get(rn.maxAcc, b))
		}
	}
	if nacc == 0 && beforeAll != rn.credits(-2) {
		ctx.Fail("reject-changed-credit", "rejected cheques changed the credits: [%s] -> [%s]", beforeAll, rn.credits(-2))
	}
	for _, it := range items {
		switch {
		case it.err != nil:
			out = append(out, errWord(it.err))
		case it.amount == nil:
			out = append(out, "ok:?")
		default:
			out = append(out, "ok:"+it.amount.String())
		}
	}
	return strings.Join(out, " ")
}

func (rn *runner) Step(ctx *core.Ctx, op []string) string {
	atoi := func(s string) (int, bool) {
		v, err := strconv.Atoi(s)
		return v, err == nil && v >= 0
	}
	switch {
	case len(op) == 3 && op[0] == "reg":
		p, ok1 := atoi(op[1])
		a, ok2 := atoi(op[2])
		if !ok1 || !ok2 || p >= nPeers || a >= nAddrs {
			return "bad-op"
		}
		if err := rn.env.Book.PutBeneficiary(settle.Peer(p), settle.Addr(a)); err != nil {
			return "err"
		}
		rn.fwd[p] = a
		rn.rev[a] = p
		return "ok"
	case (len(op) == 7 && op[0] == "recv") || (len(op) == 6 && op[0] == "srecv"):
		f := op[1:]
		p := -1
		if op[0] == "recv" {
			var ok bool
			if p, ok = atoi(op[1]); !ok || p >= nPeers {
				return "bad-op"
			}
			f = op[2:]
		}
		ben, ok1 := atoi(f[0])
		rcp, ok2 := atoi(f[1])
		cum, ok3 := new(big.Int).SetString(f[2], 10)
		signer, ok4 := atoi(f[3])
		mut, ok5 := atoi(f[4])
		if !ok1 || !ok2 || !ok3 || !ok4 || !ok5 || ben >= nAddrs || rcp >= nAddrs || signer >= settle.NKeys || mut > 3 || cum.Sign() < 0 {
			return "bad-op"
		}
		sc, ok := rn.sign(ben, rcp, cum, signer, mut)
		if !ok {
			return "bad-op"
		}
		genuine := mut == 0 && signer == ben // the stated issuer really signed this cheque
		return rn.deliver(ctx, p, sc, ben, rcp, cum, genuine, fmt.Sprintf("signed by key %d (mutation %d)", signer, mut))
	case (len(op) == 9 && op[0] == "xrecv") || (len(op) == 8 && op[0] == "sxrecv"):
		// a cheque (ben, rcp, cum) that carries exactly the signature bytes key `osigner` made for (oben, orcp, ocum)
		f := op[1:]
		p := -1
		if op[0] == "xrecv" {
			var ok bool
			if p, ok = atoi(op[1]); !ok || p >= nPeers {
				return "bad-op"
			}
			f = op[2:]
		}
		ben, ok1 := atoi(f[0])
		rcp, ok2 := atoi(f[1])
		cum, ok3 := new(big.Int).SetString(f[2], 10)
		oben, ok4 := atoi(f[3])
		orcp, ok5 := atoi(f[4])
		ocum, ok6 := new(big.Int).SetString(f[5], 10)
		osigner, ok7 := atoi(f[6])
		if !ok1 || !ok2 || !ok3 || !ok4 || !ok5 || !ok6 || !ok7 || ben >= nAddrs || rcp >= nAddrs || oben >= nAddrs || orcp >= nAddrs ||
			osigner >= settle.NKeys || cum.Sign() < 0 || ocum.Sign() < 0 {
			return "bad-op"
		}
		orig, ok := rn.sign(oben, orcp, ocum, osigner, 0)
		if !ok {
			return "bad-op"
		}
		sc := &chequePkg.SignedCheque{Cheque: chequePkg.Cheque{Recipient: settle.Addr(rcp), Beneficiary: settle.Addr(ben), CumulativePayout: new(big.Int).Set(cum)},
			Signature: append([]byte(nil), orig.Signature...)}
		genuine := osigner == ben && oben == ben && orcp == rcp && ocum.Cmp(cum) == 0
		return rn.deliver(ctx, p, sc, ben, rcp, cum, genuine, fmt.Sprintf("carrying the signature key %d made for the cheque (issuer %d, recipient %d, %s)", osigner, oben, orcp, ocum))
	case len(op) >= 3 && op[0] == "parrecv":
		return rn.parrecv(ctx, op, atoi)
	case len(op) == 2 && op[0] == "last":
		p, ok := atoi(op[1])
		if !ok || p >= nPeers {
			return "bad-op"
		}
		c, err := rn.env.Svc.LastReceivedCheque(settle.Peer(p))
		if err == chequePkg.ErrNoCheque {
			return "nocheque"
		}
		if err != nil {
			return "err"
		}
		if c.CumulativePayout == nil {
			return "empty"
		}
		if a, ok := rn.fwd[p]; ok && c.CumulativePayout.Cmp(get(rn.maxAcc, a)) != 0 {
			ctx.Fail("last-not-max", "LastReceivedCheque(peer %d) = %s, highest accepted of its issuer %d = %s", p, c.CumulativePayout, a, get(rn.maxAcc, a))
		}
		return fmt.Sprintf("%d %d %s", settle.AddrID(c.Beneficiary, nAddrs), settle.AddrID(c.Recipient, nAddrs), c.CumulativePayout.String())
	case len(op) == 1 && op[0] == "cheques":
		l, err := rn.env.Svc.TrafficCheques()
		if err != nil {
			return "err"
		}
		return chequesStr(l)
	}
	return "bad-op"
}
