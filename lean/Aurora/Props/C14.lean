import Aurora.Lemmas.Localstore
/-!
C14 — Local store stays consistent across crashes.

`writes po s op` is the ordered list of storage-driver writes of `op` (direct `Put`s, then the batch
`Commit`); `crash po s op k` is the disk image after the first `k` of them; `recover` is `localstore.New`
on that image.  The state after the completed operation is by definition `applyLog s.db (writes …)`,
so batch atomicity (`goleveldb` applies a `Write` batch atomically — trusted) is built into `applyDW`.
-/
namespace Aurora.Localstore

/-- no write at all = the state before the operation -/
theorem C14_crash_zero (po : Addr → Nat) (s : State) (op : Op) : crash po s op 0 = s.db := by
  simp [crash]

/-- `batch_atomic`: an operation with a single driver write (every `put`/`set`/`get` that performs no
direct index write) leaves, at every crash point, the state before it or the state its writes produce. -/
theorem C14_batch_atomic (po : Addr → Nat) (s : State) (op : Op) (h : (writes po s op).length ≤ 1) (k : Nat) :
    crash po s op k = s.db ∨ crash po s op k = applyLog s.db (writes po s op) := by
  unfold crash
  cases hw : writes po s op with
  | nil => left; simp
  | cons w rest =>
    cases rest with
    | nil =>
      cases k with
      | zero => left; simp
      | succ k => right; simp
    | cons w2 r2 => rw [hw] at h; simp at h

/-- the completed `put` is `applyLog` of its writes (so `crash … (length)` is the state after it) -/
theorem C14_put_all (po : Addr → Nat) (s : State) (m : PutMode) (r : Option Addr) (chs : List (Addr × Bytes)) :
    (put po s m r chs).st.db = applyLog s.db (put po s m r chs).writes := by
  unfold put
  split <;> rfl

theorem C14_set_all (s : State) (m : SetMode) (r : Option Addr) (as : List Addr) :
    (set s m r as).st.db = applyLog s.db (set s m r as).writes := rfl

theorem addBins_log (tx : Tx) : (addBins tx).log = tx.log := by
  unfold addBins
  generalize tx.bins = bins
  induction bins generalizing tx with
  | nil => rfl
  | cons b bs ih => simp only [List.foldl_cons]; rw [ih]; rfl

/-- the driver writes of `put` are direct `gcIndex.Put`s followed by at most one batch commit -/
theorem put_writes_shape (po : Addr → Nat) (s : State) (m : PutMode) (r : Option Addr) (chs : List (Addr × Bytes)) :
    ∃ l b, GcPutsOnly l ∧ ((put po s m r chs).writes = l ∨ (put po s m r chs).writes = l ++ [DW.batch b]) := by
  unfold put
  split
  · exact ⟨[], [], gcPutsOnly_nil, Or.inl rfl⟩
  · simp only [finish, putBody]
    split
    · exact ⟨[], [], gcPutsOnly_nil, Or.inl rfl⟩
    · have hf := (putLoop_spec po m r chs (Tx.start s) [] []).1
      cases hl : putLoop po m r (Tx.start s) [] chs [] with
      | error e =>
        obtain ⟨e1, t⟩ := e
        rw [hl] at hf
        obtain ⟨_, _, _, _, _, l, hlog, ho⟩ := hf
        simp only [loopTx, Tx.start, List.nil_append] at hlog
        exact ⟨l, [], ho, Or.inl (by simp [abort, hlog])⟩
      | ok p =>
        obtain ⟨t, ex⟩ := p
        rw [hl] at hf
        obtain ⟨_, _, _, _, _, l, hlog, ho⟩ := hf
        simp only [loopTx, Tx.start, List.nil_append] at hlog
        exact ⟨l, _, ho, Or.inr (by simp only [commit]; rw [addBins_log, hlog])⟩

theorem set_writes_shape (s : State) (m : SetMode) (r : Option Addr) (as : List Addr) :
    ∃ l b, GcPutsOnly l ∧ ((set s m r as).writes = l ∨ (set s m r as).writes = l ++ [DW.batch b]) := by
  simp only [set, finish, setBody]
  split
  · exact ⟨[], [], gcPutsOnly_nil, Or.inl rfl⟩
  · have hf := setLoop_frame m r as (Tx.start s)
    cases hl : setLoop m r (Tx.start s) as with
    | error e =>
      obtain ⟨e1, t⟩ := e
      rw [hl] at hf
      obtain ⟨_, _, _, _, _, l, hlog, ho⟩ := hf
      simp only [resTx_error, Tx.start, List.nil_append] at hlog
      exact ⟨l, [], ho, Or.inl (by simp [abort, hlog])⟩
    | ok t =>
      rw [hl] at hf
      obtain ⟨_, _, _, _, _, l, hlog, ho⟩ := hf
      simp only [resTx_ok, Tx.start, List.nil_append] at hlog
      exact ⟨l, _, ho, Or.inr (by simp only [commit]; rw [hlog])⟩

/-- core of `crash_consistent` for a write list of that shape -/
theorem crash_shape (db : Db) (l : List DW) (b : List Write) (ws : List DW) (ho : GcPutsOnly l)
    (hw : ws = l ∨ ws = l ++ [DW.batch b]) (k : Nat) :
    ((applyLog db (ws.take k)).data = db.data ∧ (applyLog db (ws.take k)).pin = db.pin ∧
      (applyLog db (ws.take k)).access = db.access ∧ (applyLog db (ws.take k)).binIDs = db.binIDs ∧
      (applyLog db (ws.take k)).gcSize = db.gcSize) ∨
    applyLog db (ws.take k) = applyLog db ws := by
  rcases hw with hw | hw
  · left
    rw [hw]
    have := applyLog_gcPutsOnly _ (gcPutsOnly_take l ho k) db
    exact ⟨this.1, this.2.1, this.2.2.1, this.2.2.2.1, this.2.2.2.2⟩
  · rw [hw]
    by_cases hk : k ≤ l.length
    · left
      have ht : (l ++ [DW.batch b]).take k = l.take k := by
        rw [List.take_append_of_le_length hk]
      rw [ht]
      have := applyLog_gcPutsOnly _ (gcPutsOnly_take l ho k) db
      exact ⟨this.1, this.2.1, this.2.2.1, this.2.2.2.1, this.2.2.2.2⟩
    · right
      have : (l ++ [DW.batch b]).take k = l ++ [DW.batch b] := by
        apply List.take_of_length_le
        simp; omega
      rw [this]

/-- `crash_consistent` for `Put` (every mode, single or batched, any state): at every crash point the
store holds either exactly the state after the call, or the data, pin, access and bin-id indexes and
gcSize of the state before it (only GCounter values of existing bookkeeping were lowered by the direct
`gcIndex.Put`s of `setPin`).  In particular every chunk is fully present or fully absent and every pin
count equals its value before or after the call. -/
theorem C14_crash_consistent_put (po : Addr → Nat) (s : State) (m : PutMode) (r : Option Addr)
    (chs : List (Addr × Bytes)) (k : Nat) :
    let c := crash po s (.put m r chs) k
    (c.data = s.db.data ∧ c.pin = s.db.pin ∧ c.access = s.db.access ∧ c.binIDs = s.db.binIDs ∧
      c.gcSize = s.db.gcSize) ∨ c = (step po s (.put m r chs)).db := by
  obtain ⟨l, b, ho, hw⟩ := put_writes_shape po s m r chs
  have := crash_shape s.db l b _ ho hw k
  simp only [crash, writes, run, step]
  rw [C14_put_all]
  exact this

/-- `crash_consistent` for `Set` (sync, remove, pin, unpin; single or batched), same statement. -/
theorem C14_crash_consistent_set (po : Addr → Nat) (s : State) (m : SetMode) (r : Option Addr)
    (as : List Addr) (k : Nat) :
    let c := crash po s (.set m r as) k
    (c.data = s.db.data ∧ c.pin = s.db.pin ∧ c.access = s.db.access ∧ c.binIDs = s.db.binIDs ∧
      c.gcSize = s.db.gcSize) ∨ c = (step po s (.set m r as)).db := by
  obtain ⟨l, b, ho, hw⟩ := set_writes_shape s m r as
  have := crash_shape s.db l b _ ho hw k
  simp only [crash, writes, run, step]
  rw [C14_set_all]
  exact this

/-- pin counts equal their value before or after the interrupted `Put`/`Set` (corollary). -/
theorem C14_pin_before_or_after_set (po : Addr → Nat) (s : State) (m : SetMode) (r : Option Addr)
    (as : List Addr) (k : Nat) (a : Addr) :
    SMap.get a (crash po s (.set m r as) k).pin = SMap.get a s.db.pin ∨
    SMap.get a (crash po s (.set m r as) k).pin = SMap.get a (step po s (.set m r as)).db.pin := by
  rcases C14_crash_consistent_set po s m r as k with h | h
  · left; rw [h.2.1]
  · right; rw [h]

/-- the cached-chunk counter of a reopened store is at least the recomputed total, whatever image
it is opened on (the total fits a uint64). -/
theorem C14_recover_gcSize_ge (db : Db) (cap : Nat) (hfit : gcSum db.gc < two64) :
    gcSum (recover db cap).db.gc ≤ (recover db cap).db.gcSize := by
  have hm := Nat.mod_eq_of_lt hfit
  unfold recover openDb openWrites
  rw [hm]
  by_cases h1 : db.schema <;> by_cases h2 : db.gcSize < gcSum db.gc <;>
    simp [h1, h2, applyLog, applyDW, applyW] <;> omega

/-- reopening changes nothing but `schema-name` and (upwards) gcSize: a recovered image has the
chunks, pins and bookkeeping of the crashed one. -/
theorem C14_recover_keeps_indexes (db : Db) (cap : Nat) :
    (recover db cap).db.data = db.data ∧ (recover db cap).db.pin = db.pin ∧
    (recover db cap).db.access = db.access ∧ (recover db cap).db.gc = db.gc ∧
    (recover db cap).db.binIDs = db.binIDs := by
  unfold recover openDb openWrites
  by_cases h1 : db.schema <;> by_cases h2 : db.gcSize < gcSum db.gc % two64 <;>
    simp [h1, h2, applyLog, applyDW, applyW]

/-! ## the collection run -/

def po0' : Addr → Nat := fun _ => 0

/-- a collection run in progress: file 1 (root 1, chunk 2) is the candidate, chunk 2 is pinned 5 times -/
def gcWitness : State :=
  { db := { data := [(1, ⟨1, 1, []⟩), (2, ⟨2, 1, []⟩)], access := [(1, 1)], gc := [(⟨1, 1, 1⟩, 2)], pin := [(2, 5)], gcSize := 2 }, capacity := 1, gcRunning := true, cands := [(⟨1, 1, 1⟩, 2)], runTarget := 0 }

/-- full statement of the pin clause for the collection run -/
def C14_pin_before_or_after_gc_full : Prop :=
  ∀ (s : State) (pyr : List (Addr × Option (List (Addr × Nat)))) (k : Nat) (a : Addr),
    SMap.get a (crash po0' s (.gcEvict pyr) k).pin = SMap.get a s.db.pin ∨
    SMap.get a (crash po0' s (.gcEvict pyr) k).pin = SMap.get a (step po0' s (.gcEvict pyr)).db.pin

/-- a collection run whose pyramid lists the same pinned chunk twice writes its pin counter directly
twice (5 → 4 → 3): a crash between the two direct `pinIndex.Put`s leaves a pin count that is neither the
old nor the new one.  (chunkinfo's `getUnRepeatChunk` never lists a cid twice, so this needs a
misbehaving environment; the harness does not script it.) -/
theorem C14_pin_before_or_after_gc_counterexample : ¬ C14_pin_before_or_after_gc_full := by
  intro h
  have := h gcWitness [(1, some [(2, 1), (2, 1)])] 1 2
  revert this
  decide

end Aurora.Localstore
