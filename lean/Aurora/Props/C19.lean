import Aurora.Lemmas.Shed
import Aurora.Lemmas.StateStore
/-!
# C19 — Indexed storage behaves as isolated sorted maps

Property theorems only (helpers: `Aurora/Lemmas/Kv.lean`, `Aurora/Lemmas/Shed.lean`; the callback
loop lemmas `drive_all`/`drive_halt` are shared with C18).  Model: `Aurora/Model/Shed.lean` over
`Aurora/Model/Kv.lean` — a transcription of `/repo/pkg/shed/{index,db,field_uint64,field_string,
vector_uint64}.go` on the leveldb driver after the three `fix:` commits, tied to the code by the
C19 correspondence run.  The store `s` is the whole key space (schema key, fields, all indexes);
`Sorted s` is the representation invariant (`C19_histories_sorted`).  An index is identified by
its prefix byte `id`; index keys are `id :: encodedKey`.  Everything is for every store, index,
key, option combination and callback — no bound.
-/
namespace Aurora.Shed
open Aurora.Kv Aurora.StateStore

/-- abstraction of one index: lookup by encoded key -/
def absIdx (s : Store) (id : UInt8) : SMap := fun k => Kv.get s (id :: k)

/-- **index_refines** — point operations of an index are the operations of a map: `Get`,
    `Has`, `HasMulti`, `Fill` read it; `Put` / `Delete` update it and keep the store sorted. -/
theorem C19_index_refines (s : Store) (hs : Sorted s) (id : UInt8) (k v : Bytes) (ks : List Bytes) :
    idxGet s id k = absIdx s id k ∧
    idxHas s id k = (absIdx s id k).isSome ∧
    idxHasMulti s id ks = ks.map (fun k => (absIdx s id k).isSome) ∧
    idxFill s id ks = ks.mapM (absIdx s id) ∧
    Sorted (idxPut s id k v) ∧ absIdx (idxPut s id k v) id = (absIdx s id).put k v ∧
    Sorted (idxDelete s id k) ∧ absIdx (idxDelete s id k) id = (absIdx s id).delete k := by
  refine ⟨rfl, rfl, rfl, rfl, sorted_put hs _ _, ?_, sorted_delete hs _, ?_⟩
  · funext k'
    simp only [absIdx, idxPut, ikey, get_put, SMap.put, List.cons.injEq, true_and]
  · funext k'
    simp only [absIdx, idxDelete, ikey, get_delete hs, SMap.delete, List.cons.injEq, true_and]

/-- a write changes the lookup of its own key only (prefix isolation is this fact plus
    "keys of different indexes / of fields start with different bytes") -/
theorem C19_write_touches_one_key (s : Store) (hs : Sorted s) (kw v K : Bytes) (h : K ≠ kw) :
    Kv.get (Kv.put s kw v) K = Kv.get s K ∧ Kv.get (Kv.delete s kw) K = Kv.get s K := by
  simp [get_put, get_delete hs, h]

/-- **indexes_isolated** — `Put` / `Delete` on index `id` change neither the map of another index
    `id'`, nor the part of the store that any iteration / `First` / `Last` / `Count` of `id'`
    reads (`idxPart`, see `C19_answers_depend_on_own_index_only`), nor any field or vector
    element (keys `1 :: …`) as long as `id ≠ 1` (index ids start at 2). -/
theorem C19_indexes_isolated (s : Store) (hs : Sorted s) (id id' : UInt8) (hne : id' ≠ id)
    (k v : Bytes) :
    absIdx (idxPut s id k v) id' = absIdx s id' ∧ absIdx (idxDelete s id k) id' = absIdx s id' ∧
    idxPart (idxPut s id k v) id' = idxPart s id' ∧ idxPart (idxDelete s id k) id' = idxPart s id' ∧
    (id ≠ 1 → ∀ name, Kv.get (idxPut s id k v) (fieldKey name) = Kv.get s (fieldKey name) ∧
                      Kv.get (idxDelete s id k) (fieldKey name) = Kv.get s (fieldKey name)) := by
  have hk : ∀ k', id' :: k' ≠ id :: k := fun k' h => hne (List.cons.inj h).1
  have hp : hasPrefix (id :: k) [id'] = false := by
    have : ¬ id = id' := fun h => hne h.symm
    simp [hasPrefix, this]
  refine ⟨?_, ?_, ?_, ?_, ?_⟩
  · funext k'; simp [absIdx, idxPut, ikey, get_put, hk k']
  · funext k'; simp [absIdx, idxDelete, ikey, get_delete hs, hk k']
  · exact idxPart_write_other hs id' (.put (id :: k) v) hp
  · exact idxPart_write_other hs id' (.del (id :: k)) hp
  · intro h1 name
    have : fieldKey name ≠ id :: k := fun h => h1 (List.cons.inj h).1.symm
    simp [idxPut, idxDelete, ikey, get_put, get_delete hs, this]

/-- field and vector writes (keys `1 :: …`) do not change any index with `id ≠ 1` -/
theorem C19_fields_do_not_touch_indexes (s : Store) (hs : Sorted s) (id : UInt8) (hid : id ≠ 1)
    (fk v : Bytes) :
    absIdx (Kv.put s (1 :: fk) v) id = absIdx s id ∧ idxPart (Kv.put s (1 :: fk) v) id = idxPart s id := by
  have hp : hasPrefix (1 :: fk) [id] = false := by
    have : ¬ (1 : UInt8) = id := fun h => hid h.symm
    simp [hasPrefix, this]
  refine ⟨?_, idxPart_write_other hs id (.put (1 :: fk) v) hp⟩
  funext k'
  have : id :: k' ≠ 1 :: fk := fun h => hid (List.cons.inj h).1
  simp [absIdx, get_put, this]

/-- The full iteration statement: for *every* option combination the items handed to the
    callback are those of the reference sorted map (`refItems`: entries of the sorted store with
    the index-qualified prefix, `≥ start` ascending or `≤ start` descending, an exact start hit
    dropped when skipping).  It fails for a `StartFrom` key outside `Prefix`
    (`C19_iterate_counterexample`, known finding `C19/iter-start-outside-prefix`). -/
def C19_iterate_full : Prop :=
  ∀ (s : Store) (id : UInt8) (o : IterOpts), Sorted s → id.toNat ≠ 255 →
    iterItems s id o = some (refItems s id o)

/-- **iterate_spec** (forward / reverse / skip-start, with or without prefix and start) — under
    the guard that a given `StartFrom` key carries the given `Prefix`: forward = the keys with the
    prefix that are `≥ start`, ascending; reverse = those `≤ start`, descending (also when the
    start key is not stored — repaired); without start: all keys with the prefix; skip-start
    drops an exact hit of the start key only (and nothing without a start key — repaired). -/
theorem C19_iterate_spec_partial (s : Store) (hs : Sorted s) (id : UInt8) (hid : id.toNat ≠ 255)
    (o : IterOpts) (hguard : ∀ st, o.start = some st → hasPrefix st o.pfx = true) :
    iterItems s id o = some (refItems s id o) := by
  cases hrev : o.reverse with
  | false => exact iterItems_fwd hs id o hrev hguard
  | true =>
    obtain ⟨pfx, start, skip, rev⟩ := o
    simp only at hrev hguard
    subst hrev
    cases start with
    | none => exact iterItems_rev_nostart hs id pfx skip (increment_cons_ne_none id pfx hid)
    | some st => exact iterItems_rev_start hs id pfx st skip (hguard st rfl)

/-- the guard cannot be dropped: keys `a`, `b\0` in index 2, `Prefix = b\0`, `StartFrom = ""`
    (forward) visits nothing, the reference sorted map gives `b\0`. -/
theorem C19_iterate_counterexample : ¬ C19_iterate_full := by
  intro h
  have := h [([2, 97], [1]), ([2, 98, 0], [2])] 2 ⟨[98, 0], some [], false, false⟩ (by decide) (by decide)
  revert this
  decide

/-- with the callback: `Iterate` runs the callback loop over exactly the reference items; hence
    (lemmas `drive_all` / `drive_halt`) it stops when asked and returns the callback's error. -/
theorem C19_iterate_callback (s : Store) (hs : Sorted s) (id : UInt8) (hid : id.toNat ≠ 255)
    (o : IterOpts) (hguard : ∀ st, o.start = some st → hasPrefix st o.pfx = true) (cb : Callback) :
    iterate s id o cb = drive cb [] (refItems s id o) ∧
    (ContUpTo cb [] (refItems s id o) (refItems s id o).length →
      iterate s id o cb = (refItems s id o, .ok)) ∧
    (∀ n (hn : n < (refItems s id o).length), ContUpTo cb [] (refItems s id o) n →
      cb ((refItems s id o).take n) (refItems s id o)[n] ≠ .cont →
      iterate s id o cb = ((refItems s id o).take (n + 1),
        haltRes (cb ((refItems s id o).take n) (refItems s id o)[n]))) := by
  have h : iterate s id o cb = drive cb [] (refItems s id o) := by
    unfold iterate; rw [C19_iterate_spec_partial s hs id hid o hguard]
  refine ⟨h, ?_, ?_⟩
  · intro hc; rw [h]; simpa using drive_all cb [] _ hc
  · intro n hn hc hh
    rw [h]
    have := drive_halt cb [] _ n hn hc (by simpa using hh)
    simpa using this

/-- `First`, `Last` (repaired: also for an empty prefix and a prefix ending in 0xff), `Count`,
    `CountFrom` agree with the reference sorted map. -/
theorem C19_first_last_count (s : Store) (hs : Sorted s) (id : UInt8) (hid : id.toNat ≠ 255)
    (p k : Bytes) :
    first s id p = ((s.filter (fun e => hasPrefix e.1 (id :: p))).head?).map strip ∧
    last s id p = ((s.filter (fun e => hasPrefix e.1 (id :: p))).getLast?).map strip ∧
    count s id = (s.filter (fun e => hasPrefix e.1 [id])).length ∧
    countFrom s id k = (s.filter (fun e => hasPrefix e.1 [id] && !blt e.1 (id :: k))).length :=
  ⟨first_spec hs id p, last_spec hs id p (increment_cons_ne_none id p hid), count_spec hs id,
   countFrom_spec hs id k⟩

/-- every answer of index `id` is a function of that index's own entries: the reference items,
    `First`, `Last`, `Count` computed on the whole store equal those computed on `idxPart s id`
    (which `C19_indexes_isolated` shows is untouched by writes elsewhere). -/
theorem C19_answers_depend_on_own_index_only (s : Store) (id : UInt8) (o : IterOpts) (p : Bytes) :
    refItems s id o = refItems (idxPart s id) id o ∧
    s.filter (fun e => hasPrefix e.1 (id :: p)) = (idxPart s id).filter (fun e => hasPrefix e.1 (id :: p)) := by
  constructor
  · unfold refItems
    rw [filter_idxPart s id o.pfx (bound id o)]
  · have := filter_idxPart s id p (fun _ => true)
    simpa using this

/-- **batch_all_or_nothing** — staging a write changes nothing a read can see; `Commit` applies
    all staged writes in order as one step (the map becomes `SMap.commit`), dropping the batch or
    reopening applies none of them. -/
theorem C19_batch_all_or_nothing (db : DB) (hs : Sorted db.store) (w : Write) :
    (db.stage w).store = db.store ∧
    abs db.commit.store = (abs db.store).commit db.batch ∧ db.commit.batch = [] ∧
    Sorted db.commit.store ∧
    db.drop.store = db.store ∧ db.drop.batch = [] ∧
    db.reopen.store = db.store ∧ db.reopen.batch = [] ∧
    (db.stage w).commit.store = applyWrite db.commit.store w :=
  ⟨rfl, abs_commit hs db.batch, rfl, sorted_commit hs db.batch, rfl, rfl, rfl, rfl, by
    simp [DB.stage, DB.commit, Kv.commit, List.foldl_append]⟩

/-- **field_vector_last_write** — a uint64 field / vector element reads back the last value
    written (mod 2^64; `Inc`/`Dec` write `incVal`/`decVal` of what they read), a missing one
    reads 0; a string field reads back the last string; other field keys are unaffected; the
    values survive `reopen` (the store is unchanged by it). -/
theorem C19_field_vector_last_write (s : Store) (key other v : Bytes) (n : Nat) (hne : other ≠ key)
    (db : DB) :
    u64Get (Kv.put s key (u64Enc n)) key = n % two64 ∧
    strGet (Kv.put s key v) key = v ∧
    (Kv.get s key = none → u64Get s key = 0 ∧ strGet s key = []) ∧
    u64Get (Kv.put s key v) other = u64Get s other ∧ strGet (Kv.put s key v) other = strGet s other ∧
    db.reopen.store = db.store := by
  refine ⟨?_, ?_, ?_, ?_, ?_, rfl⟩
  · simp [u64Get, get_put, u64Enc, fromBe_be8, two64]
  · simp [strGet, get_put]
  · intro h; simp [u64Get, strGet, h]
  · simp [u64Get, get_put, hne]
  · simp [strGet, get_put, hne]

/-- vector elements are distinct keys: indices below 2^64 give different keys, and no vector
    key equals its own field key -/
theorem C19_vector_keys_distinct (name : Bytes) (i j : Nat) (hi : i < two64) (hj : j < two64)
    (h : vecKey name i = vecKey name j) : i = j := by
  have h2 : be8 i = be8 j := by
    simpa [vecKey, fieldKey] using h
  have := congrArg fromBe h2
  rw [fromBe_be8, fromBe_be8, Nat.mod_eq_of_lt hi, Nat.mod_eq_of_lt hj] at this
  exact this

/-- the representation invariant holds along every history of writes, commits, drops, reopens
    starting from a fresh database -/
theorem C19_histories_sorted :
    Sorted DB.init.store ∧
    (∀ (db : DB) (w : Write), Sorted db.store →
      Sorted (db.write w).store ∧ Sorted (db.stage w).store ∧ Sorted db.commit.store ∧
      Sorted db.drop.store ∧ Sorted db.reopen.store) :=
  ⟨by decide, fun db w h => ⟨sorted_applyWrite h w, h, sorted_commit h db.batch, h, h⟩⟩

/-- Non-vacuity: a sorted store with two indexes and a field exists; the guard of
    `C19_iterate_spec_partial` is satisfiable with a start key that is *not* stored; index ids
    are not 0xff. -/
example : Sorted [([0], []), ([1, 117], [0, 0, 0, 0, 0, 0, 0, 7]), ([2, 97], [1]), ([2, 99], [3]), ([3, 98], [2])] := by
  decide
example : hasPrefix [98] ([] : Bytes) = true ∧ (indexId 0).toNat ≠ 255 ∧ (indexId 2).toNat ≠ 255 := by
  decide
example : iterItems [([2, 97], [1]), ([2, 99], [3]), ([3, 98], [2])] 2 ⟨[], some [98], false, true⟩ =
    some [([97], [1])] := by decide

end Aurora.Shed
