import Aurora.Lemmas.Group
import Aurora.Lemmas.Flood
import Aurora.Generated.MulticastFacts
/-!
# C38 — Multicast groups partition peers and flood each message once

Property theorems only (helper lemmas: `Aurora/Lemmas/Group.lean`, `Aurora/Lemmas/Flood.lean`).
Models: `Aurora/Model/Group.lean` (transcription of `Group.add/remove/pruneKnown`, group.go) and
`Aurora/Model/Flood.lean` (`Service.Multicast`, `Service.onMulticast`, `Group.multicast`,
kademlia.go/group.go, plus a network layer).  Both are tied to `/repo/pkg/multicast` by the C38
correspondence run (`./check C38`): the node-level functions are compared output-for-output
with the real handlers; the network theorems are about interleavings of those node-level calls.

No bound on the number of peers, groups, nodes, messages or steps anywhere.
De-duplication entries never expire in the model: the flooding theorems are statements *within
the window* `multicastMsgCache` (one minute) of the code.
-/

namespace Aurora.Group

/-- **Partition (clause 1).**  Starting from the empty group (`newGroup`), after ANY history of
    `add` (with any `IsNeighbor` answers), `remove` and `pruneKnown` events each of the three lists
    is duplicate-free and the lists are pairwise disjoint: every peer is in at most one of
    connected / kept / known, at most once. -/
theorem C38_lists_disjoint (ops : List Op) :
    let g := run ops
    g.connected.Nodup ∧ g.kept.Nodup ∧ g.known.Nodup ∧
    (∀ x, x ∈ g.connected → x ∉ g.kept) ∧
    (∀ x, x ∈ g.connected → x ∉ g.known) ∧
    (∀ x, x ∈ g.kept → x ∉ g.known) := by
  have h := inv_run ops
  exact ⟨h.ndc, h.ndk, h.ndn, h.ck, h.cn, h.kn⟩

/-- The same as an inductive invariant: it holds for the empty group and every single event
    preserves it from ANY state satisfying it (so it also holds after `gcGroup` style resets,
    which only empty lists). -/
theorem C38_lists_disjoint_step (g : Group) (o : Op) (h : Inv g) : Inv Group.empty ∧ Inv (apply g o) :=
  ⟨inv_empty, inv_apply h o⟩

/-- **Connected ⇒ was a neighbour (clause 2).**  If `p` is in `connected` after a history, then
    the history contains an `add p keep=true` event whose `IsNeighbor(p)` answer was `true`, and
    no later event on `p` that takes it out again (a `remove p`, an `add p keep=false`, or an
    `add p keep=true` answered `IsNeighbor = false`).  In particular a peer never becomes
    connected through any other event or with a negative neighbour answer. -/
theorem C38_connected_was_neighbor (ops : List Op) (p : Peer) (hp : p ∈ (run ops).connected) :
    ∃ pre post, ops = pre ++ Op.add p true true :: post ∧ ∀ o, o ∈ post → unseats p o = false := by
  rcases connected_history p ops Group.empty inv_empty hp with ⟨h, _⟩ | h
  · simp [Group.empty] at h
  · exact h

/-- Single-step form: the only event after which `p` is newly in `connected` is
    `add p true` with `IsNeighbor = true`. -/
theorem C38_connected_enters (g : Group) (o : Op) (p : Peer) (hp : p ∈ (apply g o).connected) :
    p ∈ g.connected ∨ o = Op.add p true true :=
  connected_enters hp

/-- **The disconnect event removes the peer (clause 2, second half).**  `remove p intoKnown`
    (what `Start()` runs for every group on `PeerStateDisconnect`, with `intoKnown = true`)
    leaves `p` neither connected nor kept, after any history; so do `add p false` (for
    connected and kept) and a re-`add p true` answered "not a neighbour" (for connected). -/
theorem C38_disconnect_removes (ops : List Op) (p : Peer) (b : Bool) :
    p ∉ (run (ops ++ [Op.remove p b])).connected ∧ p ∉ (run (ops ++ [Op.remove p b])).kept := by
  have h := inv_run ops
  have e : run (ops ++ [Op.remove p b]) = (remove (run ops) p b).1 := by
    simp [run, List.foldl_append, apply]
  rw [e, remove_connected, remove_kept]
  exact ⟨fun hm => ((mem_psRemove h.ndc).mp hm).2 rfl, fun hm => ((mem_psRemove h.ndk).mp hm).2 rfl⟩

/-- every event on `p` other than a neighbour-confirmed `add p true` leaves `p` not connected -/
theorem C38_unseat_leaves (ops : List Op) (p : Peer) (o : Op) (hu : unseats p o = true) :
    p ∉ (run (ops ++ [o])).connected := by
  have := unseats_leaves (inv_run ops) hu
  simpa [run, List.foldl_append] using this

/-- `pruneKnown` after any history: at most `maxKnownPeers` known peers remain, namely exactly
    those after the first `len - maxKnownPeers` of the list (the oldest entries go), and
    connected / kept are untouched. -/
theorem C38_prune_spec (ops : List Op) :
    let g := run ops
    (pruneKnown g).known.length = min g.known.length maxKnown ∧
    (∀ x, x ∈ (pruneKnown g).known ↔ x ∈ g.known.drop (g.known.length - maxKnown)) ∧
    (pruneKnown g).connected = g.connected ∧ (pruneKnown g).kept = g.kept := by
  have h := inv_run ops
  exact ⟨length_pruneKnown h.ndn, mem_pruneKnown h.ndn, pruneKnown_connected _, pruneKnown_kept _⟩

/-- **Partition with discovery (clause 1, `discover.go`).**  Histories may also contain discovery
    rounds (`Service.discover` → `doFindGroup`): the connected, then the kept peers are asked for
    members; while a request is in flight ANY peers may complete a handshake (`add x true`, any
    `IsNeighbor` answer), the answer may name ANY peers — in particular ones that just handshook, or
    that are connected / kept / known already — and every answered peer goes through
    `Group.add(addr, false)`; then `pruneKnown`.  After any such history the three lists are still
    duplicate-free and pairwise disjoint.  (That findGroup answers do go through `add` in discover.go
    is the generated fact `C38_lists_only_changed_by_group_ops`; the `find` op of the correspondence run
    ties `doFind` to the real `doFindGroup`.) -/
theorem C38_lists_disjoint_with_discovery (steps : List Step) :
    let g := runSteps steps
    g.connected.Nodup ∧ g.kept.Nodup ∧ g.known.Nodup ∧
    (∀ x, x ∈ g.connected → x ∉ g.kept) ∧
    (∀ x, x ∈ g.connected → x ∉ g.known) ∧
    (∀ x, x ∈ g.kept → x ∉ g.known) := by
  have h := inv_runSteps steps
  exact ⟨h.ndc, h.ndk, h.ndn, h.ck, h.cn, h.kn⟩

/-- one discovery round from ANY state satisfying the invariant keeps it -/
theorem C38_discovery_round_preserves (g : Group) (h : Inv g) (kp : Nat) (script : List Seg)
    (nbr : Peer → Bool) : Inv (discover kp script nbr g) :=
  inv_discover h kp script nbr

section Facts
open Aurora.Generated.MulticastFacts

/-- a place that changes one of the three lists is acceptable: `Add`/`Remove` on a list only inside
    `Group.add`, `Group.remove`, `Group.pruneKnown` (group.go; each holds `g.mux`), resets to a fresh
    empty slice only in `newGroup` (construction) and `gcGroup`; nothing else (no assignment of
    anything else, no `Add`/`Remove` through a `*pslice.PSlice` alias, no list handed to code outside
    the package). -/
def mutOK (m : Mut) : Bool :=
  if m.kind == "add" || m.kind == "remove" then
    m.file == "group.go" && (m.fn == "add" || m.fn == "remove" || m.fn == "pruneKnown")
  else if m.kind == "init-new" then m.file == "group.go" && m.fn == "newGroup"
  else if m.kind == "assign-new" then m.file == "group.go" && m.fn == "gcGroup"
  else false

/-- **static obligation** (table regenerated from pkg/multicast/*.go on every run,
    harness/cmd/extract/multicast_facts.go): the three peer lists of a group change only through the
    transitions of `Model/Group.lean` — every `Add`/`Remove` on `connectedPeers` / `keepPeers` /
    `knownPeers` is inside `Group.add` / `remove` / `pruneKnown`; everything else in the package
    (discovery, handshakes, notify handlers, the disconnect event) calls those methods, and
    `doFindGroup` does call `add` for what a findGroup answer names.  The seeded change C38-3
    (`g.knownPeers.Add(addr)` in doFindGroup) yields an `add` row in discover.go and this fails. -/
theorem C38_lists_only_changed_by_group_ops :
    mutations.all mutOK = true ∧
    mutations.any (fun m => m.kind == "add" && m.fn == "add") = true ∧
    groupOpCalls.any (fun c => c.1 == "discover.go" && c.2.1 == "doFindGroup" && c.2.2.1 == "add") = true ∧
    groupOpCalls.any (fun c => c.2.1 == "updatePeerGroupsJoin" && c.2.2.1 == "add") = true := by
  decide

/-- **static obligation**: the model's de-duplication sets never lose an entry, i.e. an entry lives
    for the whole window.  In the code: the package cache is built by `gcache.New()` WITHOUT a
    capacity (gf v2.0.3: `New(lruCap ...int)`; with a capacity the memory adapter evicts the least
    recently used entries beyond it regardless of their expiry), it is never re-bound, the only
    methods called on it are reads and (conditional) sets — nothing removes or clears — and both
    de-duplication test-and-sets pass `multicastMsgCache = time.Minute * 1` as lifetime.  The seeded
    change C38-4 (`gcache.New(1024)`) makes the first conjunct false. -/
theorem C38_dedupe_entries_live_for_window :
    cacheCtor = ("gcache.New", 0) ∧ cacheRebinds = [] ∧
    cacheUses.all (fun u => u.2.2.1 == "Contains" || u.2.2.1 == "MustGet" || u.2.2.1 == "Get" ||
      u.2.2.1 == "Set" || u.2.2.1 == "SetIfNotExist") = true ∧
    cacheUses.any (fun u => u.2.1 == "cacheSetIfNotExist" && u.2.2.1 == "SetIfNotExist") = true ∧
    dedupeDurations.length ≥ 2 ∧
    dedupeDurations.all (fun d => d.2.2.1 == "multicastMsgCache") = true ∧
    multicastMsgCacheInit = "time.Minute * 1" := by
  decide

end Facts

/-! non-vacuity: concrete histories -/

/-- the in-flight scenario: connected neighbour 1 is asked; meanwhile peer 2 handshakes (not a
    neighbour → kept); the answer names 2 and 3: 2 moves kept → known, it is never in two lists -/
example : discover 1000 [⟨1, [2], [2, 3]⟩] (fun _ => false) { connected := [1] } =
    { connected := [1], kept := [], known := [2, 3] } := by decide
example : (doFind 1 [⟨1, [2], [4]⟩, ⟨5, [], [6]⟩] (fun _ => false) { connected := [1, 5] }).1.map (·.v) = [1] := by
  decide

/-- a history after which a peer IS connected (hypothesis of `C38_connected_was_neighbor`),
    one kept, one known; order after a removal is the swap-with-last order of `PSlice.Remove` -/
example : run [.add 1 true true, .add 2 true false, .add 3 false false, .add 4 true true,
    .add 5 true true, .remove 1 true] = { connected := [5, 4], kept := [2], known := [3, 1] } := by
  decide
example : (1 : Peer) ∈ (run [.add 1 true false, .add 1 true true, .prune, .add 2 true true]).connected := by
  decide
example : unseats 1 (.add 1 true false) = true ∧ unseats 1 (.add 1 true true) = false := by decide
/-- pruning really removes: 22 known peers → the 20 newest stay -/
example : (pruneKnown (run ((List.range 22).map (fun i => Op.add i false false)))).known.length = 20 := by
  decide

end Aurora.Group

namespace Aurora.Flood

/-- **Delivered at most once (clause 3).**  In every state reachable from any initial network
    `s0` with an empty event trace (ANY nodes, group configurations, pre-existing de-duplication
    entries and in-flight packets) by ANY interleaving of: a node originating a message,
    delivery of any in-flight packet (so: duplicates, re-delivery from different neighbours, any
    order), loss, duplication by the network, and arbitrary membership/configuration changes at
    any node — each node has notified its subscribers at most once per `(origin,id)`.
    The `getForwardNodes` oracle is arbitrary here. -/
theorem C38_deliver_at_most_once (s0 s : Net) (h0 : s0.trace = []) (r : Reach s0 s)
    (i : Nat) (key : Key) : s.trace.count (Event.notified i key) ≤ 1 :=
  (traceInv_reach h0 r (Event.notified i key)).2

/-- **Forwarded at most once (clause 4).**  Same quantification: each node executes the
    forwarding part of `Multicast` (everything after the `Multicast_` de-duplication check: the
    sends of `Group.multicast` or to the `getForwardNodes` peers) at most once per `(origin,id)`. -/
theorem C38_forward_at_most_once (s0 s : Net) (h0 : s0.trace = []) (r : Reach s0 s)
    (i : Nat) (key : Key) : s.trace.count (Event.forwarded i key) ≤ 1 :=
  (traceInv_reach h0 r (Event.forwarded i key)).2

/-- Node-level form of clauses 3/4, the one the correspondence run observes: once `onMulticast`
    has handled a message, a second delivery of a message with the same `(origin,id)` — from any
    sender, with any gid, at any later time within the window — notifies nobody, forwards
    nothing and leaves the node unchanged. -/
theorem C38_redelivery_is_noop (n : Node) (m m' : Msg) (f f' : Nat) (fb fb' : List Nat)
    (hk : m'.key = m.key) :
    let n1 := (onMulticast n m f fb).node
    onMulticast n1 m' f' fb' =
      { node := n1, sends := [], notified := false, forwarded := false, key := m.key } := by
  intro n1
  have h : m'.key ∈ n1.seenOn := by rw [hk]; exact onMulticast_marks n m f fb
  rw [onMulticast_seen h, hk]

/-- **Flooding terminates (clause 5), step form.**  For every fan-out bound `F` of the network
    (`Bounded`: every group's connected+kept ≤ F and the fallback limit ≤ F) and every key list
    `K` covering the in-flight messages, each flooding step (delivery with an admissible
    `getForwardNodes` answer, delivery to a non-existent node, loss) preserves both and strictly
    decreases the measure
    `mu = #in-flight + (F+1) × #{(node,key∈K) : node has not forwarded key}`. -/
theorem C38_flood_step_decreases (F : Nat) (K : List Key) (s s' : Net)
    (hB : Bounded F s) (hW : WFNet K s) (st : FloodStep s s') :
    Bounded F s' ∧ WFNet K s' ∧ mu F K s' < mu F K s :=
  floodStep_decreases hB hW st

/-- **Flooding terminates (clause 5).**  For EVERY finite network state whose in-flight messages
    carry an origin (which `Multicast` guarantees for everything it sends): there is no infinite
    sequence of flooding steps (the converse step relation is well-founded at `s`), and every
    run has at most `mu (fanout s) (keysOf s) s` steps.  No new `originate` and no membership
    change happen during the flood (those are the steps excluded from `FloodStep`). -/
theorem C38_flood_terminates (s : Net) (h : ∀ p, p ∈ s.inflight → p.msg.origin ≠ none) :
    Acc (fun a b => FloodStep b a) s ∧
    ∀ n s', FloodRun s n s' → n ≤ mu (fanout s) (keysOf s) s := by
  have hB := bounded_fanout s
  have hW := wfNet_keysOf h
  refine ⟨flood_acc _ s rfl hB hW, ?_⟩
  intro n s' r
  have := floodRun_bound r hB hW
  omega

/-! non-vacuity: a 3-node line 0 — 1 — 2, all joined to group 7 and subscribed -/

def demoGroup (peers : List Nat) : GroupEntry :=
  { gid := 7, gtype := .join, sub := true, g := { connected := peers } }
def demo0 : Net :=
  { nodes := [ { self := 0, groups := [demoGroup [1]] },
               { self := 1, groups := [demoGroup [0, 2]] },
               { self := 2, groups := [demoGroup [1]] } ],
    inflight := [] }
def demo1 : Net := (originateAt demo0 0 7 []).getD demo0      -- 0 multicasts
def demo2 : Net := (deliverAt demo1 0 []).getD demo1          -- 1 receives, notifies, forwards to 2
def demo3 : Net := (dupAt demo2 0).getD demo2                 -- the network duplicates 1→2
def demo4 : Net := (deliverAt demo3 0 []).getD demo3          -- 2 receives, notifies, nothing to forward
def demo5 : Net := (deliverAt demo4 0 []).getD demo4          -- 2 receives the duplicate: no-op

example : Reach demo0 demo5 :=
  .step (.step (.step (.step (.step .refl
    (.originate _ demo1 0 7 [] (by decide))) (.deliver _ demo2 0 [] (by decide)))
    (.dup _ demo3 0 (by decide))) (.deliver _ demo4 0 [] (by decide))) (.deliver _ demo5 0 [] (by decide))
/-- events really happen (the counts bounded by the theorems are attained) -/
example : demo5.trace = [.forwarded 0 (some 0, 1), .notified 1 (some 0, 1), .forwarded 1 (some 0, 1),
    .notified 2 (some 0, 1), .forwarded 2 (some 0, 1)] ∧ demo5.inflight = [] := by decide
example : demo0.trace = [] := rfl
/-- a flooding step with all its hypotheses, and the measure going down -/
example : FloodStep demo1 demo2 :=
  .deliver _ _ 0 [] ⟨0, 1, ⟨some 0, 1, 7⟩⟩ { self := 1, groups := [demoGroup [0, 2]] }
    (by decide) (by decide) (by decide) (by decide)
example : mu (fanout demo1) (keysOf demo1) demo1 = 19 ∧ mu (fanout demo1) (keysOf demo1) demo2 = 10 := by
  decide
example : ∀ p, p ∈ demo1.inflight → p.msg.origin ≠ none := by decide

end Aurora.Flood
