import Aurora.Lemmas.Subscribe
import Aurora.Generated.SubscribeCow
/-!
# C40 — Subscribers get every later message and none after leaving

Property theorems only (helpers: `Aurora/Lemmas/Subscribe.lean`).  The model is
`Aurora/Model/Subscribe.lean`: the code of `/repo/pkg/subscribe/subscribe.go` *after* the two
`fix:` commits (`drainSubs` before an unsubscription; `j--` in the removal loop), as an
interleaving semantics — any `List Act` is a schedule (disabled actions are no-ops), so the
theorems below hold for every history of subscribe / error / publish calls, every order in which
goroutines wake and every resolution of the `select` in `process`.  Tied to the Go code by the
C40 correspondence run.

The last section keeps, as machine-checked history, the two counterexamples against the code
*before* the repairs (`stepOld`).
-/
namespace Aurora.Subscribe

/-- **Registration takes effect when `process` handles it**: the step that takes `(k, n)` from the
    subscribe channel puts `n` into `k`'s list. -/
theorem C40_sub_takes_effect (s : State) (k : Key) (n : Notifier) (q : List Ev)
    (hq : s.subQ = ⟨k, n⟩ :: q) : n ∈ tget (step s .processSub).table k := by
  simp only [step, hq, tget_addSub, if_true]
  exact List.mem_append_right _ (List.mem_singleton.mpr rfl)

/-- **Every later message is delivered.**  Once `n` is in `k`'s list (its registration has taken
    effect) then, along any schedule `pre` during which no unsubscription of `(k, n)` is processed,
    `n` stays registered, and a `Publish` whose key list contains `k` (the key itself or its
    namespace-wide key) calls `n.Notify(k, m)`: the log grows by exactly that publish's deliveries,
    all of them carry `m`, and `⟨n, k, m⟩` is among them. -/
theorem C40_delivers_after_effect (s : State) (k : Key) (n : Notifier) (pre : List Act)
    (keys : List Key) (m : Msg)
    (hsub : n ∈ tget s.table k) (hno : NoUnsub k n s pre) (hk : k ∈ keys) :
    ∃ d, (run s (pre ++ [.publish keys m])).log = (run s pre).log ++ d ∧
      (⟨n, k, m⟩ : Delivery) ∈ d ∧ ∀ x ∈ d, x.msg = m := by
  refine ⟨deliveries (run s pre).table keys m, ?_, ?_, ?_⟩
  · rw [run_append]; rfl
  · exact deliveries_mem hk (subscribed_run pre s hsub hno)
  · intro x hx; exact (mem_deliveries hx).2.2

/-- **… in publication order**: the delivery log is append-only — whatever happens later
    (`acts`), everything delivered so far stays in front, so the deliveries of an earlier `Publish`
    precede those of every later one.  Within one `Publish` the namespace-wide key is served
    first (definition of `deliveries` / `pubKeys`). -/
theorem C40_publication_order (s : State) (acts : List Act) :
    ∃ d, (run s acts).log = s.log ++ d :=
  log_prefix acts s

/-- the keys of `Publish(ns, kind, param)` are the namespace-wide key and, for a non-empty `param`,
    the key `Subscribe(ns, kind, param)` registers under — so both kinds of subscriber are reached -/
theorem C40_pubKeys_cover (ns kind param : String) :
    subKey ns kind "" ∈ pubKeys ns kind param ∧ subKey ns kind param ∈ pubKeys ns kind param := by
  unfold subKey pubKeys
  by_cases h : param = "" <;> simp [h]

/-- **No delivery after an unsubscription has been processed — for any multiplicity.**  When
    `process` takes an unsubscription of `(k, n)`, `n` leaves `k`'s list completely, however many
    times it was subscribed and even if further subscriptions of `(k, n)` were still pending in the
    subscribe channel; and `n` stays out, along any schedule, until `Subscribe(n, k)` is called
    again.  In particular no later `Publish` notifies `n` for `k`. -/
theorem C40_no_delivery_after_unsub_processed (s : State) (k : Key) (n : Notifier) (q : List Ev)
    (acts : List Act) (hq : s.unsubQ = ⟨k, n⟩ :: q)
    (hns : ∀ a ∈ acts, a ≠ Act.subscribe n k) (keys : List Key) (m : Msg) :
    n ∉ tget (run (step s .processUnsub) acts).table k ∧
    (⟨n, k, m⟩ : Delivery) ∉ deliveries (run (step s .processUnsub) acts).table keys m := by
  have hg : Gone k n (step s .processUnsub) := by
    constructor
    · simp only [step, hq, tget_removeAll, if_true, List.mem_filter, decide_eq_true_eq]
      intro h; exact h.2 rfl
    · simp [step, hq]
  have := gone_run acts _ hg hns
  refine ⟨this.1, ?_⟩
  intro hd
  exact this.1 (mem_deliveries hd).1

/-- **The property as stated.**  In every state reachable from the initial one by any schedule: if
    `n`'s error channel has fired and nothing is in flight (both channels empty, every goroutine of a
    dead notifier has sent its event), then `n` is in no list — however often it subscribed, also if
    it subscribed *after* the error fired, whatever order the `select` chose — and a `Publish`
    notifies `n` of nothing. -/
theorem C40_full (acts : List Act) (n : Notifier)
    (hdead : n ∈ (run init acts).dead) (hq : Quiescent (run init acts)) :
    (∀ k, n ∉ tget (run init acts).table k) ∧
    (∀ keys m, ∀ d ∈ deliveries (run init acts).table keys m, d.n ≠ n) := by
  have hg := guard_run acts init guard_init
  obtain ⟨_, hu, hw⟩ := hq
  have h1 : ∀ k, n ∉ tget (run init acts).table k := by
    intro k hm
    rcases hg k n (Or.inl hm) with h | h
    · exact hw _ h hdead
    · rw [hu] at h; simp at h
  refine ⟨h1, ?_⟩
  intro keys m d hd hn
  have := (mem_deliveries hd).1
  rw [hn] at this
  exact h1 _ this

/-! ### a `Publish` parked inside a slow consumer: copy-on-write

`Publish` holds no lock while it ranges over a key's list, so an unsubscription (or a subscription)
can be processed while a publisher is blocked in a `Notify` call in the middle of the list.  The
model (`pubUntilParked` / `pubResume`) lets the released publisher go on over the list *it loaded*.
That rests on one discipline of subscribe.go — nothing overwrites a cell of a slice that was loaded
from `keyToNotifier` — which the extractor reads off the source on every run
(`Aurora/Generated/SubscribeCow.lean`, harness/cmd/extract/subscribe_cow.go). -/

section Cow
open Aurora.Generated.SubscribeCow

/-- the extracted tables say: `process` stores a slice, every slice it stores was made in `process`
    itself (`make`) and filled by a `copy` from the loaded one; no `append(b[i:j], …)`, `copy(b, …)`
    or `b[i] = …` anywhere in the package has a loaded slice as `b`; every slice stored into the map
    is either fresh or a loaded one extended at its tail -/
def cowHolds : Bool :=
  (stores.any (fun s => s.fn == "subPub.process")) &&
  (stores.all (fun s => s.fn != "subPub.process" || decide (s.val = .fresh))) &&
  (copies.any (fun c => c.fn == "subPub.process" && decide (c.dst = .fresh) && decide (c.src = .loaded))) &&
  (writes.all (fun w => decide (w.base ≠ .loaded) || decide (w.kind = .tail))) &&
  (stores.all (fun s => decide (s.val ≠ .other)))

/-- **static obligation** (by evaluation of the regenerated tables): the removal in `process`
    operates on a fresh copy — the slice stored back with `Store` is not an alias of the loaded
    one — and this is exactly the copy semantics the model assumes
    (`processRemovesOnFreshCopy`).  The seeded change C40-2 (`cSlice := v.([]*subInfo)` instead of
    `make`+`copy`) yields `⟨"subPub.process", _, .shift, .loaded⟩` / `⟨"subPub.process", _, .loaded⟩`
    and this fails. -/
theorem C40_removal_on_fresh_copy :
    cowHolds = true ∧ processRemovesOnFreshCopy = cowHolds := by
  decide

end Cow

/-- **A list published before an unsubscription is processed is not changed by it** (clause
    "receives, in publication order, every message published after its registration took effect",
    for a publish that overlaps an unsubscription).  Memory level, with the model's copy semantics
    (`processRemovesOnFreshCopy`, tied to the code by `C40_removal_on_fresh_copy`): whatever slice
    value `p` a publisher holds (any array that exists, any length), ranging over it yields the
    same notifiers after `process` has handled an unsubscription of `x` on the loaded slice `s` —
    also when `p = s` —, and the slice `process` stores holds `s` without `x`, which is what the
    table-level `removeAll` says. -/
theorem C40_publish_snapshot_isolated (m : Arrays) (s p : Slice) (x : Notifier)
    (hp : p.arr < m.length) :
    view (unsubMem processRemovesOnFreshCopy m s x).1 p = view m p ∧
    view (unsubMem processRemovesOnFreshCopy m s x).1 (unsubMem processRemovesOnFreshCopy m s x).2 =
      (view m s).filter (fun y => y ≠ x) := by
  simp only [unsubMem, processRemovesOnFreshCopy, if_true]
  exact ⟨view_append_lt m _ p hp, view_append_new m _⟩

/-- The same for a subscription that is processed meanwhile: `append(slice, &info)` writes cell
    `len` of the loaded slice's array or a new array, so a held slice value that is not longer than
    the (valid: `hv`) loaded one (`hmono`: slice values of one array are published with growing lengths, which
    holds as long as removals go to fresh arrays) still yields the same notifiers. -/
theorem C40_publish_snapshot_isolated_add (room : Bool) (m : Arrays) (s p : Slice) (x : Notifier)
    (hp : p.arr < m.length) (hv : s.len ≤ (m.getD s.arr []).length)
    (hmono : p.arr = s.arr → p.len ≤ s.len) :
    view (addMem room m s x).1 p = view m p := by
  unfold addMem
  cases room
  · exact view_append_lt m _ p hp
  · simp only [if_true]
    unfold view
    by_cases h : p.arr = s.arr
    · have hl := hmono h
      have hs : s.arr < m.length := h ▸ hp
      rw [h]
      simp only [List.getD, List.getElem?_set_self hs, Option.getD_some]
      rw [List.append_assoc, List.take_append_of_le_length]
      · rw [List.take_take, Nat.min_eq_left hl]
      · rw [List.length_take]
        simp only [List.getD] at hv
        omega
    · simp only [List.getD, List.getElem?_set_ne (Ne.symm h)]

/-- **A parked publish loses nobody and repeats nobody.**  Run `Publish(keys, m)` until it blocks
    in the first `Notify` call to `slow`, let `process` do anything meanwhile (`t'` is the table
    afterwards), release it: the calls made are the calls of the snapshot — for the key it was
    parked in and all earlier keys exactly the lists of `t` in list order, each entry once — followed
    by the lists the later keys have in `t'`.  In particular with `t' = t` parking changes nothing. -/
theorem C40_parked_publish_complete (t : Table) (m : Msg) (slow : Notifier) (keys : List Key) :
    (pubUntilParked t m slow keys).1 ++
      (match (pubUntilParked t m slow keys).2 with
       | none => []
       | some p => pubResume t m p) = deliveries t keys m :=
  pubUntilParked_complete t m slow keys

/-- Why the copy matters (the seeded change C40-2, confirmed on the real code by the `pubduring`
    replay): with the removal loop running on the loaded slice itself, the list `[a, b, c]` a
    publisher is ranging over becomes `[b, c, c]` when `a` leaves; the publisher, blocked in
    `a.Notify` (index 0), goes on with `c, c` — `b` misses the message, `c` gets it twice — while
    the copying version leaves `b, c` to be notified. -/
theorem C40_inplace_removal_counterexample :
    let m : Arrays := [["a", "b", "c"]]
    let s : Slice := ⟨0, 3⟩
    view (unsubMem false m s "a").1 s = ["b", "c", "c"] ∧
    (view (unsubMem false m s "a").1 s).drop 1 = ["c", "c"] ∧
    (view (unsubMem true m s "a").1 s).drop 1 = ["b", "c"] ∧
    view (unsubMem false m s "a").1 (unsubMem false m s "a").2 = ["b", "c"] := by
  decide

/-! ### non-vacuity -/

example : Quiescent (run init [.subscribe "n" "k", .processSub, .subscribe "n" "k", .processSub,
    .errFires "n", .wake ⟨"k", "n"⟩, .wake ⟨"k", "n"⟩, .processUnsub, .processUnsub]) ∧
    "n" ∈ (run init [.subscribe "n" "k", .processSub, .subscribe "n" "k", .processSub,
      .errFires "n", .wake ⟨"k", "n"⟩, .wake ⟨"k", "n"⟩, .processUnsub, .processUnsub]).dead := by
  decide

example : NoUnsub "k" "n" (run init [.subscribe "n" "k", .processSub])
    [.subscribe "m" "k", .processSub, .errFires "m", .wake ⟨"k", "m"⟩, .processUnsub] := by
  decide

example : (run init [.subscribe "n" "a_k", .subscribe "m" "a_k_p", .processSub, .processSub,
    .publish (pubKeys "a" "k" "p") "x"]).log = [⟨"n", "a_k", "x"⟩, ⟨"m", "a_k_p", "x"⟩] := by
  decide

example : pubUntilParked [("a_k", ["n0", "n1", "n2"])] "m" "n1" ["a_k", "a_k_p"] =
    ([⟨"n0", "a_k", "m"⟩, ⟨"n1", "a_k", "m"⟩], some ⟨[⟨"n2", "a_k", "m"⟩], ["a_k_p"]⟩) := by
  decide

example : (2 : Nat) < ([["a"], ["b"], ["c", "d"]] : Arrays).length ∧
    view [["a"], ["b"], ["c", "d"]] ⟨2, 1⟩ = ["c"] := by decide

/-! ### history: the code before the repairs violated the property (both confirmed on the real code) -/

/-- Before `drainSubs`: subscribe with an error channel that fires early; the `select` takes the
    unsubscription first (a no-op), then the subscription — quiescent, dead, and still subscribed
    for ever. -/
theorem C40_prefix_counterexample_unsub_first :
    let s := runOld init [.subscribe "z" "k", .errFires "z", .wake ⟨"k", "z"⟩, .processUnsub, .processSub]
    Quiescent s ∧ "z" ∈ s.dead ∧ "z" ∈ tget s.table "k" := by
  decide

/-- Before `j--`: one processed unsubscription left the adjacent duplicate in the list. -/
theorem C40_prefix_counterexample_duplicates :
    let s := runOld init [.subscribe "n" "k", .subscribe "n" "k", .processSub, .processSub,
      .errOne "n", .processUnsub]
    s.subQ = [] ∧ s.unsubQ = [] ∧ "n" ∈ tget s.table "k" := by
  decide

end Aurora.Subscribe
