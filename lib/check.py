#!/usr/bin/env python3
"""
./check Cxx [--tier quick|thorough] [--seed N] [--replay FILE]

One check = (1) regenerate facts from /repo, (2) build the Lean property theorems and audit
their axioms, (3) rebuild the Go harness against /repo's working tree, (4) run the
correspondence (real code vs. executable Lean model on the same op lines) and the model-free
property oracle, (5) on any break: search / shrink for a concrete failing input, consult
known-findings.txt, print VIOLATION / KNOWN-FINDING lines, (6) write evidence/Cxx.json.
See DESIGN.md §2.
"""
import sys, os, json, subprocess, time, hashlib, re, fcntl, shutil, argparse, glob, collections

ROOT = os.path.dirname(os.path.dirname(os.path.abspath(__file__)))
LEAN = os.path.join(ROOT, "lean")
HARN = os.path.join(ROOT, "harness")
REPO = os.environ.get("VERIF_REPO", "/repo")
OK_AXIOMS = {"propext", "Classical.choice", "Quot.sound"}
FORBIDDEN = re.compile(r"\bsorry\b|\badmit\b|^\s*axiom\s|native_decide|bv_decide|implemented_by|\bunsafe\s|maxHeartbeats\s+0\b", re.M)

GOENV = dict(os.environ, GOFLAGS="-mod=mod", GOPROXY="off", GOSUMDB="off", GOTOOLCHAIN="local",
             CGO_ENABLED=os.environ.get("CGO_ENABLED", "0"))


def log(*a):
    print(*a, file=sys.stderr, flush=True)


class Lock:
    def __init__(self, name):
        os.makedirs(os.path.join(ROOT, ".work"), exist_ok=True)
        self.path = os.path.join(ROOT, ".work", name + ".lock")

    def __enter__(self):
        self.f = open(self.path, "w")
        fcntl.flock(self.f, fcntl.LOCK_EX)

    def __exit__(self, *a):
        fcntl.flock(self.f, fcntl.LOCK_UN)
        self.f.close()


def run(cmd, cwd=None, env=None, stdin=None, stdout=None, timeout=None):
    return subprocess.run(cmd, cwd=cwd, env=env, stdin=stdin, stdout=stdout or subprocess.PIPE,
                          stderr=subprocess.PIPE, timeout=timeout, text=(stdout is None))


def strip_comments(src):
    # remove /- ... -/ (nested) and -- line comments; good enough for the forbidden-token grep
    out, i, depth = [], 0, 0
    while i < len(src):
        if src.startswith("/-", i):
            depth += 1; i += 2; continue
        if depth and src.startswith("-/", i):
            depth -= 1; i += 2; continue
        if depth:
            i += 1; continue
        if src.startswith("--", i):
            j = src.find("\n", i)
            i = len(src) if j < 0 else j
            continue
        out.append(src[i]); i += 1
    return "".join(out)


def theorem_names(path):
    """fully-qualified names of `theorem`s declared in a Props file (namespace-aware)."""
    src = strip_comments(open(path).read())
    ns, names = [], []
    for line in src.splitlines():
        m = re.match(r"\s*namespace\s+(\S+)", line)
        if m:
            ns.append(m.group(1)); continue
        m = re.match(r"\s*end\s+(\S+)\s*$", line)
        if m and ns and ns[-1] == m.group(1):
            ns.pop(); continue
        m = re.match(r"\s*(?:@\[[^\]]*\]\s*)?(?:private\s+|protected\s+)?theorem\s+([^\s:({\[]+)", line)
        if m:
            names.append(".".join(ns + [m.group(1)]))
    return names


def lean_phase(cfg, pid, tier, cmds):
    """returns (obligations:list[dict], problems:list[str])"""
    problems = []
    props_mod = cfg.get("lean_props", f"Aurora.Props.{pid}")
    props_path = os.path.join(LEAN, props_mod.replace(".", "/") + ".lean")
    with Lock("lake"):
        # 1. regenerated facts
        ex = run([os.path.join(HARN, "bin", "extract"), REPO, os.path.join(LEAN, "Aurora", "Generated")])
        cmds.append("harness/bin/extract /repo lean/Aurora/Generated")
        if ex.returncode != 0:
            problems.append("extract failed: " + ex.stderr[-400:])
        # 2. forbidden tokens
        for f in glob.glob(LEAN + "/Aurora/**/*.lean", recursive=True) + glob.glob(LEAN + "/Driver/*.lean"):
            if "/Audit/" in f:
                continue
            m = FORBIDDEN.search(strip_comments(open(f).read()))
            if m:
                problems.append(f"forbidden token {m.group(0).strip()!r} in {os.path.relpath(f, ROOT)}")
        # 3. build the model driver (needed by the correspondence even when a proof breaks) ...
        bd = run(["lake", "build", "aurora-driver"], cwd=LEAN, timeout=3600)
        if bd.returncode != 0:
            errs = [l for l in (bd.stdout + bd.stderr).splitlines() if "error" in l][:8]
            problems.append("driver build failed: " + " | ".join(errs))
        # ... then the theorems
        mods = [props_mod] + list(cfg.get("lean_props_extra", []))
        b = run(["lake", "build"] + mods, cwd=LEAN, timeout=3600)
        cmds.append(f"(cd lean && lake build aurora-driver && lake build {' '.join(mods)})")
        names = []
        for m in mods:
            mp = os.path.join(LEAN, m.replace(".", "/") + ".lean")
            if os.path.exists(mp):
                names += theorem_names(mp)
        obligations = [{"name": n, "axioms": None, "discharged": False} for n in names]
        if b.returncode != 0:
            errs = [l for l in (b.stdout + b.stderr).splitlines() if "error" in l][:8]
            problems.append("lake build failed (proof obligations do not check): " + " | ".join(errs))
            return obligations, problems
        if not names:
            problems.append("no theorems found in " + props_mod)
            return obligations, problems
        # 4. axiom audit (generated file, not committed)
        os.makedirs(os.path.join(LEAN, "Audit"), exist_ok=True)
        ap = os.path.join(LEAN, "Audit", f"{pid}.lean")
        with open(ap, "w") as f:
            f.write("".join(f"import {m}\n" for m in mods) + "".join(f"#print axioms {n}\n" for n in names))
        a = run(["lake", "env", "lean", ap], cwd=LEAN, timeout=1800)
        cmds.append(f"(cd lean && lake env lean Audit/{pid}.lean)   # #print axioms for every theorem")
        text = a.stdout + a.stderr
        # entries look like: 'Name' depends on axioms: [a, b]   |   'Name' does not depend on any axioms
        flat = re.sub(r"\s+", " ", text)
        for ob in obligations:
            n = re.escape(ob["name"])
            m = re.search(r"'" + n + r"' depends on axioms: \[([^\]]*)\]", flat)
            if m:
                ob["axioms"] = sorted(x.strip() for x in m.group(1).split(",") if x.strip())
            elif re.search(r"'" + n + r"' does not depend on any axioms", flat):
                ob["axioms"] = []
            if ob["axioms"] is not None and set(ob["axioms"]) <= OK_AXIOMS:
                ob["discharged"] = True
            else:
                problems.append(f"theorem {ob['name']} not discharged (axioms: {ob['axioms']})")
        if tier == "thorough":
            lc = run(["lake", "env", "leanchecker"] + mods, cwd=LEAN, timeout=3600)
            cmds.append(f"(cd lean && lake env leanchecker {' '.join(mods)})")
            if lc.returncode != 0:
                problems.append("leanchecker failed: " + (lc.stdout + lc.stderr)[-300:])
    return obligations, problems


def modfile_args():
    """development aid: VERIF_REPO=<scratch worktree> builds the harness against that tree
    (through an alternate go.mod) instead of /repo.  Registered checks never set it."""
    if os.path.realpath(REPO) == "/repo":
        try:
            shutil.copyfile(os.path.join(REPO, "go.sum"), os.path.join(HARN, "go.sum"))
        except OSError:
            pass
        return []
    alt = os.path.join(HARN, ".alt.mod")
    src = open(os.path.join(HARN, "go.mod")).read().replace("=> /repo", "=> " + os.path.realpath(REPO))
    open(alt, "w").write(src)
    shutil.copyfile(os.path.join(REPO, "go.sum"), os.path.join(HARN, ".alt.sum"))
    return ["-modfile=" + alt]


def build_harness(cmds):
    with Lock("go"):
        os.makedirs(os.path.join(HARN, "bin"), exist_ok=True)
        mf = modfile_args()
        b = run(["go", "build"] + mf + ["-tags", "verif", "-ldflags=-checklinkname=0", "-o", "bin/vh", "./cmd/vh"],
                cwd=HARN, env=GOENV, timeout=3600)
        cmds.append("(cd harness && go build -tags verif -ldflags=-checklinkname=0 -o bin/vh ./cmd/vh)   # replace => /repo")
        if b.returncode != 0:
            return b.stderr[-2000:]
        if not os.path.exists(os.path.join(HARN, "bin", "extract")) or True:
            e = run(["go", "build", "-o", "bin/extract", "./cmd/extract"], cwd=HARN, env=GOENV, timeout=1800)
            if e.returncode != 0:
                return e.stderr[-2000:]
    return None


def parse_cases(text):
    cases, cur = [], None
    for line in text.splitlines():
        if line.startswith("#case"):
            f = line.split()
            cur = {"id": f[1] if len(f) > 1 else "anon", "nt": "nt=1" in f[2:], "ops": []}
            cases.append(cur)
        elif line.strip():
            if cur is None:
                cur = {"id": "anon", "nt": False, "ops": []}; cases.append(cur)
            cur["ops"].append(line)
    return cases


def fmt_cases(cases):
    out = []
    for c in cases:
        out.append(f"#case {c['id']} nt={1 if c.get('nt') else 0}")
        out.extend(c["ops"])
    return "\n".join(out) + "\n"


def split_outputs(text):
    """output stream -> list per case of output lines"""
    res, cur = [], None
    for line in text.splitlines():
        if line.startswith("#case"):
            cur = []; res.append(cur)
        elif cur is not None:
            cur.append(line)
    return res


LAST_STUCK = None


def stuck_case(cases, partial):
    """the harness flushes its output after every case: the case it did not finish (hang / crash of the process)
    is the first one whose output block is missing or incomplete.  returns (index, number of answered ops)"""
    outs = split_outputs(partial or "")
    for idx, c in enumerate(cases):
        if idx >= len(outs):
            return (idx, 0)
        if len(outs[idx]) < len(c["ops"]):
            return (idx, len(outs[idx]))
    return None


def exec_both(pid, driver, cases, work, tag, timeout):
    """run impl and model on cases. returns (impl_outs, model_outs, fails, err)"""
    cf = os.path.join(work, f"{tag}.cases")
    with open(cf, "w") as f:
        f.write(fmt_cases(cases))
    ff = os.path.join(work, f"{tag}.fails")
    af = os.path.join(work, f"{tag}.annot")   # case file + the runner's annotations = model driver input
    env = dict(GOENV, GOMEMLIMIT=os.environ.get("GOMEMLIMIT", "12GiB"))
    global LAST_STUCK
    LAST_STUCK = None
    with open(cf) as fin:
        pr = subprocess.Popen([os.path.join(HARN, "bin", "vh"), pid, "exec", "--fails", ff, "--annot", af], stdin=fin,
                              stdout=subprocess.PIPE, stderr=subprocess.PIPE, text=True, env=env)
        try:
            so, se = pr.communicate(timeout=timeout)
        except subprocess.TimeoutExpired:
            pr.kill()
            so, se = pr.communicate()
            LAST_STUCK = stuck_case(cases, so)
            return None, None, [], "impl timeout"
        i = subprocess.CompletedProcess(pr.args, pr.returncode, so, se)
    if i.returncode != 0:
        LAST_STUCK = stuck_case(cases, i.stdout)
        return None, None, [], "impl harness exited %d: %s" % (i.returncode, i.stderr[-1500:])
    with open(af if os.path.exists(af) else cf) as fin:
        try:
            m = subprocess.run([os.path.join(LEAN, ".lake", "build", "bin", "aurora-driver"), driver], stdin=fin,
                               stdout=subprocess.PIPE, stderr=subprocess.PIPE, text=True, timeout=timeout)
        except subprocess.TimeoutExpired:
            return None, None, [], "model timeout"
    if m.returncode != 0:
        return None, None, [], "model driver exited %d: %s" % (m.returncode, m.stderr[-500:])
    fails = []
    if os.path.exists(ff):
        fails = [json.loads(l) for l in open(ff) if l.strip()]
    return split_outputs(i.stdout), split_outputs(m.stdout), fails, None


def first_diff(a, b):
    for k in range(max(len(a), len(b))):
        x = a[k] if k < len(a) else "<missing>"
        y = b[k] if k < len(b) else "<missing>"
        if x != y:
            return k
    return None


def case_hash(c):
    return hashlib.sha256("\n".join(c["ops"]).encode()).hexdigest()[:16]


def shrink(pid, driver, case, pred_kind, clause, work, budget=60, fail_op=None, max_s=90):
    """delta-debug the op list while the failure persists (bounded by evaluations and wall time).
    pred_kind: 'oracle' (oracle fails with same clause) or 'diff' (streams diverge)."""
    t_end = time.time() + max_s

    def still_fails(ops):
        c = {"id": "shrink", "nt": False, "ops": ops}
        io, mo, fails, err = exec_both(pid, driver, [c], work, "shrink", 120)
        if err or not io:
            return False
        if pred_kind == "oracle":
            return any(f["clause"] == clause for f in fails)
        return first_diff(io[0], mo[0]) is not None
    ops = list(case["ops"])
    n = 2
    evals = 0
    # cheap first step: drop everything after the op at which the failure was observed
    if fail_op is not None and fail_op + 1 < len(ops):
        evals += 1
        if still_fails(ops[:fail_op + 1]):
            ops = ops[:fail_op + 1]
    while len(ops) >= 2 and evals < budget and time.time() < t_end:
        chunk = max(1, len(ops) // n)
        reduced = False
        for start in range(0, len(ops), chunk):
            cand = ops[:start] + ops[start + chunk:]
            if not cand:
                continue
            evals += 1
            if still_fails(cand):
                ops = cand; n = max(n - 1, 2); reduced = True
                break
            if evals >= budget or time.time() > t_end:
                break
        if not reduced:
            if chunk == 1:
                break
            n = min(len(ops), n * 2)
    return ops


def load_known():
    known, fixed = [], []
    p = os.path.join(ROOT, "known-findings.txt")
    if os.path.exists(p):
        for line in open(p):
            line = line.strip()
            if line.startswith("known:"):
                m = re.search(r"property=(\S+)\s+signature=(\S+)\s*(.*)", line)
                if m:
                    known.append({"property": m.group(1), "signature": m.group(2), "what": m.group(3)})
            elif line.startswith("fixed:"):
                fixed.append(line)
    return known, fixed


def main():
    ap = argparse.ArgumentParser()
    ap.add_argument("pid")
    ap.add_argument("--tier", default=os.environ.get("VERIF_TIER", "quick"))
    ap.add_argument("--seed", type=int, default=int(os.environ.get("VERIF_SEED", "1")))
    ap.add_argument("--replay")
    args = ap.parse_args()
    if os.environ.get("VERIF_TIER"):
        args.tier = os.environ["VERIF_TIER"]
    pid, tier, seed = args.pid, args.tier, args.seed
    t0 = time.time()
    cfg = json.load(open(os.path.join(ROOT, "checks", pid + ".json")))
    driver = cfg.get("driver", pid)
    work = os.path.join(ROOT, ".work", f"{pid}.{os.getpid()}")
    os.makedirs(work, exist_ok=True)
    os.makedirs(os.path.join(ROOT, "replays"), exist_ok=True)
    cmds, violations, known_hits, notes = [], [], [], []
    try:
        rc = body(args, cfg, pid, tier, seed, driver, work, cmds, t0)
    finally:
        shutil.rmtree(work, ignore_errors=True)
    sys.exit(rc)


def write_replay(pid, seed, n, obj):
    p = os.path.join(ROOT, "replays", f"{pid}-{seed}-{n}.json")
    with open(p, "w") as f:
        json.dump(obj, f, indent=1)
    return p


def body(args, cfg, pid, tier, seed, driver, work, cmds, t0):
    err = build_harness(cmds)
    harness_broken = err
    obligations, problems = lean_phase(cfg, pid, tier, cmds)

    if args.replay:
        rp = json.load(open(args.replay))
        case = {"id": "replay", "nt": True, "ops": rp["ops"]}
        io, mo, fails, e = exec_both(pid, driver, [case], work, "replay", 600)
        if e:
            print("replay error:", e); return 2
        for k, op in enumerate(case["ops"]):
            print(f"{k:4d} {op}\n       impl : {io[0][k] if k < len(io[0]) else '<missing>'}\n       model: {mo[0][k] if k < len(mo[0]) else '<missing>'}")
        for f in fails:
            print("oracle:", json.dumps(f))
        bad = bool(fails) or first_diff(io[0], mo[0]) is not None
        print("replay:", "failure reproduced" if bad else "no failure")
        return 1 if bad else 0

    cases, corpus_n = [], 0
    if not harness_broken:
        for f in sorted(glob.glob(os.path.join(ROOT, "corpus", pid, "*.ops"))):
            cs = parse_cases(open(f).read())
            for c in cs:
                c["id"] = "corpus-" + os.path.basename(f)[:-4] + "-" + c["id"]
            cases += cs
        corpus_n = len(cases)
        g = run([os.path.join(HARN, "bin", "vh"), pid, "gen", "--seed", str(seed), "--tier", tier], env=GOENV, timeout=1800)
        cmds.append(f"harness/bin/vh {pid} gen --seed {seed} --tier {tier} | tee cases | harness/bin/vh {pid} exec --fails f > impl.out ; lean/.lake/build/bin/aurora-driver {driver} < cases > model.out ; diff")
        if g.returncode != 0:
            harness_broken = "gen failed: " + g.stderr[-500:]
        else:
            cases += parse_cases(g.stdout)
    rule = ""
    if not harness_broken:
        rule = run([os.path.join(HARN, "bin", "vh"), pid, "rule"], env=GOENV).stdout.strip()

    io = mo = None
    fails = []
    MAIN_STUCK = None
    tmo = cfg.get("timeout_quick", 900) if tier == "quick" else cfg.get("timeout_thorough", 7200)
    lean_ok = not any(p.startswith("driver build failed") for p in problems)
    if not harness_broken and lean_ok:
        io, mo, fails, e = exec_both(pid, driver, cases, work, "main", tmo)
        if e:
            harness_broken = e
            MAIN_STUCK = LAST_STUCK

    findings = []   # dicts: signature, kind, case, ops, detail
    known, fixed = load_known()
    known_sigs0 = {k["signature"] for k in known if k["property"] == pid}
    diffs = 0
    traces_ok = 0
    out_hist = collections.Counter()
    if io is not None:
        fails_by_case = collections.defaultdict(list)
        for f in fails:
            fails_by_case[f["case"]].append(f)
        for idx, c in enumerate(cases):
            a = io[idx] if idx < len(io) else []
            b = mo[idx] if idx < len(mo) else []
            for line in a:
                out_hist[line.split(" ")[0][:12] if not line[:1].isdigit() else "<value>"] += 1
            d = first_diff(a, b)
            cf = fails_by_case.get(c["id"], [])
            if d is None and not cf and len(a) == len(c["ops"]):
                traces_ok += 1
                continue
            if d is not None:
                diffs += 1
            seen = set()
            for f in cf:
                if f["clause"] in seen:
                    continue
                seen.add(f["clause"])
                findings.append({"signature": f"{pid}/{f['clause']}", "kind": "oracle", "clause": f["clause"], "case": c,
                                 "detail": f["msg"], "op": f["op"]})
            # a model/code divergence is reported unless an unlisted oracle failure of the same case already is
            # (cases whose only oracle failures are known findings must still agree with the model)
            if d is not None and all(f"{pid}/{f['clause']}" in known_sigs0 for f in cf):
                kind = c["ops"][d].split(" ")[0] if d < len(c["ops"]) else "len"
                findings.append({"signature": f"{pid}/corr/{kind}", "kind": "diff", "clause": None, "case": c,
                                 "detail": f"op {d} `{c['ops'][d] if d < len(c['ops']) else ''}`: impl `{a[d] if d < len(a) else '<missing>'}` model `{b[d] if d < len(b) else '<missing>'}`", "op": d})

    # ---- a model/code divergence must be reproducible: the real code runs goroutines (background access-time updates,
    # notifiers) whose order inside one op the harness cannot always pin; a divergence seen once that does not show up
    # again when the same case is run alone (3 attempts) is scheduling noise, recorded in the evidence but not reported.
    # Only done when few cases diverge (a real change makes many cases diverge, and stays reported).
    unstable = []
    diff_f = [f for f in findings if f["kind"] == "diff"]
    if 0 < len(diff_f) <= 5 and not harness_broken and lean_ok:
        for f in diff_f:
            again = 0
            for attempt in range(3):
                rio, rmo, rf, e = exec_both(pid, driver, [f["case"]], work, "again", 600)
                if e or not rio or not rmo or first_diff(rio[0], rmo[0]) is not None:
                    again += 1
                    break
            if again == 0:
                unstable.append({"case": f["case"]["id"], "signature": f["signature"], "detail": f["detail"][:400]})
                findings.remove(f)
                diffs -= 1
        if unstable:
            log(f"{len(unstable)} divergence(s) did not reproduce in 3 re-runs of the same case (scheduling-dependent): not reported")

    # ---- search for failing inputs when only a proof/correspondence broke (DESIGN §2.4)
    search_note = None
    oracle_sigs = {f["signature"] for f in findings if f["kind"] == "oracle"}
    need_search = (problems or any(f["kind"] == "diff" for f in findings)) and not oracle_sigs and not harness_broken and lean_ok
    extra_evals = 0
    if need_search:
        K = 20 if tier == "quick" else 100
        for k in range(K):
            g = run([os.path.join(HARN, "bin", "vh"), pid, "gen", "--seed", str(seed * 1000003 + k + 1), "--tier", "quick"], env=GOENV, timeout=1800)
            if g.returncode != 0:
                break
            cs = parse_cases(g.stdout)
            sio, smo, sf, e = exec_both(pid, driver, cs, work, "search", tmo)
            if e:
                break
            extra_evals += len(cs)
            if sf:
                byid = {c["id"]: c for c in cs}
                seen = set()
                for f in sf:
                    if f["clause"] in seen:
                        continue
                    seen.add(f["clause"])
                    findings.append({"signature": f"{pid}/{f['clause']}", "kind": "oracle", "clause": f["clause"],
                                     "case": byid[f["case"]], "detail": f["msg"], "op": f["op"]})
                break
        search_note = f"failing-input search ran {extra_evals} extra cases"

    # ---- group by signature, shrink one representative each
    by_sig = collections.OrderedDict()
    for f in findings:
        by_sig.setdefault(f["signature"], []).append(f)
    violations, known_lines = [], []
    n = 0
    # a divergence is folded into an oracle finding only if that finding is itself reported (not a known finding)
    known_sigs = {k["signature"] for k in known if k["property"] == pid}
    has_oracle = any(f["kind"] == "oracle" and f["signature"] not in known_sigs for f in findings)
    for sig, fl in by_sig.items():
        rep = min(fl, key=lambda f: len(f["case"]["ops"]))
        if rep["kind"] == "diff" and has_oracle:
            # a divergence next to a property failure found in the same run: the property failure(s) are the
            # report; the divergence is not a separate "no failing input found" violation
            continue
        k = next((k for k in known if k["property"] == pid and k["signature"] == sig), None)
        if k:
            known_lines.append(f"KNOWN-FINDING: property={pid} {sig} {k['what']} ({len(fl)} case(s) this run)")
            continue
        if n < 4:
            ops = shrink(pid, driver, rep["case"], rep["kind"], rep["clause"], work, fail_op=rep.get("op"))
        else:   # many distinct signatures in one run: report the rest unshrunk (smallest case seen)
            ops = list(rep["case"]["ops"])
        c2 = {"id": "min", "nt": True, "ops": ops}
        rio, rmo, rf, e = exec_both(pid, driver, [c2], work, "min", 300)
        n += 1
        obj = {"property": pid, "signature": sig, "kind": rep["kind"], "seed": seed, "tier": tier,
               "found_in_case": rep["case"]["id"], "detail": rep["detail"], "ops": ops,
               "impl": rio[0] if rio else None, "model": rmo[0] if rmo else None, "oracle": rf,
               "cases_with_this_signature": len(fl),
               "replay_cmd": f"./check {pid} --replay <this file>"}
        if rep["kind"] == "diff":
            obj["no_failing_input_found"] = True
            obj["broken"] = f"correspondence stream {pid} (model {driver} vs /repo), first diverging op index {rep['op']}"
            if search_note:
                obj["search"] = search_note
        path = write_replay(pid, seed, n, obj)
        violations.append((path, rep["kind"] == "diff"))
    if problems and not violations:
        n += 1
        obj = {"property": pid, "signature": f"{pid}/proof", "kind": "proof", "seed": seed, "tier": tier,
               "no_failing_input_found": True, "broken": problems, "ops": [], "search": search_note}
        violations.append((write_replay(pid, seed, n, obj), True))
    elif problems:
        notes_path = write_replay(pid, seed, "proof", {"property": pid, "kind": "proof", "broken": problems, "ops": []})
        log("proof problems recorded in", notes_path)
    if harness_broken and not violations:
        n += 1
        obj = {"property": pid, "signature": f"{pid}/harness", "kind": "harness", "seed": seed, "tier": tier,
               "no_failing_input_found": True, "broken": "correspondence could not run: " + str(harness_broken), "ops": []}
        nofail = True
        if MAIN_STUCK is not None and MAIN_STUCK[0] < len(cases):
            # the real code did not get through this case (hang until the time limit, or the process died): that case
            # is the failing input
            sc = cases[MAIN_STUCK[0]]
            obj.update({"no_failing_input_found": False, "signature": f"{pid}/stuck", "kind": "stuck", "found_in_case": sc["id"],
                        "ops": sc["ops"], "answered_ops": MAIN_STUCK[1],
                        "detail": "the implementation did not finish this case (%s); %d of %d ops were answered before" % (
                            str(harness_broken)[:200], MAIN_STUCK[1], len(sc["ops"]))})
            nofail = False
        violations.append((write_replay(pid, seed, n, obj), nofail))

    # ---- evidence
    distinct = {}
    for c in cases:
        if c.get("nt"):
            distinct[case_hash(c)] = 1
    op_hist = collections.Counter()
    for c in cases:
        for op in c["ops"]:
            op_hist[op.split(" ")[0]] += 1
    samples = []
    if io is not None:
        picks = [i for i, c in enumerate(cases) if c.get("nt")][:2] + [i for i, c in enumerate(cases) if c.get("nt")][-1:]
        for i in picks:
            c = cases[i]
            samples.append({"case": c["id"], "ops": c["ops"][:12], "impl": io[i][:12], "model": mo[i][:12],
                            "truncated_to": 12 if len(c["ops"]) > 12 else len(c["ops"])})
    if not samples:
        samples = [{"note": "correspondence did not run", "problems": problems, "harness": str(harness_broken)}]
    discharged = sum(1 for o in obligations if o["discharged"])
    ev = {
        "property_id": pid, "tier": tier, "seed": seed, "level": cfg.get("level", "proof"),
        "coverage": {
            "obligations": len(obligations), "discharged": discharged,
            "checker_cmd": " && ".join(cmds),
            "trusted_base": [
                "Lean 4.33.0 kernel" + (" + leanchecker re-check" if tier == "thorough" else ""),
                "axioms allowed: propext, Classical.choice, Quot.sound (audited per theorem below); no sorry/native_decide/bv_decide/own axioms (grep'd)",
                "hand-written Lean model " + ", ".join(cfg.get("models", [])) + " — tied to /repo by the differential correspondence run of this check (generator quality bounds what it sees)",
                "Go harness + python orchestration (harness/, lib/) and the Lean compiler for the driver executable",
            ] + cfg.get("trusted_extra", []),
            "theorems": [{"name": o["name"], "axioms": o["axioms"], "discharged": o["discharged"]} for o in obligations],
            "evaluations": len(cases) + extra_evals,
            "distinct_nontrivial": len(distinct),
            "rule": rule,
            "samples": samples,
            "traces_validated_against_impl": traces_ok,
            "corpus_cases": corpus_n,
            "ops_total": sum(len(c["ops"]) for c in cases),
            "op_histogram": dict(op_hist.most_common(30)),
            "impl_output_histogram": dict(out_hist.most_common(20)),
            "correspondence_disagreements": diffs,
            "unstable_divergences_not_reproduced": unstable,
            "oracle_failures": len(fails),
            "known_findings_hit": known_lines,
            "explanation": cfg.get("explanation", ""),
        },
        "assumptions": cfg.get("assumptions", []),
        "wall_s": round(time.time() - t0, 2),
        "violations": len(violations),
    }
    os.makedirs(os.path.join(ROOT, "evidence"), exist_ok=True)
    with open(os.path.join(ROOT, "evidence", pid + ".json"), "w") as f:
        json.dump(ev, f, indent=1)

    for l in known_lines:
        print(l)
    for path, nofail in violations:
        print(f"VIOLATION property={pid} replay={path}" + (" no-failing-input-found" if nofail else ""))
    print(f"{pid}: tier={tier} seed={seed} obligations={discharged}/{len(obligations)} cases={len(cases)} "
          f"distinct_nontrivial={len(distinct)} agree={traces_ok} diffs={diffs} oracle_fails={len(fails)} "
          f"violations={len(violations)} wall={ev['wall_s']}s")
    return 1 if violations else 0


if __name__ == "__main__":
    main()
