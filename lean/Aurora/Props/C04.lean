import Aurora.Lemmas.Cac
import Aurora.Generated.Consts
/-!
# C04 — Content-addressed chunk validity is exact

Model: `Aurora/Model/Cac.lean` (hand translation of `/repo/pkg/cac/cac.go`) on top of the BMT
hasher model; tied to the Go code by the C04 correspondence run.  Statements hold for every
base hash `H`, segment size `seg > 0`, depth `d` (repository: `seg = 32`, `d = 12`, so
`maxSize = 262144 = ChunkSize`; see `C04_consts`) and every stale content of the pooled tree.
"Changing a byte invalidates" needs collision-freedom of `H`; it is a *hypothesis* restricted to
exactly the inputs `H` is evaluated on in the two hash computations (`hashInputs`).
-/
namespace Aurora.Cac
open Aurora.Bmt

variable (H : Bytes → Bytes)

/-- **Validity is exact**: a chunk is valid iff its payload is between 8 and `maxSize + 8` bytes
    long and its address is the BMT hash of `payload[8:]` under the span `payload[:8]`. -/
theorem C04_valid_iff (seg d : Nat) (hs : 0 < seg) (stale : Bytes) (hb : stale.length = maxSize seg d)
    (c : Chunk) :
    valid H seg d stale c = true ↔
      (8 ≤ c.data.length ∧ c.data.length ≤ maxSize seg d + 8 ∧
        c.addr = bmtHash H seg d (c.data.take 8) (c.data.drop 8)) := by
  unfold valid
  by_cases h1 : c.data.length < 8
  · simp [h1]; omega
  · by_cases h2 : c.data.length > maxSize seg d + 8
    · simp [h1, h2]; omega
    · simp only [h1, h2, if_false]
      rw [hashWith_eq H seg d hs stale hb _ _ (by rw [List.length_take]; omega)
        (by rw [List.length_drop]; omega)]
      constructor
      · intro h; exact ⟨by omega, by omega, (by simpa using h : _ = _).symm⟩
      · intro h; simp [h.2.2]

/-- `New(data)` for 1 … `maxSize` bytes of data produces a valid chunk whose payload is the
    little-endian length followed by the data. -/
theorem C04_new_valid (seg d : Nat) (hs : 0 < seg) (stale stale' : Bytes)
    (hb : stale.length = maxSize seg d) (hb' : stale'.length = maxSize seg d)
    (data : Bytes) (h1 : 1 ≤ data.length) (h2 : data.length ≤ maxSize seg d) :
    ∃ c, new H seg d stale data = .ok c ∧ c.data = le64 data.length ++ data ∧
      c.addr = bmtHash H seg d (le64 data.length) data ∧ valid H seg d stale' c = true := by
  have hle : (le64 data.length).length = 8 := by simp [le64]
  have hne1 : ¬ data.length > maxSize seg d := by omega
  have hne2 : ¬ data.length = 0 := by omega
  refine ⟨_, by simp only [new, hne1, hne2, if_false]; rfl, rfl, ?_, ?_⟩
  · exact hashWith_eq H seg d hs stale hb _ _ hle h2
  · rw [C04_valid_iff H seg d hs stale' hb']
    simp only [List.length_append, hle]
    refine ⟨by omega, by omega, ?_⟩
    rw [hashWith_eq H seg d hs stale hb _ _ hle h2]
    rw [List.take_left' hle, List.drop_left' hle]

/-- `New` rejects empty data and data longer than the chunk size. -/
theorem C04_new_rejects (seg d : Nat) (stale data : Bytes) :
    (data.length = 0 → 0 < maxSize seg d → new H seg d stale data = .error .tooShort) ∧
    (data.length > maxSize seg d → new H seg d stale data = .error .tooLarge) := by
  constructor
  · intro h hm; simp [new, h]
  · intro h; simp [new, h]

/-- `NewWithDataSpan(p)` accepts exactly 8 … `maxSize+8` bytes and then yields a valid chunk with
    payload `p`. -/
theorem C04_newWithDataSpan_spec (seg d : Nat) (hs : 0 < seg) (stale stale' : Bytes)
    (hb : stale.length = maxSize seg d) (hb' : stale'.length = maxSize seg d) (p : Bytes) :
    (p.length < 8 → p.length ≤ maxSize seg d + 8 → newWithDataSpan H seg d stale p = .error .tooShort) ∧
    (p.length > maxSize seg d + 8 → newWithDataSpan H seg d stale p = .error .tooLarge) ∧
    (8 ≤ p.length → p.length ≤ maxSize seg d + 8 →
      ∃ c, newWithDataSpan H seg d stale p = .ok c ∧ c.data = p ∧ valid H seg d stale' c = true) := by
  refine ⟨?_, ?_, ?_⟩
  · intro h1 h2
    have : ¬ p.length > maxSize seg d + 8 := by omega
    simp [newWithDataSpan, this, h1]
  · intro h; simp [newWithDataSpan, h]
  · intro h1 h2
    have n1 : ¬ p.length > maxSize seg d + 8 := by omega
    have n2 : ¬ p.length < 8 := by omega
    refine ⟨_, by simp only [newWithDataSpan, n1, n2, if_false]; rfl, List.take_append_drop 8 p, ?_⟩
    rw [C04_valid_iff H seg d hs stale' hb']
    simp only [List.take_append_drop]
    refine ⟨h1, h2, ?_⟩
    exact hashWith_eq H seg d hs stale hb _ _ (by rw [List.length_take]; omega) (by rw [List.length_drop]; omega)

/-- **Changing the address invalidates**: a valid chunk with any other address is invalid
    (no hypothesis on `H` needed). -/
theorem C04_mutate_addr_invalid (seg d : Nat) (stale : Bytes) (c : Chunk) (addr' : Bytes)
    (hv : valid H seg d stale c = true) (hne : addr' ≠ c.addr) :
    valid H seg d stale { c with addr := addr' } = false := by
  unfold valid at hv ⊢
  by_cases h1 : c.data.length < 8
  · simp [h1] at hv
  · by_cases h2 : c.data.length > maxSize seg d + 8
    · simp [h1, h2] at hv
    · simp only [h1, h2, if_false] at hv ⊢
      have : hashWith H seg d stale (c.data.take 8) (c.data.drop 8) = c.addr := by simpa using hv
      simp [this, Ne.symm hne]

/-- **Changing the payload invalidates**: if `H` produces `seg`-byte digests and has no collision
    among the inputs evaluated while hashing the two payloads, then a valid chunk whose payload is
    replaced by a different payload of the same length (in particular: one byte changed) is
    invalid. -/
theorem C04_mutate_payload_invalid (seg d : Nat) (hs : 0 < seg) (stale : Bytes)
    (hb : stale.length = maxSize seg d) (hlen : ∀ x, (H x).length = seg)
    (c : Chunk) (p' : Bytes) (hv : valid H seg d stale c = true)
    (hl : p'.length = c.data.length) (hne : p' ≠ c.data)
    (cf : CollisionFree H (hashInputs H seg d (c.data.take 8) (c.data.drop 8)
            ++ hashInputs H seg d (p'.take 8) (p'.drop 8))) :
    valid H seg d stale { c with data := p' } = false := by
  rw [C04_valid_iff H seg d hs stale hb] at hv
  obtain ⟨h1, h2, h3⟩ := hv
  cases hv' : valid H seg d stale { c with data := p' } with
  | false => rfl
  | true =>
    rw [C04_valid_iff H seg d hs stale hb] at hv'
    obtain ⟨_, _, h3'⟩ := hv'
    simp only at h3'
    have heq := h3.symm.trans h3'
    have := bmtHash_inj H seg d hlen _ _ _ _ (by simp [hl]) (by simp [hl])
      (by rw [List.length_drop]; omega) cf heq
    exfalso
    apply hne
    rw [← List.take_append_drop 8 p', ← List.take_append_drop 8 c.data, this.1, this.2]

/-- What the statement above does *not* say (so it is not silently stronger than the code):
    zero padding makes payloads of different lengths collide when the span is equal — the
    32-byte payload `span ‖ data` and `span ‖ data ‖ 0` have the same BMT hash; the property is
    about byte mutation (same length), and length is bound by the span only by convention. -/
theorem C04_padding_collision (seg d : Nat) (span data : Bytes) (h : data.length + 1 ≤ maxSize seg d) :
    bmtHash H seg d span data = bmtHash H seg d span (data ++ [0]) := by
  unfold bmtHash pad
  congr 3
  rw [List.append_assoc]
  congr 1
  rw [List.length_append, List.length_singleton]
  have : maxSize seg d - data.length = (maxSize seg d - (data.length + 1)) + 1 := by omega
  rw [this]
  simp [zeros, List.replicate_succ]

/-- The parameters the repository instantiates the model with are the generated constants. -/
theorem C04_consts :
    Aurora.Generated.chunkSize = maxSize 32 12 ∧ Aurora.Generated.spanSize = 8 ∧
    Aurora.Generated.bmtBranches = 2 ^ (12 + 1) ∧ Aurora.Generated.hashSize = 32 ∧
    Aurora.Generated.chunkWithSpanSize = maxSize 32 12 + 8 := by decide

/-- Non-vacuity of `C04_mutate_payload_invalid`'s collision-freedom premise: for a toy hash
    (`seg = 1`, `d = 0`) two payloads differing in one byte have collision-free hash inputs. -/
example :
    let H : Bytes → Bytes := fun x => [x.foldl (fun a b => a * 3 + b + 1) 0]
    (∀ x, (H x).length = 1) ∧
    CollisionFree H (hashInputs H 1 0 [1,0,0,0,0,0,0,0] [7] ++ hashInputs H 1 0 [1,0,0,0,0,0,0,0] [9]) := by
  refine ⟨fun _ => rfl, ?_⟩
  intro a ha b hb
  simp [hashInputs, rootInputs, bmtRoot, pad, maxSize, zeros] at ha hb
  rcases ha with rfl | rfl | rfl | rfl <;> rcases hb with rfl | rfl | rfl | rfl <;> decide

end Aurora.Cac
