import Aurora.Model.Group
/-!
Model of multicast flooding, `/repo/pkg/multicast/kademlia.go` (`Service.Multicast`,
`Service.onMulticast`) and `group.go` (`Group.multicast`, `Group.notifyMulticast`).

Node level (tied to the real handlers by the C38 correspondence run):
* two de-duplication sets keyed by `(origin,id)`: `seenOn` (cache key `onMulticast_<origin>_<id>`)
  and `seenMc` (cache key `Multicast_<origin>_<id>`).  Entries never expire in the model — the
  theorems are statements *within the one-minute window* `multicastMsgCache`.
* the node's group objects (gid, GType, `multicastSub`, the three peer lists), `msgSeq`.
* `origin = none` is the empty origin: `Multicast` then stamps `self` and `msgSeq+1`.
* when the node has no group object for the gid the code calls `getForwardNodes` (closest other
  group, random limit): modelled as an oracle list `fb` with the admissibility predicate
  `fallbackOK`.
* `Group.multicast` calls `discover(g)` when both lists are empty; with
  `KeepConnectedPeers = KeepPingPeers = 0` (the configuration of the run) that is a no-op.

Network level: nodes indexed by position, in-flight packets, a ghost event trace; steps
`originateAt`, `deliverAt`, `dropAt`, `dupAt`, `reconfigAt`.
Core Lean only.
-/
namespace Aurora.Flood
open Aurora.Group

inductive GType where
  | join | observe | known
deriving Repr, DecidableEq

structure GroupEntry where
  gid   : Nat
  gtype : GType
  sub   : Bool          -- `multicastSub`
  g     : Group
deriving Repr, DecidableEq

/-- de-duplication key `(origin, id)`; `none` = empty origin bytes -/
abbrev Key := Option Nat × Nat

structure Msg where
  origin : Option Nat
  id     : Nat
  gid    : Nat
deriving Repr, DecidableEq

def Msg.key (m : Msg) : Key := (m.origin, m.id)

structure Node where
  self   : Nat
  seq    : Nat := 0            -- `msgSeq`
  seenOn : List Key := []
  seenMc : List Key := []
  groups : List GroupEntry := []
deriving Repr, DecidableEq

def getGroup (n : Node) (gid : Nat) : Option GroupEntry :=
  n.groups.find? (fun ge => ge.gid = gid)

/-- result of one handler call -/
structure Out where
  node      : Node
  /-- `(destination, message)` in the order of the `sendData` calls -/
  sends     : List (Nat × Msg)
  /-- `notifyMulticast` published to the subscribers of the joined group -/
  notified  : Bool
  /-- the part of `Multicast` after the `Multicast_` de-duplication check was executed -/
  forwarded : Bool
  /-- the key under which that check was made (after stamping an empty origin) -/
  key       : Key
deriving Repr

/-- destinations of `Group.multicast(msg, skip...)`: connected then kept, skipping `skip`. -/
def groupTargets (g : Group) (skip : List Nat) : List Nat :=
  g.connected.filter (fun p => !(skip.contains p)) ++ g.kept.filter (fun p => !(skip.contains p))

def forwardLimit : Nat := Aurora.Generated.mcForwardLimit

/-- Admissible results of `getForwardNodes(gid, skip...)`: at most `2*forwardLimit` entries
    (step 1 or step 2 of `getForward`: ≤ `forwardLimit` from the connected list, then the same
    list again), each a connected peer of some group object of the node and not in `skip`. -/
def fallbackOK (n : Node) (skip : List Nat) (fb : List Nat) : Bool :=
  decide (fb.length ≤ 2 * forwardLimit) &&
  fb.all (fun x => !(skip.contains x) && n.groups.any (fun ge => ge.g.connected.contains x))

/-- first lines of `Multicast`: an empty origin is stamped with `self` and `msgSeq+1`
    (`atomic.AddUint64(&s.msgSeq, 1)` happens before the de-duplication check). -/
def stamp (n : Node) (m : Msg) : Node × Msg :=
  if m.origin = none then
    ({ n with seq := n.seq + 1 }, { m with origin := some n.self, id := n.seq + 1 })
  else (n, m)

/-- `Multicast` after stamping: `Multicast_` de-duplication, then `Group.multicast` or, without a
    group object, the `getForwardNodes` oracle `fb`. -/
def multicastCore (n1 : Node) (m1 : Msg) (skip : List Nat) (fb : List Nat) : Out :=
  if m1.key ∈ n1.seenMc then
    { node := n1, sends := [], notified := false, forwarded := false, key := m1.key }
  else
    let n2 := { n1 with seenMc := m1.key :: n1.seenMc }
    match getGroup n2 m1.gid with
    | some ge =>
      { node := n2, sends := (groupTargets ge.g skip).map (fun p => (p, m1)),
        notified := false, forwarded := true, key := m1.key }
    | none =>
      { node := n2, sends := fb.map (fun p => (p, m1)),
        notified := false, forwarded := true, key := m1.key }

/-- `Service.Multicast(info, skip...)`; `fb` is the oracle for `getForwardNodes`. -/
def multicast (n : Node) (m : Msg) (skip : List Nat) (fb : List Nat) : Out :=
  multicastCore (stamp n m).1 (stamp n m).2 skip fb

/-- `Service.onMulticast` for a message `m` read from a stream of peer `from`. -/
def onMulticast (n : Node) (m : Msg) (frm : Nat) (fb : List Nat) : Out :=
  if m.key ∈ n.seenOn then
    { node := n, sends := [], notified := false, forwarded := false, key := m.key }
  else
    let n1 := { n with seenOn := m.key :: n.seenOn }
    if m.origin = some n.self then
      { node := n1, sends := [], notified := false, forwarded := false, key := m.key }
    else
      let notified :=
        match getGroup n1 m.gid with
        | some ge => decide (ge.gtype = GType.join) && ge.sub
        | none => false
      let o := multicast n1 m [frm] fb
      { o with notified := notified }

/-! ### group management on a node (used by the driver) -/

/-- `newGroup` when absent (`sync.Map.Store`), else `Group.update` of the option (GType). -/
def setGroup (n : Node) (gid : Nat) (t : GType) : Node :=
  match getGroup n gid with
  | some _ => { n with groups := n.groups.map (fun ge => if ge.gid = gid then { ge with gtype := t } else ge) }
  | none => { n with groups := n.groups ++ [{ gid := gid, gtype := t, sub := false, g := Group.empty }] }

def updGroup (n : Node) (gid : Nat) (f : GroupEntry → GroupEntry) : Node :=
  { n with groups := n.groups.map (fun ge => if ge.gid = gid then f ge else ge) }

/-! ### network layer -/

structure Packet where
  frm : Nat
  to  : Nat
  msg : Msg
deriving Repr, DecidableEq

inductive Event where
  | notified (node : Nat) (key : Key)
  | forwarded (node : Nat) (key : Key)
deriving Repr, DecidableEq

structure Net where
  nodes    : List Node
  inflight : List Packet
  trace    : List Event := []
deriving Repr, DecidableEq

def outEvents (i : Nat) (inKey : Key) (o : Out) : List Event :=
  (if o.notified then [Event.notified i inKey] else []) ++
  (if o.forwarded then [Event.forwarded i o.key] else [])

def outPackets (i : Nat) (o : Out) : List Packet :=
  o.sends.map (fun s => { frm := i, to := s.1, msg := s.2 })

/-- node `i` multicasts a new message to group `gid` (API `Multicast` with empty origin). -/
def originateAt (s : Net) (i gid : Nat) (fb : List Nat) : Option Net :=
  match s.nodes[i]? with
  | none => none
  | some n =>
    let o := multicast n { origin := none, id := 0, gid := gid } [] fb
    some { nodes := s.nodes.set i o.node,
           inflight := s.inflight ++ outPackets i o,
           trace := s.trace ++ outEvents i o.key o }

/-- the `k`-th in-flight packet is handed to `onMulticast` of its destination (a packet to a
    non-existent node is lost). -/
def deliverAt (s : Net) (k : Nat) (fb : List Nat) : Option Net :=
  match s.inflight[k]? with
  | none => none
  | some p =>
    match s.nodes[p.to]? with
    | none => some { s with inflight := s.inflight.eraseIdx k }
    | some n =>
      let o := onMulticast n p.msg p.frm fb
      some { nodes := s.nodes.set p.to o.node,
             inflight := s.inflight.eraseIdx k ++ outPackets p.to o,
             trace := s.trace ++ outEvents p.to p.msg.key o }

/-- the `k`-th in-flight packet is lost. -/
def dropAt (s : Net) (k : Nat) : Option Net :=
  if k < s.inflight.length then some { s with inflight := s.inflight.eraseIdx k } else none

/-- the network duplicates the `k`-th in-flight packet. -/
def dupAt (s : Net) (k : Nat) : Option Net :=
  match s.inflight[k]? with
  | none => none
  | some p => some { s with inflight := s.inflight ++ [p] }

/-- arbitrary membership / configuration change at node `i` (any sequence of group events). -/
def reconfigAt (s : Net) (i : Nat) (groups : List GroupEntry) : Option Net :=
  match s.nodes[i]? with
  | none => none
  | some n => some { s with nodes := s.nodes.set i { n with groups := groups } }

/-- All steps (for the at-most-once invariants).  The `getForwardNodes` oracle is unconstrained
    here (any list). -/
inductive Step : Net → Net → Prop where
  | originate (s s' i gid fb) : originateAt s i gid fb = some s' → Step s s'
  | deliver (s s' k fb) : deliverAt s k fb = some s' → Step s s'
  | drop (s s' k) : dropAt s k = some s' → Step s s'
  | dup (s s' k) : dupAt s k = some s' → Step s s'
  | reconfig (s s' i gs) : reconfigAt s i gs = some s' → Step s s'

inductive Reach (s0 : Net) : Net → Prop where
  | refl : Reach s0 s0
  | step {s s'} : Reach s0 s → Step s s' → Reach s0 s'

/-- Flooding steps only (no new messages, no duplication by the network, static membership);
    the fallback oracle is admissible. -/
inductive FloodStep : Net → Net → Prop where
  | deliver (s s' k fb p n) : s.inflight[k]? = some p → s.nodes[p.to]? = some n →
      fallbackOK n [p.frm] fb = true → deliverAt s k fb = some s' → FloodStep s s'
  | lost (s s' k p) : s.inflight[k]? = some p → s.nodes[p.to]? = none →
      deliverAt s k [] = some s' → FloodStep s s'
  | drop (s s' k) : dropAt s k = some s' → FloodStep s s'

end Aurora.Flood
